/-
Helper lemmas about the `KV` model (C11): path arithmetic, the cursor view of a bucket, frame lemmas of the
store-level mutators, the well-formedness invariant.  Core Lean + Std only.
-/
import BtcwVerif.Model.KV
open Std

namespace KV

/-! ### paths -/

theorem childKey_eq_some {p q : Path} {k : Bytes} : childKey p q = some k ↔ q = p ++ [k] := by
  induction p generalizing q with
  | nil =>
    cases q with
    | nil => simp [childKey]
    | cons a q =>
      cases q with
      | nil => simp [childKey]
      | cons b q => simp [childKey]
  | cons a p ih =>
    cases q with
    | nil => simp [childKey]
    | cons b q =>
      simp only [childKey, List.cons_append, List.cons.injEq]
      by_cases h : a = b
      · subst h; simp [ih]
      · simp [h]; intro h'; exact absurd h'.symm h

theorem childKey_append (p : Path) (k : Bytes) : childKey p (p ++ [k]) = some k :=
  childKey_eq_some.mpr rfl

theorem compare_append_singleton (p : Path) (k k' : Bytes) :
    compare (p ++ [k]) (p ++ [k']) = compare k k' := by
  induction p with
  | nil => simp [List.compare_cons_cons]
  | cons a p ih => simp [List.compare_cons_cons, ih]

theorem append_singleton_ne_self (p : Path) (k : Bytes) : p ++ [k] ≠ p := by
  intro h
  have := congrArg List.length h
  simp at this

theorem append_singleton_ne_nil (p : Path) (k : Bytes) : p ++ [k] ≠ [] := by simp

theorem append_singleton_inj {p p' : Path} {k k' : Bytes} : p ++ [k] = p' ++ [k'] ↔ p = p' ∧ k = k' := by
  constructor
  · intro h
    have := List.append_inj' h rfl
    simpa using this
  · rintro ⟨rfl, rfl⟩; rfl

/-- a prefix of `q ++ [k]` is a prefix of `q` or all of it. -/
theorem prefix_append_singleton {r q : Path} {k : Bytes} : r <+: q ++ [k] ↔ r <+: q ∨ r = q ++ [k] := by
  rw [List.prefix_concat_iff]
  constructor
  · rintro (h | h)
    · exact Or.inr h
    · exact Or.inl h
  · rintro (h | h)
    · exact Or.inr h
    · exact Or.inl h

/-! ### the cursor view -/

theorem mem_view {d : DB} {p : Path} {k : Bytes} {s : Option Bytes} :
    (k, s) ∈ view d p ↔ ∃ e, d[p ++ [k]]? = some e ∧ e.shown = s := by
  unfold view
  rw [List.mem_filterMap]
  constructor
  · rintro ⟨⟨q, e⟩, hmem, hf⟩
    simp only [Option.map_eq_some_iff] at hf
    obtain ⟨k', hk', heq⟩ := hf
    have hq := childKey_eq_some.mp hk'
    simp only [Prod.mk.injEq] at heq
    obtain ⟨rfl, rfl⟩ := heq
    subst hq
    exact ⟨e, ExtTreeMap.mem_toList_iff_getElem?_eq_some.mp hmem, rfl⟩
  · rintro ⟨e, he, rfl⟩
    refine ⟨(p ++ [k], e), ExtTreeMap.mem_toList_iff_getElem?_eq_some.mpr he, ?_⟩
    simp [childKey_append]

/-- keys of a bucket come out in strictly ascending byte order. -/
theorem view_sorted (d : DB) (p : Path) :
    (view d p).Pairwise (fun a b => compare a.1 b.1 = .lt) := by
  unfold view
  refine List.Pairwise.filterMap _ ?_ (ExtTreeMap.ordered_keys_toList (t := d))
  intro a a' hlt b hb b' hb'
  simp only [Option.map_eq_some_iff] at hb hb'
  obtain ⟨k, hk, rfl⟩ := hb
  obtain ⟨k', hk', rfl⟩ := hb'
  have h1 := childKey_eq_some.mp hk
  have h2 := childKey_eq_some.mp hk'
  rw [h1, h2, compare_append_singleton] at hlt
  exact hlt

theorem lt_irrefl_bytes (a : Bytes) : compare a a ≠ .lt := by
  rw [compare_self]; decide

/-- two strictly sorted lists with the same members are equal. -/
theorem sorted_ext {l₁ l₂ : List (Bytes × Option Bytes)}
    (h₁ : l₁.Pairwise (fun a b => compare a.1 b.1 = .lt))
    (h₂ : l₂.Pairwise (fun a b => compare a.1 b.1 = .lt))
    (h : ∀ x, x ∈ l₁ ↔ x ∈ l₂) : l₁ = l₂ := by
  have nd : ∀ {l : List (Bytes × Option Bytes)}, l.Pairwise (fun a b => compare a.1 b.1 = .lt) → l.Nodup := by
    intro l hl
    refine hl.imp ?_
    intro a b hab heq
    subst heq
    exact lt_irrefl_bytes _ hab
  have hp : l₁.Perm l₂ := (List.perm_ext_iff_of_nodup (nd h₁) (nd h₂)).mpr h
  refine List.Perm.eq_of_pairwise ?_ h₁ h₂ hp
  intro a b _ _ hab hba
  have := TransCmp.lt_trans (cmp := (compare : Bytes → Bytes → Ordering)) hab hba
  exact absurd this (lt_irrefl_bytes _)

/-- The view of bucket `p` depends only on what the entries directly under `p` show. -/
theorem view_ext {d d' : DB} {p : Path}
    (h : ∀ k, (d[p ++ [k]]?).map Entry.shown = (d'[p ++ [k]]?).map Entry.shown) : view d p = view d' p := by
  refine sorted_ext (view_sorted d p) (view_sorted d' p) ?_
  rintro ⟨k, s⟩
  rw [mem_view, mem_view]
  have hk := h k
  constructor
  · rintro ⟨e, he, hs⟩
    rw [he] at hk
    cases hd : d'[p ++ [k]]? with
    | none => rw [hd] at hk; simp at hk
    | some e' =>
      rw [hd] at hk
      simp only [Option.map_some, Option.some.injEq] at hk
      exact ⟨e', rfl, hk ▸ hs⟩
  · rintro ⟨e, he, hs⟩
    rw [he] at hk
    cases hd : d[p ++ [k]]? with
    | none => rw [hd] at hk; simp at hk
    | some e' =>
      rw [hd] at hk
      simp only [Option.map_some, Option.some.injEq] at hk
      exact ⟨e', rfl, hk ▸ hs⟩

/-! ### lookups after the map primitives (keys compared with `=`) -/

theorem get_insert (d : DB) (a q : Path) (e : Entry) :
    (d.insert a e)[q]? = if a = q then some e else d[q]? := by
  rw [ExtTreeMap.getElem?_insert]
  simp only [compare_eq_iff_eq]

theorem get_erase (d : DB) (a q : Path) :
    (d.erase a)[q]? = if a = q then none else d[q]? := by
  rw [ExtTreeMap.getElem?_erase]
  simp only [compare_eq_iff_eq]

theorem get_filter (d : DB) (f : Path → Entry → Bool) (q : Path) :
    (d.filter f)[q]? = (d[q]?).filter (f q) := ExtTreeMap.getElem?_filter'

/-! ### what the store-level mutators change -/

theorem put_ok {d d' : DB} {p : Path} {k v : Bytes} (h : put d p k v = .ok d') :
    d' = d.insert (p ++ [k]) (.val v) ∧ k ≠ [] ∧ (∀ s, d[p ++ [k]]? ≠ some (.bucket s)) := by
  unfold put at h
  split at h; · cases h
  split at h; · cases h
  split at h; · cases h
  rename_i hk _ _
  have hk' : k ≠ [] := by intro hnil; subst hnil; simp at hk
  split at h
  · cases h
  · rename_i hnb
    cases h
    exact ⟨rfl, hk', fun s hs => hnb s hs⟩

theorem delete_ok {d d' : DB} {p : Path} {k : Bytes} (h : delete d p k = .ok d') :
    d' = d.erase (p ++ [k]) ∧ (∀ s, d[p ++ [k]]? ≠ some (.bucket s)) := by
  unfold delete at h
  split at h
  · rename_i hn
    cases h
    refine ⟨?_, fun s hs => by rw [hn] at hs; cases hs⟩
    apply ExtTreeMap.ext_getElem?
    intro q
    rw [get_erase]
    split
    · rename_i hq; subst hq; exact hn
    · rfl
  · cases h
  · rename_i v hv
    cases h
    exact ⟨rfl, fun s hs => by rw [hv] at hs; cases hs⟩

theorem createBucket_ok {d d' : DB} {p : Path} {n : Bytes} (h : createBucket d p n = .ok d') :
    d' = d.insert (p ++ [n]) (.bucket 0) ∧ n ≠ [] ∧ d[p ++ [n]]? = none := by
  unfold createBucket at h
  split at h; · cases h
  rename_i hn
  have hn' : n ≠ [] := by intro hnil; subst hnil; simp at hn
  split at h
  · cases h
  · cases h
  · rename_i hnone
    cases h
    exact ⟨rfl, hn', hnone⟩

theorem createBucketIfNotExists_ok {d d' : DB} {p : Path} {n : Bytes}
    (h : createBucketIfNotExists d p n = .ok d') :
    (d' = d ∧ ∃ s, d[p ++ [n]]? = some (.bucket s)) ∨
    (d' = d.insert (p ++ [n]) (.bucket 0) ∧ n ≠ [] ∧ d[p ++ [n]]? = none) := by
  unfold createBucketIfNotExists at h
  split at h
  · rename_i hex
    cases h
    left
    refine ⟨rfl, ?_⟩
    unfold createBucket at hex
    split at hex; · cases hex
    split at hex
    · rename_i s hs; exact ⟨s, hs⟩
    · cases hex
    · cases hex
  · rename_i r hne
    right
    exact createBucket_ok h

theorem deleteBucket_ok {d d' : DB} {p : Path} {n : Bytes} (h : deleteBucket d p n = .ok d') :
    d' = d.filter (fun q _ => !(p ++ [n]).isPrefixOf q) ∧ ∃ s, d[p ++ [n]]? = some (.bucket s) := by
  unfold deleteBucket at h
  split at h
  · split at h <;> cases h
  · cases h
  · rename_i s hs
    cases h
    exact ⟨rfl, s, hs⟩

theorem get_deleteBucket (d : DB) (a q : Path) :
    (d.filter (fun q _ => !a.isPrefixOf q))[q]? = if a <+: q then none else d[q]? := by
  rw [get_filter]
  by_cases h : a <+: q
  · have : a.isPrefixOf q = true := List.isPrefixOf_iff_prefix.mpr h
    simp [h, this, Option.filter]
    cases d[q]? <;> simp
  · have : a.isPrefixOf q = false := by
      cases hb : a.isPrefixOf q
      · rfl
      · exact absurd (List.isPrefixOf_iff_prefix.mp hb) h
    simp [h, this, Option.filter]
    cases d[q]? <;> simp

/-! ### projections of the bookkeeping helpers -/

section proj
variable (t : Tx) (p : Path)

@[simp] theorem noteHandle_work : (t.noteHandle p).work = t.work := by unfold Tx.noteHandle; split <;> rfl
@[simp] theorem noteHandle_db : (t.noteHandle p).db = t.db := by unfold Tx.noteHandle; split <;> rfl
@[simp] theorem noteHandle_closed : (t.noteHandle p).closed = t.closed := by unfold Tx.noteHandle; split <;> rfl
@[simp] theorem noteHandle_writable : (t.noteHandle p).writable = t.writable := by unfold Tx.noteHandle; split <;> rfl
@[simp] theorem noteHandle_managed : (t.noteHandle p).managed = t.managed := by unfold Tx.noteHandle; split <;> rfl
@[simp] theorem noteHandle_cursors : (t.noteHandle p).cursors = t.cursors := by unfold Tx.noteHandle; split <;> rfl
@[simp] theorem noteHandle_pending : (t.noteHandle p).pending = t.pending := by unfold Tx.noteHandle; split <;> rfl
@[simp] theorem noteHandle_fired : (t.noteHandle p).fired = t.fired := by unfold Tx.noteHandle; split <;> rfl

@[simp] theorem touchCursors_work : (t.touchCursors p).work = t.work := rfl
@[simp] theorem touchCursors_db : (t.touchCursors p).db = t.db := rfl
@[simp] theorem touchCursors_closed : (t.touchCursors p).closed = t.closed := rfl
@[simp] theorem touchCursors_writable : (t.touchCursors p).writable = t.writable := rfl
@[simp] theorem touchCursors_managed : (t.touchCursors p).managed = t.managed := rfl
@[simp] theorem touchCursors_pending : (t.touchCursors p).pending = t.pending := rfl
@[simp] theorem touchCursors_fired : (t.touchCursors p).fired = t.fired := rfl

@[simp] theorem killCursors_work : (t.killCursors p).work = t.work := rfl
@[simp] theorem killCursors_db : (t.killCursors p).db = t.db := rfl
@[simp] theorem killCursors_closed : (t.killCursors p).closed = t.closed := rfl
@[simp] theorem killCursors_writable : (t.killCursors p).writable = t.writable := rfl
@[simp] theorem killCursors_managed : (t.killCursors p).managed = t.managed := rfl
@[simp] theorem killCursors_pending : (t.killCursors p).pending = t.pending := rfl
@[simp] theorem killCursors_fired : (t.killCursors p).fired = t.fired := rfl

variable (i : Nat) (c : Cursor)
@[simp] theorem setCursor_work : (t.setCursor i c).work = t.work := rfl
@[simp] theorem setCursor_db : (t.setCursor i c).db = t.db := rfl
@[simp] theorem setCursor_closed : (t.setCursor i c).closed = t.closed := rfl
@[simp] theorem setCursor_writable : (t.setCursor i c).writable = t.writable := rfl
@[simp] theorem setCursor_managed : (t.setCursor i c).managed = t.managed := rfl
@[simp] theorem setCursor_pending : (t.setCursor i c).pending = t.pending := rfl
@[simp] theorem setCursor_fired : (t.setCursor i c).fired = t.fired := rfl
end proj

/-- the parts of a transaction that matter for the database (everything but cursors and the handle flag). -/
structure SameCore (t t' : Tx) : Prop where
  work : t'.work = t.work
  db : t'.db = t.db
  closed : t'.closed = t.closed
  writable : t'.writable = t.writable
  managed : t'.managed = t.managed
  pending : t'.pending = t.pending
  fired : t'.fired = t.fired

theorem SameCore.refl (t : Tx) : SameCore t t := ⟨rfl, rfl, rfl, rfl, rfl, rfl, rfl⟩

theorem SameCore.trans {a b c : Tx} (h₁ : SameCore a b) (h₂ : SameCore b c) : SameCore a c :=
  ⟨h₂.work.trans h₁.work, h₂.db.trans h₁.db, h₂.closed.trans h₁.closed, h₂.writable.trans h₁.writable,
   h₂.managed.trans h₁.managed, h₂.pending.trans h₁.pending, h₂.fired.trans h₁.fired⟩

theorem sameCore_noteHandle (t : Tx) (p : Path) : SameCore t (t.noteHandle p) := ⟨by simp, by simp, by simp, by simp, by simp, by simp, by simp⟩
theorem sameCore_touchCursors (t : Tx) (p : Path) : SameCore t (t.touchCursors p) := ⟨rfl, rfl, rfl, rfl, rfl, rfl, rfl⟩
theorem sameCore_killCursors (t : Tx) (p : Path) : SameCore t (t.killCursors p) := ⟨rfl, rfl, rfl, rfl, rfl, rfl, rfl⟩
theorem sameCore_setCursor (t : Tx) (i : Nat) (c : Cursor) : SameCore t (t.setCursor i c) := ⟨rfl, rfl, rfl, rfl, rfl, rfl, rfl⟩

theorem curMove_sameCore (t : Tx) (i : Nat) (b : Bool) (f) : SameCore t (t.curMove i b f).1 := by
  unfold Tx.curMove
  split
  · exact SameCore.refl t
  · split
    · exact SameCore.refl t
    · split
      · exact SameCore.refl t
      · exact sameCore_setCursor _ _ _

/-- `guardW` lets a mutator through only on an open, writable transaction whose bucket resolves. -/
theorem guardW_none {t : Tx} {p : Path} {raw : Bool} (h : t.guardW p raw = none) :
    t.closed = false ∧ isBucket t.work p = true ∧ t.writable = true := by
  unfold Tx.guardW at h
  split at h
  · split at h <;> cases h
  · split at h
    · cases h
    · split at h
      · cases h
      · rename_i h1 h2 h3
        simp at h1 h2 h3
        exact ⟨h1, h2, h3⟩

/-! ### what one call can do to a transaction -/

/-- What one call can do to the database-relevant part of a transaction. -/
structure StepCore (t : Tx) (op : Op) (t' : Tx) : Prop where
  writable : t'.writable = t.writable
  managed : t'.managed = t.managed
  db : t'.db = t.db ∨ (op = .commit ∧ t.closed = false ∧ t.writable = true ∧ t.managed = false ∧ t'.db = t.work)
  work : t'.work = t.work ∨ (t.closed = false ∧ t.writable = true)
  closed : t'.closed = t.closed ∨ (t'.closed = true ∧ t.managed = false ∧ (op = .commit ∨ op = .rollback))
  pending : t'.pending = t.pending ∨ (op = .onCommit ∧ t'.pending = t.pending + 1) ∨ op = .commit
  fired : t'.fired = t.fired ∨ (op = .commit ∧ t'.fired = t.fired + t.pending)

theorem StepCore.of_same {t t' : Tx} {op : Op} (h : SameCore t t') : StepCore t op t' :=
  ⟨h.writable, h.managed, .inl h.db, .inl h.work, .inl h.closed, .inl h.pending, .inl h.fired⟩

theorem StepCore.of_write {t0 t t' : Tx} {op : Op} (hs : SameCore t0 t)
    (ho : t.closed = false) (hw : t.writable = true)
    (h1 : t'.writable = t.writable) (h2 : t'.managed = t.managed) (h3 : t'.db = t.db) (h4 : t'.closed = t.closed)
    (h5 : t'.pending = t.pending) (h6 : t'.fired = t.fired) :
    StepCore t0 op t' :=
  ⟨h1.trans hs.writable, h2.trans hs.managed, .inl (h3.trans hs.db), .inr ⟨hs.closed ▸ ho, hs.writable ▸ hw⟩,
   .inl (h4.trans hs.closed), .inl (h5.trans hs.pending), .inl (h6.trans hs.fired)⟩

theorem applyW_core (t0 t : Tx) (op : Op) (p : Path) (r : Except Err DB) (hs : SameCore t0 t)
    (ho : t.closed = false) (hw : t.writable = true) : StepCore t0 op (t.applyW p r).1 := by
  unfold Tx.applyW
  split
  · exact .of_write hs ho hw rfl rfl rfl rfl rfl rfl
  · exact StepCore.of_same (hs.trans (sameCore_touchCursors _ _))

theorem step_core (t : Tx) (op : Op) : StepCore t op (step t op).1 := by
  cases op with
  | put p k v =>
    simp only [step]
    split
    · exact .of_same (sameCore_noteHandle _ _)
    · rename_i hg
      have := guardW_none hg
      exact applyW_core _ _ _ _ _ (sameCore_noteHandle _ _) this.1 this.2.2
  | delete p k =>
    simp only [step]
    split
    · exact .of_same (sameCore_noteHandle _ _)
    · rename_i hg
      have := guardW_none hg
      exact applyW_core _ _ _ _ _ (sameCore_noteHandle _ _) this.1 this.2.2
  | createBucket p n =>
    simp only [step]
    split
    · exact .of_same (sameCore_noteHandle _ _)
    · rename_i hg
      have := guardW_none hg
      exact applyW_core _ _ _ _ _ (sameCore_noteHandle _ _) this.1 this.2.2
  | createBucketIfNotExists p n =>
    simp only [step]
    split
    · exact .of_same (sameCore_noteHandle _ _)
    · rename_i hg
      have := guardW_none hg
      exact applyW_core _ _ _ _ _ (sameCore_noteHandle _ _) this.1 this.2.2
  | deleteBucket p n =>
    simp only [step]
    split
    · exact .of_same (sameCore_noteHandle _ _)
    · rename_i hg
      have := guardW_none hg
      split
      · exact .of_write (sameCore_noteHandle _ _) this.1 this.2.2 rfl rfl rfl rfl rfl rfl
      · exact .of_same ((sameCore_noteHandle _ _).trans (sameCore_touchCursors _ _))
  | setSequence p n =>
    simp only [step]
    split
    · exact .of_same (sameCore_noteHandle _ _)
    · rename_i hg
      have := guardW_none hg
      exact .of_write (sameCore_noteHandle _ _) this.1 this.2.2 rfl rfl rfl rfl rfl rfl
  | nextSequence p =>
    simp only [step]
    split
    · exact .of_same (sameCore_noteHandle _ _)
    · rename_i hg
      have := guardW_none hg
      exact .of_write (sameCore_noteHandle _ _) this.1 this.2.2 rfl rfl rfl rfl rfl rfl
  | get p k =>
    simp only [step]
    split <;> exact .of_same (sameCore_noteHandle _ _)
  | sequence p =>
    simp only [step]
    split <;> exact .of_same (sameCore_noteHandle _ _)
  | lookup p n =>
    simp only [step]
    split
    · exact .of_same (sameCore_noteHandle _ _)
    · exact .of_same ((sameCore_noteHandle _ _).trans (sameCore_noteHandle _ _))
  | forEach p l =>
    simp only [step]
    split
    · split <;> exact .of_same (sameCore_noteHandle _ _)
    · split
      · exact .of_same (sameCore_noteHandle _ _)
      · split
        · exact .of_same (sameCore_noteHandle _ _)
        · split <;> exact .of_same (sameCore_noteHandle _ _)
  | curOpen i p =>
    simp only [step]
    split
    · exact .of_same (sameCore_noteHandle _ _)
    · exact .of_same ((sameCore_noteHandle _ _).trans (sameCore_setCursor _ _ _))
  | curFirst i => exact .of_same (curMove_sameCore _ _ _ _)
  | curLast i => exact .of_same (curMove_sameCore _ _ _ _)
  | curNext i => exact .of_same (curMove_sameCore _ _ _ _)
  | curPrev i => exact .of_same (curMove_sameCore _ _ _ _)
  | curSeek i k => exact .of_same (curMove_sameCore _ _ _ _)
  | curDelete i =>
    simp only [step]
    split
    · exact .of_same (.refl _)
    · split
      · exact .of_same (.refl _)
      · split
        · exact .of_same (.refl _)
        · rename_i hc hw
          simp at hc hw
          split
          · exact .of_same (.refl _)
          · exact .of_same (.refl _)
          · split
            · exact .of_same (sameCore_touchCursors _ _)
            · exact .of_same (sameCore_touchCursors _ _)
            · exact .of_write (.refl _) hc hw rfl rfl rfl rfl rfl rfl
  | commit =>
    simp only [step]
    split
    · exact .of_same (.refl _)
    · split
      · exact .of_same (.refl _)
      · split
        · exact .of_same (.refl _)
        · rename_i hm hc hw
          simp at hm hc hw
          exact ⟨rfl, rfl, .inr ⟨rfl, hc, hw, hm, rfl⟩, .inl rfl, .inr ⟨rfl, hm, .inl rfl⟩, .inr (.inr rfl), .inr ⟨rfl, rfl⟩⟩
  | rollback =>
    simp only [step]
    split
    · exact .of_same (.refl _)
    · split
      · exact .of_same (.refl _)
      · rename_i hm hc
        simp at hm hc
        exact ⟨rfl, rfl, .inl rfl, .inl rfl, .inr ⟨rfl, hm, .inr rfl⟩, .inl rfl, .inl rfl⟩
  | onCommit =>
    simp only [step]
    exact ⟨rfl, rfl, .inl rfl, .inl rfl, .inl rfl, .inr (.inl ⟨rfl, rfl⟩), .inl rfl⟩

/-! ### programs -/

theorem runOps_nil (t : Tx) : runOps t [] = (t, []) := rfl

theorem runOps_cons (t : Tx) (op : Op) (rest : List Op) :
    runOps t (op :: rest) = ((runOps (step t op).1 rest).1, (step t op).2 :: (runOps (step t op).1 rest).2) := rfl

theorem runOps_append (t : Tx) (a b : List Op) :
    runOps t (a ++ b) = ((runOps (runOps t a).1 b).1, (runOps t a).2 ++ (runOps (runOps t a).1 b).2) := by
  induction a generalizing t with
  | nil => rfl
  | cons op rest ih => simp only [List.cons_append, runOps_cons, ih]

theorem runOps_writable (t : Tx) (ops : List Op) : (runOps t ops).1.writable = t.writable := by
  induction ops generalizing t with
  | nil => rfl
  | cons op rest ih => rw [runOps_cons]; exact (ih _).trans (step_core t op).writable

theorem runOps_managed (t : Tx) (ops : List Op) : (runOps t ops).1.managed = t.managed := by
  induction ops generalizing t with
  | nil => rfl
  | cons op rest ih => rw [runOps_cons]; exact (ih _).trans (step_core t op).managed

/-- without an explicit `Commit` through the handle the committed state is untouched. -/
theorem runOps_db_of_no_commit (t : Tx) (ops : List Op) (h : Op.commit ∉ ops) : (runOps t ops).1.db = t.db := by
  induction ops generalizing t with
  | nil => rfl
  | cons op rest ih =>
    rw [runOps_cons]
    have hop : op ≠ .commit := fun e => h (e ▸ List.mem_cons_self)
    have hrest : Op.commit ∉ rest := fun m => h (List.mem_cons_of_mem _ m)
    refine (ih _ hrest).trans ?_
    rcases (step_core t op).db with h' | ⟨e, _⟩
    · exact h'
    · exact absurd e hop

/-- a read-only transaction never changes its working state nor the committed state. -/
theorem runOps_readonly (t : Tx) (ops : List Op) (h : t.writable = false) :
    (runOps t ops).1.work = t.work ∧ (runOps t ops).1.db = t.db := by
  induction ops generalizing t with
  | nil => exact ⟨rfl, rfl⟩
  | cons op rest ih =>
    rw [runOps_cons]
    have sc := step_core t op
    have ⟨h1, h2⟩ := ih (step t op).1 (sc.writable.trans h)
    constructor
    · refine h1.trans ?_
      rcases sc.work with h' | ⟨_, hw⟩
      · exact h'
      · rw [h] at hw; cases hw
    · refine h2.trans ?_
      rcases sc.db with h' | ⟨_, _, hw, _⟩
      · exact h'
      · rw [h] at hw; cases hw

/-- a closed transaction handle can no longer change anything. -/
theorem runOps_closed (t : Tx) (ops : List Op) (h : t.closed = true) :
    (runOps t ops).1.work = t.work ∧ (runOps t ops).1.db = t.db ∧ (runOps t ops).1.closed = true := by
  induction ops generalizing t with
  | nil => exact ⟨rfl, rfl, h⟩
  | cons op rest ih =>
    rw [runOps_cons]
    have sc := step_core t op
    have hc : (step t op).1.closed = true := by
      rcases sc.closed with h' | ⟨h', _⟩
      · exact h'.trans h
      · exact h'
    have ⟨h1, h2, h3⟩ := ih (step t op).1 hc
    refine ⟨h1.trans ?_, h2.trans ?_, h3⟩
    · rcases sc.work with h' | ⟨ho, _⟩
      · exact h'
      · rw [h] at ho; cases ho
    · rcases sc.db with h' | ⟨_, ho, _⟩
      · exact h'
      · rw [h] at ho; cases ho

/-- a program that never ends the transaction itself leaves it open. -/
theorem runOps_open (t : Tx) (ops : List Op) (h : ∀ op ∈ ops, op ≠ .commit ∧ op ≠ .rollback) :
    (runOps t ops).1.closed = t.closed := by
  induction ops generalizing t with
  | nil => rfl
  | cons op rest ih =>
    rw [runOps_cons]
    refine (ih _ (fun o ho => h o (List.mem_cons_of_mem _ ho))).trans ?_
    rcases (step_core t op).closed with h' | ⟨_, _, e⟩
    · exact h'
    · have := h op List.mem_cons_self
      rcases e with e | e
      · exact absurd e this.1
      · exact absurd e this.2

/-- in a bbolt-managed transaction (`Batch`) `Commit`/`Rollback` through the handle panic: it stays open and the
committed state untouched whatever the program does. -/
theorem runOps_managed_open (t : Tx) (ops : List Op) (h : t.managed = true) :
    (runOps t ops).1.closed = t.closed ∧ (runOps t ops).1.db = t.db := by
  induction ops generalizing t with
  | nil => exact ⟨rfl, rfl⟩
  | cons op rest ih =>
    rw [runOps_cons]
    have sc := step_core t op
    have ⟨h1, h2⟩ := ih (step t op).1 (sc.managed.trans h)
    constructor
    · refine h1.trans ?_
      rcases sc.closed with h' | ⟨_, hm, _⟩
      · exact h'
      · rw [h] at hm; cases hm
    · refine h2.trans ?_
      rcases sc.db with h' | ⟨_, _, _, hm, _⟩
      · exact h'
      · rw [h] at hm; cases hm

/-- `OnCommit` handlers: without an explicit `Commit` none has run, and every registration is pending. -/
theorem runOps_handlers (t : Tx) (ops : List Op) (h : Op.commit ∉ ops) :
    (runOps t ops).1.fired = t.fired ∧ (runOps t ops).1.pending = t.pending + ops.count .onCommit := by
  induction ops generalizing t with
  | nil => exact ⟨rfl, rfl⟩
  | cons op rest ih =>
    rw [runOps_cons]
    have hop : op ≠ .commit := fun e => h (e ▸ List.mem_cons_self)
    have hrest : Op.commit ∉ rest := fun m => h (List.mem_cons_of_mem _ m)
    have sc := step_core t op
    have ⟨h1, h2⟩ := ih (step t op).1 hrest
    constructor
    · refine h1.trans ?_
      rcases sc.fired with h' | ⟨e, _⟩
      · exact h'
      · exact absurd e hop
    · rw [h2]
      rcases sc.pending with h' | ⟨e, h'⟩ | e
      · have : op ≠ .onCommit := by
          intro e; subst e
          simp only [step] at h'
          omega
        rw [h', List.count_cons_of_ne this]
      · subst e; rw [h', List.count_cons_self]; omega
      · exact absurd e hop

/-! ### a fresh transaction -/

@[simp] theorem begin_db (k : Kind) (db : DB) : (k.begin db).db = db := rfl
@[simp] theorem begin_work (k : Kind) (db : DB) : (k.begin db).work = db := rfl
@[simp] theorem begin_closed (k : Kind) (db : DB) : (k.begin db).closed = false := rfl
@[simp] theorem begin_pending (k : Kind) (db : DB) : (k.begin db).pending = 0 := rfl
@[simp] theorem begin_fired (k : Kind) (db : DB) : (k.begin db).fired = 0 := rfl
@[simp] theorem begin_writable (k : Kind) (db : DB) : (k.begin db).writable = k.writable := rfl
@[simp] theorem begin_managed (k : Kind) (db : DB) : (k.begin db).managed = (k == .batch) := rfl
@[simp] theorem begin_cursors (k : Kind) (db : DB) : (k.begin db).cursors = [] := rfl

/-! ### read-only refusals -/

theorem guardW_readonly (t : Tx) (p : Path) (raw : Bool) (hopen : t.closed = false) (hro : t.writable = false) :
    (t.noteHandle p).guardW p raw =
      some (if isBucket t.work p then .err (if raw then .rawTxNotWritable else .txNotWritable) else .noBucket) := by
  unfold Tx.guardW
  simp only [noteHandle_closed, noteHandle_work, noteHandle_writable, hopen, hro]
  cases isBucket t.work p <;> simp

/-- calls that try to change the database. -/
def Op.isMutator : Op → Bool
  | .put .. | .delete .. | .createBucket .. | .createBucketIfNotExists .. | .deleteBucket ..
  | .setSequence .. | .nextSequence .. | .curDelete _ | .commit => true
  | _ => false

/-- the bucket a mutator is called on (`none`: through a cursor or the transaction handle). -/
def Op.bucket? : Op → Option Path
  | .put p .. | .delete p _ | .createBucket p _ | .createBucketIfNotExists p _ | .deleteBucket p _
  | .setSequence p _ | .nextSequence p => some p
  | _ => none

/-- what a read-only transaction answers to a mutator whose target resolves. -/
def Op.readOnlyAnswer : Op → Reply
  | .setSequence .. | .nextSequence .. => .err .rawTxNotWritable
  | _ => .err .txNotWritable

theorem readonly_refuses (t : Tx) (op : Op) (hro : t.writable = false) (hopen : t.closed = false)
    (hm : op.isMutator = true) (hmg : t.managed = false) :
    (step t op).2 =
      match op with
      | .curDelete i => if (t.cursors.lookup i).isSome then .err .txNotWritable else .noCursor
      | .commit => .err .txNotWritable
      | _ => match op.bucket? with
        | some p => if isBucket t.work p then op.readOnlyAnswer else .noBucket
        | none => .ok := by
  cases op <;> simp only [Op.isMutator] at hm <;> try (cases hm)
  all_goals simp only [step, Op.bucket?, Op.readOnlyAnswer, guardW_readonly _ _ _ hopen hro]
  case put p k v => cases isBucket t.work p <;> simp
  case delete p k => cases isBucket t.work p <;> simp
  case createBucket p k => cases isBucket t.work p <;> simp
  case createBucketIfNotExists p k => cases isBucket t.work p <;> simp
  case deleteBucket p k => cases isBucket t.work p <;> simp
  case setSequence p k => cases isBucket t.work p <;> simp
  case nextSequence p => cases isBucket t.work p <;> simp
  case curDelete i => cases t.cursors.lookup i <;> simp [hopen, hro]
  case commit => simp [hopen, hro, hmg]

/-! ### frame: what a call leaves alone -/

/-- The entries (full paths) a call may change, given the transaction it runs in (a cursor delete depends on the
cursor's bucket). Everything else a call leaves alone — `step_frame`. -/
def footprint (t : Tx) : Op → Path → Prop
  | .put p k _, q => q = p ++ [k]
  | .delete p k, q => q = p ++ [k]
  | .createBucket p n, q => q = p ++ [n]
  | .createBucketIfNotExists p n, q => q = p ++ [n]
  | .deleteBucket p n, q => p ++ [n] <+: q
  | .setSequence p _, q => q = p
  | .nextSequence p, q => q = p
  | .curDelete i, q => ∃ c k, t.cursors.lookup i = some c ∧ q = c.path ++ [k]
  | _, _ => False

theorem applyW_work (t : Tx) (p : Path) (r : Except Err DB) :
    (t.applyW p r).1.work = match r with | .ok d => d | .error _ => t.work := by
  unfold Tx.applyW; split <;> rfl

theorem step_frame (t : Tx) (op : Op) (q : Path) (h : ¬ footprint t op q) :
    (step t op).1.work[q]? = t.work[q]? := by
  cases op with
  | put p k v =>
    simp only [step]
    split
    · simp
    · rw [applyW_work]
      split
      · rename_i d hd
        rw [(put_ok hd).1, get_insert, noteHandle_work]
        simp only [footprint] at h
        rw [if_neg (fun e => h e.symm)]
      · simp
  | delete p k =>
    simp only [step]
    split
    · simp
    · rw [applyW_work]
      split
      · rename_i d hd
        rw [(delete_ok hd).1, get_erase, noteHandle_work]
        simp only [footprint] at h
        rw [if_neg (fun e => h e.symm)]
      · simp
  | createBucket p n =>
    simp only [step]
    split
    · simp
    · rw [applyW_work]
      split
      · rename_i d hd
        rw [(createBucket_ok hd).1, get_insert, noteHandle_work]
        simp only [footprint] at h
        rw [if_neg (fun e => h e.symm)]
      · simp
  | createBucketIfNotExists p n =>
    simp only [step]
    split
    · simp
    · rw [applyW_work]
      split
      · rename_i d hd
        rcases createBucketIfNotExists_ok hd with ⟨e, _⟩ | ⟨e, _⟩
        · rw [e, noteHandle_work]
        · rw [e, get_insert, noteHandle_work]
          simp only [footprint] at h
          rw [if_neg (fun e => h e.symm)]
      · simp
  | deleteBucket p n =>
    simp only [step]
    split
    · simp
    · split
      · rename_i d hd
        simp only [footprint] at h
        show d[q]? = _
        rw [(deleteBucket_ok hd).1, get_deleteBucket, if_neg h, noteHandle_work]
      · simp
  | setSequence p n =>
    simp only [step]
    split
    · simp
    · simp only [footprint] at h
      show ((t.noteHandle p).work.insert p _)[q]? = _
      rw [get_insert, if_neg (fun e => h e.symm), noteHandle_work]
  | nextSequence p =>
    simp only [step]
    split
    · simp
    · simp only [footprint] at h
      show ((t.noteHandle p).work.insert p _)[q]? = _
      rw [get_insert, if_neg (fun e => h e.symm), noteHandle_work]
  | curDelete i =>
    simp only [step]
    split
    · rfl
    · rename_i c hc
      split
      · rfl
      · split
        · rfl
        · split
          · rfl
          · rfl
          · split
            · rfl
            · rfl
            · rename_i k _ _
              show (t.work.erase (c.path ++ [k]))[q]? = _
              rw [get_erase]
              simp only [footprint] at h
              rw [if_neg (fun e => h ⟨c, k, hc, e.symm⟩)]
  | get p k => simp only [step]; split <;> simp
  | sequence p => simp only [step]; split <;> simp
  | lookup p n => simp only [step]; split <;> simp
  | forEach p l => simp only [step]; (repeat' split) <;> simp
  | curOpen i p => simp only [step]; split <;> simp
  | curFirst i => simp only [step]; rw [(curMove_sameCore _ _ _ _).work]
  | curLast i => simp only [step]; rw [(curMove_sameCore _ _ _ _).work]
  | curNext i => simp only [step]; rw [(curMove_sameCore _ _ _ _).work]
  | curPrev i => simp only [step]; rw [(curMove_sameCore _ _ _ _).work]
  | curSeek i k => simp only [step]; rw [(curMove_sameCore _ _ _ _).work]
  | commit => simp only [step]; (repeat' split) <;> rfl
  | rollback => simp only [step]; (repeat' split) <;> rfl
  | onCommit => rfl

/-! ### successful writes -/

theorem guardW_ne_ok (t : Tx) (p : Path) (raw : Bool) : t.guardW p raw ≠ some .ok := by
  unfold Tx.guardW
  repeat' split
  all_goals simp

theorem applyW_reply (t : Tx) (p : Path) (r : Except Err DB) :
    (t.applyW p r).2 = match r with | .ok _ => .ok | .error e => .err e := by
  unfold Tx.applyW; split <;> rfl

theorem applyW_closed (t : Tx) (p : Path) (r : Except Err DB) : (t.applyW p r).1.closed = t.closed := by
  unfold Tx.applyW; split <;> rfl

/-- a `Put` that answers nil ran on an open writable transaction and wrote exactly one entry. -/
theorem step_put_ok {t : Tx} {p : Path} {k v : Bytes} (h : (step t (.put p k v)).2 = .ok) :
    t.closed = false ∧ t.writable = true ∧ isBucket t.work p = true ∧
    (step t (.put p k v)).1.work = t.work.insert (p ++ [k]) (.val v) ∧
    (step t (.put p k v)).1.closed = false := by
  simp only [step] at h ⊢
  split at h
  · rename_i r hg
    simp only at h; subst h
    exact absurd hg (guardW_ne_ok _ _ _)
  · rename_i hg
    have g := guardW_none hg
    simp only [noteHandle_closed, noteHandle_work, noteHandle_writable] at g
    simp only [applyW_reply] at h
    simp only [applyW_work, applyW_closed]
    split at h
    · rename_i d hd
      exact ⟨g.1, g.2.2, g.2.1, by simp only [(put_ok hd).1, noteHandle_work], by simp [g.1]⟩
    · cases h

theorem step_delete_ok {t : Tx} {p : Path} {k : Bytes} (h : (step t (.delete p k)).2 = .ok) :
    t.closed = false ∧ t.writable = true ∧ isBucket t.work p = true ∧
    (step t (.delete p k)).1.work = t.work.erase (p ++ [k]) ∧
    (step t (.delete p k)).1.closed = false := by
  simp only [step] at h ⊢
  split at h
  · rename_i r hg
    simp only at h; subst h
    exact absurd hg (guardW_ne_ok _ _ _)
  · rename_i hg
    have g := guardW_none hg
    simp only [noteHandle_closed, noteHandle_work, noteHandle_writable] at g
    simp only [applyW_reply] at h
    simp only [applyW_work, applyW_closed]
    split at h
    · rename_i d hd
      exact ⟨g.1, g.2.2, g.2.1, by simp only [(delete_ok hd).1, noteHandle_work], by simp [g.1]⟩
    · cases h

theorem isBucket_insert_child (d : DB) (p : Path) (k : Bytes) (e : Entry) :
    isBucket (d.insert (p ++ [k]) e) p = isBucket d p := by
  cases p with
  | nil => rfl
  | cons a p =>
    simp only [isBucket]
    rw [get_insert, if_neg (append_singleton_ne_self (a :: p) k)]

theorem isBucket_erase_child (d : DB) (p : Path) (k : Bytes) :
    isBucket (d.erase (p ++ [k])) p = isBucket d p := by
  cases p with
  | nil => rfl
  | cons a p =>
    simp only [isBucket]
    rw [get_erase, if_neg (append_singleton_ne_self (a :: p) k)]

theorem step_get_open (t : Tx) (p : Path) (k : Bytes) (ho : t.closed = false) (hb : isBucket t.work p = true) :
    (step t (.get p k)).2 = .val (getVal t.work p k) := by
  simp [step, Tx.guardR, ho, hb]

/-! ### independence of buckets -/

/-- the bucket a call that may write is made on (for a cursor delete: the cursor's bucket). -/
def callBucket (t : Tx) : Op → Option Path
  | .put p .. | .delete p _ | .createBucket p _ | .createBucketIfNotExists p _ | .deleteBucket p _
  | .setSequence p _ | .nextSequence p => some p
  | .curDelete i => (t.cursors.lookup i).map (·.path)
  | _ => none

/-- everything a call may change lies at or below the bucket it is called on. -/
theorem footprint_below {t : Tx} {op : Op} {q : Path} (h : footprint t op q) :
    ∃ p, callBucket t op = some p ∧ p <+: q := by
  cases op <;> simp only [footprint] at h
  case put p k v => exact ⟨p, rfl, h ▸ List.prefix_append _ _⟩
  case delete p k => exact ⟨p, rfl, h ▸ List.prefix_append _ _⟩
  case createBucket p k => exact ⟨p, rfl, h ▸ List.prefix_append _ _⟩
  case createBucketIfNotExists p k => exact ⟨p, rfl, h ▸ List.prefix_append _ _⟩
  case deleteBucket p k => exact ⟨p, rfl, (List.prefix_append _ _).trans h⟩
  case setSequence p k => exact ⟨p, rfl, h ▸ List.prefix_refl _⟩
  case nextSequence p => exact ⟨p, rfl, h ▸ List.prefix_refl _⟩
  case curDelete i =>
    obtain ⟨c, k, hc, rfl⟩ := h
    exact ⟨c.path, by simp [callBucket, hc], List.prefix_append _ _⟩

/-- a sequence call on a real bucket changes the bucket's header only: what any key *shows* is unchanged. -/
theorem step_seq_shown (t : Tx) (op : Op) (p : Path) (hp : p ≠ [])
    (hop : (∃ n, op = .setSequence p n) ∨ op = .nextSequence p) (q : Path) :
    ((step t op).1.work[q]?).map Entry.shown = (t.work[q]?).map Entry.shown := by
  have key : ∀ (t' : Tx) (s : Nat), t'.work = t.work → isBucket t'.work p = true →
      ((t'.work.insert p (.bucket s))[q]?).map Entry.shown = (t.work[q]?).map Entry.shown := by
    intro t' s hw hb
    rw [get_insert, hw]
    split
    · rename_i e; subst e
      rw [hw] at hb
      cases p with
      | nil => exact absurd rfl hp
      | cons a p =>
        simp only [isBucket] at hb
        split at hb
        · rename_i s' hs'; rw [hs']; rfl
        · cases hb
    · rfl
  rcases hop with ⟨n, rfl⟩ | rfl
  · simp only [step]
    split
    · simp
    · rename_i hg
      exact key _ _ (noteHandle_work _ _) (guardW_none hg).2.1
  · simp only [step]
    split
    · simp
    · rename_i hg
      exact key _ _ (noteHandle_work _ _) (guardW_none hg).2.1

/-- Observations under bucket `Q` that the walletdb API offers. -/
structure SameUnder (Q : Path) (d d' : DB) : Prop where
  get : ∀ k, getVal d' Q k = getVal d Q k
  view : KV.view d' Q = KV.view d Q
  seq : seqOf d' Q = seqOf d Q
  exist : isBucket d' Q = isBucket d Q

theorem sameUnder_of (Q : Path) (d d' : DB) (h1 : d'[Q]? = d[Q]?)
    (h2 : ∀ k, (d'[Q ++ [k]]?).map Entry.shown = (d[Q ++ [k]]?).map Entry.shown) : SameUnder Q d d' := by
  refine ⟨?_, view_ext h2, ?_, ?_⟩
  · intro k
    have := h2 k
    unfold getVal
    cases h : d'[Q ++ [k]]? with
    | none =>
      rw [h] at this
      cases h' : d[Q ++ [k]]? with
      | none => rfl
      | some e => rw [h'] at this; simp at this
    | some e =>
      rw [h] at this
      cases h' : d[Q ++ [k]]? with
      | none => rw [h'] at this; simp at this
      | some e' =>
        rw [h'] at this
        simp only [Option.map_some, Option.some.injEq] at this
        cases e <;> cases e' <;> simp_all [Entry.shown]
  · unfold seqOf; rw [h1]
  · cases Q with
    | nil => rfl
    | cons a Q => simp only [isBucket]; rw [h1]

theorem SameUnder.refl (Q : Path) (d : DB) : SameUnder Q d d := ⟨fun _ => rfl, rfl, rfl, rfl⟩
theorem SameUnder.trans {Q : Path} {a b c : DB} (h₁ : SameUnder Q a b) (h₂ : SameUnder Q b c) : SameUnder Q a c :=
  ⟨fun k => (h₂.get k).trans (h₁.get k), h₂.view.trans h₁.view, h₂.seq.trans h₁.seq, h₂.exist.trans h₁.exist⟩

/-- **nested buckets are independent namespaces**, one call. -/
theorem step_independent (t : Tx) (op : Op) (Q : Path)
    (h : ∀ p, callBucket t op = some p → ¬ p <+: Q) : SameUnder Q t.work (step t op).1.work := by
  apply sameUnder_of
  · apply step_frame
    intro hf
    obtain ⟨p, hp, hpre⟩ := footprint_below hf
    exact h p hp hpre
  · intro k
    by_cases hf : footprint t op (Q ++ [k])
    · obtain ⟨p, hp, hpre⟩ := footprint_below hf
      have hnQ := h p hp
      rcases prefix_append_singleton.mp hpre with h' | h'
      · exact absurd h' hnQ
      · -- the call is made on the child bucket `Q ++ [k]` itself: only a sequence call has it in its footprint
        have hp0 : p ≠ [] := h' ▸ append_singleton_ne_nil Q k
        cases op <;> simp only [footprint] at hf <;> simp only [callBucket, Option.some.injEq] at hp
        case put p' k' v => subst hp; exact absurd (h'.trans hf).symm (append_singleton_ne_self _ _)
        case delete p' k' => subst hp; exact absurd (h'.trans hf).symm (append_singleton_ne_self _ _)
        case createBucket p' k' => subst hp; exact absurd (h'.trans hf).symm (append_singleton_ne_self _ _)
        case createBucketIfNotExists p' k' => subst hp; exact absurd (h'.trans hf).symm (append_singleton_ne_self _ _)
        case deleteBucket p' k' =>
          subst hp
          rw [← h'] at hf
          have := hf.length_le
          simp at this
          omega
        case setSequence p' n => subst hp; rw [← h']; exact step_seq_shown t _ _ hp0 (.inl ⟨n, rfl⟩) _
        case nextSequence p' => subst hp; rw [← h']; exact step_seq_shown t _ _ hp0 (.inr rfl) _
        case curDelete i =>
          obtain ⟨c, k', hc, hq⟩ := hf
          simp only [hc, Option.map_some, Option.some.injEq] at hp
          rw [hp, h'] at hq
          exact absurd hq.symm (append_singleton_ne_self _ _)
    · rw [step_frame t op _ hf]

/-- No call of the program touches entry `q` (evaluated along the run: a cursor delete depends on the cursor). -/
def Untouched (q : Path) : Tx → List Op → Prop
  | _, [] => True
  | t, op :: rest => ¬ footprint t op q ∧ Untouched q (step t op).1 rest

theorem runOps_untouched (q : Path) (t : Tx) (ops : List Op) (h : Untouched q t ops) :
    (runOps t ops).1.work[q]? = t.work[q]? := by
  induction ops generalizing t with
  | nil => rfl
  | cons op rest ih =>
    rw [runOps_cons]
    exact (ih _ h.2).trans (step_frame t op q h.1)

/-- Every writing call of the program is made on a bucket that is neither `Q` nor an ancestor of `Q`. -/
def Outside (Q : Path) : Tx → List Op → Prop
  | _, [] => True
  | t, op :: rest => (∀ p, callBucket t op = some p → ¬ p <+: Q) ∧ Outside Q (step t op).1 rest

theorem runOps_independent (Q : Path) (t : Tx) (ops : List Op) (h : Outside Q t ops) :
    SameUnder Q t.work (runOps t ops).1.work := by
  induction ops generalizing t with
  | nil => exact SameUnder.refl _ _
  | cons op rest ih =>
    rw [runOps_cons]
    exact (step_independent t op Q h.1).trans (ih _ h.2)

/-! ### cursors -/

/-- a live cursor `i` over bucket `P` in an open transaction. -/
structure LiveCursor (t : Tx) (i : Nat) (P : Path) (pos : Option Nat) : Prop where
  opn : t.closed = false
  cur : ∃ c, t.cursors.lookup i = some c ∧ c.path = P ∧ c.dead = false ∧ c.pos = pos

theorem lookup_setCursor (t : Tx) (i : Nat) (c : Cursor) : (t.setCursor i c).cursors.lookup i = some c := by
  simp [Tx.setCursor]

theorem curMove_live {t : Tx} {i : Nat} {P : Path} {pos : Option Nat} (h : LiveCursor t i P pos)
    (needPos : Bool) (hpos : needPos = true → pos.isSome = true)
    (f : List (Bytes × Option Bytes) → Nat → Nat × Bool) :
    let L := view t.work P
    let r := f L (pos.getD 0)
    (t.curMove i needPos f).2 = .entry (if r.2 then L[r.1]? else none) ∧
    LiveCursor (t.curMove i needPos f).1 i P (some r.1) ∧
    (t.curMove i needPos f).1.work = t.work := by
  obtain ⟨c, hc, rfl, hd, rfl⟩ := h.cur
  have hstale : (c.dead || (needPos && c.pos.isNone)) = false := by
    rw [hd]
    cases needPos with
    | false => rfl
    | true =>
      have := hpos rfl
      cases hp : c.pos with
      | none => rw [hp] at this; cases this
      | some _ => rfl
  unfold Tx.curMove
  simp only [hc, h.opn, hstale]
  refine ⟨rfl, ⟨h.opn, ⟨_, lookup_setCursor _ _ _, rfl, hd, rfl⟩⟩, rfl⟩

theorem step_next_live {t : Tx} {i : Nat} {P : Path} {j : Nat} (h : LiveCursor t i P (some j)) :
    (step t (.curNext i)).2 = .entry (if j + 1 < (view t.work P).length then (view t.work P)[j + 1]? else none) ∧
    LiveCursor (step t (.curNext i)).1 i P (some (if j + 1 < (view t.work P).length then j + 1 else j)) ∧
    (step t (.curNext i)).1.work = t.work := by
  have hm := curMove_live h true (fun _ => rfl)
    (fun l pos => if pos + 1 < l.length then (pos + 1, true) else (pos, false))
  simp only [Option.getD_some] at hm
  obtain ⟨hr, hl, hw⟩ := hm
  refine ⟨?_, ?_, hw⟩
  · show (t.curMove i true _).2 = _
    rw [hr]; split <;> simp
  · show LiveCursor (t.curMove i true _).1 i P _
    split at hl <;> (split <;> first | exact hl | omega)

theorem step_prev_live {t : Tx} {i : Nat} {P : Path} {j : Nat} (h : LiveCursor t i P (some j)) :
    (step t (.curPrev i)).2 = .entry (if 0 < j then (view t.work P)[j - 1]? else none) ∧
    LiveCursor (step t (.curPrev i)).1 i P (some (j - 1)) ∧
    (step t (.curPrev i)).1.work = t.work := by
  have hm := curMove_live h true (fun _ => rfl)
    (fun _ pos => if 0 < pos then (pos - 1, true) else (0, false))
  simp only [Option.getD_some] at hm
  obtain ⟨hr, hl, hw⟩ := hm
  refine ⟨?_, ?_, hw⟩
  · show (t.curMove i true _).2 = _
    rw [hr]; split <;> simp
  · show LiveCursor (t.curMove i true _).1 i P _
    split at hl
    · exact hl
    · have : j - 1 = 0 := by omega
      rw [this]; exact hl

theorem step_first_live {t : Tx} {i : Nat} {P : Path} {pos : Option Nat} (h : LiveCursor t i P pos) :
    (step t (.curFirst i)).2 = .entry (view t.work P)[0]? ∧
    LiveCursor (step t (.curFirst i)).1 i P (some 0) ∧ (step t (.curFirst i)).1.work = t.work :=
  curMove_live h false (fun e => by cases e) (fun _ _ => (0, true))

theorem step_last_live {t : Tx} {i : Nat} {P : Path} {pos : Option Nat} (h : LiveCursor t i P pos) :
    (step t (.curLast i)).2 = .entry (view t.work P)[(view t.work P).length - 1]? ∧
    LiveCursor (step t (.curLast i)).1 i P (some ((view t.work P).length - 1)) ∧
    (step t (.curLast i)).1.work = t.work :=
  curMove_live h false (fun e => by cases e) (fun l _ => (l.length - 1, true))

theorem step_seek_live {t : Tx} {i : Nat} {P : Path} {pos : Option Nat} (h : LiveCursor t i P pos) (k : Bytes) :
    (step t (.curSeek i k)).2 = .entry (view t.work P)[seekPos (view t.work P) k]? ∧
    LiveCursor (step t (.curSeek i k)).1 i P (some (seekPos (view t.work P) k)) ∧
    (step t (.curSeek i k)).1.work = t.work :=
  curMove_live h false (fun e => by cases e) (fun l _ => (seekPos l k, true))

/-- `m` times `Next` from position `min a (n-1)`: the `r`-th answer is entry `a+1+r` of the view, nil past the end. -/
theorem next_iter (m : Nat) : ∀ (t : Tx) (i : Nat) (P : Path) (a : Nat),
    LiveCursor t i P (some (min a ((view t.work P).length - 1))) →
    (runOps t (List.replicate m (.curNext i))).2 =
      (List.range m).map (fun r => Reply.entry (view t.work P)[a + 1 + r]?) := by
  induction m with
  | zero => intro t i P a _; rfl
  | succ m ih =>
    intro t i P a h
    obtain ⟨hr, hl, hw⟩ := step_next_live h
    rw [List.replicate_succ, runOps_cons, List.range_succ_eq_map, List.map_cons, List.map_map, hr]
    generalize hn : (view t.work P).length = n at *
    have hl' : LiveCursor (step t (.curNext i)).1 i P
        (some (min (a + 1) ((view (step t (.curNext i)).1.work P).length - 1))) := by
      rw [hw, hn]
      have e : (if min a (n - 1) + 1 < n then min a (n - 1) + 1 else min a (n - 1)) = min (a + 1) (n - 1) := by
        split <;> omega
      rw [← e]; exact hl
    rw [ih _ i P (a + 1) hl', hw]
    dsimp only
    congr 1
    · congr 1
      split
      · rename_i hlt
        have : min a (n - 1) = a := by omega
        rw [this]
      · rename_i hlt
        rw [List.getElem?_eq_none (by omega)]
    · apply List.map_congr_left
      intro r _
      simp only [Function.comp]
      congr 2
      omega

/-- `m` times `Prev` from position `j`: the `r`-th answer is entry `j-1-r`, nil once the beginning was reached. -/
theorem prev_iter (m : Nat) : ∀ (t : Tx) (i : Nat) (P : Path) (j : Nat),
    LiveCursor t i P (some j) →
    (runOps t (List.replicate m (.curPrev i))).2 =
      (List.range m).map (fun r => Reply.entry (if r < j then (view t.work P)[j - 1 - r]? else none)) := by
  induction m with
  | zero => intro t i P j _; rfl
  | succ m ih =>
    intro t i P j h
    obtain ⟨hr, hl, hw⟩ := step_prev_live h
    rw [List.replicate_succ, runOps_cons, List.range_succ_eq_map, List.map_cons, List.map_map, hr,
      ih _ i P (j - 1) hl, hw]
    dsimp only
    congr 1
    apply List.map_congr_left
    intro r _
    simp only [Function.comp]
    by_cases h1 : r < j - 1
    · have h2 : r + 1 < j := by omega
      have e : j - 1 - 1 - r = j - 1 - (r + 1) := by omega
      simp [h1, h2, e]
    · have h2 : ¬ r + 1 < j := by omega
      simp [h1, h2]

/-- `Seek k` lands on the least key `≥ k` (byte order), or past the end when every key is smaller. -/
theorem seekPos_spec (L : List (Bytes × Option Bytes)) (k : Bytes)
    (hs : L.Pairwise (fun a b => compare a.1 b.1 = .lt)) :
    match L[seekPos L k]? with
    | some e => compare e.1 k ≠ .lt ∧ e ∈ L ∧ ∀ e' ∈ L, compare e'.1 k ≠ .lt → e' = e ∨ compare e.1 e'.1 = .lt
    | none => ∀ e' ∈ L, compare e'.1 k = .lt := by
  induction L with
  | nil => simp [seekPos]
  | cons e rest ih =>
    have ⟨hhead, hrest⟩ := List.pairwise_cons.mp hs
    by_cases hlt : compare e.1 k = .lt
    · have hsp : seekPos (e :: rest) k = seekPos rest k + 1 := by simp [seekPos, hlt]
      rw [hsp, List.getElem?_cons_succ]
      have := ih hrest
      split at this
      · rename_i e0 he0
        refine ⟨this.1, List.mem_cons_of_mem _ this.2.1, ?_⟩
        intro e' he' hge
        rcases List.mem_cons.mp he' with rfl | he'
        · exact absurd hlt hge
        · exact this.2.2 e' he' hge
      · rename_i hnone
        intro e' he'
        rcases List.mem_cons.mp he' with rfl | he'
        · exact hlt
        · exact this e' he'
    · have hsp : seekPos (e :: rest) k = 0 := by simp [seekPos, hlt]
      rw [hsp]
      simp only [List.getElem?_cons_zero]
      refine ⟨hlt, List.mem_cons_self, ?_⟩
      intro e' he' _
      rcases List.mem_cons.mp he' with rfl | he'
      · exact .inl rfl
      · exact .inr (hhead e' he')

/-! ### well-formedness (a usable store) -/

/-- A usable store: nothing is stored at the root path, every entry lives in an existing bucket, keys are non-empty
(what bbolt guarantees of its own trees). -/
structure WF (d : DB) : Prop where
  root : d[([] : Path)]? = none
  parent : ∀ (p : Path) (k : Bytes) (e : Entry), d[p ++ [k]]? = some e → isBucket d p = true
  key : ∀ (p : Path) (k : Bytes) (e : Entry), d[p ++ [k]]? = some e → k ≠ []

theorem WF.empty : WF ({} : DB) := ⟨by simp, by intro p k e h; simp at h, by intro p k e h; simp at h⟩

theorem isBucket_of_get {d d' : DB} {p : Path} (h : d'[p]? = d[p]?) : isBucket d' p = isBucket d p := by
  cases p with
  | nil => rfl
  | cons a p => simp only [isBucket, h]

theorem isBucket_cons {d : DB} {q : Path} (hq : q ≠ []) (h : isBucket d q = true) :
    ∃ s, d[q]? = some (.bucket s) := by
  cases q with
  | nil => exact absurd rfl hq
  | cons a r =>
    simp only [isBucket] at h
    split at h
    · rename_i s hs; exact ⟨s, hs⟩
    · cases h

theorem isBucket_of_entry {d : DB} {q : Path} {s : Nat} (h : d[q]? = some (.bucket s)) : isBucket d q = true := by
  cases q with
  | nil => rfl
  | cons a r => simp only [isBucket, h]

/-- writing a value into an existing bucket at a key that is not a bucket. -/
theorem WF.insert_val {d : DB} (w : WF d) {p : Path} {k v : Bytes} (hb : isBucket d p = true) (hk : k ≠ [])
    (hnb : ∀ s, d[p ++ [k]]? ≠ some (.bucket s)) : WF (d.insert (p ++ [k]) (.val v)) := by
  refine ⟨?_, ?_, ?_⟩
  · rw [get_insert, if_neg (append_singleton_ne_nil _ _)]; exact w.root
  · intro p' k' e' h
    rw [get_insert] at h
    have hp' : isBucket d p' = true := by
      split at h
      · rename_i e; rw [← (append_singleton_inj.mp e).1]; exact hb
      · exact w.parent _ _ _ h
    rw [← hp']
    apply isBucket_of_get
    rw [get_insert]
    split
    · rename_i e
      subst e
      obtain ⟨s, hs⟩ := isBucket_cons (append_singleton_ne_nil _ _) hp'
      exact absurd hs (hnb s)
    · rfl
  · intro p' k' e' h
    rw [get_insert] at h
    split at h
    · rename_i e; rw [← (append_singleton_inj.mp e).2]; exact hk
    · exact w.key _ _ _ h

/-- writing a bucket header where there is no value (new bucket, or a new sequence number for an existing one). -/
theorem WF.insert_bucket {d : DB} (w : WF d) {p : Path} {n : Bytes} {s : Nat} (hb : isBucket d p = true)
    (hn : n ≠ []) : WF (d.insert (p ++ [n]) (.bucket s)) := by
  refine ⟨?_, ?_, ?_⟩
  · rw [get_insert, if_neg (append_singleton_ne_nil _ _)]; exact w.root
  · intro p' k' e' h
    rw [get_insert] at h
    have hp' : isBucket d p' = true := by
      split at h
      · rename_i e; rw [← (append_singleton_inj.mp e).1]; exact hb
      · exact w.parent _ _ _ h
    by_cases hp'' : p' = []
    · subst hp''; rfl
    · obtain ⟨s', hs'⟩ := isBucket_cons hp'' hp'
      by_cases e : p ++ [n] = p'
      · exact isBucket_of_entry (s := s) (by rw [get_insert, if_pos e])
      · exact isBucket_of_entry (s := s') (by rw [get_insert, if_neg e]; exact hs')
  · intro p' k' e' h
    rw [get_insert] at h
    split at h
    · rename_i e; rw [← (append_singleton_inj.mp e).2]; exact hn
    · exact w.key _ _ _ h

/-- removing a value. -/
theorem WF.erase_val {d : DB} (w : WF d) {a : Path} (hnb : ∀ s, d[a]? ≠ some (.bucket s)) : WF (d.erase a) := by
  refine ⟨?_, ?_, ?_⟩
  · rw [get_erase]; split
    · rfl
    · exact w.root
  · intro p' k' e' h
    rw [get_erase] at h
    split at h
    · cases h
    · have hp' := w.parent _ _ _ h
      rw [← hp']
      apply isBucket_of_get
      rw [get_erase]
      split
      · rename_i _ e
        subst e
        by_cases ha : a = []
        · subst ha; exact w.root.symm
        · obtain ⟨s, hs⟩ := isBucket_cons ha hp'
          exact absurd hs (hnb s)
      · rfl
  · intro p' k' e' h
    rw [get_erase] at h
    split at h
    · cases h
    · exact w.key _ _ _ h

/-- removing a whole subtree. -/
theorem WF.delete_subtree {d : DB} (w : WF d) (a : Path) :
    WF (d.filter (fun q _ => !a.isPrefixOf q)) := by
  refine ⟨?_, ?_, ?_⟩
  · rw [get_deleteBucket]; split
    · rfl
    · exact w.root
  · intro p' k' e' h
    rw [get_deleteBucket] at h
    split at h
    · cases h
    · rename_i hnp
      have hp' := w.parent _ _ _ h
      rw [← hp']
      apply isBucket_of_get
      rw [get_deleteBucket, if_neg]
      intro hpre
      exact hnp (hpre.trans (List.prefix_append _ _))
  · intro p' k' e' h
    rw [get_deleteBucket] at h
    split at h
    · cases h
    · exact w.key _ _ _ h

theorem step_work_of_no_footprint (t : Tx) (op : Op) (h : ∀ q, ¬ footprint t op q) :
    (step t op).1.work = t.work :=
  ExtTreeMap.ext_getElem? (fun q => step_frame t op q (h q))

theorem path_concat_of_ne_nil {p : Path} (h : p ≠ []) : ∃ p0 n0, p = p0 ++ [n0] := by
  rcases List.eq_nil_or_concat p with h' | ⟨p0, n0, h'⟩
  · exact absurd h' h
  · exact ⟨p0, n0, by rw [h', List.concat_eq_append]⟩

theorem WF.set_seq {d : DB} (w : WF d) {p : Path} (hp : p ≠ []) (hb : isBucket d p = true) (s : Nat) :
    WF (d.insert p (.bucket s)) := by
  obtain ⟨p0, n0, rfl⟩ := path_concat_of_ne_nil hp
  obtain ⟨s0, hs0⟩ := isBucket_cons hp hb
  exact w.insert_bucket (w.parent _ _ _ hs0) (w.key _ _ _ hs0)

/-- every call keeps the working state usable. -/
theorem step_wf (t : Tx) (op : Op) (w : WF t.work) (hapi : op.apiOk = true) : WF (step t op).1.work := by
  cases op with
  | put p k v =>
    simp only [step]
    split
    · simpa using w
    · rename_i hg
      have g := guardW_none hg
      rw [applyW_work]
      split
      · rename_i d hd
        obtain ⟨rfl, hk, hnb⟩ := put_ok hd
        exact WF.insert_val (by simpa using w) g.2.1 hk hnb
      · simpa using w
  | delete p k =>
    simp only [step]
    split
    · simpa using w
    · rw [applyW_work]
      split
      · rename_i d hd
        obtain ⟨rfl, hnb⟩ := delete_ok hd
        exact WF.erase_val (by simpa using w) hnb
      · simpa using w
  | createBucket p n =>
    simp only [step]
    split
    · simpa using w
    · rename_i hg
      have g := guardW_none hg
      rw [applyW_work]
      split
      · rename_i d hd
        obtain ⟨rfl, hn, _⟩ := createBucket_ok hd
        exact WF.insert_bucket (by simpa using w) g.2.1 hn
      · simpa using w
  | createBucketIfNotExists p n =>
    simp only [step]
    split
    · simpa using w
    · rename_i hg
      have g := guardW_none hg
      rw [applyW_work]
      split
      · rename_i d hd
        rcases createBucketIfNotExists_ok hd with ⟨rfl, _⟩ | ⟨rfl, hn, _⟩
        · simpa using w
        · exact WF.insert_bucket (by simpa using w) g.2.1 hn
      · simpa using w
  | deleteBucket p n =>
    simp only [step]
    split
    · simpa using w
    · split
      · rename_i d hd
        obtain ⟨rfl, _⟩ := deleteBucket_ok hd
        exact WF.delete_subtree (by simpa using w) _
      · simpa using w
  | setSequence p n =>
    have hp : p ≠ [] := by intro e; subst e; simp [Op.apiOk] at hapi
    simp only [step]
    split
    · simpa using w
    · rename_i hg
      exact WF.set_seq (by simpa using w) hp (guardW_none hg).2.1 _
  | nextSequence p =>
    have hp : p ≠ [] := by intro e; subst e; simp [Op.apiOk] at hapi
    simp only [step]
    split
    · simpa using w
    · rename_i hg
      exact WF.set_seq (by simpa using w) hp (guardW_none hg).2.1 _
  | curDelete i =>
    simp only [step]
    split
    · exact w
    · rename_i c hc
      split
      · exact w
      · split
        · exact w
        · split
          · exact w
          · exact w
          · split
            · exact w
            · exact w
            · rename_i pos _ k v hv
              refine WF.erase_val w ?_
              intro s hs
              have hmem : (k, some v) ∈ view t.work c.path := List.mem_of_getElem? hv
              obtain ⟨e, he, hsh⟩ := mem_view.mp hmem
              rw [hs] at he
              cases he
              cases hsh
  | get p k => rw [step_work_of_no_footprint _ _ (fun q => by simp [footprint])]; exact w
  | sequence p => rw [step_work_of_no_footprint _ _ (fun q => by simp [footprint])]; exact w
  | lookup p n => rw [step_work_of_no_footprint _ _ (fun q => by simp [footprint])]; exact w
  | forEach p l => rw [step_work_of_no_footprint _ _ (fun q => by simp [footprint])]; exact w
  | curOpen i p => rw [step_work_of_no_footprint _ _ (fun q => by simp [footprint])]; exact w
  | curFirst i => rw [step_work_of_no_footprint _ _ (fun q => by simp [footprint])]; exact w
  | curLast i => rw [step_work_of_no_footprint _ _ (fun q => by simp [footprint])]; exact w
  | curNext i => rw [step_work_of_no_footprint _ _ (fun q => by simp [footprint])]; exact w
  | curPrev i => rw [step_work_of_no_footprint _ _ (fun q => by simp [footprint])]; exact w
  | curSeek i k => rw [step_work_of_no_footprint _ _ (fun q => by simp [footprint])]; exact w
  | commit => rw [step_work_of_no_footprint _ _ (fun q => by simp [footprint])]; exact w
  | rollback => rw [step_work_of_no_footprint _ _ (fun q => by simp [footprint])]; exact w
  | onCommit => rw [step_work_of_no_footprint _ _ (fun q => by simp [footprint])]; exact w

theorem step_wf_db (t : Tx) (op : Op) (wd : WF t.db) (w : WF t.work) : WF (step t op).1.db := by
  rcases (step_core t op).db with h | ⟨_, _, _, _, h⟩
  · rw [h]; exact wd
  · rw [h]; exact w

theorem runOps_wf (t : Tx) (ops : List Op) (wd : WF t.db) (w : WF t.work) (hapi : ∀ op ∈ ops, op.apiOk = true) :
    WF (runOps t ops).1.db ∧ WF (runOps t ops).1.work := by
  induction ops generalizing t with
  | nil => exact ⟨wd, w⟩
  | cons op rest ih =>
    rw [runOps_cons]
    exact ih _ (step_wf_db t op wd w) (step_wf t op w (hapi op List.mem_cons_self))
      (fun o ho => hapi o (List.mem_cons_of_mem _ ho))

/-! ### histories -/

theorem runHistory_nil (db : DB) : runHistory db [] = (db, []) := rfl

theorem runHistory_cons (db : DB) (x : Txn) (rest : List Txn) :
    runHistory db (x :: rest) =
      ((runHistory (runTxn db x).1 rest).1, (runTxn db x).2 :: (runHistory (runTxn db x).1 rest).2) := rfl

theorem runHistory_append (db : DB) (a b : List Txn) :
    runHistory db (a ++ b) =
      ((runHistory (runHistory db a).1 b).1, (runHistory db a).2 ++ (runHistory (runHistory db a).1 b).2) := by
  induction a generalizing db with
  | nil => rfl
  | cons x rest ih => simp only [List.cons_append, runHistory_cons, ih]

/-- A transaction that cannot have committed anything: read-only kinds; a `Batch` that failed; an `Update` that
failed and never called `Commit` on the handle; a hand-made read-write transaction dropped without `Commit`. -/
def Txn.inert (x : Txn) : Bool :=
  match x.kind with
  | .view | .manualRO => true
  | .batch => x.outcome != .ok
  | .update => x.outcome != .ok && !x.prog.contains .commit
  | .manualRW => !x.prog.contains .commit

/-! ### concurrent `Batch` callers -/

/-- what one `Batch` caller does, spelled out. -/
def batchCallSpec (db : DB) (c : BatchCall) : DB × Result :=
  if isBucket db c.p then
    match put db c.p c.k c.v with
    | .ok d =>
      match c.o with
      | .ok => (d, .ok)
      | .err => (db, .err .user)
      | .panic => (db, .panic)
    | .error e => (db, .err e)
  else (db, .err .user)

theorem batchCall_eq (db : DB) (c : BatchCall) : batchCall db c = batchCallSpec db c := by
  unfold batchCall batchCallSpec
  simp only [step]
  have hg : ((Kind.batch.begin db).noteHandle c.p).guardW c.p false =
      if isBucket db c.p then none else some .noBucket := by
    unfold Tx.guardW
    simp only [noteHandle_closed, noteHandle_work, noteHandle_writable, begin_closed, begin_work, begin_writable,
      Kind.writable]
    cases isBucket db c.p <;> simp
  rw [hg]
  cases hb : isBucket db c.p
  · simp
  · simp only [if_true, noteHandle_work, begin_work]
    cases hp : put db c.p c.k c.v with
    | error e => simp [Tx.applyW]
    | ok d =>
      simp only [Tx.applyW]
      cases c.o <;> simp [finishUpdate]

/-- why a `Put` is refused, as a function of what the key currently holds. -/
def putErr (k v : Bytes) (cur : Option Entry) : Option Err :=
  if k.length = 0 then some .keyRequired
  else if k.length > maxKeySize then some .keyTooLarge
  else if v.length > maxValueSize then some .valueTooLarge
  else match cur with
    | some (.bucket _) => some .incompatibleValue
    | _ => none

theorem put_eq (d : DB) (p : Path) (k v : Bytes) :
    put d p k v = match putErr k v d[p ++ [k]]? with
      | some e => .error e
      | none => .ok (d.insert (p ++ [k]) (.val v)) := by
  unfold put putErr
  repeat' split
  all_goals simp_all

theorem putErr_none_not_bucket {k v : Bytes} {cur : Option Entry} (h : putErr k v cur = none) :
    ∀ s, cur ≠ some (.bucket s) := by
  intro s hs
  subst hs
  unfold putErr at h
  repeat' split at h
  all_goals simp_all

theorem insert_comm (d : DB) (a b : Path) (x y : Entry) (h : a ≠ b) :
    (d.insert a x).insert b y = (d.insert b y).insert a x := by
  apply ExtTreeMap.ext_getElem?
  intro q
  simp only [get_insert]
  by_cases h1 : b = q <;> by_cases h2 : a = q <;> simp [h1, h2]
  exact absurd (h2.trans h1.symm) h


/-- two `Batch` callers writing different entries: each gets what it would get alone, and the final database does not
depend on who ran first — so the answer to a group of concurrent callers is independent of bbolt's coalescing. -/
theorem batchCall_commute (db : DB) (c₁ c₂ : BatchCall) (hne : c₁.p ++ [c₁.k] ≠ c₂.p ++ [c₂.k]) :
    (batchCall (batchCall db c₁).1 c₂).2 = (batchCall db c₂).2 ∧
    (batchCall (batchCall db c₂).1 c₁).2 = (batchCall db c₁).2 ∧
    (batchCall (batchCall db c₁).1 c₂).1 = (batchCall (batchCall db c₂).1 c₁).1 := by
  -- after a successful put of `a` the other caller's view of its own bucket and entry is unchanged
  have key : ∀ (a b : BatchCall), a.p ++ [a.k] ≠ b.p ++ [b.k] → putErr a.k a.v db[a.p ++ [a.k]]? = none →
      isBucket (db.insert (a.p ++ [a.k]) (.val a.v)) b.p = isBucket db b.p ∧
      (db.insert (a.p ++ [a.k]) (.val a.v))[b.p ++ [b.k]]? = db[b.p ++ [b.k]]? := by
    intro a b hab ha
    refine ⟨?_, by rw [get_insert, if_neg hab]⟩
    cases hb : b.p with
    | nil => rfl
    | cons x r =>
      simp only [isBucket, get_insert]
      by_cases e : a.p ++ [a.k] = x :: r
      · rw [if_pos e]
        have := putErr_none_not_bucket ha
        rw [e] at this
        cases hd : db[x :: r]? with
        | none => rfl
        | some en =>
          cases en with
          | val _ => rfl
          | bucket s => exact absurd hd (this s)
      · rw [if_neg e]
  simp only [batchCall_eq, batchCallSpec, put_eq]
  cases h1 : isBucket db c₁.p <;> cases h2 : isBucket db c₂.p <;>
    cases e1 : putErr c₁.k c₁.v db[c₁.p ++ [c₁.k]]? <;> cases e2 : putErr c₂.k c₂.v db[c₂.p ++ [c₂.k]]? <;>
    cases o1 : c₁.o <;> cases o2 : c₂.o <;>
    simp [h1, h2, e1, e2, (key c₁ c₂ hne), (key c₂ c₁ (Ne.symm hne)), insert_comm _ _ _ _ _ hne] <;>
    simp_all [(key c₁ c₂ hne), (key c₂ c₁ (Ne.symm hne)), insert_comm _ _ _ _ _ hne]

end KV
