import BtcwVerif.Lemmas.Balance
/-! Operations that do not touch the mined part of the store (blocks, tx records, credits, unspent index, counter)
preserve the representation invariant `Inv`: all lease operations, `insertMemPoolTx`, `addCredit` for an unconfirmed
transaction, `removeConflict` / `RemoveUnminedTx`.  These are the events *seen*, *abandoned*, *lease*, *release*,
*sweep*, *clock* of the specification. -/
namespace TxStore
open KMap

/-- the mined part of the store is unchanged -/
def SameMined (s s' : Store) : Prop :=
  s'.blocks = s.blocks ∧ s'.txrecs = s.txrecs ∧ s'.credits = s.credits ∧ s'.unspent = s.unspent ∧
    s'.minedBalance = s.minedBalance ∧ s'.debits = s.debits

theorem SameMined.refl (s : Store) : SameMined s s := ⟨rfl, rfl, rfl, rfl, rfl, rfl⟩

theorem SameMined.trans {a b c : Store} (h1 : SameMined a b) (h2 : SameMined b c) : SameMined a c := by
  obtain ⟨a1, a2, a3, a4, a5, a6⟩ := h1
  obtain ⟨b1, b2, b3, b4, b5, b6⟩ := h2
  exact ⟨b1.trans a1, b2.trans a2, b3.trans a3, b4.trans a4, b5.trans a5, b6.trans a6⟩

theorem inv_of_sameMined {s s' : Store} (h : SameMined s s') (hi : Inv s) : Inv s' := by
  obtain ⟨hb, ht, hc, hu, hm, _⟩ := h
  have e0 : ∀ k, creditInfo s' k = creditInfo s k := by intro k; unfold creditInfo; rw [hc, ht]
  have e1 : minedUnspent s' = minedUnspent s := by
    unfold minedUnspent minedCredits blockCredits txCredits
    simp only [hb, ht, e0]
  have e2 : unspentInfos s' = unspentInfos s := by
    unfold unspentInfos
    simp only [hu, e0]
  exact ⟨by rw [hm, e1]; exact hi.counter, by rw [e2]; exact hi.indexed, by rw [e1, e2]; exact hi.index,
    by rw [hb]; exact hi.sorted, by rw [hb, ht]; exact hi.recorded⟩

theorem foldlM_preserves {α : Type} (P : Store → Prop) (f : Store → α → M Store)
    (hf : ∀ s a s', P s → f s a = .ok s' → P s') : ∀ (l : List α) (s s' : Store), P s → l.foldlM f s = .ok s' → P s' := by
  intro l
  induction l with
  | nil => intro s s' hp h; simp at h; subst h; exact hp
  | cons a t ih =>
    intro s s' hp h
    rw [List.foldlM_cons] at h
    cases hfa : f s a with
    | error e => rw [hfa] at h; cases h
    | ok s1 => rw [hfa, bind_ok] at h; exact ih s1 s' (hf s a s1 hp hfa) h

theorem foldl_preserves {α : Type} (P : Store → Prop) (f : Store → α → Store)
    (hf : ∀ s a, P s → P (f s a)) : ∀ (l : List α) (s : Store), P s → P (l.foldl f s) := by
  intro l
  induction l with
  | nil => intro s hp; exact hp
  | cons a t ih => intro s hp; exact ih _ (hf s a hp)

theorem sameMined_putRawUnminedInput (s : Store) (k : OutPoint) (h : Nat) : SameMined s (putRawUnminedInput s k h) :=
  ⟨rfl, rfl, rfl, rfl, rfl, rfl⟩

theorem sameMined_deleteRawUnminedInput (s : Store) (k : OutPoint) (h : Nat) :
    SameMined s (deleteRawUnminedInput s k h) := by
  unfold deleteRawUnminedInput
  split
  · exact SameMined.refl s
  · split
    · exact SameMined.refl s
    · dsimp only
      split <;> exact ⟨rfl, rfl, rfl, rfl, rfl, rfl⟩

theorem sameMined_unlockOutputRaw (s : Store) (op : OutPoint) : SameMined s (unlockOutputRaw s op) :=
  ⟨rfl, rfl, rfl, rfl, rfl, rfl⟩

theorem sameMined_lockOutput {s s' : Store} {now id : Nat} {op : OutPoint} {d e : Int}
    (h : lockOutput s now id op d = .ok (e, s')) : SameMined s s' := by
  by_cases hk : isKnownOutput s op = true
  · cases hl : isLockedOutput s op now with
    | none =>
      simp [lockOutput, hk, hl] at h
      obtain ⟨_, rfl⟩ := h
      exact ⟨rfl, rfl, rfl, rfl, rfl, rfl⟩
    | some l =>
      by_cases hid : l.id = id
      · simp [lockOutput, hk, hl, hid] at h
        obtain ⟨_, rfl⟩ := h
        exact ⟨rfl, rfl, rfl, rfl, rfl, rfl⟩
      · simp [lockOutput, hk, hl, hid] at h
  · simp [lockOutput, hk] at h

theorem sameMined_unlockOutput {s s' : Store} {now id : Nat} {op : OutPoint}
    (h : unlockOutput s now id op = .ok s') : SameMined s s' := by
  unfold unlockOutput at h
  split at h
  · cases h
  · split at h
    · cases h; exact SameMined.refl s
    · split at h
      · cases h
      · cases h; exact sameMined_unlockOutputRaw s op

theorem sameMined_sweep (s : Store) (now : Nat) : SameMined s (deleteExpiredLockedOutputs s now) := by
  unfold deleteExpiredLockedOutputs
  exact foldl_preserves (SameMined s) (fun s (p : OutPoint × Lease) => unlockOutputRaw s p.1)
    (fun a p hp => hp.trans (sameMined_unlockOutputRaw a p.1)) _ s (SameMined.refl s)

theorem sameMined_insertMemPoolTx {s s' : Store} {rec : Tx} (h : insertMemPoolTx s rec = .ok s') : SameMined s s' := by
  unfold insertMemPoolTx at h
  split at h
  · cases h
  · split at h
    · cases h; exact SameMined.refl s
    · cases h
      exact foldl_preserves (SameMined s) _ (fun a p hp => hp.trans (sameMined_putRawUnminedInput a p rec.hash)) _ _
        ⟨rfl, rfl, rfl, rfl, rfl, rfl⟩

theorem sameMined_addCredit_unmined {s s' : Store} {rec : Tx} {i : Nat} {chg : Bool}
    (h : addCredit s rec none i chg = .ok s') : SameMined s s' := by
  unfold addCredit at h
  split at h
  · cases h
  · simp only at h
    split at h
    · cases h; exact SameMined.refl s
    · split at h
      · cases h; exact SameMined.refl s
      · cases h; exact ⟨rfl, rfl, rfl, rfl, rfl, rfl⟩

theorem sameMined_removeConflictBody (rc : Store → Tx → M Store)
    (hrc : ∀ s t s', rc s t = .ok s' → SameMined s s') {s s' : Store} {rec : Tx}
    (h : removeConflictBody rc s rec = .ok s') : SameMined s s' := by
  unfold removeConflictBody at h
  simp only [bind, Except.bind] at h
  split at h
  · cases h
  · rename_i s1 h1
    simp only [pure, Except.pure, Except.ok.injEq] at h
    subst h
    have hs1 : SameMined s s1 := by
      refine foldlM_preserves (SameMined s) _ ?_ _ s s1 (SameMined.refl s) h1
      intro a io a' ha hstep
      obtain ⟨i, o⟩ := io
      simp only [bind, Except.bind] at hstep
      split at hstep
      · cases hstep
      · rename_i a2 h2
        simp only [pure, Except.pure, Except.ok.injEq] at hstep
        subst hstep
        have : SameMined a a2 := by
          refine foldlM_preserves (SameMined a) _ ?_ _ a a2 (SameMined.refl a) h2
          intro b hsh b' hb hst
          split at hst
          · simp only [pure, Except.pure, Except.ok.injEq] at hst; subst hst; exact hb
          · exact hb.trans (hrc _ _ _ hst)
        exact (ha.trans this).trans ⟨rfl, rfl, rfl, rfl, rfl, rfl⟩
    have hs2 := foldl_preserves (SameMined s) (fun s inp => deleteRawUnminedInput s inp rec.hash)
      (fun a p hp => hp.trans (sameMined_deleteRawUnminedInput a p rec.hash)) rec.ins s1 hs1
    exact hs2.trans ⟨rfl, rfl, rfl, rfl, rfl, rfl⟩

theorem sameMined_removeConflict : ∀ (n : Nat) (s : Store) (t : Tx) (s' : Store),
    removeConflict n s t = .ok s' → SameMined s s' := by
  intro n
  induction n with
  | zero => intro s t s' h; cases h
  | succ n ih => intro s t s' h; exact sameMined_removeConflictBody (removeConflict n) ih h

theorem sameMined_removeUnminedTx {s s' : Store} {rec : Tx} (h : removeUnminedTx s rec = .ok s') : SameMined s s' :=
  sameMined_removeConflict _ _ _ _ h

end TxStore
