import BtcwVerif.Lemmas.AddrInvStep
/-! `Lock` / `Unlock` (with the derive-on-unlock pass) preserve `Inv`. -/
set_option linter.unusedSectionVars false
set_option linter.unusedVariables false
set_option linter.unusedSimpArgs false
namespace AddrDerive
open AddrSym

variable {K P : Type} [DecidableEq K] [DecidableEq P]

/-- `heap'` is `heap` with some key objects given a private key that matches their public key -/
def PrivUpd (hd : HD K P) (heap heap' : List (Obj K P)) : Prop :=
  heap'.length = heap.length ∧ ∀ idx : Nat, heap'[idx]? = heap[idx]? ∨
    ∃ o k, heap[idx]? = some (.key o) ∧ heap'[idx]? = some (.key { o with privEnc := some (.hd k) }) ∧ o.pub = .hd (hd.neuter k)

theorem PrivUpd.refl (hd : HD K P) (heap : List (Obj K P)) : PrivUpd hd heap heap := ⟨rfl, fun _ => Or.inl rfl⟩

theorem PrivUpd.trans {hd : HD K P} {h1 h2 h3 : List (Obj K P)} (a : PrivUpd hd h1 h2) (b : PrivUpd hd h2 h3) : PrivUpd hd h1 h3 := by
  refine ⟨b.1.trans a.1, fun idx => ?_⟩
  rcases b.2 idx with hb | ⟨o, k, hb1, hb2, hb3⟩
  · rw [hb]; exact a.2 idx
  · rcases a.2 idx with ha | ⟨o0, k0, ha1, ha2, ha3⟩
    · exact Or.inr ⟨o, k, by rw [← ha]; exact hb1, hb2, hb3⟩
    · rw [ha2] at hb1
      cases hb1
      exact Or.inr ⟨o0, k, ha1, hb2, hb3⟩

/-- the object at `idx` after a `PrivUpd`: same object up to its private key -/
theorem PrivUpd.obj {hd : HD K P} {h1 h2 : List (Obj K P)} (a : PrivUpd hd h1 h2) {idx : Nat} {o' : KeyObj K P}
    (h : h2[idx]? = some (.key o')) :
    ∃ o, h1[idx]? = some (.key o) ∧ (o' = o ∨ ∃ k, o' = { o with privEnc := some (.hd k) } ∧ o.pub = .hd (hd.neuter k)) := by
  rcases a.2 idx with ha | ⟨o, k, ha1, ha2, ha3⟩
  · exact ⟨o', by rw [← ha]; exact h, Or.inl rfl⟩
  · rw [ha2] at h; cases h
    exact ⟨o, ha1, Or.inr ⟨k, rfl, ha3⟩⟩

theorem PrivUpd.obj' {hd : HD K P} {h1 h2 : List (Obj K P)} (a : PrivUpd hd h1 h2) {idx : Nat} {o : KeyObj K P}
    (h : h1[idx]? = some (.key o)) :
    ∃ o', h2[idx]? = some (.key o') ∧ (o' = o ∨ ∃ k, o' = { o with privEnc := some (.hd k) } ∧ o.pub = .hd (hd.neuter k)) := by
  rcases a.2 idx with ha | ⟨o0, k, ha1, ha2, ha3⟩
  · exact ⟨o, by rw [ha]; exact h, Or.inl rfl⟩
  · rw [h] at ha1; cases ha1
    exact ⟨_, ha2, Or.inr ⟨k, rfl, ha3⟩⟩

/-- what makes a queue entry safe to process: the key derived for it is the key of the object's public key -/
def EntryOK (hd : HD K P) (ais : List (Nat × AcctInfo K P)) (heap : List (Obj K P)) (e : Nat × Nat × Nat) : Prop :=
  ∀ o, heap[e.1]? = some (.key o) → ∀ ai ak, alookup ais o.acct = some ai → ai.keyPriv = some ak →
    ∀ k, derive2 hd ak e.2.1 e.2.2 = some k → o.pub = .hd (hd.neuter k)

/-- a processed entry whose account has a private key: the object carries a key -/
def Processed (ais : List (Nat × AcctInfo K P)) (heap : List (Obj K P)) (e : Nat × Nat × Nat) : Prop :=
  ∀ o, heap[e.1]? = some (.key o) → (∃ ai ak, alookup ais o.acct = some ai ∧ ai.keyPriv = some ak) → o.privEnc.isSome

theorem EntryOK.mono {hd : HD K P} {ais : List (Nat × AcctInfo K P)} {h1 h2 : List (Obj K P)} {e : Nat × Nat × Nat}
    (a : PrivUpd hd h1 h2) (x : EntryOK hd ais h1 e) : EntryOK hd ais h2 e := by
  intro o' ho' ai ak hai hak k hk
  obtain ⟨o, ho, hcase⟩ := a.obj ho'
  have e1 : o'.acct = o.acct ∧ o'.pub = o.pub := by
    rcases hcase with h | ⟨k0, h, _⟩ <;> rw [h] <;> exact ⟨rfl, rfl⟩
  rw [e1.1] at hai; rw [e1.2]
  exact x o ho ai ak hai hak k hk

theorem Processed.mono {hd : HD K P} {ais : List (Nat × AcctInfo K P)} {h1 h2 : List (Obj K P)} {e : Nat × Nat × Nat}
    (a : PrivUpd hd h1 h2) (x : Processed ais h1 e) : Processed ais h2 e := by
  intro o' ho' hex
  obtain ⟨o, ho, hcase⟩ := a.obj ho'
  rcases hcase with h | ⟨k0, h, _⟩
  · rw [h] at hex ⊢; exact x o ho hex
  · rw [h]; rfl

theorem douStep_spec {hd : HD K P} {ais : List (Nat × AcctInfo K P)} {heap heap' : List (Obj K P)} {e : Nat × Nat × Nat}
    (hok : EntryOK hd ais heap e) (h : douStep hd ais heap e = some heap') : PrivUpd hd heap heap' ∧ Processed ais heap' e := by
  unfold douStep at h
  split at h
  · rename_i o ho
    split at h
    · rename_i ai hai
      split at h
      · rename_i ak hak
        split at h
        · rename_i k hk
          cases h
          have hlt : e.1 < heap.length := by
            rcases Nat.lt_or_ge e.1 heap.length with hlt | hge
            · exact hlt
            · rw [List.getElem?_eq_none hge] at ho; cases ho
          refine ⟨⟨length_setAt _ _ _, fun idx => ?_⟩, ?_⟩
          · rw [getElem?_setAt]
            by_cases hi : e.1 = idx
            · subst hi
              exact Or.inr ⟨o, k, ho, by simp [hlt], hok o ho ai ak hai hak k hk⟩
            · simp [hi]
          · intro o' ho' _
            rw [getElem?_setAt] at ho'
            simp [hlt] at ho'
            subst ho'
            rfl
        · cases h
      · rename_i hak
        cases h
        refine ⟨PrivUpd.refl _ _, ?_⟩
        intro o' ho' ⟨ai', ak', h1, h2⟩
        rw [ho] at ho'; cases ho'
        rw [hai] at h1; cases h1
        rw [hak] at h2; cases h2
    · rename_i hai
      cases h
      refine ⟨PrivUpd.refl _ _, ?_⟩
      intro o' ho' ⟨ai', ak', h1, h2⟩
      rw [ho] at ho'; cases ho'
      rw [hai] at h1; cases h1
  · rename_i hne
    cases h
    refine ⟨PrivUpd.refl _ _, ?_⟩
    intro o' ho' _
    exact absurd ho' (hne o')

theorem douAll_spec {hd : HD K P} {ais : List (Nat × AcctInfo K P)} : ∀ (dou : List (Nat × Nat × Nat)) (heap heap' : List (Obj K P)),
    (∀ e ∈ dou, EntryOK hd ais heap e) → douAll hd ais dou heap = some heap' →
    PrivUpd hd heap heap' ∧ ∀ e ∈ dou, Processed ais heap' e := by
  intro dou
  induction dou with
  | nil => intro heap heap' _ h; simp [douAll] at h; subst h; exact ⟨PrivUpd.refl _ _, fun e he => by cases he⟩
  | cons e t ih =>
    intro heap heap' hok h
    unfold douAll at h
    split at h
    · rename_i h1 hs
      obtain ⟨u1, p1⟩ := douStep_spec (hok e List.mem_cons_self) hs
      obtain ⟨u2, p2⟩ := ih h1 heap' (fun e' he' => (hok e' (List.mem_cons_of_mem _ he')).mono u1) h
      refine ⟨u1.trans u2, fun e' he' => ?_⟩
      rcases List.mem_cons.mp he' with rfl | he'
      · exact p1.mono u2
      · exact p2 e' he'
    · cases h

/-- what `Unlock` does to one scope's memory -/
def unlockScope (sm : ScopeMem K P) : ScopeMem K P :=
  { sm with acctInfo := sm.acctInfo.map fun a => (a.1, unlockAcct a.2), dou := [] }

theorem unlockScopes_spec {hd : HD K P} : ∀ (scs : List (Scope × ScopeMem K P)) (heap : List (Obj K P))
    (scs' : List (Scope × ScopeMem K P)) (heap' : List (Obj K P)),
    (∀ p ∈ scs, ∀ e ∈ p.2.dou, EntryOK hd (unlockScope p.2).acctInfo heap e) →
    unlockScopes hd scs heap = some (scs', heap') →
    scs' = scs.map (fun p => (p.1, unlockScope p.2)) ∧ PrivUpd hd heap heap' ∧
      ∀ p ∈ scs, ∀ e ∈ p.2.dou, Processed (unlockScope p.2).acctInfo heap' e := by
  intro scs
  induction scs with
  | nil =>
    intro heap scs' heap' _ h
    simp [unlockScopes] at h
    obtain ⟨rfl, rfl⟩ := h
    exact ⟨rfl, PrivUpd.refl _ _, fun p hp => by cases hp⟩
  | cons p t ih =>
    intro heap scs' heap' hok h
    obtain ⟨sc, sm⟩ := p
    unfold unlockScopes at h
    dsimp only at h
    split at h
    · cases h
    · rename_i h1 hd1
      split at h
      · cases h
      · rename_i t' h2 ht
        cases h
        obtain ⟨u1, p1⟩ := douAll_spec sm.dou heap h1 (hok (sc, sm) List.mem_cons_self) hd1
        obtain ⟨e2, u2, p2⟩ := ih h1 t' heap' (fun q hq e he => (hok q (List.mem_cons_of_mem _ hq) e he).mono u1) ht
        refine ⟨by simp [e2, unlockScope], u1.trans u2, fun q hq e he => ?_⟩
        rcases List.mem_cons.mp hq with rfl | hq
        · exact (p1 e he).mono u2
        · exact p2 q hq e he

-- ---------------------------------------------------------------------------------------------------------

theorem DiskOK.of_eq {hd : HD K P} {s s' : State K P} (h : DiskOK hd s) (hdisk : s'.disk = s.disk) (hroot : s'.root = s.root)
    (himp : s'.imports = s.imports) : DiskOK hd s' := by
  have hsd : ∀ sc, getSD s' sc = getSD s sc := by intro sc; simp [getSD, hdisk]
  have e1 : ∀ sc a, acctRow s' sc a = acctRow s sc a := by intro sc a; simp [acctRow, hsd]
  refine ⟨by rw [hdisk, hroot]; exact h.root, ?_, ?_, ?_, ?_⟩
  · intro sc ck hc; rw [hroot]; exact h.coin sc ck (by simpa [coinAt, hsd] using hc)
  · intro sc lo hlo
    obtain ⟨l, h1, h2⟩ := h.last sc lo (by simpa [lastAt, hsd] using hlo)
    exact ⟨l, h1, fun a ha => h2 a (by rw [← e1]; exact ha)⟩
  · intro sc a row hr
    rw [e1] at hr
    exact RowKeyOK.congr rfl hroot himp (h.row sc a row hr)
  · intro sc id a b i hr
    obtain ⟨row, p, cls, h1, h2, h3⟩ := h.addr sc id a b i (by simpa [addrRowAt, hsd] using hr)
    exact ⟨row, p, cls, by rw [e1]; exact h1, h2, h3⟩

theorem getSM_doLock (s : State K P) (sc : Scope) : getSM (doLock s) sc = (getSM s sc).map lockScope := by
  simp only [getSM, doLock]
  exact alookup_map s.mem.scopes (fun _ sm => lockScope sm) sc

theorem cacheAt_doLock (s : State K P) (sc : Scope) (a : Nat) : cacheAt (doLock s) sc a = (cacheAt s sc a).map lockAcct := by
  unfold cacheAt
  rw [getSM_doLock]
  cases getSM s sc with
  | none => rfl
  | some sm => exact alookup_map sm.acctInfo (fun _ ai => lockAcct ai) a

theorem douAt_doLock (s : State K P) (sc : Scope) : douAt (doLock s) sc = douAt s sc := by
  unfold douAt
  rw [getSM_doLock]
  cases getSM s sc <;> rfl

theorem doLock_inv {hd : HD K P} {s : State K P} (h : Inv hd s) : Inv hd (doLock s) := by
  have e1 : ∀ sc a, acctRow (doLock s) sc a = acctRow s sc a := fun _ _ => rfl
  refine ⟨h.woEq, fun _ => rfl, h.disk.of_eq rfl rfl rfl, ?_, ?_, ?_, ?_⟩
  · intro sc a ai hc
    rw [cacheAt_doLock] at hc
    cases hc0 : cacheAt s sc a with
    | none => simp [hc0] at hc
    | some ai0 =>
      simp [hc0] at hc
      subst hc
      obtain ⟨row, hr, hok⟩ := h.cache sc a ai0 hc0
      exact ⟨row, hr, hok.pub, hok.enc, fun _ => rfl, fun hl => by cases hl⟩
  · intro o ho
    exact KeyObjOK.congr (s := s) (fun _ _ => rfl) rfl (h.heap o ho)
  · intro sc e he
    rw [douAt_doLock] at he
    obtain ⟨o, ho, hd0⟩ := h.dou sc e he
    refine ⟨o, ho, hd0.notImp, hd0.scope, hd0.branch, hd0.index, ?_, hd0.pub⟩
    rw [cacheAt_doLock]
    have := hd0.cached
    cases hc : cacheAt s sc o.acct with
    | none => simp [hc] at this
    | some _ => rfl
  · intro idx o ho hni hpa hw
    rcases h.sign idx o ho hni hpa hw with h1 | ⟨h1, e, he, hei⟩
    · exact Or.inl h1
    · exact Or.inr ⟨rfl, e, by rw [douAt_doLock]; exact he, hei⟩

theorem opLock_inv {hd : HD K P} {s : State K P} (h : Inv hd s) : Inv hd (opLock s).1 := by
  unfold opLock
  split
  · exact h
  · split
    · exact h
    · exact doLock_inv h

/-- every scope entry of the in-memory list is the one `getSM` finds (no shadowed duplicates) -/
def NoShadow (s : State K P) : Prop := ∀ sc sm, (sc, sm) ∈ s.mem.scopes → getSM s sc = some sm

theorem unlockAcct_priv (ai : AcctInfo K P) (hl : ai.keyPriv = none) : (unlockAcct ai).keyPriv = ai.keyEnc ∧
    (unlockAcct ai).keyEnc = ai.keyEnc ∧ (unlockAcct ai).keyPub = ai.keyPub := by
  unfold unlockAcct
  cases h : ai.keyEnc with
  | none => simp [hl, h]
  | some k => simp [h]

/-- while locked, every derive-on-unlock entry is safe to process: the key derived for it is the object's key -/
theorem unlock_entries_ok {hd : HD K P} (hlaw : hd.Lawful) (hn : hd.NoHardPub) {s : State K P} (h : Inv hd s) (hns : NoShadow s)
    (hlk' : s.mem.locked = true) :
    ∀ p ∈ s.mem.scopes, ∀ e ∈ p.2.dou, EntryOK hd (unlockScope p.2).acctInfo s.mem.heap e := by
  intro p hp e he o ho ai ak hai hak k hk
  obtain ⟨sc, sm⟩ := p
  have hsm := hns sc sm hp
  obtain ⟨o2, ho2, hdo⟩ := h.dou sc e (by rw [douAt_of_getSM hsm]; exact he)
  have ho2' : o2 = o := by
    rw [ho] at ho2; injection ho2 with x; injection x with y; exact y.symm
  rw [ho2'] at hdo
  have hmem : Obj.key o ∈ s.mem.heap := List.mem_of_getElem? ho
  obtain ⟨row, hr, hap, _, _, _⟩ := (h.heap o hmem).chained hdo.notImp
  rw [hdo.scope] at hr
  have hai' : alookup ((unlockScope sm).acctInfo) o.acct = (alookup sm.acctInfo o.acct).map unlockAcct :=
    alookup_map sm.acctInfo (fun _ ai => unlockAcct ai) o.acct
  rw [hai'] at hai
  cases hc0 : alookup sm.acctInfo o.acct with
  | none => simp [hc0] at hai
  | some ai0 =>
    simp [hc0] at hai
    subst hai
    obtain ⟨row', hr', hok⟩ := h.cache sc o.acct ai0 (by rw [cacheAt_of_getSM hsm]; exact hc0)
    rw [hr] at hr'; cases hr'
    have hup := unlockAcct_priv ai0 (hok.locked hlk')
    rw [hup.1, hok.enc] at hak
    have hneu : hd.neuter ak = rowPub row := by
      have hrk := h.disk.row sc o.acct row hr
      cases row with
      | dflt pub priv ne ni name =>
        obtain ⟨root, ak', _, _, hnn, hp'⟩ := hrk
        simp [rowPriv] at hak
        rw [hp' ak hak]; exact hnn
      | wo pub fp ne ni name schema ci => simp [rowPriv] at hak
    obtain ⟨ap, q, hq1, hq2, hq3⟩ := hdo.pub
    rw [hap] at hq1; cases hq1
    obtain ⟨hb, hi⟩ := derive2pub_nonhard hd hn _ _ _ _ hq2
    have := derive2_neuter hd hlaw ak o.branch o.index hb hi
    rw [hdo.branch, hdo.index, hk, hneu] at this
    rw [hdo.branch, hdo.index] at hq2
    rw [hq2] at this
    simp at this
    rw [hq3, this]

/-- whatever `Unlock` answers, the heap afterwards is the old heap with matching private keys filled in -/
theorem opUnlock_privUpd {hd : HD K P} (hlaw : hd.Lawful) (hn : hd.NoHardPub) {s : State K P} (h : Inv hd s) (hns : NoShadow s)
    (pass : Nat) : PrivUpd hd s.mem.heap (opUnlock Cfg.fixed hd s pass).1.mem.heap := by
  unfold opUnlock
  simp only [show Cfg.fixed.f2 = false from rfl, show Cfg.fixed.u2 = false from rfl, Bool.false_and, Bool.false_eq_true, if_false]
  split
  · exact PrivUpd.refl _ _
  · split
    · split <;> exact PrivUpd.refl _ _
    · rename_i hlk
      have hlk' : s.mem.locked = true := by simpa using hlk
      split
      · exact PrivUpd.refl _ _
      · split
        · exact PrivUpd.refl _ _
        · rename_i scs heap' hu
          exact (unlockScopes_spec s.mem.scopes s.mem.heap scs heap' (unlock_entries_ok hlaw hn h hns hlk') hu).2.1

theorem opUnlock_ok_unlocked {hd : HD K P} (s : State K P) (pass : Nat) (hok : (opUnlock Cfg.fixed hd s pass).2.1 = .ok) :
    (opUnlock Cfg.fixed hd s pass).1.mem.locked = false ∧ (opUnlock Cfg.fixed hd s pass).1.mem.watchOnly = false := by
  unfold opUnlock at hok ⊢
  simp only [show Cfg.fixed.f2 = false from rfl, show Cfg.fixed.u2 = false from rfl, Bool.false_and, Bool.false_eq_true, if_false] at hok ⊢
  split at hok
  · cases hok
  · rename_i hwo
    rw [if_neg hwo]
    split at hok
    · rename_i hl
      rw [if_pos hl]
      split at hok
      · rename_i hp
        rw [if_pos hp]
        exact ⟨by simpa using hl, by simpa using hwo⟩
      · cases hok
    · rename_i hl
      rw [if_neg hl]
      split at hok
      · cases hok
      · rename_i hp
        rw [if_neg hp]
        split at hok
        · cases hok
        · rename_i scs heap' hu
          simp only [hu]
          exact ⟨trivial, by simpa using hwo⟩

theorem opUnlock_inv {hd : HD K P} (hlaw : hd.Lawful) (hn : hd.NoHardPub) {s : State K P} (h : Inv hd s) (hns : NoShadow s)
    (pass : Nat) : Inv hd (opUnlock Cfg.fixed hd s pass).1 := by
  unfold opUnlock
  simp only [show Cfg.fixed.f2 = false from rfl, show Cfg.fixed.u2 = false from rfl, Bool.false_and, Bool.false_eq_true, if_false]
  split
  · exact h
  · rename_i hwo
    have hwo' : s.mem.watchOnly = false := by simpa using hwo
    split
    · split
      · exact h
      · exact doLock_inv h
    · rename_i hlk
      have hlk' : s.mem.locked = true := by simpa using hlk
      split
      · exact doLock_inv h
      · split
        · exact doLock_inv h
        · rename_i scs heap' hu
          have hpre := unlock_entries_ok hlaw hn h hns hlk'
          obtain ⟨escs, hupd, hproc⟩ := unlockScopes_spec s.mem.scopes s.mem.heap scs heap' hpre hu
          subst escs
          have hgsm : ∀ sc, getSM ({ s with mem := { s.mem with locked := false, scopes := s.mem.scopes.map (fun p => (p.1, unlockScope p.2)), heap := heap' } } : State K P) sc
              = (getSM s sc).map unlockScope := by
            intro sc
            simp only [getSM]
            exact alookup_map s.mem.scopes (fun _ sm => unlockScope sm) sc
          have hcache : ∀ sc a, cacheAt ({ s with mem := { s.mem with locked := false, scopes := s.mem.scopes.map (fun p => (p.1, unlockScope p.2)), heap := heap' } } : State K P) sc a
              = (cacheAt s sc a).map unlockAcct := by
            intro sc a
            unfold cacheAt
            rw [hgsm]
            cases getSM s sc with
            | none => rfl
            | some sm => exact alookup_map sm.acctInfo (fun _ ai => unlockAcct ai) a
          have hdou : ∀ sc, douAt ({ s with mem := { s.mem with locked := false, scopes := s.mem.scopes.map (fun p => (p.1, unlockScope p.2)), heap := heap' } } : State K P) sc = [] := by
            intro sc
            unfold douAt
            rw [hgsm]
            cases getSM s sc <;> rfl
          refine ⟨h.woEq, fun hw => (by rw [hwo'] at hw; cases hw), h.disk.of_eq rfl rfl rfl, ?_, ?_, ?_, ?_⟩
          · intro sc a ai hc
            rw [hcache] at hc
            cases hc0 : cacheAt s sc a with
            | none => simp [hc0] at hc
            | some ai0 =>
              simp [hc0] at hc
              subst hc
              obtain ⟨row, hr, hok⟩ := h.cache sc a ai0 hc0
              have hup := unlockAcct_priv ai0 (hok.locked hlk')
              exact ⟨row, hr, (by rw [hup.2.2]; exact hok.pub), (by rw [hup.2.1]; exact hok.enc), fun hl => (by cases hl),
                fun _ => (by rw [hup.1, hup.2.1])⟩
          · intro o' ho'
            obtain ⟨idx, hidx⟩ := List.getElem?_of_mem ho'
            obtain ⟨o, ho, hcase⟩ := hupd.obj hidx
            have hko := h.heap o (List.mem_of_getElem? ho)
            rcases hcase with e | ⟨k, e, hpk⟩
            · rw [e]; exact KeyObjOK.congr (s := s) (fun _ _ => rfl) rfl hko
            · rw [e]
              refine ⟨?_, hko.chained, hko.imported⟩
              intro k' hk'
              simp at hk'
              subst hk'
              simp [pubOf, hpk]
          · intro sc e he
            rw [hdou] at he; cases he
          · intro idx o' ho' hni hpa hw
            left
            obtain ⟨o, ho, hcase⟩ := hupd.obj (idx := idx) (o' := o') ho'
            rcases hcase with e | ⟨k, e, _⟩
            · subst e
              rcases h.sign idx o' ho hni hpa hwo' with h1 | ⟨_, en, hen, hidx⟩
              · exact h1
              · subst hidx
                cases hsm : getSM s o'.scope with
                | none => simp [douAt, hsm] at hen
                | some sm =>
                  rw [douAt_of_getSM hsm] at hen
                  have hp := hproc (o'.scope, sm) (alookup_mem _ _ _ hsm) en hen
                  obtain ⟨o2, ho2, hdo⟩ := h.dou o'.scope en (by rw [douAt_of_getSM hsm]; exact hen)
                  rw [ho] at ho2; cases ho2
                  apply hp o' ho'
                  obtain ⟨row, hr, _, _, _, hpriv⟩ := (h.heap o' (List.mem_of_getElem? ho)).chained hni
                  cases hc0 : cacheAt s o'.scope o'.acct with
                  | none => have := hdo.cached; simp [hc0] at this
                  | some ai0 =>
                    obtain ⟨row', hr', hok⟩ := h.cache _ _ ai0 hc0
                    rw [hr] at hr'; cases hr'
                    have hup := unlockAcct_priv ai0 (hok.locked hlk')
                    have hps : (rowPriv row).isSome = true := by rw [← hpriv (by rw [← h.woEq]; exact hwo')]; exact hpa
                    cases hrp : rowPriv row with
                    | none => simp [hrp] at hps
                    | some ak =>
                      refine ⟨unlockAcct ai0, ak, ?_, by rw [hup.1, hok.enc]; exact hrp⟩
                      have : alookup ((unlockScope sm).acctInfo) o'.acct = (alookup sm.acctInfo o'.acct).map unlockAcct :=
                        alookup_map sm.acctInfo (fun _ ai => unlockAcct ai) o'.acct
                      rw [this, ← cacheAt_of_getSM hsm, hc0]; rfl
            · rw [e]; rfl

end AddrDerive
