/-
Helper definitions and lemmas for C07 (core Lean only).

`AuthorSpec` holds closed forms of the size / fee / dust arithmetic, written with literal numbers, independent of the
generated `SizesGen`.  Everything in this file is proved for an arbitrary arithmetic `cfg : Author.Cfg` that agrees
with the closed forms (`EstOK`, `FeeOK`, `DustOK`, `SumOK`); `Props/C07.lean` proves that the arithmetic generated from
the CURRENT working tree (`Author.genCfg`) does.
-/
import BtcwVerif.Model.Author

namespace AuthorSpec
open SizesExt Author

local notation "varint" => wire_VarIntSerializeSize

/-- 21e14 sat -/
def maxSatoshi : Int := 2100000000000000

/-- Closed form of txsizes.EstimateVirtualSize.  `useOutputCount = true`: the var-int of the output count is sized from
    `outputCount` (requested outputs + change output); `false`: from `len(txOuts)` (the code before fix-C07-F4). -/
def est (useOutputCount : Bool) (p t w n : Int) (outs : List TxOut) (cs : Int) : Int :=
  8 + varint (p + t + w + n)
    + varint (if useOutputCount ∧ cs > 0 then (outs.length : Int) + 1 else (outs.length : Int))
    + p * 149 + w * 41 + t * 41 + n * 64 + sumOutSizes outs
    + (if cs > 0 then 8 + varint cs + cs else 0)
    + (if w + n + t > 0 then (2 + varint (w + n + t) + w * 109 + t * 67 + n * 109 + 3) / 4 else 0)

/-- Closed form of txrules.FeeForSerializeSize (for non-negative arguments). -/
def feeFor (rate size : Int) : Int :=
  let fee := rate * size / 1000
  let fee := if fee = 0 ∧ rate > 0 then rate else fee
  if fee < 0 ∨ fee > maxSatoshi then maxSatoshi else fee

/-- txrules.IsDustOutput(o, 1000): null-data scripts are never dust, otherwise mempool.IsDust. -/
def isDust (o : TxOut) : Bool :=
  if o.PkScript.isNullData then false else mempool_IsDust o 1000

/-- mempool.GetDustThreshold, closed form -/
def dustThreshold (s : Script) : Int :=
  3 * (8 + varint s.len + s.len + 41 + (if s.isWitness then 26 else 107))

structure EstOK (cfg : Cfg) (useOutputCount : Bool) : Prop where
  est_eq : ∀ p t w n outs cs, 0 ≤ p → 0 ≤ t → 0 ≤ w → 0 ≤ n →
    cfg.est p t w n outs cs = est useOutputCount p t w n outs cs

structure FeeOK (cfg : Cfg) : Prop where
  fee_eq : ∀ rate size, 0 ≤ rate → 0 ≤ size → cfg.feeFor rate size = feeFor rate size

structure DustOK (cfg : Cfg) : Prop where
  dust_eq : ∀ o, cfg.isDust o = isDust o

structure SumOK (cfg : Cfg) : Prop where
  sum_eq : ∀ outs, cfg.sumValues outs = sumOuts outs

/-- The closed forms as an arithmetic for the loop (used for counter-examples on historical variants). -/
def specCfg (useOutputCount : Bool) (init : Int × Int × Int × Int) : Cfg where
  est := est useOutputCount
  feeFor := feeFor
  isDust := isDust
  init := init
  sumValues := sumOuts

/-! ### var-int -/

theorem varint_bounds (v : Int) : 1 ≤ varint v ∧ varint v ≤ 9 := by
  unfold wire_VarIntSerializeSize
  repeat' split
  all_goals omega

theorem varint_mono {a b : Int} (ha : 0 ≤ a) (h : a ≤ b) : varint a ≤ varint b := by
  unfold wire_VarIntSerializeSize
  repeat' split
  all_goals omega

/-- serialised size of an output grows with the script length -/
theorem outSize_mono {a b : Nat} (h : a ≤ b) : 8 + varint (a : Int) + a ≤ 8 + varint (b : Int) + b := by
  have := varint_mono (a := (a : Int)) (b := (b : Int)) (by omega) (by omega)
  omega

theorem sumOutSizes_append (a b : List TxOut) : sumOutSizes (a ++ b) = sumOutSizes a + sumOutSizes b := by
  induction a with
  | nil => simp [sumOutSizes]
  | cons x xs ih => simp [sumOutSizes, ih]; omega

theorem sumOuts_append (a b : List TxOut) : sumOuts (a ++ b) = sumOuts a + sumOuts b := by
  induction a with
  | nil => simp [sumOuts]
  | cons x xs ih => simp [sumOuts, ih]; omega

theorem sumCoins_append (a b : List Coin) : sumCoins (a ++ b) = sumCoins a + sumCoins b := by
  induction a with
  | nil => simp [sumCoins]
  | cons x xs ih => simp [sumCoins, ih]; omega

theorem sumOutSizes_nonneg (a : List TxOut) : 0 ≤ sumOutSizes a := by
  induction a with
  | nil => simp [sumOutSizes]
  | cons x xs ih =>
    have := varint_bounds (x.PkScript.len : Int)
    simp only [sumOutSizes, TxOut.SerializeSize]; omega

theorem count_nonneg (k : Kind) (cs : List Coin) : 0 ≤ count k cs := by
  induction cs with
  | nil => simp [count]
  | cons x xs ih => simp only [count]; split <;> omega

theorem count_append (k : Kind) (a b : List Coin) : count k (a ++ b) = count k a + count k b := by
  induction a with
  | nil => simp [count]
  | cons x xs ih => simp only [List.cons_append, count, ih]; omega

theorem count_total (cs : List Coin) :
    count .p2pkh cs + count .p2tr cs + count .p2wpkh cs + count .nested cs = cs.length := by
  induction cs with
  | nil => simp [count]
  | cons x xs ih =>
    simp only [count, List.length_cons]
    cases h : classify x.script <;> simp <;> omega

/-! ### fee -/

theorem feeFor_nonneg {rate size : Int} (hr : 0 ≤ rate) (hs : 0 ≤ size) : 0 ≤ feeFor rate size := by
  have h0 : 0 ≤ rate * size := Int.mul_nonneg hr hs
  have h1 : 0 ≤ rate * size / 1000 := Int.ediv_nonneg h0 (by decide)
  unfold feeFor maxSatoshi
  simp only []
  repeat' split
  all_goals omega

/-- From the relay floor upward and for sizes ≥ 1 the fee is `min (rate*size/1000) maxSatoshi`, hence monotone. -/
theorem feeFor_mono {rate s1 s2 : Int} (hr : 1000 ≤ rate) (h1 : 1 ≤ s1) (h : s1 ≤ s2) :
    feeFor rate s1 ≤ feeFor rate s2 := by
  have hm : rate * s1 ≤ rate * s2 := Int.mul_le_mul_of_nonneg_left h (by omega)
  have hd : rate * s1 / 1000 ≤ rate * s2 / 1000 := Int.ediv_le_ediv (by decide) hm
  have hb : rate * 1 ≤ rate * s1 := Int.mul_le_mul_of_nonneg_left h1 (by omega)
  have h3 : 1 ≤ rate * s1 / 1000 := by
    have : (1 : Int) * 1000 ≤ rate * s1 := by omega
    exact (Int.le_ediv_iff_mul_le (by decide)).2 this
  unfold feeFor maxSatoshi
  simp only []
  repeat' split
  all_goals omega

theorem feeFor_pos {rate size : Int} (hr : 0 < rate) (hs : 0 ≤ size) : 0 < feeFor rate size := by
  have h0 : 0 ≤ rate * size := Int.mul_nonneg (by omega) hs
  have h1 : 0 ≤ rate * size / 1000 := Int.ediv_nonneg h0 (by decide)
  unfold feeFor maxSatoshi
  simp only []
  repeat' split
  all_goals omega

/-! ### the signed size never exceeds the estimate -/

/-- number of signed inputs of class `k` -/
def kcount (k : Kind) : List (Kind × Int) → Int
  | [] => 0
  | (k', _) :: r => (if k' = k then 1 else 0) + kcount k r

/-- Admissible signature length of one input.  `mixed` = the transaction has at least one witness input.
    ECDSA classes: DER length 8…72 (the sighash byte is added by the size model); a P2PKH input inside a transaction
    that also has witness inputs: at most 71 (low-S signatures, the only ones btcec produces and BIP-146 relays; a
    72-byte DER signature needs a high S).  Taproot key spend: 64, or 65 with an explicit sighash byte. -/
def sigOK (mixed : Bool) (x : Kind × Int) : Prop :=
  match x.1 with
  | .p2pkh  => 8 ≤ x.2 ∧ x.2 ≤ (if mixed then 71 else 72)
  | .p2wpkh => 8 ≤ x.2 ∧ x.2 ≤ 72
  | .nested => 8 ≤ x.2 ∧ x.2 ≤ 72
  | .p2tr   => x.2 = 64 ∨ x.2 = 65

def Admissible (ins : List (Kind × Int)) : Prop := ∀ x ∈ ins, sigOK (hasWitness ins) x

instance (m : Bool) (x : Kind × Int) : Decidable (sigOK m x) := by
  unfold sigOK; split <;> infer_instance

instance (ins : List (Kind × Int)) : Decidable (Admissible ins) := by
  unfold Admissible; infer_instance

theorem kcount_nonneg (k : Kind) (ins : List (Kind × Int)) : 0 ≤ kcount k ins := by
  induction ins with
  | nil => simp [kcount]
  | cons x xs ih => obtain ⟨k', s⟩ := x; simp only [kcount]; split <;> omega

theorem kcount_total (ins : List (Kind × Int)) :
    kcount .p2pkh ins + kcount .p2tr ins + kcount .p2wpkh ins + kcount .nested ins = ins.length := by
  induction ins with
  | nil => simp [kcount]
  | cons x xs ih =>
    obtain ⟨k', s⟩ := x
    simp only [kcount, List.length_cons]
    cases k' <;> simp <;> omega

theorem hasWitness_iff (ins : List (Kind × Int)) :
    hasWitness ins = true ↔ 0 < kcount .p2wpkh ins + kcount .nested ins + kcount .p2tr ins := by
  induction ins with
  | nil => simp [hasWitness, kcount]
  | cons x xs ih =>
    obtain ⟨k', s⟩ := x
    have h1 := kcount_nonneg .p2wpkh xs
    have h2 := kcount_nonneg .nested xs
    have h3 := kcount_nonneg .p2tr xs
    simp only [hasWitness, kcount, Bool.or_eq_true, ih]
    cases k' <;> simp <;> omega

/-- one input: 4 × non-witness bytes + witness bytes (when the transaction is a segwit one) is within the
    worst case assumed by txsizes (149·4, 41·4+67, 41·4+109, 64·4+109) -/
theorem input_le (m : Bool) (k : Kind) (s : Int) (h : sigOK m (k, s)) :
    4 * inputBase k s + (if m then inputWitness k s else 0) ≤
      (match k with | .p2pkh => 596 | .p2tr => 231 | .p2wpkh => 273 | .nested => 365) := by
  cases m <;> cases k <;> simp only [sigOK, Bool.false_eq_true, ↓reduceIte] at h <;>
    simp only [inputBase, sigScriptLen, inputWitness, pushSize, wire_VarIntSerializeSize, Bool.false_eq_true, ↓reduceIte] <;>
    (repeat' split) <;> omega

theorem inputs_le (m : Bool) (ins : List (Kind × Int)) (h : ∀ x ∈ ins, sigOK m x) :
    4 * sumInputBase ins + (if m then sumInputWitness ins else 0) ≤
      596 * kcount .p2pkh ins + 231 * kcount .p2tr ins + 273 * kcount .p2wpkh ins + 365 * kcount .nested ins := by
  induction ins with
  | nil => cases m <;> simp [sumInputBase, sumInputWitness, kcount]
  | cons x xs ih =>
    obtain ⟨k, s⟩ := x
    have hx := input_le m k s (h _ (List.mem_cons_self))
    have ih' := ih (fun y hy => h y (List.mem_cons_of_mem _ hy))
    simp only [sumInputBase, sumInputWitness, kcount]
    cases m <;> cases k <;> simp at hx ih' ⊢ <;> omega

/-- The byte-accurate signed virtual size is at most the worst-case estimate (closed form), for the requested
    outputs plus at most one extra (change) output whose script is no longer than the declared change script size.
    With the pre-fix estimator (`b = false`) this needs the output-count var-int not to grow when the change output
    is added. -/
theorem realVSize_le_est (b : Bool) (ins : List (Kind × Int)) (outs extra : List TxOut) (cs : Int)
    (hadm : Admissible ins) (hcs : 0 < cs)
    (hextra : extra = [] ∨ ∃ o, extra = [o] ∧ (o.PkScript.len : Int) ≤ cs)
    (hb : b = true ∨ extra = [] ∨ varint (outs.length : Int) = varint ((outs.length : Int) + 1)) :
    realVSize ins (outs ++ extra) ≤
      est b (kcount .p2pkh ins) (kcount .p2tr ins) (kcount .p2wpkh ins) (kcount .nested ins) outs cs := by
  have hlen := kcount_total ins
  have hsum := inputs_le (hasWitness ins) ins hadm
  have hw := hasWitness_iff ins
  have hP := kcount_nonneg .p2pkh ins
  have hT := kcount_nonneg .p2tr ins
  have hW := kcount_nonneg .p2wpkh ins
  have hN := kcount_nonneg .nested ins
  have hvw := varint_bounds (kcount .p2wpkh ins + kcount .nested ins + kcount .p2tr ins)
  have hsz := sumOutSizes_append outs extra
  have hvo : varint ((outs ++ extra).length : Int) ≤ varint ((outs.length : Int) + 1) := by
    apply varint_mono (by omega)
    rcases hextra with h | ⟨o, h, _⟩ <;> subst h <;> simp <;> omega
  have hvo' : extra = [] → varint ((outs ++ extra).length : Int) = varint (outs.length : Int) := by
    intro h; subst h; simp
  have hex : sumOutSizes extra ≤ 8 + varint cs + cs := by
    have hc := varint_bounds cs
    rcases hextra with h | ⟨o, h, ho⟩
    · subst h; simp [sumOutSizes]; omega
    · subst h
      have := varint_mono (a := (o.PkScript.len : Int)) (b := cs) (by omega) ho
      simp only [sumOutSizes, TxOut.SerializeSize]
      omega
  unfold realVSize realWeight realBaseSize est
  simp only [hcs, gt_iff_lt, and_true]
  rw [hsz]
  cases hh : hasWitness ins
  · have hz : ¬ (0 < kcount .p2wpkh ins + kcount .nested ins + kcount .p2tr ins) := by
      rw [← hw, hh]; simp
    rw [hh] at hsum
    simp only [Bool.false_eq_true, ↓reduceIte] at hsum ⊢
    rw [if_neg hz]
    rw [← hlen]
    cases b
    · simp only [Bool.false_eq_true, ↓reduceIte]
      rcases hb with h | h | h
      · cases h
      · have := hvo' h; omega
      · omega
    · simp only [↓reduceIte]
      omega
  · have hz : 0 < kcount .p2wpkh ins + kcount .nested ins + kcount .p2tr ins := by
      rw [← hw, hh]
    rw [hh] at hsum
    simp only [↓reduceIte] at hsum ⊢
    rw [if_pos hz]
    rw [← hlen]
    cases b
    · simp only [Bool.false_eq_true, ↓reduceIte]
      rcases hb with h | h | h
      · cases h
      · have := hvo' h; omega
      · omega
    · simp only [↓reduceIte]
      omega

/-! ### the loop -/

/-- `maxRequiredFee` of an iteration that fetched `coins` -/
@[reducible] def maxReq (cfg : Cfg) (rate : Int) (outs : List TxOut) (cs : ChangeSource) (coins : List Coin) : Int :=
  cfg.feeFor rate (cfg.est (count .p2pkh coins) (count .p2tr coins) (count .p2wpkh coins) (count .nested coins)
    outs cs.scriptSize)

/-- `changeAmount` of that iteration -/
@[reducible] def changeAmt (cfg : Cfg) (rate : Int) (outs : List TxOut) (cs : ChangeSource) (f : Fetch) : Int :=
  f.total - cfg.sumValues outs - maxReq cfg rate outs cs f.coins

/-- What a successful run establishes about its last iteration. -/
def Final {σ : Type} (cfg : Cfg) (src : Source σ) (Inv : σ → Prop) (outs : List TxOut) (rate : Int)
    (cs : ChangeSource) (r : Result) : Prop :=
  ∃ s1 t s2 f script,
    Inv s1 ∧ src.fetch s1 t = (s2, some f) ∧ cs.script = some script ∧ r.inputs = f.coins ∧ r.total = f.total ∧
    maxReq cfg rate outs cs f.coins ≤ f.total - cfg.sumValues outs ∧
    ((changeAmt cfg rate outs cs f ≠ 0 ∧ cfg.isDust ⟨changeAmt cfg rate outs cs f, script⟩ = false ∧
      r.outs = outs ++ [⟨changeAmt cfg rate outs cs f, script⟩] ∧ r.changeIdx = some outs.length) ∨
     ((changeAmt cfg rate outs cs f = 0 ∨ cfg.isDust ⟨changeAmt cfg rate outs cs f, script⟩ = true) ∧
      r.outs = outs ∧ r.changeIdx = none))

theorem loop_ok {σ : Type} (cfg : Cfg) (src : Source σ) (Inv : σ → Prop)
    (hstep : ∀ s t, Inv s → Inv (src.fetch s t).1) (outs : List TxOut) (rate : Int) (cs : ChangeSource)
    (r : Result) : ∀ (fuel : Nat) (s : σ) (tf : Int) (tr : List Int), Inv s →
    (loop cfg src outs rate cs fuel s tf tr).1 = .ok r → Final cfg src Inv outs rate cs r := by
  intro fuel
  induction fuel with
  | zero => intro s tf tr _ h; simp [loop] at h
  | succ n ih =>
    intro s tf tr hinv h
    simp only [loop] at h
    split at h
    · simp at h
    · rename_i s' f hf
      split at h
      · simp at h
      · split at h
        · have := hstep s (cfg.sumValues outs + tf) hinv
          rw [hf] at this
          exact ih _ _ _ this h
        · split at h
          · simp at h
          · rename_i script hs
            split at h
            · rename_i hc
              simp only [Outcome.ok.injEq] at h
              subst h
              refine ⟨s, _, s', f, script, hinv, hf, hs, rfl, rfl, by simp only [maxReq]; omega, Or.inl ⟨hc.1, ?_, rfl, rfl⟩⟩
              have := hc.2
              simpa using this
            · rename_i hc
              simp only [Outcome.ok.injEq] at h
              subst h
              refine ⟨s, _, s', f, script, hinv, hf, hs, rfl, rfl, by simp only [maxReq]; omega, Or.inr ⟨?_, rfl, rfl⟩⟩
              by_cases h0 : changeAmt cfg rate outs cs f = 0
              · exact Or.inl h0
              · right
                cases hd : cfg.isDust ⟨changeAmt cfg rate outs cs f, script⟩
                · exfalso; apply hc; exact ⟨h0, by simp [hd]⟩
                · rfl

/-- The input source reports the sum of the values it hands out (true of both wallet sources). -/
structure SrcSound {σ : Type} (src : Source σ) (Inv : σ → Prop) : Prop where
  step : ∀ s t, Inv s → Inv (src.fetch s t).1
  total_eq : ∀ s t s' f, Inv s → src.fetch s t = (s', some f) → f.total = sumCoins f.coins

/-- `Final`, re-expressed over the result only (for a truthful source and `SumOutputValues` = sum). -/
structure Facts (cfg : Cfg) (outs : List TxOut) (rate : Int) (cs : ChangeSource) (r : Result) : Prop where
  total_eq : r.total = sumCoins r.inputs
  req_le   : maxReq cfg rate outs cs r.inputs ≤ sumCoins r.inputs - sumOuts outs
  shape    : ∃ script, cs.script = some script ∧
    ((sumCoins r.inputs - sumOuts outs - maxReq cfg rate outs cs r.inputs ≠ 0 ∧
      cfg.isDust ⟨sumCoins r.inputs - sumOuts outs - maxReq cfg rate outs cs r.inputs, script⟩ = false ∧
      r.outs = outs ++ [⟨sumCoins r.inputs - sumOuts outs - maxReq cfg rate outs cs r.inputs, script⟩] ∧
      r.changeIdx = some outs.length) ∨
     ((sumCoins r.inputs - sumOuts outs - maxReq cfg rate outs cs r.inputs = 0 ∨
       cfg.isDust ⟨sumCoins r.inputs - sumOuts outs - maxReq cfg rate outs cs r.inputs, script⟩ = true) ∧
      r.outs = outs ∧ r.changeIdx = none))

theorem facts_of_final {σ : Type} {cfg : Cfg} {src : Source σ} {Inv : σ → Prop} {outs : List TxOut} {rate : Int}
    {cs : ChangeSource} {r : Result} (hS : SumOK cfg) (hsrc : SrcSound src Inv)
    (h : Final cfg src Inv outs rate cs r) : Facts cfg outs rate cs r := by
  obtain ⟨s1, t, s2, f, script, hinv, hf, hs, hi, ht, hle, hc⟩ := h
  have htot := hsrc.total_eq _ _ _ _ hinv hf
  have hsum := hS.sum_eq outs
  simp only [changeAmt] at hc
  rw [hsum] at hle hc
  rw [htot, ← hi] at hle hc
  exact ⟨by rw [ht, htot, hi], hle, script, hs, hc⟩

/-- the fee really paid: exactly the required fee when a change output is added, otherwise the required fee plus the
    withheld (zero or dust) change amount -/
theorem Facts.fee {cfg : Cfg} {outs : List TxOut} {rate : Int} {cs : ChangeSource} {r : Result}
    (h : Facts cfg outs rate cs r) :
    (r.changeIdx ≠ none → r.fee = maxReq cfg rate outs cs r.inputs) ∧
    (r.changeIdx = none → r.fee = sumCoins r.inputs - sumOuts outs) ∧
    maxReq cfg rate outs cs r.inputs ≤ r.fee := by
  obtain ⟨script, _, hc⟩ := h.shape
  have := h.req_le
  rcases hc with ⟨_, _, ho, hi⟩ | ⟨_, ho, hi⟩
  · have hf : r.fee = maxReq cfg rate outs cs r.inputs := by
      simp only [Result.fee, ho, sumOuts_append, sumOuts]; omega
    exact ⟨fun _ => hf, fun h => by rw [hi] at h; simp at h, by omega⟩
  · have hf : r.fee = sumCoins r.inputs - sumOuts outs := by simp only [Result.fee, ho]
    exact ⟨fun h => by rw [hi] at h; simp at h, fun _ => hf, by omega⟩

theorem est_nonneg (b : Bool) {p t w n : Int} (outs : List TxOut) (cs : Int) (hp : 0 ≤ p) (ht : 0 ≤ t)
    (hw : 0 ≤ w) (hn : 0 ≤ n) : 10 ≤ est b p t w n outs cs := by
  have h1 := varint_bounds (p + t + w + n)
  have h2 := varint_bounds ((outs.length : Int) + 1)
  have h3 := varint_bounds (outs.length : Int)
  have h4 := varint_bounds cs
  have h5 := varint_bounds (w + n + t)
  have h6 := sumOutSizes_nonneg outs
  unfold est
  repeat' split
  all_goals omega

theorem kcount_zip (k : Kind) : ∀ (coins : List Coin) (sigs : List Int), sigs.length = coins.length →
    kcount k ((coins.map (fun c => classify c.script)).zip sigs) = count k coins := by
  intro coins
  induction coins with
  | nil => intro sigs _; simp [kcount, count]
  | cons c cs ih =>
    intro sigs h
    cases sigs with
    | nil => simp at h
    | cons s ss =>
      simp only [List.length_cons, Nat.add_right_cancel_iff] at h
      simp only [List.map_cons, List.zip_cons_cons, kcount, count, ih ss h]

theorem inputBase_ge (m : Bool) (k : Kind) (s : Int) (h : sigOK m (k, s)) : 41 ≤ inputBase k s := by
  cases m <;> cases k <;> simp only [sigOK, Bool.false_eq_true, ↓reduceIte] at h <;>
    simp only [inputBase, sigScriptLen, pushSize, wire_VarIntSerializeSize] <;>
    (repeat' split) <;> omega

theorem inputWitness_ge (m : Bool) (k : Kind) (s : Int) (h : sigOK m (k, s)) : 1 ≤ inputWitness k s := by
  cases m <;> cases k <;> simp only [sigOK, Bool.false_eq_true, ↓reduceIte] at h <;>
    simp only [inputWitness] <;> omega

theorem sums_nonneg (m : Bool) (ins : List (Kind × Int)) (h : ∀ x ∈ ins, sigOK m x) :
    0 ≤ sumInputBase ins ∧ 0 ≤ sumInputWitness ins := by
  induction ins with
  | nil => simp [sumInputBase, sumInputWitness]
  | cons x xs ih =>
    obtain ⟨k, s⟩ := x
    have h1 := inputBase_ge m k s (h _ List.mem_cons_self)
    have h2 := inputWitness_ge m k s (h _ List.mem_cons_self)
    have ih' := ih (fun y hy => h y (List.mem_cons_of_mem _ hy))
    simp only [sumInputBase, sumInputWitness]
    omega

theorem realVSize_ge (ins : List (Kind × Int)) (outs : List TxOut) (hadm : Admissible ins) :
    10 ≤ realVSize ins outs := by
  have h := sums_nonneg _ ins hadm
  have h1 := varint_bounds (ins.length : Int)
  have h2 := varint_bounds (outs.length : Int)
  have h3 := sumOutSizes_nonneg outs
  unfold realVSize realWeight realBaseSize
  simp only []
  split <;> omega

/-- **fee ≥ rate × real signed size** for an arithmetic whose estimator is the closed form `est b`. -/
theorem fee_lower_gen {cfg : Cfg} {b : Bool} {outs : List TxOut} {rate : Int} {cs : ChangeSource} {r : Result}
    (hE : EstOK cfg b) (hF : FeeOK cfg) (hfacts : Facts cfg outs rate cs r)
    (hr : 1000 ≤ rate) (hcs0 : 0 < cs.scriptSize)
    (hcsl : ∀ sc, cs.script = some sc → (sc.len : Int) ≤ cs.scriptSize)
    (sigs : List Int) (hlen : sigs.length = r.inputs.length) (hadm : Admissible (signedInputs r sigs))
    (hb : b = true ∨ r.changeIdx = none ∨
      varint (outs.length : Int) = varint ((outs.length : Int) + 1)) :
    cfg.feeFor rate (realVSize (signedInputs r sigs) r.outs) ≤ r.fee := by
  have hP := count_nonneg .p2pkh r.inputs
  have hT := count_nonneg .p2tr r.inputs
  have hW := count_nonneg .p2wpkh r.inputs
  have hN := count_nonneg .nested r.inputs
  have hfee := hfacts.fee.2.2
  have hEq := hE.est_eq _ _ _ _ outs cs.scriptSize hP hT hW hN
  have hE10 := est_nonneg b outs cs.scriptSize hP hT hW hN
  have hV10 := realVSize_ge (signedInputs r sigs) r.outs hadm
  -- the signed size is at most the estimate
  have hVE : realVSize (signedInputs r sigs) r.outs ≤
      est b (count .p2pkh r.inputs) (count .p2tr r.inputs) (count .p2wpkh r.inputs) (count .nested r.inputs)
        outs cs.scriptSize := by
    obtain ⟨script, hs, hc⟩ := hfacts.shape
    have hk : ∀ k, kcount k (signedInputs r sigs) = count k r.inputs := fun k => kcount_zip k _ _ hlen
    rw [← hk .p2pkh, ← hk .p2tr, ← hk .p2wpkh, ← hk .nested]
    rcases hc with ⟨_, _, ho, hi⟩ | ⟨_, ho, hi⟩
    · rw [ho]
      apply realVSize_le_est b _ outs _ cs.scriptSize hadm hcs0
      · exact Or.inr ⟨_, rfl, hcsl _ hs⟩
      · rcases hb with h | h | h
        · exact Or.inl h
        · rw [hi] at h; simp at h
        · exact Or.inr (Or.inr h)
    · rw [ho]
      have := realVSize_le_est b (signedInputs r sigs) outs [] cs.scriptSize hadm hcs0 (Or.inl rfl)
        (Or.inr (Or.inl rfl))
      simpa using this
  rw [hF.fee_eq _ _ (by omega) (by omega)]
  have hmono := feeFor_mono (rate := rate) hr (by omega) hVE
  have : maxReq cfg rate outs cs r.inputs = feeFor rate (est b (count .p2pkh r.inputs) (count .p2tr r.inputs)
      (count .p2wpkh r.inputs) (count .nested r.inputs) outs cs.scriptSize) := by
    simp only [maxReq]
    rw [hEq, hF.fee_eq _ _ (by omega) (by omega)]
  omega

theorem fill_inv (target : Int) : ∀ (rest : List Coin) (total : Int) (taken : List Coin),
    (fill target total taken rest).taken ++ (fill target total taken rest).rest = taken ++ rest ∧
    (fill target total taken rest).total - sumCoins (fill target total taken rest).taken = total - sumCoins taken ∧
    (target ≤ (fill target total taken rest).total ∨ (fill target total taken rest).rest = []) ∧
    (fill target total taken rest).rest.length ≤ rest.length ∧
    (total < target → rest ≠ [] → (fill target total taken rest).rest.length < rest.length) := by
  intro rest
  induction rest with
  | nil => intro total taken; simp [fill]
  | cons c cs ih =>
    intro total taken
    simp only [fill]
    split
    · rename_i hlt
      obtain ⟨h1, h2, h3, h4, _⟩ := ih (total + c.value) (taken ++ [c])
      refine ⟨by rw [h1]; simp, ?_, h3, by simp; omega, fun _ _ => by simp; omega⟩
      rw [h2, sumCoins_append]; simp [sumCoins]; omega
    · rename_i hge
      refine ⟨rfl, rfl, Or.inl (by simp only []; omega), Nat.le_refl _, fun h => by omega⟩

/-! ### dust -/

theorem dustThreshold_eq (o : TxOut) : mempool_GetDustThreshold o = dustThreshold o.PkScript := by
  unfold mempool_GetDustThreshold dustThreshold TxOut.SerializeSize
  have : Int.tdiv 107 4 = 26 := by decide
  rw [this]

theorem dustThreshold_pos (s : Script) : 0 < dustThreshold s := by
  have := varint_bounds (s.len : Int)
  unfold dustThreshold; split <;> omega

/-- for a spendable, non-null-data script and a non-negative amount: dust ⇔ below the threshold -/
theorem isDust_iff {o : TxOut} (hn : o.PkScript.isNullData = false) (hu : o.PkScript.isUnspendable = false)
    (hv : 0 ≤ o.Value) : isDust o = true ↔ o.Value < dustThreshold o.PkScript := by
  have hp := dustThreshold_pos o.PkScript
  unfold isDust mempool_IsDust
  rw [hn, hu, dustThreshold_eq]
  simp only [Bool.false_eq_true, ↓reduceIte, decide_eq_true_eq]
  rw [Int.tdiv_eq_ediv_of_nonneg (by omega), Int.ediv_lt_iff_lt_mul hp]
  omega

theorem isDust_nullData {o : TxOut} (hn : o.PkScript.isNullData = true) : isDust o = false := by
  unfold isDust; rw [hn]; simp

/-- **fee ≤ required fee for the worst-case estimate + one dust threshold of the change script** -/
theorem fee_upper_gen {cfg : Cfg} {outs : List TxOut} {rate : Int} {cs : ChangeSource} {r : Result}
    (hD : DustOK cfg) (hfacts : Facts cfg outs rate cs r)
    (hsp : ∀ sc, cs.script = some sc → sc.isNullData = true ∨ sc.isUnspendable = false) :
    ∃ sc, cs.script = some sc ∧ r.fee ≤ maxReq cfg rate outs cs r.inputs + dustThreshold sc ∧
      (r.changeIdx ≠ none → r.fee = maxReq cfg rate outs cs r.inputs) := by
  obtain ⟨script, hs, hc⟩ := hfacts.shape
  have hfee := hfacts.fee
  have hle := hfacts.req_le
  have hp := dustThreshold_pos script
  refine ⟨script, hs, ?_, hfee.1⟩
  rcases hc with ⟨_, _, _, hi⟩ | ⟨hz, _, hi⟩
  · have := hfee.1 (by rw [hi]; simp); omega
  · have hf := hfee.2.1 hi
    rcases hz with hz | hz
    · omega
    · rw [hD.dust_eq] at hz
      rcases hsp _ hs with hn | hu
      · rw [isDust_nullData (by simpa using hn)] at hz; simp at hz
      · cases hn : script.isNullData
        · have := (isDust_iff (o := ⟨_, script⟩) hn hu (by simp only []; omega)).1 hz
          simp only [] at this
          omega
        · rw [isDust_nullData (by simpa using hn)] at hz; simp at hz

/-- **the change output, when there is one, is positive and not dust** -/
theorem no_dust_gen {cfg : Cfg} {outs : List TxOut} {rate : Int} {cs : ChangeSource} {r : Result}
    (hD : DustOK cfg) (hfacts : Facts cfg outs rate cs r) (i : Nat) (hi : r.changeIdx = some i) :
    ∃ c, i = outs.length ∧ r.outs = outs ++ [c] ∧ cs.script = some c.PkScript ∧ 0 < c.Value ∧ isDust c = false ∧
      (c.PkScript.isNullData = false → c.PkScript.isUnspendable = false → dustThreshold c.PkScript ≤ c.Value) := by
  obtain ⟨script, hs, hc⟩ := hfacts.shape
  have hle := hfacts.req_le
  rcases hc with ⟨hne, hd, ho, hi'⟩ | ⟨_, _, hi'⟩
  · rw [hi'] at hi
    simp only [Option.some.injEq] at hi
    rw [hD.dust_eq] at hd
    refine ⟨_, hi.symm, ho, hs, by simp only []; omega, hd, ?_⟩
    intro hn hu
    simp only [] at hn hu
    have h := isDust_iff (o := ⟨sumCoins r.inputs - sumOuts outs - maxReq cfg rate outs cs r.inputs, script⟩) hn hu
      (by simp only []; omega)
    simp only [] at h ⊢
    by_cases hlt : sumCoins r.inputs - sumOuts outs - maxReq cfg rate outs cs r.inputs < dustThreshold script
    · rw [h.2 hlt] at hd; simp at hd
    · omega
  · rw [hi'] at hi; simp at hi

/-! ### the estimate grows with the input counts -/

theorem est_mono (b : Bool) {p t w n p' t' w' n' : Int} (outs : List TxOut) (cs : Int)
    (hp : 0 ≤ p) (ht : 0 ≤ t) (hw : 0 ≤ w) (hn : 0 ≤ n)
    (hp' : p ≤ p') (ht' : t ≤ t') (hw' : w ≤ w') (hn' : n ≤ n') :
    est b p t w n outs cs ≤ est b p' t' w' n' outs cs := by
  have h1 := varint_mono (a := p + t + w + n) (b := p' + t' + w' + n') (by omega) (by omega)
  have h2 := varint_mono (a := w + n + t) (b := w' + n' + t') (by omega) (by omega)
  have h3 := varint_bounds (w' + n' + t')
  unfold est
  split <;> split <;> omega

/-- every transaction with at least one input is estimated at least as large as one with a single P2TR input -/
theorem est_p2tr_le (b : Bool) {p t w n : Int} (outs : List TxOut) (cs : Int)
    (hp : 0 ≤ p) (ht : 0 ≤ t) (hw : 0 ≤ w) (hn : 0 ≤ n) (h1 : 1 ≤ p + t + w + n) :
    est b 0 1 0 0 outs cs ≤ est b p t w n outs cs := by
  have h2 := varint_mono (a := 1) (b := p + t + w + n) (by omega) (by omega)
  have h3 := varint_bounds (w + n + t)
  have h4 : varint 1 = 1 := by decide
  unfold est
  simp only [Int.add_zero, Int.zero_add, Int.zero_mul, Int.one_mul]
  rw [h4] at h2 ⊢
  split <;> omega

/-! ### the wallet's input source (`makeInputSource`) -/

structure PInv (coins : List Coin) (s : PState) : Prop where
  split : s.taken ++ s.rest = coins
  total : s.total = sumCoins s.taken

theorem pinv_init (coins : List Coin) : PInv coins (prefixInit coins) := ⟨by simp [prefixInit], by simp [prefixInit, sumCoins]⟩

theorem pinv_fill {coins : List Coin} {s : PState} (hI : PInv coins s) (t : Int) :
    PInv coins (fill t s.total s.taken s.rest) := by
  obtain ⟨h1, h2, _, _, _⟩ := fill_inv t s.rest s.total s.taken
  exact ⟨by rw [h1, hI.split], by have := hI.total; omega⟩

theorem prefixSource_sound (coins : List Coin) : SrcSound prefixSource (PInv coins) := by
  constructor
  · intro s t h
    exact pinv_fill h t
  · intro s t s' f hI h
    simp only [prefixSource, Prod.mk.injEq, Option.some.injEq] at h
    obtain ⟨_, h⟩ := h
    subst h
    exact (pinv_fill hI t).total

theorem constSource_sound : SrcSound constSource (fun _ => True) := by
  constructor
  · intro s t _; trivial
  · intro s t s' f _ h
    simp only [constSource, Prod.mk.injEq, Option.some.injEq] at h
    obtain ⟨_, h⟩ := h
    subst h
    rfl

/-- fee required when ALL offered coins are used -/
@[reducible] def feeAll (b : Bool) (rate : Int) (outs : List TxOut) (cs : ChangeSource) (coins : List Coin) : Int :=
  feeFor rate (est b (count .p2pkh coins) (count .p2tr coins) (count .p2wpkh coins) (count .nested coins) outs
    cs.scriptSize)

theorem maxReq_le_feeAll {cfg : Cfg} {b : Bool} (hE : EstOK cfg b) (hF : FeeOK cfg) {rate : Int}
    (hr : 1000 ≤ rate) (outs : List TxOut) (cs : ChangeSource) (taken rest : List Coin) :
    maxReq cfg rate outs cs taken ≤ feeAll b rate outs cs (taken ++ rest) := by
  have hP := count_nonneg .p2pkh taken
  have hT := count_nonneg .p2tr taken
  have hW := count_nonneg .p2wpkh taken
  have hN := count_nonneg .nested taken
  have hP' := count_nonneg .p2pkh rest
  have hT' := count_nonneg .p2tr rest
  have hW' := count_nonneg .p2wpkh rest
  have hN' := count_nonneg .nested rest
  have h10 := est_nonneg b outs cs.scriptSize hP hT hW hN
  simp only [maxReq, feeAll]
  rw [hE.est_eq _ _ _ _ _ _ hP hT hW hN, hF.fee_eq _ _ (by omega) (by omega)]
  apply feeFor_mono hr (by omega)
  simp only [count_append]
  apply est_mono b outs cs.scriptSize hP hT hW hN <;> omega

theorem loop_insufficient {cfg : Cfg} {b : Bool} (hE : EstOK cfg b) (hF : FeeOK cfg) (hS : SumOK cfg)
    {rate : Int} (hr : 1000 ≤ rate) (outs : List TxOut) (cs : ChangeSource) (coins : List Coin) :
    ∀ (fuel : Nat) (s : PState) (tf : Int) (tr : List Int), PInv coins s →
      tf ≤ feeAll b rate outs cs coins →
      (loop cfg prefixSource outs rate cs fuel s tf tr).1 = .err .insufficient →
      sumCoins coins < sumOuts outs + feeAll b rate outs cs coins := by
  intro fuel
  induction fuel with
  | zero => intro s tf tr _ _ h; simp [loop] at h
  | succ n ih =>
    intro s tf tr hI htf h
    have hI' := pinv_fill hI (cfg.sumValues outs + tf)
    obtain ⟨_, _, hstop, _, _⟩ := fill_inv (cfg.sumValues outs + tf) s.rest s.total s.taken
    simp only [loop, prefixSource] at h
    split at h
    · rename_i hlt
      rcases hstop with hge | hnil
      · omega
      · have hsplit := hI'.split
        rw [hnil, List.append_nil] at hsplit
        have htot := hI'.total
        rw [hsplit] at htot
        have hsum := hS.sum_eq outs
        omega
    · split at h
      · apply ih _ _ _ hI' _ h
        have := maxReq_le_feeAll hE hF hr outs cs (fill (cfg.sumValues outs + tf) s.total s.taken s.rest).taken
          (fill (cfg.sumValues outs + tf) s.total s.taken s.rest).rest
        rw [hI'.split] at this
        exact this
      · split at h
        · simp at h
        · split at h <;> simp at h

/-- the loop over `makeInputSource` needs at most `#unused coins + 2` iterations -/
theorem loop_progress (cfg : Cfg) (outs : List TxOut) (rate : Int) (cs : ChangeSource) :
    ∀ (fuel : Nat) (s : PState) (tf : Int) (tr : List Int),
      s.total < cfg.sumValues outs + tf → s.rest.length + 1 ≤ fuel →
      (loop cfg prefixSource outs rate cs fuel s tf tr).1 ≠ .fuel := by
  intro fuel
  induction fuel with
  | zero => intro s tf tr _ h; omega
  | succ n ih =>
    intro s tf tr hlt hfuel
    obtain ⟨_, _, hstop, hle, hdec⟩ := fill_inv (cfg.sumValues outs + tf) s.rest s.total s.taken
    simp only [loop, prefixSource]
    split
    · simp
    · split
      · rename_i hge hcont
        apply ih
        · omega
        · by_cases hr : s.rest = []
          · rw [hr] at hge; simp [fill] at hge; omega
          · have := hdec hlt hr; omega
      · split
        · simp
        · split <;> simp

theorem loop_terminates (cfg : Cfg) (outs : List TxOut) (rate : Int) (cs : ChangeSource)
    (fuel : Nat) (s : PState) (tf : Int) (tr : List Int) (hfuel : s.rest.length + 2 ≤ fuel) :
    (loop cfg prefixSource outs rate cs fuel s tf tr).1 ≠ .fuel := by
  cases fuel with
  | zero => omega
  | succ n =>
    obtain ⟨_, _, _, hle, _⟩ := fill_inv (cfg.sumValues outs + tf) s.rest s.total s.taken
    simp only [loop, prefixSource]
    split
    · simp
    · split
      · apply loop_progress
        · omega
        · omega
      · split
        · simp
        · split <;> simp

/-- a transaction with at least one input, other than a single P2TR input, is estimated at least as large as one
    with a single P2WPKH input -/
theorem est_p2wpkh_le (b : Bool) {p t w n : Int} (outs : List TxOut) (cs : Int)
    (hp : 0 ≤ p) (ht : 0 ≤ t) (hw : 0 ≤ w) (hn : 0 ≤ n) (h1 : 1 ≤ p + t + w + n)
    (hx : ¬ (t = 1 ∧ p = 0 ∧ w = 0 ∧ n = 0)) :
    est b 0 0 1 0 outs cs ≤ est b p t w n outs cs := by
  have h2 := varint_mono (a := 1) (b := p + t + w + n) (by omega) (by omega)
  have h3 := varint_bounds (w + n + t)
  have h4 : varint 1 = 1 := by decide
  unfold est
  simp only [Int.add_zero, Int.zero_add, Int.zero_mul, Int.one_mul]
  rw [h4] at h2 ⊢
  split <;> omega

/-- **insufficient funds from the wallet's source ⇒ all offered coins together do not cover outputs + required fee**,
    provided the first target fee (made before any input is known) does not exceed the fee for all coins. -/
theorem insufficient_of_first_le {cfg : Cfg} {b : Bool} (hE : EstOK cfg b) (hF : FeeOK cfg) (hS : SumOK cfg)
    {rate : Int} (hr : 1000 ≤ rate) (outs : List TxOut) (cs : ChangeSource) (coins : List Coin) (fuel : Nat)
    (hfirst : cfg.feeFor rate (cfg.est cfg.init.1 cfg.init.2.1 cfg.init.2.2.1 cfg.init.2.2.2 outs cs.scriptSize) ≤
      feeAll b rate outs cs coins)
    (h : (newUnsignedWith cfg prefixSource (prefixInit coins) outs rate cs fuel).1 = .err .insufficient) :
    sumCoins coins < sumOuts outs + feeAll b rate outs cs coins :=
  loop_insufficient hE hF hS hr outs cs coins fuel _ _ _ (pinv_init coins) hfirst h

theorem feeAll_pos (b : Bool) {rate : Int} (hr : 1000 ≤ rate) (outs : List TxOut) (cs : ChangeSource)
    (coins : List Coin) : 0 < feeAll b rate outs cs coins := by
  have := est_nonneg b outs cs.scriptSize (count_nonneg .p2pkh coins) (count_nonneg .p2tr coins)
    (count_nonneg .p2wpkh coins) (count_nonneg .nested coins)
  exact feeFor_pos (by omega) (by omega)

/-- first target fee ≤ fee for all coins, when the first estimate assumes no input or one P2TR input -/
theorem first_le_feeAll {cfg : Cfg} {b : Bool} (hE : EstOK cfg b) (hF : FeeOK cfg) {rate : Int} (hr : 1000 ≤ rate)
    (outs : List TxOut) (cs : ChangeSource) (coins : List Coin) (hne : coins ≠ [])
    (hinit : cfg.init = (0, 0, 0, 0) ∨ cfg.init = (0, 1, 0, 0)) :
    cfg.feeFor rate (cfg.est cfg.init.1 cfg.init.2.1 cfg.init.2.2.1 cfg.init.2.2.2 outs cs.scriptSize) ≤
      feeAll b rate outs cs coins := by
  have hP := count_nonneg .p2pkh coins
  have hT := count_nonneg .p2tr coins
  have hW := count_nonneg .p2wpkh coins
  have hN := count_nonneg .nested coins
  have htot := count_total coins
  have hlen : 1 ≤ (coins.length : Int) := by
    cases coins with
    | nil => exact absurd rfl hne
    | cons c cs => simp only [List.length_cons]; omega
  rcases hinit with h | h <;> rw [h] <;> simp only []
  · rw [hE.est_eq _ _ _ _ _ _ (by omega) (by omega) (by omega) (by omega)]
    have h10 := est_nonneg b outs cs.scriptSize (p := 0) (t := 0) (w := 0) (n := 0) (by omega) (by omega) (by omega) (by omega)
    rw [hF.fee_eq _ _ (by omega) (by omega)]
    exact feeFor_mono hr (by omega) (est_mono b outs cs.scriptSize (by omega) (by omega) (by omega) (by omega) hP hT hW hN)
  · rw [hE.est_eq _ _ _ _ _ _ (by omega) (by omega) (by omega) (by omega)]
    have h10 := est_nonneg b outs cs.scriptSize (p := 0) (t := 1) (w := 0) (n := 0) (by omega) (by omega) (by omega) (by omega)
    rw [hF.fee_eq _ _ (by omega) (by omega)]
    exact feeFor_mono hr (by omega) (est_p2tr_le b outs cs.scriptSize hP hT hW hN (by omega))

/-- the same when the first estimate assumes one P2WPKH input (the code before fix-C07-F5), EXCEPT when the offered
    coins are exactly one P2TR coin -/
theorem first_le_feeAll_p2wpkh {cfg : Cfg} {b : Bool} (hE : EstOK cfg b) (hF : FeeOK cfg) {rate : Int}
    (hr : 1000 ≤ rate) (outs : List TxOut) (cs : ChangeSource) (coins : List Coin) (hne : coins ≠ [])
    (hinit : cfg.init = (0, 0, 1, 0))
    (hx : ¬ (coins.length = 1 ∧ count .p2tr coins = 1)) :
    cfg.feeFor rate (cfg.est cfg.init.1 cfg.init.2.1 cfg.init.2.2.1 cfg.init.2.2.2 outs cs.scriptSize) ≤
      feeAll b rate outs cs coins := by
  have hP := count_nonneg .p2pkh coins
  have hT := count_nonneg .p2tr coins
  have hW := count_nonneg .p2wpkh coins
  have hN := count_nonneg .nested coins
  have htot := count_total coins
  have hlen : 1 ≤ (coins.length : Int) := by
    cases coins with
    | nil => exact absurd rfl hne
    | cons c cs => simp only [List.length_cons]; omega
  rw [hinit]; simp only []
  rw [hE.est_eq _ _ _ _ _ _ (by omega) (by omega) (by omega) (by omega)]
  have h10 := est_nonneg b outs cs.scriptSize (p := 0) (t := 0) (w := 1) (n := 0) (by omega) (by omega) (by omega) (by omega)
  rw [hF.fee_eq _ _ (by omega) (by omega)]
  apply feeFor_mono hr (by omega)
  apply est_p2wpkh_le b outs cs.scriptSize hP hT hW hN (by omega)
  intro ⟨h1, h2, h3, h4⟩
  apply hx
  constructor
  · omega
  · exact h1

/-- An input source that offers `coins`: every fetch hands out a prefix of them, reports its true total, and stops
    short of the target only when nothing is left. -/
structure Offers {σ : Type} (src : Source σ) (Inv : σ → Prop) (coins : List Coin) : Prop where
  fetch_ok : ∀ s t, Inv s → ∃ s' f rest, src.fetch s t = (s', some f) ∧ Inv s' ∧ f.coins ++ rest = coins ∧
    f.total = sumCoins f.coins ∧ (f.total < t → rest = [])

theorem loop_insufficient_offers {σ : Type} {src : Source σ} {Inv : σ → Prop} {coins : List Coin}
    (hoff : Offers src Inv coins) {cfg : Cfg} {b : Bool} (hE : EstOK cfg b) (hF : FeeOK cfg) (hS : SumOK cfg)
    {rate : Int} (hr : 1000 ≤ rate) (outs : List TxOut) (cs : ChangeSource) :
    ∀ (fuel : Nat) (s : σ) (tf : Int) (tr : List Int), Inv s →
      tf ≤ feeAll b rate outs cs coins →
      (loop cfg src outs rate cs fuel s tf tr).1 = .err .insufficient →
      sumCoins coins < sumOuts outs + feeAll b rate outs cs coins := by
  intro fuel
  induction fuel with
  | zero => intro s tf tr _ _ h; simp [loop] at h
  | succ n ih =>
    intro s tf tr hI htf h
    obtain ⟨s', f, rest, hf, hI', hsplit, htot, hstop⟩ := hoff.fetch_ok s (cfg.sumValues outs + tf) hI
    simp only [loop, hf] at h
    split at h
    · rename_i hlt
      have hnil := hstop hlt
      rw [hnil, List.append_nil] at hsplit
      rw [hsplit] at htot
      have hsum := hS.sum_eq outs
      omega
    · split at h
      · apply ih _ _ _ hI' _ h
        have := maxReq_le_feeAll hE hF hr outs cs f.coins rest
        rw [hsplit] at this
        exact this
      · split at h
        · simp at h
        · split at h <;> simp at h

theorem constSource_offers (coins : List Coin) : Offers constSource (fun s => s = coins) coins := by
  constructor
  intro s t hs
  subst hs
  exact ⟨s, ⟨sumCoins s, s⟩, [], rfl, rfl, by simp, rfl, fun _ => rfl⟩

theorem prefixSource_offers (coins : List Coin) : Offers prefixSource (PInv coins) coins := by
  constructor
  intro s t hI
  obtain ⟨_, _, hstop, _, _⟩ := fill_inv t s.rest s.total s.taken
  have hI' := pinv_fill hI t
  refine ⟨_, _, (fill t s.total s.taken s.rest).rest, rfl, hI', hI'.split, hI'.total, ?_⟩
  intro hlt
  rcases hstop with h | h
  · simp only [] at hlt; omega
  · exact h

end AuthorSpec
