/-
Preservation of `Good` by address issuing (nextAddresses + its OnCommit closure, extendAddresses): one address at a
time on a "ghost" memory whose index moves in lockstep with the database, then transfer to the real memory.
-/
import BtcwVerif.Lemmas.AddrGoodWrite
namespace AddrLock

def bumpRow (row : AcctRow) (br idx : Nat) : AcctRow :=
  if br = 1 then { row with nextInt := idx + 1 } else { row with nextExt := idx + 1 }

theorem putChained_some {d : Disk} {sc acct br idx : Nat} {row : AcctRow}
    (h : aget (d.scopes sc).accts acct = some row) :
    putChained d sc acct br idx = some (d.updScope sc fun s =>
      { s with addrs := aset s.addrs (.chain acct br idx) .chain, accts := aset s.accts acct (bumpRow row br idx) }) := by
  unfold putChained bumpRow; simp only [h]

/-- two memories with the same cache contents (as lookup functions), heap, sync state and watch-only flag -/
theorem good_of_aget_eq {d : Disk} {m m' : Mem} (hg : Good d m)
    (h1 : ∀ sc a, aget (m'.scopes sc).acctInfo a = aget (m.scopes sc).acctInfo a)
    (h2 : ∀ sc k, aget (m'.scopes sc).addrs k = aget (m.scopes sc).addrs k)
    (hh : m'.heap = m.heap) (hn : m'.heapN = m.heapN) (hsy : m'.syncedTo = m.syncedTo)
    (hw : m'.watchOnly = m.watchOnly) : Good d m' :=
  good_ext hg ⟨by rw [hn]; exact Nat.le_refl _, fun id _ => by rw [hh]; exact ⟨rfl, rfl⟩, hsy, hw⟩
    (fun sc k id h => by rw [h2] at h; exact h)
    (fun sc a ai h => Or.inl ⟨ai, by rw [h1] at h; exact h, rfl⟩)

/-- the ghost step: cache object `id` under the next key of the branch and advance the cached index -/
def issue1 (m : Mem) (sc acct : Nat) (internal : Bool) (info : AcctInfo) (id : Nat) : Mem :=
  (m.updScope sc fun s => { s with addrs := aset s.addrs (.chain acct (brOf internal) (nextOf info internal)) id }).updScope sc
    fun s => { s with acctInfo := aset s.acctInfo acct (setNext info internal (nextOf info internal + 1) id) }

theorem brOf_cases (internal : Bool) : (brOf internal = 1 ∧ internal = true) ∨ (brOf internal = 0 ∧ internal = false) := by
  cases internal <;> simp [brOf]

theorem good_issue1 {d : Disk} {m : Mem} (hg : Good d m) (hw : DiskWF d) (sc acct : Nat) (internal : Bool)
    (info : AcctInfo) (row : AcctRow)
    (hc : aget (m.scopes sc).acctInfo acct = some info) (hr : acctAns d sc acct = .ok row)
    (id : Nat) (hid : id < m.heapN)
    (hk : (m.heap id).key = .chain acct (brOf internal) (nextOf info internal)) (ha : (m.heap id).acct = acct) :
    ∃ d', putChained d sc acct (brOf internal) (nextOf info internal) = some d' ∧
      Good d' (issue1 m sc acct internal info id) ∧ DiskWF d' ∧
      acctAns d' sc acct = .ok (bumpRow row (brOf internal) (nextOf info internal)) := by
  obtain ⟨hrow0, hni⟩ := acctAns_ok_row hr
  obtain ⟨row1, hr1, hok⟩ := hg.coh.acct sc acct info hc
  rw [hr] at hr1; cases hr1
  generalize hidx : nextOf info internal = idx at *
  generalize hbr : brOf internal = br at *
  refine ⟨_, putChained_some hrow0, ?_⟩
  -- the new database image
  have hrowA := acctAns_setRow d sc acct (bumpRow row br idx)
    (fun s => { s with addrs := aset s.addrs (.chain acct br idx) .chain, accts := aset s.accts acct (bumpRow row br idx) })
    (fun _ => rfl)
  generalize hd' : (d.updScope sc fun s =>
    { s with addrs := aset s.addrs (.chain acct br idx) .chain, accts := aset s.accts acct (bumpRow row br idx) }) = d' at *
  have hnew : acctAns d' sc acct = .ok (bumpRow row br idx) := by rw [hrowA]; simp [hni]
  have hother : ∀ sc' a, ¬ (sc' = sc ∧ a = acct) → acctAns d' sc' a = acctAns d sc' a := by
    intro sc' a h; rw [hrowA, if_neg h]
  have hkeepok : ∀ sc' a r, acctAns d sc' a = .ok r → ∃ r', acctAns d' sc' a = .ok r' := by
    intro sc' a r h
    by_cases hcc : sc' = sc ∧ a = acct
    · obtain ⟨rfl, rfl⟩ := hcc; exact ⟨_, hnew⟩
    · exact ⟨r, by rw [hother sc' a hcc]; exact h⟩
  have hadr : ∀ sc' k, aget (d'.scopes sc').addrs k =
      if sc' = sc ∧ k = .chain acct br idx then some .chain else aget (d.scopes sc').addrs k := by
    intro sc' k; subst hd'
    rw [updScope_scopes]
    by_cases hsc : sc' = sc
    · subst hsc; simp only [if_true, true_and]; rw [aget_aset]
    · simp [hsc]
  have hla : ∀ sc', (d'.scopes sc').lastAcct = (d.scopes sc').lastAcct := by
    intro sc'; subst hd'; rw [updScope_scopes]; split <;> simp_all
  have hwo : d'.watchOnly = d.watchOnly := by subst hd'; rfl
  have hsy : d'.syncedTo = d.syncedTo := by subst hd'; rfl
  have hbump : (bumpRow row br idx).wo = row.wo ∧ (bumpRow row br idx).hasPriv = row.hasPriv ∧
      (bumpRow row br idx).name = row.name := by unfold bumpRow; split <;> exact ⟨rfl, rfl, rfl⟩
  have hdp : d'.watchOnly = false → ∀ sc' a r, acctAns d' sc' a = .ok r → r.wo = false → r.hasPriv = true := by
    intro hw' sc' a r hr' hrw
    by_cases hcc : sc' = sc ∧ a = acct
    · obtain ⟨rfl, rfl⟩ := hcc
      rw [hnew] at hr'; cases hr'
      rw [hbump.2.1]; exact hw.dpriv (by rw [← hwo]; exact hw') sc' a row hr (by rw [← hbump.1]; exact hrw)
    · rw [hother sc' a hcc] at hr'; exact hw.dpriv (by rw [← hwo]; exact hw') sc' a r hr' hrw
  have hshape : ∀ sc' k r, aget (d'.scopes sc').addrs k = some r → (k.isChain = true ↔ r = .chain) := by
    intro sc' k r h
    rw [hadr] at h
    by_cases hcc : sc' = sc ∧ k = .chain acct br idx
    · rw [if_pos hcc] at h; cases h; obtain ⟨_, rfl⟩ := hcc; simp [AKey.isChain]
    · rw [if_neg hcc] at h; exact hw.shape sc' k r h
  have hwf : DiskWF d' := by
    refine ⟨hdp, hshape, ?_⟩
    intro sc' a r h
    rw [hla]
    subst hd'
    rw [updScope_scopes] at h
    by_cases hsc : sc' = sc
    · subst hsc
      simp only [if_true] at h
      rw [aget_aset] at h
      by_cases haa : a = acct
      · subst haa; exact hw.accts sc' a row hrow0
      · simp only [haa, if_false] at h; exact hw.accts sc' a r h
    · simp only [hsc, if_false] at h; exact hw.accts sc' a r h
  have hansNew : addrAns d' sc (.chain acct br idx) = .addr (.chain acct br idx) acct := by
    unfold addrAns; rw [hadr]; simp [hnew]
  have hansOld : ∀ sc' k x, ¬ (sc' = sc ∧ k = .chain acct br idx) → addrAns d sc' k = .addr k x →
      addrAns d' sc' k = .addr k x := by
    intro sc' k x hne h
    exact addrAns_congr (by rw [hadr, if_neg hne]) (hkeepok sc') h
  -- the memory
  have hmA : ∀ sc' k i, aget ((issue1 m sc acct internal info id).scopes sc').addrs k = some i →
      (sc' = sc ∧ k = .chain acct br idx ∧ i = id) ∨
      (¬ (sc' = sc ∧ k = .chain acct br idx) ∧ aget (m.scopes sc').addrs k = some i) := by
    intro sc' k i h
    simp only [issue1, Mem.updScope, hidx, hbr] at h
    by_cases hsc : sc' = sc
    · subst hsc
      simp only [if_true] at h
      rw [aget_aset] at h
      by_cases hkk : k = .chain acct br idx
      · simp only [hkk, if_true] at h; cases h; exact Or.inl ⟨rfl, hkk, rfl⟩
      · simp only [hkk, if_false] at h; exact Or.inr ⟨fun hh => hkk hh.2, h⟩
    · simp only [hsc, if_false] at h; exact Or.inr ⟨fun hh => hsc hh.1, h⟩
  have hmI : ∀ sc' a ai, aget ((issue1 m sc acct internal info id).scopes sc').acctInfo a = some ai →
      (sc' = sc ∧ a = acct ∧ ai = setNext info internal (idx + 1) id) ∨
      (¬ (sc' = sc ∧ a = acct) ∧ aget (m.scopes sc').acctInfo a = some ai) := by
    intro sc' a ai h
    simp only [issue1, Mem.updScope, hidx, hbr] at h
    by_cases hsc : sc' = sc
    · subst hsc
      simp only [if_true] at h
      rw [aget_aset] at h
      by_cases haa : a = acct
      · simp only [haa, if_true] at h; cases h; exact Or.inl ⟨rfl, haa, rfl⟩
      · simp only [haa, if_false] at h; exact Or.inr ⟨fun hh => haa hh.2, h⟩
    · simp only [hsc, if_false] at h; exact Or.inr ⟨fun hh => hsc hh.1, h⟩
  have hheap : (issue1 m sc acct internal info id).heap = m.heap := rfl
  have hheapN : (issue1 m sc acct internal info id).heapN = m.heapN := rfl
  refine ⟨⟨⟨?_, ?_, ?_, ?_⟩, ?_, ?_, ?_, hdp, hshape⟩, hwf, hnew⟩
  · intro sc' a ai h
    rcases hmI sc' a ai h with ⟨rfl, rfl, rfl⟩ | ⟨hne, h⟩
    · refine ⟨_, hnew, ?_⟩
      obtain ⟨i1, i2, i3, i4, i5, i6, i7⟩ := hok
      rcases brOf_cases internal with ⟨hb, hi⟩ | ⟨hb, hi⟩
      · rw [hbr] at hb; subst hb; subst hi
        simp only [nextOf] at hidx
        have e1 : setNext info true (idx + 1) id = { info with nextInt := idx + 1, lastInt := id } := rfl
        have e2 : bumpRow row 1 idx = { row with nextInt := idx + 1 } := rfl
        rw [e1, e2]
        exact ⟨i1, i2, rfl, by simpa [hheap] using i4, by simpa [hheap] using i5, by simpa [hheap] using hk,
          by simpa [hheap] using ha⟩
      · rw [hbr] at hb; subst hb; subst hi
        simp only [nextOf] at hidx
        have e1 : setNext info false (idx + 1) id = { info with nextExt := idx + 1, lastExt := id } := rfl
        have e2 : bumpRow row 0 idx = { row with nextExt := idx + 1 } := rfl
        rw [e1, e2]
        exact ⟨i1, rfl, i3, by simpa [hheap] using hk, by simpa [hheap] using ha, by simpa [hheap] using i6,
          by simpa [hheap] using i7⟩
    · obtain ⟨r, h1, h2⟩ := hg.coh.acct sc' a ai h
      exact ⟨r, by rw [hother sc' a hne]; exact h1, h2⟩
  · intro sc' k i h
    rcases hmA sc' k i h with ⟨rfl, rfl, rfl⟩ | ⟨hne, h⟩
    · exact ⟨hansNew, hk, ha⟩
    · obtain ⟨h1, h2, h3⟩ := hg.coh.addr sc' k i h
      exact ⟨hansOld sc' k _ hne h1, h2, h3⟩
  · exact privOK_of (by rw [hwo]; exact hg.wo) hdp
  · rw [hsy]; exact hg.coh.synced
  · intro sc' k i h
    rcases hmA sc' k i h with ⟨rfl, rfl, rfl⟩ | ⟨_, h⟩
    · exact hid
    · exact hg.hAddrs sc' k i h
  · intro sc' a ai h
    rcases hmI sc' a ai h with ⟨rfl, rfl, rfl⟩ | ⟨_, h⟩
    · have := hg.hLast sc' a info hc
      unfold setNext; split
      · exact ⟨this.1, hid⟩
      · exact ⟨hid, this.2⟩
    · exact hg.hLast sc' a ai h
  · rw [hwo]; exact hg.wo

/-! ### iterating the ghost step over a run of consecutive new addresses -/

/-- `es` are objects for the consecutive indices `start, start+1, …` of branch `br` of account `acct` -/
inductive Consec (H : Nat → Obj) (N : Nat) (acct br : Nat) : Nat → List Dou → Prop
  | nil (start : Nat) : Consec H N acct br start []
  | cons {start : Nat} {e : Dou} {t : List Dou} : e.acct = acct → e.br = br → e.idx = start → e.obj < N →
      (H e.obj).key = .chain acct br start → (H e.obj).acct = acct → Consec H N acct br (start + 1) t →
      Consec H N acct br start (e :: t)

def issueAll (sc acct : Nat) (internal : Bool) : List Dou → AcctInfo → Mem → Mem × AcctInfo
  | [], info, m => (m, info)
  | e :: es, info, m =>
    issueAll sc acct internal es (setNext info internal (nextOf info internal + 1) e.obj)
      (issue1 m sc acct internal info e.obj)

theorem nextOf_setNext (info : AcctInfo) (internal : Bool) (n id : Nat) :
    nextOf (setNext info internal n id) internal = n := by
  cases internal <;> rfl

theorem issue1_acct (m : Mem) (sc acct : Nat) (internal : Bool) (info : AcctInfo) (id : Nat) :
    aget ((issue1 m sc acct internal info id).scopes sc).acctInfo acct =
      some (setNext info internal (nextOf info internal + 1) id) := by
  simp [issue1, Mem.updScope, aget_aset_self]

theorem good_issueAll {d : Disk} (sc acct : Nat) (internal : Bool) (es : List Dou) :
    ∀ {m : Mem} {info : AcctInfo} {row : AcctRow}, Good d m → DiskWF d →
      aget (m.scopes sc).acctInfo acct = some info → acctAns d sc acct = .ok row →
      Consec m.heap m.heapN acct (brOf internal) (nextOf info internal) es →
      ∃ d', putAll sc es d = some d' ∧ Good d' (issueAll sc acct internal es info m).1 ∧ DiskWF d' := by
  induction es generalizing d with
  | nil => intro m info row hg hw _ _ _; exact ⟨d, rfl, hg, hw⟩
  | cons e es ih =>
    intro m info row hg hw hc hr hcs
    cases hcs with
    | cons h1 h2 h3 h4 h5 h6 h7 =>
      obtain ⟨d1, hp, g1, w1, hr1⟩ := good_issue1 hg hw sc acct internal info row hc hr e.obj h4 h5 h6
      have hcs' : Consec (issue1 m sc acct internal info e.obj).heap (issue1 m sc acct internal info e.obj).heapN acct
          (brOf internal) (nextOf (setNext info internal (nextOf info internal + 1) e.obj) internal) es := by
        rw [nextOf_setNext]; exact h7
      obtain ⟨d2, hp2, g2, w2⟩ := ih g1 w1 (issue1_acct ..) hr1 hcs'
      refine ⟨d2, ?_, g2, w2⟩
      simp only [putAll, h1, h2, h3, hp, hp2]

/-- what the ghost iteration leaves in the caches -/
theorem issueAll_spec (sc acct : Nat) (internal : Bool) (es : List Dou) :
    ∀ (m : Mem) (info : AcctInfo), Consec m.heap m.heapN acct (brOf internal) (nextOf info internal) es →
      let r := issueAll sc acct internal es info m
      r.1.heap = m.heap ∧ r.1.heapN = m.heapN ∧ r.1.syncedTo = m.syncedTo ∧ r.1.watchOnly = m.watchOnly ∧
      (∀ sc', sc' ≠ sc → r.1.scopes sc' = m.scopes sc') ∧
      (r.1.scopes sc).addrs = es.foldl (fun l e => aset l (.chain e.acct e.br e.idx) e.obj) (m.scopes sc).addrs ∧
      (∀ a, a ≠ acct → aget (r.1.scopes sc).acctInfo a = aget (m.scopes sc).acctInfo a) ∧
      (es ≠ [] → aget (r.1.scopes sc).acctInfo acct = some r.2) ∧
      (∀ last, es.getLast? = some last →
        r.2 = setNext info internal (nextOf info internal + es.length) last.obj) := by
  induction es with
  | nil =>
    intro m info _
    exact ⟨rfl, rfl, rfl, rfl, fun _ _ => rfl, rfl, fun _ _ => rfl, fun h => absurd rfl h, fun _ h => by simp at h⟩
  | cons e es ih =>
    intro m info hcs
    cases hcs with
    | cons h1 h2 h3 h4 h5 h6 h7 =>
      have hcs' : Consec (issue1 m sc acct internal info e.obj).heap (issue1 m sc acct internal info e.obj).heapN acct
          (brOf internal) (nextOf (setNext info internal (nextOf info internal + 1) e.obj) internal) es := by
        rw [nextOf_setNext]; exact h7
      have := ih (issue1 m sc acct internal info e.obj) (setNext info internal (nextOf info internal + 1) e.obj) hcs'
      dsimp only at this ⊢
      obtain ⟨k1, k2, k3, k4, k5, k6, k7, k8, k9⟩ := this
      simp only [issueAll]
      refine ⟨k1, k2, k3, k4, ?_, ?_, ?_, ?_, ?_⟩
      · intro sc' hne; rw [k5 sc' hne]; simp [issue1, Mem.updScope, hne]
      · rw [k6]; simp [issue1, Mem.updScope, List.foldl, h1, h2, h3]
      · intro a ha; rw [k7 a ha]; simp [issue1, Mem.updScope, aget_aset_ne _ _ _ _ ha]
      · intro _
        cases es with
        | nil => simp only [issueAll]; exact issue1_acct ..
        | cons e' es' => exact k8 (by simp)
      · intro last hl
        cases es with
        | nil =>
          simp only [List.getLast?_singleton, Option.some.injEq] at hl
          subst hl; simp [issueAll]
        | cons e' es' =>
          have hl' : (e' :: es').getLast? = some last := by simpa [List.getLast?_cons_cons] using hl
          rw [k9 last hl', nextOf_setNext]
          cases internal <;> simp [setNext, Nat.add_assoc, Nat.add_comm]

/-! ### the pieces of nextAddresses / extendAddresses -/

theorem mkAddrs_spec (acct br : Nat) (priv : Bool) : ∀ (n start : Nat) (m : Mem),
    let r := mkAddrs m acct br priv start n
    r.1.scopes = m.scopes ∧ r.1.heapN = m.heapN + n ∧ r.1.syncedTo = m.syncedTo ∧ Scal r.1 = Scal m ∧
    r.2.length = n ∧ (∀ id, id < m.heapN → r.1.heap id = m.heap id) ∧
    Consec r.1.heap r.1.heapN acct br start r.2 := by
  intro n
  induction n with
  | zero => intro start m; exact ⟨rfl, rfl, rfl, rfl, rfl, fun _ _ => rfl, Consec.nil _⟩
  | succ n ih =>
    intro start m
    simp only [mkAddrs]
    have := ih (start + 1) (m.alloc { key := .chain acct br start, kind := .managed, hasEnc := priv, ct := priv, acct := acct }).1
    dsimp only at this ⊢
    obtain ⟨k1, k2, k3, k4, k5, k6, k7⟩ := this
    have hobj := k6 m.heapN (by simp [Mem.alloc])
    refine ⟨by rw [k1]; rfl, by rw [k2]; simp [Mem.alloc]; omega, by rw [k3]; rfl, by rw [k4]; rfl, by simp [k5], ?_, ?_⟩
    · intro id hid
      rw [k6 id (by simp [Mem.alloc]; omega)]
      have : id ≠ m.heapN := Nat.ne_of_lt hid
      simp [Mem.alloc, this]
    · refine Consec.cons rfl rfl rfl (by rw [k2]; simp [Mem.alloc]; omega) ?_ ?_ k7
      · show ((mkAddrs _ acct br priv (start + 1) n).1.heap m.heapN).key = _
        rw [hobj]; simp [Mem.alloc]
      · show ((mkAddrs _ acct br priv (start + 1) n).1.heap m.heapN).acct = _
        rw [hobj]; simp [Mem.alloc]

theorem cacheNew_spec (sc : Nat) (w : Bool) (es : List Dou) : ∀ (m : Mem),
    let r := es.foldl (cacheNew sc w) m
    r.heap = m.heap ∧ r.heapN = m.heapN ∧ r.syncedTo = m.syncedTo ∧ r.watchOnly = m.watchOnly ∧
    (∀ sc', sc' ≠ sc → r.scopes sc' = m.scopes sc') ∧
    (r.scopes sc).acctInfo = (m.scopes sc).acctInfo ∧
    (r.scopes sc).addrs = es.foldl (fun l e => aset l (.chain e.acct e.br e.idx) e.obj) (m.scopes sc).addrs := by
  induction es with
  | nil => intro m; exact ⟨rfl, rfl, rfl, rfl, fun _ _ => rfl, rfl, rfl⟩
  | cons e es ih =>
    intro m
    simp only [List.foldl]
    obtain ⟨k1, k2, k3, k4, k5, k6, k7⟩ := ih (cacheNew sc w m e)
    refine ⟨k1, k2, k3, k4, ?_, ?_, ?_⟩
    · intro sc' hne; rw [k5 sc' hne]; simp [cacheNew, Mem.updScope, hne]
    · rw [k6]; simp [cacheNew, Mem.updScope]
    · rw [k7]; simp [cacheNew, Mem.updScope]

/-- lookups in a cache built by successive `aset`s only depend on the lookups in the base -/
theorem aget_foldl_aset_congr {β} (es : List Dou) (f : Dou → β) : ∀ (l l' : List (AKey × β)) (k : AKey),
    (aget l k = aget l' k) →
    aget (es.foldl (fun l e => aset l (.chain e.acct e.br e.idx) (f e)) l) k =
    aget (es.foldl (fun l e => aset l (.chain e.acct e.br e.idx) (f e)) l') k := by
  induction es with
  | nil => intro l l' k h; exact h
  | cons e es ih =>
    intro l l' k h
    simp only [List.foldl]
    apply ih
    rw [aget_aset, aget_aset, h]

theorem aget_foldl_aset_mem {β} (es : List Dou) (f : Dou → β) : ∀ (l l' : List (AKey × β)) (k : AKey),
    (∃ e ∈ es, k = .chain e.acct e.br e.idx) →
    aget (es.foldl (fun l e => aset l (.chain e.acct e.br e.idx) (f e)) l) k =
    aget (es.foldl (fun l e => aset l (.chain e.acct e.br e.idx) (f e)) l') k := by
  induction es with
  | nil => intro l l' k ⟨e, he, _⟩; cases he
  | cons e es ih =>
    intro l l' k ⟨e', he', hk⟩
    simp only [List.foldl]
    by_cases hkk : k = .chain e.acct e.br e.idx
    · apply aget_foldl_aset_congr; rw [aget_aset, aget_aset]; simp [hkk]
    · rcases List.mem_cons.mp he' with rfl | hmem
      · exact absurd hk hkk
      · exact ih _ _ k ⟨e', hmem, hk⟩

theorem good_mkAddrs {d : Disk} {m : Mem} (hg : Good d m) (acct br : Nat) (priv : Bool) (start n : Nat) :
    Good d (mkAddrs m acct br priv start n).1 := by
  obtain ⟨k1, k2, k3, k4, _, k6, _⟩ := mkAddrs_spec acct br priv n start m
  exact good_ext hg ⟨by rw [k2]; omega, fun id hid => by rw [k6 id hid]; exact ⟨rfl, rfl⟩, k3, congrArg (·.2.1) k4⟩
    (fun sc k id h => by rw [k1] at h; exact h) (fun sc a ai h => Or.inl ⟨ai, by rw [k1] at h; exact h, rfl⟩)

/-- the real memory after caching the new addresses and advancing the index once agrees, as far as the caches are
looked up, with the ghost memory (the real base `mR` may already hold other objects under the new keys) -/
theorem real_eq_ghost (sc acct : Nat) (internal : Bool) (w : Bool) (es : List Dou) (mR mG : Mem) (info : AcctInfo)
    (last : Dou) (hl : es.getLast? = some last)
    (hcs : Consec mG.heap mG.heapN acct (brOf internal) (nextOf info internal) es) (n : Nat)
    (hn : n = nextOf info internal + es.length)
    (b1 : mR.heap = mG.heap) (b2 : mR.heapN = mG.heapN) (b3 : mR.syncedTo = mG.syncedTo)
    (b4 : mR.watchOnly = mG.watchOnly)
    (b5 : ∀ sc', (mR.scopes sc').acctInfo = (mG.scopes sc').acctInfo)
    (b6 : ∀ sc', sc' ≠ sc → (mR.scopes sc').addrs = (mG.scopes sc').addrs)
    (b7 : ∀ k, (¬ ∃ e ∈ es, k = .chain e.acct e.br e.idx) → aget (mR.scopes sc).addrs k = aget (mG.scopes sc).addrs k) :
    let real := (es.foldl (cacheNew sc w) mR).updScope sc fun s =>
      { s with acctInfo := aset s.acctInfo acct (setNext info internal n last.obj) }
    let ghost := (issueAll sc acct internal es info mG).1
    (∀ sc' a, aget (real.scopes sc').acctInfo a = aget (ghost.scopes sc').acctInfo a) ∧
    (∀ sc' k, aget (real.scopes sc').addrs k = aget (ghost.scopes sc').addrs k) ∧
    real.heap = ghost.heap ∧ real.heapN = ghost.heapN ∧ real.syncedTo = ghost.syncedTo ∧
    real.watchOnly = ghost.watchOnly := by
  have hne : es ≠ [] := by intro h; rw [h] at hl; simp at hl
  obtain ⟨c1, c2, c3, c4, c5, c6, c7⟩ := cacheNew_spec sc w es mR
  obtain ⟨g1, g2, g3, g4, g5, g6, g7, g8, g9⟩ := issueAll_spec sc acct internal es mG info hcs
  dsimp only at c1 c2 c3 c4 c5 c6 c7 g1 g2 g3 g4 g5 g6 g7 g8 g9 ⊢
  have hfin := g9 last hl
  refine ⟨?_, ?_, by simp [Mem.updScope, c1, g1, b1], by simp [Mem.updScope, c2, g2, b2],
    by simp [Mem.updScope, c3, g3, b3], by simp [Mem.updScope, c4, g4, b4]⟩
  · intro sc' a
    by_cases hsc : sc' = sc
    · subst hsc
      simp only [Mem.updScope, if_true]
      rw [aget_aset]
      by_cases ha : a = acct
      · subst ha; simp only [if_true]; rw [g8 hne, hfin, hn]
      · simp only [ha, if_false]; rw [c6, g7 a ha, b5]
    · simp only [Mem.updScope, hsc, if_false]; rw [c5 sc' hsc, g5 sc' hsc, b5]
  · intro sc' k
    by_cases hsc : sc' = sc
    · subst hsc; simp only [Mem.updScope, if_true]; rw [c7, g6]
      by_cases hk : ∃ e ∈ es, k = .chain e.acct e.br e.idx
      · exact aget_foldl_aset_mem es (fun e => e.obj) _ _ k hk
      · exact aget_foldl_aset_congr es (fun e => e.obj) _ _ k (b7 k hk)
    · simp only [Mem.updScope, hsc, if_false]; rw [c5 sc' hsc, g5 sc' hsc, b6 sc' hsc]

theorem good_extend {d : Disk} {m : Mem} (cfg : Cfg) (hg : Good d m) (hw : DiskWF d) (sc acct lastIdx : Nat)
    (internal : Bool) :
    let r := extendAddresses cfg d m sc acct lastIdx internal
    (r.2.2 = none → Good r.1 r.2.1 ∧ DiskWF r.1) ∧ (r.2.2 ≠ none → Good d r.2.1) := by
  unfold extendAddresses
  cases hl : loadAcct d m sc acct with
  | error e => exact ⟨fun h => by simp at h, fun _ => hg⟩
  | ok m1 =>
    have hf := loadAcct_good hg hl
    obtain ⟨ai, row, hc, hr, hok⟩ := hf.cached
    have hai : acctInfoOf m1 sc acct = some ai := hc
    simp only [hai]
    generalize hwo : extWatch cfg m1 ai = w
    generalize hpv : (!m1.locked && !w) = pv
    split
    · exact ⟨fun _ => ⟨hf.good, hw⟩, fun h => by simp at h⟩
    · split
      · exact ⟨fun h => by simp at h, fun _ => hf.good⟩
      · split
        · exact ⟨fun h => by simp at h, fun _ => hf.good⟩
        · obtain ⟨k1, k2, k3, k4, k5, k6, k7⟩ :=
            mkAddrs_spec acct (brOf internal) pv (lastIdx + 1 - nextOf ai internal) (nextOf ai internal) m1
          have gr := good_mkAddrs hf.good acct (brOf internal) pv (nextOf ai internal) (lastIdx + 1 - nextOf ai internal)
          generalize hr' : mkAddrs m1 acct (brOf internal) pv (nextOf ai internal) (lastIdx + 1 - nextOf ai internal) = r at *
          have hc' : aget (r.1.scopes sc).acctInfo acct = some ai := by rw [k1]; exact hc
          obtain ⟨d2, hp, g2, w2⟩ := good_issueAll sc acct internal r.2 gr hw hc' hr k7
          simp only [hp]
          cases hlast : r.2.getLast? with
          | none =>
            have hnil : r.2 = [] := by
              cases hh : r.2 with
              | nil => rfl
              | cons a t => rw [hh] at hlast; simp [List.getLast?_cons] at hlast
            simp only
            rw [hnil] at hp g2 ⊢
            simp only [putAll, Option.some.injEq] at hp
            subst hp
            exact ⟨fun _ => ⟨g2, w2⟩, fun h => by simp at h⟩
          | some last =>
            simp only
            refine ⟨fun _ => ⟨?_, w2⟩, fun h => by simp at h⟩
            obtain ⟨e1, e2, e3, e4, e5, e6⟩ := real_eq_ghost sc acct internal w r.2 r.1 r.1 ai last hlast k7 (lastIdx + 1)
              (by rw [k5]; rename_i h1 _ _; omega) rfl rfl rfl rfl (fun _ => rfl) (fun _ _ => rfl) (fun _ _ => rfl)
            exact good_of_aget_eq g2 e1 e2 e3 e4 e5 e6

/-! ### nextAddresses: the write-and-read-back loop, then the OnCommit closure -/

theorem Consec.mono {H H' : Nat → Obj} {N N' acct br : Nat} (hN : N ≤ N')
    (hH : ∀ id, id < N → (H' id).key = (H id).key ∧ (H' id).acct = (H id).acct) :
    ∀ {start : Nat} {es : List Dou}, Consec H N acct br start es → Consec H' N' acct br start es := by
  intro start es h
  induction h with
  | nil s => exact Consec.nil s
  | cons h1 h2 h3 h4 h5 h6 _ ih =>
    exact Consec.cons h1 h2 h3 (Nat.lt_of_lt_of_le h4 hN) (by rw [(hH _ h4).1]; exact h5) (by rw [(hH _ h4).2]; exact h6) ih

theorem Consec.acct_eq {H : Nat → Obj} {N acct br : Nat} : ∀ {start : Nat} {es : List Dou},
    Consec H N acct br start es → ∀ e ∈ es, e.acct = acct ∧ e.br = br := by
  intro start es h
  induction h with
  | nil s => intro e he; cases he
  | cons h1 h2 _ _ _ _ _ ih =>
    intro e he
    rcases List.mem_cons.mp he with rfl | he
    · exact ⟨h1, h2⟩
    · exact ih e he

/-- insert object `id` under key `k` into the address cache of scope `sc` -/
def cacheObj (m : Mem) (sc : Nat) (k : AKey) (id : Nat) : Mem :=
  m.updScope sc fun s => { s with addrs := aset s.addrs k id }

/-- with the account already cached, the loop of nextAddresses cannot fail; it writes what `putAll` writes, caches
a (second) object for every new key and touches nothing else that the queries look at -/
theorem putAndLoad_spec (sc acct : Nat) (es : List Dou) :
    ∀ (d : Disk) (m : Mem) (info : AcctInfo) (row : AcctRow),
      aget (m.scopes sc).acctInfo acct = some info → aget (d.scopes sc).accts acct = some row →
      (∀ e ∈ es, e.acct = acct) →
      ∃ d2 m2, putAndLoad sc es d m = (d2, m2, none) ∧ putAll sc es d = some d2 ∧
        (∀ sc', (m2.scopes sc').acctInfo = (m.scopes sc').acctInfo) ∧
        (∀ id, id < m.heapN → m2.heap id = m.heap id) ∧ m.heapN ≤ m2.heapN ∧
        m2.syncedTo = m.syncedTo ∧ Scal m2 = Scal m ∧
        (∀ sc', sc' ≠ sc → (m2.scopes sc').addrs = (m.scopes sc').addrs) ∧
        (∀ k, (¬ ∃ e ∈ es, k = .chain e.acct e.br e.idx) →
          aget (m2.scopes sc).addrs k = aget (m.scopes sc).addrs k) := by
  induction es with
  | nil =>
    intro d m info row _ _ _
    exact ⟨d, m, rfl, rfl, fun _ => rfl, fun _ _ => rfl, Nat.le_refl _, rfl, rfl, fun _ _ => rfl, fun _ _ => rfl⟩
  | cons e es ih =>
    intro d m info row hc hrow hes
    have hea := hes e List.mem_cons_self
    have hp := putChained_some (br := e.br) (idx := e.idx) hrow
    generalize hd1 : (d.updScope sc fun s =>
      { s with addrs := aset s.addrs (.chain acct e.br e.idx) .chain, accts := aset s.accts acct (bumpRow row e.br e.idx) }) = d1 at hp
    have hrow1 : aget (d1.scopes sc).accts acct = some (bumpRow row e.br e.idx) := by
      subst hd1; rw [updScope_scopes]; simp [aget_aset_self]
    have hadr1 : aget (d1.scopes sc).addrs (.chain acct e.br e.idx) = some .chain := by
      subst hd1; rw [updScope_scopes]; simp [aget_aset_self]
    -- the read-back
    generalize hpv : (!m.locked && !m.watchOnly && info.keyPriv) = pv
    generalize hkt : keyToManaged m sc acct e.br e.idx pv = kt
    have hlc : loadAndCache d1 m sc (.chain acct e.br e.idx) = .ok (cacheObj kt.1 sc (.chain acct e.br e.idx) kt.2, kt.2) := by
      unfold loadAndCache
      simp only [hadr1]
      unfold chainRowToManaged
      rw [loadAcct_cached hc]
      have : acctInfoOf m sc acct = some info := hc
      simp only [this, hpv, hkt]
      rfl
    generalize hm1 : cacheObj kt.1 sc (.chain acct e.br e.idx) kt.2 = m1 at hlc
    have hkt1 : kt.1.heapN = m.heapN + 1 := by rw [← hkt]; exact ktm_heapN ..
    have hkt2 : ∀ sc', (kt.1.scopes sc').acctInfo = (m.scopes sc').acctInfo := by intro sc'; rw [← hkt]; exact ktm_acctInfo ..
    have hkt3 : ∀ sc', (kt.1.scopes sc').addrs = (m.scopes sc').addrs := by intro sc'; rw [← hkt]; exact ktm_addrs ..
    have hkt4 : ∀ id, id < m.heapN → kt.1.heap id = m.heap id := by
      intro id hid; rw [← hkt, ktm_heap]; simp [Nat.ne_of_lt hid]
    have hkt5 : kt.1.syncedTo = m.syncedTo := by rw [← hkt]; exact ktm_synced ..
    have hkt6 : Scal kt.1 = Scal m := by rw [← hkt]; exact scal_keyToManaged ..
    have hc1 : aget (m1.scopes sc).acctInfo acct = some info := by
      subst hm1; simp only [cacheObj, Mem.updScope, if_true]; rw [hkt2]; exact hc
    obtain ⟨d2, m2, q1, q2, q3, q4, q5, q6, q7, q8, q9⟩ :=
      ih d1 m1 info (bumpRow row e.br e.idx) hc1 hrow1 (fun e' he' => hes e' (List.mem_cons_of_mem _ he'))
    refine ⟨d2, m2, ?_, ?_, ?_, ?_, ?_, ?_, ?_, ?_, ?_⟩
    · simp only [putAndLoad, hea, hp, hlc]; exact q1
    · simp only [putAll, hea, hp]; exact q2
    · intro sc'; rw [q3]; subst hm1; simp only [cacheObj, Mem.updScope]; split <;> simp [hkt2]
    · intro id hid
      rw [q4 id (by subst hm1; simp only [cacheObj, Mem.updScope, hkt1]; omega)]
      subst hm1
      simp only [cacheObj, Mem.updScope]; exact hkt4 id hid
    · have : m.heapN ≤ m1.heapN := by subst hm1; simp only [cacheObj, Mem.updScope, hkt1]; omega
      omega
    · rw [q6]; subst hm1; simp [cacheObj, Mem.updScope, hkt5]
    · rw [q7]; subst hm1; simp only [cacheObj]; rw [scal_updScope, hkt6]
    · intro sc' hne; rw [q8 sc' hne]; subst hm1; simp [cacheObj, Mem.updScope, hne, hkt3]
    · intro k hk
      have hk' : ¬ ∃ e' ∈ es, k = .chain e'.acct e'.br e'.idx := fun ⟨e', he', h⟩ => hk ⟨e', List.mem_cons_of_mem _ he', h⟩
      rw [q9 k hk']
      subst hm1
      simp only [cacheObj, Mem.updScope, if_true]
      have hne : k ≠ .chain acct e.br e.idx := by
        intro h; exact hk ⟨e, List.mem_cons_self, by rw [hea]; exact h⟩
      rw [aget_aset_ne _ _ _ _ hne, hkt3]

/-- the f13 part of the OnCommit closure: wipes clear-text flags only -/
def pendWipe (cfg : Cfg) (m : Mem) (p : Pend) : Mem :=
  if cfg.f13 && m.locked then
    { m with heap := fun id =>
        if p.infos.any (fun e => e.obj == id) && (m.heap id).kind == .managed then { m.heap id with ct := false }
        else m.heap id }
  else m

theorem pendWipe_facts (cfg : Cfg) (m : Mem) (p : Pend) :
    (pendWipe cfg m p).scopes = m.scopes ∧ (pendWipe cfg m p).heapN = m.heapN ∧
    (pendWipe cfg m p).syncedTo = m.syncedTo ∧ (pendWipe cfg m p).watchOnly = m.watchOnly ∧
    (∀ id, ((pendWipe cfg m p).heap id).key = (m.heap id).key ∧ ((pendWipe cfg m p).heap id).acct = (m.heap id).acct) := by
  unfold pendWipe
  split
  · refine ⟨rfl, rfl, rfl, rfl, fun id => ?_⟩
    dsimp only; split <;> exact ⟨rfl, rfl⟩
  · exact ⟨rfl, rfl, rfl, rfl, fun _ => ⟨rfl, rfl⟩⟩

theorem runPend_eq (cfg : Cfg) (m : Mem) (p : Pend) :
    runPend cfg m p =
      match p.infos.getLast?, acctInfoOf (p.infos.foldl (cacheNew p.scope p.watchOnly) (pendWipe cfg m p)) p.scope p.acct with
      | some last, some ai =>
        (p.infos.foldl (cacheNew p.scope p.watchOnly) (pendWipe cfg m p)).updScope p.scope fun s =>
          { s with acctInfo := aset s.acctInfo p.acct (setNext ai p.internal p.nextIdx last.obj) }
      | _, _ => p.infos.foldl (cacheNew p.scope p.watchOnly) (pendWipe cfg m p) := rfl

theorem good_next {d : Disk} {m : Mem} (cfg : Cfg) (hg : Good d m) (hw : DiskWF d) (sc acct n : Nat)
    (internal : Bool) :
    let r := nextAddresses d m sc acct n internal
    (∀ e, r.res = .error e → r.pend = none ∧ Good d r.mem) ∧
    (∀ l, r.res = .ok l → ∃ p, r.pend = some p ∧ Good r.disk (runPend cfg r.mem p) ∧ DiskWF r.disk) := by
  unfold nextAddresses
  cases hl : loadAcct d m sc acct with
  | error e => exact ⟨fun _ _ => ⟨rfl, hg⟩, fun l h => by simp at h⟩
  | ok m1 =>
    have hf := loadAcct_good hg hl
    obtain ⟨ai, row, hc, hr, hok⟩ := hf.cached
    have hai : acctInfoOf m1 sc acct = some ai := hc
    obtain ⟨hrow0, _⟩ := acctAns_ok_row hr
    simp only [hai]
    generalize hwo : (m1.watchOnly || !ai.hasEnc) = w
    generalize hpv : (!m1.locked && !w) = pv
    split
    · exact ⟨fun _ _ => ⟨rfl, hf.good⟩, fun l h => by simp at h⟩
    · split
      · exact ⟨fun _ _ => ⟨rfl, hf.good⟩, fun l h => by simp at h⟩
      · obtain ⟨k1, k2, k3, k4, k5, k6, k7⟩ := mkAddrs_spec acct (brOf internal) pv n (nextOf ai internal) m1
        have gr := good_mkAddrs hf.good acct (brOf internal) pv (nextOf ai internal) n
        generalize hr' : mkAddrs m1 acct (brOf internal) pv (nextOf ai internal) n = r at *
        have hc' : aget (r.1.scopes sc).acctInfo acct = some ai := by rw [k1]; exact hc
        obtain ⟨d2, m2, q1, q2, q3, q4, q5, q6, q7, q8, q9⟩ :=
          putAndLoad_spec sc acct r.2 d r.1 ai row hc' hrow0 (fun e he => (k7.acct_eq e he).1)
        simp only [q1]
        refine ⟨fun e h => by simp at h, fun l _ => ⟨_, rfl, ?_⟩⟩
        generalize hp : (⟨sc, acct, internal, nextOf ai internal + n, r.2, w⟩ : Pend) = p
        have hp1 : p.infos = r.2 := by rw [← hp]
        have hp2 : p.scope = sc := by rw [← hp]
        have hp3 : p.acct = acct := by rw [← hp]
        have hp4 : p.internal = internal := by rw [← hp]
        have hp5 : p.nextIdx = nextOf ai internal + n := by rw [← hp]
        have hp6 : p.watchOnly = w := by rw [← hp]
        obtain ⟨w1, w2, w3, w4, w5⟩ := pendWipe_facts cfg m2 p
        generalize hM0 : pendWipe cfg m2 p = M0 at *
        -- ghost base: the final heap with the caches as they were before the loop
        have hExt : Ext r.1 { M0 with scopes := r.1.scopes } :=
          ⟨by show r.1.heapN ≤ M0.heapN; rw [w2]; exact q5,
           fun id hid => by
             show (M0.heap id).key = _ ∧ (M0.heap id).acct = _
             rw [(w5 id).1, (w5 id).2, q4 id hid]; exact ⟨rfl, rfl⟩,
           by show M0.syncedTo = _; rw [w3, q6],
           by show M0.watchOnly = _; rw [w4]; exact congrArg (·.2.1) q7⟩
        have gG : Good d { M0 with scopes := r.1.scopes } :=
          good_ext gr hExt (fun _ _ _ h => h) (fun _ _ ai' h => Or.inl ⟨ai', h, rfl⟩)
        have hcsG : Consec ({ M0 with scopes := r.1.scopes } : Mem).heap ({ M0 with scopes := r.1.scopes } : Mem).heapN acct
            (brOf internal) (nextOf ai internal) r.2 :=
          k7.mono hExt.heapN hExt.heap
        obtain ⟨d2', hp', g2, wf2⟩ := good_issueAll sc acct internal r.2 gG hw hc' hr hcsG
        rw [q2] at hp'; cases hp'
        refine ⟨?_, wf2⟩
        rw [runPend_eq, hM0, hp1, hp2, hp3, hp4, hp5, hp6]
        obtain ⟨c1, c2, c3, c4, c5, c6, c7⟩ := cacheNew_spec sc w r.2 M0
        have haiF : acctInfoOf (r.2.foldl (cacheNew sc w) M0) sc acct = some ai := by
          unfold acctInfoOf; rw [c6, w1, q3, hc']
        cases hlast : r.2.getLast? with
        | none =>
          have hnil : r.2 = [] := by
            cases hh : r.2 with
            | nil => rfl
            | cons a t => rw [hh] at hlast; simp [List.getLast?_cons] at hlast
          simp only
          rw [hnil] at g2 q9 ⊢
          simp only [List.foldl, issueAll] at g2 ⊢
          exact good_of_aget_eq g2 (fun sc' a => by rw [w1, q3]) (fun sc' k => by
              by_cases hsc : sc' = sc
              · subst hsc; rw [w1]; exact q9 k (by simp)
              · rw [w1, q8 sc' hsc]) rfl rfl rfl rfl
        | some last =>
          simp only [haiF]
          obtain ⟨e1, e2, e3, e4, e5, e6⟩ := real_eq_ghost sc acct internal w r.2 M0 { M0 with scopes := r.1.scopes } ai
            last hlast hcsG (nextOf ai internal + n) (by rw [k5]) rfl rfl rfl rfl
            (fun sc' => by show (M0.scopes sc').acctInfo = _; rw [w1, q3])
            (fun sc' hne => by show (M0.scopes sc').addrs = _; rw [w1, q8 sc' hne])
            (fun k hk => by show aget (M0.scopes sc).addrs k = _; rw [w1]; exact q9 k hk)
          exact good_of_aget_eq g2 e1 e2 e3 e4 e5 e6

end AddrLock
