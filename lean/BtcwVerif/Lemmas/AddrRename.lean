import BtcwVerif.Lemmas.AddrInvOps
/-!
`RenameAccount` and `DeriveFromKeyPathCache` (round-2 additions to the `AddrDerive` model): what they change.

`opRename` rewrites one account row and the cached account info with a new name and nothing else: key material,
next indices and — for an imported account — the overriding address schema stay (`setName_*`, `rename_views`), so the
consistency invariant is preserved (`opRename_inv`).  `opDeriveCache` never changes the state.
-/
set_option linter.unusedSectionVars false
set_option linter.unusedVariables false
set_option linter.unusedSimpArgs false
namespace AddrDerive
open AddrSym

variable {K P : Type} [DecidableEq K] [DecidableEq P]

/-- the overriding address schema an account row carries (imported accounts only) -/
def rowSchema : AcctRow K P → Option Schema
  | .dflt .. => none
  | .wo _ _ _ _ _ schema _ => schema

@[simp] theorem rowKey_setName (r : AcctRow K P) (n : Nat) : rowKey (setName r n) = rowKey r := by
  cases r <;> rfl
@[simp] theorem rowPub_setName (r : AcctRow K P) (n : Nat) : rowPub (setName r n) = rowPub r := by
  cases r <;> rfl
@[simp] theorem rowPriv_setName (r : AcctRow K P) (n : Nat) : rowPriv (setName r n) = rowPriv r := by
  cases r <;> rfl
@[simp] theorem rowNext_setName (r : AcctRow K P) (n : Nat) (int : Bool) : rowNext (setName r n) int = rowNext r int := by
  cases r <;> rfl
/-- **a rename keeps the account's overriding address schema** -/
@[simp] theorem rowSchema_setName (r : AcctRow K P) (n : Nat) : rowSchema (setName r n) = rowSchema r := by
  cases r <;> rfl
@[simp] theorem rowName_setName (r : AcctRow K P) (n : Nat) : rowName (setName r n) = n := by
  cases r <;> rfl

theorem opDeriveCache_state (hd : HD K P) (s : State K P) (sc : Scope) (a b i : Nat) : (opDeriveCache hd s sc a b i).1 = s := by
  unfold opDeriveCache; repeat' split
  all_goals rfl

/-- the cached info after a rename: the same entry with the new name, or nothing new -/
def renamedInfo (sc : Scope) (acct name : Nat) (sc' : Scope) (a : Nat) (ai : AcctInfo K P) : AcctInfo K P :=
  if sc = sc' ∧ acct = a then { ai with name := name } else ai

theorem cacheAt_renameCached (s : State K P) (sc : Scope) (acct name : Nat) (sc' : Scope) (a : Nat) :
    cacheAt (renameCached s sc acct name) sc' a = (cacheAt s sc' a).map (renamedInfo sc acct name sc' a) := by
  unfold renameCached
  cases hsm : getSM s sc with
  | none =>
    simp only
    cases hc : cacheAt s sc' a with
    | none => rfl
    | some ai =>
      have : sc ≠ sc' := by
        intro e; subst e; simp [cacheAt, hsm] at hc
      simp [renamedInfo, this]
  | some sm =>
    simp only
    cases hai : alookup sm.acctInfo acct with
    | none =>
      simp only
      cases hc : cacheAt s sc' a with
      | none => rfl
      | some ai =>
        have : ¬ (sc = sc' ∧ acct = a) := by
          rintro ⟨e1, e2⟩; subst e1; subst e2
          rw [cacheAt_of_getSM hsm, hai] at hc; cases hc
        simp [renamedInfo, this]
    | some ai0 =>
      simp only
      rw [cacheAt_putSM]
      by_cases hsc : sc = sc'
      · subst hsc
        simp only [if_true, alookup_aset, cacheAt_of_getSM hsm]
        by_cases ha : acct = a
        · subst ha; simp [hai, renamedInfo]
        · simp only [ha, if_false]
          cases alookup sm.acctInfo a <;> simp [renamedInfo, ha]
      · simp only [hsc, if_false]
        cases cacheAt s sc' a <;> simp [renamedInfo, hsc]

theorem renameCached_frame (s : State K P) (sc : Scope) (acct name : Nat) :
    (∀ sc', getSD (renameCached s sc acct name) sc' = getSD s sc') ∧
    (∀ sc', douAt (renameCached s sc acct name) sc' = douAt s sc') ∧
    (renameCached s sc acct name).mem.heap = s.mem.heap ∧
    (renameCached s sc acct name).mem.locked = s.mem.locked ∧
    (renameCached s sc acct name).mem.watchOnly = s.mem.watchOnly ∧
    (renameCached s sc acct name).disk = s.disk ∧
    (renameCached s sc acct name).root = s.root ∧
    (renameCached s sc acct name).imports = s.imports := by
  unfold renameCached
  cases hsm : getSM s sc with
  | none => simp
  | some sm =>
    simp only
    cases hai : alookup sm.acctInfo acct with
    | none => simp
    | some ai0 =>
      refine ⟨fun _ => rfl, fun sc' => ?_, rfl, rfl, rfl, rfl, rfl, rfl⟩
      rw [douAt_putSM]
      by_cases hsc : sc = sc'
      · subst hsc; simp [douAt_of_getSM hsm]
      · simp [hsc]

/-- the state a successful rename leaves -/
def renameState (s : State K P) (sc : Scope) (sd : ScopeDisk K P) (acct : Nat) (row : AcctRow K P) (name : Nat) : State K P :=
  renameCached (putSD s sc { sd with accts := aset sd.accts acct (setName row name) }) sc acct name

theorem acctRow_renameState {s : State K P} {sc : Scope} {sd : ScopeDisk K P} (hsd : getSD s sc = some sd) {acct : Nat}
    {row : AcctRow K P} (hrow : alookup sd.accts acct = some row) (name : Nat) (sc' : Scope) (a : Nat) :
    acctRow (renameState s sc sd acct row name) sc' a =
      if sc = sc' ∧ acct = a then some (setName row name) else acctRow s sc' a := by
  unfold renameState acctRow
  rw [(renameCached_frame _ sc acct name).1 sc', getSD_putSD]
  by_cases hsc : sc = sc'
  · subst hsc
    simp only [if_true, Option.bind_some, alookup_aset, true_and, hsd]
  · simp [hsc]

theorem renameState_frame {s : State K P} {sc : Scope} {sd : ScopeDisk K P} (hsd : getSD s sc = some sd) (acct : Nat)
    (row : AcctRow K P) (name : Nat) :
    let s' := renameState s sc sd acct row name
    (∀ sc' id, addrRowAt s' sc' id = addrRowAt s sc' id) ∧ (∀ sc', coinAt s' sc' = coinAt s sc') ∧
    (∀ sc', lastAt s' sc' = lastAt s sc') ∧ (∀ sc', douAt s' sc' = douAt s sc') ∧
    (∀ sc' a, cacheAt s' sc' a = (cacheAt s sc' a).map (renamedInfo sc acct name sc' a)) ∧
    s'.mem.heap = s.mem.heap ∧ s'.mem.locked = s.mem.locked ∧ s'.mem.watchOnly = s.mem.watchOnly ∧
    s'.disk.watchOnly = s.disk.watchOnly ∧ s'.disk.rootPriv = s.disk.rootPriv ∧ s'.root = s.root ∧ s'.imports = s.imports := by
  intro s'
  obtain ⟨f1, f2, f3, f4, f5, f6, f7, f8⟩ := renameCached_frame (putSD s sc { sd with accts := aset sd.accts acct (setName row name) }) sc acct name
  refine ⟨?_, ?_, ?_, ?_, ?_, ?_, ?_, ?_, ?_, ?_, ?_, ?_⟩
  · intro sc' id
    show addrRowAt (renameCached _ sc acct name) sc' id = _
    unfold addrRowAt
    rw [f1, getSD_putSD]
    by_cases hsc : sc = sc'
    · subst hsc; simp [hsd]
    · simp [hsc]
  · intro sc'
    show coinAt (renameCached _ sc acct name) sc' = _
    unfold coinAt
    rw [f1, getSD_putSD]
    by_cases hsc : sc = sc'
    · subst hsc; simp [hsd]
    · simp [hsc]
  · intro sc'
    show lastAt (renameCached _ sc acct name) sc' = _
    unfold lastAt
    rw [f1, getSD_putSD]
    by_cases hsc : sc = sc'
    · subst hsc; simp [hsd]
    · simp [hsc]
  · intro sc'; show douAt (renameCached _ sc acct name) sc' = _; rw [f2]; rfl
  · intro sc' a; show cacheAt (renameCached _ sc acct name) sc' a = _; rw [cacheAt_renameCached]; rfl
  · show (renameCached _ sc acct name).mem.heap = _; rw [f3]; rfl
  · show (renameCached _ sc acct name).mem.locked = _; rw [f4]; rfl
  · show (renameCached _ sc acct name).mem.watchOnly = _; rw [f5]; rfl
  · show (renameCached _ sc acct name).disk.watchOnly = _; rw [f6]; rfl
  · show (renameCached _ sc acct name).disk.rootPriv = _; rw [f6]; rfl
  · show (renameCached _ sc acct name).root = _; rw [f7]; rfl
  · show (renameCached _ sc acct name).imports = _; rw [f8]; rfl

theorem renameState_inv {hd : HD K P} {s : State K P} (h : Inv hd s) {sc : Scope} {sd : ScopeDisk K P}
    (hsd : getSD s sc = some sd) {acct : Nat} {row : AcctRow K P} (hrow : alookup sd.accts acct = some row) (name : Nat) :
    Inv hd (renameState s sc sd acct row name) := by
  obtain ⟨g1, g2, g3, g4, g5, g6, g7, g8, g9, g10, g11, g12⟩ := renameState_frame hsd acct row name
  have hr := acctRow_renameState hsd hrow name
  have hrow0 : acctRow s sc acct = some row := by rw [acctRow_of_getSD hsd]; exact hrow
  have hkey : ∀ sc' a, (acctRow (renameState s sc sd acct row name) sc' a).map rowKey = (acctRow s sc' a).map rowKey := by
    intro sc' a
    rw [hr]
    by_cases hc : sc = sc' ∧ acct = a
    · obtain ⟨e1, e2⟩ := hc; subst e1; subst e2
      simp [hrow0]
    · simp [hc]
  refine h.extend g7 g8 g9 g10 g11 g12 g2 g3 hkey
    (by intro sc' id a b i hx; rw [g1] at hx; exact Or.inl hx)
    ?_ ?_ [] (by simp [g6]) (by intro o ho; cases ho)
    (by intro sc' e he; rw [g4] at he; exact Or.inl he) (by intro sc' e he; rw [g4]; exact he) ?_
  · intro sc' a ai hc
    rw [g5] at hc
    cases h0 : cacheAt s sc' a with
    | none => rw [h0] at hc; cases hc
    | some ai0 =>
      rw [h0] at hc
      simp only [Option.map_some, Option.some.injEq] at hc
      refine Or.inl ⟨ai0, rfl, ?_, ?_, ?_⟩ <;>
        (rw [← hc]; unfold renamedInfo; split <;> rfl)
  · intro sc' a hc
    rw [g5]
    cases h0 : cacheAt s sc' a with
    | none => rw [h0] at hc; cases hc
    | some _ => rfl
  · intro idx o hge ho
    rw [g6, List.getElem?_eq_none hge] at ho
    cases ho

/-- **`RenameAccount` preserves the consistency invariant** -/
theorem opRename_inv {hd : HD K P} {s : State K P} (h : Inv hd s) (sc : Scope) (acct name : Nat) :
    Inv hd (opRename s sc acct name).1 := by
  unfold opRename
  split
  · exact h
  · split
    · exact h
    · rename_i sd hsd
      split
      · exact h
      · split
        · exact h
        · split
          · exact h
          · rename_i row hrow
            exact renameState_inv h hsd hrow name

/-- what a successful `RenameAccount` does to the account rows: the renamed row keeps key, private key, next indices
    and overriding address schema; every other row is untouched -/
theorem opRename_rows {s : State K P} (sc : Scope) (acct name : Nat) (hok : (opRename s sc acct name).2.1 = .ok) :
    ∃ row, acctRow s sc acct = some row ∧
      ∀ sc' a, acctRow (opRename s sc acct name).1 sc' a =
        if sc = sc' ∧ acct = a then some (setName row name) else acctRow s sc' a := by
  unfold opRename at hok ⊢
  split at hok
  · cases hok
  · rename_i hacct
    rw [if_neg hacct]
    split at hok
    · cases hok
    · rename_i sd hsd
      simp only [hsd]
      split at hok
      · cases hok
      · rename_i hnt
        rw [if_neg hnt]
        split at hok
        · cases hok
        · rename_i hn0
          rw [if_neg hn0]
          split at hok
          · cases hok
          · rename_i row hrow
            simp only [hrow]
            exact ⟨row, by rw [acctRow_of_getSD hsd]; exact hrow, acctRow_renameState hsd hrow name⟩

end AddrDerive
