import BtcwVerif.Lemmas.RefObs
/-!
# Refinement, event *disconnected*, store side: what the loops of `rollback` write (lookup level)
Only the buckets the refinement relation reads are tracked (the unspent index and the counter follow from `WF2`).
-/
namespace TxStore
open KMap Ledger

def unspendVal (cv : CreditVal) : CreditVal := { cv with spent := false, spender := none }

theorem unspendVal_idem (cv : CreditVal) : unspendVal (unspendVal cv) = unspendVal cv := rfl

/-! ### the input loop of a non-coinbase transaction -/

structure InSpec (rec : Tx) (blk : Block) (l : List (Nat × OutPoint)) (r r' : RB) : Prop where
  blocks : r'.s.blocks = r.s.blocks
  txrecs : r'.s.txrecs = r.s.txrecs
  unmined : r'.s.unmined = r.s.unmined
  uc : r'.s.unminedCredits = r.s.unminedCredits
  locked : r'.s.locked = r.s.locked
  cb : r'.cb = r.cb
  ui : ∀ op x, x ∈ spendHashes r'.s op ↔ x ∈ spendHashes r.s op ∨ (x = rec.hash ∧ ∃ p ∈ l, p.2 = op)
  ne : InputsNE r.s → InputsNE r'.s
  debits : ∀ dk, r'.s.debits.find? dk =
    if ∃ p ∈ l, dk = ⟨rec.hash, blk, p.1⟩ then none else r.s.debits.find? dk
  credits : ∀ k, r'.s.credits.find? k =
    if ∃ p ∈ l, ∃ d, r.s.debits.find? ⟨rec.hash, blk, p.1⟩ = some d ∧ d.credKey = k
    then (r.s.credits.find? k).map unspendVal else r.s.credits.find? k
  nodupDeb : NodupKeys r.s.debits → NodupKeys r'.s.debits

theorem rbInput_fields (rec : Tx) (blk : Block) (r : RB) (j : Nat) (inp : OutPoint) :
    let r' := rbInput rec blk r (j, inp)
    r'.s.blocks = r.s.blocks ∧ r'.s.txrecs = r.s.txrecs ∧ r'.s.unmined = r.s.unmined ∧
    r'.s.unminedCredits = r.s.unminedCredits ∧ r'.s.locked = r.s.locked ∧ r'.cb = r.cb ∧
    r'.s.unminedInputs = (putRawUnminedInput r.s inp rec.hash).unminedInputs ∧
    (∀ dk, r'.s.debits.find? dk = if dk = ⟨rec.hash, blk, j⟩ then none else r.s.debits.find? dk) ∧
    (∀ k, r'.s.credits.find? k =
      if ∃ d, r.s.debits.find? ⟨rec.hash, blk, j⟩ = some d ∧ d.credKey = k
      then (r.s.credits.find? k).map unspendVal else r.s.credits.find? k) ∧
    (NodupKeys r.s.debits → NodupKeys r'.s.debits) := by
  simp only
  rw [rbInput_eq]
  unfold rbInputCore
  have hd0 : (putRawUnminedInput r.s inp rec.hash).debits = r.s.debits := rfl
  have hc0 : (putRawUnminedInput r.s inp rec.hash).credits = r.s.credits := rfl
  simp only [hd0, hc0]
  cases hd : r.s.debits.find? ⟨rec.hash, blk, j⟩ with
  | none =>
    refine ⟨rfl, rfl, rfl, rfl, rfl, rfl, rfl, ?_, ?_, fun h => h⟩
    · intro dk
      show r.s.debits.find? dk = _
      by_cases e : dk = ⟨rec.hash, blk, j⟩
      · subst e; simp [hd]
      · simp [e]
    · intro k
      show r.s.credits.find? k = _
      simp
  | some d =>
    simp only
    cases hc : r.s.credits.find? d.credKey with
    | none =>
      refine ⟨rfl, rfl, rfl, rfl, rfl, rfl, rfl, ?_, ?_, fun h => nodupKeys_erase _ _ h⟩
      · intro dk
        show (r.s.debits.erase ⟨rec.hash, blk, j⟩).find? dk = _
        rw [find?_erase]
        by_cases e : dk = ⟨rec.hash, blk, j⟩
        · subst e; simp
        · have : ¬ (⟨rec.hash, blk, j⟩ : CredKey) = dk := fun x => e x.symm
          simp [e, this]
      · intro k
        show r.s.credits.find? k = _
        by_cases e : d.credKey = k
        · subst e; simp [hc]
        · simp [e]
    | some cv =>
      refine ⟨rfl, rfl, rfl, rfl, rfl, rfl, rfl, ?_, ?_, fun h => nodupKeys_erase _ _ h⟩
      · intro dk
        show (r.s.debits.erase ⟨rec.hash, blk, j⟩).find? dk = _
        rw [find?_erase]
        by_cases e : dk = ⟨rec.hash, blk, j⟩
        · subst e; simp
        · have : ¬ (⟨rec.hash, blk, j⟩ : CredKey) = dk := fun x => e x.symm
          simp [e, this]
      · intro k
        show (r.s.credits.insert d.credKey _).find? k = _
        rw [find?_insert]
        by_cases e : d.credKey = k
        · subst e; simp [hc, unspendVal]
        · simp [e]

theorem inSpec_fold (rec : Tx) (blk : Block) : ∀ (l : List (Nat × OutPoint)) (r : RB), (l.map (·.1)).Nodup →
    InSpec rec blk l r (l.foldl (rbInput rec blk) r) := by
  intro l
  induction l with
  | nil =>
    intro r _
    refine ⟨rfl, rfl, rfl, rfl, rfl, rfl, ?_, fun h => h, ?_, ?_, fun h => h⟩
    · intro op x; simp
    · intro dk; simp
    · intro k; simp
  | cons a rest ih =>
    intro r hn
    obtain ⟨j, inp⟩ := a
    rw [List.map_cons, List.nodup_cons] at hn
    rw [List.foldl_cons]
    obtain ⟨f1, f2, f3, f4, f5, f6, f7, f8, f9, f10⟩ := rbInput_fields rec blk r j inp
    generalize rbInput rec blk r (j, inp) = r1 at f1 f2 f3 f4 f5 f6 f7 f8 f9 f10
    have ih' := ih r1 hn.2
    have hnj : ∀ p ∈ rest, p.1 ≠ j := fun p hp e => hn.1 (List.mem_map.mpr ⟨p, hp, e⟩)
    refine ⟨ih'.blocks.trans f1, ih'.txrecs.trans f2, ih'.unmined.trans f3, ih'.uc.trans f4, ih'.locked.trans f5,
      ih'.cb.trans f6, ?_, ?_, ?_, ?_, fun h => ih'.nodupDeb (f10 h)⟩
    · intro op x
      rw [ih'.ui]
      have : spendHashes r1.s op = spendHashes (putRawUnminedInput r.s inp rec.hash) op := by
        unfold spendHashes; rw [f7]
      rw [this, spendHashes_put]
      by_cases e : inp = op
      · subst e
        simp only [if_true, List.mem_append, List.mem_cons, List.not_mem_nil, or_false, exists_eq_or_imp, true_or,
          and_true]
        constructor
        · rintro ((h | h) | h)
          · exact Or.inl h
          · exact Or.inr h
          · exact Or.inr h.1
        · rintro (h | h)
          · exact Or.inl (Or.inl h)
          · exact Or.inl (Or.inr h)
      · simp only [e, if_false, List.mem_cons, exists_eq_or_imp, false_or]
    · intro h
      apply ih'.ne
      intro op
      rw [f7]
      exact inputsNE_put r.s inp rec.hash h op
    · intro dk
      rw [ih'.debits, f8]
      by_cases e : dk = ⟨rec.hash, blk, j⟩
      · subst e
        simp
      · by_cases e2 : ∃ p ∈ rest, dk = ⟨rec.hash, blk, p.1⟩
        · have : ∃ p ∈ (j, inp) :: rest, dk = ⟨rec.hash, blk, p.1⟩ := by
            obtain ⟨p, hp, h⟩ := e2; exact ⟨p, List.mem_cons_of_mem _ hp, h⟩
          rw [if_pos e2, if_pos this]
        · have : ¬ ∃ p ∈ (j, inp) :: rest, dk = ⟨rec.hash, blk, p.1⟩ := by
            rintro ⟨p, hp, h⟩
            rcases List.mem_cons.mp hp with rfl | hp'
            · exact e h
            · exact e2 ⟨p, hp', h⟩
          rw [if_neg e2, if_neg e, if_neg this]
    · intro k
      rw [ih'.credits]
      -- debits of the later inputs are the same in r1 and r
      have hdeb : ∀ p ∈ rest, r1.s.debits.find? ⟨rec.hash, blk, p.1⟩ = r.s.debits.find? ⟨rec.hash, blk, p.1⟩ := by
        intro p hp
        rw [f8, if_neg (by intro e; injection e with _ _ e3; exact hnj p hp e3)]
      by_cases hhead : ∃ d, r.s.debits.find? ⟨rec.hash, blk, j⟩ = some d ∧ d.credKey = k
      · have hall : ∃ p ∈ (j, inp) :: rest, ∃ d, r.s.debits.find? ⟨rec.hash, blk, p.1⟩ = some d ∧ d.credKey = k :=
          ⟨(j, inp), List.mem_cons_self, hhead⟩
        rw [if_pos hall, f9, if_pos hhead]
        split
        · cases r.s.credits.find? k <;> rfl
        · rfl
      · rw [f9, if_neg hhead]
        by_cases hrest : ∃ p ∈ rest, ∃ d, r1.s.debits.find? ⟨rec.hash, blk, p.1⟩ = some d ∧ d.credKey = k
        · have hall : ∃ p ∈ (j, inp) :: rest, ∃ d, r.s.debits.find? ⟨rec.hash, blk, p.1⟩ = some d ∧ d.credKey = k := by
            obtain ⟨p, hp, d, h1, h2⟩ := hrest
            exact ⟨p, List.mem_cons_of_mem _ hp, d, by rw [← hdeb p hp]; exact h1, h2⟩
          rw [if_pos hrest, if_pos hall]
        · have hall : ¬ ∃ p ∈ (j, inp) :: rest, ∃ d, r.s.debits.find? ⟨rec.hash, blk, p.1⟩ = some d ∧ d.credKey = k := by
            rintro ⟨p, hp, d, h1, h2⟩
            rcases List.mem_cons.mp hp with rfl | hp'
            · exact hhead ⟨d, h1, h2⟩
            · exact hrest ⟨p, hp', d, by rw [hdeb p hp']; exact h1, h2⟩
          rw [if_neg hrest, if_neg hall]

/-! ### the output loops (credits leave the credits bucket; for a non-coinbase they become unconfirmed credits) -/

structure OutSpec (rec : Tx) (blk : Block) (tu : Bool) (l : List (Nat × Int)) (s s' : Store) : Prop where
  blocks : s'.blocks = s.blocks
  txrecs : s'.txrecs = s.txrecs
  unmined : s'.unmined = s.unmined
  locked : s'.locked = s.locked
  ui : s'.unminedInputs = s.unminedInputs
  debits : s'.debits = s.debits
  credits : ∀ k, s'.credits.find? k = if ∃ p ∈ l, k = ⟨rec.hash, blk, p.1⟩ then none else s.credits.find? k
  uc : ∀ op, s'.unminedCredits.find? op =
    if tu = true ∧ ∃ p ∈ l, op = ⟨rec.hash, p.1⟩ ∧ (s.credits.find? ⟨rec.hash, blk, p.1⟩).isSome = true
    then (s.credits.find? ⟨rec.hash, blk, op.index⟩).map (fun v => (⟨v.amount, v.change⟩ : UCredit))
    else s.unminedCredits.find? op
  nodupUC : NodupKeys s.unminedCredits → NodupKeys s'.unminedCredits

theorem rbErase_fields (rec : Tx) (blk : Block) (r : RB) (i : Nat) (value : Int) (tu : Bool) :
    OutSpec rec blk tu [(i, value)] r.s (rbEraseCore rec blk r i value tu).s := by
  unfold rbEraseCore
  cases hc : r.s.credits.find? ⟨rec.hash, blk, i⟩ with
  | none =>
    refine ⟨rfl, rfl, rfl, rfl, rfl, rfl, ?_, ?_, fun h => h⟩
    · intro k
      by_cases e : k = ⟨rec.hash, blk, i⟩
      · subst e; simp [hc]
      · simp [e]
    · intro op
      simp [hc]
  | some v =>
    simp only
    have hcred : ∀ k, (r.s.credits.erase ⟨rec.hash, blk, i⟩).find? k =
        if ∃ p ∈ [(i, value)], k = ⟨rec.hash, blk, p.1⟩ then none else r.s.credits.find? k := by
      intro k
      rw [find?_erase]
      by_cases e : k = ⟨rec.hash, blk, i⟩
      · subst e; simp
      · have : ¬ (⟨rec.hash, blk, i⟩ : CredKey) = k := fun x => e x.symm
        simp [e, this]
    have huc : ∀ op, (if tu = true then r.s.unminedCredits.insert ⟨rec.hash, i⟩ ⟨v.amount, v.change⟩
        else r.s.unminedCredits).find? op =
        if tu = true ∧ ∃ p ∈ [(i, value)], op = ⟨rec.hash, p.1⟩ ∧ (r.s.credits.find? ⟨rec.hash, blk, p.1⟩).isSome = true
        then (r.s.credits.find? ⟨rec.hash, blk, op.index⟩).map (fun v => (⟨v.amount, v.change⟩ : UCredit))
        else r.s.unminedCredits.find? op := by
      intro op
      cases tu with
      | false => simp
      | true =>
        simp only [if_true, true_and, find?_insert]
        by_cases e : (⟨rec.hash, i⟩ : OutPoint) = op
        · subst e; simp [hc]
        · have : ¬ op = (⟨rec.hash, i⟩ : OutPoint) := fun x => e x.symm
          simp [e, this]
    have hnd : NodupKeys r.s.unminedCredits → NodupKeys (if tu = true then
        r.s.unminedCredits.insert ⟨rec.hash, i⟩ ⟨v.amount, v.change⟩ else r.s.unminedCredits) := by
      intro h
      cases tu with
      | false => exact h
      | true => exact nodupKeys_insert _ _ _ h
    split
    · exact ⟨rfl, rfl, rfl, rfl, rfl, rfl, hcred, huc, hnd⟩
    · exact ⟨rfl, rfl, rfl, rfl, rfl, rfl, hcred, huc, hnd⟩

theorem outSpec_fold (rec : Tx) (blk : Block) (tu : Bool) (f : RB → Nat × Int → RB)
    (hf : ∀ r p, (f r p).s = (rbEraseCore rec blk r p.1 p.2 tu).s) :
    ∀ (l : List (Nat × Int)) (r : RB), (l.map (·.1)).Nodup → OutSpec rec blk tu l r.s (l.foldl f r).s := by
  intro l
  induction l with
  | nil =>
    intro r _
    refine ⟨rfl, rfl, rfl, rfl, rfl, rfl, ?_, ?_, fun h => h⟩
    · intro k; simp
    · intro op; simp
  | cons a rest ih =>
    intro r hn
    obtain ⟨i, value⟩ := a
    rw [List.map_cons, List.nodup_cons] at hn
    rw [List.foldl_cons]
    have h1 := rbErase_fields rec blk r i value tu
    rw [← hf r (i, value)] at h1
    generalize f r (i, value) = r1 at h1
    have ih' := ih r1 hn.2
    have hni : ∀ p ∈ rest, p.1 ≠ i := fun p hp e => hn.1 (List.mem_map.mpr ⟨p, hp, e⟩)
    have hcr : ∀ p ∈ rest, r1.s.credits.find? ⟨rec.hash, blk, p.1⟩ = r.s.credits.find? ⟨rec.hash, blk, p.1⟩ := by
      intro p hp
      rw [h1.credits, if_neg]
      rintro ⟨q, hq, e⟩
      simp only [List.mem_singleton] at hq
      subst hq
      injection e with _ _ e3
      exact hni p hp e3
    refine ⟨ih'.blocks.trans h1.blocks, ih'.txrecs.trans h1.txrecs, ih'.unmined.trans h1.unmined,
      ih'.locked.trans h1.locked, ih'.ui.trans h1.ui, ih'.debits.trans h1.debits, ?_, ?_,
      fun h => ih'.nodupUC (h1.nodupUC h)⟩
    · intro k
      rw [ih'.credits, h1.credits]
      by_cases e1 : ∃ p ∈ rest, k = ⟨rec.hash, blk, p.1⟩
      · have : ∃ p ∈ (i, value) :: rest, k = ⟨rec.hash, blk, p.1⟩ := by
          obtain ⟨p, hp, e⟩ := e1; exact ⟨p, List.mem_cons_of_mem _ hp, e⟩
        rw [if_pos e1, if_pos this]
      · rw [if_neg e1]
        by_cases e2 : k = ⟨rec.hash, blk, i⟩
        · have h3 : ∃ p ∈ [(i, value)], k = ⟨rec.hash, blk, p.1⟩ := ⟨(i, value), by simp, e2⟩
          have h4 : ∃ p ∈ (i, value) :: rest, k = ⟨rec.hash, blk, p.1⟩ := ⟨(i, value), List.mem_cons_self, e2⟩
          rw [if_pos h3, if_pos h4]
        · have h3 : ¬ ∃ p ∈ [(i, value)], k = ⟨rec.hash, blk, p.1⟩ := by
            rintro ⟨p, hp, e⟩; simp only [List.mem_singleton] at hp; subst hp; exact e2 e
          have h4 : ¬ ∃ p ∈ (i, value) :: rest, k = ⟨rec.hash, blk, p.1⟩ := by
            rintro ⟨p, hp, e⟩
            rcases List.mem_cons.mp hp with rfl | hp'
            · exact e2 e
            · exact e1 ⟨p, hp', e⟩
          rw [if_neg h3, if_neg h4]
    · intro op
      rw [ih'.uc, h1.uc]
      cases tu with
      | false => simp
      | true =>
        simp only [true_and]
        by_cases e1 : ∃ p ∈ rest, op = ⟨rec.hash, p.1⟩ ∧ (r1.s.credits.find? ⟨rec.hash, blk, p.1⟩).isSome = true
        · obtain ⟨p, hp, e, hs⟩ := e1
          have h3 : ∃ p ∈ rest, op = ⟨rec.hash, p.1⟩ ∧ (r1.s.credits.find? ⟨rec.hash, blk, p.1⟩).isSome = true :=
            ⟨p, hp, e, hs⟩
          have h4 : ∃ p ∈ (i, value) :: rest, op = ⟨rec.hash, p.1⟩ ∧
              (r.s.credits.find? ⟨rec.hash, blk, p.1⟩).isSome = true :=
            ⟨p, List.mem_cons_of_mem _ hp, e, by rw [← hcr p hp]; exact hs⟩
          rw [if_pos h3, if_pos h4]
          have : op.index = p.1 := by rw [e]
          rw [this, hcr p hp]
        · rw [if_neg e1]
          by_cases e2 : op = ⟨rec.hash, i⟩ ∧ (r.s.credits.find? ⟨rec.hash, blk, i⟩).isSome = true
          · have h3 : ∃ p ∈ [(i, value)], op = ⟨rec.hash, p.1⟩ ∧ (r.s.credits.find? ⟨rec.hash, blk, p.1⟩).isSome = true :=
              ⟨(i, value), by simp, e2⟩
            have h4 : ∃ p ∈ (i, value) :: rest, op = ⟨rec.hash, p.1⟩ ∧
                (r.s.credits.find? ⟨rec.hash, blk, p.1⟩).isSome = true := ⟨(i, value), List.mem_cons_self, e2⟩
            rw [if_pos h3, if_pos h4]
          · have h3 : ¬ ∃ p ∈ [(i, value)], op = ⟨rec.hash, p.1⟩ ∧
                (r.s.credits.find? ⟨rec.hash, blk, p.1⟩).isSome = true := by
              rintro ⟨p, hp, e⟩; simp only [List.mem_singleton] at hp; subst hp; exact e2 e
            have h4 : ¬ ∃ p ∈ (i, value) :: rest, op = ⟨rec.hash, p.1⟩ ∧
                (r.s.credits.find? ⟨rec.hash, blk, p.1⟩).isSome = true := by
              rintro ⟨p, hp, e, hs⟩
              rcases List.mem_cons.mp hp with rfl | hp'
              · exact e2 ⟨e, hs⟩
              · exact e1 ⟨p, hp', e, by rw [hcr p hp']; exact hs⟩
            rw [if_neg h3, if_neg h4]

/-- the coinbase branch remembers every output (same statement as `C02_rollback_remembers_every_coinbase_output`,
repeated here so that Props/C02.lean can import the refinement) -/
theorem rbCoinbaseOut_cb_fold (rec : Tx) (blk : Block) :
    ∀ (outs : List Int) (n : Nat) (r : RB),
      ((withIdx outs n).foldl (rbCoinbaseOut rec blk) r).cb =
        r.cb ++ (List.range outs.length).map (fun i => (⟨rec.hash, n + i⟩ : OutPoint)) := by
  intro outs
  induction outs with
  | nil => intro n r; simp [withIdx]
  | cons v t ih =>
    intro n r
    have hstep : (rbCoinbaseOut rec blk r (n, v)).cb = r.cb ++ [⟨rec.hash, n⟩] := by
      unfold rbCoinbaseOut
      dsimp only
      split
      · rfl
      · split <;> rfl
    simp only [withIdx, List.foldl_cons]
    rw [ih (n + 1), hstep, List.length_cons, List.range_succ_eq_map, List.map_cons, List.map_map]
    simp only [List.append_assoc, List.singleton_append, Nat.add_zero]
    congr 2
    apply List.map_congr_left
    intro i _
    simp only [Function.comp]
    congr 1
    omega

/-! ### one transaction of a detached block -/

def rbTxPure (blk : Block) (r : RB) (rec : Tx) : RB :=
  let r := { r with s := { r.s with txrecs := r.s.txrecs.erase ⟨rec.hash, blk⟩ } }
  if rec.isCoinBase then (withIdx rec.outs).foldl (rbCoinbaseOut rec blk) r
  else
    let r := { r with s := { r.s with unmined := r.s.unmined.insert rec.hash rec } }
    let r := (withIdx rec.ins).foldl (rbInput rec blk) r
    (withIdx rec.outs).foldl (rbOutput rec blk) r

theorem rbTx_ok {blk : Block} {r : RB} {rec : Tx} (h : r.s.txrecs.find? ⟨rec.hash, blk⟩ = some rec) :
    rbTx blk r rec.hash = .ok (rbTxPure blk r rec) := by
  unfold rbTx rbTxPure
  rw [h]
  simp only
  split <;> rfl

theorem exists_withIdx {α : Type} (l : List α) (P : Nat → Prop) :
    (∃ p ∈ withIdx l, P p.1) ↔ ∃ j, j < l.length ∧ P j := by
  constructor
  · rintro ⟨⟨j, a⟩, hp, h⟩
    have := (mem_withIdx0 l j a).mp hp
    exact ⟨j, (List.getElem?_eq_some_iff.mp this).1, h⟩
  · rintro ⟨j, hj, h⟩
    exact ⟨(j, l[j]), (mem_withIdx0 l j _).mpr (List.getElem?_eq_getElem hj), h⟩

structure TxSpec (rec : Tx) (blk : Block) (r r' : RB) : Prop where
  blocks : r'.s.blocks = r.s.blocks
  locked : r'.s.locked = r.s.locked
  txrecs : ∀ k, r'.s.txrecs.find? k = if k = ⟨rec.hash, blk⟩ then none else r.s.txrecs.find? k
  unmined : ∀ h, r'.s.unmined.find? h =
    if rec.isCoinBase = false ∧ h = rec.hash then some rec else r.s.unmined.find? h
  debits : ∀ dk, r'.s.debits.find? dk =
    if rec.isCoinBase = false ∧ ∃ j, j < rec.ins.length ∧ dk = ⟨rec.hash, blk, j⟩ then none else r.s.debits.find? dk
  credits : ∀ k, r'.s.credits.find? k =
    if ∃ i, i < rec.outs.length ∧ k = ⟨rec.hash, blk, i⟩ then none
    else if rec.isCoinBase = false ∧ ∃ j, j < rec.ins.length ∧ ∃ d, r.s.debits.find? ⟨rec.hash, blk, j⟩ = some d ∧ d.credKey = k
    then (r.s.credits.find? k).map unspendVal else r.s.credits.find? k
  uc : ∀ op, r'.s.unminedCredits.find? op =
    if rec.isCoinBase = false ∧ ∃ i, i < rec.outs.length ∧ op = ⟨rec.hash, i⟩ ∧
      (r.s.credits.find? ⟨rec.hash, blk, i⟩).isSome = true
    then (r.s.credits.find? ⟨rec.hash, blk, op.index⟩).map (fun v => (⟨v.amount, v.change⟩ : UCredit))
    else r.s.unminedCredits.find? op
  ui : ∀ op x, x ∈ spendHashes r'.s op ↔
    x ∈ spendHashes r.s op ∨ (rec.isCoinBase = false ∧ x = rec.hash ∧ op ∈ rec.ins)
  ne : InputsNE r.s → InputsNE r'.s
  cb : r'.cb = r.cb ++ (if rec.isCoinBase then (List.range rec.outs.length).map (fun i => (⟨rec.hash, i⟩ : OutPoint)) else [])
  nodupTx : NodupKeys r.s.txrecs → NodupKeys r'.s.txrecs
  nodupUnmined : NodupKeys r.s.unmined → NodupKeys r'.s.unmined
  nodupDeb : NodupKeys r.s.debits → NodupKeys r'.s.debits
  nodupUC : NodupKeys r.s.unminedCredits → NodupKeys r'.s.unminedCredits

theorem foldl_cb_input (rec : Tx) (blk : Block) : ∀ (l : List (Nat × OutPoint)) (r : RB),
    (l.foldl (rbInput rec blk) r).cb = r.cb := fun l r => (inSpec_fold_cb rec blk l r)
where
  inSpec_fold_cb (rec : Tx) (blk : Block) : ∀ (l : List (Nat × OutPoint)) (r : RB),
      (l.foldl (rbInput rec blk) r).cb = r.cb := by
    intro l
    induction l with
    | nil => intro r; rfl
    | cons a t ih =>
      intro r
      obtain ⟨j, inp⟩ := a
      rw [List.foldl_cons, ih]
      exact (rbInput_fields rec blk r j inp).2.2.2.2.2.1

theorem foldl_cb_output (rec : Tx) (blk : Block) : ∀ (l : List (Nat × Int)) (r : RB),
    (l.foldl (rbOutput rec blk) r).cb = r.cb := by
  intro l
  induction l with
  | nil => intro r; rfl
  | cons a t ih =>
    intro r
    obtain ⟨i, v⟩ := a
    rw [List.foldl_cons, ih, rbOutput_eq]
    unfold rbEraseCore
    cases r.s.credits.find? ⟨rec.hash, blk, i⟩ with
    | none => rfl
    | some v => simp only; split <;> rfl

def rbR0 (blk : Block) (r : RB) (rec : Tx) : RB :=
  { r with s := { r.s with txrecs := r.s.txrecs.erase ⟨rec.hash, blk⟩ } }

def rbR1 (blk : Block) (r : RB) (rec : Tx) : RB :=
  { (rbR0 blk r rec) with s := { (rbR0 blk r rec).s with unmined := (rbR0 blk r rec).s.unmined.insert rec.hash rec } }

theorem rbTxPure_cb {blk : Block} {r : RB} {rec : Tx} (h : rec.isCoinBase = true) :
    rbTxPure blk r rec = (withIdx rec.outs).foldl (rbCoinbaseOut rec blk) (rbR0 blk r rec) := by
  unfold rbTxPure rbR0; simp only [h, if_true]

theorem rbTxPure_ncb {blk : Block} {r : RB} {rec : Tx} (h : rec.isCoinBase = false) :
    rbTxPure blk r rec =
      (withIdx rec.outs).foldl (rbOutput rec blk) ((withIdx rec.ins).foldl (rbInput rec blk) (rbR1 blk r rec)) := by
  unfold rbTxPure rbR1 rbR0; simp only [h, Bool.false_eq_true, if_false]

theorem txSpec_pure (rec : Tx) (blk : Block) (r : RB) : TxSpec rec blk r (rbTxPure blk r rec) := by
  have hr0 : rbR0 blk r rec = rbR0 blk r rec := rfl
  generalize hr0' : rbR0 blk r rec = r0 at hr0
  have hr0 : ({ r with s := { r.s with txrecs := r.s.txrecs.erase ⟨rec.hash, blk⟩ } } : RB) = r0 := hr0'
  have htx : ∀ k, r0.s.txrecs.find? k = if k = ⟨rec.hash, blk⟩ then none else r.s.txrecs.find? k := by
    intro k
    rw [← hr0]
    show (r.s.txrecs.erase ⟨rec.hash, blk⟩).find? k = _
    rw [find?_erase]
    by_cases e : k = ⟨rec.hash, blk⟩
    · subst e; simp
    · have : ¬ (⟨rec.hash, blk⟩ : TxKey) = k := fun x => e x.symm
      simp [e, this]
  cases hcb : rec.isCoinBase with
  | true =>
    rw [rbTxPure_cb hcb, hr0']
    have hsp := outSpec_fold rec blk false (rbCoinbaseOut rec blk)
      (fun r p => (rbCoinbaseOut_eq rec blk r p.1 p.2).1) (withIdx rec.outs) r0 (withIdx_fst_nodup _ _)
    have hcbl := rbCoinbaseOut_cb_fold rec blk rec.outs 0 r0
    generalize (withIdx rec.outs).foldl (rbCoinbaseOut rec blk) r0 = r' at hsp hcbl
    refine ⟨by rw [hsp.blocks, ← hr0], by rw [hsp.locked, ← hr0], by intro k; rw [hsp.txrecs]; exact htx k, ?_, ?_, ?_, ?_,
      ?_, ?_, ?_, ?_, ?_, ?_, ?_⟩
    · intro h; rw [hsp.unmined, ← hr0]; simp [hcb]
    · intro dk; rw [hsp.debits, ← hr0]; simp [hcb]
    · intro k
      have e1 : r0.s.credits = r.s.credits := by rw [← hr0]
      simp only [hsp.credits, exists_withIdx rec.outs (fun i => k = ⟨rec.hash, blk, i⟩), e1, hcb, Bool.true_eq_false,
        false_and, if_false]
    · intro op
      have e1 : r0.s.unminedCredits = r.s.unminedCredits := by rw [← hr0]
      simp [hsp.uc, e1, hcb]
    · intro op x
      have : spendHashes r'.s op = spendHashes r.s op := by unfold spendHashes; rw [hsp.ui, ← hr0]
      rw [this]; simp [hcb]
    · intro h op; rw [hsp.ui, ← hr0]; exact h op
    · rw [hcbl, ← hr0]; simp [hcb]
    · intro h; rw [hsp.txrecs, ← hr0]; exact nodupKeys_erase _ _ h
    · intro h; rw [hsp.unmined, ← hr0]; exact h
    · intro h; rw [hsp.debits, ← hr0]; exact h
    · intro h; apply hsp.nodupUC; rw [← hr0]; exact h
  | false =>
    rw [rbTxPure_ncb hcb]
    have hr1' : rbR1 blk r rec = ({ r0 with s := { r0.s with unmined := r0.s.unmined.insert rec.hash rec } } : RB) := by
      unfold rbR1; rw [hr0']
    rw [hr1']
    generalize hr1 : ({ r0 with s := { r0.s with unmined := r0.s.unmined.insert rec.hash rec } } : RB) = r1
    have hin := inSpec_fold rec blk (withIdx rec.ins) r1 (withIdx_fst_nodup _ _)
    generalize hr2 : (withIdx rec.ins).foldl (rbInput rec blk) r1 = r2 at hin
    have hout := outSpec_fold rec blk true (rbOutput rec blk)
      (fun r p => by rw [rbOutput_eq]) (withIdx rec.outs) r2 (withIdx_fst_nodup _ _)
    have hcb2 := foldl_cb_output rec blk (withIdx rec.outs) r2
    generalize (withIdx rec.outs).foldl (rbOutput rec blk) r2 = r' at hout hcb2
    have e10 : r1.s.debits = r.s.debits := by rw [← hr1, ← hr0]
    have e11 : r1.s.credits = r.s.credits := by rw [← hr1, ← hr0]
    have e12 : r1.s.unminedCredits = r.s.unminedCredits := by rw [← hr1, ← hr0]
    have e13 : r1.s.unminedInputs = r.s.unminedInputs := by rw [← hr1, ← hr0]
    refine ⟨by rw [hout.blocks, hin.blocks, ← hr1, ← hr0], by rw [hout.locked, hin.locked, ← hr1, ← hr0], ?_, ?_, ?_, ?_,
      ?_, ?_, ?_, ?_, ?_, ?_, ?_, ?_⟩
    · intro k; rw [hout.txrecs, hin.txrecs, ← hr1]; exact htx k
    · intro h
      rw [hout.unmined, hin.unmined, ← hr1]
      show (r0.s.unmined.insert rec.hash rec).find? h = _
      rw [find?_insert, ← hr0]
      by_cases e : rec.hash = h
      · subst e; simp [hcb]
      · have : ¬ h = rec.hash := fun x => e x.symm
        simp [e, this]
    · intro dk
      simp only [hout.debits, hin.debits, exists_withIdx rec.ins (fun j => dk = ⟨rec.hash, blk, j⟩), e10, hcb, true_and]
    · intro k
      simp only [hout.credits, exists_withIdx rec.outs (fun i => k = ⟨rec.hash, blk, i⟩), hin.credits,
        exists_withIdx rec.ins (fun j => ∃ d, r1.s.debits.find? ⟨rec.hash, blk, j⟩ = some d ∧ d.credKey = k),
        exists_withIdx rec.ins (fun j => ∃ d, r.s.debits.find? ⟨rec.hash, blk, j⟩ = some d ∧ d.credKey = k), e10, e11,
        hcb, true_and]
    · intro op
      rw [hout.uc]
      simp only [true_and, hcb,
        exists_withIdx rec.outs (fun i => op = ⟨rec.hash, i⟩ ∧ (r2.s.credits.find? ⟨rec.hash, blk, i⟩).isSome = true)]
      have hsome : ∀ k, (r2.s.credits.find? k).isSome = (r.s.credits.find? k).isSome := by
        intro k; rw [hin.credits, e11]; split
        · cases r.s.credits.find? k <;> rfl
        · rfl
      have hmap : ∀ k, (r2.s.credits.find? k).map (fun v => (⟨v.amount, v.change⟩ : UCredit)) =
          (r.s.credits.find? k).map (fun v => (⟨v.amount, v.change⟩ : UCredit)) := by
        intro k; rw [hin.credits, e11]; split
        · cases r.s.credits.find? k <;> rfl
        · rfl
      simp only [hsome, hmap, hin.uc, e12]
    · intro op x
      have : spendHashes r'.s op = spendHashes r2.s op := by unfold spendHashes; rw [hout.ui]
      rw [this, hin.ui]
      have h2 : spendHashes r1.s op = spendHashes r.s op := by unfold spendHashes; rw [e13]
      rw [h2]
      have h3 : (∃ p ∈ withIdx rec.ins, p.2 = op) ↔ op ∈ rec.ins := by
        constructor
        · rintro ⟨⟨j, a⟩, hp, rfl⟩
          exact List.mem_of_getElem? ((mem_withIdx0 _ _ _).mp hp)
        · intro hm
          obtain ⟨j, hj⟩ := List.getElem?_of_mem hm
          exact ⟨(j, op), (mem_withIdx0 _ _ _).mpr hj, rfl⟩
      rw [h3]; simp [hcb]
    · intro h op
      rw [hout.ui]
      exact hin.ne (by intro op'; rw [e13]; exact h op') op
    · rw [hcb2, hin.cb, ← hr1, ← hr0]; simp [hcb]
    · intro h; rw [hout.txrecs, hin.txrecs, ← hr1, ← hr0]; exact nodupKeys_erase _ _ h
    · intro h; rw [hout.unmined, hin.unmined, ← hr1, ← hr0]; exact nodupKeys_insert _ _ _ h
    · intro h; rw [hout.debits]; exact hin.nodupDeb (by rw [e10]; exact h)
    · intro h; apply hout.nodupUC; rw [hin.uc, e12]; exact h

end TxStore
