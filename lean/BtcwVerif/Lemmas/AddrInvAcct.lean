import BtcwVerif.Lemmas.AddrInvUnlock
/-! New accounts, new scopes, `Create`, restart, watching-only conversion preserve / establish `Inv`. -/
set_option linter.unusedSectionVars false
set_option linter.unusedVariables false
set_option linter.unusedSimpArgs false
namespace AddrDerive
open AddrSym

variable {K P : Type} [DecidableEq K] [DecidableEq P]

theorem RowKeyOK.mono {hd : HD K P} {s s' : State K P} {sc : Scope} {a : Nat} {r : AcctRow K P}
    (hroot : s'.root = s.root) (himp : ∀ x ∈ s.imports, x ∈ s'.imports) (h : RowKeyOK hd s sc a r) : RowKeyOK hd s' sc a r := by
  cases r with
  | dflt pub priv ne ni name => simpa [RowKeyOK, hroot] using h
  | wo pub fp ne ni name schema ci => exact himp _ h

/-- a new account row under a fresh account number (the imports ghost may grow) -/
theorem Inv.newAcct {hd : HD K P} {s : State K P} (h : Inv hd s) {sc : Scope} {sd : ScopeDisk K P} (hsd : getSD s sc = some sd)
    (acct : Nat) (row : AcctRow K P) (imps : List (Scope × Nat × P)) (himps : ∀ x ∈ s.imports, x ∈ imps)
    (hfresh : ∀ a, (alookup sd.accts a).isSome → a < acct)
    (hrow : RowKeyOK hd { s with imports := imps } sc acct row) :
    Inv hd { putSD s sc { sd with accts := aset sd.accts acct row, lastAcct := some acct } with imports := imps } := by
  -- rows that existed are still there, unchanged
  have hnone : alookup sd.accts acct = none := by
    cases hx : alookup sd.accts acct with
    | none => rfl
    | some r => have := hfresh acct (by simp [hx]); omega
  have hold : ∀ sc' a r, acctRow s sc' a = some r →
      acctRow ({ putSD s sc { sd with accts := aset sd.accts acct row, lastAcct := some acct } with imports := imps } : State K P) sc' a = some r := by
    intro sc' a r hr
    show acctRow (putSD s sc _) sc' a = some r
    rw [acctRow_putSD]
    by_cases hsc : sc = sc'
    · subst hsc
      simp only [if_true, alookup_aset]
      rw [acctRow_of_getSD hsd] at hr
      have : acct ≠ a := by
        intro e; subst e; rw [hnone] at hr; cases hr
      simp [this, hr]
    · simp [hsc]; exact hr
  have hnew : ∀ sc' a r,
      acctRow ({ putSD s sc { sd with accts := aset sd.accts acct row, lastAcct := some acct } with imports := imps } : State K P) sc' a = some r →
      (sc' = sc ∧ a = acct ∧ r = row) ∨ acctRow s sc' a = some r := by
    intro sc' a r hr
    change acctRow (putSD s sc _) sc' a = some r at hr
    rw [acctRow_putSD] at hr
    by_cases hsc : sc = sc'
    · subst hsc
      simp only [if_true, alookup_aset] at hr
      by_cases ha : acct = a
      · subst ha; simp at hr; exact Or.inl ⟨rfl, rfl, hr.symm⟩
      · simp [ha] at hr; exact Or.inr (by rw [acctRow_of_getSD hsd]; exact hr)
    · simp [hsc] at hr; exact Or.inr hr
  refine ⟨h.woEq, h.woLocked, ⟨h.disk.root, ?_, ?_, ?_, ?_⟩, ?_, ?_, ?_, ?_⟩
  · intro sc' ck hc
    change coinAt (putSD s sc _) sc' = some ck at hc
    rw [coinAt_putSD] at hc
    by_cases hsc : sc = sc'
    · subst hsc; simp at hc; exact h.disk.coin sc ck (by rw [coinAt_of_getSD hsd]; exact hc)
    · simp [hsc] at hc; exact h.disk.coin sc' ck hc
  · intro sc' lo hlo
    change lastAt (putSD s sc _) sc' = some lo at hlo
    rw [lastAt_putSD] at hlo
    by_cases hsc : sc = sc'
    · subst hsc
      simp at hlo
      refine ⟨acct, hlo.symm, fun a ha => ?_⟩
      cases hr : acctRow ({ putSD s sc { sd with accts := aset sd.accts acct row, lastAcct := some acct } with imports := imps } : State K P) sc a with
      | none => rw [hr] at ha; cases ha
      | some r =>
        rcases hnew sc a r hr with ⟨_, e, _⟩ | h0
        · omega
        · rw [acctRow_of_getSD hsd] at h0
          have := hfresh a (by simp [h0]); omega
    · simp [hsc] at hlo
      obtain ⟨l, h1, h2⟩ := h.disk.last sc' lo hlo
      refine ⟨l, h1, fun a ha => h2 a ?_⟩
      cases hr : acctRow ({ putSD s sc { sd with accts := aset sd.accts acct row, lastAcct := some acct } with imports := imps } : State K P) sc' a with
      | none => rw [hr] at ha; cases ha
      | some r =>
        rcases hnew sc' a r hr with ⟨e, _, _⟩ | h0
        · exact absurd e.symm hsc
        · simp [h0]
  · intro sc' a r hr
    rcases hnew sc' a r hr with ⟨e1, e2, e3⟩ | h0
    · subst e1 e2 e3; exact hrow
    · exact RowKeyOK.mono (s := s) rfl himps (h.disk.row sc' a r h0)
  · intro sc' id a b i hr
    have hr0 : addrRowAt s sc' id = some (.chain a b i) := by
      change addrRowAt (putSD s sc _) sc' id = _ at hr
      rw [addrRowAt_putSD] at hr
      by_cases hsc : sc = sc'
      · subst hsc; simp at hr; rw [addrRowAt_of_getSD hsd]; exact hr
      · simp [hsc] at hr; exact hr
    obtain ⟨r, p, cls, h1, h2, h3⟩ := h.disk.addr sc' id a b i hr0
    exact ⟨r, p, cls, hold _ _ _ h1, h2, h3⟩
  · intro sc' a ai hc
    obtain ⟨r, hr, hok⟩ := h.cache sc' a ai hc
    exact ⟨r, hold _ _ _ hr, hok.pub, hok.enc, hok.locked, hok.unlocked⟩
  · intro o ho
    have hko := h.heap o ho
    refine ⟨hko.priv, fun hni => ?_, hko.imported⟩
    obtain ⟨r, h1, h2, h3, h4, h5⟩ := hko.chained hni
    exact ⟨r, hold _ _ _ h1, h2, h3, h4, h5⟩
  · intro sc' e he
    obtain ⟨o, ho, hdo⟩ := h.dou sc' e he
    exact ⟨o, ho, hdo.notImp, hdo.scope, hdo.branch, hdo.index, hdo.cached, hdo.pub⟩
  · exact h.sign

theorem opNewAccount_inv {hd : HD K P} {s : State K P} (h : Inv hd s) (sc : Scope) (name : Nat) :
    Inv hd (opNewAccount hd s sc name).1 := by
  unfold opNewAccount
  split
  · exact h
  · split
    · exact h
    · rename_i sd hsd
      split
      · exact h
      · split
        · exact h
        · split
          · exact h
          · split
            · exact h
            · rename_i ck hck
              dsimp only
              split
              · exact h
              · split
                · exact h
                · rename_i ak hak
                  obtain ⟨l, hl1, hl2⟩ := h.disk.last sc _ (lastAt_of_getSD hsd)
                  have hl1' : sd.lastAcct = some l := hl1
                  have hna : nextAcct sd = l + 1 := by simp [nextAcct, hl1']
                  obtain ⟨root, hroot, hcoin⟩ := h.disk.coin sc ck (by rw [coinAt_of_getSD hsd]; exact hck)
                  refine h.newAcct hsd (nextAcct sd) _ s.imports (fun _ x => x) ?_ ?_
                  · intro a ha
                    have := hl2 a (by rw [acctRow_of_getSD hsd]; exact ha)
                    omega
                  · exact ⟨root, ak, hroot, by simp [acctKeyAt, hcoin, hak], rfl, fun k hk => by cases hk; rfl⟩

theorem opNewAccountWO_inv {hd : HD K P} {s : State K P} (h : Inv hd s) (sc : Scope) (name : Nat) (x : P) (ci fp : Nat)
    (sch : Option Schema) : Inv hd (opNewAccountWO s sc name x ci fp sch).1 := by
  unfold opNewAccountWO
  split
  · exact h
  · rename_i sd hsd
    split
    · exact h
    · split
      · exact h
      · obtain ⟨l, hl1, hl2⟩ := h.disk.last sc _ (lastAt_of_getSD hsd)
        have hl1' : sd.lastAcct = some l := hl1
        have hna : nextAcct sd = l + 1 := by simp [nextAcct, hl1']
        refine h.newAcct hsd (nextAcct sd) _ ((sc, nextAcct sd, x) :: s.imports) (fun _ hx => List.mem_cons_of_mem _ hx) ?_ ?_
        · intro a ha
          have := hl2 a (by rw [acctRow_of_getSD hsd]; exact ha)
          omega
        · exact List.mem_cons_self

-- ---------------------------------------------------------------------------------------------------------
-- scopes

/-- a freshly made key scope: cointype key and account 0 are the seed's children, nothing issued yet -/
def ScopeInit (hd : HD K P) (root : K) (sc : Scope) (sd : ScopeDisk K P) : Prop :=
  ∃ ck ak, coinKeyAt hd root sc = some ck ∧ acctKeyAt hd root sc 0 = some ak ∧ sd.coinPriv = some ck ∧
    sd.accts = [(0, .dflt (hd.neuter ak) (some ak) 0 0 1)] ∧ sd.addrs = [] ∧ sd.lastAcct = some 0

theorem mkKeyScope_ok (hd : HD K P) (root : K) (sc : Scope) (schema : Schema) (sd0 : ScopeDisk K P)
    (h : mkKeyScope hd root sc schema = some sd0) : ScopeInit hd root sc { sd0 with lastAcct := some 0 } := by
  unfold mkKeyScope at h
  split at h
  · cases h
  · rename_i ck hck
    split at h
    · cases h
    · rename_i ak hak
      split at h
      · cases h
      · cases h
        exact ⟨ck, ak, hck, by simp [acctKeyAt, hck, hak] at hak ⊢; exact hak, rfl, rfl, rfl, rfl⟩

theorem ScopeInit.row {hd : HD K P} {root : K} {sc : Scope} {sd : ScopeDisk K P} (hi : ScopeInit hd root sc sd) {a : Nat}
    {r : AcctRow K P} (hr : alookup sd.accts a = some r) :
    a = 0 ∧ ∃ ak, acctKeyAt hd root sc 0 = some ak ∧ r = .dflt (hd.neuter ak) (some ak) 0 0 1 := by
  obtain ⟨ck, ak, _, h2, _, h4, _, _⟩ := hi
  rw [h4] at hr
  simp only [alookup] at hr
  by_cases ha : 0 = a
  · subst ha; simp at hr; exact ⟨rfl, ak, h2, hr.symm⟩
  · simp [ha] at hr

theorem Inv.newScope {hd : HD K P} {s : State K P} (h : Inv hd s) {sc : Scope} (hnone : getSD s sc = none) {root : K}
    (hroot : s.root = some root) {sd : ScopeDisk K P} (hi : ScopeInit hd root sc sd) (schema : Schema) :
    Inv hd (putSM (putSD s sc sd) sc { schema := schema, acctInfo := [], addrs := [], dou := [] }) := by
  have hrow0 : ∀ a, acctRow s sc a = none := by intro a; simp [acctRow, hnone]
  have hc0 : ∀ a, cacheAt s sc a = none := by
    intro a
    cases hc : cacheAt s sc a with
    | none => rfl
    | some ai => obtain ⟨r, hr, _⟩ := h.cache sc a ai hc; rw [hrow0] at hr; cases hr
  have hd0 : douAt s sc = [] := by
    cases hd : douAt s sc with
    | nil => rfl
    | cons e t =>
      obtain ⟨o, _, hdo⟩ := h.dou sc e (by rw [hd]; exact List.mem_cons_self)
      have := hdo.cached; rw [hc0] at this; cases this
  have hcache : ∀ sc' a, cacheAt (putSM (putSD s sc sd) sc { schema := schema, acctInfo := [], addrs := [], dou := [] }) sc' a = cacheAt s sc' a := by
    intro sc' a
    rw [cacheAt_putSM]
    by_cases hsc : sc = sc'
    · subst hsc; simp [hc0, alookup]
    · simp [hsc]
  have hdou : ∀ sc', douAt (putSM (putSD s sc sd) sc { schema := schema, acctInfo := [], addrs := [], dou := [] }) sc' = douAt s sc' := by
    intro sc'
    rw [douAt_putSM]
    by_cases hsc : sc = sc'
    · subst hsc; simp [hd0]
    · simp [hsc]
  have hold : ∀ sc' a r, acctRow s sc' a = some r →
      acctRow (putSM (putSD s sc sd) sc { schema := schema, acctInfo := [], addrs := [], dou := [] }) sc' a = some r := by
    intro sc' a r hr
    rw [acctRow_putSM, acctRow_putSD]
    by_cases hsc : sc = sc'
    · subst hsc; rw [hrow0] at hr; cases hr
    · simp [hsc]; exact hr
  have hnew : ∀ sc' a r, acctRow (putSM (putSD s sc sd) sc { schema := schema, acctInfo := [], addrs := [], dou := [] }) sc' a = some r →
      (sc' = sc ∧ alookup sd.accts a = some r) ∨ acctRow s sc' a = some r := by
    intro sc' a r hr
    rw [acctRow_putSM, acctRow_putSD] at hr
    by_cases hsc : sc = sc'
    · subst hsc; simp at hr; exact Or.inl ⟨rfl, hr⟩
    · simp [hsc] at hr; exact Or.inr hr
  refine ⟨h.woEq, h.woLocked, ⟨h.disk.root, ?_, ?_, ?_, ?_⟩, ?_, ?_, ?_, ?_⟩
  · intro sc' ck hc
    rw [coinAt_putSM, coinAt_putSD] at hc
    by_cases hsc : sc = sc'
    · subst hsc
      simp at hc
      obtain ⟨ck', ak, h1, _, h3, _⟩ := hi
      rw [h3] at hc; cases hc
      exact ⟨root, hroot, h1⟩
    · simp [hsc] at hc; exact h.disk.coin sc' ck hc
  · intro sc' lo hlo
    rw [lastAt_putSM, lastAt_putSD] at hlo
    by_cases hsc : sc = sc'
    · subst hsc
      simp at hlo
      refine ⟨0, by rw [← hlo]; exact hi.choose_spec.choose_spec.2.2.2.2.2, fun a ha => ?_⟩
      cases hr : acctRow (putSM (putSD s sc sd) sc { schema := schema, acctInfo := [], addrs := [], dou := [] }) sc a with
      | none => rw [hr] at ha; cases ha
      | some r =>
        rcases hnew sc a r hr with ⟨_, h0⟩ | h0
        · have := (hi.row h0).1; omega
        · rw [hrow0] at h0; cases h0
    · simp [hsc] at hlo
      obtain ⟨l, h1, h2⟩ := h.disk.last sc' lo hlo
      refine ⟨l, h1, fun a ha => h2 a ?_⟩
      cases hr : acctRow (putSM (putSD s sc sd) sc { schema := schema, acctInfo := [], addrs := [], dou := [] }) sc' a with
      | none => rw [hr] at ha; cases ha
      | some r =>
        rcases hnew sc' a r hr with ⟨e, _⟩ | h0
        · exact absurd e.symm hsc
        · simp [h0]
  · intro sc' a r hr
    rcases hnew sc' a r hr with ⟨e, h0⟩ | h0
    · subst e
      obtain ⟨ha, ak, hak, hr'⟩ := hi.row h0
      subst ha hr'
      exact ⟨root, ak, hroot, hak, rfl, fun k hk => by cases hk; rfl⟩
    · exact RowKeyOK.congr (s := s) rfl rfl rfl (h.disk.row sc' a r h0)
  · intro sc' id a b i hr
    rw [addrRowAt_putSM, addrRowAt_putSD] at hr
    by_cases hsc : sc = sc'
    · subst hsc
      simp at hr
      rw [hi.choose_spec.choose_spec.2.2.2.2.1] at hr
      simp [alookup] at hr
    · simp [hsc] at hr
      obtain ⟨r, p, cls, h1, h2, h3⟩ := h.disk.addr sc' id a b i hr
      exact ⟨r, p, cls, hold _ _ _ h1, h2, h3⟩
  · intro sc' a ai hc
    rw [hcache] at hc
    obtain ⟨r, hr, hok⟩ := h.cache sc' a ai hc
    exact ⟨r, hold _ _ _ hr, hok.pub, hok.enc, hok.locked, hok.unlocked⟩
  · intro o ho
    have hko := h.heap o ho
    refine ⟨hko.priv, fun hni => ?_, hko.imported⟩
    obtain ⟨r, h1, h2, h3, h4, h5⟩ := hko.chained hni
    exact ⟨r, hold _ _ _ h1, h2, h3, h4, h5⟩
  · intro sc' e he
    rw [hdou] at he
    obtain ⟨o, ho, hdo⟩ := h.dou sc' e he
    exact ⟨o, ho, hdo.notImp, hdo.scope, hdo.branch, hdo.index, by rw [hcache]; exact hdo.cached, hdo.pub⟩
  · intro idx o ho hni hpa hw
    rcases h.sign idx o ho hni hpa hw with h1 | ⟨h1, e, he, hei⟩
    · exact Or.inl h1
    · exact Or.inr ⟨h1, e, by rw [hdou]; exact he, hei⟩

theorem opNewScope_inv {hd : HD K P} {s : State K P} (h : Inv hd s) (sc : Scope) (schema : Schema) :
    Inv hd (opNewScope Cfg.fixed hd s sc schema).1 := by
  unfold opNewScope
  simp only [show Cfg.fixed.l1 = false from rfl, Bool.false_eq_true, if_false]
  split
  · exact h
  · split
    · exact h
    · split
      · exact h
      · rename_i root hrp
        split
        · exact h
        · rename_i hnone
          split
          · exact h
          · rename_i sd0 hmk
            have hnone' : getSD s sc = none := by
              cases hx : getSD s sc with
              | none => rfl
              | some _ => simp [hx] at hnone
            exact h.newScope hnone' (h.disk.root root hrp) (mkKeyScope_ok hd root sc schema sd0 hmk) schema

-- ---------------------------------------------------------------------------------------------------------
-- freshly opened manager: Create, restart

theorem getSM_fresh (d : Disk K P) (s : State K P) (hm : s.mem = freshMem d) (sc : Scope) :
    getSM s sc = (alookup d.scopes sc).map fun sd => { schema := sd.schema, acctInfo := [], addrs := [], dou := [] } := by
  simp only [getSM, hm, freshMem]
  exact alookup_map d.scopes (fun _ sd => ({ schema := sd.schema, acctInfo := [], addrs := [], dou := [] } : ScopeMem K P)) sc

/-- a manager that has just been opened on a consistent database -/
theorem Inv.ofFresh {hd : HD K P} {s : State K P} (hdisk : DiskOK hd s) (hm : s.mem = freshMem s.disk) : Inv hd s := by
  have hc : ∀ sc a, cacheAt s sc a = none := by
    intro sc a
    unfold cacheAt
    rw [getSM_fresh s.disk s hm]
    cases alookup s.disk.scopes sc <;> simp [alookup]
  have hd' : ∀ sc, douAt s sc = [] := by
    intro sc
    unfold douAt
    rw [getSM_fresh s.disk s hm]
    cases alookup s.disk.scopes sc <;> simp
  have hh : s.mem.heap = [] := by rw [hm]; rfl
  refine ⟨by rw [hm]; rfl, fun _ => by rw [hm]; rfl, hdisk, ?_, ?_, ?_, ?_⟩
  · intro sc a ai h; rw [hc] at h; cases h
  · intro o ho; rw [hh] at ho; cases ho
  · intro sc e he; rw [hd'] at he; cases he
  · intro idx o ho; rw [hh] at ho; simp at ho

theorem opRestart_inv {hd : HD K P} {s : State K P} (h : Inv hd s) : Inv hd (opRestart s).1 :=
  Inv.ofFresh (h.disk.of_eq rfl rfl rfl) rfl

theorem mkScopes_spec (hd : HD K P) (root : K) : ∀ (l : List (Scope × Schema)) (r : List (Scope × ScopeDisk K P)),
    mkScopes hd root l = some r → ∀ sc sd, alookup r sc = some sd → ScopeInit hd root sc sd := by
  intro l
  induction l with
  | nil => intro r h sc sd hl; simp [mkScopes] at h; subst h; simp [alookup] at hl
  | cons p t ih =>
    intro r h sc sd hl
    obtain ⟨sc0, sch⟩ := p
    unfold mkScopes at h
    split at h
    · rename_i sd0 r0 hmk hr0
      cases h
      simp only [alookup] at hl
      by_cases hsc : sc0 = sc
      · subst hsc
        simp at hl
        subst hl
        exact mkKeyScope_ok hd root sc0 sch sd0 hmk
      · simp [hsc] at hl
        exact ih r0 hr0 sc sd hl
    · cases h

theorem opCreate_inv (hd : HD K P) (root : K) : Inv hd (opCreate hd root).1 := by
  unfold opCreate
  split
  · exact Inv_empty hd
  · rename_i scs hscs
    dsimp only
    apply Inv.ofFresh _ rfl
    have hspec := mkScopes_spec hd root _ _ hscs
    refine ⟨fun r hr => by simpa using hr, ?_, ?_, ?_, ?_⟩
    · intro sc ck hc
      simp only [coinAt, getSD] at hc
      cases hsd : alookup scs sc with
      | none => simp [hsd] at hc
      | some sd =>
        simp [hsd] at hc
        obtain ⟨ck', ak, h1, _, h3, _⟩ := hspec sc sd hsd
        rw [h3] at hc; cases hc
        exact ⟨root, rfl, h1⟩
    · intro sc lo hlo
      simp only [lastAt, getSD] at hlo
      cases hsd : alookup scs sc with
      | none => simp [hsd] at hlo
      | some sd =>
        simp [hsd] at hlo
        have hi := hspec sc sd hsd
        refine ⟨0, by rw [← hlo]; exact hi.choose_spec.choose_spec.2.2.2.2.2, fun a ha => ?_⟩
        simp only [acctRow, getSD, hsd, Option.bind_some] at ha
        cases hr : alookup sd.accts a with
        | none => rw [hr] at ha; cases ha
        | some r => have := (hi.row hr).1; omega
    · intro sc a r hr
      simp only [acctRow, getSD] at hr
      cases hsd : alookup scs sc with
      | none => simp [hsd] at hr
      | some sd =>
        simp [hsd] at hr
        obtain ⟨ha, ak, hak, hr'⟩ := (hspec sc sd hsd).row hr
        subst ha hr'
        exact ⟨root, ak, rfl, hak, rfl, fun k hk => by cases hk; rfl⟩
    · intro sc id a b i hr
      simp only [addrRowAt, getSD] at hr
      cases hsd : alookup scs sc with
      | none => simp [hsd] at hr
      | some sd =>
        simp [hsd] at hr
        rw [(hspec sc sd hsd).choose_spec.choose_spec.2.2.2.2.1] at hr
        simp [alookup] at hr

end AddrDerive
