/-
C05 support: "stays wiped while locked".  `KeyClear m` (every clear-text key buffer reachable from the manager is
nil / zero) is established by `lockMem` and kept by every operation that runs on a LOCKED manager; with the F13 fix the
OnCommit closures of `nextAddresses` keep it too.  `LExt m m'` is the frame relation every primitive satisfies when it
starts from a locked manager: it stays locked, no `*managedAddress` / `*scriptAddress` object gains a clear-text key,
and the caches only gain wiped objects.
-/
import BtcwVerif.Lemmas.AddrKind
import BtcwVerif.Lemmas.AddrDou
namespace AddrLock

/-- the object holds no clear-text private key / P2SH script -/
def Clr (o : Obj) : Prop := (o.kind = .managed ∨ o.kind = .script) → o.ct = false
/-- … as far as `*managedAddress` objects are concerned (what `lock()` wipes in the last-address slots) -/
def MClr (o : Obj) : Prop := o.kind = .managed → o.ct = false

theorem Clr.m {o : Obj} (h : Clr o) : MClr o := fun hk => h (Or.inl hk)

theorem clr_of_ct {o : Obj} (h : o.ct = false) : Clr o := fun _ => h

def InfoClr (h : Nat → Obj) (ai : AcctInfo) : Prop := ai.keyPriv = false ∧ MClr (h ai.lastExt) ∧ MClr (h ai.lastInt)

structure ScopeClr (h : Nat → Obj) (s : ScopeMem) : Prop where
  acct  : ∀ p ∈ s.acctInfo, InfoClr h p.2
  addrs : ∀ p ∈ s.addrs, Clr (h p.2)
  pkc   : s.pkc = []

def MemClr (m : Mem) : Prop := ∀ sc, sc < nScopes → ScopeClr m.heap (m.scopes sc)

/-- no object loses its "clear" status -/
def HClr (h h' : Nat → Obj) : Prop := ∀ id, (Clr (h id) → Clr (h' id)) ∧ (MClr (h id) → MClr (h' id))

theorem HClr.refl (h : Nat → Obj) : HClr h h := fun _ => ⟨id, id⟩
theorem HClr.trans {a b c : Nat → Obj} (h1 : HClr a b) (h2 : HClr b c) : HClr a c :=
  fun id => ⟨fun h => (h2 id).1 ((h1 id).1 h), fun h => (h2 id).2 ((h1 id).2 h)⟩

theorem scopeClr_heap {h h' : Nat → Obj} (hh : HClr h h') {s : ScopeMem} (hs : ScopeClr h s) : ScopeClr h' s :=
  ⟨fun p hp => ⟨(hs.acct p hp).1, (hh _).2 (hs.acct p hp).2.1, (hh _).2 (hs.acct p hp).2.2⟩,
   fun p hp => (hh _).1 (hs.addrs p hp), hs.pkc⟩

/-- every in-memory clear-text copy of master, crypto, account and address private keys (and the cached derived
keys) is nil / zero.  Script clear text: the P2SH script buffers are included; secret witness / taproot script
clear text is NOT (observation O1: `lock()` has no case for those types; scripts are not private keys). -/
structure KeyClear (m : Mem) : Prop where
  master  : m.masterPriv ≠ .nonzero
  cpriv   : m.cryptoPriv ≠ .nonzero
  cscript : m.cryptoScript ≠ .nonzero
  hashed  : m.hashed = none
  acct    : ∀ sc, sc < nScopes → ∀ p ∈ (m.scopes sc).acctInfo, p.2.keyPriv = false
  pkc     : ∀ sc, sc < nScopes → (m.scopes sc).pkc = []
  addrs   : ∀ sc, sc < nScopes → ∀ p ∈ (m.scopes sc).addrs,
              ((m.heap p.2).kind = .managed ∨ (m.heap p.2).kind = .script) → (m.heap p.2).ct = false
  last    : ∀ sc, sc < nScopes → ∀ p ∈ (m.scopes sc).acctInfo,
              ((m.heap p.2.lastExt).kind = .managed → (m.heap p.2.lastExt).ct = false) ∧
              ((m.heap p.2.lastInt).kind = .managed → (m.heap p.2.lastInt).ct = false)

/-- the scalar part of `KeyClear` -/
def ScalClr (m : Mem) : Prop :=
  m.masterPriv ≠ .nonzero ∧ m.cryptoPriv ≠ .nonzero ∧ m.cryptoScript ≠ .nonzero ∧ m.hashed = none

theorem scalClr_of_scal {m m' : Mem} (h : Scal m' = Scal m) (hc : ScalClr m) : ScalClr m' := by
  unfold ScalClr at *
  have h3 : m'.masterPriv = m.masterPriv := congrArg (·.2.2.1) h
  have h4 : m'.cryptoPriv = m.cryptoPriv := congrArg (·.2.2.2.1) h
  have h5 : m'.cryptoScript = m.cryptoScript := congrArg (·.2.2.2.2.1) h
  have h6 : m'.hashed = m.hashed := congrArg (·.2.2.2.2.2.1) h
  rw [h3, h4, h5, h6]; exact hc

theorem keyClear_iff (m : Mem) : KeyClear m ↔ ScalClr m ∧ MemClr m := by
  constructor
  · intro h
    exact ⟨⟨h.master, h.cpriv, h.cscript, h.hashed⟩, fun sc hsc =>
      ⟨fun p hp => ⟨h.acct sc hsc p hp, (h.last sc hsc p hp).1, (h.last sc hsc p hp).2⟩,
       fun p hp => h.addrs sc hsc p hp, h.pkc sc hsc⟩⟩
  · rintro ⟨⟨h1, h2, h3, h4⟩, h⟩
    exact ⟨h1, h2, h3, h4, fun sc hsc p hp => ((h sc hsc).acct p hp).1, fun sc hsc => (h sc hsc).pkc,
      fun sc hsc p hp => (h sc hsc).addrs p hp,
      fun sc hsc p hp => ⟨((h sc hsc).acct p hp).2.1, ((h sc hsc).acct p hp).2.2⟩⟩

theorem zeroed_ne (b : Buf) : b.zeroed ≠ .nonzero := by cases b <;> simp [Buf.zeroed]

theorem mem_range_nScopes {sc : Nat} (h : sc < nScopes) : sc ∈ List.range nScopes := List.mem_range.mpr h

/-- `Manager.lock()` on the fixed tree (f1: cache purge, f11: last addresses) clears everything, from ANY state. -/
theorem keyClear_lockMem (cfg : Cfg) (hf1 : cfg.f1 = true) (hf11 : cfg.f11 = true) (m : Mem) :
    KeyClear (lockMem cfg m) := by
  refine ⟨zeroed_ne _, zeroed_ne _, zeroed_ne _, rfl, ?_, ?_, ?_, ?_⟩
  · intro sc _ p hp
    simp only [lockMem, lockScope, List.mem_map] at hp
    obtain ⟨q, _, rfl⟩ := hp
    rfl
  · intro sc _; simp [lockMem, lockScope, hf1]
  · intro sc hsc p hp hk
    simp only [lockMem, lockScope] at hp hk ⊢
    have hw : shouldWipe cfg m p.2 = true := by
      simp only [shouldWipe, List.any_eq_true, Bool.or_eq_true, Bool.and_eq_true]
      refine ⟨sc, mem_range_nScopes hsc, Or.inl ⟨?_, p, hp, by simp⟩⟩
      by_cases hwp : shouldWipe cfg m p.2 = true
      · simp only [hwp, if_true] at hk; simpa using hk
      · simp only [hwp] at hk; simpa using hk
    simp [hw]
  · intro sc hsc p hp
    simp only [lockMem, lockScope, List.mem_map] at hp ⊢
    obtain ⟨q, hq, rfl⟩ := hp
    dsimp only
    have key : ∀ id, (id = q.2.lastExt ∨ id = q.2.lastInt) →
        ((if shouldWipe cfg m id = true then { m.heap id with ct := false } else m.heap id).kind = .managed →
         (if shouldWipe cfg m id = true then { m.heap id with ct := false } else m.heap id).ct = false) := by
      intro id hid hk
      have hk' : (m.heap id).kind = .managed := by
        by_cases hwp : shouldWipe cfg m id = true
        · simp only [hwp, if_true] at hk; exact hk
        · simp only [hwp] at hk; exact hk
      have hw : shouldWipe cfg m id = true := by
        simp only [shouldWipe, List.any_eq_true, Bool.or_eq_true, Bool.and_eq_true]
        refine ⟨sc, mem_range_nScopes hsc, Or.inr ⟨⟨hf11, by simp [hk']⟩, q, hq, ?_⟩⟩
        rcases hid with h | h <;> simp [h]
      simp [hw]
    exact ⟨key _ (Or.inl rfl), key _ (Or.inr rfl)⟩

/-! ### the frame relation for operations on a locked manager -/

structure LExt (m m' : Mem) : Prop where
  locked : m'.locked = m.locked
  heap   : HClr m.heap m'.heap
  clr    : MemClr m → MemClr m'

theorem LExt.refl (m : Mem) : LExt m m := ⟨rfl, HClr.refl _, id⟩

theorem LExt.trans {a b c : Mem} (h1 : LExt a b) (h2 : LExt b c) : LExt a c :=
  ⟨by rw [h2.locked, h1.locked], h1.heap.trans h2.heap, fun h => h2.clr (h1.clr h)⟩

/-- a change of the heap (and of fields outside the caches) that keeps every object's "clear" status -/
theorem lExt_heapMap {m m' : Mem} (hs : m'.scopes = m.scopes) (hl : m'.locked = m.locked) (hh : HClr m.heap m'.heap) :
    LExt m m' :=
  ⟨hl, hh, fun h sc hsc => by rw [hs]; exact scopeClr_heap hh (h sc hsc)⟩

theorem lExt_same {m m' : Mem} (hs : m'.scopes = m.scopes) (hl : m'.locked = m.locked) (hh : m'.heap = m.heap) :
    LExt m m' := lExt_heapMap hs hl (by rw [hh]; exact HClr.refl _)

theorem lExt_alloc (m : Mem) (o : Obj) (ho : Clr o) : LExt m (m.alloc o).1 ∧ Clr ((m.alloc o).1.heap (m.alloc o).2) := by
  refine ⟨lExt_heapMap rfl rfl ?_, by simp [Mem.alloc, ho]⟩
  intro i
  simp only [Mem.alloc]
  split
  · exact ⟨fun _ => ho, fun _ => ho.m⟩
  · exact ⟨id, id⟩

theorem lExt_updScope (m : Mem) (sc : Nat) (f : ScopeMem → ScopeMem)
    (hf : sc < nScopes → ScopeClr m.heap (m.scopes sc) → ScopeClr m.heap (f (m.scopes sc))) :
    LExt m (m.updScope sc f) := by
  refine ⟨rfl, HClr.refl _, fun h sc' hsc' => ?_⟩
  simp only [Mem.updScope]
  by_cases hs : sc' = sc
  · subst hs; simp only [if_true]; exact hf hsc' (h sc' hsc')
  · simp only [hs, if_false]; exact h sc' hsc'

theorem lExt_addAddr (m : Mem) (sc : Nat) (k : AKey) (id : Nat) (hc : Clr (m.heap id)) :
    LExt m (m.updScope sc fun s => { s with addrs := aset s.addrs k id }) :=
  lExt_updScope m sc _ fun _ h =>
    ⟨h.acct, fun p hp => by
      rcases mem_aset hp with h1 | h1
      · rw [h1]; exact hc
      · exact h.addrs p h1, h.pkc⟩

theorem lExt_setInfo (m : Mem) (sc a : Nat) (ai : AcctInfo)
    (hc : sc < nScopes → ScopeClr m.heap (m.scopes sc) → InfoClr m.heap ai) :
    LExt m (m.updScope sc fun s => { s with acctInfo := aset s.acctInfo a ai }) :=
  lExt_updScope m sc _ fun hsc h =>
    ⟨fun p hp => by
      rcases mem_aset hp with h1 | h1
      · rw [h1]; exact hc hsc h
      · exact h.acct p h1, h.addrs, h.pkc⟩

theorem lExt_dou (m : Mem) (sc : Nat) (g : List Dou → List Dou) :
    LExt m (m.updScope sc fun s => { s with dou := g s.dou }) :=
  lExt_updScope m sc _ fun _ h => ⟨h.acct, h.addrs, h.pkc⟩

/-! ### cache-filling primitives on a locked manager -/

theorem lExt_ktm (m : Mem) (sc a b i : Nat) :
    LExt m (keyToManaged m sc a b i false).1 ∧
    Clr ((keyToManaged m sc a b i false).1.heap (keyToManaged m sc a b i false).2) := by
  unfold keyToManaged
  simp only [Bool.false_eq_true, if_false]
  have h := lExt_alloc m { key := .chain a b i, kind := .managed, hasEnc := false, ct := false, acct := a } (clr_of_ct rfl)
  exact ⟨h.1.trans (lExt_dou _ _ (fun l => l ++ [_])), h.2⟩

theorem lExt_loadAcctRow (m : Mem) (sc acct : Nat) (row : AcctRow) (hl : m.locked = true) :
    LExt m (loadAcctRow m sc acct row) := by
  unfold loadAcctRow
  have hp : (!m.locked && !m.watchOnly && !row.wo) = false := by simp [hl]
  simp only [hp]
  have h1 := lExt_ktm m sc acct 0 (row.nextExt - 1)
  have h2 := lExt_ktm (keyToManaged m sc acct 0 (row.nextExt - 1) false).1 sc acct 1 (row.nextInt - 1)
  refine (h1.1.trans h2.1).trans (lExt_setInfo _ _ _ _ fun _ _ => ⟨rfl, ?_, ?_⟩)
  · exact ((h2.1.heap _).1 h1.2).m
  · exact h2.2.m

theorem lExt_loadAcct {d : Disk} {m m1 : Mem} {sc a : Nat} (hl : m.locked = true) (h : loadAcct d m sc a = .ok m1) :
    LExt m m1 := by
  unfold loadAcct at h
  split at h
  · cases h; exact LExt.refl _
  · split at h
    · cases h
    · split at h
      · cases h
      · split at h
        · cases h
        · cases h; exact lExt_loadAcctRow _ _ _ _ hl

theorem lExt_chainRow {d m sc a b i r} (hl : m.locked = true) (h : chainRowToManaged d m sc a b i = .ok r) :
    LExt m r.1 ∧ Clr (r.1.heap r.2) := by
  unfold chainRowToManaged at h
  split at h
  · cases h
  · rename_i m1 hl1
    have h1 := lExt_loadAcct hl hl1
    have hl' : m1.locked = true := by rw [h1.locked]; exact hl
    split at h
    · cases h
    · cases h
      have hp : ∀ x : Bool, (!m1.locked && !m1.watchOnly && x) = false := by simp [hl']
      rw [hp]
      exact ⟨h1.trans (lExt_ktm ..).1, (lExt_ktm ..).2⟩

theorem lExt_allocCache (m : Mem) (sc : Nat) (k : AKey) (o : Obj) (ho : Clr o) :
    LExt m ((m.alloc o).1.updScope sc fun s => { s with addrs := aset s.addrs k (m.alloc o).2 }) :=
  (lExt_alloc m o ho).1.trans (lExt_addAddr _ _ _ _ (lExt_alloc m o ho).2)

theorem lExt_loadAndCache {d m sc k r} (hl : m.locked = true) (h : loadAndCache d m sc k = .ok r) : LExt m r.1 := by
  unfold loadAndCache at h
  split at h
  · cases h
  · dsimp only at h
    split at h
    · split at h
      · cases h
      · rename_i r' hc; cases h
        have h1 := lExt_chainRow hl hc
        exact h1.1.trans (lExt_addAddr _ _ _ _ h1.2)
    · cases h
    · cases h; exact lExt_allocCache _ _ _ _ (clr_of_ct rfl)
    · cases h; exact lExt_allocCache _ _ _ _ (clr_of_ct rfl)
    · cases h; exact lExt_allocCache _ _ _ _ (clr_of_ct rfl)

theorem lExt_addressOf {d m sc k r} (hl : m.locked = true) (h : addressOf d m sc k = .ok r) : LExt m r.1 := by
  unfold addressOf at h
  split at h
  · cases h; exact LExt.refl _
  · exact lExt_loadAndCache hl h

/-! ### nextAddresses / extendAddresses / the OnCommit closure -/

theorem lExt_mkAddrs (m : Mem) (a b : Nat) (start n : Nat) :
    LExt m (mkAddrs m a b false start n).1 ∧
    ∀ e ∈ (mkAddrs m a b false start n).2, Clr ((mkAddrs m a b false start n).1.heap e.obj) := by
  induction n generalizing m start with
  | zero => exact ⟨LExt.refl _, fun e he => by simp [mkAddrs] at he⟩
  | succ n ih =>
    simp only [mkAddrs]
    have h1 := lExt_alloc m { key := .chain a b start, kind := .managed, hasEnc := false, ct := false, acct := a }
      (clr_of_ct rfl)
    have h2 := ih (m.alloc { key := .chain a b start, kind := .managed, hasEnc := false, ct := false, acct := a }).1
      (start + 1)
    refine ⟨h1.1.trans h2.1, fun e he => ?_⟩
    simp only [List.mem_cons] at he
    rcases he with he | he
    · subst he; exact (h2.1.heap _).1 h1.2
    · exact h2.2 e he

theorem lExt_putAndLoad (sc : Nat) (es : List Dou) (d : Disk) (m : Mem) (hl : m.locked = true) :
    LExt m (putAndLoad sc es d m).2.1 := by
  induction es generalizing d m with
  | nil => exact LExt.refl _
  | cons e es ih =>
    simp only [putAndLoad]
    split
    · exact LExt.refl _
    · split
      · exact LExt.refl _
      · rename_i r hr
        have h1 := lExt_loadAndCache hl hr
        exact h1.trans (ih _ _ (by rw [h1.locked]; exact hl))

theorem lExt_nextAddresses (d : Disk) (m : Mem) (sc a n : Nat) (int : Bool) (hl : m.locked = true) :
    LExt m (nextAddresses d m sc a n int).mem := by
  unfold nextAddresses
  split
  · exact LExt.refl _
  · rename_i m1 hl1
    have h1 := lExt_loadAcct hl hl1
    have hl' : m1.locked = true := by rw [h1.locked]; exact hl
    split
    · exact h1
    · rename_i info _
      dsimp only
      have hp : ∀ x : Bool, (!m1.locked && x) = false := by simp [hl']
      simp only [hp]
      split
      · exact h1
      · split
        · exact h1
        · have hm := (lExt_mkAddrs m1 a (brOf int) (nextOf info int) n).1
          have key := lExt_putAndLoad sc (mkAddrs m1 a (brOf int) false (nextOf info int) n).2 d
            (mkAddrs m1 a (brOf int) false (nextOf info int) n).1 (by rw [hm.locked]; exact hl')
          split
          · rename_i hq; rw [hq] at key; simp only at key; exact h1.trans (hm.trans key)
          · rename_i hq; rw [hq] at key; simp only at key; exact h1.trans (hm.trans key)

theorem lExt_cacheNew (sc : Nat) (w : Bool) (m : Mem) (e : Dou) (hc : Clr (m.heap e.obj)) :
    LExt m (cacheNew sc w m e) := by
  unfold cacheNew
  exact lExt_updScope m sc _ fun _ h =>
    ⟨h.acct, fun p hp => by
      rcases mem_aset hp with h1 | h1
      · rw [h1]; exact hc
      · exact h.addrs p h1, h.pkc⟩

theorem lExt_foldl_cacheNew (sc : Nat) (w : Bool) (es : List Dou) (m : Mem) (hes : ∀ e ∈ es, Clr (m.heap e.obj)) :
    LExt m (es.foldl (cacheNew sc w) m) := by
  induction es generalizing m with
  | nil => exact LExt.refl _
  | cons e es ih =>
    simp only [List.foldl]
    have h1 := lExt_cacheNew sc w m e (hes e List.mem_cons_self)
    exact h1.trans (ih _ (fun e' he' => (h1.heap _).1 (hes e' (List.mem_cons_of_mem _ he'))))

theorem infoClr_setNext {h : Nat → Obj} {ai : AcctInfo} (hi : InfoClr h ai) (int : Bool) (idx obj : Nat)
    (ho : Clr (h obj)) : InfoClr h (setNext ai int idx obj) := by
  unfold setNext
  split
  · exact ⟨hi.1, hi.2.1, ho.m⟩
  · exact ⟨hi.1, ho.m, hi.2.2⟩

theorem lExt_setNext (m : Mem) (sc a : Nat) (ai : AcctInfo) (hai : acctInfoOf m sc a = some ai) (int : Bool) (idx obj : Nat)
    (ho : Clr (m.heap obj)) :
    LExt m (m.updScope sc fun s => { s with acctInfo := aset s.acctInfo a (setNext ai int idx obj) }) :=
  lExt_setInfo m sc a _ fun _ h => infoClr_setNext (h.acct (a, ai) (aget_of_mem_some hai)) int idx obj ho

/-- the OnCommit closure of `nextAddresses` on a locked manager, with the F13 fix -/
theorem lExt_runPend (cfg : Cfg) (hf13 : cfg.f13 = true) (m : Mem) (p : Pend) (hl : m.locked = true)
    (hk : PendKind m p) : LExt m (runPend cfg m p) := by
  unfold runPend
  dsimp only
  rw [if_pos (show (cfg.f13 && m.locked) = true by simp [hf13, hl])]
  generalize hm0 : ({ m with heap := fun id => if (p.infos.any (fun e => e.obj == id) && (m.heap id).kind == OKind.managed) = true then { m.heap id with ct := false } else m.heap id } : Mem) = m0
  have h0 : LExt m m0 := by
    subst hm0
    refine lExt_heapMap rfl rfl fun i => ?_
    dsimp only
    split
    · exact ⟨fun _ => clr_of_ct rfl, fun _ => (clr_of_ct rfl).m⟩
    · exact ⟨id, id⟩
  have hc0 : ∀ e ∈ p.infos, Clr (m0.heap e.obj) := by
    intro e he
    subst hm0
    have hany : p.infos.any (fun e' => e'.obj == e.obj) = true := List.any_eq_true.mpr ⟨e, he, by simp⟩
    simp only [hany, (hk e he).2, beq_self_eq_true, Bool.and_self, if_true]
    exact clr_of_ct rfl
  have h1 := lExt_foldl_cacheNew p.scope p.watchOnly p.infos m0 hc0
  split
  · rename_i last ai hlast hai
    have hmem : last ∈ p.infos := List.mem_of_getLast? hlast
    exact h0.trans (h1.trans (lExt_setNext _ _ _ _ hai _ _ _ ((h1.heap _).1 (hc0 last hmem))))
  · exact h0.trans h1

theorem lExt_extend (cfg : Cfg) (d : Disk) (m : Mem) (sc a li : Nat) (int : Bool) (hl : m.locked = true) :
    LExt m (extendAddresses cfg d m sc a li int).2.1 := by
  unfold extendAddresses
  split
  · exact LExt.refl _
  · rename_i m1 hl1
    have h1 := lExt_loadAcct hl hl1
    have hl' : m1.locked = true := by rw [h1.locked]; exact hl
    split
    · exact h1
    · rename_i info hinfo
      dsimp only
      have hp : ∀ x : Bool, (!m1.locked && x) = false := by simp [hl']
      simp only [hp]
      split
      · exact h1
      · split
        · exact h1
        · split
          · exact h1
          · have hm := lExt_mkAddrs m1 a (brOf int) (nextOf info int) (li + 1 - nextOf info int)
            have hf := lExt_foldl_cacheNew sc (extWatch cfg m1 info) _ _ hm.2
            split
            · exact h1.trans hm.1
            · split
              · exact h1.trans (hm.1.trans hf)
              · rename_i last hlast
                have hmem := List.mem_of_getLast? hlast
                have hai : acctInfoOf (List.foldl (cacheNew sc (extWatch cfg m1 info))
                    (mkAddrs m1 a (brOf int) false (nextOf info int) (li + 1 - nextOf info int)).1
                    (mkAddrs m1 a (brOf int) false (nextOf info int) (li + 1 - nextOf info int)).2) sc a = some info := by
                  unfold acctInfoOf
                  rw [foldl_cacheNew_acctInfo, mkAddrs_scopes]; exact hinfo
                exact h1.trans (hm.1.trans (hf.trans
                  (lExt_setNext _ _ _ _ hai _ _ _ ((hf.heap _).1 (hm.2 last hmem)))))

/-! ### the remaining operations on a locked manager -/

theorem lExt_query (d : Disk) (m : Mem) (q : Query) (hl : m.locked = true) : LExt m (query d m q).1 := by
  cases q <;> simp only [query]
  · split
    · exact LExt.refl _
    · rename_i r hr; exact lExt_addressOf hl hr
  · split
    · exact LExt.refl _
    · split
      · exact LExt.refl _
      · rename_i m1 hl1; split <;> exact lExt_loadAcct hl hl1
  · split
    · exact LExt.refl _
    · rename_i m1 hl1; split
      · exact lExt_loadAcct hl hl1
      · split <;> exact lExt_loadAcct hl hl1
  · split <;> exact LExt.refl _
  · split <;> exact LExt.refl _
  · split
    · exact LExt.refl _
    · rename_i r hr; exact lExt_addressOf hl hr
  · exact LExt.refl _
  · split <;> exact LExt.refl _

/-- PrivKey on a locked manager changes nothing -/
theorem privKeyObj_locked (m : Mem) (id : Nat) (hl : m.locked = true) : (privKeyObj m id).1 = m := by
  unfold privKeyObj; dsimp only
  split
  · rfl
  · split
    · rfl
    · rfl

theorem lExt_scriptObj (m : Mem) (id : Nat) (hl : m.locked = true) : LExt m (scriptObj m id).1 := by
  unfold scriptObj
  dsimp only
  have hgo : ∀ k : OKind, (m.heap id).kind = k → k ≠ .managed → k ≠ .script →
      LExt m (m.setObj id fun o => { o with ct := true }) := by
    intro k hk h1 h2
    refine lExt_heapMap rfl rfl fun i => ?_
    simp only [Mem.setObj]
    split
    · rename_i hi
      subst hi
      refine ⟨fun _ hc => ?_, fun _ hc => ?_⟩
      · dsimp only at hc; rw [hk] at hc; rcases hc with hc | hc
        · exact absurd hc h1
        · exact absurd hc h2
      · dsimp only at hc; rw [hk] at hc; exact absurd hc h1
    · exact ⟨fun h => h, fun h => h⟩
  split
  · exact LExt.refl _
  · simp only [Bool.true_and, hl, if_true]; split <;> exact LExt.refl _
  · rename_i sec hk
    cases sec
    · simp only [Bool.false_and, Bool.false_eq_true, if_false]
      repeat' split
      all_goals first | exact LExt.refl _ | exact hgo _ hk (by simp) (by simp)
    · simp only [Bool.true_and, hl, if_true]; split <;> exact LExt.refl _
  · rename_i sec hk
    cases sec
    · simp only [Bool.false_and, Bool.false_eq_true, if_false]
      repeat' split
      all_goals first | exact LExt.refl _ | exact hgo _ hk (by simp) (by simp)
    · simp only [Bool.true_and, hl, if_true]; split <;> exact LExt.refl _

theorem deriveCache_locked (cfg : Cfg) (hf1 : cfg.f1 = true) (m : Mem) (sc : Nat) (p : Path) (hl : m.locked = true) :
    (deriveCache cfg m sc p).1 = m := by
  unfold deriveCache
  simp only [hf1, hl, Bool.and_self, Bool.true_and, if_true]
  split <;> rfl

theorem lExt_derivePath (d : Disk) (m : Mem) (sc a b i : Nat) (hl : m.locked = true) :
    LExt m (derivePath d m sc a b i).1 := by
  unfold derivePath; split
  · exact LExt.refl _
  · rename_i r hr
    have h1 := (lExt_chainRow hl hr).1
    rw [privKeyObj_locked _ _ (by rw [h1.locked]; exact hl)]; exact h1

theorem lExt_importKey (d : Disk) (m : Mem) (sc k : Nat) (p : Bool) (hl : m.locked = true) :
    LExt m (importKey d m sc k p).2.1 := by
  unfold importKey
  dsimp only
  split
  · exact LExt.refl _
  · rename_i h1
    split
    · exact LExt.refl _
    · have hw : (p && !m.watchOnly) = false := by
        cases hp : p <;> cases hwo : m.watchOnly <;> simp_all
      rw [hw]
      exact lExt_allocCache _ _ _ _ (clr_of_ct rfl)

theorem lExt_importScript (d : Disk) (m : Mem) (sc kind sid : Nat) (p : Bool) (hl : m.locked = true) :
    LExt m (importScript d m sc kind sid p).2.1 := by
  unfold importScript
  dsimp only
  by_cases hk : kind = 0
  · simp only [hk, if_true, Bool.true_and, hl]; exact LExt.refl _
  · simp only [hk, if_false]
    cases p
    · simp only [Bool.false_and, Bool.false_eq_true, if_false]
      split
      · exact LExt.refl _
      · refine lExt_allocCache _ _ _ _ ?_
        intro hc
        dsimp only at hc
        split at hc <;> simp at hc
    · simp only [Bool.true_and, hl, if_true]; exact LExt.refl _

theorem lExt_rename (d : Disk) (m : Mem) (sc a : Nat) (n : String) : LExt m (renameAccount d m sc a n).2.1 := by
  unfold renameAccount; dsimp only; repeat' split
  all_goals first | exact LExt.refl _ | skip
  rename_i ai hai
  exact lExt_setInfo _ _ _ _ fun _ h => h.acct (a, ai) (aget_of_mem_some hai)

theorem mem_adel {α β} [DecidableEq α] {l : List (α × β)} {k : α} {x : α × β} (h : x ∈ adel l k) : x ∈ l := by
  induction l with
  | nil => simp [adel] at h
  | cons p t ih =>
    obtain ⟨k', v'⟩ := p
    by_cases hk : k' = k
    · simp [adel, hk] at h; exact List.mem_cons_of_mem _ (ih h)
    · simp [adel, hk] at h
      rcases h with h | h
      · rw [h]; exact List.mem_cons_self
      · exact List.mem_cons_of_mem _ (ih h)

theorem lExt_markUsed (d : Disk) (m : Mem) (sc : Nat) (k : AKey) : LExt m (markUsed d m sc k).2 := by
  unfold markUsed; dsimp only
  exact lExt_updScope m sc _ fun _ h => ⟨h.acct, fun p hp => h.addrs p (mem_adel hp), h.pkc⟩

theorem lExt_setSynced (d : Disk) (m : Mem) (h x : Nat) : LExt m (setSyncedTo d m h x).2.1 := by
  unfold setSyncedTo; split
  · exact LExt.refl _
  · exact lExt_same rfl rfl rfl

end AddrLock
