/-
`Good d m`: coherence of the caches with the database plus the well-formedness facts needed to carry it through
operations (heap ids in range, shape of address rows, watch-only flag in sync, private keys present).
Preservation lemmas for the cache-filling primitives.
-/
import BtcwVerif.Lemmas.AddrCoherent
namespace AddrLock

def AKey.isChain : AKey → Bool
  | .chain .. => true
  | _ => false

structure Good (d : Disk) (m : Mem) : Prop where
  coh    : Coherent d m
  hAddrs : ∀ sc k id, aget (m.scopes sc).addrs k = some id → id < m.heapN
  hLast  : ∀ sc a ai, aget (m.scopes sc).acctInfo a = some ai → ai.lastExt < m.heapN ∧ ai.lastInt < m.heapN
  wo     : m.watchOnly = d.watchOnly
  dpriv  : d.watchOnly = false → ∀ sc a row, acctAns d sc a = .ok row → row.wo = false → row.hasPriv = true
  shape  : ∀ sc k row, aget (d.scopes sc).addrs k = some row → (k.isChain = true ↔ row = .chain)

theorem privOK_of {d : Disk} {m : Mem} (hwo : m.watchOnly = d.watchOnly)
    (hd : d.watchOnly = false → ∀ sc a row, acctAns d sc a = .ok row → row.wo = false → row.hasPriv = true) :
    PrivOK d m := by
  by_cases h : m.watchOnly = true
  · exact Or.inr (Or.inl h)
  · exact Or.inr (Or.inr (hd (by rw [← hwo]; simpa using h)))

/-- a memory that only differs from `m` by things the queries do not look at, plus fresh heap objects -/
structure Ext (m m' : Mem) : Prop where
  heapN  : m.heapN ≤ m'.heapN
  heap   : ∀ id, id < m.heapN → (m'.heap id).key = (m.heap id).key ∧ (m'.heap id).acct = (m.heap id).acct
  synced : m'.syncedTo = m.syncedTo
  wo     : m'.watchOnly = m.watchOnly

theorem Ext.refl (m : Mem) : Ext m m := ⟨Nat.le_refl _, fun _ _ => ⟨rfl, rfl⟩, rfl, rfl⟩

theorem Ext.trans {a b c : Mem} (h1 : Ext a b) (h2 : Ext b c) : Ext a c :=
  ⟨Nat.le_trans h1.heapN h2.heapN,
   fun id hid => by
     have := h2.heap id (Nat.lt_of_lt_of_le hid h1.heapN)
     have := h1.heap id hid
     constructor <;> simp_all,
   by rw [h2.synced, h1.synced], by rw [h2.wo, h1.wo]⟩

theorem infoOK_ext {m m' : Mem} (he : Ext m m') {a : Nat} {ai : AcctInfo} {row : AcctRow}
    (h : InfoOK m a ai row) (h1 : ai.lastExt < m.heapN) (h2 : ai.lastInt < m.heapN) : InfoOK m' a ai row := by
  obtain ⟨k1, k2, k3, k4, k5, k6, k7⟩ := h
  have e1 := he.heap _ h1
  have e2 := he.heap _ h2
  exact ⟨k1, k2, k3, by rw [e1.1, k4], by rw [e1.2, k5], by rw [e2.1, k6], by rw [e2.2, k7]⟩

/-- the part of a cached account info the queries look at -/
def infoView (ai : AcctInfo) : String × Nat × Nat × Nat × Nat := (ai.name, ai.nextExt, ai.nextInt, ai.lastExt, ai.lastInt)

theorem infoOK_view {m : Mem} {a : Nat} {ai ai' : AcctInfo} {row : AcctRow} (hv : infoView ai = infoView ai')
    (h : InfoOK m a ai row) : InfoOK m a ai' row := by
  simp only [infoView, Prod.mk.injEq] at hv
  obtain ⟨v1, v2, v3, v4, v5⟩ := hv
  unfold InfoOK at *
  rw [← v1, ← v2, ← v3, ← v4, ← v5]; exact h

/-- `Good` is kept by any extension whose address cache is a sub-cache of the old one and whose account cache
entries are old entries up to fields the queries do not look at, or new coherent entries. -/
theorem good_ext {d : Disk} {m m' : Mem} (hg : Good d m) (he : Ext m m')
    (haddrs : ∀ sc k id, aget (m'.scopes sc).addrs k = some id → aget (m.scopes sc).addrs k = some id)
    (hacct : ∀ sc a ai, aget (m'.scopes sc).acctInfo a = some ai →
       (∃ ai0, aget (m.scopes sc).acctInfo a = some ai0 ∧ infoView ai0 = infoView ai) ∨
       (∃ row, acctAns d sc a = .ok row ∧ InfoOK m' a ai row ∧ ai.lastExt < m'.heapN ∧ ai.lastInt < m'.heapN)) :
    Good d m' := by
  refine ⟨⟨?_, ?_, ?_, ?_⟩, ?_, ?_, ?_, hg.dpriv, hg.shape⟩
  · intro sc a ai h
    rcases hacct sc a ai h with ⟨ai0, h0, hv⟩ | ⟨row, h1, h2, _⟩
    · obtain ⟨row, hr, hok⟩ := hg.coh.acct sc a ai0 h0
      exact ⟨row, hr, infoOK_view hv (infoOK_ext he hok (hg.hLast sc a ai0 h0).1 (hg.hLast sc a ai0 h0).2)⟩
    · exact ⟨row, h1, h2⟩
  · intro sc k id h
    have h := haddrs sc k id h
    obtain ⟨h1, h2, h3⟩ := hg.coh.addr sc k id h
    have e := he.heap id (hg.hAddrs sc k id h)
    exact ⟨h1, by rw [e.1, h2], by rw [e.2, h3]⟩
  · exact privOK_of (by rw [he.wo, hg.wo]) hg.dpriv
  · rw [he.synced, hg.coh.synced]
  · intro sc k id h
    exact Nat.lt_of_lt_of_le (hg.hAddrs sc k id (haddrs sc k id h)) he.heapN
  · intro sc a ai h
    rcases hacct sc a ai h with ⟨ai0, h0, hv⟩ | ⟨_, _, _, h3, h4⟩
    · simp only [infoView, Prod.mk.injEq] at hv
      obtain ⟨_, _, _, v4, v5⟩ := hv
      rw [← v4, ← v5]
      exact ⟨Nat.lt_of_lt_of_le (hg.hLast sc a ai0 h0).1 he.heapN, Nat.lt_of_lt_of_le (hg.hLast sc a ai0 h0).2 he.heapN⟩
    · exact ⟨h3, h4⟩
  · rw [he.wo, hg.wo]

theorem good_ext_acct {d : Disk} {m m' : Mem} (hg : Good d m) (he : Ext m m')
    (haddrs : ∀ sc, (m'.scopes sc).addrs = (m.scopes sc).addrs)
    (hacct : ∀ sc a ai, aget (m'.scopes sc).acctInfo a = some ai →
       aget (m.scopes sc).acctInfo a = some ai ∨
       (∃ row, acctAns d sc a = .ok row ∧ InfoOK m' a ai row ∧ ai.lastExt < m'.heapN ∧ ai.lastInt < m'.heapN)) :
    Good d m' :=
  good_ext hg he (fun sc k id h => by rw [haddrs] at h; exact h)
    (fun sc a ai h => (hacct sc a ai h).imp (fun h => ⟨ai, h, rfl⟩) id)

/-- what a successful `loadAccountInfo` leaves behind -/
structure LoadFacts (d : Disk) (m m1 : Mem) (sc a : Nat) : Prop where
  ext    : Ext m m1
  addrs  : ∀ sc', (m1.scopes sc').addrs = (m.scopes sc').addrs
  scal   : Scal m1 = Scal m
  cached : ∃ ai row, aget (m1.scopes sc).acctInfo a = some ai ∧ acctAns d sc a = .ok row ∧ InfoOK m1 a ai row
  good   : Good d m1

theorem loadAcct_good {d : Disk} {m m1 : Mem} {sc a : Nat} (hg : Good d m) (hl : loadAcct d m sc a = .ok m1) :
    LoadFacts d m m1 sc a := by
  cases hc : aget (m.scopes sc).acctInfo a with
  | some ai =>
    rw [loadAcct_cached hc] at hl
    cases hl
    obtain ⟨row, hr, hok⟩ := hg.coh.acct sc a ai hc
    exact ⟨Ext.refl m, fun _ => rfl, rfl, ⟨ai, row, hc, hr, hok⟩, hg⟩
  | none =>
    cases hr : acctAns d sc a with
    | error e => rw [loadAcct_uncached_err hc hr] at hl; cases hl
    | ok row =>
      rw [loadAcct_uncached hc hr (privOK_hp hg.coh.priv hr)] at hl
      cases hl
      have hs := loadAcctRow_spec m sc a row
      dsimp only at hs
      obtain ⟨h1, h2, h3, h4, h5, h6, h7, k1, k2, k3, k4⟩ := hs
      have hext : Ext m (loadAcctRow m sc a row) :=
        ⟨by omega, fun id hid => by rw [h4 id hid]; exact ⟨rfl, rfl⟩, h6,
         congrArg (·.2.1) h7⟩
      have hinfo : InfoOK (loadAcctRow m sc a row) a (rowInfo m row) row := ⟨rfl, rfl, rfl, k1, k2, k3, k4⟩
      have hcached : aget ((loadAcctRow m sc a row).scopes sc).acctInfo a = some (rowInfo m row) := by
        rw [h1, aget_aset_self]
      refine ⟨hext, h3, h7, ⟨_, row, hcached, hr, hinfo⟩, ?_⟩
      apply good_ext_acct hg hext h3
      intro sc' a' ai' h
      by_cases hsc : sc' = sc
      · subst hsc
        rw [h1, aget_aset] at h
        by_cases ha : a' = a
        · subst ha
          simp only [if_true] at h
          cases h
          exact Or.inr ⟨row, hr, hinfo, by simp only [rowInfo]; omega, by simp only [rowInfo]; omega⟩
        · simp only [ha, if_false] at h; exact Or.inl h
      · rw [h2 sc' hsc] at h; exact Or.inl h

/-! ### allocation and cache insertion -/

theorem ext_alloc (m : Mem) (o : Obj) : Ext m (m.alloc o).1 :=
  ⟨Nat.le_succ _, fun id hid => by
     have : id ≠ m.heapN := Nat.ne_of_lt hid
     simp [Mem.alloc, this], rfl, rfl⟩

theorem ext_ktm (m : Mem) (sc a b i : Nat) (p : Bool) : Ext m (keyToManaged m sc a b i p).1 :=
  ⟨by rw [ktm_heapN]; omega, fun id hid => by
     have : id ≠ m.heapN := Nat.ne_of_lt hid
     simp [ktm_heap, this], ktm_synced .., congrArg (·.2.1) (scal_keyToManaged ..)⟩

theorem ext_updScope (m : Mem) (sc : Nat) (f : ScopeMem → ScopeMem) : Ext m (m.updScope sc f) :=
  ⟨Nat.le_refl _, fun _ _ => ⟨rfl, rfl⟩, rfl, rfl⟩

theorem good_alloc {d : Disk} {m : Mem} (hg : Good d m) (o : Obj) : Good d (m.alloc o).1 :=
  good_ext_acct hg (ext_alloc m o) (fun _ => rfl) (fun _ _ _ h => Or.inl h)

theorem good_ktm {d : Disk} {m : Mem} (hg : Good d m) (sc a b i : Nat) (p : Bool) :
    Good d (keyToManaged m sc a b i p).1 :=
  good_ext_acct hg (ext_ktm ..) (fun sc' => ktm_addrs ..) (fun sc' a' ai h => Or.inl (by rw [ktm_acctInfo] at h; exact h))

/-- inserting a coherent address object into the address cache -/
theorem good_addAddr {d : Disk} {m : Mem} (hg : Good d m) (sc : Nat) (k : AKey) (id : Nat) (hid : id < m.heapN)
    (hk : (m.heap id).key = k) (ha : (m.heap id).acct = keyAcct k) (hans : addrAns d sc k = .addr k (keyAcct k)) :
    Good d (m.updScope sc fun s => { s with addrs := aset s.addrs k id }) := by
  have hai : ∀ sc', ((m.updScope sc fun s => { s with addrs := aset s.addrs k id }).scopes sc').acctInfo =
      (m.scopes sc').acctInfo := by
    intro sc'; simp only [Mem.updScope]; split <;> rfl
  have hcase : ∀ sc' k' id', aget ((m.updScope sc fun s => { s with addrs := aset s.addrs k id }).scopes sc').addrs k' = some id' →
      (sc' = sc ∧ k' = k ∧ id' = id) ∨ aget (m.scopes sc').addrs k' = some id' := by
    intro sc' k' id' h
    simp only [Mem.updScope] at h
    by_cases hsc : sc' = sc
    · subst hsc
      simp only [if_true] at h
      rw [aget_aset] at h
      by_cases hkk : k' = k
      · simp only [hkk, if_true] at h; cases h; exact Or.inl ⟨rfl, hkk, rfl⟩
      · simp only [hkk, if_false] at h; exact Or.inr h
    · simp only [hsc, if_false] at h; exact Or.inr h
  refine ⟨⟨?_, ?_, hg.coh.priv, hg.coh.synced⟩, ?_, ?_, hg.wo, hg.dpriv, hg.shape⟩
  · intro sc' a ai h; rw [hai] at h; exact hg.coh.acct sc' a ai h
  · intro sc' k' id' h
    rcases hcase sc' k' id' h with ⟨rfl, rfl, rfl⟩ | h
    · exact ⟨hans, hk, ha⟩
    · exact hg.coh.addr sc' k' id' h
  · intro sc' k' id' h
    rcases hcase sc' k' id' h with ⟨rfl, rfl, rfl⟩ | h
    · exact hid
    · exact hg.hAddrs sc' k' id' h
  · intro sc' a ai h; rw [hai] at h; exact hg.hLast sc' a ai h

/-- what a successful `loadAndCacheAddress` leaves behind -/
structure CacheFacts (d : Disk) (m : Mem) (r : Mem × Nat) (sc : Nat) (k : AKey) : Prop where
  ext   : Ext m r.1
  scal  : Scal r.1 = Scal m
  good  : Good d r.1
  idlt  : r.2 < r.1.heapN
  key   : (r.1.heap r.2).key = k
  acct  : (r.1.heap r.2).acct = keyAcct k
  ans   : addrAns d sc k = .addr k (keyAcct k)

theorem loadAndCache_good {d : Disk} {m : Mem} {sc : Nat} {k : AKey} {r : Mem × Nat} (hg : Good d m)
    (hl : loadAndCache d m sc k = .ok r) : CacheFacts d m r sc k := by
  unfold loadAndCache at hl
  cases hrow : aget (d.scopes sc).addrs k with
  | none => simp [hrow] at hl
  | some row =>
    simp only [hrow] at hl
    have hshape := hg.shape sc k row hrow
    -- common tail: allocate object `o` for a non-chain row
    have tail : ∀ (o : Obj), o.key = k → o.acct = IMPORTED → row ≠ .chain →
        r = ((m.alloc o).1.updScope sc (fun s => { s with addrs := aset s.addrs k (m.alloc o).2 }), (m.alloc o).2) →
        CacheFacts d m r sc k := by
      intro o hok hoa hne hr
      have hnc : k.isChain = false := by
        cases hck : k.isChain with
        | false => rfl
        | true => exact absurd (hshape.mp hck) hne
      have hka : keyAcct k = IMPORTED := by cases k <;> simp_all [AKey.isChain, keyAcct]
      have hans : addrAns d sc k = .addr k (keyAcct k) := by
        unfold addrAns; rw [hrow, hka]
        cases row <;> cases k <;> simp_all [AKey.isChain]
      have hga := good_alloc hg o
      have hobj : (m.alloc o).1.heap (m.alloc o).2 = o := by simp [Mem.alloc]
      subst hr
      have e1 : Ext m ((m.alloc o).1.updScope sc (fun s => { s with addrs := aset s.addrs k (m.alloc o).2 })) :=
        (ext_alloc m o).trans (ext_updScope _ _ _)
      have g1 := good_addAddr hga sc k (m.alloc o).2 (by simp [Mem.alloc]) (by rw [hobj, hok])
        (by rw [hobj, hoa, hka]) hans
      exact ⟨e1, rfl, g1, by simp [Mem.updScope, Mem.alloc],
        by show ((m.alloc o).1.heap (m.alloc o).2).key = k; rw [hobj, hok],
        by show ((m.alloc o).1.heap (m.alloc o).2).acct = keyAcct k; rw [hobj, hoa, hka], hans⟩
    cases row with
    | chain =>
      cases k with
      | chain a b i =>
        simp only at hl
        cases hcr : chainRowToManaged d m sc a b i with
        | error e => simp [hcr] at hl
        | ok r' =>
          simp only [hcr] at hl
          cases hl
          unfold chainRowToManaged at hcr
          cases hla : loadAcct d m sc a with
          | error e => simp [hla] at hcr
          | ok m1 =>
            simp only [hla] at hcr
            have hf := loadAcct_good hg hla
            obtain ⟨ai, row, hcached, hrok, _⟩ := hf.cached
            have hai : acctInfoOf m1 sc a = some ai := hcached
            simp only [hai] at hcr
            cases hcr
            have hans : addrAns d sc (.chain a b i) = .addr (.chain a b i) (keyAcct (.chain a b i)) := by
              unfold addrAns; rw [hrow]; simp only [hrok, keyAcct]
            have hgk := good_ktm hf.good sc a b i (!m1.locked && !m1.watchOnly && ai.keyPriv)
            have hobj := ktm_heap m1 sc a b i (!m1.locked && !m1.watchOnly && ai.keyPriv) m1.heapN
            simp only [if_true] at hobj
            generalize hpv : (!m1.locked && !m1.watchOnly && ai.keyPriv) = pv at hgk hobj
            have e1 : Ext m ((keyToManaged m1 sc a b i pv).1.updScope sc
                (fun s => { s with addrs := aset s.addrs (.chain a b i) (keyToManaged m1 sc a b i pv).2 })) :=
              (hf.ext.trans (ext_ktm m1 sc a b i pv)).trans (ext_updScope _ _ _)
            have g1 := good_addAddr hgk sc (.chain a b i) (keyToManaged m1 sc a b i pv).2
              (by rw [ktm_snd, ktm_heapN]; omega) (by rw [ktm_snd, hobj]) (by rw [ktm_snd, hobj]; rfl) hans
            exact ⟨e1, by rw [scal_updScope, scal_keyToManaged, hf.scal], g1,
              by simp only [Mem.updScope, ktm_snd, ktm_heapN]; omega,
              by simp only [Mem.updScope, ktm_snd, hobj],
              by simp only [Mem.updScope, ktm_snd, hobj, keyAcct], hans⟩
      | imp k' => simp at hl
      | scr k1 k2 => simp at hl
    | imp hp =>
      exact tail { key := k, kind := .managed, hasEnc := hp, ct := false, acct := IMPORTED } rfl rfl (by simp)
        (by cases k <;> simp at hl <;> exact hl.symm)
    | script hs =>
      exact tail { key := k, kind := .script, hasEnc := hs, ct := false, acct := IMPORTED } rfl rfl (by simp)
        (by cases k <;> simp at hl <;> exact hl.symm)
    | wscript t s' h' =>
      exact tail { key := k, kind := if t then .tscript s' else .wscript s', hasEnc := h', ct := false, acct := IMPORTED }
        rfl rfl (by simp) (by cases k <;> simp at hl <;> exact hl.symm)

theorem addressOf_good {d : Disk} {m : Mem} {sc : Nat} {k : AKey} {r : Mem × Nat} (hg : Good d m)
    (hl : addressOf d m sc k = .ok r) : CacheFacts d m r sc k := by
  unfold addressOf at hl
  cases hc : aget (m.scopes sc).addrs k with
  | some id =>
    simp only [hc] at hl; cases hl
    obtain ⟨h1, h2, h3⟩ := hg.coh.addr sc k id hc
    exact ⟨Ext.refl m, rfl, hg, hg.hAddrs sc k id hc, h2, h3, h1⟩
  | none => simp only [hc] at hl; exact loadAndCache_good hg hl

end AddrLock
