import BtcwVerif.Lemmas.Balance
/-!
# `WF` — the lookup-level invariant of the mined part of the store, and `WF s → Inv s`

`Inv` (what `Balance` needs) speaks about permutations and sums over a nested enumeration; that is awkward to carry
through updates.  `WF` says the same with lookups and one sum over the credits bucket; every clause is local, so
preservation by the store operations is proved clause by clause (`Lemmas/WFPres*.lean`).  This file is the static
part: from `WF` the enumeration facts of `Inv` follow.
-/
namespace TxStore
open KMap

/-- the credit `k ↦ cv` belongs to a transaction that is listed in the block record of its block and has its record;
its amount is the value of that output -/
def Listed (s : Store) (k : CredKey) (cv : CreditVal) : Prop :=
  ∃ br rec, s.blocks.find? k.block.height = some br ∧ br.hash = k.block.hash ∧ k.hash ∈ br.txs ∧
    s.txrecs.find? k.txKey = some rec ∧ rec.outs[k.index]? = some cv.amount

/-- total of the credits without a mined spender, over the credits bucket -/
def creditSum (m : KMap CredKey CreditVal) : Int := (m.map fun p => if p.2.spent then 0 else p.2.amount).sum

structure WF (s : Store) : Prop where
  nodupCredits : NodupKeys s.credits
  nodupUnspent : NodupKeys s.unspent
  nodupUC : NodupKeys s.unminedCredits
  sorted : (s.blocks.map (·.1)).Pairwise (· < ·)
  txsNodup : ∀ p ∈ s.blocks, p.2.txs.Nodup
  recorded : ∀ p ∈ s.blocks, ∀ tx ∈ p.2.txs, (s.txrecs.find? ⟨tx, ⟨p.1, p.2.hash⟩⟩).isSome
  /-- every transaction record sits under its own hash and is listed in the block record of its block -/
  recListed : ∀ k rec, s.txrecs.find? k = some rec → rec.hash = k.hash ∧
    ∃ br, s.blocks.find? k.block.height = some br ∧ br.hash = k.block.hash ∧ k.hash ∈ br.txs
  /-- a transaction is recorded in at most one block -/
  oneBlock : ∀ k₁ k₂, (s.txrecs.find? k₁).isSome → (s.txrecs.find? k₂).isSome → k₁.hash = k₂.hash → k₁ = k₂
  listed : ∀ k cv, s.credits.find? k = some cv → Listed s k cv
  /-- the unspent index holds exactly the credits without a mined spender -/
  index : ∀ op blk, s.unspent.find? op = some blk ↔
    ∃ cv, s.credits.find? ⟨op.hash, blk, op.index⟩ = some cv ∧ cv.spent = false
  counter : s.minedBalance = creditSum s.credits

theorem nodupKeys_of_sorted {ν : Type} (m : KMap Nat ν) (h : (m.map (·.1)).Pairwise (· < ·)) : NodupKeys m := by
  unfold NodupKeys keys
  exact h.imp (fun hlt => by omega)

/-! ### membership characterisations -/

theorem creditInfo_eq_some_iff (s : Store) (c : CInfo) (k : CredKey) :
    creditInfo s k = some c ↔
      c.key = k ∧ s.credits.find? k = some c.val ∧ ∃ rec, s.txrecs.find? k.txKey = some rec ∧ c.cb = rec.isCoinBase := by
  constructor
  · intro h
    obtain ⟨h1, h2, h3⟩ := creditInfo_some h
    exact ⟨h2, h1, h3⟩
  · rintro ⟨h1, h2, rec, h3, h4⟩
    unfold creditInfo
    rw [h2, h3]
    cases c
    simp_all

/-- `c` is a live credit record without a mined spender -/
def LiveUnspent (s : Store) (c : CInfo) : Prop := creditInfo s c.key = some c ∧ c.val.spent = false

theorem mem_unspentInfos_iff (s : Store) (hw : WF s) (c : CInfo) :
    c ∈ (unspentInfos s).filterMap id ↔ LiveUnspent s c := by
  unfold unspentInfos LiveUnspent
  rw [List.filterMap_map, List.mem_filterMap]
  constructor
  · rintro ⟨⟨op, blk⟩, hm, hc⟩
    simp only [Function.comp, id] at hc
    have hk : c.key = ⟨op.hash, blk, op.index⟩ := (creditInfo_some hc).2.1
    have hf := find?_of_mem _ hw.nodupUnspent hm
    obtain ⟨cv, hcv, hsp⟩ := (hw.index op blk).mp hf
    have : c.val = cv := by
      have := (creditInfo_some hc).1
      rw [hcv] at this; cases this; rfl
    rw [hk]; exact ⟨hc, by rw [this]; exact hsp⟩
  · rintro ⟨hc, hsp⟩
    have hcv := (creditInfo_some hc).1
    have hf : s.unspent.find? c.key.outPoint = some c.key.block :=
      (hw.index c.key.outPoint c.key.block).mpr ⟨c.val, hcv, hsp⟩
    exact ⟨(c.key.outPoint, c.key.block), mem_of_find? _ hf, hc⟩

theorem mem_txCredits_iff (s : Store) (blk : Block) (tx : Nat) (c : CInfo) :
    c ∈ txCredits s blk tx ↔
      ∃ rec i, s.txrecs.find? ⟨tx, blk⟩ = some rec ∧ i < rec.outs.length ∧ creditInfo s ⟨tx, blk, i⟩ = some c := by
  unfold txCredits
  cases hr : s.txrecs.find? ⟨tx, blk⟩ with
  | none => simp
  | some rec =>
    simp only [List.mem_filterMap, List.mem_range]
    constructor
    · rintro ⟨i, hi, hc⟩; exact ⟨rec, i, rfl, hi, hc⟩
    · rintro ⟨rec', i, hr', hi, hc⟩; cases hr'; exact ⟨i, hi, hc⟩

theorem mem_minedUnspent_iff (s : Store) (hw : WF s) (c : CInfo) : c ∈ minedUnspent s ↔ LiveUnspent s c := by
  unfold minedUnspent minedCredits blockCredits LiveUnspent
  rw [List.mem_filter, List.mem_flatMap]
  constructor
  · rintro ⟨⟨p, _, hc⟩, hsp⟩
    rw [List.mem_flatMap] at hc
    obtain ⟨tx, _, hc⟩ := hc
    obtain ⟨rec, i, _, _, hci⟩ := (mem_txCredits_iff s _ tx c).mp hc
    have hk := (creditInfo_some hci).2.1
    rw [hk]; exact ⟨hci, by simpa using hsp⟩
  · rintro ⟨hc, hsp⟩
    have hcv := (creditInfo_some hc).1
    obtain ⟨br, rec, hb, hbh, htx, hrec, hout⟩ := hw.listed _ _ hcv
    refine ⟨⟨(c.key.block.height, br), mem_of_find? _ hb, ?_⟩, by simp [hsp]⟩
    rw [List.mem_flatMap]
    refine ⟨c.key.hash, htx, ?_⟩
    have hblk : (⟨c.key.block.height, br.hash⟩ : Block) = c.key.block := by rw [hbh]
    simp only [hblk]
    refine (mem_txCredits_iff s _ _ c).mpr ⟨rec, c.key.index, hrec, ?_, hc⟩
    have := List.getElem?_eq_some_iff.mp hout
    exact this.1

/-! ### no duplicates -/

theorem nodup_unspentInfos (s : Store) (hw : WF s) : ((unspentInfos s).filterMap id).Nodup := by
  unfold unspentInfos
  rw [List.filterMap_map]
  have hk : (s.unspent.map (·.1)).Nodup := hw.nodupUnspent
  rw [List.Nodup, List.pairwise_map] at hk
  rw [List.Nodup, List.pairwise_filterMap]
  refine hk.imp ?_
  intro a b hab c hc d hd hcd
  simp only [Function.comp, id] at hc hd
  have k1 := (creditInfo_some hc).2.1
  have k2 := (creditInfo_some hd).2.1
  rw [hcd, k2] at k1
  apply hab
  have h1 : a.1.hash = b.1.hash := by injection k1 with h _ _; exact h.symm
  have h3 : a.1.index = b.1.index := by injection k1 with _ _ h; exact h.symm
  cases a with | mk ao ab => cases b with | mk bo bb =>
  cases ao; cases bo; simp_all

theorem txCredits_key {s : Store} {blk : Block} {tx : Nat} {c : CInfo} (h : c ∈ txCredits s blk tx) :
    c.key.hash = tx ∧ c.key.block = blk := by
  obtain ⟨rec, i, _, _, hc⟩ := (mem_txCredits_iff s blk tx c).mp h
  have := (creditInfo_some hc).2.1
  rw [this]; exact ⟨rfl, rfl⟩

theorem nodup_txCredits (s : Store) (blk : Block) (tx : Nat) : (txCredits s blk tx).Nodup := by
  unfold txCredits
  cases s.txrecs.find? ⟨tx, blk⟩ with
  | none => exact List.nodup_nil
  | some rec =>
    simp only
    rw [List.Nodup, List.pairwise_filterMap]
    have := @List.nodup_range rec.outs.length
    refine this.imp ?_
    intro a b hab c hc d hd hcd
    have k1 := (creditInfo_some hc).2.1
    have k2 := (creditInfo_some hd).2.1
    rw [hcd, k2] at k1
    apply hab
    injection k1 with _ _ h; exact h.symm

theorem nodup_minedUnspent (s : Store) (hw : WF s) : (minedUnspent s).Nodup := by
  unfold minedUnspent
  apply List.Nodup.sublist List.filter_sublist
  unfold minedCredits
  rw [List.Nodup, List.pairwise_flatMap]
  constructor
  · intro p hp
    unfold blockCredits
    rw [List.pairwise_flatMap]
    constructor
    · intro tx _; exact nodup_txCredits s _ tx
    · have := hw.txsNodup p hp
      refine this.imp ?_
      intro a b hab c hc d hd hcd
      apply hab
      rw [← (txCredits_key hc).1, ← (txCredits_key hd).1, hcd]
  · have hs := hw.sorted
    rw [List.pairwise_map] at hs
    refine hs.imp ?_
    intro a b hab c hc d hd hcd
    unfold blockCredits at hc hd
    rw [List.mem_flatMap] at hc hd
    obtain ⟨t1, _, h1⟩ := hc
    obtain ⟨t2, _, h2⟩ := hd
    have e1 := (txCredits_key h1).2
    have e2 := (txCredits_key h2).2
    rw [hcd] at e1
    rw [e1] at e2
    have : a.1 = b.1 := by injection e2
    omega

/-! ### the counter -/

theorem sum_filterMap_eq {α β : Type} (g : α → Int) (F : α → Option β) (a : β → Int) (m : List α)
    (h : ∀ p ∈ m, g p = match F p with | some c => a c | none => 0) :
    (m.map g).sum = ((m.filterMap F).map a).sum := by
  induction m with
  | nil => rfl
  | cons p t ih =>
    have hp := h p List.mem_cons_self
    have ht := ih (fun q hq => h q (List.mem_cons_of_mem _ hq))
    simp only [List.map_cons, List.sum_cons, List.filterMap_cons]
    cases hF : F p with
    | none => rw [hF] at hp; simp only at hp; rw [hp, ht]; simp
    | some c => rw [hF] at hp; simp only at hp; rw [hp, ht]; simp

/-- the credits without a mined spender, enumerated from the credits bucket -/
def liveFromCredits (s : Store) : List CInfo :=
  s.credits.filterMap fun p => if p.2.spent then none else creditInfo s p.1

theorem mem_liveFromCredits_iff (s : Store) (hw : WF s) (c : CInfo) : c ∈ liveFromCredits s ↔ LiveUnspent s c := by
  unfold liveFromCredits LiveUnspent
  rw [List.mem_filterMap]
  constructor
  · rintro ⟨⟨k, cv⟩, hm, hc⟩
    simp only at hc
    split at hc
    · cases hc
    · rename_i hsp
      have hk := (creditInfo_some hc).2.1
      have hf := find?_of_mem _ hw.nodupCredits hm
      have : c.val = cv := by
        have := (creditInfo_some hc).1
        rw [hf] at this; cases this; rfl
      rw [hk]; exact ⟨hc, by rw [this]; simpa using hsp⟩
  · rintro ⟨hc, hsp⟩
    have hcv := (creditInfo_some hc).1
    exact ⟨(c.key, c.val), mem_of_find? _ hcv, by simp [hsp, hc]⟩

theorem nodup_liveFromCredits (s : Store) (hw : WF s) : (liveFromCredits s).Nodup := by
  unfold liveFromCredits
  have hk : (s.credits.map (·.1)).Nodup := hw.nodupCredits
  rw [List.Nodup, List.pairwise_map] at hk
  rw [List.Nodup, List.pairwise_filterMap]
  refine hk.imp ?_
  intro a b hab c hc d hd hcd
  split at hc
  · cases hc
  · split at hd
    · cases hd
    · have k1 := (creditInfo_some hc).2.1
      have k2 := (creditInfo_some hd).2.1
      apply hab
      rw [← k1, ← k2, hcd]

theorem creditSum_eq (s : Store) (hw : WF s) : creditSum s.credits = sumAmounts (liveFromCredits s) := by
  unfold creditSum sumAmounts liveFromCredits
  apply sum_filterMap_eq
  intro p hp
  obtain ⟨k, cv⟩ := p
  simp only
  by_cases hsp : cv.spent = true
  · simp [hsp]
  · have hsp' : cv.spent = false := by simpa using hsp
    simp only [hsp', Bool.false_eq_true, if_false]
    have hf := find?_of_mem _ hw.nodupCredits hp
    obtain ⟨br, rec, _, _, _, hrec, _⟩ := hw.listed k cv hf
    have : creditInfo s k = some ⟨k, cv, rec.isCoinBase⟩ := by
      unfold creditInfo; rw [hf, hrec]
    rw [this]

/-- **the lookup-level invariant implies the enumeration-level one** -/
theorem inv_of_wf (s : Store) (hw : WF s) : Inv s := by
  have hperm1 : ((unspentInfos s).filterMap id).Perm (minedUnspent s) :=
    (List.perm_ext_iff_of_nodup (nodup_unspentInfos s hw) (nodup_minedUnspent s hw)).mpr
      (fun c => (mem_unspentInfos_iff s hw c).trans (mem_minedUnspent_iff s hw c).symm)
  have hperm2 : (liveFromCredits s).Perm (minedUnspent s) :=
    (List.perm_ext_iff_of_nodup (nodup_liveFromCredits s hw) (nodup_minedUnspent s hw)).mpr
      (fun c => (mem_liveFromCredits_iff s hw c).trans (mem_minedUnspent_iff s hw c).symm)
  refine ⟨?_, ?_, hperm1, hw.sorted, hw.recorded⟩
  · rw [hw.counter, creditSum_eq s hw]
    unfold sumAmounts
    exact perm_map_sum _ hperm2
  · intro o ho
    unfold unspentInfos at ho
    obtain ⟨⟨op, blk⟩, hm, rfl⟩ := List.mem_map.mp ho
    have hf := find?_of_mem _ hw.nodupUnspent hm
    obtain ⟨cv, hcv, _⟩ := (hw.index op blk).mp hf
    obtain ⟨br, rec, _, _, _, hrec, _⟩ := hw.listed _ _ hcv
    simp only [creditInfo, hcv]
    have : (⟨op.hash, blk, op.index⟩ : CredKey).txKey = ⟨op.hash, blk⟩ := rfl
    rw [this] at hrec
    simp [CredKey.txKey, hrec]

end TxStore
