import BtcwVerif.Lemmas.RefDefs
/-!
# Refinement, event *seen*: `insertMemPoolTx` + unconfirmed `addCredit` realise `Ledger.apply (.seen t cr)`
-/
namespace TxStore
open KMap Ledger

/-! ### general helpers -/

theorem mapM_ok_of_forall {α β : Type} (f : α → M β) :
    ∀ (l : List α), (∀ x ∈ l, ∃ y, f x = .ok y) → ∃ r, l.mapM f = .ok r := by
  intro l
  induction l with
  | nil => intro _; exact ⟨[], rfl⟩
  | cons a t ih =>
    intro h
    obtain ⟨y, hy⟩ := h a List.mem_cons_self
    obtain ⟨r, hr⟩ := ih (fun x hx => h x (List.mem_cons_of_mem _ hx))
    exact ⟨y :: r, by rw [List.mapM_cons, hy, hr]; rfl⟩

theorem bind_ok_of {α β : Type} {x : M α} {f : α → M β} (hx : ∃ a, x = .ok a) (hf : ∀ a, ∃ b, f a = .ok b) :
    ∃ b, (x >>= f) = .ok b := by
  obtain ⟨a, rfl⟩ := hx
  exact hf a

/-- what `Good` says about the unconfirmed bucket, in lookup form -/
theorem Refines.unmined_iff {s : Store} {L : Ledger} (hr : Refines s L) (h : Nat) (t : Tx) :
    s.unmined.find? h = some t ↔ t ∈ L.pool ∧ h = t.hash := by
  rw [hr.unmined, mem_expUnmined]

theorem Refines.txrecs_iff {s : Store} {L : Ledger} (hr : Refines s L) (k : TxKey) (t : Tx) :
    s.txrecs.find? k = some t ↔ ∃ bm, (t, bm) ∈ chainTxs L ∧ k = ⟨t.hash, bm.block⟩ := by
  rw [hr.txrecs, mem_expTxrecs]

theorem Refines.ucredits_iff {s : Store} {L : Ledger} (hr : Refines s L) (op : OutPoint) (uc : UCredit) :
    s.unminedCredits.find? op = some uc ↔
      ∃ t ∈ L.pool, op.hash = t.hash ∧ t.outs[op.index]? = some uc.amount ∧ lookup L.credit op = some uc.change := by
  rw [hr.ucredits, mem_expUnminedCredits]

theorem Refines.credits_iff {s : Store} {L : Ledger} (hr : Refines s L) (k : CredKey) (v : CreditVal) :
    s.credits.find? k = some v ↔
      ∃ t bm, (t, bm) ∈ chainTxs L ∧ k.hash = t.hash ∧ k.block = bm.block ∧ t.outs[k.index]? = some v.amount ∧
      lookup L.credit k.outPoint = some v.change ∧ v.spender = spenderOf L k.outPoint ∧
      v.spent = (spenderOf L k.outPoint).isSome := by
  rw [hr.credits, mem_expCredits]

/-- a pool transaction is not confirmed -/
theorem LWF.pool_not_mined {L : Ledger} (h : LWF L) {t u : Tx} {bm : BlockMeta} (ht : t ∈ L.pool)
    (hu : (u, bm) ∈ chainTxs L) : u.hash ≠ t.hash := by
  intro e
  have := h.known_unique (known_of_mined hu) (known_of_pool ht) e
  cases this

theorem LWF.pool_unique {L : Ledger} (h : LWF L) {t u : Tx} (ht : t ∈ L.pool) (hu : u ∈ L.pool)
    (e : t.hash = u.hash) : t = u := by
  have := h.known_unique (known_of_pool ht) (known_of_pool hu) e
  cases this; rfl

theorem LWF.mined_unique {L : Ledger} (h : LWF L) {t u : Tx} {b c : BlockMeta} (ht : (t, b) ∈ chainTxs L)
    (hu : (u, c) ∈ chainTxs L) (e : t.hash = u.hash) : t = u ∧ b = c := by
  have := h.known_unique (known_of_mined ht) (known_of_mined hu) e
  cases this; exact ⟨rfl, rfl⟩

/-! ### `TxDetails` never fails on a good store, and finds exactly the known transactions -/

theorem latestTxRecord_isSome_iff (s : Store) (h : Nat) :
    (latestTxRecord s h).isSome = true ↔ ∃ k v, s.txrecs.find? k = some v ∧ k.hash = h ∧ (k, v) ∈ s.txrecs := by
  unfold latestTxRecord
  constructor
  · intro hs
    cases hl : (s.txrecs.filter (fun p => decide (p.1.hash = h))).getLast? with
    | none => rw [hl] at hs; cases hs
    | some p =>
      have hm := List.mem_of_getLast? hl
      rw [List.mem_filter] at hm
      have hsome := find?_isSome_of_mem _ hm.1
      cases hf : s.txrecs.find? p.1 with
      | none => rw [hf] at hsome; cases hsome
      | some v => exact ⟨p.1, v, hf, by simpa using hm.2, mem_of_find? _ hf⟩
  · rintro ⟨k, v, _, hk, hm⟩
    have : (k, v) ∈ s.txrecs.filter (fun p => decide (p.1.hash = h)) := List.mem_filter.mpr ⟨hm, by simpa using hk⟩
    cases hl : (s.txrecs.filter (fun p => decide (p.1.hash = h))).getLast? with
    | none => rw [List.getLast?_eq_none_iff] at hl; rw [hl] at this; cases this
    | some p => rfl

theorem latestTxRecord_mem {s : Store} {h : Nat} {k : TxKey} {v : Tx} (hl : latestTxRecord s h = some (k, v)) :
    (k, v) ∈ s.txrecs ∧ k.hash = h := by
  unfold latestTxRecord at hl
  have hm := List.mem_of_getLast? hl
  rw [List.mem_filter] at hm
  exact ⟨hm.1, by simpa using hm.2⟩

theorem unminedTxDetails_ok {s : Store} {L : Ledger} (hg : Good s L) {h : Nat} {rec : Tx}
    (hrec : s.unmined.find? h = some rec) : ∃ d, unminedTxDetails s h rec = .ok d := by
  obtain ⟨hpool, hh⟩ := (hg.ref.unmined_iff h rec).mp hrec
  unfold unminedTxDetails
  refine bind_ok_of (mapM_ok_of_forall _ _ ?_) (fun credits => bind_ok_of (mapM_ok_of_forall _ _ ?_) (fun debits => ⟨_, rfl⟩))
  · rintro ⟨op, uc⟩ hm
    unfold unminedCreditsOf at hm
    rw [List.mem_filter] at hm
    have hf := find?_of_mem _ hg.wf2.wf.nodupUC hm.1
    obtain ⟨t, ht, e1, e2, _⟩ := (hg.ref.ucredits_iff op uc).mp hf
    have hop : op.hash = h := by simpa using hm.2
    have : t = rec := hg.lwf.pool_unique ht hpool (by rw [← e1, hop, hh])
    subst this
    have hlt : op.index < t.outs.length := (List.getElem?_eq_some_iff.mp e2).1
    simp only [ge_iff_le]
    rw [if_neg (by omega)]
    exact ⟨_, rfl⟩
  · rintro ⟨i, inp⟩ _
    unfold unminedDebit
    simp only
    cases hu : s.unspent.find? inp with
    | some blk =>
      obtain ⟨cv, hcv, _⟩ := (hg.wf2.wf.index inp blk).mp hu
      simp only [hcv]; exact ⟨_, rfl⟩
    | none =>
      simp only
      cases s.unminedCredits.find? inp <;> exact ⟨_, rfl⟩

theorem minedTxDetails_ok {s : Store} (hw : WF2 s) {k : TxKey} {rec : Tx}
    (hrec : s.txrecs.find? k = some rec) : ∃ d, minedTxDetails s k rec = .ok d := by
  obtain ⟨_, br, hbr, _, _⟩ := hw.wf.recListed k rec hrec
  unfold minedTxDetails
  simp only [hbr, pure_eq, bind_ok]
  refine bind_ok_of (mapM_ok_of_forall _ _ ?_) (fun credits => bind_ok_of (mapM_ok_of_forall _ _ ?_) (fun debits => ⟨_, rfl⟩))
  · rintro ⟨ck, cv⟩ hm
    unfold creditsOf at hm
    rw [List.mem_filter] at hm
    have hf := find?_of_mem _ hw.wf.nodupCredits hm.1
    obtain ⟨_, rec', _, _, _, hr', ho⟩ := hw.wf.listed ck cv hf
    have hk : ck.txKey = k := by
      have := hm.2; simp only [decide_eq_true_eq] at this
      cases k; simp only [CredKey.txKey]; simp_all
    rw [hk, hrec] at hr'; cases hr'
    have hlt : ck.index < rec.outs.length := (List.getElem?_eq_some_iff.mp ho).1
    simp only [ge_iff_le]
    rw [if_neg (by omega)]
    exact ⟨_, rfl⟩
  · rintro ⟨dk, dv⟩ hm
    unfold debitsOf at hm
    rw [List.mem_filter] at hm
    have hsome := find?_isSome_of_mem _ hm.1
    cases hf : s.debits.find? dk with
    | none => rw [hf] at hsome; cases hsome
    | some d =>
      obtain ⟨⟨⟨rec', hr', hi⟩, _⟩, _⟩ := hw.deb dk d hf
      have hk : dk.txKey = k := by
        have := hm.2; simp only [decide_eq_true_eq] at this
        cases k; simp only [CredKey.txKey]; simp_all
      rw [hk, hrec] at hr'; cases hr'
      have hlt : dk.index < rec.ins.length := (List.getElem?_eq_some_iff.mp hi).1
      simp only [ge_iff_le]
      rw [if_neg (by omega)]
      exact ⟨_, rfl⟩

/-- `TxDetails` on a good store: no error; a record is reported exactly for the known transactions -/
theorem txDetails_total {s : Store} {L : Ledger} (hg : Good s L) (h : Nat) :
    ∃ o, txDetails s h = .ok o ∧ (o.isSome = true ↔ ∃ p ∈ known L, p.1.hash = h) := by
  unfold txDetails
  cases hu : s.unmined.find? h with
  | some rec =>
    obtain ⟨d, hd⟩ := unminedTxDetails_ok hg hu
    obtain ⟨hp, hh⟩ := (hg.ref.unmined_iff h rec).mp hu
    refine ⟨some d, by simp only [hd, bind_ok, pure_eq], ?_⟩
    simp only [Option.isSome_some, true_iff]
    exact ⟨(rec, none), known_of_pool hp, hh.symm⟩
  | none =>
    simp only
    cases hl : latestTxRecord s h with
    | none =>
      refine ⟨none, rfl, ?_⟩
      simp only [Option.isSome_none, Bool.false_eq_true, false_iff]
      rintro ⟨⟨t, ob⟩, hp, hh⟩
      rcases mem_known.mp hp with ⟨bm, rfl, hm⟩ | ⟨rfl, hm⟩
      · have hf : s.txrecs.find? ⟨t.hash, bm.block⟩ = some t := (hg.ref.txrecs_iff _ _).mpr ⟨bm, hm, rfl⟩
        have : (latestTxRecord s h).isSome = true :=
          (latestTxRecord_isSome_iff s h).mpr ⟨_, _, hf, hh, mem_of_find? _ hf⟩
        rw [hl] at this; cases this
      · have : s.unmined.find? h = some t := (hg.ref.unmined_iff h t).mpr ⟨hm, hh.symm⟩
        rw [hu] at this; cases this
    | some kv =>
      obtain ⟨k, rec⟩ := kv
      obtain ⟨hm, hk⟩ := latestTxRecord_mem hl
      have hf := find?_of_mem _ hg.ref.nodupTxrecs hm
      obtain ⟨d, hd⟩ := minedTxDetails_ok hg.wf2 hf
      obtain ⟨bm, hmined, hkeq⟩ := (hg.ref.txrecs_iff k rec).mp hf
      refine ⟨some d, by simp only [hd, bind_ok, pure_eq], ?_⟩
      simp only [Option.isSome_some, true_iff]
      exact ⟨(rec, some bm), known_of_mined hmined, by rw [← hk, hkeq]⟩

/-! ### reading `consistent` / `extra` for *seen* -/

theorem validRefs_iff {L : Ledger} {t : Tx} :
    validRefs L t = true ↔ ∀ i ∈ t.ins, ∀ q ∈ known L, q.1.hash = i.hash → i.index < q.1.outs.length := by
  unfold validRefs
  simp only [List.all_eq_true, Bool.or_eq_true, bne_iff_ne, ne_eq, decide_eq_true_eq]
  constructor
  · intro h i hi q hq e
    rcases h i hi q hq with h' | h'
    · exact absurd e h'
    · exact h'
  · intro h i hi q hq
    by_cases e : q.1.hash = i.hash
    · exact Or.inr (h i hi q hq e)
    · exact Or.inl e

structure SeenFresh (L : Ledger) (t : Tx) (cr : List (Nat × Bool)) : Prop where
  fresh : ∀ p ∈ known L, p.1.hash ≠ t.hash
  crValid : ∀ c ∈ cr, c.1 < t.outs.length
  notCb : t.isCoinBase = false
  noChild : ∀ p ∈ known L, ∀ i ∈ p.1.ins, i.hash ≠ t.hash
  noConflict : ∀ i ∈ t.ins, spentConfirmed L i = false
  refs : ∀ i ∈ t.ins, ∀ q ∈ known L, q.1.hash = i.hash → i.index < q.1.outs.length
  bound : t.outs.length ≤ nullIndex
  noSelf : ∀ i ∈ t.ins, i.hash ≠ t.hash

theorem seenFresh_of {L : Ledger} {t : Tx} {cr : List (Nat × Bool)} (hc : Consistent L (.seen t cr))
    (hf : isKnown L t.hash = false) : SeenFresh L t cr := by
  have h1 := hc.cons
  have h2 := hc.extra
  obtain ⟨hb, hs⟩ := hc.bound t rfl
  simp [consistent, hf] at h1
  simp [Ledger.extra, hf] at h2
  obtain ⟨⟨⟨_, c2⟩, c3⟩, c4⟩ := h1
  refine ⟨isKnown_false_iff.mp hf, ?_, c3, fun p hp => c4 p.1 p.2 hp, h2.1, validRefs_iff.mp h2.2, hb, hs⟩
  rintro ⟨a, b⟩ hc
  cases b
  · exact (c2 a).1 hc
  · exact (c2 a).2 hc

/-! ### store side of `insertMemPoolTx` -/

theorem foldl_put_eq (h : Nat) : ∀ (l : List OutPoint) (a : Store),
    l.foldl (fun s inp => putRawUnminedInput s inp h) a =
      { a with unminedInputs := (l.foldl (fun s inp => putRawUnminedInput s inp h) a).unminedInputs } := by
  intro l
  induction l with
  | nil => intro a; rfl
  | cons x t ih =>
    intro a
    rw [List.foldl_cons, ih]
    rfl

theorem spendHashes_put (s : Store) (k : OutPoint) (h : Nat) (op : OutPoint) :
    spendHashes (putRawUnminedInput s k h) op = if k = op then spendHashes s op ++ [h] else spendHashes s op := by
  unfold spendHashes putRawUnminedInput
  simp only [find?_insert]
  by_cases e : k = op
  · subst e; simp
  · simp [e]

theorem mem_spendHashes_foldl_put (h : Nat) (op : OutPoint) (x : Nat) : ∀ (l : List OutPoint) (a : Store),
    x ∈ spendHashes (l.foldl (fun s inp => putRawUnminedInput s inp h) a) op ↔
      x ∈ spendHashes a op ∨ (x = h ∧ op ∈ l) := by
  intro l
  induction l with
  | nil => intro a; simp
  | cons k t ih =>
    intro a
    rw [List.foldl_cons, ih, spendHashes_put]
    by_cases e : k = op
    · subst e
      simp only [if_true, List.mem_append, List.mem_cons, List.not_mem_nil, or_false, true_or, and_true]
      constructor
      · rintro ((h1 | h1) | h1)
        · exact Or.inl h1
        · exact Or.inr h1
        · exact Or.inr h1.1
      · rintro (h1 | h1)
        · exact Or.inl (Or.inl h1)
        · exact Or.inl (Or.inr h1)
    · simp only [e, if_false, List.mem_cons]
      constructor
      · rintro (h1 | ⟨h1, h2⟩)
        · exact Or.inl h1
        · exact Or.inr ⟨h1, Or.inr h2⟩
      · rintro (h1 | ⟨h1, h2 | h2⟩)
        · exact Or.inl h1
        · exact absurd h2.symm e
        · exact Or.inr ⟨h1, h2⟩

def InputsNE (s : Store) : Prop := ∀ op, s.unminedInputs.find? op ≠ some []

theorem inputsNE_put (s : Store) (k : OutPoint) (h : Nat) (hs : InputsNE s) : InputsNE (putRawUnminedInput s k h) := by
  intro op
  unfold putRawUnminedInput
  simp only [find?_insert]
  by_cases e : k = op
  · simp [e]
  · simp only [e, if_false]; exact hs op

theorem inputsNE_foldl_put (h : Nat) : ∀ (l : List OutPoint) (a : Store), InputsNE a →
    InputsNE (l.foldl (fun s inp => putRawUnminedInput s inp h) a) := by
  intro l
  induction l with
  | nil => intro a ha; exact ha
  | cons k t ih => intro a ha; exact ih _ (inputsNE_put a k h ha)

/-- `insertMemPoolTx` on a store that does not know the transaction -/
theorem insertMemPoolTx_fresh {s : Store} {L : Ledger} (hg : Good s L) {t : Tx} (hf : ∀ p ∈ known L, p.1.hash ≠ t.hash) :
    insertMemPoolTx s t = .ok (t.ins.foldl (fun s inp => putRawUnminedInput s inp t.hash)
      { s with unmined := s.unmined.insert t.hash t }) := by
  obtain ⟨o, ho, hiff⟩ := txDetails_total hg t.hash
  have hnone : o = none := by
    cases o with
    | none => rfl
    | some d =>
      obtain ⟨p, hp, e⟩ := hiff.mp rfl
      exact absurd e (hf p hp)
  subst hnone
  unfold insertMemPoolTx
  rw [ho]
  simp only
  have hany : ((withIdx t.outs).any fun (x : Nat × Int) => s.unspent.contains ⟨t.hash, x.1⟩) = false := by
    rw [List.any_eq_false]
    rintro ⟨i, v⟩ _
    simp only [contains_eq, Bool.not_eq_true, Option.isSome_eq_false_iff, Option.isNone_iff_eq_none]
    cases hu : s.unspent.find? ⟨t.hash, i⟩ with
    | none => rfl
    | some blk =>
      obtain ⟨cv, hcv, _⟩ := (hg.wf2.wf.index _ _).mp hu
      obtain ⟨u, bm, hm, e1, _⟩ := (hg.ref.credits_iff _ _).mp hcv
      exact absurd e1.symm (hf _ (known_of_mined hm))
  have hany' : ((withIdx t.outs).any fun x => match x with | (i, _) => s.unspent.contains ⟨t.hash, i⟩) = false := hany
  rw [hany']
  simp

/-! ### ledger side: a new unconfirmed transaction -/

/-- the ledger after recording a new unconfirmed transaction (no credits yet) -/
def addPool (L : Ledger) (t : Tx) : Ledger := { L with pool := L.pool ++ [t] }

theorem known_addPool (L : Ledger) (t : Tx) : known (addPool L t) = known L ++ [(t, none)] := by
  simp [known, addPool, chainTxs]

theorem le_sum_of_mem : ∀ (l : List Nat) (a : Nat), a ∈ l → a ≤ l.sum := by
  intro l
  induction l with
  | nil => intro a h; cases h
  | cons x t ih =>
    intro a h
    rw [List.sum_cons]
    rcases List.mem_cons.mp h with rfl | h'
    · omega
    · have := ih a h'; omega

theorem lwf_addPool {L : Ledger} (hl : LWF L) {t : Tx} {cr : List (Nat × Bool)} (hs : SeenFresh L t cr) :
    LWF (addPool L t) := by
  have hk := known_addPool L t
  have hmem : ∀ p, p ∈ known (addPool L t) ↔ p ∈ known L ∨ p = (t, none) := by
    intro p; rw [hk]; simp
  refine ⟨hl.heights, ?_, hl.creditKeys, ?_, ?_, hl.noDouble, ?_, ?_, ?_, ?_, hl.leaseKeys⟩
  · rw [hk, List.map_append, List.nodup_append]
    refine ⟨hl.hashes, by simp, ?_⟩
    intro a ha b hb
    simp only [List.map_cons, List.map_nil, List.mem_singleton] at hb
    obtain ⟨p, hp, rfl⟩ := List.mem_map.mp ha
    rw [hb]; exact hs.fresh p hp
  · intro p hp
    obtain ⟨q, hq, h1, h2⟩ := hl.creditKnown p hp
    exact ⟨q, (hmem q).mpr (Or.inl hq), h1, h2⟩
  · intro u hu
    simp only [addPool, List.mem_append, List.mem_singleton] at hu
    rcases hu with hu | rfl
    · exact hl.poolNoCb u hu
    · exact hs.notCb
  · intro p hp i hi q hq e
    rcases (hmem q).mp hq with hq' | rfl
    · exact hl.parents p hp i hi q hq' e
    · exact absurd e.symm (hs.noChild _ (known_of_mined hp) i hi)
  · obtain ⟨rk, hrk⟩ := hl.rank
    let M := ((known L).map (fun p => rk p.1.hash)).sum
    refine ⟨fun x => if x = t.hash then M + 1 else rk x, ?_⟩
    intro p hp i hi q hq e
    rcases (hmem p).mp hp with hp' | rfl
    · rcases (hmem q).mp hq with hq' | rfl
      · have h1 : i.hash ≠ t.hash := by rw [← e]; exact hs.fresh q hq'
        have h2 : p.1.hash ≠ t.hash := hs.fresh p hp'
        simp only [h1, h2, if_false]
        exact hrk p hp' i hi q hq' e
      · exact absurd e.symm (hs.noChild p hp' i hi)
    · rcases (hmem q).mp hq with hq' | rfl
      · have h1 : i.hash ≠ t.hash := by rw [← e]; exact hs.fresh q hq'
        simp only [h1, if_false, if_true]
        have : rk q.1.hash ≤ M := le_sum_of_mem _ _ (List.mem_map.mpr ⟨q, hq', rfl⟩)
        rw [← e]; omega
      · exact absurd e.symm (hs.noSelf i hi)
  · intro p hp i hi q hq e
    rcases (hmem p).mp hp with hp' | rfl
    · rcases (hmem q).mp hq with hq' | rfl
      · exact hl.validRefs p hp' i hi q hq' e
      · exact absurd e.symm (hs.noChild p hp' i hi)
    · rcases (hmem q).mp hq with hq' | rfl
      · exact hs.refs i hi q hq' e
      · exact absurd e.symm (hs.noSelf i hi)
  · intro p hp
    rcases (hmem p).mp hp with hp' | rfl
    · exact hl.outsBound p hp'
    · exact hs.bound

theorem noConflict_addPool {L : Ledger} (hn : NoConflict L) {t : Tx} {cr : List (Nat × Bool)} (hs : SeenFresh L t cr) :
    NoConflict (addPool L t) := by
  intro u hu i hi
  simp only [addPool, List.mem_append, List.mem_singleton] at hu
  rcases hu with hu | rfl
  · exact hn u hu i hi
  · exact hs.noConflict i hi

theorem refines_addPool {s : Store} {L : Ledger} (hg : Good s L) {t : Tx} {cr : List (Nat × Bool)}
    (hs : SeenFresh L t cr) :
    Refines (t.ins.foldl (fun s inp => putRawUnminedInput s inp t.hash) { s with unmined := s.unmined.insert t.hash t })
      (addPool L t) := by
  have hr := hg.ref
  rw [foldl_put_eq]
  refine ⟨hr.blocks, hr.txrecs, ?_, hr.credits, hr.debits, ?_, ?_, ?_, hr.leases, hr.nodupTxrecs, ?_, hr.nodupDebits,
    hr.nodupLocked⟩
  · intro k v
    show (s.unmined.insert t.hash t).find? k = some v ↔ _
    rw [find?_insert, mem_expUnmined]
    simp only [addPool, List.mem_append, List.mem_singleton]
    by_cases e : t.hash = k
    · subst e
      simp only [if_true, Option.some.injEq]
      constructor
      · rintro rfl; exact ⟨Or.inr rfl, rfl⟩
      · rintro ⟨h1 | h1, h2⟩
        · exact absurd h2.symm (hs.fresh _ (known_of_pool h1))
        · exact h1.symm
    · simp only [e, if_false]
      rw [hr.unmined_iff]
      constructor
      · rintro ⟨h1, h2⟩; exact ⟨Or.inl h1, h2⟩
      · rintro ⟨h1 | h1, h2⟩
        · exact ⟨h1, h2⟩
        · subst h1; exact absurd h2.symm e
  · intro k v
    show s.unminedCredits.find? k = some v ↔ _
    rw [hr.ucredits_iff, mem_expUnminedCredits]
    simp only [addPool, List.mem_append, List.mem_singleton]
    constructor
    · rintro ⟨u, hu, h⟩; exact ⟨u, Or.inl hu, h⟩
    · rintro ⟨u, hu | rfl, h1, h2, h3⟩
      · exact ⟨u, hu, h1, h2, h3⟩
      · exfalso
        obtain ⟨p, hp, hpk⟩ := (lookup_isSome_iff L.credit k).mp (by rw [h3]; rfl)
        obtain ⟨q, hq, e, _⟩ := hg.lwf.creditKnown p hp
        exact hs.fresh q hq (by rw [e, hpk, h1])
  · intro op h
    show h ∈ spendHashes (t.ins.foldl (fun s inp => putRawUnminedInput s inp t.hash)
      { s with unmined := s.unmined.insert t.hash t }) op ↔ _
    rw [mem_spendHashes_foldl_put, mem_poolSpenders]
    have : spendHashes { s with unmined := s.unmined.insert t.hash t } op = spendHashes s op := rfl
    rw [this, hr.uinputs, mem_poolSpenders]
    simp only [addPool, List.mem_append, List.mem_singleton]
    constructor
    · rintro (⟨u, hu, h1, h2⟩ | ⟨rfl, h2⟩)
      · exact ⟨u, Or.inl hu, h1, h2⟩
      · exact ⟨t, Or.inr rfl, h2, rfl⟩
    · rintro ⟨u, hu | rfl, h1, h2⟩
      · exact Or.inl ⟨u, hu, h1, h2⟩
      · exact Or.inr ⟨h2.symm, h1⟩
  · exact inputsNE_foldl_put t.hash t.ins _ hr.uinputsNE
  · exact nodupKeys_insert _ _ _ hr.nodupUnmined

/-- **recording a new unconfirmed transaction** refines `pool := pool ++ [t]` -/
theorem good_insertMemPool {s : Store} {L : Ledger} (hg : Good s L) {t : Tx} {cr : List (Nat × Bool)}
    (hs : SeenFresh L t cr) :
    ∃ s1, insertMemPoolTx s t = .ok s1 ∧ Good s1 (addPool L t) := by
  have h := insertMemPoolTx_fresh hg hs.fresh
  refine ⟨_, h, ?_, lwf_addPool hg.lwf hs, refines_addPool hg hs⟩
  have hsm := sameMined_insertMemPoolTx h
  refine wf2_of_sameMined hsm ?_ hg.wf2
  rw [foldl_put_eq]
  exact hg.wf2.wf.nodupUC

/-! ### crediting an output of an unconfirmed transaction -/

/-- one step of `Ledger.addCredits` -/
def addCredit1 (L : Ledger) (t : Tx) (c : Nat × Bool) : Ledger :=
  { L with credit := if c.1 < t.outs.length && (lookup L.credit ⟨t.hash, c.1⟩).isNone then
      L.credit ++ [(⟨t.hash, c.1⟩, c.2)] else L.credit }

theorem lookup_append_one {α : Type} (l : List (OutPoint × α)) (k : OutPoint) (v : α) (op : OutPoint) :
    lookup (l ++ [(k, v)]) op = (lookup l op).or (if k = op then some v else none) := by
  unfold lookup
  rw [List.find?_append]
  cases h : l.find? (fun p => p.1 == op) with
  | some p => simp
  | none =>
    by_cases e : k = op
    · simp [e]
    · simp [e]

theorem latestTxRecord_none_of_pool {s : Store} {L : Ledger} (hg : Good s L) {t : Tx} (ht : t ∈ L.pool) :
    latestTxRecord s t.hash = none := by
  cases hl : latestTxRecord s t.hash with
  | none => rfl
  | some kv =>
    exfalso
    obtain ⟨k, v, hf, hk, _⟩ := (latestTxRecord_isSome_iff s t.hash).mp (by rw [hl]; rfl)
    obtain ⟨bm, hm, hkeq⟩ := (hg.ref.txrecs_iff k v).mp hf
    exact hg.lwf.pool_not_mined ht hm (by rw [← hk, hkeq])

theorem good_addCredit_unmined {s : Store} {L : Ledger} (hg : Good s L) {t : Tx} (ht : t ∈ L.pool) (c : Nat × Bool)
    (hc : c.1 < t.outs.length) :
    ∃ s1, addCredit s t none c.1 c.2 = .ok s1 ∧ Good s1 (addCredit1 L t c) := by
  have hr := hg.ref
  obtain ⟨amt, hamt⟩ : ∃ amt, t.outs[c.1]? = some amt := ⟨t.outs[c.1], List.getElem?_eq_getElem hc⟩
  have hlat := latestTxRecord_none_of_pool hg ht
  unfold addCredit
  simp only [hamt, hlat, Option.isSome_none, Bool.false_eq_true, if_false]
  cases hl : lookup L.credit ⟨t.hash, c.1⟩ with
  | some chg =>
    have hf : s.unminedCredits.find? ⟨t.hash, c.1⟩ = some ⟨amt, chg⟩ :=
      (hr.ucredits_iff _ _).mpr ⟨t, ht, rfl, hamt, hl⟩
    have hL : addCredit1 L t c = L := by
      unfold addCredit1; rw [hl]; simp
    simp only [contains_eq, hf, Option.isSome_some, if_true, pure_eq]
    rw [hL]
    exact ⟨s, rfl, hg⟩
  | none =>
    have hf : s.unminedCredits.find? ⟨t.hash, c.1⟩ = none := by
      cases hf : s.unminedCredits.find? ⟨t.hash, c.1⟩ with
      | none => rfl
      | some uc =>
        obtain ⟨_, _, _, _, h3⟩ := (hr.ucredits_iff _ _).mp hf
        rw [hl] at h3; cases h3
    simp only [contains_eq, hf, Option.isSome_none, Bool.false_eq_true, if_false, pure_eq]
    refine ⟨_, rfl, ?_⟩
    have hL : (addCredit1 L t c).credit = L.credit ++ [(⟨t.hash, c.1⟩, c.2)] := by
      unfold addCredit1; simp [hl, hc]
    have hlook : ∀ op, lookup (addCredit1 L t c).credit op =
        (lookup L.credit op).or (if (⟨t.hash, c.1⟩ : OutPoint) = op then some c.2 else none) := by
      intro op; rw [hL, lookup_append_one]
    have hlook_ne : ∀ op : OutPoint, op.hash ≠ t.hash → lookup (addCredit1 L t c).credit op = lookup L.credit op := by
      intro op hne
      rw [hlook]
      have : (⟨t.hash, c.1⟩ : OutPoint) ≠ op := by intro e; apply hne; rw [← e]
      cases lookup L.credit op <;> simp [this]
    refine ⟨?_, ?_, ?_⟩
    · refine wf2_of_sameMined (s := s) ⟨rfl, rfl, rfl, rfl, rfl, rfl⟩ ?_ hg.wf2
      exact nodupKeys_insert _ _ _ hg.wf2.wf.nodupUC
    · have hl0 := hg.lwf
      refine ⟨hl0.heights, hl0.hashes, ?_, ?_, hl0.poolNoCb, hl0.noDouble, hl0.parents, hl0.rank,
        hl0.validRefs, hl0.outsBound, hl0.leaseKeys⟩
      · rw [hL, List.map_append, List.nodup_append]
        refine ⟨hl0.creditKeys, by simp, ?_⟩
        intro a ha b hb
        simp only [List.map_cons, List.map_nil, List.mem_singleton] at hb
        obtain ⟨p, hp, rfl⟩ := List.mem_map.mp ha
        rw [hb]
        exact (lookup_eq_none_iff L.credit _).mp hl p hp
      · intro p hp
        rw [hL, List.mem_append, List.mem_singleton] at hp
        rcases hp with hp | rfl
        · exact hl0.creditKnown p hp
        · exact ⟨(t, none), known_of_pool ht, rfl, hc⟩
    · refine ⟨hr.blocks, hr.txrecs, hr.unmined, ?_, hr.debits, ?_, hr.uinputs, hr.uinputsNE, hr.leases, hr.nodupTxrecs,
        hr.nodupUnmined, hr.nodupDebits, hr.nodupLocked⟩
      · intro k v
        show s.credits.find? k = some v ↔ _
        rw [hr.credits_iff, mem_expCredits]
        have hspend : ∀ op, spenderOf (addCredit1 L t c) op = spenderOf L op := fun _ => rfl
        have hch : chainTxs (addCredit1 L t c) = chainTxs L := rfl
        simp only [hspend, hch]
        constructor
        · rintro ⟨u, bm, hm, h1, h2, h3, h4, h5⟩
          refine ⟨u, bm, hm, h1, h2, h3, ?_, h5⟩
          rw [hlook_ne _ (by rw [show k.outPoint.hash = k.hash from rfl, h1]; exact hg.lwf.pool_not_mined ht hm)]
          exact h4
        · rintro ⟨u, bm, hm, h1, h2, h3, h4, h5⟩
          refine ⟨u, bm, hm, h1, h2, h3, ?_, h5⟩
          rw [hlook_ne _ (by rw [show k.outPoint.hash = k.hash from rfl, h1]; exact hg.lwf.pool_not_mined ht hm)] at h4
          exact h4
      · intro k v
        show (s.unminedCredits.insert ⟨t.hash, c.1⟩ ⟨amt, c.2⟩).find? k = some v ↔ _
        rw [find?_insert, mem_expUnminedCredits]
        have hp : (addCredit1 L t c).pool = L.pool := rfl
        rw [hp]
        by_cases e : (⟨t.hash, c.1⟩ : OutPoint) = k
        · subst e
          simp only [if_true, Option.some.injEq]
          rw [hlook, hl]
          simp only [if_true, Option.some.injEq]
          constructor
          · rintro rfl; exact ⟨t, ht, rfl, hamt, rfl⟩
          · rintro ⟨u, hu, h1, h2, h3⟩
            have : u = t := hg.lwf.pool_unique hu ht h1.symm
            subst this
            rw [hamt] at h2
            cases v; simp_all
        · simp only [e, if_false]
          rw [hr.ucredits_iff, hlook]
          constructor
          · rintro ⟨u, hu, h1, h2, h3⟩
            exact ⟨u, hu, h1, h2, by rw [h3]; rfl⟩
          · rintro ⟨u, hu, h1, h2, h3⟩
            refine ⟨u, hu, h1, h2, ?_⟩
            cases hlk : lookup L.credit k with
            | some x => rw [hlk] at h3; exact h3
            | none => rw [hlk] at h3; simp [e] at h3

/-! ### the event *seen* -/

theorem foldl_addCredit1 (t : Tx) : ∀ (cr : List (Nat × Bool)) (L0 : Ledger),
    cr.foldl (fun L c => addCredit1 L t c) L0 = { L0 with credit := addCredits L0.credit t cr } := by
  intro cr
  induction cr with
  | nil => intro L0; rfl
  | cons c r ih =>
    intro L0
    obtain ⟨i, chg⟩ := c
    rw [List.foldl_cons, ih]
    simp only [addCredits, List.foldl_cons, addCredit1]

theorem addCredit1_pool (L : Ledger) (t : Tx) (c : Nat × Bool) : (addCredit1 L t c).pool = L.pool := rfl

theorem good_addCredits_unmined {t : Tx} : ∀ (cr : List (Nat × Bool)) (s : Store) (L : Ledger), Good s L → t ∈ L.pool →
    (∀ c ∈ cr, c.1 < t.outs.length) →
    ∃ s', cr.foldlM (fun s (c : Nat × Bool) => addCredit s t none c.1 c.2) s = .ok s' ∧
      Good s' (cr.foldl (fun L c => addCredit1 L t c) L) := by
  intro cr
  induction cr with
  | nil => intro s L hg _ _; exact ⟨s, rfl, hg⟩
  | cons c r ih =>
    intro s L hg ht hv
    obtain ⟨s1, h1, hg1⟩ := good_addCredit_unmined hg ht c (hv c List.mem_cons_self)
    obtain ⟨s2, h2, hg2⟩ := ih s1 (addCredit1 L t c) hg1 (by rw [addCredit1_pool]; exact ht)
      (fun c' hc' => hv c' (List.mem_cons_of_mem _ hc'))
    refine ⟨s2, ?_, hg2⟩
    rw [List.foldlM_cons, h1, bind_ok, h2]

theorem noConflict_foldl_addCredit1 (t : Tx) : ∀ (cr : List (Nat × Bool)) (L : Ledger), NoConflict L →
    NoConflict (cr.foldl (fun L c => addCredit1 L t c) L) := by
  intro cr
  induction cr with
  | nil => intro L h; exact h
  | cons c r ih => intro L h; exact ih _ h

/-- **event *seen***: on a good pair, for a chain-consistent delivery of an unconfirmed transaction, the store calls
succeed and the resulting store refines the ledger after `Ledger.apply` -/
theorem good_seen {s : Store} {L : Ledger} (hg : Good s L) {t : Tx} {cr : List (Nat × Bool)} (now : Nat)
    (hc : Consistent L (.seen t cr)) :
    ∃ s', stepEvent s now (.seen t cr) = .ok s' ∧ Good s' (Ledger.apply L (.seen t cr)) ∧
      (NoConflict L → NoConflict (Ledger.apply L (.seen t cr))) := by
  unfold stepEvent addRelevantTx insertTx
  cases hk : isKnown L t.hash with
  | true =>
    obtain ⟨o, ho, hiff⟩ := txDetails_total hg t.hash
    obtain ⟨d, rfl⟩ : ∃ d, o = some d := by
      cases o with
      | some d => exact ⟨d, rfl⟩
      | none => have := hiff.mpr (isKnown_iff.mp hk); cases this
    have h1 : insertMemPoolTx s t = .error Err.duplicate := by
      unfold insertMemPoolTx; rw [ho]; rfl
    simp only [h1, Ledger.apply, hk, if_true]
    exact ⟨s, rfl, hg, fun h => h⟩
  | false =>
    have hs := seenFresh_of hc hk
    obtain ⟨s1, h1, hg1⟩ := good_insertMemPool hg hs
    have htp : t ∈ (addPool L t).pool := by simp [addPool]
    obtain ⟨s2, h2, hg2⟩ := good_addCredits_unmined cr s1 (addPool L t) hg1 htp hs.crValid
    have hL : Ledger.apply L (.seen t cr) = cr.foldl (fun L c => addCredit1 L t c) (addPool L t) := by
      rw [foldl_addCredit1]
      simp [Ledger.apply, hk, addPool]
    rw [hL]
    refine ⟨s2, ?_, hg2, fun hn => noConflict_foldl_addCredit1 t cr _ (noConflict_addPool hn hs)⟩
    simp only [h1, pure_eq, bind_ok, Bool.false_and, Bool.false_eq_true, if_false]
    have : (fun s (x : Nat × Bool) => match x with | (i, chg) => addCredit s t none i chg) =
        (fun s (c : Nat × Bool) => addCredit s t none c.1 c.2) := by
      funext s x; cases x; rfl
    rw [this, h2]
    rfl

end TxStore
