import BtcwVerif.Model.TxStore
/-! Lookup laws of the sorted association lists used as buckets (`TxStore.KMap`). They hold for every list
(no sortedness needed), which keeps the invariants of the store model simple. -/
namespace TxStore.KMap
variable {κ ν : Type} [DecidableEq κ]

@[simp] theorem find?_nil (k : κ) : find? ([] : KMap κ ν) k = none := rfl

theorem find?_cons (k' : κ) (v : ν) (t : KMap κ ν) (k : κ) :
    find? ((k', v) :: t) k = if k' = k then some v else find? t k := rfl

theorem find?_erase (m : KMap κ ν) (k k' : κ) :
    find? (erase m k) k' = if k = k' then none else find? m k' := by
  induction m with
  | nil => simp [erase, find?]
  | cons p t ih =>
    obtain ⟨a, b⟩ := p
    unfold erase at ih ⊢
    by_cases h1 : a = k
    · subst h1
      by_cases h2 : a = k'
      · subst h2; simpa [List.filter_cons, find?] using ih
      · simp [find?, h2, ih]
    · have h1' : ¬ k = a := fun h => h1 h.symm
      by_cases h2 : a = k'
      · subst h2; simp [find?, h1, h1']
      · simp [find?, h1, h2, ih]

@[simp] theorem find?_erase_self (m : KMap κ ν) (k : κ) : find? (erase m k) k = none := by simp [find?_erase]

theorem find?_erase_ne (m : KMap κ ν) {k k' : κ} (h : k ≠ k') : find? (erase m k) k' = find? m k' := by
  simp [find?_erase, h]


theorem find?_place [KOrd κ] (m : KMap κ ν) (k : κ) (v : ν) (k' : κ) (hm : find? m k = none) :
    find? (place m k v) k' = if k = k' then some v else find? m k' := by
  induction m with
  | nil => simp [place, find?]
  | cons p t ih =>
    obtain ⟨a, b⟩ := p
    have h1 : ¬ a = k := by
      intro h; simp [find?, h] at hm
    have h1' : ¬ k = a := fun h => h1 h.symm
    have ht : find? t k = none := by simpa [find?, h1] using hm
    unfold place
    by_cases h2 : KOrd.lt k a = true
    · by_cases h3 : k = k'
      · subst h3; simp [h2, find?]
      · simp [h2, find?, h3]
    · by_cases h3 : a = k'
      · subst h3; simp [h2, find?, h1']
      · simp [h2, find?, h3, ih ht]

theorem find?_insert [KOrd κ] (m : KMap κ ν) (k : κ) (v : ν) (k' : κ) :
    find? (insert m k v) k' = if k = k' then some v else find? m k' := by
  unfold insert
  rw [find?_place _ _ _ _ (find?_erase_self m k), find?_erase]
  by_cases h : k = k' <;> simp [h]

@[simp] theorem find?_insert_self [KOrd κ] (m : KMap κ ν) (k : κ) (v : ν) :
    find? (insert m k v) k = some v := by simp [find?_insert]

theorem find?_insert_ne [KOrd κ] (m : KMap κ ν) {k k' : κ} (v : ν) (h : k ≠ k') :
    find? (insert m k v) k' = find? m k' := by simp [find?_insert, h]

theorem contains_eq (m : KMap κ ν) (k : κ) : contains m k = (find? m k).isSome := rfl

/-- membership of an entry implies a successful lookup of *some* value (first match wins) -/
theorem find?_isSome_of_mem (m : KMap κ ν) {k : κ} {v : ν} (h : (k, v) ∈ m) : (find? m k).isSome := by
  induction m with
  | nil => cases h
  | cons p t ih =>
    obtain ⟨a, b⟩ := p
    by_cases h1 : a = k
    · simp [find?_cons, h1]
    · simp only [find?_cons, h1, if_false]
      cases h with
      | head => exact absurd rfl h1
      | tail _ h' => exact ih h'

theorem mem_of_find? (m : KMap κ ν) {k : κ} {v : ν} (h : find? m k = some v) : (k, v) ∈ m := by
  induction m with
  | nil => cases h
  | cons p t ih =>
    obtain ⟨a, b⟩ := p
    by_cases h1 : a = k
    · simp only [find?_cons, h1, if_true, Option.some.injEq] at h
      subst h1; subst h; exact List.mem_cons_self
    · simp only [find?_cons, h1, if_false] at h
      exact List.mem_cons_of_mem _ (ih h)

/-! ### key uniqueness (what bbolt guarantees for a bucket); preserved by `insert` and `erase` with no order laws -/

/-- every key occurs once -/
def NodupKeys (m : KMap κ ν) : Prop := (keys m).Nodup

theorem nodupKeys_nil : NodupKeys ([] : KMap κ ν) := List.nodup_nil

theorem mem_keys_erase (m : KMap κ ν) (k x : κ) : x ∈ keys (erase m k) ↔ x ∈ keys m ∧ x ≠ k := by
  unfold keys erase
  simp only [List.mem_map, List.mem_filter]
  constructor
  · rintro ⟨p, ⟨hp, hk⟩, rfl⟩
    exact ⟨⟨p, hp, rfl⟩, by simpa using hk⟩
  · rintro ⟨⟨p, hp, rfl⟩, hne⟩
    exact ⟨p, ⟨hp, by simpa using hne⟩, rfl⟩

theorem nodupKeys_erase (m : KMap κ ν) (k : κ) (h : NodupKeys m) : NodupKeys (erase m k) := by
  unfold NodupKeys keys erase at *
  induction m with
  | nil => simp
  | cons p t ih =>
    rw [List.map_cons, List.nodup_cons] at h
    by_cases hp : p.1 = k
    · simp only [List.filter_cons, hp, decide_true, Bool.not_true, Bool.false_eq_true, if_false]
      exact ih h.2
    · simp only [List.filter_cons, hp, decide_false, Bool.not_false, if_true, List.map_cons, List.nodup_cons]
      refine ⟨?_, ih h.2⟩
      intro hm
      apply h.1
      rw [List.mem_map] at hm ⊢
      obtain ⟨q, hq, hqe⟩ := hm
      exact ⟨q, (List.mem_filter.mp hq).1, hqe⟩

theorem mem_keys_place [KOrd κ] (m : KMap κ ν) (k : κ) (v : ν) (x : κ) :
    x ∈ keys (place m k v) ↔ x = k ∨ x ∈ keys m := by
  induction m with
  | nil => simp [place, keys]
  | cons p t ih =>
    obtain ⟨a, b⟩ := p
    unfold place
    by_cases h2 : KOrd.lt k a = true
    · simp [h2, keys]
    · simp only [h2, if_false, Bool.false_eq_true]
      simp only [keys, List.map_cons, List.mem_cons] at ih ⊢
      rw [ih]
      constructor
      · rintro (h | h | h)
        · exact Or.inr (Or.inl h)
        · exact Or.inl h
        · exact Or.inr (Or.inr h)
      · rintro (h | h | h)
        · exact Or.inr (Or.inl h)
        · exact Or.inl h
        · exact Or.inr (Or.inr h)

theorem nodupKeys_place [KOrd κ] (m : KMap κ ν) (k : κ) (v : ν) (h : NodupKeys m) (hk : k ∉ keys m) :
    NodupKeys (place m k v) := by
  induction m with
  | nil => simp [place, NodupKeys, keys]
  | cons p t ih =>
    obtain ⟨a, b⟩ := p
    unfold place
    have h' : a ∉ keys t ∧ NodupKeys t := by
      unfold NodupKeys keys at h; rw [List.map_cons, List.nodup_cons] at h; exact h
    have hka : k ≠ a := by intro e; apply hk; simp [keys, e]
    have hkt : k ∉ keys t := by intro e; apply hk; simp only [keys, List.map_cons, List.mem_cons]; exact Or.inr e
    by_cases h2 : KOrd.lt k a = true
    · simp only [h2, if_true]
      unfold NodupKeys keys
      rw [List.map_cons, List.nodup_cons]
      exact ⟨hk, h⟩
    · simp only [h2, if_false, Bool.false_eq_true]
      unfold NodupKeys keys
      rw [List.map_cons, List.nodup_cons]
      refine ⟨?_, ih h'.2 hkt⟩
      intro hm
      have := (mem_keys_place t k v a).mp hm
      rcases this with e | e
      · exact hka e.symm
      · exact h'.1 e

theorem nodupKeys_insert [KOrd κ] (m : KMap κ ν) (k : κ) (v : ν) (h : NodupKeys m) : NodupKeys (insert m k v) := by
  unfold insert
  apply nodupKeys_place _ _ _ (nodupKeys_erase m k h)
  intro hm
  exact ((mem_keys_erase m k k).mp hm).2 rfl

/-- with unique keys, membership of an entry is the same as a successful lookup -/
theorem find?_of_mem (m : KMap κ ν) {k : κ} {v : ν} (hn : NodupKeys m) (h : (k, v) ∈ m) : find? m k = some v := by
  induction m with
  | nil => cases h
  | cons p t ih =>
    obtain ⟨a, b⟩ := p
    have h' : a ∉ keys t ∧ NodupKeys t := by
      unfold NodupKeys keys at hn; rw [List.map_cons, List.nodup_cons] at hn; exact hn
    cases h with
    | head => simp [find?]
    | tail _ ht =>
      have : a ≠ k := by
        intro e; apply h'.1; rw [e]; exact List.mem_map.mpr ⟨(k, v), ht, rfl⟩
      simp only [find?_cons, this, if_false]
      exact ih h'.2 ht

theorem mem_keys_iff_find? (m : KMap κ ν) (k : κ) : k ∈ keys m ↔ (find? m k).isSome := by
  constructor
  · intro h
    obtain ⟨p, hp, rfl⟩ := List.mem_map.mp h
    exact find?_isSome_of_mem m (v := p.2) hp
  · intro h
    cases hv : find? m k with
    | none => rw [hv] at h; cases h
    | some v => exact List.mem_map.mpr ⟨(k, v), mem_of_find? m hv, rfl⟩

end TxStore.KMap

/-! Except-monad rewriting (all by `rfl`) -/
namespace TxStore
@[simp] theorem throw_eq {α : Type} (e : Err) : (throw e : M α) = Except.error e := rfl
@[simp] theorem pure_eq {α : Type} (a : α) : (pure a : M α) = Except.ok a := rfl
@[simp] theorem bind_ok {α β : Type} (a : α) (f : α → M β) : (Except.ok a >>= f) = f a := rfl
@[simp] theorem bind_error {α β : Type} (e : Err) (f : α → M β) : ((Except.error e : M α) >>= f) = Except.error e := rfl
end TxStore

/-! ### sums over a bucket, sortedness of `Nat`-keyed buckets -/
namespace TxStore.KMap
variable {κ ν : Type} [DecidableEq κ]

theorem mem_iff_find? (m : KMap κ ν) (hn : NodupKeys m) (k : κ) (v : ν) : (k, v) ∈ m ↔ find? m k = some v :=
  ⟨find?_of_mem m hn, mem_of_find? m⟩

theorem sum_erase (g : κ × ν → Int) (m : KMap κ ν) (k : κ) (hn : NodupKeys m) :
    ((erase m k).map g).sum = (m.map g).sum - (match find? m k with | some v => g (k, v) | none => 0) := by
  induction m with
  | nil => simp [erase]
  | cons p t ih =>
    obtain ⟨a, b⟩ := p
    have h' : a ∉ keys t ∧ NodupKeys t := by
      unfold NodupKeys keys at hn; rw [List.map_cons, List.nodup_cons] at hn; exact hn
    have iht := ih h'.2
    unfold erase at iht ⊢
    by_cases h1 : a = k
    · subst h1
      have hnone : find? t a = none := by
        cases hf : find? t a with
        | none => rfl
        | some v => exact absurd ((mem_keys_iff_find? t a).mpr (by simp [hf])) h'.1
      have hfilt : List.filter (fun p : κ × ν => !decide (p.1 = a)) t = t := by
        rw [List.filter_eq_self]
        intro q hq
        have : q.1 ≠ a := by
          intro e; apply h'.1; rw [← e]; exact List.mem_map.mpr ⟨q, hq, rfl⟩
        simp [this]
      simp only [List.filter_cons, decide_true, Bool.not_true, Bool.false_eq_true, if_false, find?_cons, if_true,
        List.map_cons, List.sum_cons, hfilt]
      omega
    · simp only [List.filter_cons, h1, decide_false, Bool.not_false, if_true, List.map_cons, List.sum_cons,
        find?_cons, if_false]
      rw [iht]; omega

theorem sum_place [KOrd κ] (g : κ × ν → Int) (m : KMap κ ν) (k : κ) (v : ν) :
    ((place m k v).map g).sum = g (k, v) + (m.map g).sum := by
  induction m with
  | nil => simp [place]
  | cons p t ih =>
    obtain ⟨a, b⟩ := p
    unfold place
    by_cases h2 : KOrd.lt k a = true
    · simp [h2]
    · simp only [h2, if_false, Bool.false_eq_true, List.map_cons, List.sum_cons, ih]; omega

theorem sum_insert [KOrd κ] (g : κ × ν → Int) (m : KMap κ ν) (k : κ) (v : ν) (hn : NodupKeys m) :
    ((insert m k v).map g).sum =
      (m.map g).sum - (match find? m k with | some v0 => g (k, v0) | none => 0) + g (k, v) := by
  unfold insert
  rw [sum_place, sum_erase g m k hn]; omega

omit [DecidableEq κ] in
theorem sorted_place_nat {ν : Type} (m : KMap Nat ν) (k : Nat) (v : ν)
    (hs : (m.map (·.1)).Pairwise (· < ·)) (hk : k ∉ keys m) : ((place m k v).map (·.1)).Pairwise (· < ·) := by
  induction m with
  | nil => simp [place]
  | cons p t ih =>
    obtain ⟨a, b⟩ := p
    rw [List.map_cons, List.pairwise_cons] at hs
    have hka : k ≠ a := by intro e; apply hk; simp [keys, e]
    have hkt : k ∉ keys t := by intro e; apply hk; simp only [keys, List.map_cons, List.mem_cons]; exact Or.inr e
    unfold place
    by_cases h2 : KOrd.lt k a = true
    · have hlt : k < a := by simpa [KOrd.lt] using h2
      simp only [h2, if_true, List.map_cons, List.pairwise_cons]
      refine ⟨?_, hs⟩
      intro x hx
      cases hx with
      | head => exact hlt
      | tail _ hx' => have := hs.1 x hx'; omega
    · have hge : ¬ k < a := by simpa [KOrd.lt] using h2
      simp only [h2, if_false, Bool.false_eq_true, List.map_cons, List.pairwise_cons]
      refine ⟨?_, ih hs.2 hkt⟩
      intro x hx
      have hx' : x ∈ keys (place t k v) := hx
      rcases (mem_keys_place t k v x).mp hx' with e | e
      · omega
      · exact hs.1 x e

theorem sorted_insert_nat {ν : Type} (m : KMap Nat ν) (k : Nat) (v : ν)
    (hs : (m.map (·.1)).Pairwise (· < ·)) : ((insert m k v).map (·.1)).Pairwise (· < ·) := by
  unfold insert
  apply sorted_place_nat
  · unfold erase
    rw [List.pairwise_map] at hs ⊢
    exact hs.filter _
  · intro hm; exact ((mem_keys_erase m k k).mp hm).2 rfl

theorem sorted_erase_nat {ν : Type} (m : KMap Nat ν) (k : Nat)
    (hs : (m.map (·.1)).Pairwise (· < ·)) : ((erase m k).map (·.1)).Pairwise (· < ·) := by
  unfold erase
  rw [List.pairwise_map] at hs ⊢
  exact hs.filter _

end TxStore.KMap

namespace TxStore.KMap
variable {κ ν : Type} [DecidableEq κ]

theorem erase_place_self [KOrd κ] (m : KMap κ ν) (k : κ) (v : ν) : erase (place m k v) k = erase m k := by
  induction m with
  | nil => simp [place, erase]
  | cons p t ih =>
    obtain ⟨a, b⟩ := p
    unfold place
    by_cases h2 : KOrd.lt k a = true
    · simp [h2, erase, List.filter_cons]
    · simp only [h2, if_false, Bool.false_eq_true]
      unfold erase at ih ⊢
      simp only [List.filter_cons, ih]

theorem erase_erase (m : KMap κ ν) (k : κ) : erase (erase m k) k = erase m k := by
  unfold erase; rw [List.filter_filter]; simp

theorem insert_insert [KOrd κ] (m : KMap κ ν) (k : κ) (v w : ν) : insert (insert m k v) k w = insert m k w := by
  unfold insert
  rw [erase_place_self, erase_erase]

/-- erasing the last (greatest) key of a sorted `Nat`-keyed bucket removes exactly the last entry -/
theorem erase_last_nat {ν : Type} (init : KMap Nat ν) (h : Nat) (v : ν)
    (hs : ((init ++ [(h, v)]).map (·.1)).Pairwise (· < ·)) : erase (init ++ [(h, v)]) h = init := by
  unfold erase
  rw [List.filter_append]
  have h1 : List.filter (fun p : Nat × ν => !decide (p.1 = h)) init = init := by
    rw [List.filter_eq_self]
    intro q hq
    rw [List.map_append, List.pairwise_append] at hs
    have := hs.2.2 q.1 (List.mem_map.mpr ⟨q, hq, rfl⟩) h (by simp)
    have : q.1 ≠ h := by omega
    simp [this]
  rw [h1]; simp

end TxStore.KMap
