import BtcwVerif.Lemmas.AddrInvOps
/-! Per-operation preservation of `Inv` (official tree, `Cfg.fixed`). -/
set_option linter.unusedSectionVars false
set_option linter.unusedVariables false
set_option linter.unusedSimpArgs false
namespace AddrDerive
open AddrSym

variable {K P : Type} [DecidableEq K] [DecidableEq P]

/-- common tail of `loadAndCacheAddress` (chained row) and `DeriveFromKeyPath` -/
theorem Inv.addChained {hd : HD K P} (hlaw : hd.Lawful) {s1 : State K P} (h1 : Inv hd s1) {sc : Scope} {acct : Nat}
    {ai : AcctInfo K P} (hc : cacheAt s1 sc acct = some ai) {sm1 : ScopeMem K P} (hsm : getSM s1 sc = some sm1)
    {priv : Bool} (hpriv : priv = (!s1.mem.locked && !s1.mem.watchOnly && ai.keyPriv.isSome))
    {b i : Nat} {typ : AddrType} {ac fp : Nat} {o : KeyObj K P}
    (hm : mkChained hd sc acct ai priv b i typ ac fp = some o) (addrs' : List (AddrId P × Nat)) :
    Inv hd (putSM (alloc s1 (.key o)).1 sc
      { sm1 with addrs := addrs', dou := if priv then sm1.dou else sm1.dou ++ [(s1.mem.heap.length, b, i)] }) := by
  obtain ⟨hok, e1, e2, e3, e4, e5, e6, e7, e8, e9⟩ := mkChained_ok hlaw h1 hc hm
  obtain ⟨row, hr, hcok⟩ := h1.cache sc acct ai hc
  apply h1.addObj hsm o hok
  · cases priv with
    | true => exact Or.inl rfl
    | false =>
      obtain ⟨p, hp1, hp2⟩ := e9 rfl
      refine Or.inr ⟨by simp [e3, e4], e1, e5, by rw [e2, hc]; rfl, ai.keyPub, p, e7, by rw [e3, e4]; exact hp1, hp2⟩
  · intro _ hpa hw
    cases priv with
    | true => exact Or.inl (e8 rfl)
    | false =>
      cases hlk : s1.mem.locked with
      | true => exact Or.inr ⟨rfl, e1, by simp [e3, e4]⟩
      | false =>
        exfalso
        rw [e6] at hpa
        have := hcok.unlocked hlk
        rw [hlk, hw, this] at hpriv
        simp [hpa] at hpriv

theorem opDerive_inv {hd : HD K P} (hlaw : hd.Lawful) {s : State K P} (h : Inv hd s) (sc : Scope) (acct ac b i hh : Nat) :
    Inv hd (opDerive hd s sc acct ac b i hh).1 := by
  unfold opDerive
  split
  · exact h
  · rename_i s1 ai hl
    obtain ⟨h1, hc, hf, sm, sd, hsm, hsd⟩ := loadAcct_spec h hl
    simp only [hsm]
    split
    · exact h1
    · rename_i o hm
      simp only [getSM_alloc, hsm]
      exact (h1.addChained hlaw hc hsm rfl hm sm.addrs).bindH _ _

/-- an imported key object is well-formed whatever the state -/
theorem impObj_ok {hd : HD K P} (s : State K P) (sc : Scope) (k : Nat) (hasPriv comp : Bool) (typ : AddrType) :
    KeyObjOK hd s (KeyObj.mk sc importedAcct 0 0 0 0 (.imp k) (if hasPriv then some (.imp k) else none) typ true false
      comp none false : KeyObj K P) := by
  refine ⟨?_, by simp, fun _ => ⟨k, rfl⟩⟩
  intro k' hk'
  cases hasPriv <;> simp at hk'
  subst hk'; rfl

theorem opLookup_inv {hd : HD K P} (hlaw : hd.Lawful) {s : State K P} (h : Inv hd s) (sc : Scope) (id : AddrId P) (hh : Nat) :
    Inv hd (opLookup hd s sc id hh).1 := by
  unfold opLookup
  split
  · rename_i sm sd hsm0 hsd0
    split
    · split
      · exact h.bindH _ _
      · exact h
    · split
      · exact h
      · rename_i acct b i hrow
        split
        · exact h
        · rename_i s1 ai hl
          obtain ⟨h1, hc, hf, sm1, sd1, hsm, hsd⟩ := loadAcct_spec h hl
          dsimp only
          split
          · exact h1
          · rename_i o hm
            simp only [getSM_alloc, hsm]
            exact (h1.addChained hlaw hc hsm rfl hm _).bindH _ _
      · rename_i k comp hasPriv hrow
        simp only [getSM_alloc, hsm0]
        refine (h.addObj hsm0 _ (impObj_ok s sc k hasPriv comp sm.schema.ext) _ sm.dou (Or.inl rfl) ?_).bindH _ _
        intro hni; simp at hni
      · rename_i k kind secret encKey hrow
        simp only [getSM_alloc, hsm0]
        exact (h.addScr hsm0 _ _).bindH _ _
  · exact h

/-- writing a non-chained address row keeps the invariant -/
theorem Inv.putNonChain {hd : HD K P} {s : State K P} (h : Inv hd s) {sc : Scope} {sd : ScopeDisk K P}
    (hsd : getSD s sc = some sd) (id : AddrId P) (row : AddrRow) (hrow : ∀ a b i, row ≠ .chain a b i) :
    Inv hd (putSD s sc { sd with addrs := aset sd.addrs id row }) := by
  refine h.diskUpd hsd _ rfl rfl (fun _ => rfl) ?_
  intro id' a b i hr
  rw [alookup_aset] at hr
  by_cases hid : id = id'
  · simp [hid] at hr; exact absurd hr (hrow a b i)
  · simp [hid] at hr; exact Or.inl hr

theorem importKey_inv {hd : HD K P} {s : State K P} (h : Inv hd s) (sc : Scope) (k : Nat) (comp wp : Bool) (hh : Nat) :
    Inv hd (importKey s sc k comp wp hh).1 := by
  unfold importKey
  split
  · rename_i sm sd hsm hsd
    dsimp only
    split
    · exact h
    · have h1 := h.putNonChain hsd (.key (.imp k) (idClass sm.schema.ext) (comp || sm.schema.ext == .p2tr))
        (AddrRow.imp k comp wp) (by intro a b i hc; cases hc)
      simp only [getSM_alloc, getSM_putSD, hsm]
      refine (h1.addObj (sc := sc) (sm := sm) (by simpa using hsm) _ (impObj_ok _ sc k wp comp sm.schema.ext) _ sm.dou (Or.inl rfl) ?_).bindH _ _
      intro hni; simp at hni
  · exact h

theorem opImportPriv_inv {hd : HD K P} {s : State K P} (h : Inv hd s) (sc : Scope) (k : Nat) (comp : Bool) (hh : Nat) :
    Inv hd (opImportPriv s sc k comp hh).1 := by
  unfold opImportPriv
  split
  · exact h
  · exact importKey_inv h _ _ _ _ _

theorem opImportScript_inv {hd : HD K P} (cfg : Cfg) {s : State K P} (h : Inv hd s) (sc : Scope) (k kind : Nat) (sec : Bool) (hh : Nat) :
    Inv hd (opImportScript cfg s sc k kind sec hh).1 := by
  unfold opImportScript
  split
  · exact h
  · split
    · exact h
    · split
      · rename_i sm sd hsm hsd
        dsimp only
        split
        · exact h
        · have h1 := h.putNonChain hsd (.scr k kind)
            (AddrRow.scr k kind sec (some (if sec then memScriptKey cfg else KeyClass.pub))) (by intro a b i hc; cases hc)
          simp only [getSM_alloc, getSM_putSD, hsm]
          exact (h1.addScr (sc := sc) (sm := sm) (by simpa using hsm) _ _).bindH _ _
      · exact h

theorem opMarkUsed_inv {hd : HD K P} {s : State K P} (h : Inv hd s) (sc : Scope) (id : AddrId P) (d : String) :
    Inv hd (opMarkUsed s sc id d).1 := by
  unfold opMarkUsed
  split
  · rename_i sm sd hsm hsd
    dsimp only
    have h1 : Inv hd (putSD s sc (if sd.used.contains id = true then sd else { sd with used := id :: sd.used })) := by
      refine h.diskUpd hsd _ ?_ ?_ ?_ ?_
      · split <;> rfl
      · split <;> rfl
      · intro a; split <;> rfl
      · intro id' a b i hr
        split at hr <;> exact Or.inl hr
    exact h1.setAddrs (sc := sc) (sm := sm) (by simpa using hsm) _
  · exact h

end AddrDerive
