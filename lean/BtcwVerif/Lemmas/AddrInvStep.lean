import BtcwVerif.Lemmas.AddrInvOps
import BtcwVerif.Lemmas.AddrIdx
/-! Per-operation preservation of `Inv` (official tree, `Cfg.fixed`). -/
set_option linter.unusedSectionVars false
set_option linter.unusedVariables false
set_option linter.unusedSimpArgs false
namespace AddrDerive
open AddrSym

variable {K P : Type} [DecidableEq K] [DecidableEq P]

/-- common tail of `loadAndCacheAddress` (chained row) and `DeriveFromKeyPath` -/
theorem Inv.addChained {hd : HD K P} (hlaw : hd.Lawful) {s1 : State K P} (h1 : Inv hd s1) {sc : Scope} {acct : Nat}
    {ai : AcctInfo K P} (hc : cacheAt s1 sc acct = some ai) {sm1 : ScopeMem K P} (hsm : getSM s1 sc = some sm1)
    {priv : Bool} (hpriv : priv = (!s1.mem.locked && !s1.mem.watchOnly && ai.keyPriv.isSome))
    {b i : Nat} {typ : AddrType} {ac fp : Nat} {o : KeyObj K P}
    (hm : mkChained hd sc acct ai priv b i typ ac fp = some o) (addrs' : List (AddrId P × Nat)) :
    Inv hd (putSM (alloc s1 (.key o)).1 sc
      { sm1 with addrs := addrs', dou := if priv then sm1.dou else sm1.dou ++ [(s1.mem.heap.length, b, i)] }) := by
  obtain ⟨hok, e1, e2, e3, e4, e5, e6, e7, e8, e9⟩ := mkChained_ok hlaw h1 hc hm
  obtain ⟨row, hr, hcok⟩ := h1.cache sc acct ai hc
  apply h1.addObj hsm o hok
  · cases priv with
    | true => exact Or.inl rfl
    | false =>
      obtain ⟨p, hp1, hp2⟩ := e9 rfl
      refine Or.inr ⟨by simp [e3, e4], e1, e5, by rw [e2, hc]; rfl, ai.keyPub, p, e7, by rw [e3, e4]; exact hp1, hp2⟩
  · intro _ hpa hw
    cases priv with
    | true => exact Or.inl (e8 rfl)
    | false =>
      cases hlk : s1.mem.locked with
      | true => exact Or.inr ⟨rfl, e1, by simp [e3, e4]⟩
      | false =>
        exfalso
        rw [e6] at hpa
        have := hcok.unlocked hlk
        rw [hlk, hw, this] at hpriv
        simp [hpa] at hpriv

theorem opDerive_inv {hd : HD K P} (hlaw : hd.Lawful) {s : State K P} (h : Inv hd s) (sc : Scope) (acct ac b i hh : Nat) :
    Inv hd (opDerive hd s sc acct ac b i hh).1 := by
  unfold opDerive
  split
  · exact h
  · rename_i s1 ai hl
    obtain ⟨h1, hc, hf, sm, sd, hsm, hsd⟩ := loadAcct_spec h hl
    simp only [hsm]
    split
    · exact h1
    · rename_i o hm
      simp only [getSM_alloc, hsm]
      exact (h1.addChained hlaw hc hsm rfl hm sm.addrs).bindH _ _

/-- an imported key object is well-formed whatever the state -/
theorem impObj_ok {hd : HD K P} (s : State K P) (sc : Scope) (k : Nat) (hasPriv comp : Bool) (typ : AddrType) :
    KeyObjOK hd s (KeyObj.mk sc importedAcct 0 0 0 0 (.imp k) (if hasPriv then some (.imp k) else none) typ true false
      comp none false : KeyObj K P) := by
  refine ⟨?_, by simp, fun _ => ⟨k, rfl⟩⟩
  intro k' hk'
  cases hasPriv <;> simp at hk'
  subst hk'; rfl

theorem opLookup_inv {hd : HD K P} (hlaw : hd.Lawful) {s : State K P} (h : Inv hd s) (sc : Scope) (id : AddrId P) (hh : Nat) :
    Inv hd (opLookup hd s sc id hh).1 := by
  unfold opLookup
  split
  · rename_i sm sd hsm0 hsd0
    split
    · split
      · exact h.bindH _ _
      · exact h
    · split
      · exact h
      · rename_i acct b i hrow
        split
        · exact h
        · rename_i s1 ai hl
          obtain ⟨h1, hc, hf, sm1, sd1, hsm, hsd⟩ := loadAcct_spec h hl
          dsimp only
          split
          · exact h1
          · rename_i o hm
            simp only [getSM_alloc, hsm]
            exact (h1.addChained hlaw hc hsm rfl hm _).bindH _ _
      · rename_i k comp hasPriv hrow
        simp only [getSM_alloc, hsm0]
        refine (h.addObj hsm0 _ (impObj_ok s sc k hasPriv comp sm.schema.ext) _ sm.dou (Or.inl rfl) ?_).bindH _ _
        intro hni; simp at hni
      · rename_i k kind secret encKey hrow
        simp only [getSM_alloc, hsm0]
        exact (h.addScr hsm0 _ _).bindH _ _
  · exact h

/-- writing a non-chained address row keeps the invariant -/
theorem Inv.putNonChain {hd : HD K P} {s : State K P} (h : Inv hd s) {sc : Scope} {sd : ScopeDisk K P}
    (hsd : getSD s sc = some sd) (id : AddrId P) (row : AddrRow) (hrow : ∀ a b i, row ≠ .chain a b i) :
    Inv hd (putSD s sc { sd with addrs := aset sd.addrs id row }) := by
  refine h.diskUpd hsd _ rfl rfl (fun _ => rfl) ?_
  intro id' a b i hr
  rw [alookup_aset] at hr
  by_cases hid : id = id'
  · simp [hid] at hr; exact absurd hr (hrow a b i)
  · simp [hid] at hr; exact Or.inl hr

theorem importKey_inv {hd : HD K P} {s : State K P} (h : Inv hd s) (sc : Scope) (k : Nat) (comp wp : Bool) (hh : Nat) :
    Inv hd (importKey s sc k comp wp hh).1 := by
  unfold importKey
  split
  · rename_i sm sd hsm hsd
    dsimp only
    split
    · exact h
    · have h1 := h.putNonChain hsd (.key (.imp k) (idClass sm.schema.ext) (comp || sm.schema.ext == .p2tr))
        (AddrRow.imp k comp wp) (by intro a b i hc; cases hc)
      simp only [getSM_alloc, getSM_putSD, hsm]
      refine (h1.addObj (sc := sc) (sm := sm) (by simpa using hsm) _ (impObj_ok _ sc k wp comp sm.schema.ext) _ sm.dou (Or.inl rfl) ?_).bindH _ _
      intro hni; simp at hni
  · exact h

theorem opImportPriv_inv {hd : HD K P} {s : State K P} (h : Inv hd s) (sc : Scope) (k : Nat) (comp : Bool) (hh : Nat) :
    Inv hd (opImportPriv s sc k comp hh).1 := by
  unfold opImportPriv
  split
  · exact h
  · exact importKey_inv h _ _ _ _ _

theorem opImportScript_inv {hd : HD K P} (cfg : Cfg) {s : State K P} (h : Inv hd s) (sc : Scope) (k kind : Nat) (sec : Bool) (hh : Nat) :
    Inv hd (opImportScript cfg s sc k kind sec hh).1 := by
  unfold opImportScript
  split
  · exact h
  · split
    · exact h
    · split
      · rename_i sm sd hsm hsd
        dsimp only
        split
        · exact h
        · have h1 := h.putNonChain hsd (.scr k kind)
            (AddrRow.scr k kind sec (some (if sec then memScriptKey cfg else KeyClass.pub))) (by intro a b i hc; cases hc)
          simp only [getSM_alloc, getSM_putSD, hsm]
          exact (h1.addScr (sc := sc) (sm := sm) (by simpa using hsm) _ _).bindH _ _
      · exact h

theorem opMarkUsed_inv {hd : HD K P} {s : State K P} (h : Inv hd s) (sc : Scope) (id : AddrId P) (d : String) :
    Inv hd (opMarkUsed s sc id d).1 := by
  unfold opMarkUsed
  split
  · rename_i sm sd hsm hsd
    dsimp only
    have h1 : Inv hd (putSD s sc (if sd.used.contains id = true then sd else { sd with used := id :: sd.used })) := by
      refine h.diskUpd hsd _ ?_ ?_ ?_ ?_
      · split <;> rfl
      · split <;> rfl
      · intro a; split <;> rfl
      · intro id' a b i hr
        split at hr <;> exact Or.inl hr
    exact h1.setAddrs (sc := sc) (sm := sm) (by simpa using hsm) _
  · exact h

-- ---------------------------------------------------------------------------------------------------------
-- nextAddresses / extendAddresses

/-- an object about to be issued by `nextAddresses` / `extendAddresses` in scope `sc` -/
structure Pend (hd : HD K P) (s : State K P) (sc : Scope) (toDou : Bool) (o : KeyObj K P) : Prop where
  ok : KeyObjOK hd s o
  scope : o.scope = sc
  notImp : o.imported = false
  cached : (cacheAt s sc o.acct).isSome
  pub : ∃ row p, acctRow s sc o.acct = some row ∧ o.acctPub = some (rowPub row) ∧
    derive2pub hd (rowPub row) o.branch o.index = some p ∧ o.pub = .hd p
  sign : o.hasPrivAcct = true → s.mem.watchOnly = false → o.privEnc.isSome ∨ (s.mem.locked = true ∧ toDou = true)

structure KeyFrame (s s' : State K P) : Prop where
  locked : s'.mem.locked = s.mem.locked
  mwo : s'.mem.watchOnly = s.mem.watchOnly
  dwo : s'.disk.watchOnly = s.disk.watchOnly
  key : ∀ sc a, (acctRow s' sc a).map rowKey = (acctRow s sc a).map rowKey
  cmono : ∀ sc a, (cacheAt s sc a).isSome → (cacheAt s' sc a).isSome

theorem Pend.mono {hd : HD K P} {s s' : State K P} {sc : Scope} {t : Bool} {o : KeyObj K P} (f : KeyFrame s s')
    (p : Pend hd s sc t o) : Pend hd s' sc t o := by
  refine ⟨KeyObjOK.congr f.key f.dwo p.ok, p.scope, p.notImp, f.cmono _ _ p.cached, ?_, ?_⟩
  · obtain ⟨row, q, h1, h2, h3, h4⟩ := p.pub
    obtain ⟨row', hr', hk⟩ := acctRow_of_key (f.key sc o.acct) h1
    have hp := rowKey_pub _ _ hk
    exact ⟨row', q, hr', by rw [hp]; exact h2, by rw [hp]; exact h3, h4⟩
  · rw [f.mwo, f.locked]; exact p.sign

theorem rowKey_setNext (row : AcctRow K P) (int : Bool) (n : Nat) : rowKey (setNext row int n) = rowKey row := by
  cases row <;> cases int <;> simp [setNext, rowKey]

theorem bumpAcctRow_frame (sc : Scope) (sd : ScopeDisk K P) (a b i : Nat) :
    (bumpAcctRow sc sd a b i).1.coinPriv = sd.coinPriv ∧ (bumpAcctRow sc sd a b i).1.lastAcct = sd.lastAcct ∧
    (bumpAcctRow sc sd a b i).1.addrs = sd.addrs ∧ (bumpAcctRow sc sd a b i).1.schema = sd.schema ∧
    (bumpAcctRow sc sd a b i).1.used = sd.used ∧
    ∀ a', (alookup (bumpAcctRow sc sd a b i).1.accts a').map rowKey = (alookup sd.accts a').map rowKey := by
  unfold bumpAcctRow
  split
  · rename_i row hrow
    refine ⟨rfl, rfl, rfl, rfl, rfl, ?_⟩
    intro a'
    simp only [alookup_aset]
    by_cases ha : a = a'
    · subst ha; simp [hrow, rowKey_setNext]
    · simp [ha]
  · exact ⟨rfl, rfl, rfl, rfl, rfl, fun _ => rfl⟩

/-- the state after issuing one object -/
def issueOne (sc : Scope) (toDou : Bool) (o : KeyObj K P) (s : State K P) (sm : ScopeMem K P) (sd : ScopeDisk K P) : State K P :=
  putSM (putSD (alloc s (.key o)).1 sc
      (bumpAcctRow sc { sd with addrs := aset sd.addrs (chainId o) (AddrRow.chain o.acct o.branch o.index) } o.acct o.branch o.index).1) sc
    { sm with addrs := aset sm.addrs (chainId o) s.mem.heap.length,
              dou := if toDou then sm.dou ++ [(s.mem.heap.length, o.branch, o.index)] else sm.dou }

theorem issueOne_inv {hd : HD K P} {s : State K P} (h : Inv hd s) {sc : Scope} {sm : ScopeMem K P} {sd : ScopeDisk K P}
    (hsm : getSM s sc = some sm) (hsd : getSD s sc = some sd) {toDou : Bool} {o : KeyObj K P} (p : Pend hd s sc toDou o) :
    Inv hd (issueOne sc toDou o s sm sd) ∧ KeyFrame s (issueOne sc toDou o s sm sd) := by
  obtain ⟨row, q, hr, hap, hq, hpub⟩ := p.pub
  have hA := h.addObj hsm o p.ok (aset sm.addrs (chainId o) s.mem.heap.length)
    (if toDou then sm.dou ++ [(s.mem.heap.length, o.branch, o.index)] else sm.dou)
    (by
      cases toDou with
      | false => exact Or.inl rfl
      | true => exact Or.inr ⟨rfl, p.scope, p.notImp, p.cached, rowPub row, q, hap, hq, hpub⟩)
    (by
      intro _ hpa hw
      rcases p.sign hpa hw with h1 | ⟨h1, h2⟩
      · exact Or.inl h1
      · exact Or.inr ⟨h1, p.scope, by simp [h2]⟩)
  have hbf := bumpAcctRow_frame sc { sd with addrs := aset sd.addrs (chainId o) (AddrRow.chain o.acct o.branch o.index) } o.acct o.branch o.index
  obtain ⟨b1, b2, b3, b4, b5, b6⟩ := hbf
  have hrow_sd : alookup sd.accts o.acct = some row := by rw [← acctRow_of_getSD hsd]; exact hr
  have hB := hA.diskUpd (sc := sc) (sd := sd) (by simpa using hsd)
    (bumpAcctRow sc { sd with addrs := aset sd.addrs (chainId o) (AddrRow.chain o.acct o.branch o.index) } o.acct o.branch o.index).1
    b1 b2 b6 (by
      intro id a b i hlk
      rw [b3] at hlk
      simp only [alookup_aset] at hlk
      by_cases hid : chainId o = id
      · simp [hid] at hlk
        obtain ⟨rfl, rfl, rfl⟩ := hlk
        have := b6 o.acct
        rw [hrow_sd] at this
        cases hrow' : alookup (bumpAcctRow sc { sd with addrs := aset sd.addrs (chainId o) (AddrRow.chain o.acct o.branch o.index) } o.acct o.branch o.index).1.accts o.acct with
        | none => simp [hrow'] at this
        | some row' =>
          simp [hrow'] at this
          refine Or.inr ⟨row', q, idClass o.typ, rfl, by rw [rowKey_pub _ _ this]; exact hq, ?_⟩
          rw [← hid]; simp [chainId, hpub]
      · simp [hid] at hlk; exact Or.inl hlk)
  refine ⟨hB, rfl, rfl, rfl, ?_, ?_⟩
  · intro sc' a
    show (acctRow (putSM (putSD _ _ _) _ _) sc' a).map rowKey = _
    rw [acctRow_putSM, acctRow_putSD]
    by_cases hsc : sc = sc'
    · subst hsc; simp only [if_true, acctRow_alloc, acctRow_of_getSD hsd]; exact b6 a
    · simp [hsc]
  · intro sc' a hc
    show (cacheAt (putSM (putSD _ _ _) _ _) sc' a).isSome
    rw [cacheAt_putSM]
    by_cases hsc : sc = sc'
    · subst hsc; simp only [if_true]; rw [← cacheAt_of_getSM hsm]; exact hc
    · simp [hsc]; exact hc

theorem issueAll_inv {hd : HD K P} (sc : Scope) (toDou : Bool) (objs : List (KeyObj K P)) :
    ∀ (s : State K P) (rows : List Row) (idxs : List Nat), Inv hd s → (∀ o ∈ objs, Pend hd s sc toDou o) →
      Inv hd (issueAll sc toDou objs s rows idxs).1 ∧ KeyFrame s (issueAll sc toDou objs s rows idxs).1 := by
  induction objs with
  | nil =>
    intro s rows idxs h _
    exact ⟨h, rfl, rfl, rfl, fun _ _ => rfl, fun _ _ x => x⟩
  | cons o rest ih =>
    intro s rows idxs h hp
    unfold issueAll
    split
    · rename_i sm sd hsm hsd
      obtain ⟨h2, f2⟩ := issueOne_inv h hsm hsd (hp o List.mem_cons_self)
      obtain ⟨h3, f3⟩ := ih (issueOne sc toDou o s sm sd) _ _ h2 (fun o' ho' => (hp o' (List.mem_cons_of_mem _ ho')).mono f2)
      exact ⟨h3, f3.locked.trans f2.locked, f3.mwo.trans f2.mwo, f3.dwo.trans f2.dwo,
        fun sc' a => (f3.key sc' a).trans (f2.key sc' a), fun sc' a x => f3.cmono _ _ (f2.cmono _ _ x)⟩
    · exact ⟨h, rfl, rfl, rfl, fun _ _ => rfl, fun _ _ x => x⟩

/-- replacing a cached account info by one with the same keys (the counters may differ) -/
theorem Inv.setCache {hd : HD K P} {s : State K P} (h : Inv hd s) {sc : Scope} {sm : ScopeMem K P}
    (hsm : getSM s sc = some sm) {acct : Nat} {ai ai' : AcctInfo K P} (hai : alookup sm.acctInfo acct = some ai)
    (e1 : ai'.keyPub = ai.keyPub) (e2 : ai'.keyEnc = ai.keyEnc) (e3 : ai'.keyPriv = ai.keyPriv) :
    Inv hd (putSM s sc { sm with acctInfo := aset sm.acctInfo acct ai' }) ∧
      KeyFrame s (putSM s sc { sm with acctInfo := aset sm.acctInfo acct ai' }) := by
  have hd' : ∀ sc', douAt (putSM s sc { sm with acctInfo := aset sm.acctInfo acct ai' }) sc' = douAt s sc' := by
    intro sc'; rw [douAt_putSM]
    by_cases hsc : sc = sc'
    · subst hsc; simp [douAt_of_getSM hsm]
    · simp [hsc]
  have hcm : ∀ sc' a, (cacheAt s sc' a).isSome → (cacheAt (putSM s sc { sm with acctInfo := aset sm.acctInfo acct ai' }) sc' a).isSome := by
    intro sc' a hc
    rw [cacheAt_putSM]
    by_cases hsc : sc = sc'
    · subst hsc
      simp only [if_true, alookup_aset]
      by_cases ha : acct = a
      · simp [ha]
      · simp [ha]; rw [← cacheAt_of_getSM hsm]; exact hc
    · simp [hsc]; exact hc
  refine ⟨?_, rfl, rfl, rfl, fun _ _ => rfl, hcm⟩
  refine h.extend rfl rfl rfl rfl rfl rfl (fun _ => rfl) (fun _ => rfl) (fun _ _ => rfl) (fun _ _ _ _ _ hr => Or.inl hr)
    ?_ hcm [] (by simp) (by intro o' ho'; cases ho') (fun sc' e he => Or.inl (by rw [hd'] at he; exact he))
    (fun sc' e he => by rw [hd']; exact he) ?_
  · intro sc' a ai2 hc
    rw [cacheAt_putSM] at hc
    by_cases hsc : sc = sc'
    · subst hsc
      simp only [if_true, alookup_aset] at hc
      by_cases ha : acct = a
      · subst ha
        simp at hc; subst hc
        exact Or.inl ⟨ai, by rw [cacheAt_of_getSM hsm]; exact hai, e1, e2, e3⟩
      · simp [ha] at hc
        exact Or.inl ⟨ai2, by rw [cacheAt_of_getSM hsm]; exact hc, rfl, rfl, rfl⟩
    · simp [hsc] at hc; exact Or.inl ⟨ai2, hc, rfl, rfl, rfl⟩
  · intro idx o' hge ho'
    simp at ho'
    rw [List.getElem?_eq_none hge] at ho'
    cases ho'

theorem KeyFrame.trans {s s' s'' : State K P} (f : KeyFrame s s') (g : KeyFrame s' s'') : KeyFrame s s'' :=
  ⟨g.locked.trans f.locked, g.mwo.trans f.mwo, g.dwo.trans f.dwo, fun sc a => (g.key sc a).trans (f.key sc a),
    fun sc a x => g.cmono _ _ (f.cmono _ _ x)⟩

theorem KeyFrame.refl (s : State K P) : KeyFrame s s := ⟨rfl, rfl, rfl, fun _ _ => rfl, fun _ _ x => x⟩

theorem commitIssue_inv {hd : HD K P} {s : State K P} (h : Inv hd s) (sc : Scope) (acct : Nat) (internal toDou : Bool)
    (objs : List (KeyObj K P)) (nn : Nat) (hp : ∀ o ∈ objs, Pend hd s sc toDou o) :
    Inv hd (commitIssue s sc acct internal toDou objs nn).1 := by
  obtain ⟨h1, f1⟩ := issueAll_inv sc toDou objs s [] [] h hp
  unfold commitIssue
  rcases hi : issueAll sc toDou objs s [] [] with ⟨s1, rows, idxs⟩
  rw [hi] at h1
  simp only at h1 ⊢
  split
  · rename_i sm hsm
    split
    · rename_i ai hai
      dsimp only
      cases internal
      · simp only [Bool.false_eq_true, if_false]; exact (h1.setCache (ai' := { ai with nextExt := nn }) hsm hai rfl rfl rfl).1
      · simp only [if_true]; exact (h1.setCache (ai' := { ai with nextInt := nn }) hsm hai rfl rfl rfl).1
    · exact h1
  · exact h1

theorem mkAll_mem (hd : HD K P) (sc : Scope) (acct : Nat) (ai : AcctInfo K P) (usePriv : Bool) (b : Nat) (typ : AddrType)
    (ac fp : Nat) : ∀ (idxs : List Nat) (objs : List (KeyObj K P)), mkAll hd sc acct ai usePriv b typ ac fp idxs = some objs →
      ∀ o ∈ objs, ∃ i ∈ idxs, mkChained hd sc acct ai usePriv b i typ ac fp = some o := by
  intro idxs
  induction idxs with
  | nil => intro objs h; simp [mkAll] at h; subst h; intro o ho; cases ho
  | cons i t ih =>
    intro objs h
    unfold mkAll at h
    split at h
    · rename_i o os ho hos
      cases h
      intro o' ho'
      rcases List.mem_cons.mp ho' with rfl | ho'
      · exact ⟨i, List.mem_cons_self, ho⟩
      · obtain ⟨j, hj, hm⟩ := ih os hos o' ho'
        exact ⟨j, List.mem_cons_of_mem _ hj, hm⟩
    · cases h

theorem mkAll_pend {hd : HD K P} (hlaw : hd.Lawful) (hn : hd.NoHardPub) {s1 : State K P} (h1 : Inv hd s1) {sc : Scope}
    {acct : Nat} {ai : AcctInfo K P} (hc : cacheAt s1 sc acct = some ai) {usePriv toDou : Bool} {b : Nat} {typ : AddrType}
    {ac fp : Nat} {idxs : List Nat} {objs : List (KeyObj K P)}
    (hvalid : ∀ i ∈ idxs, (derive2pub hd ai.keyPub b i).isSome)
    (hm : mkAll hd sc acct ai usePriv b typ ac fp idxs = some objs)
    (hsign : ai.keyEnc.isSome → s1.mem.watchOnly = false → usePriv = true ∨ (s1.mem.locked = true ∧ toDou = true)) :
    ∀ o ∈ objs, Pend hd s1 sc toDou o := by
  intro o ho
  obtain ⟨i, hi, hmk⟩ := mkAll_mem hd sc acct ai usePriv b typ ac fp idxs objs hm o ho
  obtain ⟨hok, e1, e2, e3, e4, e5, e6, e7, e8, e9⟩ := mkChained_ok hlaw h1 hc hmk
  obtain ⟨row, hr, hcok⟩ := h1.cache sc acct ai hc
  have hv := hvalid i hi
  cases hq : derive2pub hd ai.keyPub b i with
  | none => simp [hq] at hv
  | some q =>
    obtain ⟨hb, hi'⟩ := derive2pub_nonhard hd hn _ _ _ _ hq
    obtain ⟨row', hr', _, _, hchild, _⟩ := hok.chained e5
    rw [e1, e2, hr] at hr'
    cases hr'
    obtain ⟨p, hp1, hp2⟩ := hchild (by rw [e3]; exact hb) (by rw [e4]; exact hi')
    refine ⟨hok, e1, e5, by rw [e2, hc]; rfl, ⟨row, p, by rw [e2]; exact hr, by rw [e7, hcok.pub], hp1, hp2⟩, ?_⟩
    intro hpa hw
    rw [e6] at hpa
    rcases hsign hpa hw with h2 | h2
    · exact Or.inl (e8 h2)
    · exact Or.inr h2

theorem bindAll_inv {hd : HD K P} : ∀ (l : List Nat) (hb : Nat) (s : State K P), Inv hd s → Inv hd (bindAll l hb s) := by
  intro l
  induction l with
  | nil => intro hb s h; exact h
  | cons i t ih => intro hb s h; exact ih _ _ (h.bindH _ _)

theorem opNext_inv {hd : HD K P} (hlaw : hd.Lawful) (hn : hd.NoHardPub) {s : State K P} (h : Inv hd s) (sc : Scope)
    (acct n : Nat) (internal : Bool) (hbase : Nat) : Inv hd (opNext hd s sc acct n internal hbase).1 := by
  unfold opNext
  split
  · exact h
  · split
    · exact h
    · rename_i s1 ai hl
      obtain ⟨h1, hc, hf, sm, sd, hsm, hsd⟩ := loadAcct_spec h hl
      simp only [hsm]
      cases internal <;> simp only [if_true, Bool.false_eq_true, if_false]
      all_goals
      split
      · exact h1
      · split
        · exact h1
        · split
          · exact h1
          · split
            · exact h1
            · rename_i idxs hidx
              split
              · exact h1
              · rename_i objs hm
                have hspec := nextIdxs_spec _ _ _ _ hidx
                have hp := mkAll_pend hlaw hn h1 hc (toDou := s1.mem.locked && !(s1.mem.watchOnly || ai.keyEnc.isNone))
                  (fun i hi => (hspec.2.2.2.1 i hi).2.2) hm (by
                    intro he hw
                    cases hlk : s1.mem.locked <;> simp [hlk, hw, he])
                exact bindAll_inv _ _ _ (commitIssue_inv h1 sc acct _ _ objs _ hp)

theorem opExtend_inv {hd : HD K P} (hlaw : hd.Lawful) (hn : hd.NoHardPub) {s : State K P} (h : Inv hd s) (sc : Scope)
    (acct last : Nat) (internal : Bool) : Inv hd (opExtend Cfg.fixed hd s sc acct last internal).1 := by
  unfold opExtend
  split
  · exact h
  · split
    · exact h
    · rename_i s1 ai hl
      obtain ⟨h1, hc, hf, sm, sd, hsm, hsd⟩ := loadAcct_spec h hl
      simp only [hsm]
      cases internal <;> simp only [if_true, Bool.false_eq_true, if_false]
      all_goals
      split
      · exact h1
      · split
        · exact h1
        · split
          · exact h1.poison
          · split
            · exact h1
            · split
              · exact h1
              · rename_i idxs hidx
                split
                · exact h1
                · rename_i objs hm
                  have hspec := extendIdxs_spec _ _ _ _ _ hidx
                  have hp := mkAll_pend hlaw hn h1 hc (toDou := s1.mem.locked && !(s1.mem.watchOnly || ai.keyEnc.isNone))
                    (fun i hi => (hspec.2.2.2.1 i hi).2.2) hm (by
                      intro he hw
                      cases hlk : s1.mem.locked <;> simp [hlk, hw, he])
                  exact commitIssue_inv h1 sc acct _ _ objs _ hp

end AddrDerive
