import BtcwVerif.Lemmas.RefRollback5
/-!
# Refinement, event *disconnected*: the coinbase clean-up and the assembly (`good_disconnected`)
-/
namespace TxStore
open KMap Ledger

/-! ### conflict removal does not look at the balance counter -/

def setBal (b : Int) (s : Store) : Store := { s with minedBalance := b }

def mapOk {α β : Type} (f : α → β) : M α → M β
  | .ok a => .ok (f a)
  | .error e => .error e

theorem foldlM_comm {α : Type} (g : Store → Store) (f : Store → α → M Store)
    (hf : ∀ s a, f (g s) a = mapOk g (f s a)) : ∀ (l : List α) (s : Store),
    l.foldlM f (g s) = mapOk g (l.foldlM f s) := by
  intro l
  induction l with
  | nil => intro s; rfl
  | cons a t ih =>
    intro s
    rw [List.foldlM_cons, List.foldlM_cons, hf]
    cases h : f s a with
    | error e => rfl
    | ok s1 => simp only [mapOk, bind_ok]; exact ih s1

theorem del_setBal (b : Int) (s : Store) (k : OutPoint) (h : Nat) :
    deleteRawUnminedInput (setBal b s) k h = setBal b (deleteRawUnminedInput s k h) := by
  unfold deleteRawUnminedInput setBal
  simp only
  cases s.unminedInputs.find? k with
  | none => rfl
  | some l =>
    simp only
    split
    · rfl
    · split <;> rfl

theorem foldl_del_setBal (b : Int) (h : Nat) : ∀ (l : List OutPoint) (s : Store),
    l.foldl (fun s inp => deleteRawUnminedInput s inp h) (setBal b s) =
      setBal b (l.foldl (fun s inp => deleteRawUnminedInput s inp h) s) := by
  intro l
  induction l with
  | nil => intro s; rfl
  | cons a t ih => intro s; rw [List.foldl_cons, List.foldl_cons, del_setBal, ih]

theorem removeConflict_setBal (b : Int) : ∀ (n : Nat) (s : Store) (t : Tx),
    removeConflict n (setBal b s) t = mapOk (setBal b) (removeConflict n s t) := by
  intro n
  induction n with
  | zero => intro s t; rfl
  | succ n ih =>
    intro s t
    unfold removeConflict
    rw [removeConflictBody_eq, removeConflictBody_eq]
    have hinner : ∀ s h, rcInner (removeConflict n) (setBal b s) h = mapOk (setBal b) (rcInner (removeConflict n) s h) := by
      intro s h
      unfold rcInner
      show (match s.unmined.find? h with | none => pure (setBal b s) | some sp => removeConflict n (setBal b s) sp) = _
      cases s.unmined.find? h with
      | none => rfl
      | some sp => exact ih s sp
    have houter : ∀ s io, rcOuter (removeConflict n) t (setBal b s) io =
        mapOk (setBal b) (rcOuter (removeConflict n) t s io) := by
      intro s io
      unfold rcOuter
      have : spendHashes (setBal b s) ⟨t.hash, io.1⟩ = spendHashes s ⟨t.hash, io.1⟩ := rfl
      rw [this, foldlM_comm (setBal b) _ hinner]
      cases (spendHashes s ⟨t.hash, io.1⟩).foldlM (rcInner (removeConflict n)) s with
      | error e => rfl
      | ok s1 => rfl
    rw [foldlM_comm (setBal b) _ houter]
    cases (withIdx t.outs).foldlM (rcOuter (removeConflict n) t) s with
    | error e => rfl
    | ok s1 =>
      simp only [mapOk, bind_ok, pure_eq]
      rw [foldl_del_setBal]
      rfl

theorem dsOuter_setBal (b : Int) (skip : Nat → Bool) (s : Store) (op : OutPoint) :
    dsOuter skip (setBal b s) op = mapOk (setBal b) (dsOuter skip s op) := by
  unfold dsOuter
  have : spendHashes (setBal b s) op = spendHashes s op := rfl
  rw [this]
  apply foldlM_comm
  intro s h
  unfold dsInner
  split
  · rfl
  · show (match s.unmined.find? h with
        | none => pure (setBal b s)
        | some ds => removeConflict (fuelOf (setBal b s)) (setBal b s) ds) = _
    cases s.unmined.find? h with
    | none => rfl
    | some ds => exact removeConflict_setBal b _ s ds

/-! ### `rollback` in pieces -/

theorem rollback_eq (s : Store) (h : Int) :
    rollback s h = (do
      let r ← (s.blocks.reverse.takeWhile fun p => !decide ((p.1 : Int) < h)).foldlM
        (fun r (p : Nat × BlockRec) => p.2.txs.foldlM (rbTx ⟨p.1, p.2.hash⟩) r) (⟨s, s.minedBalance, []⟩ : RB)
      let s' ← r.cb.foldlM (dsOuter fun _ => false)
        (List.foldl (fun s p => { s with blocks := s.blocks.erase p.1 }) r.s
          (s.blocks.reverse.takeWhile fun p => !decide ((p.1 : Int) < h)))
      pure (setBal r.bal s')) := by
  unfold rollback
  have : (fun s op => (spendHashes s op).foldlM (fun s h =>
        match s.unmined.find? h with
        | none => pure s
        | some t => removeConflict (fuelOf s) s t) s) = dsOuter (fun _ => false) := by
    funext s op
    unfold dsOuter
    congr 1
  rw [← this]
  rfl

/-! ### the ledger after `disconnected` -/

theorem cutTxs_eq (L : Ledger) (h : Int) :
    (cutPairs L h).map (·.1) = (cutBlocks L h).flatMap (·.txs) := by
  unfold cutPairs chainTxsOf
  rw [List.map_flatMap]
  congr 1
  funext b
  rw [List.map_map]
  exact List.map_id' _

/-- a descendant of `c` is `c` itself or a descendant of a pool transaction spending an output of `c` -/
theorem desc_first_step {pool : List Tx} {c x : Nat} (hd : Desc pool c x) :
    x = c ∨ ∃ v ∈ pool, (∃ i ∈ v.ins, i.hash = c) ∧ Desc pool v.hash x := by
  induction hd with
  | refl => exact Or.inl rfl
  | @step b u _ hu hi ih =>
    rcases ih with rfl | ⟨v, hv, hvi, hvd⟩
    · exact Or.inr ⟨u, hu, hi, Desc.refl _⟩
    · exact Or.inr ⟨v, hv, hvi, Desc.step hvd hu hi⟩

/-- **event *disconnected*** -/
theorem good_disconnected {s : Store} {L : Ledger} (hg : Good s L) (now : Nat) (h : Int) :
    ∃ s', stepEvent s now (.disconnected h) = .ok s' ∧ Good s' (Ledger.apply L (.disconnected h)) ∧
      (NoConflict L → NoConflict (Ledger.apply L (.disconnected h))) := by
  have hl := hg.lwf
  -- the main loop
  obtain ⟨r, hrun, hI⟩ := rbInv_loop hg (cutPairs L h) [] ⟨s, s.minedBalance, []⟩ (rbInv_init hg)
    (fun p hp => by cases hp) (fun p hp => (mem_cutPairs.mp hp).1) (by rw [List.nil_append]; exact cutPairs_nodup hl h)
  rw [List.nil_append] at hI
  have hrun' : (s.blocks.reverse.takeWhile fun p => !decide ((p.1 : Int) < h)).foldlM
      (fun r (p : Nat × BlockRec) => p.2.txs.foldlM (rbTx ⟨p.1, p.2.hash⟩) r) (⟨s, s.minedBalance, []⟩ : RB) = .ok r := by
    rw [rollback_blocks_eq hg, rollback_loop_flat]; exact hrun
  -- the store before the clean-up
  have hgm : Good (rbMid s h r) (detach L h) := ⟨wf2_rbMid hg.wf2 hrun', lwf_detach hl h, refines_rbMid hg h hI⟩
  obtain ⟨s2, P, hclean, hg2, hP⟩ := good_removeSpenders hgm (fun _ => false) (fun _ _ => rfl) r.cb
  -- the clean-up on the store with the old counter
  have hmid : rbMid s h r = setBal r.bal (List.foldl (fun s p => { s with blocks := s.blocks.erase p.1 }) r.s
      (s.blocks.reverse.takeWhile fun p => !decide ((p.1 : Int) < h))) := rfl
  rw [hmid, foldlM_comm (setBal r.bal) _ (dsOuter_setBal r.bal _)] at hclean
  have hroll : rollback s h = .ok s2 := by
    rw [rollback_eq, hrun']
    simp only [bind_ok]
    cases hc : r.cb.foldlM (dsOuter fun _ => false) (List.foldl (fun s p => { s with blocks := s.blocks.erase p.1 }) r.s
        (s.blocks.reverse.takeWhile fun p => !decide ((p.1 : Int) < h))) with
    | error e => rw [hc] at hclean; cases hclean
    | ok s1 =>
      rw [hc] at hclean
      simp only [mapOk, Except.ok.injEq] at hclean
      simp only [bind_ok, pure_eq, hclean]
  -- the ledger
  have hpool1 : (detach L h).pool = L.pool ++ ((cutBlocks L h).flatMap (·.txs)).filter (fun t => !t.isCoinBase) := by
    show L.pool ++ ((cutPairs L h).map (·.1)).filter (fun t => !t.isCoinBase) = _
    rw [cutTxs_eq]
  have hcbs : ∀ c, c ∈ ((((cutBlocks L h).flatMap (·.txs)).filter (·.isCoinBase)).map (·.hash)) ↔ isCutCb L h c = true := by
    intro c
    rw [isCutCb_iff, ← cutTxs_eq]
    simp only [List.mem_map, List.mem_filter]
    constructor
    · rintro ⟨t, ⟨⟨q, hq, rfl⟩, hcb⟩, rfl⟩; exact ⟨q, hq, hcb, rfl⟩
    · rintro ⟨q, hq, hcb, rfl⟩; exact ⟨q.1, ⟨⟨q, hq, rfl⟩, hcb⟩, rfl⟩
  have hgone : ∀ x, (closure (detach L h).pool (detach L h).pool.length
      ((((cutBlocks L h).flatMap (·.txs)).filter (·.isCoinBase)).map (·.hash))).contains x = true ↔
      (isCutCb L h x = true ∨ P x = true) := by
    intro x
    rw [List.contains_iff_mem, mem_closure_iff]
    constructor
    · rintro ⟨c, hc, hd⟩
      rcases desc_first_step hd with rfl | ⟨v, hv, ⟨i, hi, hic⟩, hvd⟩
      · exact Or.inl ((hcbs _).mp hc)
      · right
        rw [hP]
        refine ⟨v, hv, ⟨i, ?_, hi⟩, hvd⟩
        obtain ⟨q, hq, hqcb, hqh⟩ := isCutCb_iff.mp ((hcbs c).mp hc)
        rw [hI.cb]
        refine ⟨q, hq, hqcb, by rw [hic, hqh], ?_⟩
        obtain ⟨v', hv', ev⟩ := known_detach_old (known_of_pool hv)
        exact hl.validRefs v' hv' i (by rw [ev]; exact hi) (q.1, some q.2) (known_of_mined (mem_cutPairs.mp hq).1)
          (by rw [hic, hqh])
    · rintro (hx | hx)
      · exact ⟨x, (hcbs x).mpr hx, Desc.refl _⟩
      · obtain ⟨v, hv, ⟨op, hop, hov⟩, hd⟩ := (hP x).mp hx
        obtain ⟨q, hq, hqcb, hqh, _⟩ := (hI.cb op).mp hop
        refine ⟨q.1.hash, (hcbs _).mpr (isCutCb_iff.mpr ⟨q, hq, hqcb, rfl⟩), ?_⟩
        exact (Desc.step (Desc.refl _) hv ⟨op, hov, hqh⟩).trans hd
  have hL : Ledger.apply L (.disconnected h) = minus (detach L h) P (fun _ => false) := by
    simp only [Ledger.apply]
    have hg' : (if ((((List.filter (fun b => !decide ((b.bm.block.height : Int) < h)) L.chain).reverse.flatMap (·.txs)).filter
          (·.isCoinBase)).map (·.hash)).isEmpty = true then []
        else closure (L.pool ++ ((List.filter (fun b => !decide ((b.bm.block.height : Int) < h)) L.chain).reverse.flatMap
            (·.txs)).filter (fun x => !x.isCoinBase))
          (L.pool ++ ((List.filter (fun b => !decide ((b.bm.block.height : Int) < h)) L.chain).reverse.flatMap
            (·.txs)).filter (fun x => !x.isCoinBase)).length
          ((((List.filter (fun b => !decide ((b.bm.block.height : Int) < h)) L.chain).reverse.flatMap (·.txs)).filter
          (·.isCoinBase)).map (·.hash))) =
        closure (detach L h).pool (detach L h).pool.length
          ((((cutBlocks L h).flatMap (·.txs)).filter (·.isCoinBase)).map (·.hash)) := by
      rw [hpool1]
      show (if ((((cutBlocks L h).flatMap (·.txs)).filter (·.isCoinBase)).map (·.hash)).isEmpty = true then [] else _) = _
      split
      · rename_i he
        rw [List.isEmpty_iff] at he
        rw [he, closure_nil]
      · rfl
    rw [hg']
    unfold minus
    have hpl : (detach L h).pool = L.pool ++ ((List.filter (fun b => !decide ((b.bm.block.height : Int) < h)) L.chain).reverse.flatMap
        (·.txs)).filter (fun x => !x.isCoinBase) := hpool1
    rw [← hpl]
    have hch : (detach L h).chain = L.chain.filter fun b => decide ((b.bm.block.height : Int) < h) := rfl
    rw [← hch]
    congr 1
    · apply List.filter_congr
      intro u hu
      have hncb : isCutCb L h u.hash = false := by
        obtain ⟨u', hu', eu⟩ := known_detach_old (known_of_pool hu)
        have hcb : u.isCoinBase = false := (lwf_detach hl h).poolNoCb u hu
        have e2 : u' = (u, u'.2) := Prod.ext eu rfl
        exact not_cutCb_of_noncb hl ⟨u'.2, by rw [← e2]; exact hu'⟩ hcb
      have hiff := hgone u.hash
      rw [hncb] at hiff
      have hb : (closure (detach L h).pool (detach L h).pool.length
          ((((cutBlocks L h).flatMap (·.txs)).filter (·.isCoinBase)).map (·.hash))).contains u.hash = P u.hash := by
        apply Bool.eq_iff_iff.mpr
        constructor
        · intro hx
          rcases hiff.mp hx with hh | hh
          · cases hh
          · exact hh
        · intro hx; exact hiff.mpr (Or.inr hx)
      rw [hb]
    · show dropCredits L.credit _ = (L.credit.filter fun p => !isCutCb L h p.1.hash).filter _
      unfold dropCredits
      rw [List.filter_filter]
      apply List.filter_congr
      intro p _
      have hiff := hgone p.1.hash
      have hb : (closure (detach L h).pool (detach L h).pool.length
          ((((cutBlocks L h).flatMap (·.txs)).filter (·.isCoinBase)).map (·.hash))).contains p.1.hash =
          (isCutCb L h p.1.hash || P p.1.hash) := by
        apply Bool.eq_iff_iff.mpr
        rw [Bool.or_eq_true]
        exact hiff
      rw [hb]
      cases isCutCb L h p.1.hash <;> cases P p.1.hash <;> rfl
  rw [hL]
  refine ⟨s2, hroll, hg2, ?_⟩
  intro hn u hu i hi
  obtain ⟨hu1, _⟩ := mem_pool_minus.mp hu
  rw [spentConfirmed_false_iff]
  intro p hp hin
  have hp' : p ∈ chainTxs (detach L h) := hp
  obtain ⟨hp1, hp2⟩ := mem_chainTxs_detach.mp hp'
  rcases mem_pool_detach.mp hu1 with hu2 | ⟨_, bm, hu2⟩
  · exact (spentConfirmed_false_iff.mp (hn u hu2 i hi)) p hp1 hin
  · obtain ⟨hu3, hu4⟩ := mem_cutPairs.mp hu2
    have := nodup_flatMap_unique _ _ hl.noDouble p hp1 (u, bm) hu3 i hin hi
    rw [this] at hp2
    exact hu4 hp2

end TxStore
