import BtcwVerif.Lemmas.AddrIdxIssue
/-! `IdxInv` through account / scope creation and `Create`; the issue log of a history. -/
set_option linter.unusedSectionVars false
set_option linter.unusedVariables false
set_option linter.unusedSimpArgs false
namespace AddrDerive
open AddrSym

variable {K P : Type} [DecidableEq K] [DecidableEq P]

theorem IsValidRun.empty (valid : Nat → Bool) : IsValidRun valid 0 0 [] :=
  ⟨List.Pairwise.nil, fun i hi => (by cases hi), fun j _ h => (by omega)⟩

/-- a new account row with both counters at zero under an account number that had no row -/
theorem IdxInv.newRow {hd : HD K P} {s s' : State K P} {log : List (KeyObj K P)} (h : Inv hd s) (x : IdxInv hd s log)
    {sc : Scope} {acct : Nat} {row : AcctRow K P} (hfresh : acctRow s sc acct = none)
    (hzero : ∀ int, rowNext row int = 0)
    (hrows : ∀ sc' a', acctRow s' sc' a' = if sc' = sc ∧ a' = acct then some row else acctRow s sc' a')
    (hcache : ∀ sc' a', cacheAt s' sc' a' = cacheAt s sc' a') : IdxInv hd s' log := by
  have hnc : cacheAt s sc acct = none := by
    cases hc : cacheAt s sc acct with
    | none => rfl
    | some ai => obtain ⟨r, hr, _⟩ := h.cache sc acct ai hc; rw [hfresh] at hr; cases hr
  refine ⟨?_, ?_, ?_⟩
  · intro sc' a' ai r hc hr
    rw [hcache] at hc
    rw [hrows] at hr
    by_cases hm : sc' = sc ∧ a' = acct
    · rw [hm.1, hm.2, hnc] at hc; cases hc
    · simp only [hm, if_false] at hr
      exact x.next sc' a' ai r hc hr
  · intro sc' a' r hr int
    rw [hrows] at hr
    by_cases hm : sc' = sc ∧ a' = acct
    · simp only [hm, and_self, if_true] at hr
      cases hr
      rw [hzero]
      have : idxOf log sc' a' (branchOf int) = [] := by
        unfold idxOf
        rw [List.filter_eq_nil_iff.mpr]
        · rfl
        · intro o ho
          simp only [decide_eq_true_eq]
          intro ⟨e1, e2, _⟩
          have := (x.known o ho).1
          rw [e1, e2, hm.1, hm.2, hfresh] at this
          cases this
      rw [this]
      exact IsValidRun.empty _
    · simp only [hm, if_false] at hr
      exact x.run sc' a' r hr int
  · intro o ho
    obtain ⟨k1, k2⟩ := x.known o ho
    refine ⟨?_, k2⟩
    rw [hrows]
    split
    · rfl
    · exact k1

theorem opNewAccount_idx {hd : HD K P} {s : State K P} {log : List (KeyObj K P)} (h : Inv hd s) (x : IdxInv hd s log)
    (sc : Scope) (name : Nat) : IdxInv hd (opNewAccount hd s sc name).1 log := by
  unfold opNewAccount
  split
  · exact x
  · split
    · exact x
    · rename_i sd hsd
      split
      · exact x
      · split
        · exact x
        · split
          · exact x
          · split
            · exact x
            · rename_i ck hck
              dsimp only
              split
              · exact x
              · split
                · exact x
                · rename_i ak hak
                  obtain ⟨l, hl1, hl2⟩ := h.disk.last sc _ (lastAt_of_getSD hsd)
                  have hl1' : sd.lastAcct = some l := hl1
                  have hna : nextAcct sd = l + 1 := by simp [nextAcct, hl1']
                  have hfresh : acctRow s sc (nextAcct sd) = none := by
                    cases hx : acctRow s sc (nextAcct sd) with
                    | none => rfl
                    | some r => have := hl2 (nextAcct sd) (by simp [hx]); omega
                  refine x.newRow h hfresh (row := .dflt (hd.neuter ak) (some ak) 0 0 name) (fun int => by cases int <;> rfl) ?_ (fun _ _ => rfl)
                  intro sc' a'
                  rw [acctRow_putSD]
                  by_cases hsc : sc = sc'
                  · subst hsc
                    simp only [if_true, alookup_aset, true_and]
                    by_cases ha : nextAcct sd = a'
                    · simp [ha]
                    · have : ¬ a' = nextAcct sd := fun e => ha e.symm
                      simp [ha, this, acctRow_of_getSD hsd]
                  · have : ¬ sc' = sc := fun e => hsc e.symm
                    simp [hsc, this]

theorem opNewAccountWO_idx {hd : HD K P} {s : State K P} {log : List (KeyObj K P)} (h : Inv hd s) (x : IdxInv hd s log)
    (sc : Scope) (name : Nat) (xp : P) (ci fp : Nat) (sch : Option Schema) :
    IdxInv hd (opNewAccountWO s sc name xp ci fp sch).1 log := by
  unfold opNewAccountWO
  split
  · exact x
  · rename_i sd hsd
    dsimp only
    split
    · exact x
    · split
      · exact x
      · obtain ⟨l, hl1, hl2⟩ := h.disk.last sc _ (lastAt_of_getSD hsd)
        have hl1' : sd.lastAcct = some l := hl1
        have hna : nextAcct sd = l + 1 := by simp [nextAcct, hl1']
        have hfresh : acctRow s sc (nextAcct sd) = none := by
          cases hx : acctRow s sc (nextAcct sd) with
          | none => rfl
          | some r => have := hl2 (nextAcct sd) (by simp [hx]); omega
        refine x.newRow h hfresh (row := .wo xp fp 0 0 name sch ci) (fun int => by cases int <;> rfl) ?_ (fun _ _ => rfl)
        intro sc' a'
        show acctRow (putSD s sc _) sc' a' = _
        rw [acctRow_putSD]
        by_cases hsc : sc = sc'
        · subst hsc
          simp only [if_true, alookup_aset, true_and]
          by_cases ha : nextAcct sd = a'
          · simp [ha]
          · have : ¬ a' = nextAcct sd := fun e => ha e.symm
            simp [ha, this, acctRow_of_getSD hsd]
        · have : ¬ sc' = sc := fun e => hsc e.symm
          simp [hsc, this]

theorem opNewScope_idx {hd : HD K P} {s : State K P} {log : List (KeyObj K P)} (h : Inv hd s) (x : IdxInv hd s log)
    (sc : Scope) (schema : Schema) : IdxInv hd (opNewScope Cfg.fixed hd s sc schema).1 log := by
  unfold opNewScope
  simp only [show Cfg.fixed.l1 = false from rfl, Bool.false_eq_true, if_false]
  split
  · exact x
  · split
    · exact x
    · split
      · exact x
      · rename_i root hrp
        split
        · exact x
        · rename_i hnone
          split
          · exact x
          · rename_i sd0 hmk
            have hnone' : getSD s sc = none := by
              cases hx : getSD s sc with
              | none => rfl
              | some _ => simp [hx] at hnone
            have hrow0 : ∀ a, acctRow s sc a = none := by intro a; simp [acctRow, hnone']
            have hc0 : ∀ a, cacheAt s sc a = none := by
              intro a
              cases hc : cacheAt s sc a with
              | none => rfl
              | some ai => obtain ⟨r, hr, _⟩ := h.cache sc a ai hc; rw [hrow0] at hr; cases hr
            obtain ⟨ck, ak, _, _, _, hacc, _, _⟩ := mkKeyScope_ok hd root sc schema sd0 hmk
            refine x.newRow h (hrow0 0) (row := .dflt (hd.neuter ak) (some ak) 0 0 1) (fun int => by cases int <;> rfl) ?_ ?_
            · intro sc' a'
              rw [acctRow_putSM, acctRow_putSD]
              by_cases hsc : sc = sc'
              · subst hsc
                simp only [if_true, true_and]
                have hacc' : sd0.accts = [(0, .dflt (hd.neuter ak) (some ak) 0 0 1)] := hacc
                rw [hacc']
                simp only [alookup]
                by_cases ha : 0 = a'
                · subst ha; simp
                · have : ¬ a' = 0 := fun e => ha e.symm
                  simp [ha, this, hrow0]
              · have : ¬ sc' = sc := fun e => hsc e.symm
                simp [hsc, this]
            · intro sc' a'
              rw [cacheAt_putSM]
              by_cases hsc : sc = sc'
              · subst hsc; simp [hc0, alookup]
              · simp [hsc]

theorem opCreate_idx (hd : HD K P) (root : K) : IdxInv hd (opCreate hd root).1 [] := by
  have hempty : ∀ s : State K P, (∀ sc a, cacheAt s sc a = none) →
      (∀ sc a r, acctRow s sc a = some r → ∀ int, rowNext r int = 0) → IdxInv hd s [] := by
    intro s hc hr
    refine ⟨fun sc a ai r h _ => (by rw [hc] at h; cases h), fun sc a r h int => ?_, fun o ho => (by cases ho)⟩
    rw [hr sc a r h int]
    exact IsValidRun.empty _
  unfold opCreate
  split
  · apply hempty
    · intro sc a; simp [cacheAt, getSM, emptyState, alookup]
    · intro sc a r h; simp [acctRow, getSD, emptyState, alookup] at h
  · rename_i scs hscs
    dsimp only
    have hspec := mkScopes_spec hd root _ _ hscs
    apply hempty
    · intro sc a
      unfold cacheAt
      rw [getSM_fresh _ _ rfl]
      dsimp only
      cases alookup scs sc <;> simp [alookup]
    · intro sc a r h int
      simp only [acctRow, getSD] at h
      cases hsd : alookup scs sc with
      | none => simp [hsd] at h
      | some sd =>
        simp [hsd] at h
        obtain ⟨_, ak, _, hr'⟩ := (hspec sc sd hsd).row h
        subst hr'
        cases int <;> rfl

-- ---------------------------------------------------------------------------------------------------------
-- the issue log of a history

/-- objects `nextAddresses` / `extendAddresses` issue in one step (the key objects the step allocates) -/
def issuedBy (hd : HD K P) (s : State K P) (op : Op K P) : List (KeyObj K P) :=
  match op with
  | .next .. => newObjs s (step Cfg.fixed hd s op).1
  | .extend .. => newObjs s (step Cfg.fixed hd s op).1
  | _ => []

/-- state and issue log after a history; `Create` starts a new wallet, hence a new log -/
def runLog (hd : HD K P) (ops : List (Op K P)) : State K P × List (KeyObj K P) :=
  ops.foldl (fun acc op => ((step Cfg.fixed hd acc.1 op).1,
    match op with | .create _ => [] | _ => acc.2 ++ issuedBy hd acc.1 op)) (emptyState, [])

theorem runLog_state (hd : HD K P) (ops : List (Op K P)) : (runLog hd ops).1 = runState hd ops := by
  unfold runLog runState
  have : ∀ (l : List (Op K P)) (s : State K P) (lg : List (KeyObj K P)),
      (l.foldl (fun acc op => ((step Cfg.fixed hd acc.1 op).1,
        match op with | .create _ => [] | _ => acc.2 ++ issuedBy hd acc.1 op)) (s, lg)).1 =
      l.foldl (fun s op => (step Cfg.fixed hd s op).1) s := by
    intro l
    induction l with
    | nil => intro s lg; rfl
    | cons op t ih => intro s lg; simp only [List.foldl_cons]; exact ih _ _
  exact this _ _ _

theorem step_idx {hd : HD K P} (hlaw : hd.Lawful) (hn : hd.NoHardPub) {s : State K P} {log : List (KeyObj K P)} (h : Inv hd s)
    (x : IdxInv hd s log) (op : Op K P) :
    IdxInv hd (step Cfg.fixed hd s op).1 (match op with | .create _ => [] | _ => log ++ issuedBy hd s op) := by
  cases op with
  | create root => simp only [step]; exact opCreate_idx hd root
  | next sc a n int hb =>
    simp only [issuedBy]
    unfold step
    simp only
    split
    · rw [newObjs_same rfl, List.append_nil]; exact x
    · split
      · rw [newObjs_same rfl, List.append_nil]; exact x
      · exact opNext_idx hlaw hn h x sc a n int hb
  | extend sc a l int =>
    simp only [issuedBy]
    unfold step
    simp only
    split
    · rw [newObjs_same rfl, List.append_nil]; exact x
    · split
      · rw [newObjs_same rfl, List.append_nil]; exact x
      · exact opExtend_idx hlaw hn h x sc a l int
  | unlock p =>
    simp only [issuedBy, List.append_nil]; unfold step; simp only
    split; exact x; split; exact x; exact x.frame (opUnlock_idxFrame hd s p)
  | lock =>
    simp only [issuedBy, List.append_nil]; unfold step; simp only
    split; exact x; split; exact x; exact x.frame (opLock_idxFrame s)
  | changePass pr o n =>
    simp only [issuedBy, List.append_nil]; unfold step; simp only
    split; exact x; split; exact x; exact x.frame (opChangePass_idxFrame s pr o n)
  | newScope sc sch =>
    simp only [issuedBy, List.append_nil]; unfold step; simp only
    split; exact x; split; exact x; exact opNewScope_idx h x sc sch
  | newAccount sc name =>
    simp only [issuedBy, List.append_nil]; unfold step; simp only
    split; exact x; split; exact x; exact opNewAccount_idx h x sc name
  | newAccountWO sc name xp ci fp sch =>
    simp only [issuedBy, List.append_nil]; unfold step; simp only
    split; exact x; split; exact x; exact opNewAccountWO_idx h x sc name xp ci fp sch
  | lookup sc id hh =>
    simp only [issuedBy, List.append_nil]; unfold step; simp only
    split; exact x; split; exact x; exact x.frame (opLookup_idxFrame hd s sc id hh)
  | markUsed sc id d =>
    simp only [issuedBy, List.append_nil]; unfold step; simp only
    split; exact x; split; exact x; exact x.frame (opMarkUsed_idxFrame s sc id d)
  | derive sc a ac b i hh =>
    simp only [issuedBy, List.append_nil]; unfold step; simp only
    split; exact x; split; exact x; exact x.frame (opDerive_idxFrame hd s sc a ac b i hh)
  | importPriv sc k c hh =>
    simp only [issuedBy, List.append_nil]; unfold step; simp only
    split; exact x; split; exact x
    unfold opImportPriv
    split; exact x; exact x.frame (importKey_idxFrame s sc k c _ hh)
  | importPub sc k hh =>
    simp only [issuedBy, List.append_nil]; unfold step; simp only
    split; exact x; split; exact x; exact x.frame (importKey_idxFrame s sc k true false hh)
  | importScript sc k kind sec hh =>
    simp only [issuedBy, List.append_nil]; unfold step; simp only
    split; exact x; split; exact x; exact x.frame (opImportScript_idxFrame _ s sc k kind sec hh)
  | privKey hh =>
    simp only [issuedBy, List.append_nil]; unfold step; simp only
    split; exact x; split; exact x; rw [opPrivKey_state]; exact x
  | script hh =>
    simp only [issuedBy, List.append_nil]; unfold step; simp only
    split; exact x; split; exact x; rw [opScript_state]; exact x
  | info hh =>
    simp only [issuedBy, List.append_nil]; unfold step; simp only
    split; exact x; split; exact x; rw [opInfo_state]; exact x
  | props sc a =>
    simp only [issuedBy, List.append_nil]; unfold step; simp only
    split; exact x; split; exact x; exact x.frame (opProps_idxFrame hd s sc a)
  | restart =>
    simp only [issuedBy, List.append_nil]; unfold step; simp only
    split; exact x; split; exact x; exact x.frame (opRestart_idxFrame s)
  | convertWO =>
    simp only [issuedBy, List.append_nil]; unfold step; simp only
    split; exact x; split; exact x; exact x.frame (opConvertWO_idxFrame _ s)
  | deriveCache sc a ac b i =>
    simp only [issuedBy, List.append_nil]; unfold step; simp only
    split; exact x; split; exact x; rw [opDeriveCache_state]; exact x
  | rename sc a name =>
    simp only [issuedBy, List.append_nil]; unfold step; simp only
    split; exact x; split; exact x; exact x.frame (opRename_idxFrame s sc a name)

theorem foldl_runLog_inv {hd : HD K P} (hlaw : hd.Lawful) (hn : hd.NoHardPub) : ∀ (ops : List (Op K P)) (s : State K P)
    (log : List (KeyObj K P)), Inv hd s → Nodups s → IdxInv hd s log →
    let r := ops.foldl (fun acc op => ((step Cfg.fixed hd acc.1 op).1,
      match op with | .create _ => [] | _ => acc.2 ++ issuedBy hd acc.1 op)) (s, log)
    Inv hd r.1 ∧ Nodups r.1 ∧ IdxInv hd r.1 r.2 := by
  intro ops
  induction ops with
  | nil => intro s log h hnd x; exact ⟨h, hnd, x⟩
  | cons op t ih =>
    intro s log h hnd x
    simp only [List.foldl_cons]
    exact ih _ _ (step_inv hlaw hn h hnd op) (step_nodups hd s op hnd) (step_idx hlaw hn h x op)

theorem IdxInv_empty (hd : HD K P) : IdxInv hd (emptyState : State K P) [] := by
  refine ⟨fun sc a ai r h _ => ?_, fun sc a r h => ?_, fun o ho => (by cases ho)⟩
  · simp [cacheAt, getSM, emptyState, alookup] at h
  · simp [acctRow, getSD, emptyState, alookup] at h

theorem runLog_inv {hd : HD K P} (hlaw : hd.Lawful) (hn : hd.NoHardPub) (ops : List (Op K P)) :
    Inv hd (runLog hd ops).1 ∧ Nodups (runLog hd ops).1 ∧ IdxInv hd (runLog hd ops).1 (runLog hd ops).2 :=
  foldl_runLog_inv hlaw hn ops emptyState [] (Inv_empty hd) emptyState_nodups (IdxInv_empty hd)

/-- what `nextAddresses` returns are exactly the objects it allocated (= appended to the issue log), in order -/
theorem opNext_reports {hd : HD K P} {s : State K P} (h : Inv hd s) (sc : Scope) (acct n : Nat) (internal : Bool) (hbase : Nat)
    (infos : List Info) (hres : (opNext hd s sc acct n internal hbase).2.1 = .addrs infos) :
    infos = (newObjs s (opNext hd s sc acct n internal hbase).1).map infoOfKey := by
  unfold opNext at hres ⊢
  split at hres
  · cases hres
  · rename_i hacct
    rw [if_neg hacct]
    split at hres
    · cases hres
    · rename_i s1 ai hl
      obtain ⟨h1, hc, hf, sm, sd, hsm, hsd⟩ := loadAcct_spec h hl
      simp only [hl, hsm] at hres ⊢
      cases internal with
      | false =>
        simp only [if_true, Bool.false_eq_true, if_false] at hres ⊢
        split at hres
        · cases hres
        · rename_i c1; rw [if_neg c1]
          split at hres
          · cases hres
          · rename_i c2; rw [if_neg c2]
            split at hres
            · cases hres
            · rename_i c3; rw [if_neg c3]
              split at hres
              · cases hres
              · rename_i idxs hidx
                split at hres
                · cases hres
                · rename_i objs hm
                  simp only [Res.addrs.injEq] at hres
                  obtain ⟨_, hobjs⟩ := mkAll_index _ _ _ _ _ _ _ _ _ _ _ hm
                  obtain ⟨row, hr, c1, _⟩ := commitIssue_rows h1 hc false
                    (s1.mem.locked && !(s1.mem.watchOnly || ai.keyEnc.isNone)) objs
                    (getLast idxs ai.nextExt)
                    (fun o ho => ⟨(hobjs o ho).2.1, (hobjs o ho).2.2⟩)
                  rw [← hres]
                  congr 1
                  symm
                  apply newObjs_keys
                  rw [(bindAll_views _ _ _).1, c1, hf.heap]
      | true =>
        simp only [if_true, Bool.false_eq_true, if_false] at hres ⊢
        split at hres
        · cases hres
        · rename_i c1; rw [if_neg c1]
          split at hres
          · cases hres
          · rename_i c2; rw [if_neg c2]
            split at hres
            · cases hres
            · rename_i c3; rw [if_neg c3]
              split at hres
              · cases hres
              · rename_i idxs hidx
                split at hres
                · cases hres
                · rename_i objs hm
                  simp only [Res.addrs.injEq] at hres
                  obtain ⟨_, hobjs⟩ := mkAll_index _ _ _ _ _ _ _ _ _ _ _ hm
                  obtain ⟨row, hr, c1, _⟩ := commitIssue_rows h1 hc true
                    (s1.mem.locked && !(s1.mem.watchOnly || ai.keyEnc.isNone)) objs
                    (getLast idxs ai.nextInt)
                    (fun o ho => ⟨(hobjs o ho).2.1, (hobjs o ho).2.2⟩)
                  rw [← hres]
                  congr 1
                  symm
                  apply newObjs_keys
                  rw [(bindAll_views _ _ _).1, c1, hf.heap]

end AddrDerive
