import BtcwVerif.Lemmas.KMap
import BtcwVerif.Model.TxInv
/-! `Balance` (three passes over three different buckets) equals the C01 formula on the store's own records, for
every store satisfying the representation invariant `Inv`. -/
namespace TxStore
open KMap

/-! ### sums -/

theorem perm_sum {l₁ l₂ : List Int} (h : l₁.Perm l₂) : l₁.sum = l₂.sum := by
  induction h with
  | nil => rfl
  | cons x _ ih => simp [ih]
  | swap x y l => simp only [List.sum_cons]; omega
  | trans _ _ ih1 ih2 => omega

theorem perm_map_sum {α : Type} {l₁ l₂ : List α} (f : α → Int) (h : l₁.Perm l₂) :
    (l₁.map f).sum = (l₂.map f).sum := perm_sum (h.map f)

theorem sum_filter_zero {α : Type} (p : α → Bool) (f : α → Int) (hz : ∀ a, p a = false → f a = 0) (l : List α) :
    ((l.filter p).map f).sum = (l.map f).sum := by
  induction l with
  | nil => rfl
  | cons a t ih =>
    by_cases hp : p a = true
    · simp [List.filter_cons, hp, ih]
    · have := hz a (by simpa using hp)
      simp [List.filter_cons, hp, ih, this]

theorem sum_flatMap_filter {α β : Type} (F : α → List β) (p : β → Bool) (g : β → Int) (L : List α) :
    (((L.flatMap F).filter p).map g).sum = (L.map fun x => (((F x).filter p).map g).sum).sum := by
  induction L with
  | nil => rfl
  | cons a t ih => simp [List.flatMap_cons, List.filter_append, ih]

theorem sum_zero_of_forall {α : Type} (f : α → Int) (l : List α) (h : ∀ a ∈ l, f a = 0) : (l.map f).sum = 0 := by
  induction l with
  | nil => rfl
  | cons a t ih =>
    simp only [List.map_cons, List.sum_cons]
    rw [h a List.mem_cons_self, ih (fun b hb => h b (List.mem_cons_of_mem _ hb))]; rfl

theorem sum_three {α : Type} (a g h t : α → Int) (hp : ∀ x, a x - g x - h x = t x) (l : List α) :
    (l.map a).sum - (l.map g).sum - (l.map h).sum = (l.map t).sum := by
  induction l with
  | nil => rfl
  | cons x r ih =>
    simp only [List.map_cons, List.sum_cons]
    have := hp x
    omega

/-! ### the per-credit terms of the three passes -/

/-- pass 1 subtracts a mined credit without mined spender when it is leased or spent by an unconfirmed tx -/
def g1 (s : Store) (now : Nat) (c : CInfo) : Int :=
  if isLocked s c.key.outPoint now || spentByUnmined s c.key.outPoint then c.val.amount else 0

/-- pass 2 subtracts it when it is neither, but too young -/
def g2 (s : Store) (now : Nat) (m sy mat : Int) (c : CInfo) : Int :=
  if !isLocked s c.key.outPoint now && !spentByUnmined s c.key.outPoint && tooYoung m sy mat c then c.val.amount else 0

/-- pass 3 adds an unconfirmed credit when it is neither leased nor spent -/
def g3 (s : Store) (now : Nat) (e : OutPoint × UCredit) : Int := if countsUnmined s now e then e.2.amount else 0

theorem creditInfo_some {s : Store} {k : CredKey} {c : CInfo} (h : creditInfo s k = some c) :
    s.credits.find? k = some c.val ∧ c.key = k ∧ ∃ rec, s.txrecs.find? k.txKey = some rec ∧ c.cb = rec.isCoinBase := by
  unfold creditInfo at h
  split at h
  · rename_i cv rec hc hr
    cases h
    exact ⟨hc, rfl, rec, hr, rfl⟩
  · cases h

theorem creditInfo_of_rec {s : Store} {tx : Nat} {blk : Block} {i : Nat} {rec : Tx}
    (hrec : s.txrecs.find? ⟨tx, blk⟩ = some rec) :
    creditInfo s ⟨tx, blk, i⟩ = (s.credits.find? ⟨tx, blk, i⟩).map fun cv => ⟨⟨tx, blk, i⟩, cv, rec.isCoinBase⟩ := by
  unfold creditInfo
  have : (⟨tx, blk, i⟩ : CredKey).txKey = ⟨tx, blk⟩ := rfl
  rw [this, hrec]
  cases s.credits.find? ⟨tx, blk, i⟩ <;> rfl

/-! ### pass 1 -/

theorem balPass1_step (s : Store) (now : Nat) (bal : Int) (op : OutPoint) (blk : Block) (c : CInfo)
    (h : creditInfo s ⟨op.hash, blk, op.index⟩ = some c) :
    balPass1 s now bal (op, blk) = .ok (bal - g1 s now c) := by
  obtain ⟨hc, hk, _⟩ := creditInfo_some h
  have hop : c.key.outPoint = op := by rw [hk]; rfl
  unfold balPass1 g1
  rw [hop]
  by_cases hl : isLocked s op now = true
  · simp [hl, hc]
  · by_cases hs : spentByUnmined s op = true <;> simp [hl, hs, hc]

theorem pass1_fold (s : Store) (now : Nat) : ∀ (l : List (OutPoint × Block)) (bal : Int),
    (∀ e ∈ l, (creditInfo s ⟨e.1.hash, e.2, e.1.index⟩).isSome) →
    l.foldlM (balPass1 s now) bal =
      .ok (bal - ((l.filterMap fun e => creditInfo s ⟨e.1.hash, e.2, e.1.index⟩).map (g1 s now)).sum) := by
  intro l
  induction l with
  | nil => intro bal _; simp
  | cons e t ih =>
    intro bal h
    obtain ⟨op, blk⟩ := e
    have hs := h (op, blk) List.mem_cons_self
    cases hc : creditInfo s ⟨op.hash, blk, op.index⟩ with
    | none => rw [hc] at hs; cases hs
    | some c =>
      rw [List.foldlM_cons, balPass1_step s now bal op blk c hc, bind_ok,
        ih _ (fun e he => h e (List.mem_cons_of_mem _ he))]
      simp only [List.filterMap_cons, hc, List.map_cons, List.sum_cons]
      congr 1; omega

/-! ### pass 2 -/

theorem pass2_outs (s : Store) (now : Nat) (m sy mat : Int) (blk : Block) (rec : Tx) (tx : Nat)
    (hrec : s.txrecs.find? ⟨tx, blk⟩ = some rec) : ∀ (is : List Nat) (bal : Int),
    is.foldl (balPass2Out s now m sy mat blk rec tx) bal =
      bal - (((is.filterMap fun i => creditInfo s ⟨tx, blk, i⟩).filter fun c => !c.val.spent).map (g2 s now m sy mat)).sum := by
  intro is
  induction is with
  | nil => intro bal; simp
  | cons i t ih =>
    intro bal
    rw [List.foldl_cons, ih]
    rw [List.filterMap_cons, creditInfo_of_rec hrec]
    unfold balPass2Out
    cases hc : s.credits.find? ⟨tx, blk, i⟩ with
    | none =>
      simp only [Option.map_none]
      by_cases hl : isLocked s ⟨tx, i⟩ now = true
      · simp [hl]
      · by_cases hs : spentByUnmined s ⟨tx, i⟩ = true <;> simp [hl, hs]
    | some cv =>
      simp only [Option.map_some]
      by_cases hsp : cv.spent = true
      · simp only [List.filter_cons, hsp, Bool.not_true, Bool.false_eq_true, if_false]
        by_cases hl : isLocked s ⟨tx, i⟩ now = true
        · simp [hl]
        · by_cases hs : spentByUnmined s ⟨tx, i⟩ = true <;> simp [hl, hs, hsp]
      · have hsp' : cv.spent = false := by simpa using hsp
        simp only [List.filter_cons, hsp', Bool.not_false, if_true, List.map_cons, List.sum_cons]
        have hop : (⟨tx, blk, i⟩ : CredKey).outPoint = ⟨tx, i⟩ := rfl
        unfold g2 tooYoung
        simp only [hop]
        by_cases hl : isLocked s ⟨tx, i⟩ now = true
        · simp [hl]
        · by_cases hs : spentByUnmined s ⟨tx, i⟩ = true
          · simp [hl, hs]
          · have hl' : isLocked s ⟨tx, i⟩ now = false := by simpa using hl
            have hs' : spentByUnmined s ⟨tx, i⟩ = false := by simpa using hs
            simp only [hl', hs', hsp', Bool.false_eq_true, if_false, Bool.not_false, Bool.true_and]
            split <;> omega

theorem pass2_tx (s : Store) (now : Nat) (m sy mat : Int) (blk : Block) (bal : Int) (tx : Nat)
    (h : (s.txrecs.find? ⟨tx, blk⟩).isSome) :
    balPass2Tx s now m sy mat blk bal tx =
      .ok (bal - (((txCredits s blk tx).filter fun c => !c.val.spent).map (g2 s now m sy mat)).sum) := by
  cases hrec : s.txrecs.find? ⟨tx, blk⟩ with
  | none => rw [hrec] at h; cases h
  | some rec =>
    unfold balPass2Tx txCredits
    simp only [hrec, pure_eq]
    rw [pass2_outs s now m sy mat blk rec tx hrec]

theorem pass2_block (s : Store) (now : Nat) (m sy mat : Int) (blk : Block) : ∀ (txs : List Nat) (bal : Int),
    (∀ tx ∈ txs, (s.txrecs.find? ⟨tx, blk⟩).isSome) →
    txs.foldlM (balPass2Tx s now m sy mat blk) bal =
      .ok (bal - (((txs.flatMap (txCredits s blk)).filter fun c => !c.val.spent).map (g2 s now m sy mat)).sum) := by
  intro txs
  induction txs with
  | nil => intro bal _; simp
  | cons tx t ih =>
    intro bal h
    rw [List.foldlM_cons, pass2_tx s now m sy mat blk bal tx (h tx List.mem_cons_self), bind_ok,
      ih _ (fun x hx => h x (List.mem_cons_of_mem _ hx))]
    simp only [List.flatMap_cons, List.filter_append, List.map_append, List.sum_append]
    congr 1; omega

/-- what pass 2 subtracts for one block -/
def S2 (s : Store) (now : Nat) (m sy mat : Int) (p : Nat × BlockRec) : Int :=
  (((blockCredits s p.1 p.2).filter fun c => !c.val.spent).map (g2 s now m sy mat)).sum

theorem pass2_blocks (s : Store) (now : Nat) (m sy mat : Int) : ∀ (L : List (Nat × BlockRec)) (bal : Int),
    (∀ p ∈ L, ∀ tx ∈ p.2.txs, (s.txrecs.find? ⟨tx, ⟨p.1, p.2.hash⟩⟩).isSome) →
    L.foldlM (fun bal (p : Nat × BlockRec) =>
        p.2.txs.foldlM (balPass2Tx s now m sy mat ⟨p.1, p.2.hash⟩) bal) bal =
      .ok (bal - (L.map (S2 s now m sy mat)).sum) := by
  intro L
  induction L with
  | nil => intro bal _; simp
  | cons p t ih =>
    intro bal h
    rw [List.foldlM_cons, pass2_block s now m sy mat ⟨p.1, p.2.hash⟩ p.2.txs bal (h p List.mem_cons_self), bind_ok,
      ih _ (fun x hx => h x (List.mem_cons_of_mem _ hx))]
    simp only [List.map_cons, List.sum_cons, S2, blockCredits]
    congr 1; omega

/-! ### the block window of pass 2 loses nothing -/

theorem dropWhile_below (last : Int) : ∀ (R : List (Nat × BlockRec)),
    R.Pairwise (fun a b => b.1 < a.1) →
    ∀ p ∈ R.dropWhile (fun p => !decide ((p.1 : Int) < last)), (p.1 : Int) < last := by
  intro R
  induction R with
  | nil => intro _ p hp; cases hp
  | cons a t ih =>
    intro hs p hp
    rw [List.pairwise_cons] at hs
    by_cases ha : (a.1 : Int) < last
    · simp only [List.dropWhile_cons, ha, decide_true, Bool.not_true, Bool.false_eq_true, if_false] at hp
      cases hp with
      | head => exact ha
      | tail _ h' => have := hs.1 p h'; omega
    · simp only [List.dropWhile_cons, ha, decide_false, Bool.not_false, if_true] at hp
      exact ih hs.2 p hp

theorem sum_window (L : List (Nat × BlockRec)) (f : Nat × BlockRec → Int) (last : Int)
    (hs : (L.map (·.1)).Pairwise (· < ·)) (hz : ∀ p ∈ L, (p.1 : Int) < last → f p = 0) :
    ((L.reverse.takeWhile fun p => !decide ((p.1 : Int) < last)).map f).sum = (L.map f).sum := by
  have hR : L.reverse.Pairwise (fun a b => b.1 < a.1) := by
    rw [List.pairwise_reverse]
    rw [List.pairwise_map] at hs
    exact hs
  have hsplit := @List.takeWhile_append_dropWhile _ (fun p : Nat × BlockRec => !decide ((p.1 : Int) < last)) L.reverse
  have h1 : (L.reverse.map f).sum = (L.map f).sum := by rw [List.map_reverse, List.sum_reverse]
  have h2 : ((L.reverse.dropWhile fun p => !decide ((p.1 : Int) < last)).map f).sum = 0 := by
    apply sum_zero_of_forall
    intro p hp
    have hlt := dropWhile_below last L.reverse hR p hp
    have hmem : p ∈ L := by
      have : p ∈ L.reverse := by
        rw [← hsplit]; exact List.mem_append_right _ hp
      simpa using this
    exact hz p hmem hlt
  rw [← h1]
  conv => rhs; rw [← hsplit]
  rw [List.map_append, List.sum_append, h2]
  omega

/-! ### pass 3 -/

theorem pass3_fold (s : Store) (now : Nat) : ∀ (l : List (OutPoint × UCredit)) (bal : Int),
    l.foldl (balPass3 s now) bal = bal + (l.map (g3 s now)).sum := by
  intro l
  induction l with
  | nil => intro bal; simp
  | cons e t ih =>
    intro bal
    obtain ⟨op, uc⟩ := e
    rw [List.foldl_cons, ih]
    simp only [List.map_cons, List.sum_cons]
    unfold balPass3 g3 countsUnmined
    by_cases hl : isLocked s op now = true
    · simp [hl]
    · by_cases hs : spentByUnmined s op = true
      · simp [hl, hs]
      · simp [hl, hs]; omega

theorem balance_eq (s : Store) (now : Nat) (mat m sy : Int) :
    balance s now mat m sy =
      (s.unspent.foldlM (balPass1 s now) s.minedBalance >>= fun bal =>
        ((s.blocks.reverse.takeWhile fun p => !decide ((p.1 : Int) < sy - (if mat > m then mat else m))).foldlM
          (fun bal (p : Nat × BlockRec) => p.2.txs.foldlM (balPass2Tx s now m sy mat ⟨p.1, p.2.hash⟩) bal) bal) >>= fun bal =>
        if m == 0 then pure (s.unminedCredits.foldl (balPass3 s now) bal) else pure bal) := by
  rfl

theorem blockCredits_height {s : Store} {h : Nat} {br : BlockRec} {c : CInfo} (hc : c ∈ blockCredits s h br) :
    c.key.block.height = h := by
  unfold blockCredits at hc
  rw [List.mem_flatMap] at hc
  obtain ⟨tx, _, hc⟩ := hc
  unfold txCredits at hc
  split at hc
  · cases hc
  · rw [List.mem_filterMap] at hc
    obtain ⟨i, _, hi⟩ := hc
    obtain ⟨_, hk, _⟩ := creditInfo_some hi
    rw [hk]

theorem g2_zero_below (s : Store) (now : Nat) (mat m sy : Int) (c : CInfo)
    (h : (c.key.block.height : Int) < sy - (if mat > m then mat else m)) : g2 s now m sy mat c = 0 := by
  unfold g2 tooYoung
  have h1 : ¬ (sy - (c.key.block.height : Int) + 1 < m) := by split at h <;> omega
  have h2 : ¬ (sy - (c.key.block.height : Int) + 1 < mat) := by split at h <;> omega
  simp [h1, h2]

/-- **Balance = the C01 sentence on the store's own records**, for every store satisfying `Inv`, every instant,
every coinbase maturity, every `minConf` and every `syncHeight` (negative and below-tip values included). -/
theorem balance_eq_storeTruth (s : Store) (hinv : Inv s) (now : Nat) (mat m sy : Int) :
    balance s now mat m sy = .ok (storeTruth s now mat m sy) := by
  rw [balance_eq]
  -- pass 1
  have hidx : ∀ e ∈ s.unspent, (creditInfo s ⟨e.1.hash, e.2, e.1.index⟩).isSome := by
    intro e he
    apply hinv.indexed
    unfold unspentInfos
    exact List.mem_map.mpr ⟨e, he, rfl⟩
  rw [pass1_fold s now s.unspent s.minedBalance hidx, bind_ok]
  -- pass 2
  have hrec : ∀ p ∈ (s.blocks.reverse.takeWhile fun p => !decide ((p.1 : Int) < sy - (if mat > m then mat else m))),
      ∀ tx ∈ p.2.txs, (s.txrecs.find? ⟨tx, ⟨p.1, p.2.hash⟩⟩).isSome := by
    intro p hp
    have : p ∈ s.blocks := by
      have h1 := (List.takeWhile_sublist _).subset hp
      simpa using h1
    exact hinv.recorded p this
  rw [pass2_blocks s now m sy mat _ _ hrec, bind_ok]
  -- the three sums over the mined credits without a mined spender
  have hU : (s.unspent.filterMap fun e => creditInfo s ⟨e.1.hash, e.2, e.1.index⟩) = (unspentInfos s).filterMap id := by
    unfold unspentInfos
    rw [List.filterMap_map]
    rfl
  have hA : ((s.unspent.filterMap fun e => creditInfo s ⟨e.1.hash, e.2, e.1.index⟩).map (g1 s now)).sum =
      ((minedUnspent s).map (g1 s now)).sum := by
    rw [hU, perm_map_sum (g1 s now) hinv.index]
  have hB : ((s.blocks.reverse.takeWhile fun p => !decide ((p.1 : Int) < sy - (if mat > m then mat else m))).map
      (S2 s now m sy mat)).sum = ((minedUnspent s).map (g2 s now m sy mat)).sum := by
    rw [sum_window s.blocks (S2 s now m sy mat) _ hinv.sorted]
    · unfold minedUnspent minedCredits
      rw [sum_flatMap_filter]
      rfl
    · intro p _ hlt
      unfold S2
      apply sum_zero_of_forall
      intro c hc
      have hc' := (List.mem_filter.mp hc).1
      have hh := blockCredits_height hc'
      apply g2_zero_below
      rw [hh]; exact hlt
  have hC : s.minedBalance = ((minedUnspent s).map fun c => c.val.amount).sum := hinv.counter
  have hpt : ∀ c : CInfo, c.val.amount - g1 s now c - g2 s now m sy mat c =
      (if countsMined s now m sy mat c then c.val.amount else 0) := by
    intro c
    unfold g1 g2 countsMined
    by_cases hl : isLocked s c.key.outPoint now = true
    · simp [hl]
    · by_cases hs : spentByUnmined s c.key.outPoint = true
      · simp [hl, hs]
      · by_cases hy : tooYoung m sy mat c = true <;> simp [hl, hs, hy]
  have h3 := sum_three (fun c : CInfo => c.val.amount) (g1 s now) (g2 s now m sy mat)
    (fun c => if countsMined s now m sy mat c then c.val.amount else 0) hpt (minedUnspent s)
  unfold storeTruth
  rw [hA, hB, hC]
  by_cases hm : (m == 0) = true
  · simp only [hm, if_true, pure_eq, pass3_fold]
    congr 1
    have : (s.unminedCredits.map (g3 s now)) = s.unminedCredits.map fun e => if countsUnmined s now e then e.2.amount else 0 := rfl
    rw [this]
    omega
  · simp only [hm, if_false, pure_eq, Bool.false_eq_true]
    congr 1
    omega


end TxStore
