import BtcwVerif.Lemmas.RefAbandon
/-!
# Refinement, ledger side of *confirmed*: `chainInsert`, the confirmed spender of an output, reading `consistent`
-/
namespace TxStore
open KMap Ledger

/-! ### list helpers -/

theorem eraseDups_length_aux : ∀ (n : Nat) (l : List OutPoint), l.length ≤ n →
    l.eraseDups.length ≤ l.length ∧ (l.eraseDups.length = l.length → l.Nodup) := by
  intro n
  induction n with
  | zero =>
    intro l hl
    have : l = [] := List.eq_nil_of_length_eq_zero (by omega)
    subst this
    exact ⟨by simp, fun _ => List.nodup_nil⟩
  | succ n ih =>
    intro l hl
    cases l with
    | nil => exact ⟨by simp, fun _ => List.nodup_nil⟩
    | cons a t =>
      rw [List.eraseDups_cons]
      have hfl : (t.filter fun b => !b == a).length ≤ t.length := List.length_filter_le _ _
      have hl' : t.length ≤ n := by simpa using hl
      obtain ⟨h1, h2⟩ := ih (t.filter fun b => !b == a) (by omega)
      refine ⟨by simp only [List.length_cons]; omega, ?_⟩
      intro he
      simp only [List.length_cons] at he
      have hfeq : (t.filter fun b => !b == a).length = t.length := by omega
      have hf : t.filter (fun b => !b == a) = t := List.filter_eq_self.mpr (by
        rw [← List.length_filter_eq_length_iff]; exact hfeq)
      rw [List.nodup_cons]
      constructor
      · intro hmem
        have := List.filter_eq_self.mp hf a hmem
        simp at this
      · rw [hf] at h2
        exact h2 (by rw [hf] at he; omega)

theorem nodup_of_eraseDups_length {l : List OutPoint} (h : l.eraseDups.length = l.length) : l.Nodup :=
  (eraseDups_length_aux l.length l (Nat.le_refl _)).2 h

theorem nodup_flatMap_unique {α β : Type} (f : α → List β) : ∀ (l : List α), (l.flatMap f).Nodup →
    ∀ a ∈ l, ∀ b ∈ l, ∀ x, x ∈ f a → x ∈ f b → a = b := by
  intro l
  induction l with
  | nil => intro _ a ha; cases ha
  | cons c t ih =>
    intro hn a ha b hb x hxa hxb
    rw [List.flatMap_cons, List.nodup_append] at hn
    obtain ⟨_, h2, h3⟩ := hn
    rcases List.mem_cons.mp ha with rfl | ha'
    · rcases List.mem_cons.mp hb with rfl | hb'
      · rfl
      · exact absurd rfl (h3 x hxa x (List.mem_flatMap.mpr ⟨b, hb', hxb⟩))
    · rcases List.mem_cons.mp hb with rfl | hb'
      · exact absurd rfl (h3 x hxb x (List.mem_flatMap.mpr ⟨a, ha', hxa⟩))
      · exact ih h2 a ha' b hb' x hxa hxb

theorem nodup_of_nodup_flatMap {α β : Type} (f : α → List β) : ∀ (l : List α), (l.flatMap f).Nodup →
    ∀ a ∈ l, (f a).Nodup := by
  intro l
  induction l with
  | nil => intro _ a ha; cases ha
  | cons c t ih =>
    intro hn a ha
    rw [List.flatMap_cons, List.nodup_append] at hn
    rcases List.mem_cons.mp ha with rfl | ha'
    · exact hn.1
    · exact ih hn.2.1 a ha'

/-! ### the confirmed spender of an output -/

theorem withIdx_findSome_some {op : OutPoint} {h : Nat} {blk : Block} : ∀ (ins : List OutPoint) (n : Nat) (dk : CredKey),
    (withIdx ins n).findSome? (fun ji => if ji.2 = op then some (⟨h, blk, ji.1⟩ : CredKey) else none) = some dk →
    ∃ j, n ≤ j ∧ ins[j - n]? = some op ∧ dk = ⟨h, blk, j⟩ := by
  intro ins
  induction ins with
  | nil => intro n dk hf; simp [withIdx] at hf
  | cons a t ih =>
    intro n dk hf
    simp only [withIdx, List.findSome?_cons] at hf
    by_cases e : a = op
    · simp only [e, if_true, Option.some.injEq] at hf
      exact ⟨n, Nat.le_refl _, by simp [e], hf.symm⟩
    · simp only [e, if_false] at hf
      obtain ⟨j, h1, h2, h3⟩ := ih (n + 1) dk hf
      refine ⟨j, by omega, ?_, h3⟩
      have : j - n = (j - (n + 1)) + 1 := by omega
      rw [this, List.getElem?_cons_succ]; exact h2

theorem withIdx_findSome_none {op : OutPoint} {h : Nat} {blk : Block} : ∀ (ins : List OutPoint) (n : Nat),
    (withIdx ins n).findSome? (fun ji => if ji.2 = op then some (⟨h, blk, ji.1⟩ : CredKey) else none) = none ↔
      op ∉ ins := by
  intro ins
  induction ins with
  | nil => intro n; simp [withIdx]
  | cons a t ih =>
    intro n
    simp only [withIdx, List.findSome?_cons, List.mem_cons, not_or]
    by_cases e : a = op
    · simp [e]
    · simp only [e, if_false]
      rw [ih]
      constructor
      · intro h; exact ⟨fun x => e x.symm, h⟩
      · intro h; exact h.2

theorem spenderOf_eq_none_iff {L : Ledger} {op : OutPoint} :
    spenderOf L op = none ↔ ∀ p ∈ chainTxs L, op ∉ p.1.ins := by
  unfold spenderOf
  rw [List.findSome?_eq_none_iff]
  constructor
  · intro h p hp; exact (withIdx_findSome_none _ 0).mp (h p hp)
  · intro h p hp; exact (withIdx_findSome_none _ 0).mpr (h p hp)

theorem spenderOf_some_elim {L : Ledger} {op : OutPoint} {dk : CredKey} (h : spenderOf L op = some dk) :
    ∃ p ∈ chainTxs L, ∃ j, p.1.ins[j]? = some op ∧ dk = ⟨p.1.hash, p.2.block, j⟩ := by
  unfold spenderOf at h
  obtain ⟨l1, p, l2, hl, hp, _⟩ := List.findSome?_eq_some_iff.mp h
  obtain ⟨j, _, h2, h3⟩ := withIdx_findSome_some _ 0 dk hp
  exact ⟨p, by rw [hl]; simp, j, by simpa using h2, h3⟩

/-- with no confirmed double spend the confirmed spender is unique -/
theorem spenderOf_eq_some_iff {L : Ledger} (hn : ((chainTxs L).flatMap (·.1.ins)).Nodup) {op : OutPoint} {dk : CredKey} :
    spenderOf L op = some dk ↔ ∃ p ∈ chainTxs L, ∃ j, p.1.ins[j]? = some op ∧ dk = ⟨p.1.hash, p.2.block, j⟩ := by
  constructor
  · exact spenderOf_some_elim
  · rintro ⟨p, hp, j, hj, rfl⟩
    cases hs : spenderOf L op with
    | none =>
      have := spenderOf_eq_none_iff.mp hs p hp
      exact absurd (List.mem_of_getElem? hj) this
    | some dk' =>
      obtain ⟨q, hq, j', hj', rfl⟩ := spenderOf_some_elim hs
      have hpq : p = q := nodup_flatMap_unique _ _ hn p hp q hq op (List.mem_of_getElem? hj) (List.mem_of_getElem? hj')
      subst hpq
      have hnd : p.1.ins.Nodup := nodup_of_nodup_flatMap _ _ hn p hp
      have hlt : j < p.1.ins.length := (List.getElem?_eq_some_iff.mp hj).1
      have : j = j' := (List.getElem?_inj hlt hnd).mp (by rw [hj, hj'])
      subst this; rfl

theorem spenderOf_isSome {L : Ledger} (op : OutPoint) : (spenderOf L op).isSome = spentConfirmed L op := by
  cases hs : spenderOf L op with
  | none =>
    have := spenderOf_eq_none_iff.mp hs
    symm
    simp only [Option.isSome_none]
    exact spentConfirmed_false_iff.mpr this
  | some dk =>
    obtain ⟨p, hp, j, hj, _⟩ := spenderOf_some_elim hs
    symm
    exact spentConfirmed_iff.mpr ⟨p, hp, List.mem_of_getElem? hj⟩

/-! ### `chainInsert` -/

def chainTxsOf (c : List LBlock) : List (Tx × BlockMeta) := c.flatMap fun b => b.txs.map fun t => (t, b.bm)

theorem chainTxs_eq (L : Ledger) : chainTxs L = chainTxsOf L.chain := rfl

/-- one block per height: a block at the height of `bm` is the block `bm` -/
def SameHeightSame (c : List LBlock) (bm : BlockMeta) : Prop :=
  ∀ b ∈ c, b.bm.block.height = bm.block.height → b.bm = bm

theorem chainInsert_perm (bm : BlockMeta) (t : Tx) : ∀ (c : List LBlock), SameHeightSame c bm →
    (chainTxsOf (chainInsert c bm t)).Perm (chainTxsOf c ++ [(t, bm)]) := by
  intro c
  induction c with
  | nil => intro _; simp [chainInsert, chainTxsOf]
  | cons b rest ih =>
    intro hs
    unfold chainInsert
    by_cases e1 : b.bm.block.height = bm.block.height
    · simp only [e1, if_true]
      have hb : b.bm = bm := hs b List.mem_cons_self e1
      simp only [chainTxsOf, List.flatMap_cons, List.map_append, List.map_cons, List.map_nil, List.append_assoc, hb]
      apply List.Perm.append_left
      have := @List.perm_middle _ (t, bm) [] (List.flatMap (fun b => List.map (fun t => (t, b.bm)) b.txs) rest)
      simp only [List.nil_append] at this
      exact (List.perm_append_comm (l₁ := [(t, bm)])).trans (by simp)
    · simp only [e1, if_false]
      by_cases e2 : bm.block.height < b.bm.block.height
      · simp only [e2, if_true]
        simp only [chainTxsOf, List.flatMap_cons, List.map_cons, List.map_nil]
        exact (List.perm_append_comm (l₁ := [(t, bm)]))
      · simp only [e2, if_false]
        have ih' := ih (fun b' hb' => hs b' (List.mem_cons_of_mem _ hb'))
        simp only [chainTxsOf, List.flatMap_cons, List.append_assoc] at ih' ⊢
        exact List.Perm.append_left _ ih'

theorem mem_chainTxsOf_insert {bm : BlockMeta} {t : Tx} {c : List LBlock} (hs : SameHeightSame c bm)
    (p : Tx × BlockMeta) : p ∈ chainTxsOf (chainInsert c bm t) ↔ p ∈ chainTxsOf c ∨ p = (t, bm) := by
  rw [(chainInsert_perm bm t c hs).mem_iff]
  simp

theorem chainInsert_heights (bm : BlockMeta) (t : Tx) : ∀ (c : List LBlock),
    (c.map (·.bm.block.height)).Pairwise (· < ·) →
    ((chainInsert c bm t).map (·.bm.block.height)).Pairwise (· < ·) ∧
    (∀ h ∈ (chainInsert c bm t).map (·.bm.block.height), h = bm.block.height ∨ h ∈ c.map (·.bm.block.height)) := by
  intro c
  induction c with
  | nil => intro _; simp [chainInsert]
  | cons b rest ih =>
    intro hp
    unfold chainInsert
    by_cases e1 : b.bm.block.height = bm.block.height
    · simp only [e1, if_true]
      refine ⟨by simpa [e1] using hp, ?_⟩
      intro h hh
      right; simpa [e1] using hh
    · simp only [e1, if_false]
      by_cases e2 : bm.block.height < b.bm.block.height
      · simp only [e2, if_true]
        refine ⟨?_, ?_⟩
        · simp only [List.map_cons, List.pairwise_cons] at hp ⊢
          refine ⟨?_, hp⟩
          intro h hh
          rcases List.mem_cons.mp hh with rfl | hh
          · exact e2
          · have := hp.1 h hh; omega
        · intro h hh
          simp only [List.map_cons, List.mem_cons] at hh ⊢
          rcases hh with rfl | hh
          · exact Or.inl rfl
          · exact Or.inr hh
      · simp only [e2, if_false]
        simp only [List.map_cons, List.pairwise_cons] at hp ⊢
        obtain ⟨ih1, ih2⟩ := ih hp.2
        refine ⟨⟨?_, ih1⟩, ?_⟩
        · intro h hh
          rcases ih2 h hh with rfl | hh'
          · omega
          · exact hp.1 h hh'
        · intro h hh
          simp only [List.mem_cons] at hh ⊢
          rcases hh with rfl | hh
          · exact Or.inr (Or.inl rfl)
          · rcases ih2 h hh with h' | h'
            · exact Or.inl h'
            · exact Or.inr (Or.inr h')

/-- the block record `insertMinedTx` writes -/
def blockRecAfter (m : KMap Nat BlockRec) (bm : BlockMeta) (t : Tx) : BlockRec :=
  match m.find? bm.block.height with
  | none => ⟨bm.block.hash, bm.time, [t.hash]⟩
  | some br => { br with txs := br.txs ++ [t.hash] }

theorem erase_of_all_ne {ν : Type} (m : KMap Nat ν) (k : Nat) (h : ∀ p ∈ m, p.1 ≠ k) : KMap.erase m k = m := by
  unfold KMap.erase
  rw [List.filter_eq_self]
  intro p hp
  simpa using h p hp

theorem blocks_insert_chain (bm : BlockMeta) (t : Tx) : ∀ (c : List LBlock),
    (c.map (·.bm.block.height)).Pairwise (· < ·) →
    KMap.insert (c.map blockEntry) bm.block.height (blockRecAfter (c.map blockEntry) bm t) =
      (chainInsert c bm t).map blockEntry := by
  intro c
  induction c with
  | nil =>
    intro _
    simp [KMap.insert, KMap.erase, KMap.place, blockRecAfter, KMap.find?, chainInsert, blockEntry]
  | cons b rest ih =>
    intro hp
    simp only [List.map_cons, List.pairwise_cons] at hp
    have hrest : ∀ p ∈ rest.map blockEntry, b.bm.block.height < p.1 := by
      intro p hp'
      obtain ⟨lb, hlb, rfl⟩ := List.mem_map.mp hp'
      exact hp.1 _ (List.mem_map.mpr ⟨lb, hlb, rfl⟩)
    unfold chainInsert
    by_cases e1 : b.bm.block.height = bm.block.height
    · simp only [e1, if_true, List.map_cons]
      have hfind : KMap.find? (blockEntry b :: rest.map blockEntry) bm.block.height = some (blockEntry b).2 := by
        simp [KMap.find?, blockEntry, e1]
      have herase : KMap.erase (blockEntry b :: rest.map blockEntry) bm.block.height = rest.map blockEntry := by
        unfold KMap.erase
        rw [List.filter_cons]
        have : (!decide ((blockEntry b).1 = bm.block.height)) = false := by simp [blockEntry, e1]
        simp only [this, Bool.false_eq_true, if_false]
        exact erase_of_all_ne _ _ (fun p hp' => by have := hrest p hp'; omega)
      unfold KMap.insert blockRecAfter
      rw [hfind, herase]
      have hplace : ∀ v : BlockRec, KMap.place (rest.map blockEntry) bm.block.height v =
          (bm.block.height, v) :: rest.map blockEntry := by
        intro v
        cases hr : rest.map blockEntry with
        | nil => rfl
        | cons q r =>
          have := hrest q (by rw [hr]; exact List.mem_cons_self)
          unfold KMap.place
          have hlt : KOrd.lt bm.block.height q.1 = true := by
            show decide (bm.block.height < q.1) = true
            simp; omega
          simp [hlt]
      rw [hplace]
      simp [blockEntry, e1]
    · simp only [e1, if_false]
      by_cases e2 : bm.block.height < b.bm.block.height
      · simp only [e2, if_true, List.map_cons]
        have hall : ∀ p ∈ (blockEntry b :: rest.map blockEntry), p.1 ≠ bm.block.height := by
          intro p hp'
          rcases List.mem_cons.mp hp' with rfl | hp''
          · simpa [blockEntry] using e1
          · have := hrest p hp''; omega
        have hfind : KMap.find? (blockEntry b :: rest.map blockEntry) bm.block.height = none := by
          cases hf : KMap.find? (blockEntry b :: rest.map blockEntry) bm.block.height with
          | none => rfl
          | some v => exact absurd rfl (hall _ (mem_of_find? _ hf))
        unfold KMap.insert blockRecAfter
        rw [hfind, erase_of_all_ne _ _ hall]
        unfold KMap.place
        have hlt : KOrd.lt bm.block.height b.bm.block.height = true := by
          show decide (bm.block.height < b.bm.block.height) = true
          simpa using e2
        simp [hlt, blockEntry]
      · simp only [e2, if_false, List.map_cons]
        rw [← ih hp.2]
        have hne : (blockEntry b).1 ≠ bm.block.height := by simpa [blockEntry] using e1
        have hfind : KMap.find? (blockEntry b :: rest.map blockEntry) bm.block.height =
            KMap.find? (rest.map blockEntry) bm.block.height := by
          rw [KMap.find?_cons]; simp [hne]
        unfold KMap.insert blockRecAfter
        rw [hfind]
        have herase : KMap.erase (blockEntry b :: rest.map blockEntry) bm.block.height =
            blockEntry b :: KMap.erase (rest.map blockEntry) bm.block.height := by
          unfold KMap.erase
          rw [List.filter_cons]
          have : (!decide ((blockEntry b).1 = bm.block.height)) = true := by simpa using hne
          simp only [this, if_true]
        rw [herase]
        have hlt : KOrd.lt bm.block.height (blockEntry b).1 = false := by
          show decide (bm.block.height < b.bm.block.height) = false
          simpa using e2
        conv => lhs; unfold KMap.place
        simp only [hlt, Bool.false_eq_true, if_false]

/-! ### reading `consistent` for *confirmed* (transaction not yet in the chain) -/

structure ConfFacts (L : Ledger) (bm : BlockMeta) (t : Tx) (cr : List (Nat × Bool)) : Prop where
  notMined : ∀ p ∈ chainTxs L, p.1.hash ≠ t.hash
  sameTx : ∀ u ∈ L.pool, u.hash = t.hash → u = t
  crValid : ∀ c ∈ cr, c.1 < t.outs.length
  sameHeight : SameHeightSame L.chain bm
  noDouble : ∀ p ∈ chainTxs L, ∀ i ∈ p.1.ins, i ∉ t.ins
  insNodup : t.ins.Nodup
  parentsNotPool : ∀ i ∈ t.ins, ∀ u ∈ L.pool, u.hash ≠ i.hash
  parentsBelow : ∀ p ∈ chainTxs L, ∀ i ∈ t.ins, i.hash = p.1.hash → p.2.block.height ≤ bm.block.height
  cbNotPool : t.isCoinBase = true → ∀ u ∈ L.pool, u.hash ≠ t.hash
  freshNoChild : (∀ p ∈ known L, p.1.hash ≠ t.hash) → ∀ p ∈ known L, ∀ i ∈ p.1.ins, i.hash ≠ t.hash
  childrenAbove : ∀ p ∈ chainTxs L, ∀ i ∈ p.1.ins, i.hash = t.hash → bm.block.height ≤ p.2.block.height
  refs : (∀ p ∈ known L, p.1.hash ≠ t.hash) →
    ∀ i ∈ t.ins, ∀ q ∈ known L, q.1.hash = i.hash → i.index < q.1.outs.length
  bound : t.outs.length ≤ nullIndex
  noSelf : ∀ i ∈ t.ins, i.hash ≠ t.hash

theorem confFacts_of {L : Ledger} {bm : BlockMeta} {t : Tx} {cr : List (Nat × Bool)}
    (hc : Consistent L (.confirmed bm t cr)) (hn : inChain L t.hash = false) : ConfFacts L bm t cr := by
  have h1 := hc.cons
  have h2 := hc.extra
  obtain ⟨hb, hs⟩ := hc.bound t rfl
  simp [consistent] at h1
  simp [Ledger.extra] at h2
  obtain ⟨⟨⟨⟨⟨⟨⟨⟨⟨⟨c1, c2⟩, c3⟩, _⟩, c5⟩, c6⟩, c7⟩, c8⟩, c9⟩, c10⟩, c11⟩ := h1
  have hnm := inChain_false_iff.mp hn
  refine ⟨hnm, ?_, ?_, ?_, ?_, nodup_of_eraseDups_length c6, ?_, ?_, ?_, ?_, ?_, ?_, hb, hs⟩
  · intro u hu e
    rcases c1 u none (known_of_pool hu) with h | h
    · exact absurd e h
    · exact h
  · rintro ⟨a, b⟩ hcr
    cases b
    · exact (c2 a).1 hcr
    · exact (c2 a).2 hcr
  · intro b hb' e
    rcases c3 b hb' with h | h
    · exact absurd e h
    · exact h
  · intro p hp i hi
    rcases c5 p.1 p.2 hp with h | h
    · exact absurd h (hnm p hp)
    · exact h i hi
  · intro i hi u hu
    exact inPool_false_iff.mp (c7 i hi) u hu
  · intro p hp i hi e
    rcases c8 p.1 p.2 hp with h | h
    · exact absurd e (h i hi)
    · exact h
  · intro hcb u hu
    rcases c9 with h | h
    · rw [hcb] at h; cases h
    · exact inPool_false_iff.mp h u hu
  · intro hf p hp i hi
    rcases c10 with h | h
    · obtain ⟨q, hq, e⟩ := isKnown_iff.mp h
      exact absurd e (hf q hq)
    · exact h p.1 p.2 hp i hi
  · intro p hp i hi e
    rcases c11 p.1 p.2 hp with h | h
    · exact absurd e (h i hi)
    · exact h
  · intro hf
    rcases h2 with h | h
    · obtain ⟨q, hq, e⟩ := isKnown_iff.mp h
      exact absurd e (hf q hq)
    · exact validRefs_iff.mp h

/-! ### the ledger with `t` in the chain (conflicting unconfirmed transactions still in the pool) -/

def toChain (L : Ledger) (bm : BlockMeta) (t : Tx) : Ledger :=
  { L with chain := chainInsert L.chain bm t, pool := L.pool.filter (fun u => u.hash != t.hash) }

theorem mem_chainTxs_toChain {L : Ledger} {bm : BlockMeta} {t : Tx} (hs : SameHeightSame L.chain bm)
    (p : Tx × BlockMeta) : p ∈ chainTxs (toChain L bm t) ↔ p ∈ chainTxs L ∨ p = (t, bm) :=
  mem_chainTxsOf_insert hs p

theorem mem_pool_toChain {L : Ledger} {bm : BlockMeta} {t : Tx} {u : Tx} :
    u ∈ (toChain L bm t).pool ↔ u ∈ L.pool ∧ u.hash ≠ t.hash := by
  simp [toChain]

theorem mem_known_toChain {L : Ledger} {bm : BlockMeta} {t : Tx} (hs : SameHeightSame L.chain bm)
    (p : Tx × Option BlockMeta) :
    p ∈ known (toChain L bm t) ↔ (p ∈ known L ∧ ¬(p.2 = none ∧ p.1.hash = t.hash)) ∨ p = (t, some bm) := by
  obtain ⟨x, ob⟩ := p
  rw [mem_known, mem_known]
  constructor
  · rintro (⟨b, rfl, hm⟩ | ⟨rfl, hm⟩)
    · rcases (mem_chainTxs_toChain hs _).mp hm with h | h
      · exact Or.inl ⟨Or.inl ⟨b, rfl, h⟩, by simp⟩
      · cases h; exact Or.inr rfl
    · obtain ⟨h1, h2⟩ := mem_pool_toChain.mp hm
      exact Or.inl ⟨Or.inr ⟨rfl, h1⟩, by simp [h2]⟩
  · rintro (⟨⟨b, rfl, hm⟩ | ⟨rfl, hm⟩, hne⟩ | h)
    · exact Or.inl ⟨b, rfl, (mem_chainTxs_toChain hs _).mpr (Or.inl hm)⟩
    · exact Or.inr ⟨rfl, mem_pool_toChain.mpr ⟨hm, by simpa using hne⟩⟩
    · cases h; exact Or.inl ⟨bm, rfl, (mem_chainTxs_toChain hs _).mpr (Or.inr rfl)⟩

/-- a known entry of the new ledger is `t` or comes from a known entry of the old one -/
theorem known_toChain_old {L : Ledger} {bm : BlockMeta} {t : Tx} (hs : SameHeightSame L.chain bm)
    {p : Tx × Option BlockMeta} (hp : p ∈ known (toChain L bm t)) : p ∈ known L ∨ p = (t, some bm) := by
  rcases (mem_known_toChain hs p).mp hp with h | h
  · exact Or.inl h.1
  · exact Or.inr h

theorem lwf_toChain {L : Ledger} (hl : LWF L) {bm : BlockMeta} {t : Tx} {cr : List (Nat × Bool)}
    (hf : ConfFacts L bm t cr) : LWF (toChain L bm t) := by
  have hs := hf.sameHeight
  have hold := fun p hp => known_toChain_old (t := t) hs (p := p) hp
  -- every old known transaction other than the pool copy of t is still known; t is known
  have hkeep : ∀ q ∈ known L, ∃ q' ∈ known (toChain L bm t), q'.1 = q.1 := by
    intro q hq
    by_cases e : q.2 = none ∧ q.1.hash = t.hash
    · have : q.1 ∈ L.pool := by
        obtain ⟨x, ob⟩ := q
        rcases mem_known.mp hq with ⟨b, rfl, _⟩ | ⟨_, hm⟩
        · cases e.1
        · exact hm
      have : q.1 = t := hf.sameTx _ this e.2
      exact ⟨(t, some bm), (mem_known_toChain hs _).mpr (Or.inr rfl), this.symm⟩
    · exact ⟨q, (mem_known_toChain hs _).mpr (Or.inl ⟨hq, e⟩), rfl⟩
  have hperm := chainInsert_perm bm t L.chain hs
  refine ⟨(chainInsert_heights bm t L.chain hl.heights).1, ?_, hl.creditKeys, ?_, ?_, ?_, ?_, ?_, ?_, ?_, hl.leaseKeys⟩
  · -- hashes
    have h0 := hl.hashes
    unfold known at h0 ⊢
    have hp2 : (((chainTxs (toChain L bm t)).map fun (p : Tx × BlockMeta) => (p.1, some p.2)) ++
        (toChain L bm t).pool.map fun t => (t, none)).Perm
        ((((chainTxs L) ++ [(t, bm)]).map fun (p : Tx × BlockMeta) => (p.1, some p.2)) ++
        (toChain L bm t).pool.map fun t => ((t, none) : Tx × Option BlockMeta)) :=
      List.Perm.append_right _ (hperm.map _)
    rw [(hp2.map _).nodup_iff]
    simp only [List.map_append, List.map_map, List.map_cons, List.map_nil, List.append_assoc] at h0 ⊢
    rw [List.nodup_append] at h0 ⊢
    obtain ⟨ha, hb, hab⟩ := h0
    have hsubl : (List.map ((fun p : Tx × Option BlockMeta => p.1.hash) ∘ fun t => (t, none)) (toChain L bm t).pool).Sublist
        (List.map ((fun p : Tx × Option BlockMeta => p.1.hash) ∘ fun t => (t, none)) L.pool) :=
      List.Sublist.map _ List.filter_sublist
    refine ⟨ha, ?_, ?_⟩
    · rw [List.singleton_append, List.nodup_cons]
      refine ⟨?_, hsubl.nodup hb⟩
      intro hm
      obtain ⟨u, hu, e⟩ := List.mem_map.mp hm
      exact (mem_pool_toChain.mp hu).2 e
    · intro a haa b hbb
      rcases List.mem_append.mp hbb with hb1 | hb2
      · simp only [List.mem_singleton] at hb1
        obtain ⟨p, hp, e⟩ := List.mem_map.mp haa
        rw [hb1, ← e]; exact hf.notMined p hp
      · exact hab a haa b (hsubl.subset hb2)
  · intro p hp
    obtain ⟨q, hq, h1, h2⟩ := hl.creditKnown p hp
    obtain ⟨q', hq', e⟩ := hkeep q hq
    exact ⟨q', hq', by rw [e]; exact h1, by rw [e]; exact h2⟩
  · intro u hu; exact hl.poolNoCb u (mem_pool_toChain.mp hu).1
  · -- no confirmed double spend
    have hp3 : ((chainTxs (toChain L bm t)).flatMap (·.1.ins)).Perm (((chainTxs L) ++ [(t, bm)]).flatMap (·.1.ins)) :=
      hperm.flatMap_right _
    rw [hp3.nodup_iff, List.flatMap_append, List.nodup_append]
    refine ⟨hl.noDouble, by simpa using hf.insNodup, ?_⟩
    intro a ha b hb e
    obtain ⟨p, hp, hpa⟩ := List.mem_flatMap.mp ha
    have hbt : b ∈ t.ins := by simpa using hb
    exact hf.noDouble p hp a hpa (e ▸ hbt)
  · -- parents
    intro p hp i hi q hq e
    rcases (mem_chainTxs_toChain hs p).mp hp with hp' | rfl
    · rcases hold q hq with hq' | rfl
      · exact hl.parents p hp' i hi q hq' e
      · exact ⟨bm, rfl, hf.childrenAbove p hp' i hi e.symm⟩
    · rcases hold q hq with hq' | rfl
      · obtain ⟨x, ob⟩ := q
        rcases mem_known.mp hq' with ⟨b, rfl, hm⟩ | ⟨rfl, hm⟩
        · exact ⟨b, rfl, hf.parentsBelow _ hm i hi e.symm⟩
        · exact absurd e (hf.parentsNotPool i hi x hm)
      · exact absurd e.symm (hf.noSelf i hi)
  · -- rank
    obtain ⟨rk, hrk⟩ := hl.rank
    by_cases hknown : ∃ q ∈ known L, q.1.hash = t.hash
    · -- t was unconfirmed: the old ranks work
      obtain ⟨q0, hq0, e0⟩ := hknown
      have hq0t : q0.1 = t ∧ q0.2 = none := by
        obtain ⟨x, ob⟩ := q0
        rcases mem_known.mp hq0 with ⟨b, rfl, hm⟩ | ⟨rfl, hm⟩
        · exact absurd e0 (hf.notMined _ hm)
        · exact ⟨hf.sameTx x hm e0, rfl⟩
      have hback : ∀ p ∈ known (toChain L bm t), ∃ p' ∈ known L, p'.1 = p.1 := by
        intro p hp
        rcases hold p hp with h | rfl
        · exact ⟨p, h, rfl⟩
        · exact ⟨q0, hq0, hq0t.1⟩
      refine ⟨rk, ?_⟩
      intro p hp i hi q hq e
      obtain ⟨p', hp', ep⟩ := hback p hp
      obtain ⟨q', hq', eq⟩ := hback q hq
      have := hrk p' hp' i (by rw [ep]; exact hi) q' hq' (by rw [eq]; exact e)
      rw [ep] at this; exact this
    · -- t is new: rank it above everything
      have hfresh : ∀ p ∈ known L, p.1.hash ≠ t.hash := fun p hp e => hknown ⟨p, hp, e⟩
      have hnc := hf.freshNoChild hfresh
      let M := ((known L).map (fun p => rk p.1.hash)).sum
      refine ⟨fun x => if x = t.hash then M + 1 else rk x, ?_⟩
      intro p hp i hi q hq e
      rcases hold p hp with hp' | rfl
      · rcases hold q hq with hq' | rfl
        · have h1 : i.hash ≠ t.hash := by rw [← e]; exact hfresh q hq'
          have h2 : p.1.hash ≠ t.hash := hfresh p hp'
          simp only [h1, h2, if_false]
          exact hrk p hp' i hi q hq' e
        · exact absurd e.symm (hnc p hp' i hi)
      · rcases hold q hq with hq' | rfl
        · have h1 : i.hash ≠ t.hash := by rw [← e]; exact hfresh q hq'
          simp only [h1, if_false, if_true]
          have : rk q.1.hash ≤ M := le_sum_of_mem _ _ (List.mem_map.mpr ⟨q, hq', rfl⟩)
          rw [← e]; omega
        · exact absurd e.symm (hf.noSelf i hi)
  · -- validRefs
    intro p hp i hi q hq e
    by_cases hknown : ∃ q ∈ known L, q.1.hash = t.hash
    · obtain ⟨q0, hq0, e0⟩ := hknown
      have hq0t : q0.1 = t := by
        obtain ⟨x, ob⟩ := q0
        rcases mem_known.mp hq0 with ⟨b, rfl, hm⟩ | ⟨rfl, hm⟩
        · exact absurd e0 (hf.notMined _ hm)
        · exact hf.sameTx x hm e0
      have hback : ∀ p ∈ known (toChain L bm t), ∃ p' ∈ known L, p'.1 = p.1 := by
        intro p hp
        rcases hold p hp with h | rfl
        · exact ⟨p, h, rfl⟩
        · exact ⟨q0, hq0, hq0t⟩
      obtain ⟨p', hp', ep⟩ := hback p hp
      obtain ⟨q', hq', eq⟩ := hback q hq
      have := hl.validRefs p' hp' i (by rw [ep]; exact hi) q' hq' (by rw [eq]; exact e)
      rw [eq] at this; exact this
    · have hfresh : ∀ p ∈ known L, p.1.hash ≠ t.hash := fun p hp e => hknown ⟨p, hp, e⟩
      rcases hold p hp with hp' | rfl
      · rcases hold q hq with hq' | rfl
        · exact hl.validRefs p hp' i hi q hq' e
        · exact absurd e.symm (hf.freshNoChild hfresh p hp' i hi)
      · rcases hold q hq with hq' | rfl
        · exact hf.refs hfresh i hi q hq' e
        · exact absurd e.symm (hf.noSelf i hi)
  · intro p hp
    rcases hold p hp with hp' | rfl
    · exact hl.outsBound p hp'
    · exact hf.bound

end TxStore
