import BtcwVerif.Props.C12
import BtcwVerif.Lemmas.RefConfirm2
/-!
# Refinement: the lease events (*lease*, *release*, *sweep*, *clock*) preserve `Good`
(the lease bucket itself is handled by `C12_*_refines_partial`; here the `known` clause of `LeaseRefines` is derived
from `Good`, which removes the `_partial`).
-/
namespace TxStore
open KMap Ledger

/-- the store knows exactly the outputs the ledger allows to lease -/
theorem known_of_good {s : Store} {L : Ledger} (hg : Good s L) (op : OutPoint) :
    isKnownOutput s op = leasable L op := by
  have hr := hg.ref
  have hl := hg.lwf
  have hiff : isKnownOutput s op = true ↔ leasable L op = true := by
    unfold isKnownOutput leasable credited
    simp only [Bool.or_eq_true, contains_eq, Bool.and_eq_true, Bool.not_eq_true']
    constructor
    · rintro (h | h)
      · cases hf : s.unminedCredits.find? op with
        | none => rw [hf] at h; cases h
        | some uc =>
          obtain ⟨u, hu, e1, _, e3⟩ := (hr.ucredits_iff op uc).mp hf
          refine ⟨⟨by rw [e3]; rfl, isKnown_iff.mpr ⟨_, known_of_pool hu, e1.symm⟩⟩, ?_⟩
          rw [spentConfirmed_false_iff]
          intro p hp hin
          obtain ⟨b, hb, _⟩ := hl.parents p hp op hin _ (known_of_pool hu) e1.symm
          cases hb
      · cases hf : s.unspent.find? op with
        | none => rw [hf] at h; cases h
        | some blk =>
          obtain ⟨cv, hcv, hsp⟩ := (hg.wf2.wf.index op blk).mp hf
          obtain ⟨x, b, hxb, e1, _, _, e4, _, e6⟩ := (hr.credits_iff _ _).mp hcv
          have ho : (⟨op.hash, blk, op.index⟩ : CredKey).outPoint = op := by cases op; rfl
          rw [ho] at e4 e6
          refine ⟨⟨by rw [e4]; rfl, isKnown_iff.mpr ⟨_, known_of_mined hxb, e1.symm⟩⟩, ?_⟩
          rw [← spenderOf_isSome, ← e6, hsp]
    · rintro ⟨⟨h1, h2⟩, h3⟩
      obtain ⟨q, hq, hqh⟩ := isKnown_iff.mp h2
      cases hlk : lookup L.credit op with
      | none => rw [hlk] at h1; cases h1
      | some chg =>
        obtain ⟨p, hp, hpk⟩ := (lookup_isSome_iff L.credit op).mp (by rw [hlk]; rfl)
        obtain ⟨q', hq', e1, e2⟩ := hl.creditKnown p hp
        have : q' = q := hl.known_unique hq' hq (by rw [e1, hpk, hqh])
        subst this
        rw [hpk] at e2
        obtain ⟨x, ob⟩ := q'
        obtain ⟨amt, hamt⟩ : ∃ amt, x.outs[op.index]? = some amt := ⟨x.outs[op.index], List.getElem?_eq_getElem e2⟩
        rcases mem_known.mp hq with ⟨b, rfl, hm⟩ | ⟨rfl, hm⟩
        · right
          have hsp : spenderOf L op = none := by
            cases hs : spenderOf L op with
            | none => rfl
            | some dk =>
              have : (spenderOf L op).isSome = true := by rw [hs]; rfl
              rw [spenderOf_isSome, h3] at this; cases this
          have ho : (⟨op.hash, b.block, op.index⟩ : CredKey).outPoint = op := by cases op; rfl
          have hcred : s.credits.find? ⟨op.hash, b.block, op.index⟩ = some ⟨amt, chg, false, none⟩ :=
            (hr.credits_iff _ _).mpr ⟨x, b, hm, hqh.symm, rfl, hamt, by rw [ho]; exact hlk, by rw [ho, hsp],
              by rw [ho, hsp]; rfl⟩
          rw [(hg.wf2.wf.index op b.block).mpr ⟨_, hcred, rfl⟩]; rfl
        · left
          rw [(hr.ucredits_iff op ⟨amt, chg⟩).mpr ⟨x, hm, hqh.symm, hamt, hlk⟩]; rfl
  cases h1 : isKnownOutput s op <;> cases h2 : leasable L op <;> simp_all

theorem leaseRefines_of_good {s : Store} {L : Ledger} (hg : Good s L) : C12.LeaseRefines s L :=
  ⟨known_of_good hg, hg.ref.leases⟩

/-- a store / ledger pair that differs from a good one only in the lease bucket, the leases and the clock -/
theorem good_of_lease_change {s s' : Store} {L L' : Ledger} (hg : Good s L)
    (hs : s' = { s with locked := s'.locked }) (hL : L' = { L with leases := L'.leases, now := L'.now })
    (hlr : C12.LeaseRefines s' L') (hn : NodupKeys s'.locked) (hk : (L'.leases.map (·.1)).Nodup) : Good s' L' := by
  have hr := hg.ref
  have hl := hg.lwf
  rw [hs, hL]
  refine ⟨?_, ?_, ?_⟩
  · exact wf2_of_sameMined (s := s) ⟨rfl, rfl, rfl, rfl, rfl, rfl⟩ hg.wf2.wf.nodupUC hg.wf2
  · exact ⟨hl.heights, hl.hashes, hl.creditKeys, hl.creditKnown, hl.poolNoCb, hl.noDouble, hl.parents, hl.rank,
      hl.validRefs, hl.outsBound, hk⟩
  · exact ⟨hr.blocks, hr.txrecs, hr.unmined, hr.credits, hr.debits, hr.ucredits, hr.uinputs, hr.uinputsNE,
      hlr.leases, hr.nodupTxrecs, hr.nodupUnmined, hr.nodupDebits, hn⟩

theorem noConflict_of_lease_change {L L' : Ledger} (hL : L' = { L with leases := L'.leases, now := L'.now })
    (h : NoConflict L) : NoConflict L' := by
  rw [hL]; exact h

theorem nodup_filter_append_one {α : Type} (l : List (OutPoint × α)) (op : OutPoint) (v : α)
    (h : (l.map (·.1)).Nodup) : (((l.filter fun p => p.1 != op) ++ [(op, v)]).map (·.1)).Nodup := by
  rw [List.map_append, List.nodup_append]
  refine ⟨nodup_map_filter _ _ _ h, by simp, ?_⟩
  intro a ha b hb
  simp only [List.map_cons, List.map_nil, List.mem_singleton] at hb
  obtain ⟨p, hp, rfl⟩ := List.mem_map.mp ha
  rw [hb]
  have := (List.mem_filter.mp hp).2
  simpa using this

theorem apply_lease (L : Ledger) (id : Nat) (op : OutPoint) (d : Int) :
    Ledger.apply L (.lease id op d) =
      if !leasable L op then L
      else match leaseOf L op with
        | some l => if l.id ≠ id then L
                    else { L with leases := (L.leases.filter fun p => p.1 != op) ++ [(op, ⟨id, grantedExpiry L.now d⟩)] }
        | none => { L with leases := (L.leases.filter fun p => p.1 != op) ++ [(op, ⟨id, grantedExpiry L.now d⟩)] } := rfl

theorem apply_release (L : Ledger) (id : Nat) (op : OutPoint) :
    Ledger.apply L (.release id op) =
      if !leasable L op then L
      else match leaseOf L op with
        | some l => if l.id ≠ id then L else { L with leases := L.leases.filter fun p => p.1 != op }
        | none => L := rfl

theorem stepEvent_lease (s : Store) (now id : Nat) (op : OutPoint) (d : Int) :
    stepEvent s now (.lease id op d) =
      .ok (match lockOutput s now id op d with | .ok (_, s') => s' | .error _ => s) := by
  show (match lockOutput s now id op d with | .ok (_, s') => pure s' | .error _ => pure s) = _
  cases lockOutput s now id op d <;> rfl

theorem stepEvent_release (s : Store) (now id : Nat) (op : OutPoint) :
    stepEvent s now (.release id op) =
      .ok (match unlockOutput s now id op with | .ok s' => s' | .error _ => s) := by
  show (match unlockOutput s now id op with | .ok s' => pure s' | .error _ => pure s) = _
  cases unlockOutput s now id op <;> rfl

theorem lockOutput_ok {s s' : Store} {now id : Nat} {op : OutPoint} {d e : Int}
    (h : lockOutput s now id op d = .ok (e, s')) :
    s' = { s with locked := s.locked.insert op ⟨id, unixSeconds (grantedExpiry now d)⟩ } := by
  by_cases hk : isKnownOutput s op = true
  · cases hl : isLockedOutput s op now with
    | none => simp [lockOutput, hk, hl] at h; obtain ⟨_, rfl⟩ := h; rfl
    | some l =>
      by_cases hid : l.id = id
      · simp [lockOutput, hk, hl, hid] at h; obtain ⟨_, rfl⟩ := h; rfl
      · simp [lockOutput, hk, hl, hid] at h
  · simp [lockOutput, hk] at h

/-- **event *lease*** -/
theorem good_lease {s : Store} {L : Ledger} (hg : Good s L) (id : Nat) (op : OutPoint) (d : Int) :
    ∃ s', stepEvent s L.now (.lease id op d) = .ok s' ∧ Good s' (Ledger.apply L (.lease id op d)) ∧
      (NoConflict L → NoConflict (Ledger.apply L (.lease id op d))) := by
  have hlr := C12.C12_lease_refines_partial s L id op d (leaseRefines_of_good hg)
  have hL : Ledger.apply L (.lease id op d) =
      { L with leases := (Ledger.apply L (.lease id op d)).leases, now := (Ledger.apply L (.lease id op d)).now } := by
    rw [apply_lease]
    split
    · rfl
    · split
      · split <;> rfl
      · rfl
  have hk : ((Ledger.apply L (.lease id op d)).leases.map (·.1)).Nodup := by
    rw [apply_lease]
    split
    · exact hg.lwf.leaseKeys
    · split
      · split
        · exact hg.lwf.leaseKeys
        · exact nodup_filter_append_one _ _ _ hg.lwf.leaseKeys
      · exact nodup_filter_append_one _ _ _ hg.lwf.leaseKeys
  refine ⟨(match lockOutput s L.now id op d with | .ok (_, s') => s' | .error _ => s), ?_, ?_,
    noConflict_of_lease_change hL⟩
  · exact stepEvent_lease s L.now id op d
  · refine good_of_lease_change hg ?_ hL hlr ?_ hk
    · cases h : lockOutput s L.now id op d with
      | error e => rfl
      | ok r =>
        obtain ⟨e, s'⟩ := r
        simp only
        rw [lockOutput_ok h]
    · cases h : lockOutput s L.now id op d with
      | error e => exact hg.ref.nodupLocked
      | ok r =>
        obtain ⟨e, s'⟩ := r
        simp only
        rw [lockOutput_ok h]
        exact nodupKeys_insert _ _ _ hg.ref.nodupLocked

/-- **event *release*** -/
theorem good_release {s : Store} {L : Ledger} (hg : Good s L) (id : Nat) (op : OutPoint) :
    ∃ s', stepEvent s L.now (.release id op) = .ok s' ∧ Good s' (Ledger.apply L (.release id op)) ∧
      (NoConflict L → NoConflict (Ledger.apply L (.release id op))) := by
  have hlr := C12.C12_release_refines_partial s L id op (leaseRefines_of_good hg)
  have hL : Ledger.apply L (.release id op) =
      { L with leases := (Ledger.apply L (.release id op)).leases, now := (Ledger.apply L (.release id op)).now } := by
    rw [apply_release]
    split
    · rfl
    · split
      · split <;> rfl
      · rfl
  have hk : ((Ledger.apply L (.release id op)).leases.map (·.1)).Nodup := by
    rw [apply_release]
    split
    · exact hg.lwf.leaseKeys
    · split
      · split
        · exact hg.lwf.leaseKeys
        · exact nodup_map_filter _ _ _ hg.lwf.leaseKeys
      · exact hg.lwf.leaseKeys
  refine ⟨(match unlockOutput s L.now id op with | .ok s' => s' | .error _ => s), ?_, ?_,
    noConflict_of_lease_change hL⟩
  · exact stepEvent_release s L.now id op
  · refine good_of_lease_change hg ?_ hL hlr ?_ hk
    · cases h : unlockOutput s L.now id op with
      | error e => rfl
      | ok s' =>
        simp only
        unfold unlockOutput at h
        split at h
        · cases h
        · split at h
          · cases h; rfl
          · split at h
            · cases h
            · cases h; rfl
    · cases h : unlockOutput s L.now id op with
      | error e => exact hg.ref.nodupLocked
      | ok s' =>
        simp only
        unfold unlockOutput at h
        split at h
        · cases h
        · split at h
          · cases h; exact hg.ref.nodupLocked
          · split at h
            · cases h
            · cases h; exact nodupKeys_erase _ _ hg.ref.nodupLocked

theorem sweep_eq (s : Store) (now : Nat) :
    deleteExpiredLockedOutputs s now = { s with locked := (deleteExpiredLockedOutputs s now).locked } := by
  unfold deleteExpiredLockedOutputs
  generalize (s.locked.filter fun p => !decide ((now : Int) < p.2.expiry * 1000000000)) = l
  induction l generalizing s with
  | nil => rfl
  | cons x t ih =>
    rw [List.foldl_cons, ih]
    rfl

theorem sweep_nodup (s : Store) (now : Nat) (h : NodupKeys s.locked) :
    NodupKeys (deleteExpiredLockedOutputs s now).locked := by
  unfold deleteExpiredLockedOutputs
  generalize (s.locked.filter fun p => !decide ((now : Int) < p.2.expiry * 1000000000)) = l
  induction l generalizing s with
  | nil => exact h
  | cons x t ih =>
    rw [List.foldl_cons]
    exact ih _ (nodupKeys_erase _ _ h)

/-- **event *sweep*** -/
theorem good_sweep {s : Store} {L : Ledger} (hg : Good s L) :
    ∃ s', stepEvent s L.now .sweep = .ok s' ∧ Good s' (Ledger.apply L .sweep) ∧
      (NoConflict L → NoConflict (Ledger.apply L .sweep)) := by
  have hlr := C12.C12_sweep_refines_partial s L (leaseRefines_of_good hg) hg.ref.nodupLocked hg.lwf.leaseKeys
  have hL : Ledger.apply L .sweep =
      { L with leases := (Ledger.apply L .sweep).leases, now := (Ledger.apply L .sweep).now } := rfl
  refine ⟨deleteExpiredLockedOutputs s L.now, rfl, ?_, noConflict_of_lease_change hL⟩
  exact good_of_lease_change hg (sweep_eq s L.now) hL hlr (sweep_nodup s L.now hg.ref.nodupLocked)
    (nodup_map_filter _ _ _ hg.lwf.leaseKeys)

/-- **event *clock*** -/
theorem good_clock {s : Store} {L : Ledger} (hg : Good s L) (t : Nat) :
    ∃ s', stepEvent s L.now (.clock t) = .ok s' ∧ Good s' (Ledger.apply L (.clock t)) ∧
      (NoConflict L → NoConflict (Ledger.apply L (.clock t))) := by
  have hL : Ledger.apply L (.clock t) =
      { L with leases := (Ledger.apply L (.clock t)).leases, now := (Ledger.apply L (.clock t)).now } := rfl
  refine ⟨s, rfl, ?_, noConflict_of_lease_change hL⟩
  exact good_of_lease_change hg rfl hL (C12.C12_clock_refines_partial s L t (leaseRefines_of_good hg))
    hg.ref.nodupLocked hg.lwf.leaseKeys

end TxStore
