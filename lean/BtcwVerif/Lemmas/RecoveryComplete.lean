/-
Completeness of the recovery batch loop (C16), continued: the loop invariant (`PInv` persistent part, `MInv`
in-memory part), one block (skipped / hit), `FilterBlocks` over a batch, `recoverScopedAddresses`, `Resurrect`,
the batch loop `recovery`, and the final statement.
-/
import BtcwVerif.Lemmas.RecoveryLoop

namespace Recovery

/-! ## PART 8 — the loop invariant -/

/-- Persistent part (database): after the blocks `pre` of chain `c` have been processed. -/
structure PInv (scopes : List Nat) (c pre : Chain) (st : State) : Prop where
  scopes_eq : st.scopes = scopes
  /-- every wallet key paid so far is below the branch's next index and marked used -/
  paid : ∀ k ∈ paidKeys (allTxs pre), scopes.contains k.scope = true →
    k.index < st.nextOf (k.scope, k.internal) ∧ k ∈ st.used
  /-- the credits are exactly the wallet outputs created so far, spent iff spent so far -/
  credits : st.credits = specCredits scopes (allTxs pre)
  /-- every transaction so far that pays the wallet or spends a wallet output is recorded at its height -/
  txs_rec : ∀ h blk, (h, blk) ∈ pre → ∀ tx ∈ blk, touches scopes (wops scopes (allTxs c)) tx = true →
    (tx.id, h) ∈ st.txs
  txs_ids : ∀ p ∈ st.txs, ∃ t ∈ allTxs pre, t.id = p.1

/-- In-memory part (`RecoveryState`). -/
structure MInv (W : Nat) (scopes : List Nat) (invalid : BranchId → List Nat) (c pre : Chain) (st : State) : Prop where
  window_eq : st.window = W
  branch : BrOK W scopes invalid st
  watched_sub : ∀ op ∈ st.watched, op ∈ wops scopes (allTxs c)
  /-- every wallet output created and not spent so far is a watched outpoint -/
  watched_sup : ∀ op ∈ wops scopes (allTxs pre), spentIn (allTxs pre) op = false → op ∈ st.watched

/-- Every branch of every recovered scope watches its window. -/
def Exp (W : Nat) (scopes : List Nat) (invalid : BranchId → List Nat) (st : State) : Prop :=
  ∀ br, scopes.contains br.1 = true → ExpAt W invalid st br

theorem allTxs_cons (h : Nat) (blk : Block) (q : Chain) : allTxs ((h, blk) :: q) = blk ++ allTxs q := by
  simp [allTxs]

theorem allTxs_split (p : Chain) (h : Nat) (blk : Block) (q : Chain) :
    allTxs (p ++ (h, blk) :: q) = allTxs p ++ blk ++ allTxs q := by
  rw [allTxs_append, allTxs_cons, List.append_assoc]

theorem allTxs_snoc (p : Chain) (h : Nat) (blk : Block) : allTxs (p ++ [(h, blk)]) = allTxs p ++ blk := by
  rw [allTxs_append, allTxs_single]

/-- `nextAfter` of the processed prefix is at most the address manager's next index. -/
theorem nextAfter_le {scopes : List Nat} {c pre : Chain} {st : State} (hp : PInv scopes c pre st) (br : BranchId)
    (hbr : scopes.contains br.1 = true) : nextAfter (allTxs pre) br ≤ st.nextOf br := by
  apply invBound_le
  intro i hi
  simp only [paidIdx, List.mem_map, List.mem_filter, Bool.and_eq_true, beq_iff_eq] at hi
  obtain ⟨k, ⟨hk, hs, hint⟩, rfl⟩ := hi
  have := (hp.paid k hk (by rw [hs]; exact hbr)).1
  rw [hs, hint] at this
  exact this

/-- What the invariant and the look-ahead hypothesis give for the next block: the hypotheses of `filterBlock_spec`. -/
theorem block_ready {W : Nat} {scopes : List Nat} {invalid : BranchId → List Nat} {c : Chain}
    (hwf : ChainWF scopes invalid c) (hla : LookAhead W scopes c) {p q : Chain} {h : Nat} {blk : Block} {st : State}
    (e : c = p ++ (h, blk) :: q) (hp : PInv scopes c p st) (hm : MInv W scopes invalid c p st)
    (hx : Exp W scopes invalid st) :
    (∀ tx ∈ blk, ∀ o ∈ tx.outs, ∀ k, o.key = some k → watchesKey st k = scopes.contains k.scope) ∧
    (∀ op ∈ wops scopes blk, op ∈ wops scopes (allTxs c)) ∧
    (∀ a tx b, blk = a ++ tx :: b → ∀ op ∈ tx.ins, op ∈ wops scopes (allTxs c) →
        op ∈ st.watched ∨ op ∈ ([] : List OutPoint) ∨ op ∈ wops scopes a) := by
  have eT : allTxs c = allTxs p ++ blk ++ allTxs q := by rw [e]; exact allTxs_split p h blk q
  refine ⟨?_, ?_, ?_⟩
  · intro tx htx o ho k hk
    unfold watchesKey
    rw [hp.scopes_eq]
    cases hc : scopes.contains k.scope
    · rfl
    · simp only [Bool.true_and]
      have hkb : k ∈ paidKeys blk := by
        simp only [paidKeys, List.mem_flatMap, List.mem_filterMap]
        exact ⟨tx, htx, o, ho, hk⟩
      have h1 := hla p h blk q e k hkb hc
      have h2 := nextAfter_le hp (k.scope, k.internal) hc
      obtain ⟨_, _, hnu⟩ := hm.branch (k.scope, k.internal) hc
      have hv := hwf.valid k (by rw [eT, paidKeys_append, paidKeys_append]; simp [hkb]) hc
      have := hx (k.scope, k.internal) hc k.index (by rw [hnu]; omega) hv
      simpa using this
  · intro op hop
    rw [eT, wops_append, wops_append]
    simp [hop]
  · intro a tx b hab op hop hops
    have eT' : allTxs c = (allTxs p ++ a) ++ tx :: (b ++ allTxs q) := by rw [eT, hab]; simp
    obtain ⟨t, ht, hcr⟩ := (mem_wops_iff scopes (allTxs c) op).mp hops
    have htpre : t ∈ allTxs p ++ a := by
      rw [eT'] at ht
      rcases List.mem_append.mp ht with ht | ht
      · exact ht
      · exact absurd hcr (hwf.order _ tx _ eT' op hop t ht)
    have hnd := hwf.nodbl _ tx _ eT' op hop hops
    rcases List.mem_append.mp htpre with ht | ht
    · left
      apply hm.watched_sup op ((mem_wops_iff scopes _ op).mpr ⟨t, ht, hcr⟩)
      unfold spentIn
      rw [List.any_eq_false]
      intro t' ht' hc
      exact hnd t' (List.mem_append_left _ ht') (by simpa using hc)
    · right; right
      exact (mem_wops_iff scopes a op).mpr ⟨t, ht, hcr⟩

/-! ## PART 9 — one block -/

theorem wouts_untouched (scopes : List Nat) (ops : List OutPoint) (tx : Tx) (ht : touches scopes ops tx = false) :
    wouts scopes tx.id tx.outs 0 = [] := by
  simp only [touches, Bool.or_eq_false_iff] at ht
  exact wouts_eq_nil scopes tx.id tx.outs 0 ht.1

theorem wops_untouched (scopes : List Nat) (ops : List OutPoint) : ∀ (blk : Block),
    (∀ tx ∈ blk, touches scopes ops tx = false) → wops scopes blk = [] := by
  intro blk
  induction blk with
  | nil => intro _; rfl
  | cons tx rest ih =>
    intro h
    rw [wops_cons, wouts_untouched scopes ops tx (h tx List.mem_cons_self),
      ih (fun t ht => h t (List.mem_cons_of_mem _ ht))]
    rfl

theorem paidKeys_untouched (scopes : List Nat) (ops : List OutPoint) (blk : Block)
    (h : ∀ tx ∈ blk, touches scopes ops tx = false) : ∀ k ∈ paidKeys blk, scopes.contains k.scope = true → False := by
  intro k hk hs
  simp only [paidKeys, List.mem_flatMap] at hk
  obtain ⟨tx, htx, hk⟩ := hk
  have ht := h tx htx
  simp only [touches, Bool.or_eq_false_iff] at ht
  have : tx.outs.any (isW scopes) = true := (any_isW_iff scopes tx.outs).mpr ⟨k, hk, hs⟩
  rw [ht.1] at this; cases this

theorem specCredits_untouched_block (scopes : List Nat) (ops : List OutPoint) : ∀ (blk pre : List Tx),
    (∀ op ∈ wops scopes (pre ++ blk), op ∈ ops) → (∀ tx ∈ blk, touches scopes ops tx = false) →
    specCredits scopes (pre ++ blk) = specCredits scopes pre := by
  intro blk
  induction blk with
  | nil => intro pre _ _; simp
  | cons tx rest ih =>
    intro pre hsub h
    have e : pre ++ tx :: rest = (pre ++ [tx]) ++ rest := by simp
    rw [e, ih (pre ++ [tx]) (by rw [← e]; exact hsub) (fun t ht => h t (List.mem_cons_of_mem _ ht))]
    apply specCredits_untouched scopes ops pre tx _ (h tx List.mem_cons_self)
    intro op hop
    apply hsub op
    rw [wops_append]; exact List.mem_append_left _ hop

/-- A block none of whose transactions touches the wallet: the state (unchanged) satisfies the invariant for the
    prefix extended by the block. -/
theorem skip_block {W : Nat} {scopes : List Nat} {invalid : BranchId → List Nat} {c p q : Chain} {h : Nat} {blk : Block}
    {st : State} (e : c = p ++ (h, blk) :: q) (hp : PInv scopes c p st) (hm : MInv W scopes invalid c p st)
    (hu : ∀ tx ∈ blk, touches scopes (wops scopes (allTxs c)) tx = false) :
    PInv scopes c (p ++ [(h, blk)]) st ∧ MInv W scopes invalid c (p ++ [(h, blk)]) st := by
  have eT : allTxs c = allTxs p ++ blk ++ allTxs q := by rw [e]; exact allTxs_split p h blk q
  have hw0 := wops_untouched scopes _ blk hu
  constructor
  · refine ⟨hp.scopes_eq, ?_, ?_, ?_, ?_⟩
    · intro k hk hs
      rw [allTxs_snoc, paidKeys_append] at hk
      rcases List.mem_append.mp hk with hk | hk
      · exact hp.paid k hk hs
      · exact (paidKeys_untouched scopes _ blk hu k hk hs).elim
    · rw [allTxs_snoc, specCredits_untouched_block scopes (wops scopes (allTxs c)) blk (allTxs p) _ hu]
      · exact hp.credits
      · intro op hop
        rw [eT, wops_append]; exact List.mem_append_left _ hop
    · intro h' blk' hmem tx htx ht
      rcases List.mem_append.mp hmem with hmem | hmem
      · exact hp.txs_rec h' blk' hmem tx htx ht
      · simp only [List.mem_singleton, Prod.mk.injEq] at hmem
        rw [hmem.2] at htx
        rw [hu tx htx] at ht; cases ht
    · intro x hx
      obtain ⟨t, ht, hid⟩ := hp.txs_ids x hx
      exact ⟨t, by rw [allTxs_snoc]; exact List.mem_append_left _ ht, hid⟩
  · refine ⟨hm.window_eq, hm.branch, hm.watched_sub, ?_⟩
    intro op hop hsp
    rw [allTxs_snoc, wops_append, hw0, List.append_nil] at hop
    rw [allTxs_snoc, spentIn_append, Bool.or_eq_false_iff] at hsp
    exact hm.watched_sup op hop hsp.1

/-- The block with the first hit: `extendFoundAddresses`, the watched outpoints, `addRelevantTx` for the relevant
    transactions re-establish the invariant for the prefix extended by the block. -/
theorem hit_block {W : Nat} {scopes : List Nat} {invalid : BranchId → List Nat} {c : Chain}
    (hwf : ChainWF scopes invalid c) (hla : LookAhead W scopes c) {p q : Chain} {h : Nat} {blk : Block} {st : State}
    (e : c = p ++ (h, blk) :: q) (hp : PInv scopes c p st) (hm : MInv W scopes invalid c p st)
    (hx : Exp W scopes invalid st) :
    PInv scopes c (p ++ [(h, blk)]) (applyFound st h (filterBlock st blk ⟨[], [], []⟩)) ∧
    MInv W scopes invalid c (p ++ [(h, blk)]) (applyFound st h (filterBlock st blk ⟨[], [], []⟩)) := by
  have eT : allTxs c = allTxs p ++ blk ++ allTxs q := by rw [e]; exact allTxs_split p h blk q
  obtain ⟨b1, b2, b3⟩ := block_ready hwf hla e hp hm hx
  obtain ⟨f1, _, f3, f4⟩ := filterBlock_spec st scopes (wops scopes (allTxs c)) hm.watched_sub blk ⟨[], [], []⟩
    b1 (fun _ h => by cases h) b2 b3
  generalize filterBlock st blk ⟨[], [], []⟩ = f at f1 f3 f4
  simp only [List.nil_append, List.not_mem_nil, false_or] at f1 f4
  -- stage 1: extendFoundAddresses
  obtain ⟨⟨brs, nx, us, s1⟩, s2, s3, s4, s5⟩ := extendFold_spec W scopes invalid f.keys (branchIds st.scopes) st
    (fun k hk => by rw [hp.scopes_eq] at hk; exact (mem_branchIds scopes k).mp hk) hm.branch
  have hfold : (branchIds st.scopes).foldl (fun st k =>
      extendFound st k ((f.keys.filter (fun key => key.scope == k.1 && key.internal == k.2)).map (·.index))) st
      = (branchIds st.scopes).foldl (efStep f.keys) st := rfl
  unfold applyFound
  simp only []
  rw [hfold]
  generalize (branchIds st.scopes).foldl (efStep f.keys) st = st1 at s1 s2 s3 s4 s5
  subst s1
  -- stage 3: addRelevantTx for the relevant transactions
  have hknown : ∀ k ∈ paidKeys blk, scopes.contains k.scope = true →
      k.index < ({ st with branches := brs, next := nx, used := us } : State).nextOf (k.scope, k.internal) ∧
      k ∈ us := by
    intro k hk hs
    exact s5 k (f3 k hk hs) (by rw [hp.scopes_eq]; exact (mem_branchIds scopes _).mpr hs)
  obtain ⟨⟨ts, us', r1⟩, r2, r3, r4, r5⟩ := relevantFold_spec hwf h blk (allTxs p) (allTxs q)
    { st with branches := brs, next := nx, used := us,
              watched := f.outpoints.foldl (fun w op => w.insert op) st.watched }
    eT hp.scopes_eq hp.credits hp.txs_ids (fun k hk hs => (hknown k hk hs).1)
  rw [f1]
  generalize (blk.filter (touches scopes (wops scopes (allTxs c)))).foldl (fun st tx => addRelevantTx st tx h)
    { st with branches := brs, next := nx, used := us,
              watched := f.outpoints.foldl (fun w op => w.insert op) st.watched } = st3 at r1 r2 r3 r4 r5
  subst r1
  constructor
  · refine ⟨hp.scopes_eq, ?_, ?_, ?_, ?_⟩
    · intro k hk hs
      rw [allTxs_snoc, paidKeys_append] at hk
      rcases List.mem_append.mp hk with hk | hk
      · obtain ⟨h1, h2⟩ := hp.paid k hk hs
        exact ⟨Nat.lt_of_lt_of_le h1 (s3 _), r2 k (s4 k h2)⟩
      · obtain ⟨h1, h2⟩ := hknown k hk hs
        exact ⟨h1, r2 k h2⟩
    · rw [allTxs_snoc]
    · intro h' blk' hmem tx htx ht
      rcases List.mem_append.mp hmem with hmem | hmem
      · exact r3 _ (hp.txs_rec h' blk' hmem tx htx ht)
      · simp only [List.mem_singleton, Prod.mk.injEq] at hmem
        rw [hmem.1]; rw [hmem.2] at htx
        exact r5 tx htx ht
    · intro x hx'
      rw [allTxs_snoc]; exact r4 x hx'
  · refine ⟨hm.window_eq, s2, ?_, ?_⟩
    · intro op hop
      rcases (mem_foldl_insert f.outpoints st.watched op).mp hop with h' | h'
      · exact hm.watched_sub op h'
      · exact b2 op ((f4 op).mp h')
    · intro op hop hsp
      apply (mem_foldl_insert f.outpoints st.watched op).mpr
      rw [allTxs_snoc, wops_append] at hop
      rw [allTxs_snoc, spentIn_append, Bool.or_eq_false_iff] at hsp
      rcases List.mem_append.mp hop with hop | hop
      · exact Or.inl (hm.watched_sup op hop hsp.1)
      · exact Or.inr ((f4 op).mpr hop)

end Recovery
