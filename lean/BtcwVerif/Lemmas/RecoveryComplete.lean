/-
Completeness of the recovery batch loop (C16), continued: the loop invariant (`PInv` persistent part, `MInv`
in-memory part), one block (skipped / hit), `FilterBlocks` over a batch, `recoverScopedAddresses`, `Resurrect`,
the batch loop `recovery`, and the final statement.
-/
import BtcwVerif.Lemmas.RecoveryLoop

namespace Recovery

/-! ## PART 8 — the loop invariant -/

/-- Persistent part (database): after the blocks `pre` of chain `c` have been processed. -/
structure PInv (scopes : List Nat) (c pre : Chain) (st : State) : Prop where
  scopes_eq : st.scopes = scopes
  /-- every wallet key paid so far is below the branch's next index and marked used -/
  paid : ∀ k ∈ paidKeys (allTxs pre), scopes.contains k.scope = true →
    k.index < st.nextOf (k.scope, k.internal) ∧ k ∈ st.used
  /-- the credits are exactly the wallet outputs created so far, spent iff spent so far -/
  credits : st.credits = specCredits scopes (allTxs pre)
  /-- every transaction so far that pays the wallet or spends a wallet output is recorded at its height -/
  txs_rec : ∀ h blk, (h, blk) ∈ pre → ∀ tx ∈ blk, touches scopes (wops scopes (allTxs c)) tx = true →
    (tx.id, h) ∈ st.txs
  txs_ids : ∀ p ∈ st.txs, ∃ t ∈ allTxs pre, t.id = p.1

/-- In-memory part (`RecoveryState`). -/
structure MInv (W : Nat) (scopes : List Nat) (invalid : BranchId → List Nat) (c pre : Chain) (st : State) : Prop where
  window_eq : st.window = W
  branch : BrOK W scopes invalid st
  watched_sub : ∀ op ∈ st.watched, op ∈ wops scopes (allTxs c)
  /-- every wallet output created and not spent so far is a watched outpoint -/
  watched_sup : ∀ op ∈ wops scopes (allTxs pre), spentIn (allTxs pre) op = false → op ∈ st.watched

/-- Every branch of every recovered scope watches its window. -/
def Exp (W : Nat) (scopes : List Nat) (invalid : BranchId → List Nat) (st : State) : Prop :=
  ∀ br, scopes.contains br.1 = true → ExpAt W invalid st br

theorem allTxs_cons (h : Nat) (blk : Block) (q : Chain) : allTxs ((h, blk) :: q) = blk ++ allTxs q := by
  simp [allTxs]

theorem allTxs_split (p : Chain) (h : Nat) (blk : Block) (q : Chain) :
    allTxs (p ++ (h, blk) :: q) = allTxs p ++ blk ++ allTxs q := by
  rw [allTxs_append, allTxs_cons, List.append_assoc]

theorem allTxs_snoc (p : Chain) (h : Nat) (blk : Block) : allTxs (p ++ [(h, blk)]) = allTxs p ++ blk := by
  rw [allTxs_append, allTxs_single]

/-- `nextAfter` of the processed prefix is at most the address manager's next index. -/
theorem nextAfter_le {scopes : List Nat} {c pre : Chain} {st : State} (hp : PInv scopes c pre st) (br : BranchId)
    (hbr : scopes.contains br.1 = true) : nextAfter (allTxs pre) br ≤ st.nextOf br := by
  apply invBound_le
  intro i hi
  simp only [paidIdx, List.mem_map, List.mem_filter, Bool.and_eq_true, beq_iff_eq] at hi
  obtain ⟨k, ⟨hk, hs, hint⟩, rfl⟩ := hi
  have := (hp.paid k hk (by rw [hs]; exact hbr)).1
  rw [hs, hint] at this
  exact this

/-- What the invariant and the look-ahead hypothesis give for the next block: the hypotheses of `filterBlock_spec`. -/
theorem block_ready {W : Nat} {scopes : List Nat} {invalid : BranchId → List Nat} {c : Chain}
    (hwf : ChainWF scopes invalid c) {n : Nat} (hla : LookAheadFrom W scopes n c) {p q : Chain} {h : Nat} {blk : Block}
    {st : State} (e : c = p ++ (h, blk) :: q) (hn : n ≤ p.length) (hp : PInv scopes c p st)
    (hm : MInv W scopes invalid c p st) (hx : Exp W scopes invalid st) :
    (∀ tx ∈ blk, ∀ o ∈ tx.outs, ∀ k, o.key = some k → watchesKey st k = scopes.contains k.scope) ∧
    (∀ op ∈ wops scopes blk, op ∈ wops scopes (allTxs c)) ∧
    (∀ a tx b, blk = a ++ tx :: b → ∀ op ∈ tx.ins, op ∈ wops scopes (allTxs c) →
        op ∈ st.watched ∨ op ∈ ([] : List OutPoint) ∨ op ∈ wops scopes a) := by
  have eT : allTxs c = allTxs p ++ blk ++ allTxs q := by rw [e]; exact allTxs_split p h blk q
  refine ⟨?_, ?_, ?_⟩
  · intro tx htx o ho k hk
    unfold watchesKey
    rw [hp.scopes_eq]
    cases hc : scopes.contains k.scope
    · rfl
    · simp only [Bool.true_and]
      have hkb : k ∈ paidKeys blk := by
        simp only [paidKeys, List.mem_flatMap, List.mem_filterMap]
        exact ⟨tx, htx, o, ho, hk⟩
      have h1 := hla p h blk q e hn k hkb hc
      have h2 := nextAfter_le hp (k.scope, k.internal) hc
      obtain ⟨_, _, hnu⟩ := hm.branch (k.scope, k.internal) hc
      have hv := hwf.valid k (by rw [eT, paidKeys_append, paidKeys_append]; simp [hkb]) hc
      have := hx (k.scope, k.internal) hc k.index (by rw [hnu]; omega) hv
      simpa using this
  · intro op hop
    rw [eT, wops_append, wops_append]
    simp [hop]
  · intro a tx b hab op hop hops
    have eT' : allTxs c = (allTxs p ++ a) ++ tx :: (b ++ allTxs q) := by rw [eT, hab]; simp
    obtain ⟨t, ht, hcr⟩ := (mem_wops_iff scopes (allTxs c) op).mp hops
    have htpre : t ∈ allTxs p ++ a := by
      rw [eT'] at ht
      rcases List.mem_append.mp ht with ht | ht
      · exact ht
      · exact absurd hcr (hwf.order _ tx _ eT' op hop t ht)
    have hnd := hwf.nodbl _ tx _ eT' op hop hops
    rcases List.mem_append.mp htpre with ht | ht
    · left
      apply hm.watched_sup op ((mem_wops_iff scopes _ op).mpr ⟨t, ht, hcr⟩)
      unfold spentIn
      rw [List.any_eq_false]
      intro t' ht' hc
      exact hnd t' (List.mem_append_left _ ht') (by simpa using hc)
    · right; right
      exact (mem_wops_iff scopes a op).mpr ⟨t, ht, hcr⟩

/-! ## PART 9 — one block -/

theorem wouts_untouched (scopes : List Nat) (ops : List OutPoint) (tx : Tx) (ht : touches scopes ops tx = false) :
    wouts scopes tx.id tx.outs 0 = [] := by
  simp only [touches, Bool.or_eq_false_iff] at ht
  exact wouts_eq_nil scopes tx.id tx.outs 0 ht.1

theorem wops_untouched (scopes : List Nat) (ops : List OutPoint) : ∀ (blk : Block),
    (∀ tx ∈ blk, touches scopes ops tx = false) → wops scopes blk = [] := by
  intro blk
  induction blk with
  | nil => intro _; rfl
  | cons tx rest ih =>
    intro h
    rw [wops_cons, wouts_untouched scopes ops tx (h tx List.mem_cons_self),
      ih (fun t ht => h t (List.mem_cons_of_mem _ ht))]
    rfl

theorem paidKeys_untouched (scopes : List Nat) (ops : List OutPoint) (blk : Block)
    (h : ∀ tx ∈ blk, touches scopes ops tx = false) : ∀ k ∈ paidKeys blk, scopes.contains k.scope = true → False := by
  intro k hk hs
  simp only [paidKeys, List.mem_flatMap] at hk
  obtain ⟨tx, htx, hk⟩ := hk
  have ht := h tx htx
  simp only [touches, Bool.or_eq_false_iff] at ht
  have : tx.outs.any (isW scopes) = true := (any_isW_iff scopes tx.outs).mpr ⟨k, hk, hs⟩
  rw [ht.1] at this; cases this

theorem specCredits_untouched_block (scopes : List Nat) (ops : List OutPoint) : ∀ (blk pre : List Tx),
    (∀ op ∈ wops scopes (pre ++ blk), op ∈ ops) → (∀ tx ∈ blk, touches scopes ops tx = false) →
    specCredits scopes (pre ++ blk) = specCredits scopes pre := by
  intro blk
  induction blk with
  | nil => intro pre _ _; simp
  | cons tx rest ih =>
    intro pre hsub h
    have e : pre ++ tx :: rest = (pre ++ [tx]) ++ rest := by simp
    rw [e, ih (pre ++ [tx]) (by rw [← e]; exact hsub) (fun t ht => h t (List.mem_cons_of_mem _ ht))]
    apply specCredits_untouched scopes ops pre tx _ (h tx List.mem_cons_self)
    intro op hop
    apply hsub op
    rw [wops_append]; exact List.mem_append_left _ hop

/-- A block none of whose transactions touches the wallet: the state (unchanged) satisfies the invariant for the
    prefix extended by the block. -/
theorem skip_block {W : Nat} {scopes : List Nat} {invalid : BranchId → List Nat} {c p q : Chain} {h : Nat} {blk : Block}
    {st : State} (e : c = p ++ (h, blk) :: q) (hp : PInv scopes c p st) (hm : MInv W scopes invalid c p st)
    (hu : ∀ tx ∈ blk, touches scopes (wops scopes (allTxs c)) tx = false) :
    PInv scopes c (p ++ [(h, blk)]) st ∧ MInv W scopes invalid c (p ++ [(h, blk)]) st := by
  have eT : allTxs c = allTxs p ++ blk ++ allTxs q := by rw [e]; exact allTxs_split p h blk q
  have hw0 := wops_untouched scopes _ blk hu
  constructor
  · refine ⟨hp.scopes_eq, ?_, ?_, ?_, ?_⟩
    · intro k hk hs
      rw [allTxs_snoc, paidKeys_append] at hk
      rcases List.mem_append.mp hk with hk | hk
      · exact hp.paid k hk hs
      · exact (paidKeys_untouched scopes _ blk hu k hk hs).elim
    · rw [allTxs_snoc, specCredits_untouched_block scopes (wops scopes (allTxs c)) blk (allTxs p) _ hu]
      · exact hp.credits
      · intro op hop
        rw [eT, wops_append]; exact List.mem_append_left _ hop
    · intro h' blk' hmem tx htx ht
      rcases List.mem_append.mp hmem with hmem | hmem
      · exact hp.txs_rec h' blk' hmem tx htx ht
      · simp only [List.mem_singleton, Prod.mk.injEq] at hmem
        rw [hmem.2] at htx
        rw [hu tx htx] at ht; cases ht
    · intro x hx
      obtain ⟨t, ht, hid⟩ := hp.txs_ids x hx
      exact ⟨t, by rw [allTxs_snoc]; exact List.mem_append_left _ ht, hid⟩
  · refine ⟨hm.window_eq, hm.branch, hm.watched_sub, ?_⟩
    intro op hop hsp
    rw [allTxs_snoc, wops_append, hw0, List.append_nil] at hop
    rw [allTxs_snoc, spentIn_append, Bool.or_eq_false_iff] at hsp
    exact hm.watched_sup op hop hsp.1

/-- The block with the first hit: `extendFoundAddresses`, the watched outpoints, `addRelevantTx` for the relevant
    transactions re-establish the invariant for the prefix extended by the block. -/
theorem hit_block {W : Nat} {scopes : List Nat} {invalid : BranchId → List Nat} {c : Chain}
    (hwf : ChainWF scopes invalid c) {n : Nat} (hla : LookAheadFrom W scopes n c) {p q : Chain} {h : Nat} {blk : Block}
    {st : State} (e : c = p ++ (h, blk) :: q) (hn : n ≤ p.length) (hp : PInv scopes c p st)
    (hm : MInv W scopes invalid c p st) (hx : Exp W scopes invalid st) :
    PInv scopes c (p ++ [(h, blk)]) (applyFound st h (filterBlock st blk ⟨[], [], []⟩)) ∧
    MInv W scopes invalid c (p ++ [(h, blk)]) (applyFound st h (filterBlock st blk ⟨[], [], []⟩)) := by
  have eT : allTxs c = allTxs p ++ blk ++ allTxs q := by rw [e]; exact allTxs_split p h blk q
  obtain ⟨b1, b2, b3⟩ := block_ready hwf hla e hn hp hm hx
  obtain ⟨f1, _, f3, f4⟩ := filterBlock_spec st scopes (wops scopes (allTxs c)) hm.watched_sub blk ⟨[], [], []⟩
    b1 (fun _ h => by cases h) b2 b3
  generalize filterBlock st blk ⟨[], [], []⟩ = f at f1 f3 f4
  simp only [List.nil_append, List.not_mem_nil, false_or] at f1 f4
  -- stage 1: extendFoundAddresses
  obtain ⟨⟨brs, nx, us, s1⟩, s2, s3, s4, s5⟩ := extendFold_spec W scopes invalid f.keys (branchIds st.scopes) st
    (fun k hk => by rw [hp.scopes_eq] at hk; exact (mem_branchIds scopes k).mp hk) hm.branch
  have hfold : (branchIds st.scopes).foldl (fun st k =>
      extendFound st k ((f.keys.filter (fun key => key.scope == k.1 && key.internal == k.2)).map (·.index))) st
      = (branchIds st.scopes).foldl (efStep f.keys) st := rfl
  unfold applyFound
  simp only []
  rw [hfold]
  generalize (branchIds st.scopes).foldl (efStep f.keys) st = st1 at s1 s2 s3 s4 s5
  subst s1
  -- stage 3: addRelevantTx for the relevant transactions
  have hknown : ∀ k ∈ paidKeys blk, scopes.contains k.scope = true →
      k.index < ({ st with branches := brs, next := nx, used := us } : State).nextOf (k.scope, k.internal) ∧
      k ∈ us := by
    intro k hk hs
    exact s5 k (f3 k hk hs) (by rw [hp.scopes_eq]; exact (mem_branchIds scopes _).mpr hs)
  obtain ⟨⟨ts, us', um, ls, r1⟩, r2, r3, r4, r5⟩ := relevantFold_spec hwf h blk (allTxs p) (allTxs q)
    { st with branches := brs, next := nx, used := us,
              watched := f.outpoints.foldl (fun w op => w.insert op) st.watched }
    eT hp.scopes_eq hp.credits hp.txs_ids (fun k hk hs => (hknown k hk hs).1)
  rw [f1]
  generalize (blk.filter (touches scopes (wops scopes (allTxs c)))).foldl (fun st tx => addRelevantTx st tx h)
    { st with branches := brs, next := nx, used := us,
              watched := f.outpoints.foldl (fun w op => w.insert op) st.watched } = st3 at r1 r2 r3 r4 r5
  subst r1
  constructor
  · refine ⟨hp.scopes_eq, ?_, ?_, ?_, ?_⟩
    · intro k hk hs
      rw [allTxs_snoc, paidKeys_append] at hk
      rcases List.mem_append.mp hk with hk | hk
      · obtain ⟨h1, h2⟩ := hp.paid k hk hs
        exact ⟨Nat.lt_of_lt_of_le h1 (s3 _), r2 k (s4 k h2)⟩
      · obtain ⟨h1, h2⟩ := hknown k hk hs
        exact ⟨h1, r2 k h2⟩
    · rw [allTxs_snoc]
    · intro h' blk' hmem tx htx ht
      rcases List.mem_append.mp hmem with hmem | hmem
      · exact r3 _ (hp.txs_rec h' blk' hmem tx htx ht)
      · simp only [List.mem_singleton, Prod.mk.injEq] at hmem
        rw [hmem.1]; rw [hmem.2] at htx
        exact r5 tx htx ht
    · intro x hx'
      rw [allTxs_snoc]; exact r4 x hx'
  · refine ⟨hm.window_eq, s2, ?_, ?_⟩
    · intro op hop
      rcases (mem_foldl_insert f.outpoints st.watched op).mp hop with h' | h'
      · exact hm.watched_sub op h'
      · exact b2 op ((f4 op).mp h')
    · intro op hop hsp
      apply (mem_foldl_insert f.outpoints st.watched op).mpr
      rw [allTxs_snoc, wops_append] at hop
      rw [allTxs_snoc, spentIn_append, Bool.or_eq_false_iff] at hsp
      rcases List.mem_append.mp hop with hop | hop
      · exact Or.inl (hm.watched_sup op hop hsp.1)
      · exact Or.inr ((f4 op).mpr hop)

/-! ## PART 10 — `FilterBlocks` over a batch, `recoverScopedAddresses` -/

theorem filterBlocks_spec {W : Nat} {scopes : List Nat} {invalid : BranchId → List Nat} {c : Chain}
    (hwf : ChainWF scopes invalid c) {n : Nat} (hla : LookAheadFrom W scopes n c) (st : State)
    (hx : Exp W scopes invalid st) :
    ∀ (batch p q : Chain) (i0 : Nat), c = p ++ batch ++ q → n ≤ p.length →
    PInv scopes c p st → MInv W scopes invalid c p st →
    (filterBlocks st batch i0 = none →
      PInv scopes c (p ++ batch) st ∧ MInv W scopes invalid c (p ++ batch) st) ∧
    (∀ i h f, filterBlocks st batch i0 = some (i, h, f) → ∃ a blk b, batch = a ++ (h, blk) :: b ∧ i = i0 + a.length ∧
      PInv scopes c (p ++ a) st ∧ MInv W scopes invalid c (p ++ a) st ∧ f = filterBlock st blk ⟨[], [], []⟩) := by
  intro batch
  induction batch with
  | nil =>
    intro p q i0 _ _ hp hm
    simp only [filterBlocks, List.append_nil]
    exact ⟨fun _ => ⟨hp, hm⟩, fun _ _ _ h => by cases h⟩
  | cons hb rest ih =>
    obtain ⟨h, blk⟩ := hb
    intro p q i0 e hn hp hm
    have e1 : c = p ++ (h, blk) :: (rest ++ q) := by rw [e]; simp
    obtain ⟨b1, b2, b3⟩ := block_ready hwf hla e1 hn hp hm hx
    obtain ⟨f1, _, _, _⟩ := filterBlock_spec st scopes (wops scopes (allTxs c)) hm.watched_sub blk ⟨[], [], []⟩
      b1 (fun _ h => by cases h) b2 b3
    simp only [List.nil_append] at f1
    simp only [filterBlocks]
    by_cases hemp : (filterBlock st blk ⟨[], [], []⟩).txs.isEmpty = true
    · rw [if_pos hemp]
      have hu : ∀ tx ∈ blk, touches scopes (wops scopes (allTxs c)) tx = false := by
        rw [List.isEmpty_iff, f1, List.filter_eq_nil_iff] at hemp
        intro tx htx
        exact eq_false_of_ne_true (hemp tx htx)
      obtain ⟨hp', hm'⟩ := skip_block e1 hp hm hu
      have e2 : c = (p ++ [(h, blk)]) ++ rest ++ q := by rw [e]; simp
      obtain ⟨q1, q2⟩ := ih (p ++ [(h, blk)]) q (i0 + 1) e2 (by simp; omega) hp' hm'
      have ea : p ++ (h, blk) :: rest = (p ++ [(h, blk)]) ++ rest := by simp
      constructor
      · intro hn; rw [ea]; exact q1 hn
      · intro i h' f hs
        obtain ⟨a, blk', b, r1, r2, r3, r4, r5⟩ := q2 i h' f hs
        refine ⟨(h, blk) :: a, blk', b, by rw [r1]; rfl, by rw [r2]; simp; omega, ?_, ?_, r5⟩
        · have : p ++ (h, blk) :: a = (p ++ [(h, blk)]) ++ a := by simp
          rw [this]; exact r3
        · have : p ++ (h, blk) :: a = (p ++ [(h, blk)]) ++ a := by simp
          rw [this]; exact r4
    · rw [if_neg hemp]
      constructor
      · intro hn; cases hn
      · intro i h' f hs
        simp only [Option.some.injEq, Prod.mk.injEq] at hs
        obtain ⟨rfl, rfl, rfl⟩ := hs
        exact ⟨[], blk, rest, rfl, by simp, by simpa using hp, by simpa using hm, rfl⟩

/-- The state handed to `FilterBlocks`: horizons expanded (and the ghost request counter bumped). -/
def expState (invalid : BranchId → List Nat) (st : State) : State :=
  { expandAll invalid st with calls := st.calls + 1 }

theorem recoverScoped_succ (invalid : BranchId → List Nat) (fuel : Nat) (st : State) (batch : Chain)
    (hne : ¬ batch.isEmpty = true) :
    recoverScoped invalid (fuel + 1) st batch =
      match filterBlocks (expState invalid st) batch 0 with
      | none => expState invalid st
      | some (i, h, f) =>
        if (batch.drop (i + 1)).isEmpty then applyFound (expState invalid st) h f
        else recoverScoped invalid fuel (applyFound (expState invalid st) h f) (batch.drop (i + 1)) := by
  rw [recoverScoped, if_neg hne]
  rfl

theorem expState_inv {W : Nat} {scopes : List Nat} {invalid : BranchId → List Nat} {c p : Chain} {st : State}
    (hp : PInv scopes c p st) (hm : MInv W scopes invalid c p st) :
    PInv scopes c p (expState invalid st) ∧ MInv W scopes invalid c p (expState invalid st) ∧
    Exp W scopes invalid (expState invalid st) := by
  obtain ⟨⟨brs, e1⟩, e2, e3⟩ := expandAll_spec W scopes invalid st hp.scopes_eq hm.branch
  unfold expState
  generalize expandAll invalid st = st1 at e1 e2 e3
  subst e1
  exact ⟨⟨hp.scopes_eq, hp.paid, hp.credits, hp.txs_rec, hp.txs_ids⟩,
    ⟨hm.window_eq, e2, hm.watched_sub, hm.watched_sup⟩, e3⟩

/-- `recoverScopedAddresses` over one batch. -/
theorem recoverScoped_spec {W : Nat} {scopes : List Nat} {invalid : BranchId → List Nat} {c : Chain}
    (hwf : ChainWF scopes invalid c) {n : Nat} (hla : LookAheadFrom W scopes n c) :
    ∀ (fuel : Nat) (batch p q : Chain) (st : State), c = p ++ batch ++ q → n ≤ p.length → batch.length < fuel →
    PInv scopes c p st → MInv W scopes invalid c p st →
    PInv scopes c (p ++ batch) (recoverScoped invalid fuel st batch) ∧
    MInv W scopes invalid c (p ++ batch) (recoverScoped invalid fuel st batch) := by
  intro fuel
  induction fuel with
  | zero => intro batch p q st _ _ hl; omega
  | succ fuel ih =>
    intro batch p q st e hn hl hp hm
    by_cases hbe : batch.isEmpty = true
    · rw [recoverScoped, if_pos hbe]
      rw [List.isEmpty_iff] at hbe
      subst hbe
      simpa using ⟨hp, hm⟩
    · rw [recoverScoped_succ invalid fuel st batch hbe]
      obtain ⟨hp1, hm1, hx1⟩ := expState_inv (invalid := invalid) hp hm
      obtain ⟨q1, q2⟩ := filterBlocks_spec hwf hla (expState invalid st) hx1 batch p q 0 e hn hp1 hm1
      cases hfb : filterBlocks (expState invalid st) batch 0 with
      | none => exact q1 hfb
      | some r =>
        obtain ⟨i, h, f⟩ := r
        simp only []
        obtain ⟨a, blk, b, r1, r2, r3, r4, r5⟩ := q2 i h f hfb
        have e1 : c = (p ++ a) ++ (h, blk) :: (b ++ q) := by rw [e, r1]; simp
        obtain ⟨hp2, hm2⟩ := hit_block hwf hla e1 (by simp; omega) r3 r4 hx1
        rw [← r5] at hp2 hm2
        have hdrop : batch.drop (i + 1) = b := by
          rw [r1, r2, Nat.zero_add]
          have : a ++ (h, blk) :: b = (a ++ [(h, blk)]) ++ b := by simp
          rw [this]
          have hl' : (a ++ [(h, blk)]).length = a.length + 1 := by simp
          rw [← hl', List.drop_left]
        rw [hdrop]
        have eb : p ++ batch = (p ++ a ++ [(h, blk)]) ++ b := by rw [r1]; simp
        by_cases hbe' : b.isEmpty = true
        · rw [if_pos hbe']
          rw [List.isEmpty_iff] at hbe'
          rw [eb, hbe', List.append_nil]
          exact ⟨hp2, hm2⟩
        · rw [if_neg hbe', eb]
          have e2 : c = (p ++ a ++ [(h, blk)]) ++ b ++ q := by rw [e, r1]; simp
          have hlb : b.length < fuel := by
            have : batch.length = a.length + 1 + b.length := by rw [r1]; simp; omega
            omega
          exact ih b (p ++ a ++ [(h, blk)]) q _ e2 (by simp; omega) hlb hp2 hm2

/-! ## PART 11 — `Resurrect`, the batch loop -/

theorem lookupD_map_mem {β : Type} (g : BranchId → β) (d : β) : ∀ (ids : List BranchId) (k : BranchId), k ∈ ids →
    lookupD (ids.map (fun k => (k, g k))) d k = g k := by
  intro ids
  induction ids with
  | nil => intro k h; cases h
  | cons a ids ih =>
    intro k hk
    by_cases hka : k = a
    · subst hka; simp [lookupD]
    · have hk' : k ∈ ids := by
        rcases List.mem_cons.mp hk with h | h
        · exact absurd h hka
        · exact h
      have h1 : (k == a) = false := by simp [hka]
      have := ih k hk'
      unfold lookupD at this ⊢
      simp only [List.map_cons, List.lookup_cons, h1]
      exact this

/-- `Resurrect` (restart, or re-entry of `recovery`): the in-memory state rebuilt from the database satisfies the
    in-memory invariant; the database is untouched.  The window may be a new one. -/
theorem resurrect_inv {W : Nat} {scopes : List Nat} {invalid : BranchId → List Nat} {c p q : Chain} {st : State}
    (e : c = p ++ q) (hp : PInv scopes c p st) (hw : st.window = W) :
    PInv scopes c p (resurrect invalid st) ∧ MInv W scopes invalid c p (resurrect invalid st) := by
  have eT : allTxs c = allTxs p ++ allTxs q := by rw [e, allTxs_append]
  have hwat : (resurrect invalid st).watched = (st.credits.filter (fun c => !c.spent)).map (·.op) := rfl
  constructor
  · exact ⟨hp.scopes_eq, hp.paid, hp.credits, hp.txs_rec, hp.txs_ids⟩
  · refine ⟨hw, ?_, ?_, ?_⟩
    · intro br hbr
      have hmem : br ∈ branchIds st.scopes := by rw [hp.scopes_eq]; exact (mem_branchIds scopes br).mpr hbr
      have hb : (resurrect invalid st).branch br = resurrectBranch st.window (invalid br) (st.nextOf br) := by
        unfold State.branch resurrect
        exact lookupD_map_mem (fun k => resurrectBranch st.window (invalid k) (st.nextOf k)) _ _ br hmem
      have hn : (resurrect invalid st).nextOf br = st.nextOf br := rfl
      rw [hb, hn, hw]
      obtain ⟨h1, _, h3, h4⟩ := resurrect_ok W (invalid br) (st.nextOf br)
      exact ⟨h1, h4, h3⟩
    · intro op hop
      rw [hwat] at hop
      simp only [hp.credits, specCredits, List.mem_map, List.mem_filter] at hop
      obtain ⟨cr, ⟨⟨pr, hpr, rfl⟩, _⟩, rfl⟩ := hop
      rw [eT, wops_append]
      exact List.mem_append_left _ (List.mem_map.mpr ⟨pr, hpr, rfl⟩)
    · intro op hop hsp
      simp only [wops, List.mem_map] at hop
      obtain ⟨pr, hpr, rfl⟩ := hop
      rw [hwat]
      simp only [hp.credits, specCredits, List.mem_map, List.mem_filter]
      exact ⟨⟨pr.1, pr.2, spentIn (allTxs p) pr.1⟩, ⟨⟨pr, hpr, rfl⟩, by simp [hsp]⟩, rfl⟩

/-- `Wallet.recovery`: any batch size, any resume points. -/
theorem recoverChain_spec {W : Nat} {scopes : List Nat} {invalid : BranchId → List Nat} {c : Chain}
    (hwf : ChainWF scopes invalid c) {m : Nat} (hla : LookAheadFrom W scopes m c) (batchSize : Nat) (cuts : Nat → Bool) :
    ∀ (fuel : Nat) (blocks p : Chain) (st : State) (n : Nat), c = p ++ blocks → m ≤ p.length → blocks.length < fuel →
    PInv scopes c p st → MInv W scopes invalid c p st →
    PInv scopes c c (recoverChain invalid batchSize fuel st blocks cuts n) ∧
    MInv W scopes invalid c c (recoverChain invalid batchSize fuel st blocks cuts n) := by
  intro fuel
  induction fuel with
  | zero => intro blocks p st n _ _ hl; omega
  | succ fuel ih =>
    intro blocks p st n e hmp hl hp hm
    rw [recoverChain]
    by_cases hbe : blocks.isEmpty = true
    · rw [if_pos hbe]
      rw [List.isEmpty_iff] at hbe
      subst hbe
      rw [List.append_nil] at e
      subst e
      exact ⟨hp, hm⟩
    · rw [if_neg hbe]
      simp only []
      have hne : blocks ≠ [] := fun h => hbe (by rw [h]; rfl)
      have hpos : 0 < blocks.length := List.length_pos_iff.mpr hne
      have e1 : c = p ++ blocks.take (max batchSize 1) ++ blocks.drop (max batchSize 1) := by
        rw [List.append_assoc, List.take_append_drop]; exact e
      obtain ⟨hp1, hm1⟩ := recoverScoped_spec hwf hla ((blocks.take (max batchSize 1)).length + 1)
        (blocks.take (max batchSize 1)) p (blocks.drop (max batchSize 1)) st e1 hmp (Nat.lt_succ_self _) hp hm
      have e2 : c = (p ++ blocks.take (max batchSize 1)) ++ blocks.drop (max batchSize 1) := e1
      have hl2 : (blocks.drop (max batchSize 1)).length < fuel := by
        rw [List.length_drop]; omega
      have hstep : PInv scopes c (p ++ blocks.take (max batchSize 1))
            (if cuts n = true then resurrect invalid (recoverBatch invalid st (blocks.take (max batchSize 1)))
              else recoverBatch invalid st (blocks.take (max batchSize 1))) ∧
          MInv W scopes invalid c (p ++ blocks.take (max batchSize 1))
            (if cuts n = true then resurrect invalid (recoverBatch invalid st (blocks.take (max batchSize 1)))
              else recoverBatch invalid st (blocks.take (max batchSize 1))) := by
        cases cuts n
        · exact ⟨hp1, hm1⟩
        · exact resurrect_inv e2 hp1 hm1.window_eq
      exact ih _ _ _ (n + 1) e2 (by simp; omega) hl2 hstep.1 hstep.2

theorem init_inv (W : Nat) (scopes : List Nat) (c : Chain) : PInv scopes c [] (State.init W scopes) := by
  refine ⟨rfl, ?_, rfl, ?_, ?_⟩
  · intro k h; simp [allTxs, paidKeys] at h
  · intro h blk hm; cases hm
  · intro x hx; cases hx

/-- The invariant holds for the whole chain when `recover` returns. -/
theorem recover_inv {W : Nat} {scopes : List Nat} {invalid : BranchId → List Nat} {c : Chain}
    (hwf : ChainWF scopes invalid c) (hla : LookAhead W scopes c) (batchSize : Nat) (cuts : Nat → Bool) :
    PInv scopes c c (recover invalid W batchSize scopes c cuts) ∧
    MInv W scopes invalid c c (recover invalid W batchSize scopes c cuts) := by
  obtain ⟨hp, hm⟩ := resurrect_inv (invalid := invalid) (c := c) (p := []) (q := c) rfl (init_inv W scopes c) rfl
  exact recoverChain_spec hwf hla.from0 batchSize cuts (c.length + 1) c [] _ 0 rfl (Nat.zero_le _) (Nat.lt_succ_self _) hp hm

/-! ## PART 12 — balance -/

theorem balance_fold (txs : List Tx) : ∀ (l : List (OutPoint × Nat)) (acc : Nat),
    ((l.map (fun p => (⟨p.1, p.2, spentIn txs p.1⟩ : Credit))).filter (fun c => !c.spent)).foldl
        (fun s c => s + c.amount) acc
      = acc + ((l.filter (fun p => !spentIn txs p.1)).map (·.2)).sum := by
  intro l
  induction l with
  | nil => intro acc; simp
  | cons a l ih =>
    intro acc
    cases hs : spentIn txs a.1
    · simp only [List.map_cons, List.filter_cons, hs, Bool.not_false, if_true, List.foldl_cons, List.sum_cons]
      rw [ih]; omega
    · simp only [List.map_cons, List.filter_cons, hs, Bool.not_true, Bool.false_eq_true, if_false]
      exact ih acc

theorem balance_spec (scopes : List Nat) (txs : List Tx) (st : State) (h : st.credits = specCredits scopes txs)
    (hh : ∀ op, hidden st op = false) : balance st = ledgerBalance scopes txs := by
  unfold balance spendable ledgerBalance
  simp only [hh, Bool.not_false, Bool.and_true]
  rw [h, specCredits, balance_fold]
  simp

/-! ## PART 13 — executable checkers for the hypotheses (non-vacuity, driver self-check) -/

/-- `P pre x post` for every split `l = pre ++ x :: post` (with `pre0` in front). -/
def allSplits {α : Type} (P : List α → α → List α → Bool) : List α → List α → Bool
  | _, [] => true
  | pre, x :: post => P pre x post && allSplits P (pre ++ [x]) post

theorem allSplits_sound {α : Type} (P : List α → α → List α → Bool) : ∀ (l pre : List α),
    allSplits P pre l = true → ∀ a x b, l = a ++ x :: b → P (pre ++ a) x b = true := by
  intro l
  induction l with
  | nil => intro pre _ a x b h; cases a <;> cases h
  | cons y post ih =>
    intro pre h a x b hab
    simp only [allSplits, Bool.and_eq_true] at h
    cases a with
    | nil =>
      simp only [List.nil_append, List.cons.injEq] at hab
      obtain ⟨rfl, rfl⟩ := hab
      simpa using h.1
    | cons z a' =>
      simp only [List.cons_append, List.cons.injEq] at hab
      obtain ⟨rfl, hab⟩ := hab
      have := ih (pre ++ [y]) h.2 a' x b hab
      simpa using this

def checkWF (scopes : List Nat) (invalid : BranchId → List Nat) (c : Chain) : Bool :=
  allSplits (fun pre tx post =>
      pre.all (fun t => t.id != tx.id) &&
      tx.ins.all (fun op => (tx :: post).all (fun t => !((wouts scopes t.id t.outs 0).map (·.1)).contains op)) &&
      tx.ins.all (fun op => !(wops scopes (allTxs c)).contains op || pre.all (fun t => !t.ins.contains op)))
    [] (allTxs c) &&
  (paidKeys (allTxs c)).all (fun k => !scopes.contains k.scope || !(invalid (k.scope, k.internal)).contains k.index)

def checkLA (W : Nat) (scopes : List Nat) (c : Chain) : Bool :=
  allSplits (fun pre hb _ => (paidKeys hb.2).all (fun k =>
      !scopes.contains k.scope || decide (k.index < nextAfter (allTxs pre) (k.scope, k.internal) + W))) [] c

def checkLAFrom (W : Nat) (scopes : List Nat) (n : Nat) (c : Chain) : Bool :=
  allSplits (fun pre hb _ => decide (pre.length < n) || (paidKeys hb.2).all (fun k =>
      !scopes.contains k.scope || decide (k.index < nextAfter (allTxs pre) (k.scope, k.internal) + W))) [] c

theorem not_mem_of_contains_false {α : Type} [BEq α] [LawfulBEq α] {l : List α} {a : α}
    (h : l.contains a = false) : a ∉ l := by
  intro hm
  rw [List.contains_iff_mem.mpr hm] at h
  cases h

theorem checkWF_sound (scopes : List Nat) (invalid : BranchId → List Nat) (c : Chain)
    (h : checkWF scopes invalid c = true) : ChainWF scopes invalid c := by
  simp only [checkWF, Bool.and_eq_true] at h
  obtain ⟨h1, h2⟩ := h
  have hs := allSplits_sound _ (allTxs c) [] h1
  refine ⟨?_, ?_, ?_, ?_⟩
  · intro pre tx post e t ht
    have := hs pre tx post e
    simp only [List.nil_append, Bool.and_eq_true, List.all_eq_true, bne_iff_ne] at this
    exact this.1.1 t ht
  · intro pre tx post e op hop t ht
    have := hs pre tx post e
    simp only [List.nil_append, Bool.and_eq_true, List.all_eq_true, Bool.not_eq_true'] at this
    exact not_mem_of_contains_false (this.1.2 op hop t ht)
  · intro pre tx post e op hop hops t ht
    have := hs pre tx post e
    simp only [List.nil_append, Bool.and_eq_true, List.all_eq_true, Bool.or_eq_true, Bool.not_eq_true'] at this
    rcases this.2 op hop with h' | h'
    · exact absurd hops (not_mem_of_contains_false h')
    · exact not_mem_of_contains_false (h' t ht)
  · intro k hk hs'
    simp only [List.all_eq_true, Bool.or_eq_true, Bool.not_eq_true'] at h2
    rcases h2 k hk with h' | h'
    · rw [hs'] at h'; cases h'
    · exact h'

theorem checkLA_sound (W : Nat) (scopes : List Nat) (c : Chain) (h : checkLA W scopes c = true) :
    LookAhead W scopes c := by
  intro pre hh blk post e k hk hs
  have := allSplits_sound _ c [] h pre (hh, blk) post e
  simp only [List.nil_append, List.all_eq_true, Bool.or_eq_true, Bool.not_eq_true', decide_eq_true_eq] at this
  rcases this k hk with h' | h'
  · rw [hs] at h'; cases h'
  · exact h'

/-! ## PART 14 — a later recovery over an extended chain (wallet restarted with more blocks, any window) -/

/-- What a finished recovery over `p` left in the database is a valid starting point for the chain `p ++ rest`. -/
theorem pinv_extend {scopes : List Nat} {invalid : BranchId → List Nat} {p rest : Chain} {st : State}
    (hwf : ChainWF scopes invalid (p ++ rest)) (hp : PInv scopes p p st) : PInv scopes (p ++ rest) p st := by
  refine ⟨hp.scopes_eq, hp.paid, hp.credits, ?_, hp.txs_ids⟩
  intro h blk hmem tx htx ht
  apply hp.txs_rec h blk hmem tx htx
  simp only [touches, Bool.or_eq_true, List.any_eq_true, List.contains_iff_mem] at ht ⊢
  rcases ht with ht | ⟨op, hop, hops⟩
  · exact Or.inl ht
  · right
    refine ⟨op, hop, ?_⟩
    have htp : tx ∈ allTxs p := by
      simp only [allTxs, List.mem_flatMap]; exact ⟨(h, blk), hmem, htx⟩
    obtain ⟨a, b, hab⟩ := List.append_of_mem htp
    have e : allTxs (p ++ rest) = a ++ tx :: (b ++ allTxs rest) := by rw [allTxs_append, hab]; simp
    obtain ⟨t, ht', hcr⟩ := (mem_wops_iff scopes _ op).mp hops
    rw [e] at ht'
    rcases List.mem_append.mp ht' with ht' | ht'
    · exact (mem_wops_iff scopes _ op).mpr ⟨t, by rw [hab]; exact List.mem_append_left _ ht', hcr⟩
    · exact absurd hcr (hwf.order a tx _ e op hop t ht')

theorem pinv_window {scopes : List Nat} {c p : Chain} {st : State} (W : Nat) (hp : PInv scopes c p st) :
    PInv scopes c p { st with window := W } :=
  ⟨hp.scopes_eq, hp.paid, hp.credits, hp.txs_rec, hp.txs_ids⟩

theorem checkLAFrom_sound (W : Nat) (scopes : List Nat) (n : Nat) (c : Chain) (h : checkLAFrom W scopes n c = true) :
    LookAheadFrom W scopes n c := by
  intro pre hh blk post e hn k hk hs
  have := allSplits_sound _ c [] h pre (hh, blk) post e
  simp only [List.nil_append, List.all_eq_true, Bool.or_eq_true, Bool.not_eq_true', decide_eq_true_eq] at this
  rcases this with h' | h'
  · omega
  · rcases h' k hk with h'' | h''
    · rw [hs] at h''; cases h''
    · exact h''

/-! ## PART 15 — recovery itself leases nothing and stores no unmined transaction -/

def Quiet (st : State) : Prop := st.leased = [] ∧ st.unmined = []

theorem Quiet.hidden {st : State} (h : Quiet st) (op : OutPoint) : hidden st op = false := by
  simp [Recovery.hidden, h.1, h.2]

theorem quiet_expandAll (invalid : BranchId → List Nat) (st : State) (h : Quiet st) : Quiet (expandAll invalid st) := by
  unfold expandAll
  generalize branchIds st.scopes = ids
  induction ids generalizing st with
  | nil => exact h
  | cons k ids ih => exact ih _ h

theorem quiet_extendFound (st : State) (k : BranchId) (idxs : List Nat) (h : Quiet st) :
    Quiet (extendFound st k idxs) := by
  unfold extendFound
  split
  · exact h
  · exact h

theorem quiet_addRelevantTx (st : State) (tx : Tx) (height : Nat) (h : Quiet st) :
    Quiet (addRelevantTx st tx height) := by
  unfold addRelevantTx
  split
  · exact h
  · simp only [Quiet, h.1, h.2, List.filter_nil, and_self]

theorem quiet_foldl {α : Type} (f : State → α → State) (hf : ∀ st a, Quiet st → Quiet (f st a)) :
    ∀ (l : List α) (st : State), Quiet st → Quiet (l.foldl f st) := by
  intro l
  induction l with
  | nil => intro st h; exact h
  | cons a l ih => intro st h; exact ih _ (hf st a h)

theorem quiet_applyFound (st : State) (height : Nat) (f : Found) (h : Quiet st) : Quiet (applyFound st height f) := by
  unfold applyFound
  apply quiet_foldl _ (fun st tx hq => quiet_addRelevantTx st tx height hq)
  have h1 := quiet_foldl (fun st k =>
      extendFound st k ((f.keys.filter (fun key => key.scope == k.1 && key.internal == k.2)).map (·.index)))
    (fun st k hq => quiet_extendFound st k _ hq) (branchIds st.scopes) st h
  exact h1

theorem quiet_recoverScoped (invalid : BranchId → List Nat) : ∀ (fuel : Nat) (st : State) (batch : Chain),
    Quiet st → Quiet (recoverScoped invalid fuel st batch) := by
  intro fuel
  induction fuel with
  | zero => intro st batch h; exact h
  | succ fuel ih =>
    intro st batch h
    by_cases hbe : batch.isEmpty = true
    · rw [recoverScoped, if_pos hbe]; exact h
    · rw [recoverScoped_succ invalid fuel st batch hbe]
      have hx : Quiet (expState invalid st) := quiet_expandAll invalid st h
      cases filterBlocks (expState invalid st) batch 0 with
      | none => exact hx
      | some r =>
        obtain ⟨i, hh, f⟩ := r
        simp only []
        split
        · exact quiet_applyFound _ _ _ hx
        · exact ih _ _ (quiet_applyFound _ _ _ hx)

theorem quiet_recoverChain (invalid : BranchId → List Nat) (batchSize : Nat) (cuts : Nat → Bool) :
    ∀ (fuel : Nat) (st : State) (blocks : Chain) (n : Nat), Quiet st →
    Quiet (recoverChain invalid batchSize fuel st blocks cuts n) := by
  intro fuel
  induction fuel with
  | zero => intro st blocks n h; exact h
  | succ fuel ih =>
    intro st blocks n h
    rw [recoverChain]
    split
    · exact h
    · simp only []
      apply ih
      have h1 : Quiet (recoverBatch invalid st (blocks.take (max batchSize 1))) := quiet_recoverScoped invalid _ _ _ h
      split
      · exact h1
      · exact h1

theorem quiet_recover (invalid : BranchId → List Nat) (W batchSize : Nat) (scopes : List Nat) (c : Chain)
    (cuts : Nat → Bool) : Quiet (recover invalid W batchSize scopes c cuts) :=
  quiet_recoverChain invalid batchSize cuts _ _ _ _ ⟨rfl, rfl⟩

end Recovery
