import BtcwVerif.Model.AddrDeriveStep
/-! Every row any operation of the `AddrDerive` model hands to the database is `Good` (C04 helper lemmas). -/
set_option linter.unusedSectionVars false
namespace AddrDerive
open AddrSym

variable {K P : Type} [DecidableEq K] [DecidableEq P]

/-- what C04 demands of one written row.  `o1` is the "script key is the all-zero key" quirk: with it, secret
    scripts are readable, so the secret / key-class clauses are only claimed without it. -/
def Good (o1 : Bool) (w : Row) : Prop :=
  w.exposesPublic = false ∧ (o1 = false → w.exposesSecret = false ∧ w.rightClass = true)

def AllGood (o1 : Bool) (rows : List Row) : Prop := ∀ w ∈ rows, Good o1 w

theorem AllGood.nil (o1 : Bool) : AllGood o1 [] := by intro w h; cases h

theorem AllGood.append {o1 : Bool} {a b : List Row} (ha : AllGood o1 a) (hb : AllGood o1 b) : AllGood o1 (a ++ b) := by
  intro w h
  rcases List.mem_append.mp h with h | h
  · exact ha w h
  · exact hb w h

theorem AllGood.cons {o1 : Bool} {a : Row} {b : List Row} (ha : Good o1 a) (hb : AllGood o1 b) : AllGood o1 (a :: b) := by
  intro w h
  rcases List.mem_cons.mp h with h | h
  · exact h ▸ ha
  · exact hb w h

theorem AllGood.flatten {o1 : Bool} {l : List (List Row)} (h : ∀ r ∈ l, AllGood o1 r) : AllGood o1 l.flatten := by
  intro w hw
  rcases List.mem_flatten.mp hw with ⟨r, hr, hwr⟩
  exact h r hr w hwr

section rows
variable (o1 : Bool)

local macro "good_simp" : tactic =>
  `(tactic| simp [Good, Row.exposesPublic, Row.exposesSecret, Row.rightClass, exposesPublic, exposesSecret, rightClass,
      containsSecret, allowedKey])

theorem good_acctRowPut (sc : Scope) (a : Nat) (r : AcctRow K P) : Good o1 (acctRowPut sc a r) := by
  cases r with
  | dflt pub priv ne ni name =>
    cases priv <;>
      simp [acctRowPut, acctRowSym, xpubSym, xprvSym, Good, Row.exposesPublic, Row.exposesSecret, Row.rightClass,
        exposesPublic, exposesSecret, rightClass, containsSecret, allowedKey]
  | wo pub fp ne ni name schema ci =>
    simp [acctRowPut, acctRowSym, xpubSym, Good, Row.exposesPublic, Row.exposesSecret, Row.rightClass,
      exposesPublic, exposesSecret, rightClass, containsSecret, allowedKey]

theorem key_sym_good (sc : Scope) (id : AddrId P) (r : AddrRow) :
    exposesPublic (addrKeySym sc id r) = false ∧ exposesSecret (addrKeySym sc id r) = false ∧
      rightClass (addrKeySym sc id r) = true := by
  cases r <;> simp [addrKeySym, aidChain, aidImp, aidScr, exposesPublic, exposesSecret, rightClass]

/-- an address row is harmless unless it is a secret script sealed under the zero key -/
def RowSafe (o1 : Bool) : AddrRow → Prop
  | .scr _ _ secret (some kc) => o1 = false → (if secret then kc = .script else kc = .pub)
  | _ => True

theorem addrRowSym_good (r : AddrRow) (hr : RowSafe o1 r)
    (hpub : ∀ id kind kc, r = .scr id kind false (some kc) → kc ≠ .zero) :
    exposesPublic (addrRowSym r) = false ∧
      (o1 = false → exposesSecret (addrRowSym r) = false ∧ rightClass (addrRowSym r) = true) := by
  cases r with
  | chain a b i => simp [addrRowSym, exposesPublic, exposesSecret, rightClass]
  | imp id c hp =>
    cases hp <;> simp [addrRowSym, exposesPublic, exposesSecret, rightClass, containsSecret, allowedKey]
  | scr id kind secret encKey =>
    cases encKey with
    | none => simp [addrRowSym, exposesPublic, exposesSecret, rightClass, containsSecret, allowedKey]
    | some kc =>
      cases secret with
      | true =>
        constructor
        · cases kc <;> simp [addrRowSym, scriptSym, exposesPublic]
        · intro h
          have := hr h
          simp at this
          subst this
          simp [addrRowSym, scriptSym, exposesSecret, rightClass, containsSecret, allowedKey]
      | false =>
        have hz := hpub id kind kc rfl
        constructor
        · cases kc <;> simp_all [addrRowSym, scriptSym, exposesPublic]
        · intro h
          have := hr h
          simp at this
          subst this
          simp [addrRowSym, scriptSym, exposesSecret, rightClass, containsSecret, allowedKey]

theorem good_addrRowPuts (sc : Scope) (id : AddrId P) (r : AddrRow) (hr : RowSafe o1 r)
    (hpub : ∀ id kind kc, r = .scr id kind false (some kc) → kc ≠ .zero) :
    AllGood o1 (addrRowPuts sc id r) := by
  have hk := key_sym_good sc id r
  have hv := addrRowSym_good o1 r hr hpub
  intro w hw
  simp only [addrRowPuts, List.mem_cons, List.mem_nil_iff, or_false] at hw
  rcases hw with rfl | rfl | rfl
  · refine ⟨by simp [Row.exposesPublic, hk.1, hv.1], fun h => ?_⟩
    have := hv.2 h
    simp [Row.exposesSecret, Row.rightClass, hk.2.1, hk.2.2, this.1, this.2]
  · refine ⟨by simp [Row.exposesPublic, hk.1, exposesPublic], fun _ => ?_⟩
    simp [Row.exposesSecret, Row.rightClass, hk.2.1, hk.2.2, exposesSecret, rightClass]
  · refine ⟨by simp [Row.exposesPublic, hk.1, exposesPublic], fun _ => ?_⟩
    simp [Row.exposesSecret, Row.rightClass, hk.2.1, hk.2.2, exposesSecret, rightClass]

theorem good_chainPuts (sc : Scope) (id : AddrId P) (a b i : Nat) : AllGood o1 (addrRowPuts sc id (.chain a b i)) :=
  good_addrRowPuts o1 sc id _ trivial (by intro _ _ _ h; cases h)

theorem good_impPuts (sc : Scope) (id : AddrId P) (k : Nat) (c hp : Bool) : AllGood o1 (addrRowPuts sc id (.imp k c hp)) :=
  good_addrRowPuts o1 sc id _ trivial (by intro _ _ _ h; cases h)

theorem good_mainPut_plain (k d : String) : Good o1 (mainPut k (.plain d)) := by
  simp [mainPut, Good, Row.exposesPublic, Row.exposesSecret, Row.rightClass, exposesPublic, exposesSecret, rightClass]

theorem good_mainDel (k : String) : Good o1 (mainDel k) := by
  simp [mainDel, Good, Row.exposesPublic, Row.exposesSecret, Row.rightClass, exposesPublic, exposesSecret, rightClass]

theorem good_cryptoKeyRows (a b c : Bool) : AllGood o1 (cryptoKeyRows a b c) := by
  intro w hw
  cases a <;> cases b <;> cases c <;>
    simp [cryptoKeyRows, mainPut] at hw <;>
    (try rcases hw with rfl | rfl | rfl) <;> (try rcases hw with rfl | rfl) <;> (try subst hw) <;>
    simp [Good, Row.exposesPublic, Row.exposesSecret, Row.rightClass, exposesPublic, exposesSecret, rightClass,
      containsSecret, allowedKey]

theorem good_paramRows (a b : Option Nat) : AllGood o1 (paramRows a b) := by
  intro w hw
  cases a <;> cases b <;> simp [paramRows] at hw <;>
    (try rcases hw with rfl | rfl) <;> (try subst hw) <;> exact good_mainPut_plain o1 _ _

theorem good_keyScopeRows (sc : Scope) (r : AcctRow K P) : AllGood o1 (keyScopeRows sc r) := by
  intro w hw
  simp only [keyScopeRows, List.mem_cons, List.mem_nil_iff, or_false] at hw
  rcases hw with rfl | rfl | rfl
  · simp [Good, Row.exposesPublic, Row.exposesSecret, Row.rightClass, exposesPublic, exposesSecret, rightClass,
      containsSecret, allowedKey]
  · simp [Good, Row.exposesPublic, Row.exposesSecret, Row.rightClass, exposesPublic, exposesSecret, rightClass,
      containsSecret, allowedKey]
  · exact good_acctRowPut o1 sc 0 r

theorem good_scopeRows (sc : Scope) (sd : ScopeDisk K P) : AllGood o1 (scopeRows sc sd) := by
  unfold scopeRows
  split
  · exact good_keyScopeRows o1 sc _
  · exact AllGood.nil o1

end rows

end AddrDerive

namespace AddrDerive
open AddrSym
variable {K P : Type} [DecidableEq K] [DecidableEq P]

theorem good_bumpAcctRow (o1 : Bool) (sc : Scope) (sd : ScopeDisk K P) (a b i : Nat) :
    AllGood o1 (bumpAcctRow sc sd a b i).2 := by
  unfold bumpAcctRow
  split
  · exact AllGood.cons (good_acctRowPut o1 _ _ _) (AllGood.nil _)
  · exact AllGood.nil _

theorem issueAll_good (o1 : Bool) (sc : Scope) (toDou : Bool) (objs : List (KeyObj K P)) :
    ∀ (s : State K P) (rows : List Row) (idxs : List Nat), AllGood o1 rows →
      AllGood o1 (issueAll sc toDou objs s rows idxs).2.1 := by
  induction objs with
  | nil => intro s rows idxs h; simpa [issueAll] using h
  | cons o rest ih =>
    intro s rows idxs h
    unfold issueAll
    split
    · apply ih
      exact AllGood.append (AllGood.append h (good_chainPuts o1 _ _ _ _ _)) (good_bumpAcctRow o1 _ _ _ _ _)
    · exact h

theorem commitIssue_good (o1 : Bool) (s : State K P) (sc : Scope) (acct : Nat) (internal toDou : Bool)
    (objs : List (KeyObj K P)) (nn : Nat) : AllGood o1 (commitIssue s sc acct internal toDou objs nn).2.1 := by
  have h := issueAll_good o1 sc toDou objs s [] [] (AllGood.nil _)
  unfold commitIssue
  rcases hi : issueAll sc toDou objs s [] [] with ⟨s1, rows, idxs⟩
  rw [hi] at h
  simp only
  split
  · split <;> exact h
  · exact h

end AddrDerive

namespace AddrDerive
open AddrSym
variable {K P : Type} [DecidableEq K] [DecidableEq P]

macro "crack" : tactic => `(tactic| repeat' (first | split | (dsimp only; split)))

theorem opMarkUsed_good (o1 : Bool) (s : State K P) (sc : Scope) (id : AddrId P) (d : String) :
    AllGood o1 (opMarkUsed s sc id d).2.2 := by
  unfold opMarkUsed
  split
  · dsimp only
    unfold markRows
    split
    · exact AllGood.nil _
    · apply AllGood.cons _ (AllGood.nil _)
      have hk : exposesPublic (markKeySym sc ‹ScopeDisk K P› id d) = false ∧ exposesSecret (markKeySym sc ‹ScopeDisk K P› id d) = false ∧
          rightClass (markKeySym sc ‹ScopeDisk K P› id d) = true := by
        unfold markKeySym
        split
        · exact key_sym_good _ _ _
        · simp [exposesPublic, exposesSecret, rightClass]
      simp [Good, Row.exposesPublic, Row.exposesSecret, Row.rightClass, hk.1, hk.2.1, hk.2.2, exposesPublic, exposesSecret, rightClass]
  · exact AllGood.nil _

theorem importKey_good (o1 : Bool) (s : State K P) (sc : Scope) (k : Nat) (c wp : Bool) (h : Nat) :
    AllGood o1 (importKey s sc k c wp h).2.2 := by
  unfold importKey
  crack
  all_goals (try exact AllGood.nil _)
  all_goals exact good_impPuts o1 _ _ _ _ _

theorem opImportPriv_good (o1 : Bool) (s : State K P) (sc : Scope) (k : Nat) (c : Bool) (h : Nat) :
    AllGood o1 (opImportPriv s sc k c h).2.2 := by
  unfold opImportPriv
  split
  · exact AllGood.nil _
  · exact importKey_good o1 _ _ _ _ _ _

theorem scrRow_ok (cfg : Cfg) (k kind : Nat) (secret : Bool) :
    RowSafe cfg.o1 (.scr k kind secret (some (if secret then memScriptKey cfg else KeyClass.pub))) ∧
    (∀ id kd kc, AddrRow.scr k kind secret (some (if secret then memScriptKey cfg else KeyClass.pub)) = .scr id kd false (some kc) →
      kc ≠ .zero) := by
  cases secret
  · constructor
    · simp [RowSafe]
    · intro id kd kc he
      simp at he
      rw [← he.2.2]; simp
  · constructor
    · simp [RowSafe, memScriptKey]
    · intro id kd kc he
      simp at he

theorem opImportScript_good (cfg : Cfg) (s : State K P) (sc : Scope) (k kind : Nat) (sec : Bool) (h : Nat) :
    AllGood cfg.o1 (opImportScript cfg s sc k kind sec h).2.2 := by
  have hrow := scrRow_ok cfg k kind sec
  unfold opImportScript
  split
  · exact AllGood.nil _
  · split
    · exact AllGood.nil _
    · split
      · dsimp only
        split
        · exact AllGood.nil _
        · split
          · exact AllGood.nil _
          · exact good_addrRowPuts cfg.o1 _ _ _ hrow.1 hrow.2
      · exact AllGood.nil _

theorem opNewAccount_good (o1 : Bool) (hd : HD K P) (s : State K P) (sc : Scope) (name : Nat) :
    AllGood o1 (opNewAccount hd s sc name).2.2 := by
  unfold opNewAccount
  crack
  all_goals (try exact AllGood.nil _)
  all_goals exact AllGood.cons (good_acctRowPut o1 _ _ _) (AllGood.nil _)

theorem opNewAccountWO_good (o1 : Bool) (s : State K P) (sc : Scope) (name : Nat) (x : P) (ci fp : Nat) (sch : Option Schema) :
    AllGood o1 (opNewAccountWO s sc name x ci fp sch).2.2 := by
  unfold opNewAccountWO
  crack
  all_goals (try exact AllGood.nil _)
  all_goals exact AllGood.cons (good_acctRowPut o1 _ _ _) (AllGood.nil _)

theorem opNewScope_good (o1 : Bool) (cfg : Cfg) (hd : HD K P) (s : State K P) (sc : Scope) (sch : Schema) :
    AllGood o1 (opNewScope cfg hd s sc sch).2.2 := by
  unfold opNewScope
  crack
  all_goals (try exact AllGood.nil _)
  all_goals exact good_scopeRows o1 _ _

theorem opChangePass_good (o1 : Bool) (s : State K P) (priv : Bool) (o n : Nat) :
    AllGood o1 (opChangePass s priv o n).2.2 := by
  unfold opChangePass
  crack
  all_goals (try exact AllGood.nil _)
  all_goals exact AllGood.append (good_cryptoKeyRows o1 _ _ _) (good_paramRows o1 _ _)

theorem opCreate_good (o1 : Bool) (hd : HD K P) (root : K) : AllGood o1 (opCreate hd root).2.2 := by
  unfold opCreate
  split
  · exact AllGood.nil _
  · dsimp only
    refine AllGood.append (AllGood.append (AllGood.append (AllGood.append ?_ ?_) (good_paramRows o1 _ _)) (good_cryptoKeyRows o1 _ _ _)) ?_
    · apply AllGood.flatten
      intro r hr
      rcases List.mem_map.mp hr with ⟨e, _, rfl⟩
      exact good_scopeRows o1 _ _
    · intro w hw
      simp only [List.mem_cons, List.mem_nil_iff, or_false] at hw
      rcases hw with rfl | rfl <;>
        simp [mainPut, Good, Row.exposesPublic, Row.exposesSecret, Row.rightClass, exposesPublic, exposesSecret, rightClass,
          containsSecret, allowedKey]
    · exact AllGood.cons (good_mainPut_plain o1 _ _) (AllGood.nil _)


theorem opNext_good (o1 : Bool) (hd : HD K P) (s : State K P) (sc : Scope) (acct n : Nat) (internal : Bool) (hb : Nat) :
    AllGood o1 (opNext hd s sc acct n internal hb).2.2 := by
  unfold opNext
  crack
  all_goals (try exact AllGood.nil _)
  all_goals exact commitIssue_good o1 _ _ _ _ _ _ _

theorem opExtend_good (o1 : Bool) (cfg : Cfg) (hd : HD K P) (s : State K P) (sc : Scope) (acct last : Nat) (internal : Bool) :
    AllGood o1 (opExtend cfg hd s sc acct last internal).2.2 := by
  unfold opExtend
  crack
  all_goals (try exact AllGood.nil _)
  all_goals exact commitIssue_good o1 _ _ _ _ _ _ _

end AddrDerive

namespace AddrDerive
open AddrSym
variable {K P : Type} [DecidableEq K] [DecidableEq P]

theorem strip_no_script (cfg : Cfg) (r : AddrRow) (hemit : emitted cfg r = true) :
    ∀ id kind sec kc, stripAddrRow cfg r ≠ .scr id kind sec (some kc) := by
  intro id kind sec kc
  cases r with
  | chain a b i => simp [emitted, stripAddrRow] at hemit
  | imp k c hp => simp [stripAddrRow]
  | scr k kd s e =>
    rcases kd with _ | _ | n
    · simp [stripAddrRow]
    · cases s
      · simp [emitted, stripAddrRow] at hemit
      · simp [stripAddrRow]
    · cases s
      · simp [emitted, stripAddrRow] at hemit
      · cases ht : cfg.t1
        · simp [stripAddrRow, ht]
        · simp [emitted, stripAddrRow, ht] at hemit

theorem stripRow_good (o1 : Bool) (cfg : Cfg) (sc : Scope) (id : AddrId P) (r : AddrRow) (hemit : emitted cfg r = true) :
    Good o1 ({ path := scPath sc "addr", key := addrKeySym sc id r, val := addrRowSym (stripAddrRow cfg r) } : Row) := by
  have hk := key_sym_good sc id r
  have hns := strip_no_script cfg r hemit
  have hv : exposesPublic (addrRowSym (stripAddrRow cfg r)) = false ∧
      (o1 = false → exposesSecret (addrRowSym (stripAddrRow cfg r)) = false ∧ rightClass (addrRowSym (stripAddrRow cfg r)) = true) := by
    apply addrRowSym_good
    · generalize hq : stripAddrRow cfg r = q at hns
      cases q with
      | scr a b c e => cases e with
        | none => trivial
        | some kc => exact absurd rfl (hns a b c kc)
      | _ => trivial
    · intro a b kc he
      exact absurd he (hns a b false kc)
  refine ⟨by simp [Row.exposesPublic, hk.1, hv.1], fun h => ?_⟩
  have := hv.2 h
  simp [Row.exposesSecret, Row.rightClass, hk.2.1, hk.2.2, this.1, this.2]

theorem stripScope_good (o1 : Bool) (cfg : Cfg) (sc : Scope) (sd : ScopeDisk K P) : AllGood o1 (stripScope cfg sc sd).2 := by
  unfold stripScope
  dsimp only
  refine AllGood.append (AllGood.append ?_ ?_) ?_
  · apply AllGood.cons _ (AllGood.nil _)
    simp [Good, Row.exposesPublic, Row.exposesSecret, Row.rightClass, exposesPublic, exposesSecret, rightClass]
  · intro w hw
    rcases List.mem_map.mp hw with ⟨e, _, rfl⟩
    exact good_acctRowPut o1 _ _ _
  · intro w hw
    rcases List.mem_map.mp hw with ⟨e, he, rfl⟩
    have := (List.mem_filter.mp he).2
    exact stripRow_good o1 cfg sc e.1 e.2 this

theorem opConvertWO_good (o1 : Bool) (cfg : Cfg) (s : State K P) : AllGood o1 (opConvertWO cfg s).2.2 := by
  unfold opConvertWO
  split
  · exact AllGood.nil _
  · dsimp only
    refine AllGood.append (AllGood.append ?_ ?_) ?_
    · intro w hw
      simp only [List.mem_cons, List.mem_nil_iff, or_false] at hw
      rcases hw with rfl | rfl | rfl | rfl <;> exact good_mainDel o1 _
    · apply AllGood.flatten
      intro r hr
      rcases List.mem_map.mp hr with ⟨e, he, rfl⟩
      rcases List.mem_map.mp he with ⟨e0, _, rfl⟩
      exact stripScope_good o1 cfg _ _
    · exact AllGood.cons (good_mainPut_plain o1 _ _) (AllGood.nil _)

/-- every row written by any single operation is `Good` -/
theorem step_good (cfg : Cfg) (hd : HD K P) (s : State K P) (op : Op K P) : AllGood cfg.o1 (step cfg hd s op).2.2 := by
  unfold step
  split
  · exact opCreate_good _ _ _
  · split
    · exact AllGood.nil _
    · split
      · exact AllGood.nil _
      · split
        · exact opCreate_good _ _ _
        · unfold opUnlock; crack <;> exact AllGood.nil _
        · unfold opLock; crack <;> exact AllGood.nil _
        · exact opChangePass_good _ _ _ _ _
        · exact opNewScope_good _ _ _ _ _ _
        · exact opNewAccount_good _ _ _ _ _
        · exact opNewAccountWO_good _ _ _ _ _ _ _ _
        · exact opNext_good _ _ _ _ _ _ _ _
        · exact opExtend_good _ _ _ _ _ _ _ _
        · unfold opLookup; crack <;> exact AllGood.nil _
        · exact opMarkUsed_good _ _ _ _ _
        · unfold opDerive; crack <;> exact AllGood.nil _
        · exact opImportPriv_good _ _ _ _ _ _
        · exact importKey_good _ _ _ _ _ _ _
        · exact opImportScript_good _ _ _ _ _ _ _
        · unfold opPrivKey; crack <;> exact AllGood.nil _
        · unfold opScript; crack <;> exact AllGood.nil _
        · unfold opInfo; crack <;> exact AllGood.nil _
        · unfold opProps; crack <;> exact AllGood.nil _
        · exact AllGood.nil _
        · exact opConvertWO_good _ _ _
        · unfold opDeriveCache; crack <;> exact AllGood.nil _
        · unfold opRename; crack
          all_goals first
            | exact AllGood.nil _
            | exact AllGood.cons (good_acctRowPut _ _ _ _) (AllGood.nil _)

theorem foldl_good (cfg : Cfg) (hd : HD K P) (ops : List (Op K P)) :
    ∀ (acc : State K P × List Row), AllGood cfg.o1 acc.2 →
      AllGood cfg.o1 (ops.foldl (fun acc op => let r := step cfg hd acc.1 op; (r.1, acc.2 ++ r.2.2)) acc).2 := by
  induction ops with
  | nil => intro acc h; exact h
  | cons op rest ih =>
    intro acc h
    simp only [List.foldl_cons]
    apply ih
    exact AllGood.append h (step_good cfg hd acc.1 op)

/-- every row written during any history is `Good` -/
theorem run_good (cfg : Cfg) (hd : HD K P) (ops : List (Op K P)) : AllGood cfg.o1 (run cfg hd ops).2 := by
  unfold run
  split
  · exact AllGood.nil _
  · exact foldl_good cfg hd _ _ (AllGood.nil _)

end AddrDerive
