import BtcwVerif.Model.AddrDeriveStep
/-! Every row any operation of the `AddrDerive` model hands to the database is `Good` (C04 helper lemmas). -/
namespace AddrDerive
open AddrSym

variable {K P : Type} [DecidableEq K] [DecidableEq P]

/-- what C04 demands of one written row.  `o1` is the "script key is the all-zero key" quirk: with it, secret
    scripts are readable, so the secret / key-class clauses are only claimed without it. -/
def Good (o1 : Bool) (w : Row) : Prop :=
  w.exposesPublic = false ∧ (o1 = false → w.exposesSecret = false ∧ w.rightClass = true)

def AllGood (o1 : Bool) (rows : List Row) : Prop := ∀ w ∈ rows, Good o1 w

theorem AllGood.nil (o1 : Bool) : AllGood o1 [] := by intro w h; cases h

theorem AllGood.append {o1 : Bool} {a b : List Row} (ha : AllGood o1 a) (hb : AllGood o1 b) : AllGood o1 (a ++ b) := by
  intro w h
  rcases List.mem_append.mp h with h | h
  · exact ha w h
  · exact hb w h

theorem AllGood.cons {o1 : Bool} {a : Row} {b : List Row} (ha : Good o1 a) (hb : AllGood o1 b) : AllGood o1 (a :: b) := by
  intro w h
  rcases List.mem_cons.mp h with h | h
  · exact h ▸ ha
  · exact hb w h

theorem AllGood.flatten {o1 : Bool} {l : List (List Row)} (h : ∀ r ∈ l, AllGood o1 r) : AllGood o1 l.flatten := by
  intro w hw
  rcases List.mem_flatten.mp hw with ⟨r, hr, hwr⟩
  exact h r hr w hwr

section rows
variable (o1 : Bool)

local macro "good_simp" : tactic =>
  `(tactic| simp [Good, Row.exposesPublic, Row.exposesSecret, Row.rightClass, exposesPublic, exposesSecret, rightClass,
      containsSecret, allowedKey])

theorem good_acctRowPut (sc : Scope) (a : Nat) (r : AcctRow K P) : Good o1 (acctRowPut sc a r) := by
  cases r with
  | dflt pub priv ne ni name =>
    cases priv <;>
      simp [acctRowPut, acctRowSym, xpubSym, xprvSym, Good, Row.exposesPublic, Row.exposesSecret, Row.rightClass,
        exposesPublic, exposesSecret, rightClass, containsSecret, allowedKey]
  | wo pub fp ne ni name schema ci =>
    simp [acctRowPut, acctRowSym, xpubSym, Good, Row.exposesPublic, Row.exposesSecret, Row.rightClass,
      exposesPublic, exposesSecret, rightClass, containsSecret, allowedKey]

theorem key_sym_good (sc : Scope) (id : AddrId P) (r : AddrRow) :
    exposesPublic (addrKeySym sc id r) = false ∧ exposesSecret (addrKeySym sc id r) = false ∧
      rightClass (addrKeySym sc id r) = true := by
  cases r <;> simp [addrKeySym, aidChain, aidImp, aidScr, exposesPublic, exposesSecret, rightClass]

/-- an address row is harmless unless it is a secret script sealed under the zero key -/
def RowSafe (o1 : Bool) : AddrRow → Prop
  | .scr _ _ secret (some kc) => o1 = false → (if secret then kc = .script else kc = .pub)
  | _ => True

theorem addrRowSym_good (r : AddrRow) (hr : RowSafe o1 r)
    (hpub : ∀ id kind kc, r = .scr id kind false (some kc) → kc ≠ .zero) :
    exposesPublic (addrRowSym r) = false ∧
      (o1 = false → exposesSecret (addrRowSym r) = false ∧ rightClass (addrRowSym r) = true) := by
  cases r with
  | chain a b i => simp [addrRowSym, exposesPublic, exposesSecret, rightClass]
  | imp id c hp =>
    cases hp <;> simp [addrRowSym, exposesPublic, exposesSecret, rightClass, containsSecret, allowedKey]
  | scr id kind secret encKey =>
    cases encKey with
    | none => simp [addrRowSym, exposesPublic, exposesSecret, rightClass, containsSecret, allowedKey]
    | some kc =>
      cases secret with
      | true =>
        constructor
        · cases kc <;> simp [addrRowSym, scriptSym, exposesPublic]
        · intro h
          have := hr h
          simp at this
          subst this
          simp [addrRowSym, scriptSym, exposesSecret, rightClass, containsSecret, allowedKey]
      | false =>
        have hz := hpub id kind kc rfl
        constructor
        · cases kc <;> simp_all [addrRowSym, scriptSym, exposesPublic]
        · intro h
          have := hr h
          simp at this
          subst this
          simp [addrRowSym, scriptSym, exposesSecret, rightClass, containsSecret, allowedKey]

theorem good_addrRowPuts (sc : Scope) (id : AddrId P) (r : AddrRow) (hr : RowSafe o1 r)
    (hpub : ∀ id kind kc, r = .scr id kind false (some kc) → kc ≠ .zero) :
    AllGood o1 (addrRowPuts sc id r) := by
  have hk := key_sym_good sc id r
  have hv := addrRowSym_good o1 r hr hpub
  intro w hw
  simp only [addrRowPuts, List.mem_cons, List.mem_nil_iff, or_false] at hw
  rcases hw with rfl | rfl | rfl
  · refine ⟨by simp [Row.exposesPublic, hk.1, hv.1], fun h => ?_⟩
    have := hv.2 h
    simp [Row.exposesSecret, Row.rightClass, hk.2.1, hk.2.2, this.1, this.2]
  · refine ⟨by simp [Row.exposesPublic, hk.1, exposesPublic], fun _ => ?_⟩
    simp [Row.exposesSecret, Row.rightClass, hk.2.1, hk.2.2, exposesSecret, rightClass]
  · refine ⟨by simp [Row.exposesPublic, hk.1, exposesPublic], fun _ => ?_⟩
    simp [Row.exposesSecret, Row.rightClass, hk.2.1, hk.2.2, exposesSecret, rightClass]

theorem good_chainPuts (sc : Scope) (id : AddrId P) (a b i : Nat) : AllGood o1 (addrRowPuts sc id (.chain a b i)) :=
  good_addrRowPuts o1 sc id _ trivial (by intro _ _ _ h; cases h)

theorem good_impPuts (sc : Scope) (id : AddrId P) (k : Nat) (c hp : Bool) : AllGood o1 (addrRowPuts sc id (.imp k c hp)) :=
  good_addrRowPuts o1 sc id _ trivial (by intro _ _ _ h; cases h)

theorem good_mainPut_plain (k d : String) : Good o1 (mainPut k (.plain d)) := by
  simp [mainPut, Good, Row.exposesPublic, Row.exposesSecret, Row.rightClass, exposesPublic, exposesSecret, rightClass]

theorem good_mainDel (k : String) : Good o1 (mainDel k) := by
  simp [mainDel, Good, Row.exposesPublic, Row.exposesSecret, Row.rightClass, exposesPublic, exposesSecret, rightClass]

theorem good_cryptoKeyRows (a b c : Bool) : AllGood o1 (cryptoKeyRows a b c) := by
  intro w hw
  cases a <;> cases b <;> cases c <;>
    simp [cryptoKeyRows, mainPut] at hw <;>
    (try rcases hw with rfl | rfl | rfl) <;> (try rcases hw with rfl | rfl) <;> (try subst hw) <;>
    simp [Good, Row.exposesPublic, Row.exposesSecret, Row.rightClass, exposesPublic, exposesSecret, rightClass,
      containsSecret, allowedKey]

theorem good_paramRows (a b : Option Nat) : AllGood o1 (paramRows a b) := by
  intro w hw
  cases a <;> cases b <;> simp [paramRows] at hw <;>
    (try rcases hw with rfl | rfl) <;> (try subst hw) <;> exact good_mainPut_plain o1 _ _

theorem good_keyScopeRows (sc : Scope) (r : AcctRow K P) : AllGood o1 (keyScopeRows sc r) := by
  intro w hw
  simp only [keyScopeRows, List.mem_cons, List.mem_nil_iff, or_false] at hw
  rcases hw with rfl | rfl | rfl
  · simp [Good, Row.exposesPublic, Row.exposesSecret, Row.rightClass, exposesPublic, exposesSecret, rightClass,
      containsSecret, allowedKey]
  · simp [Good, Row.exposesPublic, Row.exposesSecret, Row.rightClass, exposesPublic, exposesSecret, rightClass,
      containsSecret, allowedKey]
  · exact good_acctRowPut o1 sc 0 r

theorem good_scopeRows (sc : Scope) (sd : ScopeDisk K P) : AllGood o1 (scopeRows sc sd) := by
  unfold scopeRows
  split
  · exact good_keyScopeRows o1 sc _
  · exact AllGood.nil o1

end rows

end AddrDerive
