import BtcwVerif.Lemmas.RefChain
/-!
# Refinement, event *confirmed*, store side
`insertMinedTx` = record + spend loop + move loop + (drop the unconfirmed copy) [`confirmCore`], then
`removeDoubleSpends`, then the lease release; afterwards `addCredit` for the credited outputs.
-/
namespace TxStore
open KMap Ledger

/-- `insertMinedTx` up to (excluding) `removeDoubleSpends` -/
def confirmCore (s : Store) (rec : Tx) (bm : BlockMeta) : Store :=
  let s1 := updateMinedBalance (recordTx s rec bm) rec bm.block
  if s1.unmined.contains rec.hash then deleteUnminedTx s1 rec else s1

theorem insertMinedTx_core (s : Store) (rec : Tx) (bm : BlockMeta) :
    insertMinedTx s rec bm =
      if s.txrecs.contains ⟨rec.hash, bm.block⟩ then throw Err.duplicate else
      removeDoubleSpends (confirmCore s rec bm) rec >>= fun s => pure (rec.ins.foldl unlockOutputRaw s) := by
  rw [insertMinedTx_eq]; rfl

/-- `WF2` holds at the intermediate point (same argument as `wf2_insertMinedTx`, stopped before the conflict removal) -/
theorem wf2_confirmCore {s : Store} {rec : Tx} {bm : BlockMeta} (hw : WF2 s) (hp : ConfirmPre2 s rec bm) :
    WF2 (confirmCore s rec bm) := by
  unfold confirmCore
  have hwR := wf_recordTx s rec bm hw.wf hp.pre
  have hrecR : (recordTx s rec bm).txrecs.find? ⟨rec.hash, bm.block⟩ = some rec := by
    rw [recordTx_fields]; simp
  have hnocred : ∀ k, ((recordTx s rec bm).credits.find? k).isSome → k.hash ≠ rec.hash := by
    intro k hk
    rw [recordTx_fields] at hk
    cases hc : s.credits.find? k with
    | none => rw [show ({ s with blocks := _, txrecs := _ } : Store).credits = s.credits from rfl, hc] at hk; cases hk
    | some cv =>
      obtain ⟨_, rec0, _, _, _, hr0, _⟩ := hw.wf.listed k cv hc
      exact hp.pre.fresh k.txKey (by simp [hr0])
  have hucR : ∀ op uc, (recordTx s rec bm).unminedCredits.find? op = some uc → op.hash = rec.hash →
      rec.outs[op.index]? = some uc.amount := by
    intro op uc hf; rw [recordTx_fields] at hf; exact hp.pre.ucValid op uc hf
  obtain ⟨hw1, _, _⟩ := wf_updateMinedBalance (recordTx s rec bm) rec bm hwR hrecR hnocred hucR
  have hdR : DebitsOK (recordTx s rec bm) := by
    intro dk d hdf
    rw [recordTx_fields] at hdf
    obtain ⟨⟨⟨rec0, hr0, hin0⟩, hrest⟩, hl⟩ := hw.deb dk d hdf
    refine ⟨⟨⟨rec0, ?_, hin0⟩, hrest⟩, ?_⟩
    · rw [recordTx_fields]
      show KMap.find? (KMap.insert s.txrecs _ _) _ = _
      rw [find?_insert_ne _ _ (by intro e; exact hp.pre.fresh dk.txKey (by simp [hr0]) (by rw [← e]))]
      exact hr0
    · unfold DebitLive; rw [recordTx_fields]; exact hl
  have hoR : OutsBound (recordTx s rec bm) := by
    intro k rec0 hk
    rw [recordTx_fields] at hk
    simp only [find?_insert] at hk
    split at hk
    · cases hk; exact hp.outsBound
    · exact hw.outs k rec0 hk
  have hpbR : ∀ inp blk0, (recordTx s rec bm).unspent.find? inp = some blk0 → inp ∈ rec.ins →
      blk0.height ≤ bm.block.height := by
    intro inp blk0 hu; rw [recordTx_fields] at hu; exact hp.parentsBelow inp blk0 hu
  have hd1 : DebitsOK (updateMinedBalance (recordTx s rec bm) rec bm.block) ∧
      OutsBound (updateMinedBalance (recordTx s rec bm) rec bm.block) := by
    rw [updateMinedBalance_eq]
    have hw0 : WF { (recordTx s rec bm) with minedBalance := (recordTx s rec bm).minedBalance } := hwR
    obtain ⟨hwA, hfA⟩ := wfb_spendInputs rec bm.block (recordTx s rec bm) (withIdx rec.ins) (recordTx s rec bm) _ hw0
      (SpendFix.refl _)
    obtain ⟨hdA, hoA⟩ := wf2b_spendInputs rec bm (recordTx s rec bm) hrecR hnocred hpbR (withIdx rec.ins)
      (recordTx s rec bm) _ (by
        intro p hp'
        obtain ⟨i, inp⟩ := p
        have := (withIdx_mem rec.ins 0 i inp hp').2
        simpa using this) hw0 (SpendFix.refl _) hdR hoR (fun _ _ h => h)
    generalize (withIdx rec.ins).foldl (spendInput rec bm.block) (recordTx s rec bm, (recordTx s rec bm).minedBalance) = a
      at hwA hfA hdA hoA ⊢
    obtain ⟨sA, balA⟩ := a
    try simp only at hwA hfA hdA hoA ⊢
    have hLnone : ∀ p ∈ unminedCreditsOf sA rec.hash, sA.credits.find? ⟨rec.hash, bm.block, p.1.index⟩ = none := by
      intro p _
      cases hc : sA.credits.find? ⟨rec.hash, bm.block, p.1.index⟩ with
      | none => rfl
      | some v =>
        have := hfA.creditKeys ⟨rec.hash, bm.block, p.1.index⟩ (by simp [hc])
        exact absurd rfl (hnocred _ this)
    have hnd : ((unminedCreditsOf sA rec.hash).map (·.1.index)).Nodup := by
      unfold unminedCreditsOf
      rw [hfA.uc, recordTx_fields]
      exact nodup_indices_of_same_hash _ hw.wf.nodupUC rec.hash
    obtain ⟨hdB, hoB⟩ := deb_moveCredits rec bm (unminedCreditsOf sA rec.hash) sA balA hdA hoA hLnone hnd
    generalize (unminedCreditsOf sA rec.hash).foldl (moveCredit rec bm.block) (sA, balA) = b at hdB hoB ⊢
    obtain ⟨sB, balB⟩ := b
    try simp only at hdB hoB ⊢
    split
    · exact ⟨hdB, hoB⟩
    · exact ⟨hdB, hoB⟩
  generalize updateMinedBalance (recordTx s rec bm) rec bm.block = s1 at hw1 hd1
  simp only
  split
  · obtain ⟨_, ht, hc, _, _, hdb⟩ := sameMined_deleteUnminedTx s1 rec
    refine ⟨wf_of_sameMined (sameMined_deleteUnminedTx s1 rec) (nuc_deleteUnminedTx s1 rec hw1.nodupUC) hw1, ?_, ?_⟩
    · intro dk d hf; rw [hdb] at hf
      obtain ⟨hb, hl⟩ := hd1.1 dk d hf
      exact ⟨by rw [ht]; exact hb, by unfold DebitLive; rw [hc]; exact hl⟩
    · intro k r hf; rw [ht] at hf; exact hd1.2 k r hf
  · exact ⟨hw1, hd1.1, hd1.2⟩

/-! ### what the spend loop writes -/

def baseCredit (s : Store) (k : CredKey) : CreditVal := (s.credits.find? k).getD ⟨0, false, false, none⟩

theorem spendInput_none {rec : Tx} {blk : Block} {s : Store} {bal : Int} {j : Nat} {inp : OutPoint}
    (h : s.unspent.find? inp = none) : spendInput rec blk (s, bal) (j, inp) = (s, bal) := by
  unfold spendInput; simp only [h]

theorem spendInput_some {rec : Tx} {blk : Block} {s : Store} {bal : Int} {j : Nat} {inp : OutPoint} {b0 : Block}
    (h : s.unspent.find? inp = some b0) :
    spendInput rec blk (s, bal) (j, inp) =
      ({ s with
          credits := s.credits.insert ⟨inp.hash, b0, inp.index⟩
            { baseCredit s ⟨inp.hash, b0, inp.index⟩ with spent := true, spender := some ⟨rec.hash, blk, j⟩ }
          debits := s.debits.insert ⟨rec.hash, blk, j⟩ ⟨(baseCredit s ⟨inp.hash, b0, inp.index⟩).amount, ⟨inp.hash, b0, inp.index⟩⟩
          unspent := s.unspent.erase inp },
       bal - (baseCredit s ⟨inp.hash, b0, inp.index⟩).amount) := by
  unfold spendInput spendCredit baseCredit; simp only [h]

structure SpendSpec (rec : Tx) (blk : Block) (l : List (Nat × OutPoint)) (s r : Store) : Prop where
  blocks : r.blocks = s.blocks
  txrecs : r.txrecs = s.txrecs
  unmined : r.unmined = s.unmined
  uc : r.unminedCredits = s.unminedCredits
  ui : r.unminedInputs = s.unminedInputs
  locked : r.locked = s.locked
  credHit : ∀ p ∈ l, ∀ b0, s.unspent.find? p.2 = some b0 →
    r.credits.find? ⟨p.2.hash, b0, p.2.index⟩ =
      some { baseCredit s ⟨p.2.hash, b0, p.2.index⟩ with spent := true, spender := some ⟨rec.hash, blk, p.1⟩ }
  credMiss : ∀ k, (∀ p ∈ l, s.unspent.find? p.2 ≠ some k.block ∨ p.2 ≠ k.outPoint) →
    r.credits.find? k = s.credits.find? k
  debHit : ∀ p ∈ l, ∀ b0, s.unspent.find? p.2 = some b0 →
    r.debits.find? ⟨rec.hash, blk, p.1⟩ =
      some ⟨(baseCredit s ⟨p.2.hash, b0, p.2.index⟩).amount, ⟨p.2.hash, b0, p.2.index⟩⟩
  debMiss : ∀ dk, (∀ p ∈ l, s.unspent.find? p.2 = none ∨ dk ≠ ⟨rec.hash, blk, p.1⟩) →
    r.debits.find? dk = s.debits.find? dk
  nodupDeb : NodupKeys s.debits → NodupKeys r.debits

theorem spendSpec_fold (rec : Tx) (blk : Block) : ∀ (l : List (Nat × OutPoint)) (s : Store) (bal : Int),
    (l.map (·.2)).Nodup → (l.map (·.1)).Nodup →
    SpendSpec rec blk l s (l.foldl (spendInput rec blk) (s, bal)).1 := by
  intro l
  induction l with
  | nil =>
    intro s bal _ _
    refine ⟨rfl, rfl, rfl, rfl, rfl, rfl, ?_, fun _ _ => rfl, ?_, fun _ _ => rfl, fun h => h⟩
    · intro p hp; cases hp
    · intro p hp; cases hp
  | cons a rest ih =>
    intro s bal hn2 hn1
    obtain ⟨j, inp⟩ := a
    rw [List.map_cons, List.nodup_cons] at hn2 hn1
    rw [List.foldl_cons]
    cases hu : s.unspent.find? inp with
    | none =>
      rw [spendInput_none hu]
      have ih' := ih s bal hn2.2 hn1.2
      refine ⟨ih'.blocks, ih'.txrecs, ih'.unmined, ih'.uc, ih'.ui, ih'.locked, ?_, ?_, ?_, ?_, ih'.nodupDeb⟩
      · intro p hp b0 hb
        rcases List.mem_cons.mp hp with rfl | hp'
        · simp only at hb; rw [hu] at hb; cases hb
        · exact ih'.credHit p hp' b0 hb
      · intro k hk
        exact ih'.credMiss k (fun p hp => hk p (List.mem_cons_of_mem _ hp))
      · intro p hp b0 hb
        rcases List.mem_cons.mp hp with rfl | hp'
        · simp only at hb; rw [hu] at hb; cases hb
        · exact ih'.debHit p hp' b0 hb
      · intro dk hk
        exact ih'.debMiss dk (fun p hp => hk p (List.mem_cons_of_mem _ hp))
    | some b0 =>
      rw [spendInput_some hu]
      generalize hs' : ({ s with
          credits := s.credits.insert ⟨inp.hash, b0, inp.index⟩
            { baseCredit s ⟨inp.hash, b0, inp.index⟩ with spent := true, spender := some ⟨rec.hash, blk, j⟩ }
          debits := s.debits.insert ⟨rec.hash, blk, j⟩ ⟨(baseCredit s ⟨inp.hash, b0, inp.index⟩).amount, ⟨inp.hash, b0, inp.index⟩⟩
          unspent := s.unspent.erase inp } : Store) = s'
      have ih' := ih s' (bal - (baseCredit s ⟨inp.hash, b0, inp.index⟩).amount) hn2.2 hn1.2
      have hne : ∀ p ∈ rest, p.2 ≠ inp := by
        intro p hp e; exact hn2.1 (List.mem_map.mpr ⟨p, hp, e⟩)
      have hnj : ∀ p ∈ rest, p.1 ≠ j := by
        intro p hp e; exact hn1.1 (List.mem_map.mpr ⟨p, hp, e⟩)
      have hun : ∀ p ∈ rest, s'.unspent.find? p.2 = s.unspent.find? p.2 := by
        intro p hp; rw [← hs']; exact find?_erase_ne _ (fun e => hne p hp e.symm)
      have hcr : ∀ k : CredKey, k ≠ ⟨inp.hash, b0, inp.index⟩ → s'.credits.find? k = s.credits.find? k := by
        intro k hk; rw [← hs']; exact find?_insert_ne _ _ (fun e => hk e.symm)
      have hcr0 : s'.credits.find? ⟨inp.hash, b0, inp.index⟩ =
          some { baseCredit s ⟨inp.hash, b0, inp.index⟩ with spent := true, spender := some ⟨rec.hash, blk, j⟩ } := by
        rw [← hs']; simp [find?_insert]
      have hdb : ∀ dk : CredKey, dk ≠ ⟨rec.hash, blk, j⟩ → s'.debits.find? dk = s.debits.find? dk := by
        intro k hk; rw [← hs']; exact find?_insert_ne _ _ (fun e => hk e.symm)
      have hdb0 : s'.debits.find? ⟨rec.hash, blk, j⟩ =
          some ⟨(baseCredit s ⟨inp.hash, b0, inp.index⟩).amount, ⟨inp.hash, b0, inp.index⟩⟩ := by
        rw [← hs']; simp [find?_insert]
      have hkne : ∀ p ∈ rest, ∀ b, (⟨p.2.hash, b, p.2.index⟩ : CredKey) ≠ ⟨inp.hash, b0, inp.index⟩ := by
        intro p hp b e
        apply hne p hp
        injection e with e1 _ e3
        cases hp2 : p.2; cases inp; simp_all
      have hbase : ∀ p ∈ rest, ∀ b, baseCredit s' ⟨p.2.hash, b, p.2.index⟩ = baseCredit s ⟨p.2.hash, b, p.2.index⟩ := by
        intro p hp b; unfold baseCredit; rw [hcr _ (hkne p hp b)]
      refine ⟨by rw [ih'.blocks, ← hs'], by rw [ih'.txrecs, ← hs'], by rw [ih'.unmined, ← hs'], by rw [ih'.uc, ← hs'],
        by rw [ih'.ui, ← hs'], by rw [ih'.locked, ← hs'], ?_, ?_, ?_, ?_, ?_⟩
      · intro p hp b hb
        rcases List.mem_cons.mp hp with rfl | hp'
        · simp only at hb ⊢
          rw [hu] at hb; cases hb
          rw [ih'.credMiss _ (fun q hq => Or.inr (fun e => hne q hq (e.trans (by cases inp; rfl)))), hcr0]
        · rw [ih'.credHit p hp' b (by rw [hun p hp']; exact hb), hbase p hp' b]
      · intro k hk
        have hk0 : k ≠ ⟨inp.hash, b0, inp.index⟩ := by
          rintro rfl
          rcases hk (j, inp) List.mem_cons_self with h | h
          · exact h hu
          · exact h rfl
        rw [ih'.credMiss k (fun p hp => by rw [hun p hp]; exact hk p (List.mem_cons_of_mem _ hp)), hcr k hk0]
      · intro p hp b hb
        rcases List.mem_cons.mp hp with rfl | hp'
        · simp only at hb ⊢
          rw [hu] at hb; cases hb
          rw [ih'.debMiss _ (fun q hq => Or.inr (by
            intro e; injection e with _ _ e3; exact hnj q hq e3.symm)), hdb0]
        · rw [ih'.debHit p hp' b (by rw [hun p hp']; exact hb), hbase p hp' b]
      · intro dk hk
        have hk0 : dk ≠ ⟨rec.hash, blk, j⟩ := by
          rcases hk (j, inp) List.mem_cons_self with h | h
          · simp only at h; rw [hu] at h; cases h
          · exact h
        rw [ih'.debMiss dk (fun p hp => by rw [hun p hp]; exact hk p (List.mem_cons_of_mem _ hp)), hdb dk hk0]
      · intro hnd
        apply ih'.nodupDeb
        rw [← hs']
        exact nodupKeys_insert _ _ _ hnd

/-! ### what the move loop writes -/

structure MoveSpec (rec : Tx) (blk : Block) (l : List (OutPoint × UCredit)) (s r : Store) : Prop where
  blocks : r.blocks = s.blocks
  txrecs : r.txrecs = s.txrecs
  unmined : r.unmined = s.unmined
  uc : r.unminedCredits = s.unminedCredits
  ui : r.unminedInputs = s.unminedInputs
  locked : r.locked = s.locked
  debits : r.debits = s.debits
  credHit : ∀ p ∈ l, r.credits.find? ⟨rec.hash, blk, p.1.index⟩ = some ⟨p.2.amount, p.2.change, false, none⟩
  credMiss : ∀ k, (∀ p ∈ l, k ≠ ⟨rec.hash, blk, p.1.index⟩) → r.credits.find? k = s.credits.find? k

theorem moveSpec_fold (rec : Tx) (blk : Block) : ∀ (l : List (OutPoint × UCredit)) (s : Store) (bal : Int),
    (l.map (·.1.index)).Nodup → MoveSpec rec blk l s (l.foldl (moveCredit rec blk) (s, bal)).1 := by
  intro l
  induction l with
  | nil =>
    intro s bal _
    refine ⟨rfl, rfl, rfl, rfl, rfl, rfl, rfl, ?_, fun _ _ => rfl⟩
    intro p hp; cases hp
  | cons a rest ih =>
    intro s bal hn
    obtain ⟨op, uc⟩ := a
    rw [List.map_cons, List.nodup_cons] at hn
    rw [List.foldl_cons]
    have hstep : moveCredit rec blk (s, bal) (op, uc) =
        (({ s with
            credits := s.credits.insert ⟨rec.hash, blk, op.index⟩ ⟨uc.amount, uc.change, false, none⟩
            unspent := s.unspent.insert ⟨rec.hash, op.index⟩ blk } : Store), bal + uc.amount) := rfl
    rw [hstep]
    generalize hs' : ({ s with
            credits := s.credits.insert ⟨rec.hash, blk, op.index⟩ ⟨uc.amount, uc.change, false, none⟩
            unspent := s.unspent.insert ⟨rec.hash, op.index⟩ blk } : Store) = s'
    have ih' := ih s' (bal + uc.amount) hn.2
    have hni : ∀ p ∈ rest, p.1.index ≠ op.index := by
      intro p hp e; exact hn.1 (List.mem_map.mpr ⟨p, hp, e⟩)
    refine ⟨by rw [ih'.blocks, ← hs'], by rw [ih'.txrecs, ← hs'], by rw [ih'.unmined, ← hs'], by rw [ih'.uc, ← hs'],
      by rw [ih'.ui, ← hs'], by rw [ih'.locked, ← hs'], by rw [ih'.debits, ← hs'], ?_, ?_⟩
    · intro p hp
      rcases List.mem_cons.mp hp with rfl | hp'
      · simp only
        rw [ih'.credMiss _ (fun q hq => by
          intro e; injection e with _ _ e3; exact hni q hq e3.symm), ← hs']
        simp
      · exact ih'.credHit p hp'
    · intro k hk
      rw [ih'.credMiss k (fun p hp => hk p (List.mem_cons_of_mem _ hp)), ← hs']
      exact find?_insert_ne _ _ (fun e => hk (op, uc) List.mem_cons_self e.symm)

/-! ### what `deleteUnminedTx` writes -/

theorem foldl_eraseUC_eq (h : Nat) : ∀ (l : List (Nat × Int)) (a : Store),
    l.foldl (fun s (p : Nat × Int) => { s with unminedCredits := s.unminedCredits.erase ⟨h, p.1⟩ }) a =
      { a with unminedCredits :=
        (l.foldl (fun s (p : Nat × Int) => { s with unminedCredits := s.unminedCredits.erase ⟨h, p.1⟩ }) a).unminedCredits } := by
  intro l
  induction l with
  | nil => intro a; rfl
  | cons x t ih => intro a; rw [List.foldl_cons, ih]

theorem find?_foldl_eraseUC (h : Nat) (op : OutPoint) : ∀ (l : List (Nat × Int)) (a : Store),
    (l.foldl (fun s (p : Nat × Int) => { s with unminedCredits := s.unminedCredits.erase ⟨h, p.1⟩ }) a).unminedCredits.find? op =
      if op.hash = h ∧ op.index ∈ l.map (·.1) then none else a.unminedCredits.find? op := by
  intro l
  induction l with
  | nil => intro a; simp
  | cons x t ih =>
    intro a
    rw [List.foldl_cons, ih]
    simp only [List.map_cons, List.mem_cons, find?_erase]
    by_cases e : (⟨h, x.1⟩ : OutPoint) = op
    · subst e; simp
    · simp only [e, if_false]
      have : ¬ (op.hash = h ∧ op.index = x.1) := by
        rintro ⟨e1, e2⟩; apply e; cases op; simp_all
      by_cases e2 : op.hash = h ∧ op.index ∈ t.map (·.1)
      · have : op.hash = h ∧ (op.index = x.1 ∨ op.index ∈ t.map (·.1)) := ⟨e2.1, Or.inr e2.2⟩
        rw [if_pos e2, if_pos this]
      · have : ¬ (op.hash = h ∧ (op.index = x.1 ∨ op.index ∈ t.map (·.1))) := by
          rintro ⟨e1, e3 | e3⟩
          · exact this ⟨e1, e3⟩
          · exact e2 ⟨e1, e3⟩
        rw [if_neg e2, if_neg this]

theorem withIdx_map_fst {α : Type} : ∀ (l : List α) (n : Nat) (i : Nat),
    i ∈ (withIdx l n).map (·.1) ↔ n ≤ i ∧ i < n + l.length := by
  intro l
  induction l with
  | nil => intro n i; simp [withIdx]
  | cons a t ih =>
    intro n i
    simp only [withIdx, List.map_cons, List.mem_cons, ih, List.length_cons]
    omega

/-- the buckets after `deleteUnminedTx` -/
theorem deleteUnminedTx_spec (s : Store) (rec : Tx) : ∀ r, r = deleteUnminedTx s rec →
    r.blocks = s.blocks ∧ r.txrecs = s.txrecs ∧ r.credits = s.credits ∧ r.debits = s.debits ∧ r.locked = s.locked ∧
    r.unmined = s.unmined.erase rec.hash ∧
    (∀ op, r.unminedCredits.find? op =
      if op.hash = rec.hash ∧ op.index < rec.outs.length then none else s.unminedCredits.find? op) ∧
    (∀ op x, x ∈ spendHashes r op ↔ x ∈ spendHashes s op ∧ (op ∈ rec.ins → x ≠ rec.hash)) ∧
    (InputsNE s → InputsNE r) := by
  have e : deleteUnminedTx s rec =
      { (rec.ins.foldl (fun s inp => deleteRawUnminedInput s inp rec.hash) s) with
        unminedCredits := ((withIdx rec.outs).foldl (fun s (p : Nat × Int) =>
          { s with unminedCredits := s.unminedCredits.erase ⟨rec.hash, p.1⟩ })
          (rec.ins.foldl (fun s inp => deleteRawUnminedInput s inp rec.hash) s)).unminedCredits,
        unmined := (rec.ins.foldl (fun s inp => deleteRawUnminedInput s inp rec.hash) s).unmined.erase rec.hash } := by
    unfold deleteUnminedTx
    have : (fun (s : Store) (x : Nat × Int) => match x with
        | (i, _) => ({ s with unminedCredits := s.unminedCredits.erase ⟨rec.hash, i⟩ } : Store)) =
        (fun (s : Store) (p : Nat × Int) => ({ s with unminedCredits := s.unminedCredits.erase ⟨rec.hash, p.1⟩ } : Store)) := by
      funext s x; cases x; rfl
    simp only [this]
    rw [foldl_eraseUC_eq]
  intro r hr
  rw [hr, e, foldl_del_eq]
  refine ⟨rfl, rfl, rfl, rfl, rfl, rfl, ?_, ?_, ?_⟩
  · intro op
    show (((withIdx rec.outs).foldl (fun s (p : Nat × Int) =>
          ({ s with unminedCredits := s.unminedCredits.erase ⟨rec.hash, p.1⟩ } : Store)) _).unminedCredits).find? op = _
    rw [find?_foldl_eraseUC]
    have : op.index ∈ (withIdx rec.outs).map (·.1) ↔ op.index < rec.outs.length := by
      rw [withIdx_map_fst]; omega
    simp only [this]
  · intro op x
    exact mem_spendHashes_foldl_del rec.hash op x rec.ins s
  · intro h
    exact inputsNE_foldl_del rec.hash rec.ins s h

/-! ### the store after record + spend loop + move loop -/

theorem withIdx_map_snd {α : Type} : ∀ (l : List α) (n : Nat), (withIdx l n).map (·.2) = l := by
  intro l
  induction l with
  | nil => intro n; rfl
  | cons a t ih => intro n; simp [withIdx, ih]

theorem withIdx_fst_nodup {α : Type} : ∀ (l : List α) (n : Nat), ((withIdx l n).map (·.1)).Nodup := by
  intro l
  induction l with
  | nil => intro n; simp [withIdx]
  | cons a t ih =>
    intro n
    simp only [withIdx, List.map_cons, List.nodup_cons]
    refine ⟨?_, ih (n + 1)⟩
    intro h
    have := (withIdx_map_fst t (n + 1) n).mp h
    omega

structure CoreMid (s : Store) (t : Tx) (bm : BlockMeta) (m : Store) : Prop where
  blocks : m.blocks = s.blocks.insert bm.block.height (newBlockRec s t bm)
  txrecs : m.txrecs = s.txrecs.insert ⟨t.hash, bm.block⟩ t
  locked : m.locked = s.locked
  unmined : m.unmined = s.unmined
  uc : m.unminedCredits = s.unminedCredits
  ui : m.unminedInputs = s.unminedInputs
  credMove : ∀ op uc, s.unminedCredits.find? op = some uc → op.hash = t.hash →
    m.credits.find? ⟨t.hash, bm.block, op.index⟩ = some ⟨uc.amount, uc.change, false, none⟩
  credSpend : ∀ (j : Nat) (inp : OutPoint) b0, t.ins[j]? = some inp → s.unspent.find? inp = some b0 → inp.hash ≠ t.hash →
    m.credits.find? ⟨inp.hash, b0, inp.index⟩ =
      some { baseCredit s ⟨inp.hash, b0, inp.index⟩ with spent := true, spender := some ⟨t.hash, bm.block, j⟩ }
  credMiss : ∀ k : CredKey,
    (∀ op uc, s.unminedCredits.find? op = some uc → op.hash = t.hash → k ≠ ⟨t.hash, bm.block, op.index⟩) →
    (∀ (j : Nat) (inp : OutPoint), t.ins[j]? = some inp → s.unspent.find? inp ≠ some k.block ∨ inp ≠ k.outPoint) →
    m.credits.find? k = s.credits.find? k
  debHit : ∀ (j : Nat) (inp : OutPoint) b0, t.ins[j]? = some inp → s.unspent.find? inp = some b0 →
    m.debits.find? ⟨t.hash, bm.block, j⟩ =
      some ⟨(baseCredit s ⟨inp.hash, b0, inp.index⟩).amount, ⟨inp.hash, b0, inp.index⟩⟩
  debMiss : ∀ dk : CredKey, (∀ (j : Nat) (inp : OutPoint), t.ins[j]? = some inp → s.unspent.find? inp = none ∨ dk ≠ ⟨t.hash, bm.block, j⟩) →
    m.debits.find? dk = s.debits.find? dk
  nodupDeb : NodupKeys s.debits → NodupKeys m.debits

theorem coreMid_updateMinedBalance (s : Store) (t : Tx) (bm : BlockMeta) (hins : t.ins.Nodup)
    (hnd : NodupKeys s.unminedCredits) :
    CoreMid s t bm (updateMinedBalance (recordTx s t bm) t bm.block) := by
  rw [updateMinedBalance_eq]
  have hsp := spendSpec_fold t bm.block (withIdx t.ins) (recordTx s t bm) (recordTx s t bm).minedBalance
    (by rw [withIdx_map_snd]; exact hins) (withIdx_fst_nodup _ _)
  generalize (withIdx t.ins).foldl (spendInput t bm.block) (recordTx s t bm, (recordTx s t bm).minedBalance) = a at hsp ⊢
  obtain ⟨sA, balA⟩ := a
  simp only at hsp ⊢
  have hucA : sA.unminedCredits = s.unminedCredits := by rw [hsp.uc, recordTx_fields]
  have hmvnd : ((unminedCreditsOf sA t.hash).map (·.1.index)).Nodup := by
    unfold unminedCreditsOf; rw [hucA]; exact nodup_indices_of_same_hash _ hnd t.hash
  have hmv := moveSpec_fold t bm.block (unminedCreditsOf sA t.hash) sA balA hmvnd
  generalize (unminedCreditsOf sA t.hash).foldl (moveCredit t bm.block) (sA, balA) = b at hmv ⊢
  obtain ⟨sB, balB⟩ := b
  simp only at hmv ⊢
  have hmem : ∀ p, p ∈ unminedCreditsOf sA t.hash ↔ s.unminedCredits.find? p.1 = some p.2 ∧ p.1.hash = t.hash := by
    intro p
    unfold unminedCreditsOf
    rw [List.mem_filter, hucA]
    constructor
    · rintro ⟨h1, h2⟩; exact ⟨find?_of_mem _ hnd h1, by simpa using h2⟩
    · rintro ⟨h1, h2⟩; exact ⟨mem_of_find? _ h1, by simpa using h2⟩
  have hRu : (recordTx s t bm).unspent = s.unspent := by rw [recordTx_fields]
  have hRc : (recordTx s t bm).credits = s.credits := by rw [recordTx_fields]
  have hRd : (recordTx s t bm).debits = s.debits := by rw [recordTx_fields]
  have hbase : ∀ k, baseCredit (recordTx s t bm) k = baseCredit s k := by intro k; unfold baseCredit; rw [hRc]
  have hfinal : CoreMid s t bm sB := by
    refine ⟨by rw [hmv.blocks, hsp.blocks, recordTx_fields], by rw [hmv.txrecs, hsp.txrecs, recordTx_fields],
      by rw [hmv.locked, hsp.locked, recordTx_fields], by rw [hmv.unmined, hsp.unmined, recordTx_fields],
      by rw [hmv.uc, hucA], by rw [hmv.ui, hsp.ui, recordTx_fields], ?_, ?_, ?_, ?_, ?_, ?_⟩
    · intro op uc hf hh
      exact hmv.credHit (op, uc) ((hmem (op, uc)).mpr ⟨hf, hh⟩)
    · intro j inp b0 hj hu hne
      rw [hmv.credMiss _ (fun p _ => by intro e; injection e with e1 _ _; exact hne e1)]
      have := hsp.credHit (j, inp) ((mem_withIdx0 _ _ _).mpr hj) b0 (by rw [hRu]; exact hu)
      rw [this, hbase]
    · intro k h1 h2
      rw [hmv.credMiss k (fun p hp => by
        obtain ⟨hf, hh⟩ := (hmem p).mp hp
        exact h1 p.1 p.2 hf hh)]
      rw [hsp.credMiss k (fun p hp => by
        obtain ⟨j, inp⟩ := p
        have := h2 j inp ((mem_withIdx0 _ _ _).mp hp)
        rw [hRu]; exact this), hRc]
    · intro j inp b0 hj hu
      rw [hmv.debits]
      have := hsp.debHit (j, inp) ((mem_withIdx0 _ _ _).mpr hj) b0 (by rw [hRu]; exact hu)
      rw [this, hbase]
    · intro dk h
      rw [hmv.debits, hsp.debMiss dk (fun p hp => by
        obtain ⟨j, inp⟩ := p
        have := h j inp ((mem_withIdx0 _ _ _).mp hp)
        rw [hRu]; exact this), hRd]
    · intro hn
      rw [hmv.debits]
      exact hsp.nodupDeb (by rw [hRd]; exact hn)
  split
  · exact ⟨hfinal.blocks, hfinal.txrecs, hfinal.locked, hfinal.unmined, hfinal.uc, hfinal.ui, hfinal.credMove,
      hfinal.credSpend, hfinal.credMiss, hfinal.debHit, hfinal.debMiss, hfinal.nodupDeb⟩
  · exact hfinal

/-! ### preconditions of `insertMinedTx` from the ledger -/

theorem mem_blocks_of_refines {s : Store} {L : Ledger} (hr : Refines s L) {h : Nat} {br : BlockRec}
    (hf : s.blocks.find? h = some br) : ∃ lb ∈ L.chain, lb.bm.block.height = h ∧ br = (blockEntry lb).2 := by
  have := mem_of_find? _ hf
  rw [hr.blocks] at this
  obtain ⟨lb, hlb, e⟩ := List.mem_map.mp this
  refine ⟨lb, hlb, ?_, ?_⟩
  · have := congrArg Prod.fst e; exact this
  · have := congrArg Prod.snd e; exact this.symm

theorem confirmPre2_of {s : Store} {L : Ledger} (hg : Good s L) {bm : BlockMeta} {t : Tx} {cr : List (Nat × Bool)}
    (hf : ConfFacts L bm t cr) : ConfirmPre2 s t bm := by
  refine ⟨⟨?_, ?_, ?_⟩, ?_, hf.bound⟩
  · intro k hk
    cases hv : s.txrecs.find? k with
    | none => rw [hv] at hk; cases hk
    | some v =>
      obtain ⟨b, hm, rfl⟩ := (hg.ref.txrecs_iff k v).mp hv
      exact hf.notMined _ hm
  · intro br hbr
    obtain ⟨lb, hlb, h1, h2⟩ := mem_blocks_of_refines hg.ref hbr
    have := hf.sameHeight lb hlb h1
    rw [h2]; simp [blockEntry, this]
  · intro op uc hfu hh
    obtain ⟨u, hu, e1, e2, _⟩ := (hg.ref.ucredits_iff op uc).mp hfu
    have : u = t := hf.sameTx u hu (by rw [← e1, hh])
    rw [← this]; exact e2
  · intro inp blk0 hu hin
    obtain ⟨cv, hcv, _⟩ := (hg.wf2.wf.index inp blk0).mp hu
    obtain ⟨x, b, hm, e1, e2, _⟩ := (hg.ref.credits_iff _ _).mp hcv
    have := hf.parentsBelow _ hm inp hin e1
    simp only at e2
    rw [e2]; exact this

/-! ### the confirmed spender after `t` joined the chain -/

theorem spenderOf_toChain_in {L : Ledger} (hl : LWF L) {bm : BlockMeta} {t : Tx} {cr : List (Nat × Bool)}
    (hf : ConfFacts L bm t cr) {j : Nat} {op : OutPoint} (hj : t.ins[j]? = some op) :
    spenderOf (toChain L bm t) op = some ⟨t.hash, bm.block, j⟩ := by
  rw [spenderOf_eq_some_iff (lwf_toChain hl hf).noDouble]
  exact ⟨(t, bm), (mem_chainTxs_toChain hf.sameHeight _).mpr (Or.inr rfl), j, hj, rfl⟩

theorem spenderOf_toChain_out {L : Ledger} (hl : LWF L) {bm : BlockMeta} {t : Tx} {cr : List (Nat × Bool)}
    (hf : ConfFacts L bm t cr) {op : OutPoint} (hop : op ∉ t.ins) :
    spenderOf (toChain L bm t) op = spenderOf L op := by
  cases hs : spenderOf L op with
  | none =>
    rw [spenderOf_eq_none_iff] at hs ⊢
    intro p hp
    rcases (mem_chainTxs_toChain hf.sameHeight p).mp hp with h | rfl
    · exact hs p h
    · exact hop
  | some dk =>
    rw [spenderOf_eq_some_iff hl.noDouble] at hs
    rw [spenderOf_eq_some_iff (lwf_toChain hl hf).noDouble]
    obtain ⟨p, hp, j, hj, e⟩ := hs
    exact ⟨p, (mem_chainTxs_toChain hf.sameHeight p).mpr (Or.inl hp), j, hj, e⟩

theorem spenderOf_input_none {L : Ledger} {bm : BlockMeta} {t : Tx} {cr : List (Nat × Bool)}
    (hf : ConfFacts L bm t cr) {op : OutPoint} (hop : op ∈ t.ins) : spenderOf L op = none := by
  rw [spenderOf_eq_none_iff]
  intro p hp hin
  exact hf.noDouble p hp op hin hop

/-- nobody in the new chain spends an output of `t` -/
theorem spenderOf_own_none {L : Ledger} (hl : LWF L) {bm : BlockMeta} {t : Tx} {cr : List (Nat × Bool)}
    (hf : ConfFacts L bm t cr) (i : Nat) : spenderOf (toChain L bm t) ⟨t.hash, i⟩ = none := by
  rw [spenderOf_eq_none_iff]
  intro p hp hin
  rcases (mem_chainTxs_toChain hf.sameHeight p).mp hp with h | rfl
  · -- a confirmed transaction spending an output of t: t would be known, hence unconfirmed, hence its child unconfirmed
    by_cases hk : ∃ q ∈ known L, q.1.hash = t.hash
    · obtain ⟨q, hq, e⟩ := hk
      obtain ⟨b, hb, _⟩ := hl.parents p h _ hin q hq e
      obtain ⟨x, ob⟩ := q
      rcases mem_known.mp hq with ⟨b', rfl, hm⟩ | ⟨rfl, _⟩
      · exact hf.notMined _ hm e
      · cases hb
    · exact hf.freshNoChild (fun q hq e => hk ⟨q, hq, e⟩) _ (known_of_mined h) _ hin rfl
  · exact hf.noSelf _ hin rfl

/-! ### the store after the core of `insertMinedTx`, on a good pair -/

structure CoreFinal (s : Store) (t : Tx) (bm : BlockMeta) (c : Store) : Prop where
  mid : ∃ m, CoreMid s t bm m ∧ c.blocks = m.blocks ∧ c.txrecs = m.txrecs ∧ c.credits = m.credits ∧
    c.debits = m.debits ∧ c.locked = m.locked
  unmined : ∀ h v, c.unmined.find? h = some v ↔ s.unmined.find? h = some v ∧ h ≠ t.hash
  uc : ∀ op, c.unminedCredits.find? op = if op.hash = t.hash then none else s.unminedCredits.find? op
  ui : ∀ op x, x ∈ spendHashes c op ↔ x ∈ spendHashes s op ∧ x ≠ t.hash
  ne : InputsNE c
  nodupUnmined : NodupKeys c.unmined

theorem coreFinal_of {s : Store} {L : Ledger} (hg : Good s L) {bm : BlockMeta} {t : Tx} {cr : List (Nat × Bool)}
    (hf : ConfFacts L bm t cr) : CoreFinal s t bm (confirmCore s t bm) := by
  have hm := coreMid_updateMinedBalance s t bm hf.insNodup hg.wf2.wf.nodupUC
  unfold confirmCore
  generalize updateMinedBalance (recordTx s t bm) t bm.block = m at hm
  simp only
  have hr := hg.ref
  by_cases hpool : t ∈ L.pool
  · -- the transaction was unconfirmed
    have hfind : s.unmined.find? t.hash = some t := (hr.unmined_iff _ _).mpr ⟨hpool, rfl⟩
    have hc : m.unmined.contains t.hash = true := by rw [hm.unmined, contains_eq, hfind]; rfl
    rw [if_pos hc]
    obtain ⟨d1, d2, d3, d4, d5, d6, d7, d8, d9⟩ := deleteUnminedTx_spec m t _ rfl
    refine ⟨⟨m, hm, d1, d2, d3, d4, d5⟩, ?_, ?_, ?_, ?_, ?_⟩
    · intro h v
      rw [d6, hm.unmined, find?_erase]
      by_cases e : t.hash = h
      · subst e; simp
      · simp only [e, if_false]
        constructor
        · intro h1; exact ⟨h1, fun x => e x.symm⟩
        · intro h1; exact h1.1
    · intro op
      rw [d7, hm.uc]
      by_cases e : op.hash = t.hash
      · simp only [e, true_and, if_true]
        by_cases e2 : op.index < t.outs.length
        · simp [e2]
        · simp only [e2, if_false]
          cases hu : s.unminedCredits.find? op with
          | none => rfl
          | some uc =>
            obtain ⟨u, hu', h1, h2, _⟩ := (hr.ucredits_iff op uc).mp hu
            have : u = t := hf.sameTx u hu' (by rw [← h1, e])
            subst this
            exact absurd (List.getElem?_eq_some_iff.mp h2).1 e2
      · simp [e]
    · intro op x
      rw [d8]
      have : spendHashes m op = spendHashes s op := by unfold spendHashes; rw [hm.ui]
      rw [this]
      constructor
      · rintro ⟨h1, h2⟩
        refine ⟨h1, ?_⟩
        rintro rfl
        obtain ⟨u, hu, h3, h4⟩ := mem_poolSpenders.mp ((hr.uinputs _ _).mp h1)
        have : u = t := hf.sameTx u hu h4
        subst this
        exact h2 h3 rfl
      · rintro ⟨h1, h2⟩; exact ⟨h1, fun _ => h2⟩
    · apply d9
      intro op; rw [hm.ui]; exact hr.uinputsNE op
    · rw [d6, hm.unmined]; exact nodupKeys_erase _ _ hr.nodupUnmined
  · -- the transaction is new
    have hnp : ∀ u ∈ L.pool, u.hash ≠ t.hash := by
      intro u hu e; exact hpool (hf.sameTx u hu e ▸ hu)
    have hfind : s.unmined.find? t.hash = none := by
      cases hfu : s.unmined.find? t.hash with
      | none => rfl
      | some v =>
        obtain ⟨h1, h2⟩ := (hr.unmined_iff _ _).mp hfu
        exact absurd h2.symm (hnp v h1)
    have hc : m.unmined.contains t.hash = false := by rw [hm.unmined, contains_eq, hfind]; rfl
    rw [hc]
    simp only [Bool.false_eq_true, if_false]
    refine ⟨⟨m, hm, rfl, rfl, rfl, rfl, rfl⟩, ?_, ?_, ?_, ?_, ?_⟩
    · intro h v
      rw [hm.unmined]
      constructor
      · intro h1
        refine ⟨h1, ?_⟩
        rintro rfl; rw [hfind] at h1; cases h1
      · intro h1; exact h1.1
    · intro op
      rw [hm.uc]
      by_cases e : op.hash = t.hash
      · simp only [e, if_true]
        cases hu : s.unminedCredits.find? op with
        | none => rfl
        | some uc =>
          obtain ⟨u, hu', h1, _, _⟩ := (hr.ucredits_iff op uc).mp hu
          exact absurd (by rw [← h1, e]) (hnp u hu')
      · simp [e]
    · intro op x
      have : spendHashes m op = spendHashes s op := by unfold spendHashes; rw [hm.ui]
      rw [this]
      constructor
      · intro h1
        refine ⟨h1, ?_⟩
        rintro rfl
        obtain ⟨u, hu, _, h4⟩ := mem_poolSpenders.mp ((hr.uinputs _ _).mp h1)
        exact hnp u hu h4
      · intro h1; exact h1.1
    · intro op; rw [hm.ui]; exact hr.uinputsNE op
    · rw [hm.unmined]; exact hr.nodupUnmined

/-! ### the core of `insertMinedTx` refines "`t` joins the chain" -/

theorem credKey_eta (k : CredKey) : (⟨k.outPoint.hash, k.block, k.outPoint.index⟩ : CredKey) = k := by cases k; rfl

theorem refines_confirmCore {s : Store} {L : Ledger} (hg : Good s L) {bm : BlockMeta} {t : Tx} {cr : List (Nat × Bool)}
    (hf : ConfFacts L bm t cr) : Refines (confirmCore s t bm) (toChain L bm t) := by
  have hr := hg.ref
  have hl := hg.lwf
  have hw := hg.wf2
  obtain ⟨⟨m, hm, cb, ct, cc, cd, clk⟩, cu, cuc, cui, cne, cnu⟩ := coreFinal_of hg hf
  generalize confirmCore s t bm = c at cb ct cc cd clk cu cuc cui cne cnu ⊢
  have hsh := hf.sameHeight
  have hmemC := fun p => mem_chainTxs_toChain (t := t) hsh p
  have hcredit : (toChain L bm t).credit = L.credit := rfl
  -- the credit of an input of t that sits in the unspent index
  have hunspent : ∀ inp b0, s.unspent.find? inp = some b0 →
      ∃ cv, s.credits.find? ⟨inp.hash, b0, inp.index⟩ = some cv ∧ cv.spent = false ∧
        baseCredit s ⟨inp.hash, b0, inp.index⟩ = cv := by
    intro inp b0 hu
    obtain ⟨cv, h1, h2⟩ := (hw.wf.index inp b0).mp hu
    exact ⟨cv, h1, h2, by unfold baseCredit; rw [h1]; rfl⟩
  -- the unconfirmed credits of t (only if t was unconfirmed)
  have hmove : ∀ op uc, s.unminedCredits.find? op = some uc → op.hash = t.hash →
      t ∈ L.pool ∧ t.outs[op.index]? = some uc.amount ∧ lookup L.credit op = some uc.change := by
    intro op uc hu hh
    obtain ⟨u, hu', h1, h2, h3⟩ := (hr.ucredits_iff op uc).mp hu
    have : u = t := hf.sameTx u hu' (by rw [← h1, hh])
    subst this; exact ⟨hu', h2, h3⟩
  refine ⟨?_, ?_, ?_, ?_, ?_, ?_, ?_, cne, ?_, ?_, cnu, ?_, by rw [clk, hm.locked]; exact hr.nodupLocked⟩
  · -- blocks
    rw [cb, hm.blocks]
    have e : newBlockRec s t bm = blockRecAfter s.blocks bm t := rfl
    rw [e, hr.blocks]
    exact blocks_insert_chain bm t L.chain hl.heights
  · -- txrecs
    intro k v
    rw [ct, hm.txrecs, find?_insert, mem_expTxrecs]
    by_cases e : (⟨t.hash, bm.block⟩ : TxKey) = k
    · subst e
      simp only [if_true, Option.some.injEq]
      constructor
      · rintro rfl; exact ⟨bm, (hmemC _).mpr (Or.inr rfl), rfl⟩
      · rintro ⟨b, hmb, e2⟩
        rcases (hmemC _).mp hmb with h | h
        · injection e2 with e3 _
          exact absurd e3.symm (hf.notMined _ h)
        · cases h; rfl
    · simp only [e, if_false]
      rw [hr.txrecs_iff]
      constructor
      · rintro ⟨b, hmb, e2⟩; exact ⟨b, (hmemC _).mpr (Or.inl hmb), e2⟩
      · rintro ⟨b, hmb, e2⟩
        rcases (hmemC _).mp hmb with h | h
        · exact ⟨b, h, e2⟩
        · cases h; exact absurd e2.symm e
  · -- unmined
    intro h v
    rw [cu, hr.unmined_iff, mem_expUnmined, mem_pool_toChain]
    constructor
    · rintro ⟨⟨h1, h2⟩, h3⟩; exact ⟨⟨h1, by rw [← h2]; exact h3⟩, h2⟩
    · rintro ⟨⟨h1, h2⟩, h3⟩; exact ⟨⟨h1, h3⟩, by rw [h3]; exact h2⟩
  · -- credits
    intro k v
    rw [cc, mem_expCredits]
    simp only [hcredit]
    constructor
    · intro hfk
      by_cases hmv : ∃ op uc, s.unminedCredits.find? op = some uc ∧ op.hash = t.hash ∧ k = ⟨t.hash, bm.block, op.index⟩
      · obtain ⟨op, uc, h1, h2, rfl⟩ := hmv
        rw [hm.credMove op uc h1 h2] at hfk
        cases hfk
        obtain ⟨_, h3, h4⟩ := hmove op uc h1 h2
        have hop : (⟨t.hash, op.index⟩ : OutPoint) = op := by cases op; simp_all
        refine ⟨t, bm, (hmemC _).mpr (Or.inr rfl), rfl, rfl, h3, ?_, ?_, ?_⟩
        · show lookup L.credit ⟨t.hash, op.index⟩ = _; rw [hop]; exact h4
        · show none = spenderOf _ ⟨t.hash, op.index⟩; rw [spenderOf_own_none hl hf]
        · show false = (spenderOf _ ⟨t.hash, op.index⟩).isSome; rw [spenderOf_own_none hl hf]; rfl
      · by_cases hsp : ∃ (j : Nat) (inp : OutPoint), t.ins[j]? = some inp ∧ s.unspent.find? inp = some k.block ∧ inp = k.outPoint
        · obtain ⟨j, inp, h1, h2, h3⟩ := hsp
          have hk : k = ⟨inp.hash, k.block, inp.index⟩ := by rw [h3]; exact (credKey_eta k).symm
          have hne : inp.hash ≠ t.hash := hf.noSelf inp (List.mem_of_getElem? h1)
          obtain ⟨cv, hcv, hsp0, hbase⟩ := hunspent inp k.block h2
          have := hm.credSpend j inp k.block h1 h2 hne
          rw [hbase, ← hk] at this
          rw [this] at hfk
          cases hfk
          rw [← hk] at hcv
          obtain ⟨x, b, hxb, e1, e2, e3, e4, _, _⟩ := (hr.credits_iff k cv).mp hcv
          refine ⟨x, b, (hmemC _).mpr (Or.inl hxb), e1, e2, e3, e4, ?_, ?_⟩
          · show some _ = spenderOf _ k.outPoint
            rw [← h3, spenderOf_toChain_in hl hf h1]
          · show true = (spenderOf _ k.outPoint).isSome
            rw [← h3, spenderOf_toChain_in hl hf h1]; rfl
        · -- untouched record
          have hmiss := hm.credMiss k
            (fun op uc h1 h2 e => hmv ⟨op, uc, h1, h2, e⟩)
            (fun j inp h1 => by
              by_cases e1 : s.unspent.find? inp = some k.block
              · right; intro e2; exact hsp ⟨j, inp, h1, e1, e2⟩
              · left; exact e1)
          rw [hmiss] at hfk
          obtain ⟨x, b, hxb, e1, e2, e3, e4, e5, e6⟩ := (hr.credits_iff k v).mp hfk
          have hnot : k.outPoint ∉ t.ins := by
            intro hin
            have hnone := spenderOf_input_none hf hin
            rw [hnone] at e6
            have hu : s.unspent.find? k.outPoint = some k.block :=
              (hw.wf.index k.outPoint k.block).mpr ⟨v, by rw [credKey_eta]; exact hfk, e6⟩
            obtain ⟨j, hj⟩ := List.getElem?_of_mem hin
            exact hsp ⟨j, k.outPoint, hj, hu, rfl⟩
          refine ⟨x, b, (hmemC _).mpr (Or.inl hxb), e1, e2, e3, e4, ?_, ?_⟩
          · rw [spenderOf_toChain_out hl hf hnot]; exact e5
          · rw [spenderOf_toChain_out hl hf hnot]; exact e6
    · rintro ⟨x, b, hxb, e1, e2, e3, e4, e5, e6⟩
      rcases (hmemC _).mp hxb with hold | hnew
      · -- an old confirmed transaction
        have hkh : k.hash ≠ t.hash := by rw [e1]; exact hf.notMined _ hold
        by_cases hin : k.outPoint ∈ t.ins
        · obtain ⟨j, hj⟩ := List.getElem?_of_mem hin
          have hnone := spenderOf_input_none hf hin
          -- the old record: unspent
          have hold' : s.credits.find? k = some ⟨v.amount, v.change, false, none⟩ :=
            (hr.credits_iff k _).mpr ⟨x, b, hold, e1, e2, e3, e4, by rw [hnone], by rw [hnone]; rfl⟩
          have hu : s.unspent.find? k.outPoint = some k.block :=
            (hw.wf.index k.outPoint k.block).mpr ⟨_, by rw [credKey_eta]; exact hold', rfl⟩
          have hne : k.outPoint.hash ≠ t.hash := hkh
          have := hm.credSpend j k.outPoint k.block hj hu hne
          rw [credKey_eta] at this
          rw [this]
          have hb : baseCredit s k = ⟨v.amount, v.change, false, none⟩ := by unfold baseCredit; rw [hold']; rfl
          rw [hb]
          rw [spenderOf_toChain_in hl hf hj] at e5 e6
          cases v; simp_all
        · rw [spenderOf_toChain_out hl hf hin] at e5 e6
          have hold' : s.credits.find? k = some v := (hr.credits_iff k v).mpr ⟨x, b, hold, e1, e2, e3, e4, e5, e6⟩
          rw [hm.credMiss k (fun op uc _ _ e => hkh (by rw [e])) (fun j inp hj => Or.inr (fun e => hin (e ▸ List.mem_of_getElem? hj)))]
          exact hold'
      · -- t itself
        cases hnew
        have hko : k.outPoint = ⟨t.hash, k.index⟩ := by cases k; simp_all [CredKey.outPoint]
        rw [hko, spenderOf_own_none hl hf] at e5 e6
        rw [hko] at e4
        -- t must have been unconfirmed (a new transaction has no credits yet)
        obtain ⟨p, hp, hpk⟩ := (lookup_isSome_iff L.credit _).mp (by rw [e4]; rfl)
        obtain ⟨q, hq, hqh, _⟩ := hl.creditKnown p hp
        have hqt : q.1.hash = t.hash := by rw [hqh, hpk]
        obtain ⟨qx, qo⟩ := q
        have htp : t ∈ L.pool := by
          rcases mem_known.mp hq with ⟨b', rfl, hmq⟩ | ⟨rfl, hmq⟩
          · exact absurd hqt (hf.notMined _ hmq)
          · exact hf.sameTx qx hmq hqt ▸ hmq
        have huc : s.unminedCredits.find? ⟨t.hash, k.index⟩ = some ⟨v.amount, v.change⟩ :=
          (hr.ucredits_iff _ _).mpr ⟨t, htp, rfl, e3, e4⟩
        have := hm.credMove _ _ huc rfl
        have hk : k = ⟨t.hash, bm.block, k.index⟩ := by
          obtain ⟨kh, kb, ki⟩ := k
          simp only at e1 e2 ⊢
          rw [e1, e2]
        rw [hk, this]
        obtain ⟨a, c, sp, spd⟩ := v
        simp only at e5 e6 ⊢
        rw [e5, e6]; rfl
  · -- debits
    intro dk d
    rw [cd, cc]
    constructor
    · intro hfd
      by_cases hhit : ∃ (j : Nat) (inp : OutPoint) (b0 : Block), t.ins[j]? = some inp ∧ s.unspent.find? inp = some b0 ∧ dk = ⟨t.hash, bm.block, j⟩
      · obtain ⟨j, inp, b0, h1, h2, rfl⟩ := hhit
        rw [hm.debHit j inp b0 h1 h2] at hfd
        cases hfd
        have hne : inp.hash ≠ t.hash := hf.noSelf inp (List.mem_of_getElem? h1)
        exact ⟨_, hm.credSpend j inp b0 h1 h2 hne, rfl, rfl⟩
      · have hmiss := hm.debMiss dk (fun j inp h1 => by
          cases hu : s.unspent.find? inp with
          | none => exact Or.inl rfl
          | some b0 => exact Or.inr (fun e => hhit ⟨j, inp, b0, h1, hu, e⟩))
        rw [hmiss] at hfd
        obtain ⟨cv, h1, h2, h3⟩ := (hr.debits dk d).mp hfd
        refine ⟨cv, ?_, h2, h3⟩
        obtain ⟨x, b, hxb, e1, _, _, _, e5, e6⟩ := (hr.credits_iff _ _).mp h1
        have hsome : cv.spent = true := by rw [e6, ← e5, h2]; rfl
        rw [hm.credMiss d.credKey
          (fun op uc _ _ e => hf.notMined _ hxb (by rw [← e1, e]))
          (fun j inp hj => by
            by_cases e1' : s.unspent.find? inp = some d.credKey.block
            · right
              intro e2
              obtain ⟨cv', h1', h2'⟩ := (hw.wf.index inp d.credKey.block).mp e1'
              rw [e2, credKey_eta, h1] at h1'
              cases h1'
              rw [hsome] at h2'; cases h2'
            · left; exact e1')]
        exact h1
    · rintro ⟨cv, h1, h2, h3⟩
      by_cases hmv : ∃ op uc, s.unminedCredits.find? op = some uc ∧ op.hash = t.hash ∧
          d.credKey = ⟨t.hash, bm.block, op.index⟩
      · obtain ⟨op, uc, h4, h5, h6⟩ := hmv
        rw [h6, hm.credMove op uc h4 h5] at h1
        cases h1; cases h2
      · by_cases hsp : ∃ (j : Nat) (inp : OutPoint), t.ins[j]? = some inp ∧ s.unspent.find? inp = some d.credKey.block ∧
            inp = d.credKey.outPoint
        · obtain ⟨j, inp, h4, h5, h6⟩ := hsp
          have hk : d.credKey = ⟨inp.hash, d.credKey.block, inp.index⟩ := by rw [h6]; exact (credKey_eta _).symm
          have hne : inp.hash ≠ t.hash := hf.noSelf inp (List.mem_of_getElem? h4)
          have hc := hm.credSpend j inp d.credKey.block h4 h5 hne
          rw [← hk, h1] at hc
          cases hc
          simp only [Option.some.injEq] at h2
          rw [← h2, hm.debHit j inp d.credKey.block h4 h5, ← hk]
          obtain ⟨da, dck⟩ := d
          simp only at h3 ⊢
          rw [h3]
        · have hmiss := hm.credMiss d.credKey
            (fun op uc h4 h5 e => hmv ⟨op, uc, h4, h5, e⟩)
            (fun j inp h4 => by
              by_cases e1 : s.unspent.find? inp = some d.credKey.block
              · right; intro e2; exact hsp ⟨j, inp, h4, e1, e2⟩
              · left; exact e1)
          rw [hmiss] at h1
          have hold := (hr.debits dk d).mpr ⟨cv, h1, h2, h3⟩
          rw [hm.debMiss dk (fun j inp _ => by
            right
            rintro rfl
            obtain ⟨⟨⟨rec0, hr0, _⟩, _⟩, _⟩ := hw.deb _ _ hold
            obtain ⟨b, hmb, e⟩ := (hr.txrecs_iff _ _).mp hr0
            have : rec0.hash = t.hash := by
              have := congrArg TxKey.hash e; simpa [CredKey.txKey] using this.symm
            exact hf.notMined _ hmb this)]
          exact hold
  · -- unconfirmed credits
    intro op uc
    rw [cuc, mem_expUnminedCredits]
    simp only [hcredit]
    by_cases e : op.hash = t.hash
    · simp only [e, if_true, reduceCtorEq, false_iff]
      rintro ⟨u, hu, h1, _⟩
      exact (mem_pool_toChain.mp hu).2 h1.symm
    · simp only [e, if_false]
      rw [hr.ucredits_iff]
      constructor
      · rintro ⟨u, hu, h1, h2, h3⟩
        exact ⟨u, mem_pool_toChain.mpr ⟨hu, by rw [← h1]; exact e⟩, h1, h2, h3⟩
      · rintro ⟨u, hu, h1, h2, h3⟩
        exact ⟨u, (mem_pool_toChain.mp hu).1, h1, h2, h3⟩
  · -- unconfirmed inputs
    intro op x
    rw [cui, hr.uinputs, mem_poolSpenders, mem_poolSpenders]
    constructor
    · rintro ⟨⟨u, hu, h1, h2⟩, h3⟩
      exact ⟨u, mem_pool_toChain.mpr ⟨hu, by rw [h2]; exact h3⟩, h1, h2⟩
    · rintro ⟨u, hu, h1, h2⟩
      obtain ⟨hu1, hu2⟩ := mem_pool_toChain.mp hu
      exact ⟨⟨u, hu1, h1, h2⟩, by rw [← h2]; exact hu2⟩
  · -- leases
    intro op; rw [clk, hm.locked]; exact hr.leases op
  · rw [ct, hm.txrecs]; exact nodupKeys_insert _ _ _ hr.nodupTxrecs
  · rw [cd]; exact hm.nodupDeb hr.nodupDebits

end TxStore
