import BtcwVerif.Lemmas.RefConfirm
import BtcwVerif.Lemmas.RefSpenders
/-!
# Refinement, event *confirmed*: conflict removal, lease release, credits, and the assembly
-/
namespace TxStore
open KMap Ledger

/-! ### a confirmed spend ends the leases of the spent outputs -/

def dropLeases (L : Ledger) (t : Tx) : Ledger := { L with leases := L.leases.filter fun p => !t.ins.contains p.1 }

theorem foldl_unlock_eq : ∀ (l : List OutPoint) (a : Store),
    l.foldl unlockOutputRaw a = { a with locked := (l.foldl unlockOutputRaw a).locked } := by
  intro l
  induction l with
  | nil => intro a; rfl
  | cons x t ih => intro a; rw [List.foldl_cons, ih]; rfl

theorem find?_foldl_unlock (op : OutPoint) : ∀ (l : List OutPoint) (a : Store),
    (l.foldl unlockOutputRaw a).locked.find? op = if op ∈ l then none else a.locked.find? op := by
  intro l
  induction l with
  | nil => intro a; simp
  | cons x t ih =>
    intro a
    rw [List.foldl_cons, ih]
    show (if op ∈ t then none else (a.locked.erase x).find? op) = _
    rw [find?_erase]
    by_cases e : x = op
    · subst e; simp
    · have : ¬ op = x := fun h => e h.symm
      simp [e, this]

theorem nodup_foldl_unlock : ∀ (l : List OutPoint) (a : Store), NodupKeys a.locked →
    NodupKeys (l.foldl unlockOutputRaw a).locked := by
  intro l
  induction l with
  | nil => intro a h; exact h
  | cons x t ih => intro a h; exact ih _ (nodupKeys_erase _ _ h)

theorem good_dropLeases {s : Store} {L : Ledger} (hg : Good s L) (t : Tx) :
    Good (t.ins.foldl unlockOutputRaw s) (dropLeases L t) := by
  have hr := hg.ref
  rw [foldl_unlock_eq]
  refine ⟨?_, ?_, ?_⟩
  · exact wf2_of_sameMined (s := s) ⟨rfl, rfl, rfl, rfl, rfl, rfl⟩ hg.wf2.wf.nodupUC hg.wf2
  · have hl := hg.lwf
    exact ⟨hl.heights, hl.hashes, hl.creditKeys, hl.creditKnown, hl.poolNoCb, hl.noDouble, hl.parents, hl.rank,
      hl.validRefs, hl.outsBound, nodup_map_filter _ _ _ hl.leaseKeys⟩
  · refine ⟨hr.blocks, hr.txrecs, hr.unmined, hr.credits, hr.debits, hr.ucredits, hr.uinputs, hr.uinputsNE, ?_,
      hr.nodupTxrecs, hr.nodupUnmined, hr.nodupDebits, nodup_foldl_unlock t.ins s hr.nodupLocked⟩
    intro op
    show ((t.ins.foldl unlockOutputRaw s).locked.find? op).map _ = _
    rw [find?_foldl_unlock]
    show _ = (lookup (L.leases.filter fun p => (fun o => !t.ins.contains o) p.1) op).map _
    rw [lookup_filter_key L.leases (fun o => !t.ins.contains o) op]
    by_cases e : op ∈ t.ins
    · simp [e]
    · simp only [e, if_false, List.contains_eq_mem, decide_false, Bool.not_false, if_true]
      exact hr.leases op

/-! ### crediting an output of a confirmed transaction -/

theorem lwf_addCredit1 {L : Ledger} (hl0 : LWF L) {t : Tx} (c : Nat × Bool) (hk : ∃ ob, (t, ob) ∈ known L) :
    LWF (addCredit1 L t c) := by
  by_cases hcond : (decide (c.1 < t.outs.length) && (lookup L.credit ⟨t.hash, c.1⟩).isNone) = true
  · have hL : (addCredit1 L t c).credit = L.credit ++ [(⟨t.hash, c.1⟩, c.2)] := by
      unfold addCredit1; simp only [hcond, if_true]
    simp only [Bool.and_eq_true, decide_eq_true_eq, Option.isNone_iff_eq_none] at hcond
    refine ⟨hl0.heights, hl0.hashes, ?_, ?_, hl0.poolNoCb, hl0.noDouble, hl0.parents, hl0.rank,
      hl0.validRefs, hl0.outsBound, hl0.leaseKeys⟩
    · rw [hL, List.map_append, List.nodup_append]
      refine ⟨hl0.creditKeys, by simp, ?_⟩
      intro a ha b hb
      simp only [List.map_cons, List.map_nil, List.mem_singleton] at hb
      obtain ⟨p, hp, rfl⟩ := List.mem_map.mp ha
      rw [hb]
      exact (lookup_eq_none_iff L.credit _).mp hcond.2 p hp
    · intro p hp
      rw [hL, List.mem_append, List.mem_singleton] at hp
      rcases hp with hp | rfl
      · exact hl0.creditKnown p hp
      · obtain ⟨ob, hob⟩ := hk
        exact ⟨(t, ob), hob, rfl, hcond.1⟩
  · have hL : addCredit1 L t c = L := by
      unfold addCredit1
      simp only [hcond, Bool.false_eq_true, if_false]
    rw [hL]; exact hl0

theorem good_addCredit_mined {s : Store} {L : Ledger} (hg : Good s L) {t : Tx} {bm : BlockMeta}
    (ht : (t, bm) ∈ chainTxs L) (c : Nat × Bool) (hc : c.1 < t.outs.length)
    (hns : ∀ p ∈ chainTxs L, ∀ i ∈ p.1.ins, i.hash ≠ t.hash) :
    ∃ s1, addCredit s t (some bm) c.1 c.2 = .ok s1 ∧ Good s1 (addCredit1 L t c) := by
  have hr := hg.ref
  have hl := hg.lwf
  obtain ⟨amt, hamt⟩ : ∃ amt, t.outs[c.1]? = some amt := ⟨t.outs[c.1], List.getElem?_eq_getElem hc⟩
  have hrec : s.txrecs.find? ⟨t.hash, bm.block⟩ = some t := (hr.txrecs_iff _ _).mpr ⟨bm, ht, rfl⟩
  have hsp : spenderOf L ⟨t.hash, c.1⟩ = none := by
    rw [spenderOf_eq_none_iff]
    intro p hp hin
    exact hns p hp _ hin rfl
  cases hlk : lookup L.credit ⟨t.hash, c.1⟩ with
  | some chg =>
    have hf : s.credits.find? ⟨t.hash, bm.block, c.1⟩ = some ⟨amt, chg, false, none⟩ :=
      (hr.credits_iff _ _).mpr ⟨t, bm, ht, rfl, rfl, hamt, hlk, by rw [show (⟨t.hash, bm.block, c.1⟩ : CredKey).outPoint = ⟨t.hash, c.1⟩ from rfl, hsp],
        by rw [show (⟨t.hash, bm.block, c.1⟩ : CredKey).outPoint = ⟨t.hash, c.1⟩ from rfl, hsp]; rfl⟩
    have hL : addCredit1 L t c = L := by
      unfold addCredit1; rw [hlk]; simp
    unfold addCredit
    simp only [hamt, contains_eq, hf, Option.isSome_some, if_true, pure_eq]
    rw [hL]
    exact ⟨s, rfl, hg⟩
  | none =>
    have hf : s.credits.find? ⟨t.hash, bm.block, c.1⟩ = none := by
      cases hf : s.credits.find? ⟨t.hash, bm.block, c.1⟩ with
      | none => rfl
      | some cv =>
        obtain ⟨_, _, _, _, _, _, h4, _⟩ := (hr.credits_iff _ _).mp hf
        rw [show (⟨t.hash, bm.block, c.1⟩ : CredKey).outPoint = ⟨t.hash, c.1⟩ from rfl, hlk] at h4; cases h4
    have hstep : addCredit s t (some bm) c.1 c.2 = .ok
        { s with credits := s.credits.insert ⟨t.hash, bm.block, c.1⟩ ⟨amt, c.2, false, none⟩,
                 minedBalance := s.minedBalance + amt,
                 unspent := s.unspent.insert ⟨t.hash, c.1⟩ bm.block } := by
      unfold addCredit
      simp only [hamt, contains_eq, hf, Option.isSome_none, Bool.false_eq_true, if_false, pure_eq]
    refine ⟨_, hstep, ?_⟩
    have hL : (addCredit1 L t c).credit = L.credit ++ [(⟨t.hash, c.1⟩, c.2)] := by
      unfold addCredit1; simp [hlk, hc]
    have hlook : ∀ op, lookup (addCredit1 L t c).credit op =
        (lookup L.credit op).or (if (⟨t.hash, c.1⟩ : OutPoint) = op then some c.2 else none) := by
      intro op; rw [hL, lookup_append_one]
    have hlook_ne : ∀ op : OutPoint, op ≠ ⟨t.hash, c.1⟩ → lookup (addCredit1 L t c).credit op = lookup L.credit op := by
      intro op hne
      rw [hlook]
      have : ¬ (⟨t.hash, c.1⟩ : OutPoint) = op := fun e => hne e.symm
      cases lookup L.credit op <;> simp [this]
    have hlook_eq : lookup (addCredit1 L t c).credit ⟨t.hash, c.1⟩ = some c.2 := by
      rw [hlook, hlk]; simp
    have hspend : ∀ op, spenderOf (addCredit1 L t c) op = spenderOf L op := fun _ => rfl
    have hch : chainTxs (addCredit1 L t c) = chainTxs L := rfl
    refine ⟨wf2_addCredit_mined hg.wf2 hstep hrec, lwf_addCredit1 hl c ⟨_, known_of_mined ht⟩, ?_⟩
    refine ⟨hr.blocks, hr.txrecs, hr.unmined, ?_, ?_, ?_, hr.uinputs, hr.uinputsNE, hr.leases, hr.nodupTxrecs,
      hr.nodupUnmined, hr.nodupDebits, hr.nodupLocked⟩
    · intro k v
      show (s.credits.insert ⟨t.hash, bm.block, c.1⟩ ⟨amt, c.2, false, none⟩).find? k = some v ↔ _
      rw [find?_insert, mem_expCredits]
      simp only [hspend, hch]
      by_cases e : (⟨t.hash, bm.block, c.1⟩ : CredKey) = k
      · subst e
        simp only [if_true, Option.some.injEq]
        have ho : (⟨t.hash, bm.block, c.1⟩ : CredKey).outPoint = ⟨t.hash, c.1⟩ := rfl
        constructor
        · rintro rfl
          exact ⟨t, bm, ht, rfl, rfl, hamt, by rw [ho]; exact hlook_eq, by rw [ho, hsp], by rw [ho, hsp]; rfl⟩
        · rintro ⟨x, b, hxb, e1, e2, e3, e4, e5, e6⟩
          have := hl.mined_unique hxb ht e1.symm
          obtain ⟨rfl, rfl⟩ := this
          rw [ho] at e4 e5 e6
          rw [hlook_eq] at e4
          rw [hsp] at e5 e6
          rw [hamt] at e3
          obtain ⟨a, ch, sp, spd⟩ := v
          simp only [Option.some.injEq] at e3 e4 e5 e6 ⊢
          simp only [Option.isSome_none] at e6
          rw [e3, e4, e5, e6]
      · simp only [e, if_false]
        rw [hr.credits_iff]
        have hkey : ∀ x b, (x, b) ∈ chainTxs L → k.hash = x.hash → k.block = b.block → k.outPoint ≠ ⟨t.hash, c.1⟩ := by
          intro x b hxb e1 e2 e3
          apply e
          have hkh : k.hash = t.hash := by have := congrArg OutPoint.hash e3; exact this
          have := hl.mined_unique hxb ht (by rw [← e1, hkh])
          obtain ⟨rfl, rfl⟩ := this
          have hki : k.index = c.1 := by have := congrArg OutPoint.index e3; exact this
          obtain ⟨kh, kb, ki⟩ := k
          simp only at hkh e2 hki
          rw [hkh, e2, hki]
        constructor
        · rintro ⟨x, b, hxb, e1, e2, e3, e4, e5⟩
          exact ⟨x, b, hxb, e1, e2, e3, by rw [hlook_ne _ (hkey x b hxb e1 e2)]; exact e4, e5⟩
        · rintro ⟨x, b, hxb, e1, e2, e3, e4, e5⟩
          exact ⟨x, b, hxb, e1, e2, e3, by rw [hlook_ne _ (hkey x b hxb e1 e2)] at e4; exact e4, e5⟩
    · intro dk d
      show s.debits.find? dk = some d ↔
        ∃ cv, (s.credits.insert ⟨t.hash, bm.block, c.1⟩ ⟨amt, c.2, false, none⟩).find? d.credKey = some cv ∧ _
      rw [hr.debits]
      constructor
      · rintro ⟨cv, h1, h2⟩
        refine ⟨cv, ?_, h2⟩
        rw [find?_insert_ne _ _ (by intro e; rw [← e, hf] at h1; cases h1)]
        exact h1
      · rintro ⟨cv, h1, h2, h3⟩
        rw [find?_insert] at h1
        by_cases e : (⟨t.hash, bm.block, c.1⟩ : CredKey) = d.credKey
        · simp only [e, if_true, Option.some.injEq] at h1
          rw [← h1] at h2; cases h2
        · simp only [e, if_false] at h1
          exact ⟨cv, h1, h2, h3⟩
    · intro op uc
      show s.unminedCredits.find? op = some uc ↔ _
      rw [hr.ucredits_iff, mem_expUnminedCredits]
      have hp : (addCredit1 L t c).pool = L.pool := rfl
      rw [hp]
      have hne : ∀ u ∈ L.pool, op.hash = u.hash → op ≠ ⟨t.hash, c.1⟩ := by
        intro u hu e1 e2
        have : u.hash = t.hash := by rw [← e1, e2]
        exact hl.pool_not_mined hu ht this.symm
      constructor
      · rintro ⟨u, hu, h1, h2, h3⟩
        exact ⟨u, hu, h1, h2, by rw [hlook_ne _ (hne u hu h1)]; exact h3⟩
      · rintro ⟨u, hu, h1, h2, h3⟩
        exact ⟨u, hu, h1, h2, by rw [hlook_ne _ (hne u hu h1)] at h3; exact h3⟩

theorem good_addCredits_mined {t : Tx} {bm : BlockMeta} : ∀ (cr : List (Nat × Bool)) (s : Store) (L : Ledger), Good s L →
    (t, bm) ∈ chainTxs L → (∀ c ∈ cr, c.1 < t.outs.length) →
    (∀ p ∈ chainTxs L, ∀ i ∈ p.1.ins, i.hash ≠ t.hash) →
    ∃ s', cr.foldlM (fun s (c : Nat × Bool) => addCredit s t (some bm) c.1 c.2) s = .ok s' ∧
      Good s' (cr.foldl (fun L c => addCredit1 L t c) L) := by
  intro cr
  induction cr with
  | nil => intro s L hg _ _ _; exact ⟨s, rfl, hg⟩
  | cons c r ih =>
    intro s L hg ht hv hns
    obtain ⟨s1, h1, hg1⟩ := good_addCredit_mined hg ht c (hv c List.mem_cons_self) hns
    obtain ⟨s2, h2, hg2⟩ := ih s1 (addCredit1 L t c) hg1 ht (fun c' hc' => hv c' (List.mem_cons_of_mem _ hc')) hns
    refine ⟨s2, ?_, hg2⟩
    rw [List.foldlM_cons, h1, bind_ok, h2]

theorem removeDoubleSpends_eq (s : Store) (rec : Tx) :
    removeDoubleSpends s rec = rec.ins.foldlM (dsOuter (fun h => h == rec.hash)) s := by
  unfold removeDoubleSpends
  congr 1
  funext s inp
  unfold dsOuter
  congr 1
  funext s h
  unfold dsInner
  by_cases e : h = rec.hash
  · simp [e]
  · simp only [e, if_false, beq_iff_eq, Bool.false_eq_true]
    cases s.unmined.find? h <;> rfl

theorem closure_nil (pool : List Tx) : ∀ n, closure pool n [] = [] := by
  intro n
  cases n with
  | zero => rfl
  | succ n =>
    rw [closure_succ]
    have : closureMore pool [] = [] := by
      unfold closureMore
      simp
    rw [this]; rfl

/-- descendants of an unconfirmed transaction other than `t` never pass through `t` (its parents are confirmed) -/
theorem desc_avoid {L : Ledger} {bm : BlockMeta} {t : Tx} {cr : List (Nat × Bool)} (hf : ConfFacts L bm t cr)
    {a b : Nat} (ha : ∃ w ∈ (toChain L bm t).pool, w.hash = a) (h : Desc L.pool a b) :
    Desc (toChain L bm t).pool a b ∧ ∃ w ∈ (toChain L bm t).pool, w.hash = b := by
  induction h with
  | refl => exact ⟨Desc.refl _, ha⟩
  | @step b' u _ hu hi ih =>
    obtain ⟨ih1, w, hw, hwb⟩ := ih
    obtain ⟨i, hi1, hi2⟩ := hi
    have hne : u.hash ≠ t.hash := by
      intro e
      have : u = t := hf.sameTx u hu e
      subst this
      exact hf.parentsNotPool i hi1 w (mem_pool_toChain.mp hw).1 (by rw [hwb, hi2])
    have hu' : u ∈ (toChain L bm t).pool := mem_pool_toChain.mpr ⟨hu, hne⟩
    exact ⟨Desc.step ih1 hu' ⟨i, hi1, hi2⟩, u, hu', rfl⟩

/-- **event *confirmed*** -/
theorem good_confirmed {s : Store} {L : Ledger} (hg : Good s L) {bm : BlockMeta} {t : Tx} {cr : List (Nat × Bool)}
    (now : Nat) (hc : Consistent L (.confirmed bm t cr)) :
    ∃ s', stepEvent s now (.confirmed bm t cr) = .ok s' ∧ Good s' (Ledger.apply L (.confirmed bm t cr)) ∧
      (NoConflict L → NoConflict (Ledger.apply L (.confirmed bm t cr))) := by
  unfold stepEvent addRelevantTx insertTx
  cases hin : inChain L t.hash with
  | true =>
    -- redelivery of a confirmed transaction
    obtain ⟨p, hp, hph⟩ := inChain_iff.mp hin
    have h1 := hc.cons
    simp [consistent] at h1
    obtain ⟨⟨⟨⟨⟨⟨⟨⟨⟨⟨c1, _⟩, _⟩, c4⟩, _⟩, _⟩, _⟩, _⟩, _⟩, _⟩, _⟩ := h1
    have hpt : p.1 = t := by
      rcases c1 p.1 (some p.2) (known_of_mined hp) with h | h
      · exact absurd hph h
      · exact h
    have hpb : p.2 = bm := by
      rcases c4 p.1 p.2 hp with h | h
      · exact absurd hph h
      · exact h
    have hrec : s.txrecs.find? ⟨t.hash, bm.block⟩ = some t :=
      (hg.ref.txrecs_iff _ _).mpr ⟨bm, by rw [← hpt, ← hpb]; exact hp, rfl⟩
    have hdup : insertMinedTx s t bm = .error Err.duplicate := by
      rw [insertMinedTx_core]
      simp [contains_eq, hrec]
    simp only [hdup, Ledger.apply, hin, if_true]
    exact ⟨s, rfl, hg, fun h => h⟩
  | false =>
    have hf := confFacts_of hc hin
    have hsh := hf.sameHeight
    -- core
    have hg1 : Good (confirmCore s t bm) (toChain L bm t) :=
      ⟨wf2_confirmCore hg.wf2 (confirmPre2_of hg hf), lwf_toChain hg.lwf hf, refines_confirmCore hg hf⟩
    -- conflicts
    have hskip : ∀ v ∈ (toChain L bm t).pool, (fun h => h == t.hash) v.hash = false := by
      intro v hv; simpa using (mem_pool_toChain.mp hv).2
    obtain ⟨s2, P, h2, hg2, hP⟩ := good_removeSpenders hg1 (fun h => h == t.hash) hskip t.ins
    -- leases
    have hg3 := good_dropLeases hg2 t
    -- credits
    have htm : (t, bm) ∈ chainTxs (dropLeases (minus (toChain L bm t) P fun _ => false) t) :=
      (mem_chainTxs_toChain hsh _).mpr (Or.inr rfl)
    have hns : ∀ p ∈ chainTxs (dropLeases (minus (toChain L bm t) P fun _ => false) t), ∀ i ∈ p.1.ins, i.hash ≠ t.hash := by
      intro p hp i hi e
      have := spenderOf_eq_none_iff.mp (spenderOf_own_none hg.lwf hf i.index) p hp
      apply this
      have : (⟨t.hash, i.index⟩ : OutPoint) = i := by cases i; simp_all
      rw [this]; exact hi
    obtain ⟨s4, h4, hg4⟩ := good_addCredits_mined cr _ _ hg3 htm hf.crValid hns
    -- the store calls
    have hnc : s.txrecs.contains ⟨t.hash, bm.block⟩ = false := by
      cases hcc : s.txrecs.contains ⟨t.hash, bm.block⟩ with
      | false => rfl
      | true =>
        exact absurd rfl ((confirmPre2_of hg hf).pre.fresh ⟨t.hash, bm.block⟩ (by simpa [contains_eq] using hcc))
    have hins : insertMinedTx s t bm = .ok (t.ins.foldl unlockOutputRaw s2) := by
      rw [insertMinedTx_core, hnc, removeDoubleSpends_eq, h2]
      rfl
    -- the ledger
    have hPgone : ∀ h, P h = (closure L.pool L.pool.length
        ((L.pool.filter fun u => u.hash != t.hash && u.ins.any fun i => t.ins.contains i).map (·.hash))).contains h := by
      intro h
      have hiff : P h = true ↔ (closure L.pool L.pool.length
          ((L.pool.filter fun u => u.hash != t.hash && u.ins.any fun i => t.ins.contains i).map (·.hash))).contains h = true := by
        rw [hP, List.contains_iff_mem, mem_closure_iff]
        constructor
        · rintro ⟨v, hv, ⟨op, hop, hov⟩, hd⟩
          obtain ⟨hv1, hv2⟩ := mem_pool_toChain.mp hv
          refine ⟨v.hash, List.mem_map.mpr ⟨v, List.mem_filter.mpr ⟨hv1, ?_⟩, rfl⟩,
            hd.mono (fun x hx => (mem_pool_toChain.mp hx).1)⟩
          simp only [Bool.and_eq_true, bne_iff_ne, ne_eq, List.any_eq_true, List.contains_iff_mem]
          exact ⟨hv2, op, hov, hop⟩
        · rintro ⟨r, hr, hd⟩
          obtain ⟨v, hv, rfl⟩ := List.mem_map.mp hr
          obtain ⟨hv1, hv2⟩ := List.mem_filter.mp hv
          simp only [Bool.and_eq_true, bne_iff_ne, ne_eq, List.any_eq_true, List.contains_iff_mem] at hv2
          obtain ⟨hne, op, hov, hop⟩ := hv2
          have hv' : v ∈ (toChain L bm t).pool := mem_pool_toChain.mpr ⟨hv1, hne⟩
          exact ⟨v, hv', ⟨op, hop, hov⟩, (desc_avoid hf ⟨v, hv', rfl⟩ hd).1⟩
      cases hp : P h <;> cases hc' : (closure L.pool L.pool.length
          ((L.pool.filter fun u => u.hash != t.hash && u.ins.any fun i => t.ins.contains i).map (·.hash))).contains h <;>
        simp_all
    have hL : Ledger.apply L (.confirmed bm t cr) =
        cr.foldl (fun L c => addCredit1 L t c) (dropLeases (minus (toChain L bm t) P fun _ => false) t) := by
      rw [foldl_addCredit1]
      simp only [Ledger.apply, hin, Bool.false_eq_true, if_false, dropLeases, minus, toChain]
      have hgone : (if ((L.pool.filter fun u => u.hash != t.hash && u.ins.any fun i => t.ins.contains i).map (·.hash)).isEmpty = true
          then [] else closure L.pool L.pool.length
            ((L.pool.filter fun u => u.hash != t.hash && u.ins.any fun i => t.ins.contains i).map (·.hash))) =
          closure L.pool L.pool.length
            ((L.pool.filter fun u => u.hash != t.hash && u.ins.any fun i => t.ins.contains i).map (·.hash)) := by
        split
        · rename_i he
          rw [List.isEmpty_iff] at he
          rw [he, closure_nil]
        · rfl
      rw [hgone]
      congr 1
      · rw [List.filter_filter]
        apply List.filter_congr
        intro u _
        rw [hPgone]
        cases (u.hash != t.hash) <;> simp
      · congr 1
        unfold dropCredits
        apply List.filter_congr
        intro p _
        rw [hPgone]
        simp
    rw [hL]
    refine ⟨s4, ?_, hg4, ?_⟩
    · simp only [hins, pure_eq, bind_ok, Bool.false_and, Bool.false_eq_true, if_false]
      have : (fun s (x : Nat × Bool) => match x with | (i, chg) => addCredit s t (some bm) i chg) =
          (fun s (c : Nat × Bool) => addCredit s t (some bm) c.1 c.2) := by
        funext s x; cases x; rfl
      rw [this, h4]
      rfl
    · intro hn
      apply noConflict_foldl_addCredit1
      intro u hu i hi
      have hu2 : u ∈ (minus (toChain L bm t) P fun _ => false).pool := hu
      obtain ⟨hu3, hu4⟩ := mem_pool_minus.mp hu2
      obtain ⟨hu5, hu6⟩ := mem_pool_toChain.mp hu3
      rw [spentConfirmed_false_iff]
      intro p hp hin'
      rcases (mem_chainTxs_toChain hsh p).mp hp with hold | rfl
      · exact (spentConfirmed_false_iff.mp (hn u hu5 i hi)) p hold hin'
      · have : P u.hash = true := (hP _).mpr ⟨u, hu3, ⟨i, hin', hi⟩, Desc.refl _⟩
        rw [this] at hu4; cases hu4

end TxStore
