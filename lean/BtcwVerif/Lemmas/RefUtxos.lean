import BtcwVerif.Lemmas.RefAll
/-!
# Observables of a good pair: `UnspentOutputs` lists exactly the ledger's spendable outputs
-/
namespace TxStore
open KMap Ledger

theorem mapM_eq_map_of_forall {α β : Type} (f : α → M β) (g : α → β) : ∀ (l : List α),
    (∀ x ∈ l, f x = .ok (g x)) → l.mapM f = .ok (l.map g) := by
  intro l
  induction l with
  | nil => intro _; rfl
  | cons a t ih =>
    intro h
    rw [List.mapM_cons, h a List.mem_cons_self, ih (fun x hx => h x (List.mem_cons_of_mem _ hx))]
    rfl

theorem filterMap_congr' {α β : Type} (f g : α → Option β) : ∀ (l : List α), (∀ x ∈ l, f x = g x) →
    l.filterMap f = l.filterMap g := by
  intro l
  induction l with
  | nil => intro _; rfl
  | cons a t ih =>
    intro h
    rw [List.filterMap_cons, List.filterMap_cons, h a List.mem_cons_self,
      ih (fun x hx => h x (List.mem_cons_of_mem _ hx))]

theorem flatMap_congr' {α β : Type} (f g : α → List β) : ∀ (l : List α), (∀ x ∈ l, f x = g x) →
    l.flatMap f = l.flatMap g := by
  intro l
  induction l with
  | nil => intro _; rfl
  | cons a t ih =>
    intro h
    rw [List.flatMap_cons, List.flatMap_cons, h a List.mem_cons_self,
      ih (fun x hx => h x (List.mem_cons_of_mem _ hx))]

/-- the block record of a confirmed transaction's block -/
theorem blocks_find_of_mined {s : Store} {L : Ledger} (hg : Good s L) {x : Tx} {b : BlockMeta}
    (hx : (x, b) ∈ chainTxs L) : ∃ br, s.blocks.find? b.block.height = some br ∧ br.time = b.time := by
  obtain ⟨lb, hlb, hbm, _⟩ := mem_chainTxs.mp hx
  have hmem : blockEntry lb ∈ s.blocks := by rw [hg.ref.blocks]; exact List.mem_map.mpr ⟨lb, hlb, rfl⟩
  have hnd : NodupKeys s.blocks := nodupKeys_of_sorted _ hg.wf2.wf.sorted
  have := find?_of_mem _ hnd hmem
  refine ⟨(blockEntry lb).2, ?_, ?_⟩
  · rw [← hbm]; exact this
  · rw [← hbm]; rfl

/-! ### the unspent index, in ledger terms -/

theorem nodup_expCredits_keys {L : Ledger} (hl : LWF L) : ((expCredits L).map (·.1.outPoint)).Nodup := by
  unfold expCredits
  rw [List.map_flatMap, List.Nodup, List.pairwise_flatMap]
  constructor
  · intro p _
    unfold expCreditsOf
    rw [List.pairwise_map, List.pairwise_filterMap]
    have hnd := withIdx_fst_nodup p.1.outs 0
    rw [List.Nodup, List.pairwise_map] at hnd
    refine hnd.imp ?_
    intro a a' hne b hb b' hb' e
    split at hb
    · split at hb'
      · simp only [Option.some.injEq] at hb hb'
        rw [← hb, ← hb'] at e
        have := congrArg OutPoint.index e
        exact hne this
      · cases hb'
    · cases hb
  · have hp := chain_hashes_nodup hl
    rw [List.Nodup, List.pairwise_map] at hp
    refine hp.imp ?_
    intro p1 p2 hne x hx y hy e
    simp only [List.mem_map] at hx hy
    obtain ⟨a, ha, rfl⟩ := hx
    obtain ⟨b, hb, rfl⟩ := hy
    have h1 := (mem_expCreditsOf.mp (show (a.1, a.2) ∈ _ from ha)).1
    have h2 := (mem_expCreditsOf.mp (show (b.1, b.2) ∈ _ from hb)).1
    have := congrArg OutPoint.hash e
    simp only [CredKey.outPoint] at this
    exact hne (by rw [← h1, ← h2]; exact this)

theorem nodup_expUnspent {L : Ledger} (hl : LWF L) : (expUnspent L).Nodup := by
  have h := nodup_expCredits_keys hl
  unfold expUnspent
  rw [List.Nodup, List.pairwise_map] at h
  rw [List.Nodup, List.pairwise_filterMap]
  refine h.imp ?_
  intro a a' hne b hb b' hb' e
  split at hb
  · cases hb
  · split at hb'
    · cases hb'
    · simp only [Option.some.injEq] at hb hb'
      rw [← hb, ← hb'] at e
      exact hne (congrArg Prod.fst e)

theorem unspent_perm {s : Store} {L : Ledger} (hg : Good s L) : s.unspent.Perm (expUnspent L) := by
  have h1 : s.unspent.Nodup := by
    have := hg.wf2.wf.nodupUnspent
    unfold NodupKeys keys at this
    rw [List.Nodup, List.pairwise_map] at this
    exact this.imp (fun hne e => hne (by rw [e]))
  rw [List.perm_ext_iff_of_nodup h1 (nodup_expUnspent hg.lwf)]
  rintro ⟨op, blk⟩
  rw [mem_iff_find? _ hg.wf2.wf.nodupUnspent, hg.wf2.wf.index]
  unfold expUnspent
  simp only [List.mem_filterMap]
  constructor
  · rintro ⟨cv, hcv, hsp⟩
    refine ⟨(⟨op.hash, blk, op.index⟩, cv), (hg.ref.credits _ _).mp hcv, ?_⟩
    simp only [hsp, Bool.false_eq_true, if_false, CredKey.outPoint]
  · rintro ⟨⟨k, cv⟩, hm, he⟩
    simp only at he
    split at he
    · cases he
    · rename_i hsp
      simp only [Option.some.injEq, Prod.mk.injEq] at he
      obtain ⟨rfl, rfl⟩ := he
      refine ⟨cv, ?_, by simpa using hsp⟩
      have : (⟨k.outPoint.hash, k.block, k.outPoint.index⟩ : CredKey) = k := by cases k; rfl
      rw [this]; exact (hg.ref.credits _ _).mpr hm

/-! ### what `fetchCredits` returns per entry -/

/-- the ledger's entry for one output of a known transaction (C01, second sentence) -/
def utxoOf (L : Ledger) (t : Tx) (b : Option BlockMeta) (iv : Nat × Int) : Option Credit :=
  if credited L ⟨t.hash, iv.1⟩ && !Ledger.spent L ⟨t.hash, iv.1⟩ && !leased L ⟨t.hash, iv.1⟩
  then some ⟨⟨t.hash, iv.1⟩, b, iv.2, t.isCoinBase⟩ else none

theorem utxos_eq (L : Ledger) :
    utxos L = (known L).flatMap fun p => (withIdx p.1.outs).filterMap (utxoOf L p.1 p.2) := rfl

/-- `fetchCredits`, one entry of the unspent index: succeeds with the ledger's entry -/
theorem fetchMined_good {s : Store} {L : Ledger} (hg : Good s L) {t : Tx} {b : BlockMeta} (ht : (t, b) ∈ chainTxs L)
    {i : Nat} {v : Int} (hv : t.outs[i]? = some v) {chg : Bool} (hlk : lookup L.credit ⟨t.hash, i⟩ = some chg)
    (hsp : spenderOf L ⟨t.hash, i⟩ = none) :
    fetchMinedCredit s L.now false false true (⟨t.hash, i⟩, b.block) = .ok (utxoOf L t (some b) (i, v)) := by
  have hr := hg.ref
  have hrec : s.txrecs.find? ⟨t.hash, b.block⟩ = some t := (hr.txrecs_iff _ _).mpr ⟨b, ht, rfl⟩
  obtain ⟨br, hbr, htime⟩ := blocks_find_of_mined hg ht
  have hsc : spentConfirmed L ⟨t.hash, i⟩ = false := by rw [← spenderOf_isSome, hsp]; rfl
  unfold fetchMinedCredit utxoOf
  simp only [Bool.not_false, Bool.true_and, credited, hlk, Option.isSome_some, spent_eq hr, hsc, Bool.false_or,
    ← leased_eq hg]
  by_cases h1 : isLocked s ⟨t.hash, i⟩ L.now = true
  · simp [h1]
  · have h1' : isLocked s ⟨t.hash, i⟩ L.now = false := by simpa using h1
    by_cases h2 : spentByUnmined s ⟨t.hash, i⟩ = true
    · simp [h1', h2]
    · have h2' : spentByUnmined s ⟨t.hash, i⟩ = false := by simpa using h2
      simp only [h1', h2', Bool.false_eq_true, if_false, hrec, hv, hbr, pure_eq, Bool.not_false, Bool.and_self, if_true]
      have : (⟨b.block, br.time⟩ : BlockMeta) = b := by rw [htime]
      rw [this]

/-- `fetchCredits`, one unconfirmed credit -/
theorem fetchUnmined_good {s : Store} {L : Ledger} (hg : Good s L) {t : Tx} (ht : t ∈ L.pool)
    {i : Nat} {v : Int} (hv : t.outs[i]? = some v) {chg : Bool} (hlk : lookup L.credit ⟨t.hash, i⟩ = some chg) :
    fetchUnminedCredit s L.now false false true (⟨t.hash, i⟩, ⟨v, chg⟩) = .ok (utxoOf L t none (i, v)) := by
  have hr := hg.ref
  have hrec : s.unmined.find? t.hash = some t := (hr.unmined_iff _ _).mpr ⟨ht, rfl⟩
  have hsc : spentConfirmed L ⟨t.hash, i⟩ = false := by
    rw [spentConfirmed_false_iff]
    intro p hp hin
    obtain ⟨b, hb, _⟩ := hg.lwf.parents p hp _ hin _ (known_of_pool ht) rfl
    cases hb
  unfold fetchUnminedCredit utxoOf
  simp only [Bool.not_false, Bool.true_and, credited, hlk, Option.isSome_some, spent_eq hr, hsc, Bool.false_or,
    ← leased_eq hg]
  by_cases h1 : isLocked s ⟨t.hash, i⟩ L.now = true
  · simp [h1]
  · have h1' : isLocked s ⟨t.hash, i⟩ L.now = false := by simpa using h1
    by_cases h2 : spentByUnmined s ⟨t.hash, i⟩ = true
    · simp [h1', h2]
    · have h2' : spentByUnmined s ⟨t.hash, i⟩ = false := by simpa using h2
      simp only [h1', h2', Bool.false_eq_true, if_false, hrec, hv, pure_eq, Bool.not_false, Bool.and_self, if_true]

/-! ### `UnspentOutputs` -/

def okOr {α : Type} (d : α) : M α → α
  | .ok a => a
  | .error _ => d

/-- **`UnspentOutputs` = the ledger's spendable outputs** (as a set: the store lists them in bucket order) -/
theorem utxos_refines {s : Store} {L : Ledger} (hg : Good s L) :
    ∃ l, unspentOutputs s L.now = .ok l ∧ l.Perm (utxos L) := by
  have hr := hg.ref
  have hl := hg.lwf
  -- every entry of the two buckets is fetched successfully
  have hA : ∀ e ∈ expUnspent L, ∃ o, fetchMinedCredit s L.now false false true e = .ok o := by
    rintro ⟨op, blk⟩ he
    unfold expUnspent at he
    simp only [List.mem_filterMap] at he
    obtain ⟨⟨k, cv⟩, hm, he'⟩ := he
    simp only at he'
    split at he'
    · cases he'
    · rename_i hsp
      simp only [Option.some.injEq, Prod.mk.injEq] at he'
      obtain ⟨rfl, rfl⟩ := he'
      obtain ⟨t, b, ht, e1, e2, e3, e4, e5, e6⟩ := mem_expCredits.mp hm
      have hko : k.outPoint = ⟨t.hash, k.index⟩ := by cases k; simp_all [CredKey.outPoint]
      have hsp' : spenderOf L ⟨t.hash, k.index⟩ = none := by
        rw [← hko]
        cases hs : spenderOf L k.outPoint with
        | none => rfl
        | some dk => rw [hs] at e6; rw [e6] at hsp; simp at hsp
      rw [hko, e2]
      exact ⟨_, fetchMined_good hg ht e3 (by rw [← hko]; exact e4) hsp'⟩
  have hB : ∀ e ∈ expUnminedCredits L, ∃ o, fetchUnminedCredit s L.now false false true e = .ok o := by
    rintro ⟨op, uc⟩ he
    obtain ⟨t, ht, e1, e2, e3⟩ := mem_expUnminedCredits.mp he
    have hop : op = ⟨t.hash, op.index⟩ := by cases op; simp_all
    rw [hop] at e3 ⊢
    obtain ⟨a, c⟩ := uc
    exact ⟨_, fetchUnmined_good hg ht e2 e3⟩
  have hpu := unspent_perm hg
  have hpc := unminedCredits_perm hg
  have hA' : ∀ e ∈ s.unspent, fetchMinedCredit s L.now false false true e =
      .ok (okOr none (fetchMinedCredit s L.now false false true e)) := by
    intro e he
    obtain ⟨o, ho⟩ := hA e (hpu.mem_iff.mp he)
    rw [ho]; rfl
  have hB' : ∀ e ∈ s.unminedCredits, fetchUnminedCredit s L.now false false true e =
      .ok (okOr none (fetchUnminedCredit s L.now false false true e)) := by
    intro e he
    obtain ⟨o, ho⟩ := hB e (hpc.mem_iff.mp he)
    rw [ho]; rfl
  refine ⟨(s.unspent.map fun e => okOr none (fetchMinedCredit s L.now false false true e)).filterMap id ++
    (s.unminedCredits.map fun e => okOr none (fetchUnminedCredit s L.now false false true e)).filterMap id, ?_, ?_⟩
  · unfold unspentOutputs fetchCredits
    rw [mapM_eq_map_of_forall _ _ _ hA', mapM_eq_map_of_forall _ _ _ hB']
    rfl
  · rw [List.filterMap_map, List.filterMap_map, utxos_eq]
    unfold known
    rw [List.flatMap_append, List.flatMap_map, List.flatMap_map]
    apply List.Perm.append
    · -- confirmed part
      refine (hpu.filterMap _).trans ?_
      unfold expUnspent expCredits
      rw [List.filterMap_filterMap, List.filterMap_flatMap]
      apply List.Perm.of_eq
      apply flatMap_congr'
      intro p hp
      unfold expCreditsOf
      rw [List.filterMap_filterMap]
      apply filterMap_congr'
      rintro ⟨i, v⟩ hiv
      have hv := (mem_withIdx0 _ _ _).mp hiv
      cases hlk : lookup L.credit ⟨p.1.hash, i⟩ with
      | none =>
        simp only [hlk, Option.bind_none]
        unfold utxoOf
        simp [credited, hlk]
      | some chg =>
        simp only [hlk, Option.bind_some]
        cases hsp : spenderOf L ⟨p.1.hash, i⟩ with
        | none =>
          simp only [Option.isSome_none, Bool.false_eq_true, if_false, Option.bind_some, Function.comp, id,
            CredKey.outPoint]
          rw [fetchMined_good hg hp hv hlk hsp]
          rfl
        | some dk =>
          simp only [Option.isSome_some, if_true, Option.bind_none]
          unfold utxoOf
          have : Ledger.spent L ⟨p.1.hash, i⟩ = true := by
            rw [spent_eq hr, ← spenderOf_isSome, hsp]; rfl
          simp [this]
    · -- unconfirmed part
      refine (hpc.filterMap _).trans ?_
      unfold expUnminedCredits
      rw [List.filterMap_flatMap]
      apply List.Perm.of_eq
      apply flatMap_congr'
      intro t ht
      rw [List.filterMap_filterMap]
      apply filterMap_congr'
      rintro ⟨i, v⟩ hiv
      have hv := (mem_withIdx0 _ _ _).mp hiv
      cases hlk : lookup L.credit ⟨t.hash, i⟩ with
      | none =>
        simp only [hlk, Option.bind_none]
        unfold utxoOf
        simp [credited, hlk]
      | some chg =>
        simp only [hlk, Option.bind_some, Function.comp, id]
        rw [fetchUnmined_good hg ht hv hlk]
        rfl

/-! ### `OutputsToWatch` -/

/-- **`OutputsToWatch` = the ledger's watch set** (every credited output not spent by a confirmed transaction), as a set -/
theorem watch_refines {s : Store} {L : Ledger} (hg : Good s L) (now : Nat) :
    ∃ l, outputsToWatch s now = .ok l ∧ (l.map (·.op)).Perm (watchSet L) := by
  have hr := hg.ref
  have hl := hg.lwf
  have hpu := unspent_perm hg
  have hpc := unminedCredits_perm hg
  have hA : ∀ e ∈ s.unspent, fetchMinedCredit s now true true false e = .ok (some ⟨e.1, none, 0, false⟩) := by
    rintro ⟨op, blk⟩ he
    have hf := find?_of_mem _ hg.wf2.wf.nodupUnspent he
    obtain ⟨cv, hcv, _⟩ := (hg.wf2.wf.index op blk).mp hf
    obtain ⟨x, b, hx, e1, e2, e3, _⟩ := (hr.credits_iff _ _).mp hcv
    have hrec : s.txrecs.find? ⟨op.hash, blk⟩ = some x := by
      have := (hr.txrecs_iff ⟨x.hash, b.block⟩ x).mpr ⟨b, hx, rfl⟩
      simp only at e1 e2
      rw [e1, e2]; exact this
    unfold fetchMinedCredit
    simp only [Bool.not_true, Bool.false_and, Bool.false_eq_true, if_false, hrec]
    simp only at e3
    rw [e3]; rfl
  have hB : ∀ e ∈ s.unminedCredits, fetchUnminedCredit s now true true false e = .ok (some ⟨e.1, none, 0, false⟩) := by
    rintro ⟨op, uc⟩ he
    have hf := find?_of_mem _ hg.wf2.wf.nodupUC he
    obtain ⟨w, hw, h1, h2, _⟩ := (hr.ucredits_iff _ _).mp hf
    have hrec : s.unmined.find? op.hash = some w := (hr.unmined_iff _ _).mpr ⟨hw, h1⟩
    unfold fetchUnminedCredit
    simp only [Bool.not_true, Bool.false_and, Bool.false_eq_true, if_false, hrec, h2]
    rfl
  refine ⟨(s.unspent.map fun e => (some ⟨e.1, none, 0, false⟩ : Option Credit)).filterMap id ++
    (s.unminedCredits.map fun e => (some ⟨e.1, none, 0, false⟩ : Option Credit)).filterMap id, ?_, ?_⟩
  · unfold outputsToWatch fetchCredits
    rw [mapM_eq_map_of_forall _ _ _ hA, mapM_eq_map_of_forall _ _ _ hB]
    rfl
  · rw [List.map_append]
    have e1 : ((s.unspent.map fun e => (some ⟨e.1, none, 0, false⟩ : Option Credit)).filterMap id).map (·.op) =
        s.unspent.map (·.1) := by
      rw [List.filterMap_map, List.map_filterMap]
      induction s.unspent with
      | nil => rfl
      | cons a t ih => simp [List.filterMap_cons, ih]
    have e2 : ((s.unminedCredits.map fun e => (some ⟨e.1, none, 0, false⟩ : Option Credit)).filterMap id).map (·.op) =
        s.unminedCredits.map (·.1) := by
      rw [List.filterMap_map, List.map_filterMap]
      induction s.unminedCredits with
      | nil => rfl
      | cons a t ih => simp [List.filterMap_cons, ih]
    rw [e1, e2]
    unfold watchSet known
    rw [List.flatMap_append, List.flatMap_map, List.flatMap_map]
    apply List.Perm.append
    · refine (hpu.map _).trans ?_
      unfold expUnspent expCredits
      rw [List.map_filterMap, List.filterMap_flatMap]
      apply List.Perm.of_eq
      apply flatMap_congr'
      intro p _
      unfold expCreditsOf
      rw [List.filterMap_filterMap]
      apply filterMap_congr'
      rintro ⟨i, v⟩ _
      cases hlk : lookup L.credit ⟨p.1.hash, i⟩ with
      | none => simp [credited, hlk]
      | some chg =>
        simp only [hlk, Option.bind_some, credited, Option.isSome_some, Bool.true_and, ← spenderOf_isSome]
        cases spenderOf L ⟨p.1.hash, i⟩ <;> simp [CredKey.outPoint]
    · refine (hpc.map _).trans ?_
      unfold expUnminedCredits
      rw [List.map_flatMap]
      apply List.Perm.of_eq
      apply flatMap_congr'
      intro t ht
      rw [List.map_filterMap]
      apply filterMap_congr'
      rintro ⟨i, v⟩ _
      have hsc : spentConfirmed L ⟨t.hash, i⟩ = false := by
        rw [spentConfirmed_false_iff]
        intro p hp hin
        obtain ⟨b, hb, _⟩ := hl.parents p hp _ hin _ (known_of_pool ht) rfl
        cases hb
      cases hlk : lookup L.credit ⟨t.hash, i⟩ with
      | none => simp [credited, hlk]
      | some chg => simp [credited, hlk, hsc]

end TxStore
