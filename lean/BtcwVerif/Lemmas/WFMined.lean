import BtcwVerif.Lemmas.WFPres
/-! `insertMinedTx` preserves `WF` (under the chain-consistency preconditions of the *confirmed* event). -/
namespace TxStore
open KMap

/-- first two writes of `insertMinedTx`: the block record gets the tx hash, the tx record is stored -/
def recordTx (s : Store) (rec : Tx) (bm : BlockMeta) : Store :=
  let s := match s.blocks.find? bm.block.height with
    | none => { s with blocks := s.blocks.insert bm.block.height ⟨bm.block.hash, bm.time, [rec.hash]⟩ }
    | some br => { s with blocks := s.blocks.insert bm.block.height { br with txs := br.txs ++ [rec.hash] } }
  { s with txrecs := s.txrecs.insert ⟨rec.hash, bm.block⟩ rec }

theorem insertMinedTx_eq (s : Store) (rec : Tx) (bm : BlockMeta) :
    insertMinedTx s rec bm =
      if s.txrecs.contains ⟨rec.hash, bm.block⟩ then throw Err.duplicate else
      (let s := updateMinedBalance (recordTx s rec bm) rec bm.block
       let s := if s.unmined.contains rec.hash then deleteUnminedTx s rec else s
       removeDoubleSpends s rec >>= fun s => pure (rec.ins.foldl unlockOutputRaw s)) := by
  unfold insertMinedTx recordTx
  by_cases h : s.txrecs.contains ⟨rec.hash, bm.block⟩ = true
  · simp [h]
  · simp only [h, Bool.false_eq_true, if_false]
    cases s.blocks.find? bm.block.height <;> rfl

/-- the new block record -/
def newBlockRec (s : Store) (rec : Tx) (bm : BlockMeta) : BlockRec :=
  match s.blocks.find? bm.block.height with
  | none => ⟨bm.block.hash, bm.time, [rec.hash]⟩
  | some br => { br with txs := br.txs ++ [rec.hash] }

theorem recordTx_fields (s : Store) (rec : Tx) (bm : BlockMeta) :
    recordTx s rec bm = { s with blocks := s.blocks.insert bm.block.height (newBlockRec s rec bm),
                                 txrecs := s.txrecs.insert ⟨rec.hash, bm.block⟩ rec } := by
  unfold recordTx newBlockRec
  cases s.blocks.find? bm.block.height <;> rfl

structure ConfirmPre (s : Store) (rec : Tx) (bm : BlockMeta) : Prop where
  /-- the transaction is not recorded in any block yet -/
  fresh : ∀ k, (s.txrecs.find? k).isSome → k.hash ≠ rec.hash
  /-- one block per height -/
  sameBlock : ∀ br, s.blocks.find? bm.block.height = some br → br.hash = bm.block.hash
  /-- the unconfirmed credits recorded for this hash are outputs of this transaction -/
  ucValid : ∀ op uc, s.unminedCredits.find? op = some uc → op.hash = rec.hash → rec.outs[op.index]? = some uc.amount

theorem newBlockRec_hash (s : Store) (rec : Tx) (bm : BlockMeta) (hp : ConfirmPre s rec bm) :
    (newBlockRec s rec bm).hash = bm.block.hash := by
  unfold newBlockRec
  cases h : s.blocks.find? bm.block.height with
  | none => rfl
  | some br => exact hp.sameBlock br h

theorem newBlockRec_txs (s : Store) (rec : Tx) (bm : BlockMeta) :
    (newBlockRec s rec bm).txs = ((s.blocks.find? bm.block.height).map (·.txs)).getD [] ++ [rec.hash] := by
  unfold newBlockRec
  cases s.blocks.find? bm.block.height <;> rfl

/-- block lookups only gain: same hash, at least the same transactions -/
theorem recordTx_block_mono (s : Store) (rec : Tx) (bm : BlockMeta) (hp : ConfirmPre s rec bm)
    (hh : Nat) (br0 : BlockRec) (h : s.blocks.find? hh = some br0) :
    ∃ br1, (recordTx s rec bm).blocks.find? hh = some br1 ∧ br1.hash = br0.hash ∧ ∀ x ∈ br0.txs, x ∈ br1.txs := by
  rw [recordTx_fields]
  simp only [find?_insert]
  by_cases e : bm.block.height = hh
  · subst e
    refine ⟨newBlockRec s rec bm, by simp, ?_, ?_⟩
    · rw [newBlockRec_hash s rec bm hp]; exact (hp.sameBlock br0 h).symm
    · intro x hx; rw [newBlockRec_txs, h]; simp [hx]
  · exact ⟨br0, by simp [e, h], rfl, fun x hx => hx⟩

theorem wf_recordTx (s : Store) (rec : Tx) (bm : BlockMeta) (hw : WF s) (hp : ConfirmPre s rec bm) :
    WF (recordTx s rec bm) := by
  have hnb : NodupKeys s.blocks := nodupKeys_of_sorted _ hw.sorted
  have hsorted' : ((recordTx s rec bm).blocks.map (·.1)).Pairwise (· < ·) := by
    rw [recordTx_fields]; exact sorted_insert_nat _ _ _ hw.sorted
  have hnb' : NodupKeys (recordTx s rec bm).blocks := nodupKeys_of_sorted _ hsorted'
  have hold : ∀ k, (s.txrecs.find? k).isSome → k ≠ ⟨rec.hash, bm.block⟩ := by
    intro k hk e; exact hp.fresh k hk (by rw [e])
  have htx : ∀ k, (s.txrecs.find? k).isSome → (recordTx s rec bm).txrecs.find? k = s.txrecs.find? k := by
    intro k hk
    rw [recordTx_fields]
    exact find?_insert_ne _ _ (fun e => hold k hk e.symm)
  have htxnew : (recordTx s rec bm).txrecs.find? ⟨rec.hash, bm.block⟩ = some rec := by
    rw [recordTx_fields]; simp
  have hnotin : ∀ br, s.blocks.find? bm.block.height = some br → rec.hash ∉ br.txs := by
    intro br hbr hmem
    have := hw.recorded (bm.block.height, br) (mem_of_find? _ hbr) rec.hash hmem
    exact hp.fresh _ this rfl
  refine ⟨by rw [recordTx_fields]; exact hw.nodupCredits, by rw [recordTx_fields]; exact hw.nodupUnspent,
    by rw [recordTx_fields]; exact hw.nodupUC, hsorted', ?_, ?_, ?_, ?_, ?_,
    by rw [recordTx_fields]; exact hw.index, by rw [recordTx_fields]; exact hw.counter⟩
  · -- txsNodup
    intro p hpm
    obtain ⟨hh, br⟩ := p
    have hf := find?_of_mem _ hnb' hpm
    rw [recordTx_fields] at hf
    simp only [find?_insert] at hf
    split at hf
    · cases hf
      rw [newBlockRec_txs]
      cases hb : s.blocks.find? bm.block.height with
      | none => simp
      | some br0 =>
        simp only [Option.map_some, Option.getD_some]
        rw [List.nodup_append]
        refine ⟨hw.txsNodup _ (mem_of_find? _ hb), by simp, ?_⟩
        intro a ha b hb' e
        simp only [List.mem_singleton] at hb'
        subst hb'; subst e
        exact hnotin br0 hb ha
    · exact hw.txsNodup _ (mem_of_find? _ hf)
  · -- recorded
    intro p hpm tx htxm
    obtain ⟨hh, br⟩ := p
    have hf := find?_of_mem _ hnb' hpm
    rw [recordTx_fields] at hf
    simp only [find?_insert] at hf
    split at hf
    · rename_i e
      cases hf
      simp only at htxm ⊢
      rw [newBlockRec_txs, List.mem_append] at htxm
      rw [newBlockRec_hash s rec bm hp]
      have hbk : (⟨bm.block.height, bm.block.hash⟩ : Block) = bm.block := rfl
      rw [← e, hbk]
      rcases htxm with h1 | h1
      · cases hb : s.blocks.find? bm.block.height with
        | none => rw [hb] at h1; simp at h1
        | some br0 =>
          rw [hb] at h1
          simp only [Option.map_some, Option.getD_some] at h1
          have hr := hw.recorded (bm.block.height, br0) (mem_of_find? _ hb) tx h1
          simp only at hr
          rw [hp.sameBlock br0 hb, hbk] at hr
          rw [htx _ hr]; exact hr
      · simp only [List.mem_singleton] at h1
        subst h1; simp [htxnew]
    · have hr := hw.recorded (hh, br) (mem_of_find? _ hf) tx htxm
      rw [htx _ hr]; exact hr
  · -- recListed
    intro k rec' hk
    rw [recordTx_fields] at hk
    simp only [find?_insert] at hk
    split at hk
    · rename_i e
      cases hk; subst e
      refine ⟨rfl, newBlockRec s rec bm, ?_, newBlockRec_hash s rec bm hp, ?_⟩
      · rw [recordTx_fields]; simp
      · rw [newBlockRec_txs]; simp
    · obtain ⟨hhash, br0, hb0, hbh, hmem⟩ := hw.recListed k rec' hk
      obtain ⟨br1, h1, h2, h3⟩ := recordTx_block_mono s rec bm hp _ br0 hb0
      exact ⟨hhash, br1, h1, by rw [h2, hbh], h3 _ hmem⟩
  · -- oneBlock
    intro k1 k2 h1 h2 e
    rw [recordTx_fields] at h1 h2
    simp only [find?_insert] at h1 h2
    by_cases e1 : (⟨rec.hash, bm.block⟩ : TxKey) = k1
    · by_cases e2 : (⟨rec.hash, bm.block⟩ : TxKey) = k2
      · rw [← e1, ← e2]
      · simp only [e2, if_false] at h2
        exact absurd (by rw [← e, ← e1]) (hp.fresh k2 h2)
    · simp only [e1, if_false] at h1
      by_cases e2 : (⟨rec.hash, bm.block⟩ : TxKey) = k2
      · exact absurd (by rw [e, ← e2]) (hp.fresh k1 h1)
      · simp only [e2, if_false] at h2
        exact hw.oneBlock k1 k2 h1 h2 e
  · -- listed
    intro k cv hk
    have hk' : s.credits.find? k = some cv := by rw [recordTx_fields] at hk; exact hk
    obtain ⟨br0, rec0, hb0, hbh, hmem, hr0, hout⟩ := hw.listed k cv hk'
    obtain ⟨br1, h1, h2, h3⟩ := recordTx_block_mono s rec bm hp _ br0 hb0
    refine ⟨br1, rec0, h1, by rw [h2, hbh], h3 _ hmem, ?_, hout⟩
    rw [htx _ (by simp [hr0])]; exact hr0

end TxStore

namespace TxStore
open KMap

/-! ### `updateMinedBalance`, first loop: spending the credits found in the unspent index -/

/-- what the first loop keeps fixed relative to the store it started from -/
structure SpendFix (s0 s : Store) : Prop where
  blocks : s.blocks = s0.blocks
  txrecs : s.txrecs = s0.txrecs
  uc : s.unminedCredits = s0.unminedCredits
  unmined : s.unmined = s0.unmined
  mb : s.minedBalance = s0.minedBalance
  creditKeys : ∀ k, (s.credits.find? k).isSome → (s0.credits.find? k).isSome

theorem SpendFix.refl (s : Store) : SpendFix s s := ⟨rfl, rfl, rfl, rfl, rfl, fun _ h => h⟩

theorem wfb_spendInput (rec : Tx) (blk : Block) (s0 s : Store) (bal : Int) (ii : Nat × OutPoint)
    (hw : WF { s with minedBalance := bal }) (hf : SpendFix s0 s) :
    WF { (spendInput rec blk (s, bal) ii).1 with minedBalance := (spendInput rec blk (s, bal) ii).2 } ∧
      SpendFix s0 (spendInput rec blk (s, bal) ii).1 := by
  obtain ⟨i, inp⟩ := ii
  unfold spendInput
  simp only
  cases hu : s.unspent.find? inp with
  | none => exact ⟨hw, hf⟩
  | some blk0 =>
    simp only
    obtain ⟨cv, hcv, hsp⟩ := (hw.index inp blk0).mp hu
    have hcv' : s.credits.find? ⟨inp.hash, blk0, inp.index⟩ = some cv := hcv
    simp only [spendCredit, hcv', Option.getD_some]
    constructor
    · refine ⟨nodupKeys_insert _ _ _ hw.nodupCredits, nodupKeys_erase _ _ hw.nodupUnspent, hw.nodupUC, hw.sorted,
        hw.txsNodup, hw.recorded, hw.recListed, hw.oneBlock, ?_, ?_, ?_⟩
      · intro k cv1 hk
        simp only [find?_insert] at hk
        split at hk
        · rename_i e
          cases hk; subst e
          exact hw.listed _ cv hcv
        · exact hw.listed k cv1 hk
      · intro op blk1
        simp only [find?_insert, find?_erase]
        by_cases hop : inp = op
        · subst hop
          simp only [if_true]
          constructor
          · intro e; cases e
          · rintro ⟨cv1, hk, hs1⟩
            exfalso
            by_cases hb : blk0 = blk1
            · subst hb; simp at hk; subst hk; simp at hs1
            · have hne : ¬ (⟨inp.hash, blk0, inp.index⟩ : CredKey) = ⟨inp.hash, blk1, inp.index⟩ := by
                intro e; injection e with _ e2 _; exact hb e2
              simp only [hne, if_false] at hk
              have := (hw.index inp blk1).mpr ⟨cv1, hk, hs1⟩
              have hu' : s.unspent.find? inp = some blk0 := hu
              rw [hu'] at this; injection this with e; exact hb e
        · have hne : ¬ (⟨inp.hash, blk0, inp.index⟩ : CredKey) = ⟨op.hash, blk1, op.index⟩ := by
            intro e; apply hop
            have e1 : inp.hash = op.hash := congrArg CredKey.hash e
            have e3 : inp.index = op.index := congrArg CredKey.index e
            cases op; cases inp; simp only at e1 e3; rw [e1, e3]
          simp only [hop, hne, if_false]
          exact hw.index op blk1
      · show bal - cv.amount = creditSum _
        unfold creditSum
        rw [sum_insert _ _ _ _ hw.nodupCredits, hcv']
        have := hw.counter
        unfold creditSum at this
        simp only [hsp, Bool.false_eq_true, if_false, if_true] at this ⊢
        have this' : bal = (List.map (fun p : CredKey × CreditVal => if p.snd.spent = true then 0 else p.snd.amount) s.credits).sum := this
        omega
    · refine ⟨hf.blocks, hf.txrecs, hf.uc, hf.unmined, hf.mb, ?_⟩
      intro k hk
      apply hf.creditKeys
      simp only [find?_insert] at hk
      split at hk
      · rename_i e; subst e; simp [hcv']
      · exact hk

theorem wfb_spendInputs (rec : Tx) (blk : Block) (s0 : Store) :
    ∀ (l : List (Nat × OutPoint)) (s : Store) (bal : Int),
      WF { s with minedBalance := bal } → SpendFix s0 s →
      WF { (l.foldl (spendInput rec blk) (s, bal)).1 with minedBalance := (l.foldl (spendInput rec blk) (s, bal)).2 } ∧
        SpendFix s0 (l.foldl (spendInput rec blk) (s, bal)).1 := by
  intro l
  induction l with
  | nil => intro s bal hw hf; exact ⟨hw, hf⟩
  | cons a t ih =>
    intro s bal hw hf
    rw [List.foldl_cons]
    obtain ⟨h1, h2⟩ := wfb_spendInput rec blk s0 s bal a hw hf
    have : spendInput rec blk (s, bal) a = ((spendInput rec blk (s, bal) a).1, (spendInput rec blk (s, bal) a).2) := rfl
    rw [this]
    exact ih _ _ h1 h2

/-! ### second loop: the unconfirmed credits of the record become mined, unspent credits -/

/-- blocks, records, the unconfirmed buckets and the counter FIELD are untouched -/
def SameUnminedPart (s s' : Store) : Prop :=
  s'.blocks = s.blocks ∧ s'.txrecs = s.txrecs ∧ s'.unminedCredits = s.unminedCredits ∧ s'.unmined = s.unmined ∧
    s'.minedBalance = s.minedBalance

theorem wfb_moveCredits (rec : Tx) (bm : BlockMeta) :
    ∀ (L : List (OutPoint × UCredit)) (s : Store) (bal : Int),
      WF { s with minedBalance := bal } → s.txrecs.find? ⟨rec.hash, bm.block⟩ = some rec →
      (∀ p ∈ L, rec.outs[p.1.index]? = some p.2.amount ∧ s.credits.find? ⟨rec.hash, bm.block, p.1.index⟩ = none) →
      (L.map (·.1.index)).Nodup →
      WF { (L.foldl (moveCredit rec bm.block) (s, bal)).1 with
            minedBalance := (L.foldl (moveCredit rec bm.block) (s, bal)).2 } ∧
        SameUnminedPart s (L.foldl (moveCredit rec bm.block) (s, bal)).1 := by
  intro L
  induction L with
  | nil => intro s bal hw _ _ _; exact ⟨hw, ⟨rfl, rfl, rfl, rfl, rfl⟩⟩
  | cons p t ih =>
    intro s bal hw hrec hL hnd
    obtain ⟨op, uc⟩ := p
    rw [List.foldl_cons]
    obtain ⟨hout, hnone⟩ := hL (op, uc) List.mem_cons_self
    simp only at hout hnone
    rw [List.map_cons, List.nodup_cons] at hnd
    -- one step is `addCredit` on the store whose counter is `bal`
    have hadd : addCredit { s with minedBalance := bal } rec (some bm) op.index uc.change =
        .ok { s with credits := s.credits.insert ⟨rec.hash, bm.block, op.index⟩ ⟨uc.amount, uc.change, false, none⟩,
                     minedBalance := bal + uc.amount,
                     unspent := s.unspent.insert ⟨rec.hash, op.index⟩ bm.block } := by
      have hnone' : ({ s with minedBalance := bal } : Store).credits.find? ⟨rec.hash, bm.block, op.index⟩ = none := hnone
      simp [addCredit, hout, contains_eq, hnone']
    have hw1 := wf_addCredit_mined hw hadd hrec
    have hstep : moveCredit rec bm.block (s, bal) (op, uc) =
        ({ s with credits := s.credits.insert ⟨rec.hash, bm.block, op.index⟩ ⟨uc.amount, uc.change, false, none⟩,
                  unspent := s.unspent.insert ⟨rec.hash, op.index⟩ bm.block }, bal + uc.amount) := rfl
    rw [hstep]
    have := ih ({ s with
        credits := s.credits.insert ⟨rec.hash, bm.block, op.index⟩ ⟨uc.amount, uc.change, false, none⟩
        unspent := s.unspent.insert ⟨rec.hash, op.index⟩ bm.block } : Store) (bal + uc.amount) hw1 hrec (by
      intro q hq
      obtain ⟨h1, h2⟩ := hL q (List.mem_cons_of_mem _ hq)
      refine ⟨h1, ?_⟩
      have hne : op.index ≠ q.1.index := by
        intro e; apply hnd.1; rw [e]; exact List.mem_map.mpr ⟨q, hq, rfl⟩
      show KMap.find? (KMap.insert s.credits _ _) _ = none
      rw [find?_insert_ne _ _ (by intro e; injection e with _ _ e3; exact hne e3)]
      exact h2) hnd.2
    exact ⟨this.1, ⟨this.2.1, this.2.2.1, this.2.2.2.1, this.2.2.2.2.1, this.2.2.2.2.2⟩⟩

end TxStore

namespace TxStore
open KMap

theorem updateMinedBalance_eq (s : Store) (rec : Tx) (block : Block) :
    updateMinedBalance s rec block =
      (let a := (withIdx rec.ins).foldl (spendInput rec block) (s, s.minedBalance)
       let b := (unminedCreditsOf a.1 rec.hash).foldl (moveCredit rec block) (a.1, a.2)
       if b.2 ≠ s.minedBalance then { b.1 with minedBalance := b.2 } else b.1) := rfl

theorem nodup_indices_of_same_hash (m : KMap OutPoint UCredit) (hn : NodupKeys m) (h : Nat) :
    ((m.filter fun p => decide (p.1.hash = h)).map (·.1.index)).Nodup := by
  have hk : (m.map (·.1)).Nodup := hn
  rw [List.Nodup, List.pairwise_map] at hk ⊢
  have hf := hk.filter (fun p : OutPoint × UCredit => decide (p.1.hash = h))
  refine hf.imp_of_mem ?_
  intro a b ha hb hab e
  apply hab
  have h1 : a.1.hash = h := by simpa using (List.mem_filter.mp ha).2
  have h2 : b.1.hash = h := by simpa using (List.mem_filter.mp hb).2
  cases a with | mk ao _ => cases b with | mk bo _ =>
  cases ao; cases bo; simp only at h1 h2 e ⊢; rw [h1, h2, e]

/-- `updateMinedBalance` on the store that already records the transaction -/
theorem wf_updateMinedBalance (s : Store) (rec : Tx) (bm : BlockMeta) (hw : WF s)
    (hrec : s.txrecs.find? ⟨rec.hash, bm.block⟩ = some rec)
    (hnocred : ∀ k, (s.credits.find? k).isSome → k.hash ≠ rec.hash)
    (huc : ∀ op uc, s.unminedCredits.find? op = some uc → op.hash = rec.hash → rec.outs[op.index]? = some uc.amount) :
    WF (updateMinedBalance s rec bm.block) ∧
      (updateMinedBalance s rec bm.block).unminedCredits = s.unminedCredits ∧
      (updateMinedBalance s rec bm.block).unmined = s.unmined := by
  rw [updateMinedBalance_eq]
  have hw0 : WF { s with minedBalance := s.minedBalance } := hw
  obtain ⟨hwA, hfA⟩ := wfb_spendInputs rec bm.block s (withIdx rec.ins) s s.minedBalance hw0 (SpendFix.refl s)
  generalize (withIdx rec.ins).foldl (spendInput rec bm.block) (s, s.minedBalance) = a at hwA hfA
  obtain ⟨sA, balA⟩ := a
  try simp only at hwA hfA ⊢
  have hL : ∀ p ∈ unminedCreditsOf sA rec.hash,
      rec.outs[p.1.index]? = some p.2.amount ∧ sA.credits.find? ⟨rec.hash, bm.block, p.1.index⟩ = none := by
    intro p hp
    unfold unminedCreditsOf at hp
    rw [List.mem_filter, hfA.uc] at hp
    have hh : p.1.hash = rec.hash := by simpa using hp.2
    have hf := find?_of_mem _ hw.nodupUC hp.1
    refine ⟨huc p.1 p.2 hf hh, ?_⟩
    cases hc : sA.credits.find? ⟨rec.hash, bm.block, p.1.index⟩ with
    | none => rfl
    | some v =>
      have := hfA.creditKeys ⟨rec.hash, bm.block, p.1.index⟩ (by simp [hc])
      exact absurd rfl (hnocred _ this)
  have hnd : ((unminedCreditsOf sA rec.hash).map (·.1.index)).Nodup := by
    unfold unminedCreditsOf
    rw [hfA.uc]
    exact nodup_indices_of_same_hash _ hw.nodupUC rec.hash
  obtain ⟨hwB, hsB⟩ := wfb_moveCredits rec bm (unminedCreditsOf sA rec.hash) sA balA hwA
    (by rw [hfA.txrecs]; exact hrec) hL hnd
  generalize (unminedCreditsOf sA rec.hash).foldl (moveCredit rec bm.block) (sA, balA) = b at hwB hsB
  obtain ⟨sB, balB⟩ := b
  try simp only at hwB hsB ⊢
  obtain ⟨_, _, hucB, humB, hmbB⟩ := hsB
  have hmb : sB.minedBalance = s.minedBalance := by rw [hmbB, hfA.mb]
  by_cases hne : balB ≠ s.minedBalance
  · rw [if_pos hne]
    exact ⟨hwB, by show sB.unminedCredits = _; rw [hucB, hfA.uc], by show sB.unmined = _; rw [humB, hfA.unmined]⟩
  · have he : balB = s.minedBalance := by simpa using hne
    rw [if_neg hne]
    have : ({ sB with minedBalance := balB } : Store) = sB := by rw [he, ← hmb]
    rw [this] at hwB
    exact ⟨hwB, by rw [hucB, hfA.uc], by rw [humB, hfA.unmined]⟩

theorem foldl_unlock_uc : ∀ (l : List OutPoint) (s : Store),
    (l.foldl unlockOutputRaw s).unminedCredits = s.unminedCredits := by
  intro l
  induction l with
  | nil => intro s; rfl
  | cons x t ih => intro s; rw [List.foldl_cons, ih]; rfl

/-- **`insertMinedTx` preserves `WF`** under the preconditions of the *confirmed* event -/
theorem wf_insertMinedTx {s s' : Store} {rec : Tx} {bm : BlockMeta} (hw : WF s) (hp : ConfirmPre s rec bm)
    (h : insertMinedTx s rec bm = .ok s') : WF s' := by
  rw [insertMinedTx_eq] at h
  have hnc : s.txrecs.contains ⟨rec.hash, bm.block⟩ = false := by
    cases hc : s.txrecs.contains ⟨rec.hash, bm.block⟩ with
    | false => rfl
    | true => exact absurd rfl (hp.fresh ⟨rec.hash, bm.block⟩ (by simpa [contains_eq] using hc))
  simp only [hnc, Bool.false_eq_true, if_false] at h
  have hwR := wf_recordTx s rec bm hw hp
  have hrecR : (recordTx s rec bm).txrecs.find? ⟨rec.hash, bm.block⟩ = some rec := by
    rw [recordTx_fields]; simp
  have hnocred : ∀ k, ((recordTx s rec bm).credits.find? k).isSome → k.hash ≠ rec.hash := by
    intro k hk
    rw [recordTx_fields] at hk
    cases hc : s.credits.find? k with
    | none => rw [show ({ s with blocks := _, txrecs := _ } : Store).credits = s.credits from rfl, hc] at hk; cases hk
    | some cv =>
      obtain ⟨_, rec0, _, _, _, hr0, _⟩ := hw.listed k cv hc
      exact hp.fresh k.txKey (by simp [hr0])
  have hucR : ∀ op uc, (recordTx s rec bm).unminedCredits.find? op = some uc → op.hash = rec.hash →
      rec.outs[op.index]? = some uc.amount := by
    intro op uc hf; rw [recordTx_fields] at hf; exact hp.ucValid op uc hf
  obtain ⟨hw1, huc1, _⟩ := wf_updateMinedBalance (recordTx s rec bm) rec bm hwR hrecR hnocred hucR
  generalize updateMinedBalance (recordTx s rec bm) rec bm.block = s1 at h hw1 huc1
  -- deleteUnminedTx (if the tx was unconfirmed)
  have hw2 : WF (if s1.unmined.contains rec.hash then deleteUnminedTx s1 rec else s1) := by
    split
    · exact wf_of_sameMined (sameMined_deleteUnminedTx s1 rec) (nuc_deleteUnminedTx s1 rec hw1.nodupUC) hw1
    · exact hw1
  generalize (if s1.unmined.contains rec.hash then deleteUnminedTx s1 rec else s1) = s2 at h hw2
  cases hds : removeDoubleSpends s2 rec with
  | error e => rw [hds] at h; cases h
  | ok s3 =>
    rw [hds, bind_ok] at h
    simp only [pure_eq, Except.ok.injEq] at h
    subst h
    have hw3 := wf_of_sameMined (sameMined_removeDoubleSpends hds) (nuc_removeDoubleSpends hds hw2.nodupUC) hw2
    have hsm := foldl_preserves (SameMined s3) unlockOutputRaw
      (fun a p hp => hp.trans (sameMined_unlockOutputRaw a p)) rec.ins s3 (SameMined.refl s3)
    have huc : (rec.ins.foldl unlockOutputRaw s3).unminedCredits = s3.unminedCredits := foldl_unlock_uc _ _
    exact wf_of_sameMined hsm (by rw [huc]; exact hw3.nodupUC) hw3

end TxStore
