import BtcwVerif.Lemmas.WF2
import BtcwVerif.Lemmas.Rollback
/-!
# `rollback` preserves `WF2`

The main loop of `rollback` removes one transaction at a time while the block records stay in place until the end,
so the invariant is stated on a *virtual* store `vs B Tv r`: the real buckets of the loop state `r`, with the block
bucket replaced by `B` (block lists shrink as transactions are removed), the record bucket by `Tv` (the record of the
transaction being removed stays visible until all its credits and debits are gone) and the counter by the running
balance `r.bal`.  None of the per-input / per-output steps reads blocks or records, so they act on the virtual store
exactly as on the real one.  A debit may be *dangling* (its credit already erased) only when the credit belonged to a
transaction of the block being processed that was removed earlier (`D`).
-/
namespace TxStore
open KMap

/-- virtual store -/
def vs (B : KMap Nat BlockRec) (Tv : KMap TxKey Tx) (r : RB) : Store :=
  { r.s with blocks := B, txrecs := Tv, minedBalance := r.bal }

def DebLoop (blk : Block) (D : List Nat) (s : Store) : Prop :=
  ∀ dk d, s.debits.find? dk = some d → DebitBase s.txrecs.find? dk d ∧
    (DebitLive s dk d ∨ (s.credits.find? d.credKey = none ∧ d.credKey.block = blk ∧ d.credKey.hash ∈ D))

structure RJ (B : KMap Nat BlockRec) (Tv : KMap TxKey Tx) (blk : Block) (D : List Nat) (r : RB) : Prop where
  wf : WF (vs B Tv r)
  outs : OutsBound (vs B Tv r)
  deb : DebLoop blk D (vs B Tv r)

theorem wfvs_congr {B : KMap Nat BlockRec} {Tv : KMap TxKey Tx} {r r' : RB}
    (hc : r'.s.credits = r.s.credits) (hu : r'.s.unspent = r.s.unspent) (huc : r'.s.unminedCredits = r.s.unminedCredits)
    (hb : r'.bal = r.bal) (hw : WF (vs B Tv r)) : WF (vs B Tv r') := by
  refine ⟨by show NodupKeys r'.s.credits; rw [hc]; exact hw.nodupCredits,
      by show NodupKeys r'.s.unspent; rw [hu]; exact hw.nodupUnspent,
      by show NodupKeys r'.s.unminedCredits; rw [huc]; exact hw.nodupUC,
      hw.sorted, hw.txsNodup, hw.recorded, hw.recListed, hw.oneBlock, ?_, ?_, ?_⟩
  · intro k cv hk
    have hk' : r.s.credits.find? k = some cv := by rw [← hc]; exact hk
    exact hw.listed k cv hk'
  · intro op b
    show r'.s.unspent.find? op = some b ↔ ∃ cv, r'.s.credits.find? _ = some cv ∧ _
    rw [hu, hc]; exact hw.index op b
  · show r'.bal = creditSum r'.s.credits
    rw [hb, hc]; exact hw.counter

/-- the invariant only looks at credits, unspent index, unconfirmed credits, debits and the running balance -/
theorem rj_congr {B : KMap Nat BlockRec} {Tv : KMap TxKey Tx} {blk : Block} {D : List Nat} {r r' : RB}
    (hc : r'.s.credits = r.s.credits) (hu : r'.s.unspent = r.s.unspent) (huc : r'.s.unminedCredits = r.s.unminedCredits)
    (hd : r'.s.debits = r.s.debits) (hb : r'.bal = r.bal) (hj : RJ B Tv blk D r) : RJ B Tv blk D r' := by
  have hw := hj.wf
  refine ⟨?_, ?_, ?_⟩
  · refine ⟨by show NodupKeys r'.s.credits; rw [hc]; exact hw.nodupCredits,
      by show NodupKeys r'.s.unspent; rw [hu]; exact hw.nodupUnspent,
      by show NodupKeys r'.s.unminedCredits; rw [huc]; exact hw.nodupUC,
      hw.sorted, hw.txsNodup, hw.recorded, hw.recListed, hw.oneBlock, ?_, ?_, ?_⟩
    · intro k cv hk
      have hk' : r.s.credits.find? k = some cv := by rw [← hc]; exact hk
      exact hw.listed k cv hk'
    · intro op b
      show r'.s.unspent.find? op = some b ↔ ∃ cv, r'.s.credits.find? _ = some cv ∧ _
      rw [hu, hc]; exact hw.index op b
    · show r'.bal = creditSum r'.s.credits
      rw [hb, hc]; exact hw.counter
  · exact hj.outs
  · intro dk d hf
    have hf' : r.s.debits.find? dk = some d := by rw [← hd]; exact hf
    obtain ⟨h1, h2⟩ := hj.deb dk d hf'
    refine ⟨h1, ?_⟩
    rcases h2 with ⟨cv, a1, a2, a3⟩ | ⟨a1, a2, a3⟩
    · left; exact ⟨cv, by show r'.s.credits.find? _ = _; rw [hc]; exact a1, a2, a3⟩
    · right; exact ⟨by show r'.s.credits.find? _ = _; rw [hc]; exact a1, a2, a3⟩

/-! ### one input of the transaction being removed -/

/-- `rbInput` without the (irrelevant here) write to the unmined-inputs bucket -/
def rbInputCore (rec : Tx) (blk : Block) (r : RB) (i : Nat) (inp : OutPoint) : RB :=
  match r.s.debits.find? ⟨rec.hash, blk, i⟩ with
  | none => r
  | some d =>
    match r.s.credits.find? d.credKey with
    | none => { r with s := { r.s with debits := r.s.debits.erase ⟨rec.hash, blk, i⟩ } }
    | some cv =>
      { r with bal := r.bal + cv.amount,
               s := { r.s with credits := r.s.credits.insert d.credKey { cv with spent := false, spender := none },
                               debits := r.s.debits.erase ⟨rec.hash, blk, i⟩,
                               unspent := r.s.unspent.insert inp d.credKey.block } }

theorem rbInput_eq (rec : Tx) (blk : Block) (r : RB) (i : Nat) (inp : OutPoint) :
    rbInput rec blk r (i, inp) = rbInputCore rec blk { r with s := putRawUnminedInput r.s inp rec.hash } i inp := by
  unfold rbInput rbInputCore
  simp only
  cases hd : (putRawUnminedInput r.s inp rec.hash).debits.find? ⟨rec.hash, blk, i⟩ with
  | none => rfl
  | some d =>
    simp only
    cases hc : (putRawUnminedInput r.s inp rec.hash).credits.find? d.credKey with
    | none => simp [unspendRawCredit, hc, contains_eq]
    | some cv => simp [unspendRawCredit, hc, contains_eq]

theorem rj_rbInputCore (B : KMap Nat BlockRec) (Tv : KMap TxKey Tx) (blk : Block) (D : List Nat) (rec : Tx) (r : RB)
    (i : Nat) (inp : OutPoint) (hj : RJ B Tv blk D r)
    (hrec : Tv.find? ⟨rec.hash, blk⟩ = some rec) (hin : rec.ins[i]? = some inp) :
    RJ B Tv blk D (rbInputCore rec blk r i inp) ∧
      (rbInputCore rec blk r i inp).s.debits.find? ⟨rec.hash, blk, i⟩ = none ∧
      (∀ dk, (rbInputCore rec blk r i inp).s.debits.find? dk = none ∨
             (rbInputCore rec blk r i inp).s.debits.find? dk = r.s.debits.find? dk) ∧
      (∀ k, ((rbInputCore rec blk r i inp).s.credits.find? k).isSome = (r.s.credits.find? k).isSome) ∧
      (rbInputCore rec blk r i inp).s.unminedCredits = r.s.unminedCredits := by
  unfold rbInputCore
  cases hd : r.s.debits.find? ⟨rec.hash, blk, i⟩ with
  | none => exact ⟨hj, hd, fun _ => Or.inr rfl, fun _ => rfl, rfl⟩
  | some d =>
    simp only
    obtain ⟨hbase, hlive⟩ := hj.deb ⟨rec.hash, blk, i⟩ d hd
    have herase : ∀ dk, (r.s.debits.erase ⟨rec.hash, blk, i⟩).find? dk = none ∨
        (r.s.debits.erase ⟨rec.hash, blk, i⟩).find? dk = r.s.debits.find? dk := by
      intro dk
      simp only [find?_erase]
      split
      · exact Or.inl rfl
      · exact Or.inr rfl
    cases hc : r.s.credits.find? d.credKey with
    | none =>
      -- the credit was removed earlier in this rollback: only the debit goes
      simp only
      refine ⟨⟨wfvs_congr (r := r) rfl rfl rfl rfl hj.wf, hj.outs, ?_⟩, by simp, herase, fun _ => by first | rfl | trivial, by first | rfl | trivial⟩
      intro dk d1 hf
      have hf' : (r.s.debits.erase ⟨rec.hash, blk, i⟩).find? dk = some d1 := hf
      simp only [find?_erase] at hf'
      split at hf'
      · cases hf'
      · exact hj.deb dk d1 hf'
    | some cv =>
      simp only
      have hcV : (vs B Tv r).credits.find? d.credKey = some cv := hc
      -- the debit is live: the credit is marked spent by exactly this debit
      have hl : cv.spent = true ∧ cv.spender = some ⟨rec.hash, blk, i⟩ := by
        rcases hlive with ⟨cv', h1, h2, h3⟩ | ⟨h1, _⟩
        · rw [hcV] at h1; cases h1; exact ⟨h2, h3⟩
        · rw [hcV] at h1; cases h1
      -- the input it was recorded for is the credit's outpoint
      have hop : d.credKey.outPoint = inp := by
        obtain ⟨⟨rec', hr', hin'⟩, _⟩ := hbase
        have : (vs B Tv r).txrecs.find? (⟨rec.hash, blk, i⟩ : CredKey).txKey = some rec := hrec
        rw [this] at hr'; cases hr'
        simp only at hin'
        rw [hin] at hin'; cases hin'; rfl
      have hck : d.credKey = ⟨inp.hash, d.credKey.block, inp.index⟩ := by
        rw [← hop]; rfl
      have hw := hj.wf
      refine ⟨⟨?_, hj.outs, ?_⟩, by simp, herase, ?_, by first | rfl | trivial⟩
      · -- WF of the virtual store
        refine ⟨nodupKeys_insert _ _ _ hw.nodupCredits, nodupKeys_insert _ _ _ hw.nodupUnspent, hw.nodupUC, hw.sorted,
          hw.txsNodup, hw.recorded, hw.recListed, hw.oneBlock, ?_, ?_, ?_⟩
        · intro k cv1 hk
          have hk' : (r.s.credits.insert d.credKey { cv with spent := false, spender := none }).find? k = some cv1 := hk
          simp only [find?_insert] at hk'
          split at hk'
          · rename_i e
            cases hk'; subst e
            exact hw.listed _ cv hcV
          · exact hw.listed k cv1 hk'
        · intro op b
          show (r.s.unspent.insert inp d.credKey.block).find? op = some b ↔
            ∃ cv1, (r.s.credits.insert d.credKey { cv with spent := false, spender := none }).find?
              ⟨op.hash, b, op.index⟩ = some cv1 ∧ cv1.spent = false
          simp only [find?_insert]
          by_cases hopp : inp = op
          · subst hopp
            simp only [if_true]
            by_cases hb : d.credKey.block = b
            · subst hb
              rw [← hck]; simp
            · have hne : ¬ d.credKey = ⟨inp.hash, b, inp.index⟩ := by
                intro e; apply hb; rw [e]
              simp only [hne, if_false]
              constructor
              · intro e; injection e with e; exact absurd e hb
              · rintro ⟨cv1, hcv1, _⟩
                exfalso
                have hcv1' : (vs B Tv r).credits.find? ⟨inp.hash, b, inp.index⟩ = some cv1 := hcv1
                obtain ⟨_, r1, _, _, _, hr1, _⟩ := hw.listed _ _ hcv1'
                obtain ⟨_, r2, _, _, _, hr2, _⟩ := hw.listed _ _ hcV
                have e1 : ((vs B Tv r).txrecs.find? (⟨inp.hash, b⟩ : TxKey)).isSome := by
                  have : (⟨inp.hash, b, inp.index⟩ : CredKey).txKey = ⟨inp.hash, b⟩ := rfl
                  rw [this] at hr1; rw [hr1]; rfl
                have e2 : ((vs B Tv r).txrecs.find? (⟨inp.hash, d.credKey.block⟩ : TxKey)).isSome := by
                  have : d.credKey.txKey = ⟨inp.hash, d.credKey.block⟩ := by rw [hck]; rfl
                  rw [this] at hr2; rw [hr2]; rfl
                have h2 := hw.oneBlock ⟨inp.hash, b⟩ ⟨inp.hash, d.credKey.block⟩ e1 e2 rfl
                apply hb
                injection h2 with _ e3; exact e3.symm
          · have hne : ¬ d.credKey = ⟨op.hash, b, op.index⟩ := by
              intro e; apply hopp
              rw [← hop, e]; cases op; rfl
            simp only [hopp, hne, if_false]
            exact hw.index op b
        · show r.bal + cv.amount = creditSum (r.s.credits.insert d.credKey { cv with spent := false, spender := none })
          unfold creditSum
          have hnc : NodupKeys r.s.credits := hw.nodupCredits
          rw [sum_insert _ _ _ _ hnc, hc]
          have := hw.counter
          unfold creditSum at this
          have this' : r.bal = (List.map (fun p : CredKey × CreditVal => if p.snd.spent = true then 0 else p.snd.amount)
            r.s.credits).sum := this
          simp only [hl.1, if_true, Bool.false_eq_true, if_false]
          omega
      · -- debits
        intro dk d1 hf
        have hf' : (r.s.debits.erase ⟨rec.hash, blk, i⟩).find? dk = some d1 := hf
        simp only [find?_erase] at hf'
        split at hf'
        · cases hf'
        · rename_i hne
          obtain ⟨hb1, hl1⟩ := hj.deb dk d1 hf'
          refine ⟨hb1, ?_⟩
          have hne2 : d1.credKey ≠ d.credKey := by
            intro e
            rcases hl1 with ⟨cv', h1, _, h3⟩ | ⟨h1, _⟩
            · rw [e, hcV] at h1; cases h1
              rw [hl.2] at h3; injection h3 with h3; exact hne h3
            · rw [e, hcV] at h1; cases h1
          rcases hl1 with ⟨cv', h1, h2, h3⟩ | ⟨h1, h2, h3⟩
          · left
            refine ⟨cv', ?_, h2, h3⟩
            show (r.s.credits.insert d.credKey _).find? d1.credKey = some cv'
            rw [find?_insert_ne _ _ (fun e => hne2 e.symm)]; exact h1
          · right
            refine ⟨?_, h2, h3⟩
            show (r.s.credits.insert d.credKey _).find? d1.credKey = none
            rw [find?_insert_ne _ _ (fun e => hne2 e.symm)]; exact h1
      · intro k
        show ((r.s.credits.insert d.credKey _).find? k).isSome = _
        simp only [find?_insert]
        split
        · rename_i e; subst e; simp [hc]
        · rfl

/-! ### one credited output of the transaction being removed -/

/-- common part of `rbOutput` (credit moves to the unconfirmed bucket) and `rbCoinbaseOut` (credit is dropped) -/
def rbEraseCore (rec : Tx) (blk : Block) (r : RB) (i : Nat) (value : Int) (toUnmined : Bool) : RB :=
  match r.s.credits.find? ⟨rec.hash, blk, i⟩ with
  | none => r
  | some v =>
    let uc := if toUnmined then r.s.unminedCredits.insert ⟨rec.hash, i⟩ ⟨v.amount, v.change⟩ else r.s.unminedCredits
    if r.s.unspent.contains ⟨rec.hash, i⟩ then
      { r with bal := r.bal - value,
               s := { r.s with unminedCredits := uc, credits := r.s.credits.erase ⟨rec.hash, blk, i⟩,
                               unspent := r.s.unspent.erase ⟨rec.hash, i⟩ } }
    else { r with s := { r.s with unminedCredits := uc, credits := r.s.credits.erase ⟨rec.hash, blk, i⟩ } }

theorem rbOutput_eq (rec : Tx) (blk : Block) (r : RB) (i : Nat) (value : Int) :
    rbOutput rec blk r (i, value) = rbEraseCore rec blk r i value true := by
  unfold rbOutput rbEraseCore
  simp only
  cases r.s.credits.find? ⟨rec.hash, blk, i⟩ with
  | none => rfl
  | some v =>
    simp only [if_true]

theorem rbCoinbaseOut_eq (rec : Tx) (blk : Block) (r : RB) (i : Nat) (value : Int) :
    (rbCoinbaseOut rec blk r (i, value)).s = (rbEraseCore rec blk r i value false).s ∧
    (rbCoinbaseOut rec blk r (i, value)).bal = (rbEraseCore rec blk r i value false).bal ∧
    (rbCoinbaseOut rec blk r (i, value)).cb = r.cb ++ [⟨rec.hash, i⟩] := by
  unfold rbCoinbaseOut rbEraseCore
  simp only
  cases hc : r.s.credits.find? ⟨rec.hash, blk, i⟩ with
  | none =>
    have hcc : r.s.credits.contains ⟨rec.hash, blk, i⟩ = false := by simp [contains_eq, hc]
    simp only [hcc, Bool.not_false, if_true]
    refine ⟨?_, ?_, ?_⟩ <;> first | rfl | trivial
  | some v =>
    have hcc : r.s.credits.contains ⟨rec.hash, blk, i⟩ = true := by simp [contains_eq, hc]
    by_cases hu : r.s.unspent.contains ⟨rec.hash, i⟩ = true
    · simp only [hcc, hu, Bool.not_true, Bool.false_eq_true, if_false, if_true]
      refine ⟨?_, ?_, ?_⟩ <;> first | rfl | trivial
    · simp only [hcc, hu, Bool.not_true, Bool.false_eq_true, if_false]
      refine ⟨?_, ?_, ?_⟩ <;> first | rfl | trivial

theorem rj_rbEraseCore (B : KMap Nat BlockRec) (Tv : KMap TxKey Tx) (blk : Block) (D : List Nat) (rec : Tx) (r : RB)
    (i : Nat) (value : Int) (tu : Bool) (hj : RJ B Tv blk D r)
    (hrec : Tv.find? ⟨rec.hash, blk⟩ = some rec) (hout : rec.outs[i]? = some value) (hD : rec.hash ∈ D) :
    RJ B Tv blk D (rbEraseCore rec blk r i value tu) ∧
      (rbEraseCore rec blk r i value tu).s.credits.find? ⟨rec.hash, blk, i⟩ = none ∧
      (∀ k, (rbEraseCore rec blk r i value tu).s.credits.find? k = none ∨
            (rbEraseCore rec blk r i value tu).s.credits.find? k = r.s.credits.find? k) ∧
      (rbEraseCore rec blk r i value tu).s.debits = r.s.debits := by
  unfold rbEraseCore
  cases hv : r.s.credits.find? ⟨rec.hash, blk, i⟩ with
  | none => exact ⟨hj, hv, fun _ => Or.inr rfl, rfl⟩
  | some v =>
    simp only
    have hw := hj.wf
    have hvV : (vs B Tv r).credits.find? ⟨rec.hash, blk, i⟩ = some v := hv
    have hnc : NodupKeys r.s.credits := hw.nodupCredits
    -- the credit's amount is the value of that output
    have hval : value = v.amount := by
      obtain ⟨_, rec', _, _, _, hr', ho'⟩ := hw.listed _ _ hvV
      have : (vs B Tv r).txrecs.find? (⟨rec.hash, blk, i⟩ : CredKey).txKey = some rec := hrec
      rw [this] at hr'; cases hr'
      simp only at ho'
      rw [hout] at ho'; cases ho'; rfl
    -- any unspent credit for this outpoint is this very credit
    have honly : ∀ b cv, r.s.credits.find? ⟨rec.hash, b, i⟩ = some cv → b = blk := by
      intro b cv hcv
      have hcv' : (vs B Tv r).credits.find? ⟨rec.hash, b, i⟩ = some cv := hcv
      obtain ⟨_, r1, _, _, _, hr1, _⟩ := hw.listed _ _ hcv'
      have e1 : ((vs B Tv r).txrecs.find? (⟨rec.hash, b⟩ : TxKey)).isSome := by
        have : (⟨rec.hash, b, i⟩ : CredKey).txKey = ⟨rec.hash, b⟩ := rfl
        rw [this] at hr1; rw [hr1]; rfl
      have e2 : ((vs B Tv r).txrecs.find? (⟨rec.hash, blk⟩ : TxKey)).isSome := by
        have : (vs B Tv r).txrecs.find? ⟨rec.hash, blk⟩ = some rec := hrec
        rw [this]; rfl
      have h2 := hw.oneBlock ⟨rec.hash, b⟩ ⟨rec.hash, blk⟩ e1 e2 rfl
      injection h2 with _ e3
    have herase : ∀ k, (r.s.credits.erase ⟨rec.hash, blk, i⟩).find? k = none ∨
        (r.s.credits.erase ⟨rec.hash, blk, i⟩).find? k = r.s.credits.find? k := by
      intro k
      simp only [find?_erase]
      split
      · exact Or.inl rfl
      · exact Or.inr rfl
    have hdeb : ∀ (r' : RB), r'.s.debits = r.s.debits → r'.s.credits = r.s.credits.erase ⟨rec.hash, blk, i⟩ →
        DebLoop blk D (vs B Tv r') := by
      intro r' hd' hc' dk d hf
      have hf' : r.s.debits.find? dk = some d := by rw [← hd']; exact hf
      obtain ⟨hb1, hl1⟩ := hj.deb dk d hf'
      refine ⟨hb1, ?_⟩
      by_cases hk : d.credKey = ⟨rec.hash, blk, i⟩
      · right
        refine ⟨?_, by rw [hk], by rw [hk]; exact hD⟩
        show r'.s.credits.find? d.credKey = none
        rw [hc', hk]; simp
      · rcases hl1 with ⟨cv', h1, h2, h3⟩ | ⟨h1, h2, h3⟩
        · left
          refine ⟨cv', ?_, h2, h3⟩
          show r'.s.credits.find? d.credKey = some cv'
          rw [hc', find?_erase_ne _ (fun e => hk e.symm)]; exact h1
        · right
          refine ⟨?_, h2, h3⟩
          show r'.s.credits.find? d.credKey = none
          rw [hc', find?_erase_ne _ (fun e => hk e.symm)]; exact h1
    have hucn : NodupKeys (if tu = true then r.s.unminedCredits.insert ⟨rec.hash, i⟩ ⟨v.amount, v.change⟩
        else r.s.unminedCredits) := by
      split
      · exact nodupKeys_insert _ _ _ hw.nodupUC
      · exact hw.nodupUC
    by_cases hu : r.s.unspent.contains ⟨rec.hash, i⟩ = true
    · -- the credit is in the unspent index: it leaves the index and the running balance
      simp only [hu, if_true]
      have hsome : ∃ b0, r.s.unspent.find? ⟨rec.hash, i⟩ = some b0 := by
        cases hf : r.s.unspent.find? ⟨rec.hash, i⟩ with
        | none => simp [contains_eq, hf] at hu
        | some b0 => exact ⟨b0, rfl⟩
      obtain ⟨b0, hb0⟩ := hsome
      obtain ⟨cv0, hcv0, hsp0⟩ := (hw.index ⟨rec.hash, i⟩ b0).mp hb0
      have hb0e : b0 = blk := honly b0 cv0 hcv0
      subst hb0e
      have hv0 : cv0 = v := by
        have : r.s.credits.find? ⟨rec.hash, b0, i⟩ = some cv0 := hcv0
        rw [hv] at this; cases this; rfl
      subst hv0
      refine ⟨⟨?_, hj.outs, hdeb _ rfl rfl⟩, by simp, herase, by first | rfl | trivial⟩
      refine ⟨nodupKeys_erase _ _ hw.nodupCredits, nodupKeys_erase _ _ hw.nodupUnspent, hucn, hw.sorted,
        hw.txsNodup, hw.recorded, hw.recListed, hw.oneBlock, ?_, ?_, ?_⟩
      · intro k cv1 hk
        have hk' : (r.s.credits.erase ⟨rec.hash, b0, i⟩).find? k = some cv1 := hk
        simp only [find?_erase] at hk'
        split at hk'
        · cases hk'
        · exact hw.listed k cv1 hk'
      · intro op b
        show (r.s.unspent.erase ⟨rec.hash, i⟩).find? op = some b ↔
          ∃ cv1, (r.s.credits.erase ⟨rec.hash, b0, i⟩).find? ⟨op.hash, b, op.index⟩ = some cv1 ∧ cv1.spent = false
        simp only [find?_erase]
        by_cases hopp : (⟨rec.hash, i⟩ : OutPoint) = op
        · subst hopp
          simp only [if_true]
          constructor
          · intro e; cases e
          · rintro ⟨cv1, hk1, hs1⟩
            exfalso
            split at hk1
            · cases hk1
            · rename_i hne
              have := honly b cv1 hk1
              subst this
              exact hne rfl
        · have hne : ¬ (⟨rec.hash, b0, i⟩ : CredKey) = ⟨op.hash, b, op.index⟩ := by
            intro e; apply hopp
            have e1 : rec.hash = op.hash := congrArg CredKey.hash e
            have e3 : i = op.index := congrArg CredKey.index e
            cases op; simp only at e1 e3; rw [e1, e3]
          simp only [hopp, hne, if_false]
          exact hw.index op b
      · show r.bal - value = creditSum (r.s.credits.erase ⟨rec.hash, b0, i⟩)
        unfold creditSum
        rw [sum_erase _ _ _ hnc, hv]
        have := hw.counter
        unfold creditSum at this
        have this' : r.bal = (List.map (fun p : CredKey × CreditVal => if p.snd.spent = true then 0 else p.snd.amount)
          r.s.credits).sum := this
        simp only [hsp0, Bool.false_eq_true, if_false]
        omega
    · -- not in the index: the credit is marked spent by a mined transaction; only the record goes
      simp only [hu, if_false, Bool.false_eq_true]
      have hnone : r.s.unspent.find? ⟨rec.hash, i⟩ = none := by
        cases hf : r.s.unspent.find? ⟨rec.hash, i⟩ with
        | none => rfl
        | some b0 => simp [contains_eq, hf] at hu
      have hspent : v.spent = true := by
        cases hs : v.spent with
        | true => rfl
        | false =>
          have := (hw.index ⟨rec.hash, i⟩ blk).mpr ⟨v, hvV, hs⟩
          have h' : r.s.unspent.find? ⟨rec.hash, i⟩ = some blk := this
          rw [hnone] at h'; cases h'
      refine ⟨⟨?_, hj.outs, hdeb _ rfl rfl⟩, by simp, herase, by first | rfl | trivial⟩
      refine ⟨nodupKeys_erase _ _ hw.nodupCredits, hw.nodupUnspent, hucn, hw.sorted,
        hw.txsNodup, hw.recorded, hw.recListed, hw.oneBlock, ?_, ?_, ?_⟩
      · intro k cv1 hk
        have hk' : (r.s.credits.erase ⟨rec.hash, blk, i⟩).find? k = some cv1 := hk
        simp only [find?_erase] at hk'
        split at hk'
        · cases hk'
        · exact hw.listed k cv1 hk'
      · intro op b
        show r.s.unspent.find? op = some b ↔
          ∃ cv1, (r.s.credits.erase ⟨rec.hash, blk, i⟩).find? ⟨op.hash, b, op.index⟩ = some cv1 ∧ cv1.spent = false
        simp only [find?_erase]
        by_cases hk : (⟨rec.hash, blk, i⟩ : CredKey) = ⟨op.hash, b, op.index⟩
        · simp only [hk, if_true]
          constructor
          · intro hf
            exfalso
            obtain ⟨cv1, hc1, hs1⟩ := (hw.index op b).mp hf
            have hc1' : r.s.credits.find? ⟨op.hash, b, op.index⟩ = some cv1 := hc1
            rw [← hk, hv] at hc1'; cases hc1'
            rw [hspent] at hs1; cases hs1
          · rintro ⟨cv1, h1, _⟩; cases h1
        · simp only [hk, if_false]
          exact hw.index op b
      · show r.bal = creditSum (r.s.credits.erase ⟨rec.hash, blk, i⟩)
        unfold creditSum
        rw [sum_erase _ _ _ hnc, hv]
        have := hw.counter
        unfold creditSum at this
        have this' : r.bal = (List.map (fun p : CredKey × CreditVal => if p.snd.spent = true then 0 else p.snd.amount)
          r.s.credits).sum := this
        simp only [hspent, if_true]
        omega

/-! ### the loops of `rbTx` -/

theorem rj_mono_D {B : KMap Nat BlockRec} {Tv : KMap TxKey Tx} {blk : Block} {D D' : List Nat} {r : RB}
    (hsub : ∀ x ∈ D, x ∈ D') (hj : RJ B Tv blk D r) : RJ B Tv blk D' r := by
  refine ⟨hj.wf, hj.outs, ?_⟩
  intro dk d hf
  obtain ⟨h1, h2⟩ := hj.deb dk d hf
  refine ⟨h1, ?_⟩
  rcases h2 with h | ⟨a1, a2, a3⟩
  · exact Or.inl h
  · exact Or.inr ⟨a1, a2, hsub _ a3⟩

theorem rbInput_txrecs (rec : Tx) (blk : Block) (r : RB) (ii : Nat × OutPoint) :
    (rbInput rec blk r ii).s.txrecs = r.s.txrecs := by
  obtain ⟨i, inp⟩ := ii
  unfold rbInput
  dsimp only
  split
  · rfl
  · unfold unspendRawCredit
    split <;> (dsimp only; split <;> rfl)

theorem rbOutput_txrecs (rec : Tx) (blk : Block) (r : RB) (io : Nat × Int) :
    (rbOutput rec blk r io).s.txrecs = r.s.txrecs := by
  obtain ⟨i, v⟩ := io
  unfold rbOutput
  dsimp only
  split
  · rfl
  · split <;> rfl

theorem rbCoinbaseOut_txrecs (rec : Tx) (blk : Block) (r : RB) (io : Nat × Int) :
    (rbCoinbaseOut rec blk r io).s.txrecs = r.s.txrecs := by
  obtain ⟨i, v⟩ := io
  unfold rbCoinbaseOut
  dsimp only
  split
  · rfl
  · split <;> rfl

theorem foldl_txrecs {α : Type} (f : RB → α → RB) (hf : ∀ r a, (f r a).s.txrecs = r.s.txrecs) :
    ∀ (l : List α) (r : RB), (l.foldl f r).s.txrecs = r.s.txrecs := by
  intro l
  induction l with
  | nil => intro r; rfl
  | cons a t ih => intro r; rw [List.foldl_cons, ih, hf]

/-- the input loop -/
theorem rj_inputs (B : KMap Nat BlockRec) (Tv : KMap TxKey Tx) (blk : Block) (D : List Nat) (rec : Tx)
    (hrec : Tv.find? ⟨rec.hash, blk⟩ = some rec) :
    ∀ (l : List (Nat × OutPoint)) (r : RB), (∀ p ∈ l, rec.ins[p.1]? = some p.2) → RJ B Tv blk D r →
      RJ B Tv blk D (l.foldl (rbInput rec blk) r) ∧
      (∀ p ∈ l, (l.foldl (rbInput rec blk) r).s.debits.find? ⟨rec.hash, blk, p.1⟩ = none) ∧
      (∀ dk, (l.foldl (rbInput rec blk) r).s.debits.find? dk = none ∨
             (l.foldl (rbInput rec blk) r).s.debits.find? dk = r.s.debits.find? dk) ∧
      (∀ k, ((l.foldl (rbInput rec blk) r).s.credits.find? k).isSome = (r.s.credits.find? k).isSome) := by
  intro l
  induction l with
  | nil => intro r _ hj; exact ⟨hj, (fun p hp => by cases hp), fun _ => Or.inr rfl, fun _ => rfl⟩
  | cons a t ih =>
    intro r hl hj
    obtain ⟨i, inp⟩ := a
    rw [List.foldl_cons]
    have hj1 : RJ B Tv blk D { r with s := putRawUnminedInput r.s inp rec.hash } := rj_congr (r := r) rfl rfl rfl rfl rfl hj
    obtain ⟨h1, h2, h3, h4, _⟩ := rj_rbInputCore B Tv blk D rec _ i inp hj1 hrec (hl (i, inp) List.mem_cons_self)
    rw [← rbInput_eq] at h1 h2 h3 h4
    obtain ⟨g1, g2, g3, g4⟩ := ih (rbInput rec blk r (i, inp)) (fun p hp => hl p (List.mem_cons_of_mem _ hp)) h1
    refine ⟨g1, ?_, ?_, ?_⟩
    · intro p hp
      cases hp with
      | head =>
        rcases g3 ⟨rec.hash, blk, i⟩ with e | e
        · exact e
        · rw [e]; exact h2
      | tail _ hp' => exact g2 p hp'
    · intro dk
      rcases g3 dk with e | e
      · exact Or.inl e
      · rcases h3 dk with e' | e'
        · left; rw [e]; exact e'
        · right; rw [e]; exact e'
    · intro k; rw [g4 k]; exact h4 k

/-- the output loop of a non-coinbase transaction -/
theorem rj_outputs (B : KMap Nat BlockRec) (Tv : KMap TxKey Tx) (blk : Block) (D : List Nat) (rec : Tx)
    (hrec : Tv.find? ⟨rec.hash, blk⟩ = some rec) (hD : rec.hash ∈ D) :
    ∀ (l : List (Nat × Int)) (r : RB), (∀ p ∈ l, rec.outs[p.1]? = some p.2) → RJ B Tv blk D r →
      RJ B Tv blk D (l.foldl (rbOutput rec blk) r) ∧
      (∀ p ∈ l, (l.foldl (rbOutput rec blk) r).s.credits.find? ⟨rec.hash, blk, p.1⟩ = none) ∧
      (∀ k, (l.foldl (rbOutput rec blk) r).s.credits.find? k = none ∨
            (l.foldl (rbOutput rec blk) r).s.credits.find? k = r.s.credits.find? k) ∧
      (l.foldl (rbOutput rec blk) r).s.debits = r.s.debits := by
  intro l
  induction l with
  | nil => intro r _ hj; exact ⟨hj, (fun p hp => by cases hp), fun _ => Or.inr rfl, rfl⟩
  | cons a t ih =>
    intro r hl hj
    obtain ⟨i, v⟩ := a
    rw [List.foldl_cons]
    obtain ⟨h1, h2, h3, h4⟩ := rj_rbEraseCore B Tv blk D rec r i v true hj hrec (hl (i, v) List.mem_cons_self) hD
    rw [← rbOutput_eq] at h1 h2 h3 h4
    obtain ⟨g1, g2, g3, g4⟩ := ih (rbOutput rec blk r (i, v)) (fun p hp => hl p (List.mem_cons_of_mem _ hp)) h1
    refine ⟨g1, ?_, ?_, by rw [g4, h4]⟩
    · intro p hp
      cases hp with
      | head =>
        rcases g3 ⟨rec.hash, blk, i⟩ with e | e
        · exact e
        · rw [e]; exact h2
      | tail _ hp' => exact g2 p hp'
    · intro k
      rcases g3 k with e | e
      · exact Or.inl e
      · rcases h3 k with e' | e'
        · left; rw [e]; exact e'
        · right; rw [e]; exact e'

/-- the output loop of a coinbase -/
theorem rj_cbOutputs (B : KMap Nat BlockRec) (Tv : KMap TxKey Tx) (blk : Block) (D : List Nat) (rec : Tx)
    (hrec : Tv.find? ⟨rec.hash, blk⟩ = some rec) (hD : rec.hash ∈ D) :
    ∀ (l : List (Nat × Int)) (r : RB), (∀ p ∈ l, rec.outs[p.1]? = some p.2) → RJ B Tv blk D r →
      RJ B Tv blk D (l.foldl (rbCoinbaseOut rec blk) r) ∧
      (∀ p ∈ l, (l.foldl (rbCoinbaseOut rec blk) r).s.credits.find? ⟨rec.hash, blk, p.1⟩ = none) ∧
      (∀ k, (l.foldl (rbCoinbaseOut rec blk) r).s.credits.find? k = none ∨
            (l.foldl (rbCoinbaseOut rec blk) r).s.credits.find? k = r.s.credits.find? k) ∧
      (l.foldl (rbCoinbaseOut rec blk) r).s.debits = r.s.debits := by
  intro l
  induction l with
  | nil => intro r _ hj; exact ⟨hj, (fun p hp => by cases hp), fun _ => Or.inr rfl, rfl⟩
  | cons a t ih =>
    intro r hl hj
    obtain ⟨i, v⟩ := a
    rw [List.foldl_cons]
    obtain ⟨h1, h2, h3, h4⟩ := rj_rbEraseCore B Tv blk D rec r i v false hj hrec (hl (i, v) List.mem_cons_self) hD
    obtain ⟨es, eb, _⟩ := rbCoinbaseOut_eq rec blk r i v
    have h1' : RJ B Tv blk D (rbCoinbaseOut rec blk r (i, v)) :=
      rj_congr (by rw [es]) (by rw [es]) (by rw [es]) (by rw [es]) eb h1
    rw [← es] at h2 h3 h4
    obtain ⟨g1, g2, g3, g4⟩ := ih (rbCoinbaseOut rec blk r (i, v)) (fun p hp => hl p (List.mem_cons_of_mem _ hp)) h1'
    refine ⟨g1, ?_, ?_, by rw [g4, h4]⟩
    · intro p hp
      cases hp with
      | head =>
        rcases g3 ⟨rec.hash, blk, i⟩ with e | e
        · exact e
        · rw [e]; exact h2
      | tail _ hp' => exact g2 p hp'
    · intro k
      rcases g3 k with e | e
      · exact Or.inl e
      · rcases h3 k with e' | e'
        · left; rw [e]; exact e'
        · right; rw [e]; exact e'

/-! ### dropping the removed transaction from the view -/

theorem mem_withIdx {α : Type} : ∀ (l : List α) (n i : Nat) (a : α), l[i]? = some a → (n + i, a) ∈ withIdx l n := by
  intro l
  induction l with
  | nil => intro n i a h; simp at h
  | cons x t ih =>
    intro n i a h
    cases i with
    | zero => simp at h; subst h; simp [withIdx]
    | succ j =>
      rw [List.getElem?_cons_succ] at h
      have := ih (n + 1) j a h
      simp only [withIdx, List.mem_cons]
      right
      have e : n + (j + 1) = n + 1 + j := by omega
      rw [e]; exact this

theorem rj_drop (B : KMap Nat BlockRec) (Tv : KMap TxKey Tx) (blk : Block) (D : List Nat) (r : RB)
    (T : Nat) (rec : Tx) (br : BlockRec) (rest : List Nat)
    (hj : RJ B Tv blk D r)
    (hB : B.find? blk.height = some br) (hbh : br.hash = blk.hash) (htxs : br.txs = T :: rest)
    (hnoc : ∀ k, k.hash = T → k.block = blk → r.s.credits.find? k = none)
    (hnod : ∀ dk, dk.hash = T → dk.block = blk → r.s.debits.find? dk = none) :
    RJ (B.insert blk.height { br with txs := rest }) (Tv.erase ⟨T, blk⟩) blk D r := by
  have hw := hj.wf
  have hsB : (B.map (·.1)).Pairwise (· < ·) := hw.sorted
  have hnB : NodupKeys B := nodupKeys_of_sorted _ hsB
  have hsB' : ((B.insert blk.height { br with txs := rest }).map (·.1)).Pairwise (· < ·) :=
    sorted_insert_nat _ _ _ hsB
  have hnB' : NodupKeys (B.insert blk.height { br with txs := rest }) := nodupKeys_of_sorted _ hsB'
  have hnd : (T :: rest).Nodup := by
    have := hw.txsNodup (blk.height, br) (mem_of_find? _ hB)
    rw [← htxs]; exact this
  have hTrest : T ∉ rest := (List.nodup_cons.mp hnd).1
  have hblk : ∀ b : Block, b.height = blk.height → b.hash = br.hash → b = blk := by
    intro b h1 h2
    cases b; cases blk; simp only at h1 h2 hbh ⊢; rw [h1, h2, hbh]
  -- block lookups in the new view
  have hblock : ∀ (hh : Nat) (br0 : BlockRec) (x : Nat), B.find? hh = some br0 → x ∈ br0.txs →
      (x = T → hh = blk.height → False) →
      ∃ br1, (B.insert blk.height { br with txs := rest }).find? hh = some br1 ∧ br1.hash = br0.hash ∧ x ∈ br1.txs := by
    intro hh br0 x h0 hx hne
    simp only [find?_insert]
    by_cases e : blk.height = hh
    · subst e
      rw [hB] at h0; cases h0
      refine ⟨{ br with txs := rest }, by simp, rfl, ?_⟩
      rw [htxs] at hx
      cases hx with
      | head => exact (hne rfl rfl).elim
      | tail _ h' => exact h'
    · exact ⟨br0, by simp [e, h0], rfl, hx⟩
  refine ⟨?_, ?_, ?_⟩
  · refine ⟨hw.nodupCredits, hw.nodupUnspent, hw.nodupUC, hsB', ?_, ?_, ?_, ?_, ?_, hw.index, hw.counter⟩
    · -- txsNodup
      intro p hp
      obtain ⟨hh, b0⟩ := p
      have hf := find?_of_mem _ hnB' hp
      simp only [find?_insert] at hf
      split at hf
      · cases hf; exact (List.nodup_cons.mp hnd).2
      · exact hw.txsNodup _ (mem_of_find? _ hf)
    · -- recorded
      intro p hp tx htx
      obtain ⟨hh, b0⟩ := p
      have hf := find?_of_mem _ hnB' hp
      simp only [find?_insert] at hf
      show ((Tv.erase ⟨T, blk⟩).find? _).isSome
      split at hf
      · rename_i e
        cases hf
        simp only at htx ⊢
        have hold := hw.recorded (blk.height, br) (mem_of_find? _ hB) tx (by rw [htxs]; exact List.mem_cons_of_mem _ htx)
        rw [find?_erase_ne _ (by
          intro e2; injection e2 with e3 _; subst e3; exact hTrest htx)]
        rw [← e]; exact hold
      · rename_i e
        have hold := hw.recorded (hh, b0) (mem_of_find? _ hf) tx htx
        rw [find?_erase_ne _ (by
          intro e2; injection e2 with _ e4; apply e; rw [e4])]
        exact hold
    · -- recListed
      intro k rec0 hk
      have hk' : (Tv.erase ⟨T, blk⟩).find? k = some rec0 := hk
      simp only [find?_erase] at hk'
      split at hk'
      · cases hk'
      · rename_i hne
        obtain ⟨hh0, br0, hb0, hbh0, hmem⟩ := hw.recListed k rec0 hk'
        obtain ⟨br1, h1, h2, h3⟩ := hblock _ br0 k.hash hb0 hmem (by
          intro e1 e2
          have hb0' : B.find? blk.height = some br0 := by rw [← e2]; exact hb0
          rw [hB] at hb0'; cases hb0'
          apply hne
          have := hblk k.block e2 hbh0.symm
          cases k; simp only at e1 this ⊢; rw [e1, this])
        exact ⟨hh0, br1, h1, by rw [h2, hbh0], h3⟩
    · -- oneBlock
      intro k1 k2 h1 h2 e
      have g : ∀ k, ((Tv.erase ⟨T, blk⟩).find? k).isSome → (Tv.find? k).isSome := by
        intro k hk
        simp only [find?_erase] at hk
        split at hk
        · cases hk
        · exact hk
      exact hw.oneBlock k1 k2 (g k1 h1) (g k2 h2) e
    · -- listed
      intro k cv hk
      have hk' : r.s.credits.find? k = some cv := hk
      obtain ⟨br0, rec0, hb0, hbh0, hmem, hr0, hout⟩ := hw.listed k cv hk
      have hne : k.txKey ≠ ⟨T, blk⟩ := by
        intro e
        have e1 : k.hash = T := congrArg TxKey.hash e
        have e2 : k.block = blk := congrArg TxKey.block e
        rw [hnoc k e1 e2] at hk'; cases hk'
      obtain ⟨br1, h1, h2, h3⟩ := hblock _ br0 k.hash hb0 hmem (by
        intro e1 e2
        have hb0' : B.find? blk.height = some br0 := by rw [← e2]; exact hb0
        rw [hB] at hb0'; cases hb0'
        apply hne
        have := hblk k.block e2 hbh0.symm
        cases k; simp only [CredKey.txKey] at e1 this ⊢; rw [e1, this])
      refine ⟨br1, rec0, h1, by rw [h2, hbh0], h3, ?_, hout⟩
      show (Tv.erase ⟨T, blk⟩).find? k.txKey = some rec0
      rw [find?_erase_ne _ (fun e => hne e.symm)]; exact hr0
  · intro k rec0 hk
    have hk' : (Tv.erase ⟨T, blk⟩).find? k = some rec0 := hk
    simp only [find?_erase] at hk'
    split at hk'
    · cases hk'
    · exact hj.outs k rec0 hk'
  · intro dk d hf
    have hf' : r.s.debits.find? dk = some d := hf
    obtain ⟨⟨⟨rec0, hr0, hin0⟩, hrest⟩, h2⟩ := hj.deb dk d hf
    have hne : dk.txKey ≠ ⟨T, blk⟩ := by
      intro e
      have e1 : dk.hash = T := congrArg TxKey.hash e
      have e2 : dk.block = blk := congrArg TxKey.block e
      rw [hnod dk e1 e2] at hf'; cases hf'
    refine ⟨⟨⟨rec0, ?_, hin0⟩, hrest⟩, h2⟩
    show (Tv.erase ⟨T, blk⟩).find? dk.txKey = some rec0
    rw [find?_erase_ne _ (fun e => hne e.symm)]; exact hr0

/-! ### one transaction of a detached block -/

theorem withIdx_spec {α : Type} (l : List α) : ∀ p ∈ withIdx l, l[p.1]? = some p.2 := by
  intro p hp
  obtain ⟨i, a⟩ := p
  have := (withIdx_mem l 0 i a hp).2
  simpa using this

theorem rj_rbTx (B : KMap Nat BlockRec) (blk : Block) (D : List Nat) (r r' : RB) (T : Nat) (br : BlockRec)
    (rest : List Nat) (hj : RJ B r.s.txrecs blk D r)
    (hB : B.find? blk.height = some br) (hbh : br.hash = blk.hash) (htxs : br.txs = T :: rest)
    (h : rbTx blk r T = .ok r') :
    RJ (B.insert blk.height { br with txs := rest }) r'.s.txrecs blk (T :: D) r' := by
  have hw := hj.wf
  have hblkeq : (⟨blk.height, br.hash⟩ : Block) = blk := by rw [hbh]
  have hsome : (r.s.txrecs.find? ⟨T, blk⟩).isSome := by
    have := hw.recorded (blk.height, br) (mem_of_find? _ hB) T (by rw [htxs]; exact List.mem_cons_self)
    simp only [hblkeq] at this
    exact this
  unfold rbTx at h
  cases hrec : r.s.txrecs.find? ⟨T, blk⟩ with
  | none => rw [hrec] at hsome; cases hsome
  | some rec =>
    rw [hrec] at h
    simp only at h
    have hhash : rec.hash = T := (hw.recListed ⟨T, blk⟩ rec hrec).1
    have hrec' : r.s.txrecs.find? ⟨rec.hash, blk⟩ = some rec := by rw [hhash]; exact hrec
    have hDm : rec.hash ∈ T :: D := by rw [hhash]; exact List.mem_cons_self
    have hjD : RJ B r.s.txrecs blk (T :: D) r := rj_mono_D (fun x hx => List.mem_cons_of_mem _ hx) hj
    -- generic conclusion from the facts the loops provide
    have finish : ∀ r2 : RB, RJ B r.s.txrecs blk (T :: D) r2 → r2.s.txrecs = r.s.txrecs.erase ⟨T, blk⟩ →
        (∀ p ∈ withIdx rec.outs, r2.s.credits.find? ⟨rec.hash, blk, p.1⟩ = none) →
        (∀ dk d, r2.s.debits.find? dk = some d → dk.hash = T → dk.block = blk → False) →
        RJ (B.insert blk.height { br with txs := rest }) r2.s.txrecs blk (T :: D) r2 := by
      intro r2 hj2 htx2 hcred hdeb
      rw [htx2]
      apply rj_drop B r.s.txrecs blk (T :: D) r2 T rec br rest hj2 hB hbh htxs
      · intro k e1 e2
        cases hk : r2.s.credits.find? k with
        | none => rfl
        | some cv =>
          exfalso
          obtain ⟨_, rec0, _, _, _, hr0, hout⟩ := hj2.wf.listed k cv hk
          have hkt : k.txKey = ⟨rec.hash, blk⟩ := by
            cases k; simp only [CredKey.txKey] at e1 e2 ⊢; rw [e1, e2, hhash]
          have hr0' : r.s.txrecs.find? k.txKey = some rec0 := hr0
          rw [hkt, hrec'] at hr0'; cases hr0'
          have hm := mem_withIdx rec.outs 0 k.index cv.amount hout
          rw [Nat.zero_add] at hm
          have := hcred _ hm
          have hke : k = ⟨rec.hash, blk, k.index⟩ := by
            cases k; simp only at e1 e2 ⊢; rw [e1, e2, hhash]
          rw [← hke, hk] at this; cases this
      · intro dk e1 e2
        cases hk : r2.s.debits.find? dk with
        | none => rfl
        | some d => exact (hdeb dk d hk e1 e2).elim
    by_cases hcb : rec.isCoinBase = true
    · -- coinbase
      simp only [hcb, if_true, pure_eq, Except.ok.injEq] at h
      subst h
      have hj1 : RJ B r.s.txrecs blk (T :: D)
          { r with s := { r.s with txrecs := r.s.txrecs.erase ⟨T, blk⟩ } } :=
        rj_congr (r := r) rfl rfl rfl rfl rfl hjD
      obtain ⟨g1, g2, _, g4⟩ := rj_cbOutputs B r.s.txrecs blk (T :: D) rec hrec' hDm (withIdx rec.outs) _
        (withIdx_spec rec.outs) hj1
      apply finish _ g1
      · rw [foldl_txrecs _ (rbCoinbaseOut_txrecs rec blk)]
      · exact g2
      · intro dk d hk e1 e2
        obtain ⟨⟨⟨rec0, hr0, hin0⟩, _, hidx, _⟩, _⟩ := g1.deb dk d hk
        have hkt : dk.txKey = ⟨rec.hash, blk⟩ := by
          cases dk; simp only [CredKey.txKey] at e1 e2 ⊢; rw [e1, e2, hhash]
        have hr0' : r.s.txrecs.find? dk.txKey = some rec0 := hr0
        rw [hkt, hrec'] at hr0'; cases hr0'
        -- the only input of a coinbase is the null outpoint, whose index no credit can have
        unfold Tx.isCoinBase at hcb
        split at hcb
        · rename_i i0 hins
          rw [hins] at hin0
          have hi0 : i0.index = nullIndex := by
            have := hcb; simp only [Bool.and_eq_true, beq_iff_eq] at this; exact this.1
          cases hdi : dk.index with
          | zero =>
            rw [hdi] at hin0
            simp only [List.getElem?_cons_zero, Option.some.injEq] at hin0
            have : d.credKey.index = i0.index := by
              have := congrArg OutPoint.index hin0
              exact this.symm
            rw [this, hi0] at hidx
            exact Nat.lt_irrefl _ hidx
          | succ j => rw [hdi] at hin0; simp at hin0
        · cases hcb
    · -- ordinary transaction: it returns to the unconfirmed bucket
      simp only [hcb, if_false, pure_eq, Except.ok.injEq, Bool.false_eq_true] at h
      subst h
      have hj1 : RJ B r.s.txrecs blk (T :: D)
          { r with s := { r.s with txrecs := r.s.txrecs.erase ⟨T, blk⟩, unmined := r.s.unmined.insert T rec } } :=
        rj_congr (r := r) rfl rfl rfl rfl rfl hjD
      obtain ⟨a1, a2, _, _⟩ := rj_inputs B r.s.txrecs blk (T :: D) rec hrec' (withIdx rec.ins) _
        (withIdx_spec rec.ins) hj1
      obtain ⟨g1, g2, _, g4⟩ := rj_outputs B r.s.txrecs blk (T :: D) rec hrec' hDm (withIdx rec.outs) _
        (withIdx_spec rec.outs) a1
      apply finish _ g1
      · rw [foldl_txrecs _ (rbOutput_txrecs rec blk), foldl_txrecs _ (rbInput_txrecs rec blk)]
      · exact g2
      · intro dk d hk e1 e2
        obtain ⟨⟨⟨rec0, hr0, hin0⟩, _⟩, _⟩ := g1.deb dk d hk
        have hkt : dk.txKey = ⟨rec.hash, blk⟩ := by
          cases dk; simp only [CredKey.txKey] at e1 e2 ⊢; rw [e1, e2, hhash]
        have hr0' : r.s.txrecs.find? dk.txKey = some rec0 := hr0
        rw [hkt, hrec'] at hr0'; cases hr0'
        have hm := mem_withIdx rec.ins 0 dk.index _ hin0
        rw [Nat.zero_add] at hm
        have hnone := a2 _ hm
        simp only at hnone
        have hke : dk = ⟨rec.hash, blk, dk.index⟩ := by
          cases dk; simp only at e1 e2 ⊢; rw [e1, e2, hhash]
        rw [g4] at hk
        rw [hke, hnone] at hk; cases hk

/-! ### one block, all blocks, and `rollback` itself -/

theorem rj_block (blk : Block) : ∀ (txs : List Nat) (br : BlockRec) (B : KMap Nat BlockRec) (D : List Nat) (r r' : RB),
    RJ B r.s.txrecs blk D r → B.find? blk.height = some br → br.hash = blk.hash → br.txs = txs →
    txs.foldlM (rbTx blk) r = .ok r' →
    ∃ D', RJ (B.insert blk.height { br with txs := [] }) r'.s.txrecs blk D' r' := by
  intro txs
  induction txs with
  | nil =>
    intro br B D r r' hj hB hbh htxs h
    simp only [List.foldlM_nil, pure_eq, Except.ok.injEq] at h
    subst h
    refine ⟨D, ?_⟩
    have : (B.insert blk.height { br with txs := [] }) = B.insert blk.height br := by
      cases br; simp only at htxs; subst htxs; rfl
    rw [this]
    -- re-inserting the value already stored changes no lookup
    have hw := hj.wf
    have hfind : ∀ hh, (B.insert blk.height br).find? hh = B.find? hh := by
      intro hh
      simp only [find?_insert]
      split
      · rename_i e; subst e; exact hB.symm
      · rfl
    have hsB' : ((B.insert blk.height br).map (·.1)).Pairwise (· < ·) := sorted_insert_nat _ _ _ hw.sorted
    have hnB' := nodupKeys_of_sorted _ hsB'
    have hmem : ∀ p, p ∈ B.insert blk.height br → p ∈ B := by
      intro p hp
      obtain ⟨a, b⟩ := p
      have := find?_of_mem _ hnB' hp
      rw [hfind] at this
      exact mem_of_find? _ this
    refine ⟨⟨hw.nodupCredits, hw.nodupUnspent, hw.nodupUC, hsB', fun p hp => hw.txsNodup p (hmem p hp),
      fun p hp => hw.recorded p (hmem p hp), ?_, hw.oneBlock, ?_, hw.index, hw.counter⟩, hj.outs, hj.deb⟩
    · intro k rec0 hk
      obtain ⟨a, br0, b1, b2, b3⟩ := hw.recListed k rec0 hk
      exact ⟨a, br0, by show (B.insert blk.height br).find? _ = _; rw [hfind]; exact b1, b2, b3⟩
    · intro k cv hk
      obtain ⟨br0, rec0, b1, b2, b3, b4, b5⟩ := hw.listed k cv hk
      exact ⟨br0, rec0, by show (B.insert blk.height br).find? _ = _; rw [hfind]; exact b1, b2, b3, b4, b5⟩
  | cons T rest ih =>
    intro br B D r r' hj hB hbh htxs h
    rw [List.foldlM_cons] at h
    cases h1 : rbTx blk r T with
    | error e => rw [h1] at h; cases h
    | ok r1 =>
      rw [h1, bind_ok] at h
      have hj1 := rj_rbTx B blk D r r1 T br rest hj hB hbh htxs h1
      obtain ⟨D', hD'⟩ := ih { br with txs := rest } (B.insert blk.height { br with txs := rest }) (T :: D) r1 r' hj1
        (by simp) hbh rfl h
      refine ⟨D', ?_⟩
      rw [insert_insert] at hD'
      exact hD'

theorem rj_block_done (B : KMap Nat BlockRec) (Tv : KMap TxKey Tx) (blk blk' : Block) (D : List Nat) (r : RB)
    (br : BlockRec) (hj : RJ B Tv blk D r) (hB : B.find? blk.height = some br) (hempty : br.txs = [])
    (htop : ∀ hh br', B.find? hh = some br' → hh ≤ blk.height) :
    RJ (B.erase blk.height) Tv blk' [] r := by
  have hw := hj.wf
  have hsB' : ((B.erase blk.height).map (·.1)).Pairwise (· < ·) := sorted_erase_nat _ _ hw.sorted
  have hnB' := nodupKeys_of_sorted _ hsB'
  have hmem : ∀ p, p ∈ B.erase blk.height → p ∈ B := by
    intro p hp; unfold erase at hp; exact (List.mem_filter.mp hp).1
  have hkeep : ∀ hh br0 (x : Nat), B.find? hh = some br0 → x ∈ br0.txs → (B.erase blk.height).find? hh = some br0 := by
    intro hh br0 x h0 hx
    rw [find?_erase_ne _ (by
      intro e; subst e; rw [hB] at h0; cases h0; rw [hempty] at hx; cases hx)]
    exact h0
  refine ⟨⟨hw.nodupCredits, hw.nodupUnspent, hw.nodupUC, hsB', fun p hp => hw.txsNodup p (hmem p hp),
    fun p hp => hw.recorded p (hmem p hp), ?_, hw.oneBlock, ?_, hw.index, hw.counter⟩, hj.outs, ?_⟩
  · intro k rec0 hk
    obtain ⟨a, br0, b1, b2, b3⟩ := hw.recListed k rec0 hk
    exact ⟨a, br0, hkeep _ br0 k.hash b1 b3, b2, b3⟩
  · intro k cv hk
    obtain ⟨br0, rec0, b1, b2, b3, b4, b5⟩ := hw.listed k cv hk
    exact ⟨br0, rec0, hkeep _ br0 k.hash b1 b3, b2, b3, b4, b5⟩
  · intro dk d hf
    obtain ⟨hb1, hl1⟩ := hj.deb dk d hf
    refine ⟨hb1, ?_⟩
    rcases hl1 with hl | ⟨_, a2, _⟩
    · exact Or.inl hl
    · -- a dangling debit would belong to a transaction recorded in this (now empty) block or above: impossible
      exfalso
      obtain ⟨⟨rec0, hr0, _⟩, hle, _⟩ := hb1
      obtain ⟨_, br0, b1, _, b3⟩ := hw.recListed dk.txKey rec0 hr0
      have h1 : dk.block.height ≤ blk.height := htop _ br0 b1
      have h2 : dk.block.height ≠ blk.height := by
        intro e
        have b1' : B.find? blk.height = some br0 := by
          have : dk.txKey.block.height = dk.block.height := rfl
          rw [← e, ← this]; exact b1
        rw [hB] at b1'; cases b1'
        rw [hempty] at b3; cases b3
      rw [a2] at hle
      omega

/-- the block bucket after erasing a list of heights -/
def eraseBlocks (B : KMap Nat BlockRec) (L : List (Nat × BlockRec)) : KMap Nat BlockRec :=
  L.foldl (fun B p => B.erase p.1) B

theorem rj_blocks : ∀ (L : List (Nat × BlockRec)) (B : KMap Nat BlockRec) (blk0 : Block) (r r' : RB)
    (rest : List (Nat × BlockRec)),
    RJ B r.s.txrecs blk0 [] r → B.reverse = L ++ rest →
    L.foldlM (fun r (p : Nat × BlockRec) => p.2.txs.foldlM (rbTx ⟨p.1, p.2.hash⟩) r) r = .ok r' →
    ∃ blk1, RJ (eraseBlocks B L) r'.s.txrecs blk1 [] r' := by
  intro L
  induction L with
  | nil =>
    intro B blk0 r r' rest hj _ h
    simp only [List.foldlM_nil, pure_eq, Except.ok.injEq] at h
    subst h; exact ⟨blk0, hj⟩
  | cons p t ih =>
    intro B blk0 r r' rest hj hrev h
    obtain ⟨hh, br⟩ := p
    rw [List.foldlM_cons] at h
    cases h1 : br.txs.foldlM (rbTx ⟨hh, br.hash⟩) r with
    | error e => rw [h1] at h; simp at h
    | ok r1 =>
      rw [h1, bind_ok] at h
      have hw := hj.wf
      -- (hh, br) is the last, greatest entry of B
      have hBeq : B = (t ++ rest).reverse ++ [(hh, br)] := by
        have := congrArg List.reverse hrev
        rw [List.reverse_reverse] at this
        rw [this]; simp
      have hsB : (B.map (·.1)).Pairwise (· < ·) := hw.sorted
      have hnB := nodupKeys_of_sorted _ hsB
      have hB : B.find? hh = some br := find?_of_mem _ hnB (by rw [hBeq]; simp)
      have htop : ∀ h' br', B.find? h' = some br' → h' ≤ hh := by
        intro h' br' hf
        have hm := mem_of_find? _ hf
        rw [hBeq] at hm hsB
        rw [List.mem_append] at hm
        rcases hm with hm | hm
        · rw [List.map_append, List.pairwise_append] at hsB
          have := hsB.2.2 h' (List.mem_map.mpr ⟨(h', br'), hm, rfl⟩) hh (by simp)
          omega
        · simp only [List.mem_singleton, Prod.mk.injEq] at hm
          omega
      have hjb : RJ B r.s.txrecs ⟨hh, br.hash⟩ [] r := ⟨hj.wf, hj.outs, fun dk d hf => by
        obtain ⟨a, b⟩ := hj.deb dk d hf
        refine ⟨a, ?_⟩
        rcases b with b | ⟨_, _, b3⟩
        · exact Or.inl b
        · cases b3⟩
      obtain ⟨D', hD'⟩ := rj_block ⟨hh, br.hash⟩ br.txs br B [] r r1 hjb hB rfl rfl h1
      have hdone := rj_block_done (B.insert hh { br with txs := [] }) r1.s.txrecs ⟨hh, br.hash⟩ ⟨hh, br.hash⟩ D' r1
        { br with txs := [] } hD' (by simp) rfl (by
          intro h' br' hf
          simp only [find?_insert] at hf
          split at hf
          · rename_i e; rw [← e]; exact Nat.le_refl _
          · exact htop h' br' hf)
      have herase : (B.insert hh { br with txs := [] }).erase hh = B.erase hh := by
        unfold KMap.insert; rw [erase_place_self, erase_erase]
      simp only at hdone
      rw [herase] at hdone
      have hBe : B.erase hh = (t ++ rest).reverse := by
        rw [hBeq]; rw [hBeq] at hsB; exact erase_last_nat _ hh br hsB
      obtain ⟨blk1, hfin⟩ := ih (B.erase hh) ⟨hh, br.hash⟩ r1 r' rest hdone (by rw [hBe]; simp) h
      exact ⟨blk1, hfin⟩

theorem foldl_eraseBlocks_store (L : List (Nat × BlockRec)) (s : Store) :
    L.foldl (fun s p => { s with blocks := s.blocks.erase p.1 }) s = { s with blocks := eraseBlocks s.blocks L } := by
  induction L generalizing s with
  | nil => rfl
  | cons p t ih =>
    simp only [List.foldl_cons, eraseBlocks]
    rw [ih]; rfl

/-- **`rollback` preserves `WF2`** — for every store satisfying the invariant and every height -/
theorem wf2_rollback {s s' : Store} {height : Int} (hw : WF2 s) (h : rollback s height = .ok s') : WF2 s' := by
  unfold rollback at h
  simp only [bind, Except.bind] at h
  split at h
  · cases h
  · rename_i r hr
    split at h
    · cases h
    · rename_i s2 hs2
      simp only [pure, Except.pure, Except.ok.injEq] at h
      subst h
      -- the main loop
      have hj0 : RJ s.blocks (⟨s, s.minedBalance, []⟩ : RB).s.txrecs ⟨0, 0⟩ [] ⟨s, s.minedBalance, []⟩ :=
        ⟨hw.wf, hw.outs, fun dk d hf => by
          obtain ⟨a, b⟩ := hw.deb dk d hf
          exact ⟨a, Or.inl b⟩⟩
      have hpre := @List.takeWhile_append_dropWhile _ (fun p : Nat × BlockRec => !decide ((p.1 : Int) < height))
        s.blocks.reverse
      obtain ⟨blk1, hfin⟩ := rj_blocks _ s.blocks ⟨0, 0⟩ ⟨s, s.minedBalance, []⟩ r _ hj0 hpre.symm hr
      have hb : r.s.blocks = s.blocks := by
        refine foldlM_rb_blocks _ ?_ _ _ r hr
        intro a p a' hstep
        exact foldlM_rb_blocks _ (fun _ _ _ h => rbTx_blocks h) _ _ _ hstep
      -- the store after deleting the block records, with the running balance as counter
      have hw1 : WF2 { (List.foldl (fun s p => { s with blocks := s.blocks.erase p.1 }) r.s
          (s.blocks.reverse.takeWhile fun p => !decide ((p.1 : Int) < height))) with minedBalance := r.bal } := by
        rw [foldl_eraseBlocks_store, hb]
        refine ⟨hfin.wf, ?_, hfin.outs⟩
        intro dk d hf
        obtain ⟨a, b⟩ := hfin.deb dk d hf
        refine ⟨a, ?_⟩
        rcases b with b | ⟨_, _, b3⟩
        · exact b
        · cases b3
      -- removing the unconfirmed spenders of detached coinbase outputs touches only the unconfirmed buckets
      generalize List.foldl (fun s p => { s with blocks := s.blocks.erase p.1 }) r.s
          (s.blocks.reverse.takeWhile fun p => !decide ((p.1 : Int) < height)) = S at hs2 hw1
      have hsm : SameMined S s2 := by
        refine foldlM_preserves (SameMined S) _ ?_ _ S s2 (SameMined.refl S) hs2
        intro a op a' ha hstep
        refine foldlM_preserves (SameMined S) _ ?_ _ a a' ha hstep
        intro b hsh b' hb' hst
        split at hst
        · simp only [pure_eq, Except.ok.injEq] at hst; subst hst; exact hb'
        · exact hb'.trans (sameMined_removeConflict _ _ _ _ hst)
      have hnuc : NUC S s2 := by
        refine foldlM_preserves (NUC S) _ ?_ _ S s2 id hs2
        intro a op a' ha hstep
        refine foldlM_preserves (NUC S) _ ?_ _ a a' ha hstep
        intro b hsh b' hb' hst
        split at hst
        · simp only [pure_eq, Except.ok.injEq] at hst; subst hst; exact hb'
        · exact fun hn => nuc_removeConflict _ _ _ _ hst (hb' hn)
      obtain ⟨e1, e2, e3, e4, _, e6⟩ := hsm
      exact wf2_of_sameMined (s := { S with minedBalance := r.bal }) ⟨e1, e2, e3, e4, rfl, e6⟩
        (hnuc hw1.wf.nodupUC) hw1

end TxStore
