import BtcwVerif.Lemmas.RefRollback3
/-!
# Refinement, event *disconnected*: the ledger after detaching the blocks (before the coinbase clean-up)
-/
namespace TxStore
open KMap Ledger

/-- `x` is the hash of a coinbase of a detached block -/
def isCutCb (L : Ledger) (h : Int) (x : Nat) : Bool := (cutPairs L h).any fun q => q.1.isCoinBase && q.1.hash == x

/-- the ledger once the blocks at or above `h` are detached: their non-coinbase transactions are unconfirmed again,
their coinbases (and the credits of those) are gone; unconfirmed spenders of the coinbases are still there -/
def detach (L : Ledger) (h : Int) : Ledger :=
  { L with chain := L.chain.filter fun b => decide ((b.bm.block.height : Int) < h),
           pool := L.pool ++ ((cutPairs L h).map (·.1)).filter (fun t => !t.isCoinBase),
           credit := L.credit.filter fun p => !isCutCb L h p.1.hash }

theorem isCutCb_iff {L : Ledger} {h : Int} {x : Nat} :
    isCutCb L h x = true ↔ ∃ q ∈ cutPairs L h, q.1.isCoinBase = true ∧ q.1.hash = x := by
  unfold isCutCb; simp

theorem mem_chainTxs_detach {L : Ledger} {h : Int} {p : Tx × BlockMeta} :
    p ∈ chainTxs (detach L h) ↔ p ∈ chainTxs L ∧ (p.2.block.height : Int) < h := by
  obtain ⟨t, bm⟩ := p
  rw [mem_chainTxs, mem_chainTxs]
  simp only [detach, List.mem_filter, decide_eq_true_eq]
  constructor
  · rintro ⟨lb, ⟨hlb, hh⟩, rfl, ht⟩; exact ⟨⟨lb, hlb, rfl, ht⟩, hh⟩
  · rintro ⟨⟨lb, hlb, rfl, ht⟩, hh⟩; exact ⟨lb, ⟨hlb, hh⟩, rfl, ht⟩

theorem remaining_cut_iff {L : Ledger} {h : Int} (q : Tx × BlockMeta) :
    Remaining L (cutPairs L h) q ↔ q ∈ chainTxs (detach L h) := by
  unfold Remaining
  rw [mem_chainTxs_detach, mem_cutPairs]
  constructor
  · rintro ⟨h1, h2⟩
    refine ⟨h1, ?_⟩
    by_cases e : (q.2.block.height : Int) < h
    · exact e
    · exact absurd ⟨h1, e⟩ h2
  · rintro ⟨h1, h2⟩; exact ⟨h1, fun h3 => h3.2 h2⟩

theorem mem_pool_detach {L : Ledger} {h : Int} {u : Tx} :
    u ∈ (detach L h).pool ↔ u ∈ L.pool ∨ (u.isCoinBase = false ∧ ∃ bm, (u, bm) ∈ cutPairs L h) := by
  simp only [detach, List.mem_append, List.mem_filter, List.mem_map, Bool.not_eq_true']
  constructor
  · rintro (h1 | ⟨⟨p, hp, rfl⟩, h2⟩)
    · exact Or.inl h1
    · exact Or.inr ⟨h2, p.2, hp⟩
  · rintro (h1 | ⟨h2, bm, hp⟩)
    · exact Or.inl h1
    · exact Or.inr ⟨⟨(u, bm), hp, rfl⟩, h2⟩

theorem lookup_detach (L : Ledger) (h : Int) (op : OutPoint) :
    lookup (detach L h).credit op = if !isCutCb L h op.hash then lookup L.credit op else none :=
  lookup_filter_key L.credit (fun op => !isCutCb L h op.hash) op

/-- every transaction known after the detach was known before -/
theorem known_detach_old {L : Ledger} {h : Int} {q : Tx × Option BlockMeta} (hq : q ∈ known (detach L h)) :
    ∃ q' ∈ known L, q'.1 = q.1 := by
  obtain ⟨t, ob⟩ := q
  rcases mem_known.mp hq with ⟨b, rfl, hm⟩ | ⟨rfl, hm⟩
  · exact ⟨(t, some b), known_of_mined (mem_chainTxs_detach.mp hm).1, rfl⟩
  · rcases mem_pool_detach.mp hm with h1 | ⟨_, bm, h2⟩
    · exact ⟨(t, none), known_of_pool h1, rfl⟩
    · exact ⟨(t, some bm), known_of_mined (mem_cutPairs.mp h2).1, rfl⟩

theorem sublist_flatMap_of_sublist {α β : Type} (f : α → List β) {l1 l2 : List α} (h : l1.Sublist l2) :
    (l1.flatMap f).Sublist (l2.flatMap f) := by
  induction h with
  | slnil => exact List.Sublist.refl _
  | cons a _ ih => rw [List.flatMap_cons]; exact List.Sublist.trans ih (List.sublist_append_right _ _)
  | cons_cons a _ ih => rw [List.flatMap_cons, List.flatMap_cons]; exact List.Sublist.append (List.Sublist.refl _) ih

theorem chainTxs_detach_sublist (L : Ledger) (h : Int) : (chainTxs (detach L h)).Sublist (chainTxs L) :=
  sublist_flatMap_filter _ _ L.chain

theorem lwf_detach {L : Ledger} (hl : LWF L) (h : Int) : LWF (detach L h) := by
  have hsubl := chainTxs_detach_sublist L h
  -- hashes of the known transactions after the detach
  have hhash : ((known (detach L h)).map (·.1.hash)).Nodup := by
    unfold known
    have e : (detach L h).pool = L.pool ++ ((cutPairs L h).map (·.1)).filter (fun t => !t.isCoinBase) := rfl
    rw [e]
    simp only [List.map_append, List.map_map, List.append_assoc]
    have hA : ((chainTxs (detach L h)).map ((fun p : Tx × Option BlockMeta => p.1.hash) ∘ fun p => (p.1, some p.2))).Nodup :=
      (hsubl.map _).nodup (chain_hashes_nodup hl)
    have hB := pool_hashes_nodup hl
    have hC : ((((cutPairs L h).map (·.1)).filter (fun t => !t.isCoinBase)).map
        ((fun p : Tx × Option BlockMeta => p.1.hash) ∘ fun t => (t, none))).Nodup := by
      have h1 : ((cutPairs L h).map (·.1.hash)).Nodup := by
        have := cutPairs_nodup hl h
        rw [List.Nodup, List.pairwise_map]
        refine this.imp_of_mem ?_
        intro a b ha hb hab e
        have := hl.mined_unique (mem_cutPairs.mp ha).1 (mem_cutPairs.mp hb).1 e
        exact hab (Prod.ext this.1 this.2)
      have h2 : (((cutPairs L h).map (·.1)).map (·.hash)).Nodup := by rw [List.map_map]; exact h1
      exact nodup_map_filter _ _ _ h2
    rw [List.nodup_append]
    refine ⟨hA, ?_, ?_⟩
    · rw [List.nodup_append]
      refine ⟨hB, hC, ?_⟩
      intro a ha b hb e
      obtain ⟨u, hu, rfl⟩ := List.mem_map.mp ha
      obtain ⟨v, hv, rfl⟩ := List.mem_map.mp hb
      obtain ⟨hv1, _⟩ := List.mem_filter.mp hv
      obtain ⟨p, hp, rfl⟩ := List.mem_map.mp hv1
      exact hl.pool_not_mined hu (mem_cutPairs.mp hp).1 e.symm
    · intro a ha b hb e
      obtain ⟨p, hp, rfl⟩ := List.mem_map.mp ha
      obtain ⟨hp1, hp2⟩ := mem_chainTxs_detach.mp hp
      rcases List.mem_append.mp hb with hb | hb
      · obtain ⟨u, hu, rfl⟩ := List.mem_map.mp hb
        exact hl.pool_not_mined hu hp1 e
      · obtain ⟨v, hv, rfl⟩ := List.mem_map.mp hb
        obtain ⟨hv1, _⟩ := List.mem_filter.mp hv
        obtain ⟨q, hq, rfl⟩ := List.mem_map.mp hv1
        obtain ⟨hq1, hq2⟩ := mem_cutPairs.mp hq
        have := hl.mined_unique hp1 hq1 e
        rw [← this.2] at hq2
        exact hq2 hp2
  have hkuniq : ∀ p q, p ∈ known (detach L h) → q ∈ known (detach L h) → p.1.hash = q.1.hash → p = q :=
    fun p q hp hq e => eq_of_nodup_map (fun p : Tx × Option BlockMeta => p.1.hash) _ hhash p hp q hq e
  refine ⟨?_, hhash, nodup_map_filter _ _ _ hl.creditKeys, ?_, ?_, ?_, ?_, ?_, ?_, ?_, hl.leaseKeys⟩
  · exact List.Pairwise.sublist (List.filter_sublist.map _) hl.heights
  · -- credited outputs are outputs of known transactions
    intro p hp
    obtain ⟨hp1, hp2⟩ := List.mem_filter.mp hp
    obtain ⟨⟨t, ob⟩, hq, e1, e2⟩ := hl.creditKnown p hp1
    rcases mem_known.mp hq with ⟨b, rfl, hm⟩ | ⟨rfl, hm⟩
    · by_cases hh : (b.block.height : Int) < h
      · exact ⟨(t, some b), known_of_mined (mem_chainTxs_detach.mpr ⟨hm, hh⟩), e1, e2⟩
      · have hcut : (t, b) ∈ cutPairs L h := mem_cutPairs.mpr ⟨hm, hh⟩
        cases hcb : t.isCoinBase with
        | true =>
          have : isCutCb L h p.1.hash = true := isCutCb_iff.mpr ⟨(t, b), hcut, hcb, e1⟩
          rw [this] at hp2; cases hp2
        | false =>
          exact ⟨(t, none), known_of_pool (mem_pool_detach.mpr (Or.inr ⟨hcb, b, hcut⟩)), e1, e2⟩
    · exact ⟨(t, none), known_of_pool (mem_pool_detach.mpr (Or.inl hm)), e1, e2⟩
  · intro u hu
    rcases mem_pool_detach.mp hu with h1 | ⟨h2, _⟩
    · exact hl.poolNoCb u h1
    · exact h2
  · exact (sublist_flatMap_of_sublist _ hsubl).nodup hl.noDouble
  · -- parents
    intro p hp i hi q hq e
    obtain ⟨hp1, hp2⟩ := mem_chainTxs_detach.mp hp
    obtain ⟨q', hq', eq'⟩ := known_detach_old hq
    obtain ⟨b, hb, hle⟩ := hl.parents p hp1 i hi q' hq' (by rw [eq']; exact e)
    obtain ⟨t', ob'⟩ := q'
    simp only at hb eq'
    subst hb
    have hm : (t', b) ∈ chainTxs L := by
      rcases mem_known.mp hq' with ⟨b', hb', hm⟩ | ⟨hb', _⟩
      · cases hb'; exact hm
      · cases hb'
    have hle' : (b.block.height : Int) ≤ p.2.block.height := by exact_mod_cast hle
    have hkeep : (t', b) ∈ chainTxs (detach L h) :=
      mem_chainTxs_detach.mpr ⟨hm, by show (b.block.height : Int) < h; omega⟩
    have := hkuniq q (t', some b) hq (known_of_mined hkeep) (by rw [← eq'])
    exact ⟨b, by rw [this], hle⟩
  · obtain ⟨rk, hrk⟩ := hl.rank
    refine ⟨rk, ?_⟩
    intro p hp i hi q hq e
    obtain ⟨p', hp', ep⟩ := known_detach_old hp
    obtain ⟨q', hq', eq'⟩ := known_detach_old hq
    have := hrk p' hp' i (by rw [ep]; exact hi) q' hq' (by rw [eq']; exact e)
    rw [ep] at this; exact this
  · intro p hp i hi q hq e
    obtain ⟨p', hp', ep⟩ := known_detach_old hp
    obtain ⟨q', hq', eq'⟩ := known_detach_old hq
    have := hl.validRefs p' hp' i (by rw [ep]; exact hi) q' hq' (by rw [eq']; exact e)
    rw [eq'] at this; exact this
  · intro p hp
    obtain ⟨p', hp', ep⟩ := known_detach_old hp
    have := hl.outsBound p' hp'
    rw [ep] at this; exact this

end TxStore
