/-
Lemmas for the notification loops of btcd.go / neutrino.go (C18): hand-written step function, invariant, progress.
-/
import BtcwVerif.Model.NotifLoop
set_option linter.unusedSimpArgs false
namespace NotifLoop
variable {α : Type}

def tableOf (neutrino : Bool) : Table := if neutrino then expectedNeutrino else expectedBtcd

/-- The loop read clause by clause (`neutrino` = the table has the `rescanErr` clause). -/
def stepSpec (neutrino : Bool) (s : State α) : Label α → Option (State α)
  | .stop => if s.quitClosed then none else some { s with quitClosed := true }
  | .recvEnqueue x =>
    if s.exited then none else
    match s.notifications with
    | [] => some { s with accepted := s.accepted ++ [x], next := some x, armed := true, notifications := [x] }
    | y :: r => some { s with accepted := s.accepted ++ [x], notifications := (y :: r) ++ [x] }
  | .sendDequeue =>
    if s.exited then none else
    if s.armed then
      match s.notifications.tail with
      | [] => some { s with delivered := s.delivered ++ s.next.toList, notifications := [], armed := false }
      | y :: r => some { s with delivered := s.delivered ++ s.next.toList, notifications := y :: r, next := some y }
    else none
  | .sendCurrentBlock => if s.exited then none else some s
  | .recvRescanErr => if s.exited then none else if neutrino then some s else none
  | .quit => if s.exited then none else if s.quitClosed then some { s with exited := true } else none

theorem step_expected (neutrino : Bool) (s : State α) (l : Label α) :
    step (tableOf neutrino) s l = stepSpec neutrino s l := by
  obtain ⟨notifications, next, armed, delivered, accepted, exited, quitClosed⟩ := s
  cases neutrino <;> cases l <;> cases exited <;> cases quitClosed <;> cases armed <;>
    first
    | rfl
    | (cases notifications with
       | nil => rfl
       | cons y r => first | rfl | (cases r <;> rfl))

structure Inv (s : State α) : Prop where
  acc : s.delivered ++ s.notifications = s.accepted
  armed : s.armed = !s.notifications.isEmpty
  next : s.armed = true → s.next = s.notifications.head?
  exited : s.exited = true → s.quitClosed = true

theorem inv_init : Inv (init α) := by constructor <;> simp [init]

theorem inv_stepSpec {b : Bool} {s s' : State α} {l : Label α} (hI : Inv s) (h : stepSpec b s l = some s') : Inv s' := by
  obtain ⟨notifications, next, armed, delivered, accepted, exited, quitClosed⟩ := s
  obtain ⟨hacc, harm, hnext, hex⟩ := hI
  simp only at hacc harm hnext hex
  cases l <;> simp [stepSpec] at h
  · -- recvEnqueue
    obtain ⟨he, h⟩ := h
    cases notifications with
    | nil => simp at h; subst h; constructor <;> simp_all
    | cons y r =>
      simp at h; subst h; constructor <;> simp_all
      rw [← hacc]; simp
  · -- sendDequeue
    obtain ⟨he, ha, h⟩ := h
    cases notifications with
    | nil => simp_all
    | cons y r =>
      cases r with
      | nil => simp at h; subst h; constructor <;> simp_all
      | cons z r' => simp at h; subst h; constructor <;> simp_all
  · obtain ⟨_, rfl⟩ := h; constructor <;> simp_all
  · obtain ⟨_, _, rfl⟩ := h; constructor <;> simp_all
  · obtain ⟨_, _, rfl⟩ := h; constructor <;> simp_all
  · obtain ⟨_, rfl⟩ := h; constructor <;> simp_all

theorem inv_run {b : Bool} : ∀ (tr : List (Label α)) {s s' : State α}, Inv s → run (tableOf b) s tr = some s' → Inv s'
  | [], s, s', hI, h => by simp [run] at h; exact h ▸ hI
  | l :: ls, s, s', hI, h => by
    simp only [run] at h
    cases hs : step (tableOf b) s l with
    | none => simp [hs] at h
    | some s1 =>
      simp [hs] at h
      rw [step_expected] at hs
      exact inv_run ls (inv_stepSpec hI hs) h

/-- Draining: `|notifications|` dequeue steps deliver everything. -/
theorem drain {b : Bool} : ∀ (n : Nat) (s : State α), Inv s → s.exited = false → s.notifications.length = n →
    ∃ s', run (tableOf b) s (List.replicate n .sendDequeue) = some s' ∧ s'.delivered = s.accepted ∧
      s'.accepted = s.accepted ∧ s'.notifications = []
  | 0, s, hI, _, hn => by
    have hv : s.notifications = [] := List.eq_nil_of_length_eq_zero hn
    refine ⟨s, rfl, ?_, rfl, hv⟩
    have := hI.acc; simp [hv] at this; exact this
  | n + 1, s, hI, he, hn => by
    cases hv : s.notifications with
    | nil => simp [hv] at hn
    | cons y r =>
      have harm : s.armed = true := by rw [hI.armed, hv]; rfl
      have hs : ∃ s1, step (tableOf b) s .sendDequeue = some s1 ∧ s1.notifications = r ∧ s1.exited = false ∧
          s1.accepted = s.accepted := by
        rw [step_expected]
        cases r with
        | nil => simp [stepSpec, he, harm, hv]
        | cons z r' => simp [stepSpec, he, harm, hv]
      obtain ⟨s1, hs1, hr1, he1, ha1⟩ := hs
      have hI1 : Inv s1 := by rw [step_expected] at hs1; exact inv_stepSpec hI hs1
      obtain ⟨s', h1, h2, h3, h4⟩ := drain (b := b) n s1 hI1 he1 (by rw [hr1]; simp [hv] at hn; exact hn)
      refine ⟨s', ?_, by rw [h2, ha1], by rw [h3, ha1], h4⟩
      simp [List.replicate_succ, run, hs1, h1]

end NotifLoop
