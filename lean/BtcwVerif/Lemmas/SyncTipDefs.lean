/-
Specification vocabulary for C15 (used by Lemmas/SyncTip*.lean and Props/C15.lean): what it means for the wallet
model to be in sync with a backend chain, which evolution steps are "within the window", and the ghost lower end
`lo` of the contiguous range of remembered block hashes.
-/
import BtcwVerif.Model.SyncTip
namespace SyncTip

/-- Every mined record lies in a block of the chain with tip `c`. -/
def MinedOn (w : Wallet) (c : BlockId) : Prop :=
  ∀ r ∈ w.mined, r.height ≤ c.length ∧ r.hash = some (ancestorAt c r.height)

/-- The wallet agrees with a backend whose best chain has tip `tip`.  `lo` is a ghost: every height in `[lo, tip]` is
    remembered; whatever else is remembered at or below the tip is correct too (e.g. the never-pruned genesis entry). -/
structure Inv (cfg : Cfg) (w : Wallet) (tip : BlockId) (lo : Nat) : Prop where
  synced     : w.chainSynced = true
  bday       : w.birthdaySet = true
  tipEq      : w.syncedTo = stampOf cfg.C tip
  lo_le      : lo ≤ tip.length
  -- at most W consecutive heights are guaranteed (pruning at height - W); the genesis entry is never pruned
  -- (`PutSyncedTo` deletes height - W only when it is > 0), so from `lo = 0` the range can be `[0, W]`
  window     : tip.length < lo + cfg.W ∨ (lo = 0 ∧ tip.length ≤ cfg.W)
  remembered : ∀ h, lo ≤ h → h ≤ tip.length → w.hashes h = some (some (ancestorAt tip h))
  correct    : ∀ h x, h ≤ tip.length → w.hashes h = some x → x = some (ancestorAt tip h)
  mined      : MinedOn w tip

/-- Effect of `PutSyncedTo(height H)` on the ghost: the entry `H - W` is deleted when `H > W`. -/
def loAfter (W lo H : Nat) : Nat := if W < H ∧ lo ≤ H - W then H - W + 1 else lo

/-- Ghost after connecting `n` blocks on top of height `T` one by one. -/
def loAfterN (W lo T : Nat) : Nat → Nat
  | 0 => lo
  | n + 1 => loAfterN W (loAfter W lo (T + 1)) (T + 1) n

/-- A step the property speaks about, for a wallet that remembers `[lo, tip]`:
    a reorg must leave the block below the fork point remembered (or go down to a remembered genesis). -/
def ValidStep (tip : BlockId) (lo : Nat) : Step → Prop
  | .extend _ _ => True
  | .reorg d _ _ => d ≤ tip.length ∧ (d = 0 ∨ lo + 1 + d ≤ tip.length ∨ (d = tip.length ∧ lo = 0))
  | .staleDisconnect b => ancestorAt tip b.length ≠ b
  | .dupConnect => True
  | .dupTxs h => h ≤ tip.length
  | .mempoolTx _ => True

def stepLo (W : Nat) (tip : BlockId) (lo : Nat) : Step → Nat
  | .extend _ _ => loAfter W lo (tip.length + 1)
  | .reorg d br _ => loAfterN W lo (tip.length - d) br.length
  | .dupConnect => loAfter W lo tip.length
  | _ => lo

/-- A whole evolution, threading backend tip and ghost. -/
inductive ValidRun (W : Nat) : BlockId → Nat → List Step → BlockId → Nat → Prop
  | nil (tip lo) : ValidRun W tip lo [] tip lo
  | cons {tip lo st rest tip' lo'} :
      ValidStep tip lo st → ValidRun W (stepTip tip st) (stepLo W tip lo st) rest tip' lo' →
      ValidRun W tip lo (st :: rest) tip' lo'

/-- `c` is the height of the last block the chains with tips `a` and `b` have in common. -/
def IsLastCommon (a b : BlockId) (c : Nat) : Prop :=
  c ≤ a.length ∧ c ≤ b.length ∧ ancestorAt a c = ancestorAt b c ∧
  ∀ h, c < h → h ≤ a.length → h ≤ b.length → ancestorAt a h ≠ ancestorAt b h

end SyncTip
