import BtcwVerif.Lemmas.RefSeen
/-!
# Refinement: conflict removal (`removeConflict`) realises the removal of a transaction and all its unconfirmed
descendants from the ledger

`Ledger.minus L P Q`: the ledger without the unconfirmed transactions whose hash satisfies `P` (and their credits) and
without the credits satisfying `Q`.  `Desc pool a b`: `b` is `a` or the hash of an unconfirmed transaction that
(transitively) spends an output of `a`.  Main theorem `good_removeConflict`: on a good pair, `removeConflict` with
enough fuel succeeds and the result refines `L.minus (descendants of u) ∅`.
-/
namespace TxStore
open KMap Ledger

/-! ### removing unconfirmed transactions and credits from a ledger -/

def minus (L : Ledger) (P : Nat → Bool) (Q : OutPoint → Bool) : Ledger :=
  { L with pool := L.pool.filter (fun t => !P t.hash),
           credit := L.credit.filter (fun p => !P p.1.hash && !Q p.1) }

theorem chainTxs_minus (L : Ledger) (P : Nat → Bool) (Q : OutPoint → Bool) : chainTxs (minus L P Q) = chainTxs L := rfl

theorem mem_pool_minus {L : Ledger} {P : Nat → Bool} {Q : OutPoint → Bool} {t : Tx} :
    t ∈ (minus L P Q).pool ↔ t ∈ L.pool ∧ P t.hash = false := by
  simp [minus]

theorem mem_credit_minus {L : Ledger} {P : Nat → Bool} {Q : OutPoint → Bool} {p : OutPoint × Bool} :
    p ∈ (minus L P Q).credit ↔ p ∈ L.credit ∧ P p.1.hash = false ∧ Q p.1 = false := by
  simp [minus, and_assoc]

theorem known_minus_sub {L : Ledger} {P : Nat → Bool} {Q : OutPoint → Bool} {p : Tx × Option BlockMeta}
    (h : p ∈ known (minus L P Q)) : p ∈ known L := by
  obtain ⟨t, ob⟩ := p
  rcases mem_known.mp h with ⟨bm, rfl, hm⟩ | ⟨rfl, hm⟩
  · exact known_of_mined hm
  · exact known_of_pool (mem_pool_minus.mp hm).1

theorem find?_filter_key {α : Type} (l : List (OutPoint × α)) (f : OutPoint → Bool) (op : OutPoint) :
    (l.filter fun p => f p.1).find? (fun p => p.1 == op) = if f op then l.find? (fun p => p.1 == op) else none := by
  induction l with
  | nil => simp
  | cons p t ih =>
    by_cases hf : f p.1 = true
    · rw [List.filter_cons, if_pos hf, List.find?_cons, List.find?_cons]
      by_cases e : p.1 = op
      · have : (p.1 == op) = true := by simpa using e
        rw [this, ← e, hf]; simp
      · have : (p.1 == op) = false := by simpa using e
        rw [this]; exact ih
    · rw [List.filter_cons, if_neg hf, ih, List.find?_cons]
      by_cases e : p.1 = op
      · rw [← e]; simp [hf]
      · have : (p.1 == op) = false := by simpa using e
        rw [this]

theorem lookup_filter_key {α : Type} (l : List (OutPoint × α)) (f : OutPoint → Bool) (op : OutPoint) :
    lookup (l.filter fun p => f p.1) op = if f op then lookup l op else none := by
  unfold lookup
  rw [find?_filter_key]
  by_cases hf : f op = true
  · simp only [hf, if_true]
  · simp only [hf, Bool.false_eq_true, if_false]

theorem lookup_minus (L : Ledger) (P : Nat → Bool) (Q : OutPoint → Bool) (op : OutPoint) :
    lookup (minus L P Q).credit op = if !P op.hash && !Q op then lookup L.credit op else none :=
  lookup_filter_key L.credit (fun op => !P op.hash && !Q op) op

theorem nodup_map_filter {α β : Type} (f : α → β) (p : α → Bool) (l : List α) (h : (l.map f).Nodup) :
    ((l.filter p).map f).Nodup :=
  (List.filter_sublist.map f).nodup h

theorem lwf_minus {L : Ledger} (hl : LWF L) (P : Nat → Bool) (Q : OutPoint → Bool) : LWF (minus L P Q) := by
  have hsub : ∀ p, p ∈ known (minus L P Q) → p ∈ known L := fun p => known_minus_sub
  refine ⟨hl.heights, ?_, ?_, ?_, ?_, hl.noDouble, ?_, ?_, ?_, ?_, hl.leaseKeys⟩
  · have : known (minus L P Q) = (known L).filter (fun p => p.2.isSome || !P p.1.hash) := by
      simp only [known, minus, List.filter_append, List.filter_map, chainTxs]
      congr 1
      rw [List.filter_eq_self.mpr]
      intro a _; rfl
    rw [this]
    exact nodup_map_filter _ _ _ hl.hashes
  · exact nodup_map_filter _ _ _ hl.creditKeys
  · intro p hp
    obtain ⟨hp1, hp2, _⟩ := mem_credit_minus.mp hp
    obtain ⟨⟨t, ob⟩, hq, e, hlt⟩ := hl.creditKnown p hp1
    refine ⟨(t, ob), ?_, e, hlt⟩
    rcases mem_known.mp hq with ⟨bm, rfl, hm⟩ | ⟨rfl, hm⟩
    · exact known_of_mined hm
    · exact known_of_pool (mem_pool_minus.mpr ⟨hm, by rw [show t.hash = p.1.hash from e]; exact hp2⟩)
  · intro t ht; exact hl.poolNoCb t (mem_pool_minus.mp ht).1
  · intro p hp i hi q hq e; exact hl.parents p hp i hi q (hsub q hq) e
  · obtain ⟨rk, hrk⟩ := hl.rank
    exact ⟨rk, fun p hp i hi q hq e => hrk p (hsub p hp) i hi q (hsub q hq) e⟩
  · intro p hp i hi q hq e; exact hl.validRefs p (hsub p hp) i hi q (hsub q hq) e
  · intro p hp; exact hl.outsBound p (hsub p hp)

theorem noConflict_minus {L : Ledger} (hn : NoConflict L) (P : Nat → Bool) (Q : OutPoint → Bool) :
    NoConflict (minus L P Q) :=
  fun t ht i hi => hn t (mem_pool_minus.mp ht).1 i hi

theorem minus_minus (L : Ledger) (P P' : Nat → Bool) (Q Q' : OutPoint → Bool) :
    minus (minus L P Q) P' Q' = minus L (fun h => P h || P' h) (fun o => Q o || Q' o) := by
  simp only [minus, List.filter_filter]
  congr 1
  · congr 1; funext t; cases P t.hash <;> cases P' t.hash <;> rfl
  · congr 1; funext p; cases P p.1.hash <;> cases P' p.1.hash <;> cases Q p.1 <;> cases Q' p.1 <;> rfl

theorem minus_congr (L : Ledger) {P P' : Nat → Bool} {Q Q' : OutPoint → Bool} (hP : ∀ h, P h = P' h)
    (hQ : ∀ o, Q o = Q' o) : minus L P Q = minus L P' Q' := by
  have : P = P' := funext hP
  have : Q = Q' := funext hQ
  subst_vars; rfl

/-! ### descendants among the unconfirmed transactions -/

/-- `Desc pool a b`: `b = a`, or `b` is the hash of a transaction of `pool` spending an output of a transaction whose
hash is a descendant of `a` -/
inductive Desc (pool : List Tx) : Nat → Nat → Prop
  | refl (a : Nat) : Desc pool a a
  | step {a b : Nat} {u : Tx} : Desc pool a b → u ∈ pool → (∃ i ∈ u.ins, i.hash = b) → Desc pool a u.hash

theorem Desc.mono {pool pool' : List Tx} (hsub : ∀ t ∈ pool, t ∈ pool') {a b : Nat} (h : Desc pool a b) :
    Desc pool' a b := by
  induction h with
  | refl => exact Desc.refl _
  | step _ hu hi ih => exact Desc.step ih (hsub _ hu) hi

theorem Desc.trans {pool : List Tx} {a b c : Nat} (h1 : Desc pool a b) (h2 : Desc pool b c) : Desc pool a c := by
  induction h2 with
  | refl => exact h1
  | step _ hu hi ih => exact Desc.step ih hu hi

/-- a strict descendant is the hash of a pool transaction -/
theorem Desc.pool_or_eq {pool : List Tx} {a b : Nat} (h : Desc pool a b) : b = a ∨ ∃ u ∈ pool, u.hash = b := by
  cases h with
  | refl => exact Or.inl rfl
  | step _ hu _ => exact Or.inr ⟨_, hu, rfl⟩

/-- `rk` orders every known transaction above the known transactions it spends from -/
def RankOK (rk : Nat → Nat) (L : Ledger) : Prop :=
  ∀ p ∈ known L, ∀ i ∈ p.1.ins, ∀ q ∈ known L, q.1.hash = i.hash → rk i.hash < rk p.1.hash

theorem RankOK.minus {rk : Nat → Nat} {L : Ledger} (h : RankOK rk L) (P : Nat → Bool) (Q : OutPoint → Bool) :
    RankOK rk (minus L P Q) :=
  fun p hp i hi q hq e => h p (known_minus_sub hp) i hi q (known_minus_sub hq) e

/-- ranks do not decrease along descendants of a known transaction -/
theorem Desc.rank_le {rk : Nat → Nat} {L : Ledger} (hrk : RankOK rk L) {a b : Nat}
    (ha : ∃ p ∈ known L, p.1.hash = a) (h : Desc L.pool a b) :
    rk a ≤ rk b ∧ (b ≠ a → rk a < rk b) ∧ ∃ p ∈ known L, p.1.hash = b := by
  induction h with
  | refl => exact ⟨Nat.le_refl _, fun h => absurd rfl h, ha⟩
  | step _ hu hi ih =>
    obtain ⟨h1, _, q, hq, hqb⟩ := ih
    obtain ⟨i, hi1, hi2⟩ := hi
    have := hrk _ (known_of_pool hu) i hi1 q hq (by rw [hqb, hi2])
    rw [hi2] at this
    dsimp only at this
    exact ⟨by omega, fun _ => by omega, _, known_of_pool hu, rfl⟩

/-! ### the primitive writes of `removeConflict` against `minus` -/

theorem minus_pool_false (L : Ledger) (Q : OutPoint → Bool) : (minus L (fun _ => false) Q).pool = L.pool := by
  simp [minus]

theorem known_minus_false (L : Ledger) (Q : OutPoint → Bool) : known (minus L (fun _ => false) Q) = known L := by
  have : (minus L (fun _ => false) Q).pool = L.pool := minus_pool_false L Q
  simp only [known, this, chainTxs_minus]

/-- erasing the unconfirmed credit `k` of a pool transaction = dropping the credit `k` from the ledger -/
theorem good_eraseUC {a : Store} {La : Ledger} (hg : Good a La) {u : Tx} (hu : u ∈ La.pool) (k : OutPoint)
    (hk : k.hash = u.hash) :
    Good { a with unminedCredits := a.unminedCredits.erase k } (minus La (fun _ => false) (fun o => o == k)) := by
  have hr := hg.ref
  have hlook : ∀ op, lookup (minus La (fun _ => false) (fun o => o == k)).credit op =
      if op = k then none else lookup La.credit op := by
    intro op
    rw [lookup_minus]
    by_cases e : op = k
    · simp [e]
    · simp [e]
  refine ⟨?_, lwf_minus hg.lwf _ _, ?_⟩
  · exact wf2_of_sameMined (s := a) ⟨rfl, rfl, rfl, rfl, rfl, rfl⟩ (nodupKeys_erase _ _ hg.wf2.wf.nodupUC) hg.wf2
  · refine ⟨hr.blocks, hr.txrecs, ?_, ?_, hr.debits, ?_, ?_, hr.uinputsNE, hr.leases, hr.nodupTxrecs, hr.nodupUnmined,
      hr.nodupDebits, hr.nodupLocked⟩
    · intro h v
      show a.unmined.find? h = some v ↔ _
      rw [hr.unmined_iff, mem_expUnmined, minus_pool_false]
    · intro ck v
      show a.credits.find? ck = some v ↔ _
      rw [hr.credits_iff, mem_expCredits]
      have hspend : ∀ op, spenderOf (minus La (fun _ => false) (fun o => o == k)) op = spenderOf La op := fun _ => rfl
      simp only [hspend, chainTxs_minus, hlook]
      constructor
      · rintro ⟨t, bm, hm, h1, h2, h3, h4, h5⟩
        refine ⟨t, bm, hm, h1, h2, h3, ?_, h5⟩
        have : ck.outPoint ≠ k := by
          intro e
          have : ck.hash = u.hash := by rw [← hk, ← e]; rfl
          exact hg.lwf.pool_not_mined hu hm (by rw [← h1, this])
        rw [if_neg this]; exact h4
      · rintro ⟨t, bm, hm, h1, h2, h3, h4, h5⟩
        refine ⟨t, bm, hm, h1, h2, h3, ?_, h5⟩
        by_cases e : ck.outPoint = k
        · rw [if_pos e] at h4; cases h4
        · rw [if_neg e] at h4; exact h4
    · intro op v
      show (a.unminedCredits.erase k).find? op = some v ↔ _
      rw [find?_erase, mem_expUnminedCredits, minus_pool_false, hlook]
      by_cases e : k = op
      · subst e
        simp only [if_true, reduceCtorEq, false_iff]
        rintro ⟨_, _, _, _, h⟩; cases h
      · have e' : ¬ op = k := fun x => e x.symm
        simp only [e, e', if_false]
        rw [hr.ucredits_iff]
    · intro op h
      show h ∈ spendHashes a op ↔ _
      rw [hr.uinputs, mem_poolSpenders, mem_poolSpenders, minus_pool_false]

theorem del_eq (s : Store) (k : OutPoint) (h : Nat) :
    deleteRawUnminedInput s k h = { s with unminedInputs := (deleteRawUnminedInput s k h).unminedInputs } := by
  unfold deleteRawUnminedInput
  split
  · rfl
  · split
    · rfl
    · dsimp only
      split <;> rfl

theorem spendHashes_del (s : Store) (k : OutPoint) (h : Nat) (op : OutPoint) :
    spendHashes (deleteRawUnminedInput s k h) op =
      if k = op then (spendHashes s op).filter (fun x => !decide (x = h)) else spendHashes s op := by
  unfold spendHashes deleteRawUnminedInput
  cases hf : s.unminedInputs.find? k with
  | none =>
    simp only
    by_cases e : k = op
    · subst e; simp [hf]
    · simp [e]
  | some l =>
    simp only
    by_cases hl : l.isEmpty = true
    · simp only [hl, if_true]
      by_cases e : k = op
      · subst e
        have : l = [] := by simpa using hl
        simp [hf, this]
      · simp [e]
    · simp only [hl, Bool.false_eq_true, if_false]
      by_cases hl' : (l.filter fun x => !decide (x = h)).isEmpty = true
      · simp only [hl', if_true]
        by_cases e : k = op
        · subst e
          have : l.filter (fun x => !decide (x = h)) = [] := by simpa using hl'
          simp [hf, find?_erase, this]
        · simp [e, find?_erase]
      · simp only [hl', Bool.false_eq_true, if_false]
        by_cases e : k = op
        · subst e; simp [hf, find?_insert]
        · simp [e, find?_insert]

theorem inputsNE_del (s : Store) (k : OutPoint) (h : Nat) (hs : InputsNE s) : InputsNE (deleteRawUnminedInput s k h) := by
  intro op
  unfold deleteRawUnminedInput
  split
  · exact hs op
  · split
    · exact hs op
    · dsimp only
      split
      · simp only [find?_erase]
        split
        · simp
        · exact hs op
      · rename_i hne
        simp only [find?_insert]
        split
        · intro e
          simp only [Option.some.injEq] at e
          rw [e] at hne; simp at hne
        · exact hs op

theorem foldl_del_eq (h : Nat) : ∀ (l : List OutPoint) (a : Store),
    l.foldl (fun s inp => deleteRawUnminedInput s inp h) a =
      { a with unminedInputs := (l.foldl (fun s inp => deleteRawUnminedInput s inp h) a).unminedInputs } := by
  intro l
  induction l with
  | nil => intro a; rfl
  | cons x t ih =>
    intro a
    rw [List.foldl_cons, ih, del_eq a x h]

theorem mem_spendHashes_foldl_del (h : Nat) (op : OutPoint) (x : Nat) : ∀ (l : List OutPoint) (a : Store),
    x ∈ spendHashes (l.foldl (fun s inp => deleteRawUnminedInput s inp h) a) op ↔
      x ∈ spendHashes a op ∧ (op ∈ l → x ≠ h) := by
  intro l
  induction l with
  | nil => intro a; simp
  | cons k t ih =>
    intro a
    rw [List.foldl_cons, ih, spendHashes_del]
    by_cases e : k = op
    · subst e
      simp only [if_true, List.mem_filter, Bool.not_eq_true', decide_eq_false_iff_not, List.mem_cons, true_or,
        forall_const]
      constructor
      · rintro ⟨⟨h1, h2⟩, _⟩; exact ⟨h1, h2⟩
      · rintro ⟨h1, h2⟩; exact ⟨⟨h1, h2⟩, fun _ => h2⟩
    · simp only [e, if_false, List.mem_cons]
      constructor
      · rintro ⟨h1, h2⟩
        refine ⟨h1, ?_⟩
        rintro (h3 | h3)
        · exact absurd h3.symm e
        · exact h2 h3
      · rintro ⟨h1, h2⟩; exact ⟨h1, fun h3 => h2 (Or.inr h3)⟩

theorem inputsNE_foldl_del (h : Nat) : ∀ (l : List OutPoint) (a : Store), InputsNE a →
    InputsNE (l.foldl (fun s inp => deleteRawUnminedInput s inp h) a) := by
  intro l
  induction l with
  | nil => intro a ha; exact ha
  | cons k t ih => intro a ha; exact ih _ (inputsNE_del a k h ha)

/-- dropping the inputs and the record of a pool transaction without credits = removing it from the ledger's pool -/
theorem good_dropTx {a : Store} {La : Ledger} (hg : Good a La) {u : Tx} (hu : u ∈ La.pool)
    (hnc : ∀ p ∈ La.credit, p.1.hash ≠ u.hash) :
    Good { (u.ins.foldl (fun s inp => deleteRawUnminedInput s inp u.hash) a) with
        unmined := (u.ins.foldl (fun s inp => deleteRawUnminedInput s inp u.hash) a).unmined.erase u.hash }
      (minus La (fun h => h == u.hash) (fun _ => false)) := by
  have hr := hg.ref
  rw [foldl_del_eq]
  have hlook : ∀ op, lookup (minus La (fun h => h == u.hash) (fun _ => false)).credit op = lookup La.credit op := by
    intro op
    rw [lookup_minus]
    by_cases e : op.hash = u.hash
    · simp only [e, beq_self_eq_true, Bool.not_true, Bool.false_and, Bool.false_eq_true, if_false]
      cases hl : lookup La.credit op with
      | none => rfl
      | some v =>
        obtain ⟨p, hp, hpk⟩ := (lookup_isSome_iff La.credit op).mp (by rw [hl]; rfl)
        exact absurd (by rw [hpk]; exact e) (hnc p hp)
    · have : (op.hash == u.hash) = false := by simpa using e
      simp [this]
  have hpool : ∀ t, t ∈ (minus La (fun h => h == u.hash) (fun _ => false)).pool ↔ t ∈ La.pool ∧ t ≠ u := by
    intro t
    rw [mem_pool_minus]
    constructor
    · rintro ⟨h1, h2⟩
      refine ⟨h1, ?_⟩
      rintro rfl; simp at h2
    · rintro ⟨h1, h2⟩
      refine ⟨h1, ?_⟩
      have : t.hash ≠ u.hash := fun e => h2 (hg.lwf.pool_unique h1 hu e)
      simpa using this
  refine ⟨?_, lwf_minus hg.lwf _ _, ?_⟩
  · exact wf2_of_sameMined (s := a) ⟨rfl, rfl, rfl, rfl, rfl, rfl⟩ hg.wf2.wf.nodupUC hg.wf2
  · refine ⟨hr.blocks, hr.txrecs, ?_, ?_, hr.debits, ?_, ?_, ?_, hr.leases, hr.nodupTxrecs, ?_, hr.nodupDebits,
      hr.nodupLocked⟩
    · intro h v
      show (a.unmined.erase u.hash).find? h = some v ↔ _
      rw [find?_erase, mem_expUnmined, hpool]
      by_cases e : u.hash = h
      · subst e
        simp only [if_true, reduceCtorEq, false_iff]
        rintro ⟨⟨h1, h2⟩, h3⟩
        exact h2 (hg.lwf.pool_unique h1 hu h3.symm)
      · simp only [e, if_false]
        rw [hr.unmined_iff]
        constructor
        · rintro ⟨h1, h2⟩
          refine ⟨⟨h1, ?_⟩, h2⟩
          rintro rfl; exact e h2.symm
        · rintro ⟨⟨h1, _⟩, h3⟩; exact ⟨h1, h3⟩
    · intro ck v
      show a.credits.find? ck = some v ↔ _
      rw [hr.credits_iff, mem_expCredits]
      have hspend : ∀ op, spenderOf (minus La (fun h => h == u.hash) (fun _ => false)) op = spenderOf La op :=
        fun _ => rfl
      simp only [hspend, chainTxs_minus, hlook]
    · intro op v
      show a.unminedCredits.find? op = some v ↔ _
      rw [hr.ucredits_iff, mem_expUnminedCredits]
      simp only [hlook, hpool]
      constructor
      · rintro ⟨t, ht, h1, h2, h3⟩
        refine ⟨t, ⟨ht, ?_⟩, h1, h2, h3⟩
        rintro rfl
        obtain ⟨p, hp, hpk⟩ := (lookup_isSome_iff La.credit op).mp (by rw [h3]; rfl)
        exact hnc p hp (by rw [hpk]; exact h1)
      · rintro ⟨t, ⟨ht, _⟩, h⟩; exact ⟨t, ht, h⟩
    · intro op h
      show h ∈ spendHashes (u.ins.foldl (fun s inp => deleteRawUnminedInput s inp u.hash) a) op ↔ _
      rw [mem_spendHashes_foldl_del, hr.uinputs, mem_poolSpenders, mem_poolSpenders]
      simp only [hpool]
      constructor
      · rintro ⟨⟨t, ht, h1, h2⟩, h3⟩
        refine ⟨t, ⟨ht, ?_⟩, h1, h2⟩
        rintro rfl
        exact h3 h1 h2.symm
      · rintro ⟨t, ⟨ht, hne⟩, h1, h2⟩
        refine ⟨⟨t, ht, h1, h2⟩, ?_⟩
        intro _ e
        exact hne (hg.lwf.pool_unique ht hu (by rw [h2, e]))
    · exact inputsNE_foldl_del u.hash u.ins a hr.uinputsNE
    · exact nodupKeys_erase _ _ hr.nodupUnmined

/-! ### `removeConflict` with named loop bodies -/

def rcInner (rc : Store → Tx → M Store) (s : Store) (h : Nat) : M Store :=
  match s.unmined.find? h with
  | none => pure s
  | some sp => rc s sp

def rcOuter (rc : Store → Tx → M Store) (rec : Tx) (s : Store) (io : Nat × Int) : M Store := do
  let s ← (spendHashes s ⟨rec.hash, io.1⟩).foldlM (rcInner rc) s
  pure { s with unminedCredits := s.unminedCredits.erase ⟨rec.hash, io.1⟩ }

theorem removeConflictBody_eq (rc : Store → Tx → M Store) (s : Store) (rec : Tx) :
    removeConflictBody rc s rec = (do
      let s ← (withIdx rec.outs).foldlM (rcOuter rc rec) s
      let s := rec.ins.foldl (fun s inp => deleteRawUnminedInput s inp rec.hash) s
      pure { s with unmined := s.unmined.erase rec.hash }) := by
  rfl

theorem filter_length_le_of_imp {α : Type} (p q : α → Bool) : ∀ (l : List α), (∀ x ∈ l, p x = true → q x = true) →
    (l.filter p).length ≤ (l.filter q).length := by
  intro l
  induction l with
  | nil => intro _; simp
  | cons a t ih =>
    intro h
    have iht := ih (fun x hx => h x (List.mem_cons_of_mem _ hx))
    rw [List.filter_cons, List.filter_cons]
    by_cases hp : p a = true
    · have hq := h a List.mem_cons_self hp
      simp only [hp, hq, if_true, List.length_cons]; omega
    · simp only [hp, Bool.false_eq_true, if_false]
      by_cases hq : q a = true
      · simp only [hq, if_true, List.length_cons]; omega
      · simp only [hq, Bool.false_eq_true, if_false]; exact iht

theorem filter_length_lt_of_imp {α : Type} (p q : α → Bool) : ∀ (l : List α), (∀ x ∈ l, p x = true → q x = true) →
    (∃ x ∈ l, q x = true ∧ p x = false) → (l.filter p).length < (l.filter q).length := by
  intro l
  induction l with
  | nil => rintro _ ⟨x, hx, _⟩; cases hx
  | cons a t ih =>
    intro h hex
    have himp : ∀ x ∈ t, p x = true → q x = true := fun x hx => h x (List.mem_cons_of_mem _ hx)
    rw [List.filter_cons, List.filter_cons]
    obtain ⟨x, hx, hqx, hpx⟩ := hex
    rcases List.mem_cons.mp hx with rfl | hx'
    · have := filter_length_le_of_imp p q t himp
      simp only [hpx, hqx, Bool.false_eq_true, if_false, if_true, List.length_cons]; omega
    · have iht := ih himp ⟨x, hx', hqx, hpx⟩
      by_cases hp : p a = true
      · have hq := h a List.mem_cons_self hp
        simp only [hp, hq, if_true, List.length_cons]; omega
      · simp only [hp, Bool.false_eq_true, if_false]
        by_cases hq : q a = true
        · simp only [hq, if_true, List.length_cons]; omega
        · simp only [hq, Bool.false_eq_true, if_false]; exact iht

/-- number of unconfirmed transactions ranked above the hash `h` -/
def above (rk : Nat → Nat) (L : Ledger) (h : Nat) : Nat := (L.pool.filter fun v => decide (rk h < rk v.hash)).length

theorem above_minus_le (rk : Nat → Nat) (L : Ledger) (P : Nat → Bool) (Q : OutPoint → Bool) (h : Nat) :
    above rk (minus L P Q) h ≤ above rk L h := by
  unfold above minus
  simp only [List.filter_filter]
  exact filter_length_le_of_imp _ _ _ (fun x _ hx => by simp only [Bool.and_eq_true] at hx; exact hx.1)

theorem above_child_lt (rk : Nat → Nat) (L : Ledger) {a b : Nat} (hab : rk a < rk b) (hb : ∃ v ∈ L.pool, v.hash = b) :
    above rk L b < above rk L a := by
  unfold above
  apply filter_length_lt_of_imp
  · intro x _ hx
    simp only [decide_eq_true_eq] at hx ⊢; omega
  · obtain ⟨v, hv, rfl⟩ := hb
    exact ⟨v, hv, by simpa using hab, by simp⟩

theorem minus_congr' (L : Ledger) {P P' : Nat → Bool} {Q Q' : OutPoint → Bool} (hP : ∀ h, P h = P' h)
    (hQ : ∀ o, (!P o.hash && !Q o) = (!P' o.hash && !Q' o)) : minus L P Q = minus L P' Q' := by
  have : P = P' := funext hP
  subst this
  unfold minus
  congr 1
  congr 1
  funext p
  exact hQ p.1

/-- invariant of the loop over the outputs of `u` in `removeConflict`: the outputs below `j` are done -/
structure RCInv (L : Ledger) (u : Tx) (j : Nat) (a : Store) (P : Nat → Bool) : Prop where
  good : Good a (minus L P (fun o => decide (o.hash = u.hash ∧ o.index < j)))
  desc : ∀ h, P h = true → Desc L.pool u.hash h ∧ h ≠ u.hash
  closed : ∀ v ∈ L.pool, ∀ i ∈ v.ins, P i.hash = true → P v.hash = true
  children : ∀ v ∈ L.pool, ∀ i ∈ v.ins, i.hash = u.hash → i.index < j → P v.hash = true

/-- what the recursive calls are assumed to do (the induction hypothesis of `good_removeConflict`) -/
def RCSpec (rk : Nat → Nat) (n : Nat) (rc : Store → Tx → M Store) : Prop :=
  ∀ (s : Store) (L : Ledger) (u : Tx), Good s L → RankOK rk L → u ∈ L.pool → above rk L u.hash < n →
    ∃ s' P, rc s u = .ok s' ∧ Good s' (minus L P (fun _ => false)) ∧ (∀ h, P h = true ↔ Desc L.pool u.hash h)

theorem rc_inner_loop {rk : Nat → Nat} {n : Nat} {rc : Store → Tx → M Store} (hrc : RCSpec rk n rc)
    {L : Ledger} (hl : LWF L) (hrk : RankOK rk L) {u : Tx} (hu : u ∈ L.pool) (hn : above rk L u.hash ≤ n) (j : Nat) :
    ∀ (hs : List Nat) (b : Store) (P : Nat → Bool), RCInv L u j b P →
      (∀ h ∈ hs, ∃ v ∈ L.pool, v.hash = h ∧ (⟨u.hash, j⟩ : OutPoint) ∈ v.ins) →
      ∃ b' P', hs.foldlM (rcInner rc) b = .ok b' ∧ RCInv L u j b' P' ∧ (∀ h, P h = true → P' h = true) ∧
        (∀ h ∈ hs, P' h = true) := by
  intro hs
  induction hs with
  | nil => intro b P hi _; exact ⟨b, P, rfl, hi, fun _ h => h, fun _ h => by cases h⟩
  | cons h rest ih =>
    intro b P hi hhs
    obtain ⟨v, hv, hvh, hvk⟩ := hhs h List.mem_cons_self
    have hrest : ∀ h' ∈ rest, ∃ v ∈ L.pool, v.hash = h' ∧ (⟨u.hash, j⟩ : OutPoint) ∈ v.ins :=
      fun h' hh' => hhs h' (List.mem_cons_of_mem _ hh')
    rw [List.foldlM_cons]
    have hstep : rcInner rc b h = (match b.unmined.find? h with | none => pure b | some sp => rc b sp) := rfl
    rw [hstep]
    cases hf : b.unmined.find? h with
    | none =>
      -- already removed by an earlier recursive call
      have hPv : P v.hash = true := by
        cases hp : P v.hash with
        | true => rfl
        | false =>
          have : b.unmined.find? h = some v :=
            (hi.good.ref.unmined_iff h v).mpr ⟨mem_pool_minus.mpr ⟨hv, hp⟩, hvh.symm⟩
          rw [hf] at this; cases this
      obtain ⟨b', P', h1, h2, h3, h4⟩ := ih b P hi hrest
      refine ⟨b', P', by simpa using h1, h2, h3, ?_⟩
      intro h' hh'
      rcases List.mem_cons.mp hh' with rfl | hh''
      · rw [← hvh]; exact h3 _ hPv
      · exact h4 h' hh''
    | some sp =>
      obtain ⟨hsp, hsph⟩ := (hi.good.ref.unmined_iff h sp).mp hf
      obtain ⟨hspL, hspP⟩ := mem_pool_minus.mp hsp
      have hspv : sp = v := hl.pool_unique hspL hv (by rw [← hsph, hvh])
      subst hspv
      -- rank: the child is above u
      have hrank : rk u.hash < rk sp.hash :=
        hrk _ (known_of_pool hspL) _ hvk _ (known_of_pool hu) rfl
      have habove : above rk (minus L P (fun o => decide (o.hash = u.hash ∧ o.index < j))) sp.hash < n := by
        have h1 := above_minus_le rk L P (fun o => decide (o.hash = u.hash ∧ o.index < j)) sp.hash
        have h2 := above_child_lt rk L hrank ⟨sp, hspL, rfl⟩
        omega
      obtain ⟨b1, P1, hcall, hgood1, hdesc1⟩ := hrc b _ sp hi.good (hrk.minus _ _) hsp habove
      have hmono : ∀ x, Desc (minus L P (fun o => decide (o.hash = u.hash ∧ o.index < j))).pool sp.hash x →
          Desc L.pool sp.hash x := fun x hx => hx.mono (fun t ht => (mem_pool_minus.mp ht).1)
      have hchild : Desc L.pool u.hash sp.hash := Desc.step (Desc.refl _) hspL ⟨_, hvk, rfl⟩
      have hi1 : RCInv L u j b1 (fun x => P x || P1 x) := by
        refine ⟨?_, ?_, ?_, ?_⟩
        · rw [minus_minus] at hgood1
          rw [minus_congr L (P := fun x => P x || P1 x) (P' := fun x => P x || P1 x)
            (Q' := fun o => decide (o.hash = u.hash ∧ o.index < j) || false) (fun _ => rfl) (fun o => by simp)]
          exact hgood1
        · intro x hx
          simp only [Bool.or_eq_true] at hx
          rcases hx with hx | hx
          · exact hi.desc x hx
          · have hd := hmono x ((hdesc1 x).mp hx)
            refine ⟨hchild.trans hd, ?_⟩
            have := (Desc.rank_le (a := sp.hash) hrk ⟨_, known_of_pool hspL, rfl⟩ hd).1
            intro e; rw [e] at this; omega
        · intro w hw i hi' hx
          simp only [Bool.or_eq_true] at hx ⊢
          rcases hx with hx | hx
          · exact Or.inl (hi.closed w hw i hi' hx)
          · cases hpw : P w.hash with
            | true => exact Or.inl rfl
            | false =>
              right
              rw [hdesc1]
              exact Desc.step ((hdesc1 _).mp hx) (mem_pool_minus.mpr ⟨hw, hpw⟩) ⟨i, hi', rfl⟩
        · intro w hw i hi' e1 e2
          simp only [Bool.or_eq_true]
          exact Or.inl (hi.children w hw i hi' e1 e2)
      obtain ⟨b', P', h1, h2, h3, h4⟩ := ih b1 _ hi1 hrest
      refine ⟨b', P', ?_, h2, fun x hx => h3 x (by simp [hx]), ?_⟩
      · simp only [hcall, bind_ok]; exact h1
      · intro h' hh'
        rcases List.mem_cons.mp hh' with rfl | hh''
        · apply h3
          simp only [Bool.or_eq_true]
          right
          rw [hdesc1, hsph]; exact Desc.refl _
        · exact h4 h' hh''

theorem rc_outer_step {rk : Nat → Nat} {n : Nat} {rc : Store → Tx → M Store} (hrc : RCSpec rk n rc)
    {L : Ledger} (hl : LWF L) (hrk : RankOK rk L) {u : Tx} (hu : u ∈ L.pool) (hn : above rk L u.hash ≤ n) (j : Nat)
    (val : Int) (a : Store) (P : Nat → Bool) (hi : RCInv L u j a P) :
    ∃ a' P', rcOuter rc u a (j, val) = .ok a' ∧ RCInv L u (j + 1) a' P' ∧ (∀ h, P h = true → P' h = true) := by
  have hhs : ∀ h ∈ spendHashes a ⟨u.hash, j⟩, ∃ v ∈ L.pool, v.hash = h ∧ (⟨u.hash, j⟩ : OutPoint) ∈ v.ins := by
    intro h hh
    obtain ⟨v, hv, h1, h2⟩ := mem_poolSpenders.mp ((hi.good.ref.uinputs _ _).mp hh)
    exact ⟨v, (mem_pool_minus.mp hv).1, h2, h1⟩
  obtain ⟨b', P', h1, h2, h3, h4⟩ := rc_inner_loop hrc hl hrk hu hn j _ a P hi hhs
  have huP : P' u.hash = false := by
    cases hp : P' u.hash with
    | false => rfl
    | true => exact absurd rfl (h2.desc _ hp).2
  have hupool : u ∈ (minus L P' (fun o => decide (o.hash = u.hash ∧ o.index < j))).pool :=
    mem_pool_minus.mpr ⟨hu, huP⟩
  have hg := good_eraseUC h2.good hupool ⟨u.hash, j⟩ rfl
  refine ⟨{ b' with unminedCredits := b'.unminedCredits.erase ⟨u.hash, j⟩ }, P', ?_, ⟨?_, h2.desc, h2.closed, ?_⟩, h3⟩
  · unfold rcOuter
    simp only [h1, bind_ok, pure_eq]
  · rw [minus_minus] at hg
    rw [minus_congr L (P := P') (P' := fun x => P' x || false)
      (Q' := fun o => decide (o.hash = u.hash ∧ o.index < j) || o == (⟨u.hash, j⟩ : OutPoint)) (fun _ => by simp) ?_]
    · exact hg
    · intro o
      by_cases e : o = (⟨u.hash, j⟩ : OutPoint)
      · subst e; simp
      · have : (o == (⟨u.hash, j⟩ : OutPoint)) = false := by simpa using e
        rw [this, Bool.or_false]
        by_cases e1 : o.hash = u.hash
        · have : o.index ≠ j := by
            intro e2; apply e; cases o; simp_all
          simp only [e1, true_and, decide_eq_decide]; omega
        · simp [e1]
  · intro v hv i hi' e1 e2
    by_cases e3 : i.index < j
    · exact h2.children v hv i hi' e1 e3
    · have hij : i = (⟨u.hash, j⟩ : OutPoint) := by
        cases i; simp only [OutPoint.mk.injEq]; exact ⟨e1, by simp only at e2 e3; omega⟩
      cases hp : P v.hash with
      | true => exact h3 _ hp
      | false =>
        apply h4
        rw [hi.good.ref.uinputs, mem_poolSpenders]
        exact ⟨v, mem_pool_minus.mpr ⟨hv, hp⟩, by rw [← hij]; exact hi', rfl⟩

theorem rc_outer_loop {rk : Nat → Nat} {n : Nat} {rc : Store → Tx → M Store} (hrc : RCSpec rk n rc)
    {L : Ledger} (hl : LWF L) (hrk : RankOK rk L) {u : Tx} (hu : u ∈ L.pool) (hn : above rk L u.hash ≤ n) :
    ∀ (outs : List Int) (j : Nat) (a : Store) (P : Nat → Bool), RCInv L u j a P →
      ∃ a' P', (withIdx outs j).foldlM (rcOuter rc u) a = .ok a' ∧ RCInv L u (j + outs.length) a' P' := by
  intro outs
  induction outs with
  | nil => intro j a P hi; exact ⟨a, P, rfl, hi⟩
  | cons val rest ih =>
    intro j a P hi
    obtain ⟨a1, P1, h1, h2, _⟩ := rc_outer_step hrc hl hrk hu hn j val a P hi
    obtain ⟨a', P', h3, h4⟩ := ih (j + 1) a1 P1 h2
    refine ⟨a', P', ?_, ?_⟩
    · simp only [withIdx, List.foldlM_cons, h1, bind_ok]; exact h3
    · rw [List.length_cons]
      have : j + (rest.length + 1) = j + 1 + rest.length := by omega
      rw [this]; exact h4

/-- **`removeConflict` removes exactly the transaction and its unconfirmed descendants** (any fuel above the number of
unconfirmed transactions ranked above it) -/
theorem good_removeConflict (rk : Nat → Nat) : ∀ (n : Nat), RCSpec rk n (removeConflict n) := by
  intro n
  induction n with
  | zero => intro s L u _ _ _ h; omega
  | succ n ih =>
    intro s L u hg hrk hu hn
    have hl := hg.lwf
    have hi0 : RCInv L u 0 s (fun _ => false) := by
      refine ⟨?_, fun h hh => absurd hh (by simp), fun _ _ _ _ hh => absurd hh (by simp),
        fun _ _ _ _ _ hh => absurd hh (by omega)⟩
      have : minus L (fun _ => false) (fun o => decide (o.hash = u.hash ∧ o.index < 0)) = L := by
        unfold minus
        have h1 : L.pool.filter (fun t => !(fun _ => false) t.hash) = L.pool := by simp
        have h2 : L.credit.filter (fun p => !(fun _ => false) p.1.hash &&
            !(fun o : OutPoint => decide (o.hash = u.hash ∧ o.index < 0)) p.1) = L.credit := by simp
        rw [h1, h2]
      rw [this]; exact hg
    obtain ⟨a, P, h1, h2⟩ := rc_outer_loop ih hl hrk hu (by omega) u.outs 0 s _ hi0
    rw [Nat.zero_add] at h2
    have huP : P u.hash = false := by
      cases hp : P u.hash with
      | false => rfl
      | true => exact absurd rfl (h2.desc _ hp).2
    have hupool : u ∈ (minus L P (fun o => decide (o.hash = u.hash ∧ o.index < u.outs.length))).pool :=
      mem_pool_minus.mpr ⟨hu, huP⟩
    have hnc : ∀ p ∈ (minus L P (fun o => decide (o.hash = u.hash ∧ o.index < u.outs.length))).credit,
        p.1.hash ≠ u.hash := by
      intro p hp e
      obtain ⟨hp1, _, hp3⟩ := mem_credit_minus.mp hp
      obtain ⟨q, hq, e1, e2⟩ := hl.creditKnown p hp1
      have : q = (u, none) := hl.known_unique hq (known_of_pool hu) (by rw [e1, e])
      subst this
      simp only [decide_eq_false_iff_not, not_and] at hp3
      exact hp3 e e2
    have hg' := good_dropTx h2.good hupool hnc
    refine ⟨{ (u.ins.foldl (fun s inp => deleteRawUnminedInput s inp u.hash) a) with
        unmined := (u.ins.foldl (fun s inp => deleteRawUnminedInput s inp u.hash) a).unmined.erase u.hash },
      fun h => P h || h == u.hash, ?_, ?_, ?_⟩
    · unfold removeConflict
      rw [removeConflictBody_eq]
      simp only [h1, bind_ok, pure_eq]
    · rw [minus_minus] at hg'
      rw [minus_congr' L (P := fun h => P h || h == u.hash) (P' := fun h => P h || h == u.hash)
        (Q' := fun o => decide (o.hash = u.hash ∧ o.index < u.outs.length) || false) (fun _ => rfl) ?_]
      · exact hg'
      · intro o
        by_cases e : o.hash = u.hash
        · simp [e]
        · simp [e]
    · intro h
      simp only [Bool.or_eq_true, beq_iff_eq]
      constructor
      · rintro (hp | rfl)
        · exact (h2.desc h hp).1
        · exact Desc.refl _
      · intro hd
        induction hd with
        | refl => exact Or.inr rfl
        | @step b v _ hv hi ih' =>
          obtain ⟨i, hi1, hi2⟩ := hi
          left
          rcases ih' with hp | rfl
          · exact h2.closed v hv i hi1 (by rw [hi2]; exact hp)
          · exact h2.children v hv i hi1 hi2
              (hl.validRefs _ (known_of_pool hv) i hi1 _ (known_of_pool hu) hi2.symm)

end TxStore
