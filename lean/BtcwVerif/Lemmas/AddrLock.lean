/-
Helper lemmas about the AddrLock model (frame lemmas: which fields an operation can touch).
-/
import BtcwVerif.Model.AddrLock
namespace AddrLock

/-! ### association lists -/

theorem aget_aset_self {α β} [DecidableEq α] (l : List (α × β)) (k : α) (v : β) : aget (aset l k v) k = some v := by
  induction l with
  | nil => simp [aset, aget]
  | cons p t ih =>
    obtain ⟨k', v'⟩ := p
    by_cases hk : k' = k <;> simp [aset, aget, hk, ih]

theorem aget_aset_ne {α β} [DecidableEq α] (l : List (α × β)) (k k' : α) (v : β) (h : k' ≠ k) :
    aget (aset l k v) k' = aget l k' := by
  induction l with
  | nil => simp [aset, aget, Ne.symm h]
  | cons p t ih =>
    obtain ⟨k'', v''⟩ := p
    by_cases hk : k'' = k
    · subst hk; simp [aset, aget, Ne.symm h]
    · by_cases hk2 : k'' = k'
      · subst hk2; simp [aset, aget, hk]
      · simp [aset, aget, hk, hk2, ih]

theorem aget_aset {α β} [DecidableEq α] (l : List (α × β)) (k k' : α) (v : β) :
    aget (aset l k v) k' = if k' = k then some v else aget l k' := by
  by_cases h : k' = k
  · subst h; simp [aget_aset_self]
  · simp [h, aget_aset_ne _ _ _ _ h]

theorem mem_aset {α β} [DecidableEq α] {l : List (α × β)} {k : α} {v : β} {x : α × β}
    (h : x ∈ aset l k v) : x = (k, v) ∨ x ∈ l := by
  induction l with
  | nil => simp [aset] at h; exact Or.inl h
  | cons p t ih =>
    obtain ⟨k', v'⟩ := p
    by_cases hk : k' = k
    · simp [aset, hk] at h
      rcases h with h | h
      · exact Or.inl h
      · exact Or.inr (List.mem_cons_of_mem _ h)
    · simp [aset, hk] at h
      rcases h with h | h
      · exact Or.inr (by rw [h]; exact List.mem_cons_self)
      · rcases ih h with h | h
        · exact Or.inl h
        · exact Or.inr (List.mem_cons_of_mem _ h)

theorem aget_of_mem_some {α β} [DecidableEq α] {l : List (α × β)} {k : α} {v : β} (h : aget l k = some v) :
    (k, v) ∈ l := by
  induction l with
  | nil => simp [aget] at h
  | cons p t ih =>
    obtain ⟨k', v'⟩ := p
    by_cases hk : k' = k
    · simp [aget, hk] at h; subst hk; subst h; exact List.mem_cons_self
    · simp [aget, hk] at h; exact List.mem_cons_of_mem _ (ih h)

/-! ### scalar fields: lock state, buffers, passphrase data -/

/-- everything the lock / passphrase logic reads, except caches and heap -/
def Scal (m : Mem) :=
  (m.locked, m.watchOnly, m.masterPriv, m.cryptoPriv, m.cryptoScript, m.hashed, m.privPass, m.pubPass, m.saltZero)

theorem scal_updScope (m : Mem) (sc : Nat) (f) : Scal (m.updScope sc f) = Scal m := rfl
theorem scal_alloc (m : Mem) (o) : Scal (m.alloc o).1 = Scal m := rfl
theorem scal_setObj (m : Mem) (i f) : Scal (m.setObj i f) = Scal m := rfl

theorem scal_keyToManaged (m : Mem) (sc a b i : Nat) (p : Bool) : Scal (keyToManaged m sc a b i p).1 = Scal m := by
  unfold keyToManaged; split <;> rfl

theorem scal_loadAcct {d m sc a m1} (h : loadAcct d m sc a = .ok m1) : Scal m1 = Scal m := by
  unfold loadAcct at h
  split at h
  · cases h; rfl
  · split at h
    · cases h
    · split at h
      · cases h
      · split at h
        · cases h
        · cases h; simp [loadAcctRow, scal_updScope, scal_keyToManaged]

theorem scal_chainRow {d m sc a b i r} (h : chainRowToManaged d m sc a b i = .ok r) : Scal r.1 = Scal m := by
  unfold chainRowToManaged at h
  split at h
  · cases h
  · rename_i m1 hl
    split at h
    · cases h
    · cases h; rw [scal_keyToManaged, scal_loadAcct hl]

theorem kind_chainRow {d m sc a b i r} (h : chainRowToManaged d m sc a b i = .ok r) :
    (r.1.heap r.2).kind = .managed := by
  unfold chainRowToManaged at h
  split at h
  · cases h
  · split at h
    · cases h
    · cases h
      simp only [keyToManaged, Mem.alloc, Mem.updScope]
      split <;> simp

theorem scal_loadAndCache {d m sc k r} (h : loadAndCache d m sc k = .ok r) : Scal r.1 = Scal m := by
  unfold loadAndCache at h
  split at h
  · cases h
  · dsimp only at h
    split at h
    · split at h
      · cases h
      · rename_i r' hc; cases h; rw [scal_updScope, scal_chainRow hc]
    · cases h
    · cases h; rfl
    · cases h; rfl
    · cases h; rfl

theorem scal_addressOf {d m sc k r} (h : addressOf d m sc k = .ok r) : Scal r.1 = Scal m := by
  unfold addressOf at h
  split at h
  · cases h; rfl
  · exact scal_loadAndCache h

theorem scal_mkAddrs (m : Mem) (a b : Nat) (p : Bool) (start n : Nat) : Scal (mkAddrs m a b p start n).1 = Scal m := by
  induction n generalizing m start with
  | zero => rfl
  | succ n ih => simp only [mkAddrs]; rw [ih]; rfl

theorem scal_putAndLoad (sc : Nat) (es : List Dou) (d : Disk) (m : Mem) : Scal (putAndLoad sc es d m).2.1 = Scal m := by
  induction es generalizing d m with
  | nil => rfl
  | cons e es ih =>
    simp only [putAndLoad]
    split
    · rfl
    · split
      · rfl
      · rename_i r hr; rw [ih, scal_loadAndCache hr]

theorem scal_foldl {α} (l : List α) (m : Mem) (f : Mem → α → Mem)
    (hf : ∀ m a, Scal (f m a) = Scal m) : Scal (l.foldl f m) = Scal m := by
  induction l generalizing m with
  | nil => rfl
  | cons a t ih => simp only [List.foldl]; rw [ih, hf]

theorem scal_cacheNew (sc : Nat) (w : Bool) (m : Mem) (e : Dou) : Scal (cacheNew sc w m e) = Scal m := rfl

theorem scal_nextAddresses (d : Disk) (m : Mem) (sc a n : Nat) (int : Bool) :
    Scal (nextAddresses d m sc a n int).mem = Scal m := by
  unfold nextAddresses
  split
  · rfl
  · rename_i m1 hl
    have h1 := scal_loadAcct hl
    split
    · exact h1
    · rename_i info _
      dsimp only
      split
      · exact h1
      · split
        · exact h1
        · have key := scal_putAndLoad sc
            (mkAddrs m1 a (brOf int) (!m1.locked && !(m1.watchOnly || !info.hasEnc)) (nextOf info int) n).2 d
            (mkAddrs m1 a (brOf int) (!m1.locked && !(m1.watchOnly || !info.hasEnc)) (nextOf info int) n).1
          split
          · rename_i hp; rw [hp] at key; simp only at key; rw [key, scal_mkAddrs, h1]
          · rename_i hp; rw [hp] at key; simp only at key; rw [key, scal_mkAddrs, h1]

theorem scal_runPend (cfg : Cfg) (m : Mem) (p : Pend) : Scal (runPend cfg m p) = Scal m := by
  unfold runPend
  have h1 : ∀ m0 : Mem, Scal (p.infos.foldl (cacheNew p.scope p.watchOnly) m0) = Scal m0 :=
    fun m0 => scal_foldl _ _ _ (scal_cacheNew _ _)
  dsimp only
  have h0 : ∀ (b : Bool) (x : Mem), Scal x = Scal m → Scal (if b then x else m) = Scal m := by
    intro b x hx; cases b <;> simp [hx]
  split
  · rw [scal_updScope, h1]; split <;> rfl
  · rw [h1]; split <;> rfl

theorem scal_foldl_runPend (cfg : Cfg) (ps : List Pend) (m : Mem) : Scal (ps.foldl (runPend cfg) m) = Scal m :=
  scal_foldl ps m (runPend cfg) (scal_runPend cfg)

theorem scal_extend (cfg : Cfg) (d : Disk) (m : Mem) (sc a li : Nat) (int : Bool) :
    Scal (extendAddresses cfg d m sc a li int).2.1 = Scal m := by
  unfold extendAddresses
  split
  · rfl
  · rename_i m1 hl
    have h1 := scal_loadAcct hl
    split
    · exact h1
    · dsimp only
      have h2 : ∀ (l : List Dou) (m0 : Mem) (w : Bool), Scal (l.foldl (cacheNew sc w) m0) = Scal m0 :=
          fun l m0 w => scal_foldl _ _ _ (scal_cacheNew _ _)
      split
      · exact h1
      · split
        · exact h1
        · split
          · exact h1
          · split
            · rw [scal_mkAddrs, h1]
            · split
              · rw [h2, scal_mkAddrs, h1]
              · rw [scal_updScope, h2, scal_mkAddrs, h1]

theorem scal_query (d : Disk) (m : Mem) (q : Query) : Scal (query d m q).1 = Scal m := by
  cases q <;> simp only [query]
  · split
    · rfl
    · rename_i r hr; exact scal_addressOf hr
  · split
    · rfl
    · split
      · rfl
      · rename_i m1 hl; split <;> exact scal_loadAcct hl
  · split
    · rfl
    · rename_i m1 hl; split
      · exact scal_loadAcct hl
      · split <;> exact scal_loadAcct hl
  · split <;> rfl
  · split <;> rfl
  · split
    · rfl
    · rename_i r hr; exact scal_addressOf hr
  · split <;> rfl

theorem scal_privKeyObj (m : Mem) (id : Nat) : Scal (privKeyObj m id).1 = Scal m := by
  unfold privKeyObj; dsimp only; repeat' split
  all_goals rfl

theorem scal_scriptObj (m : Mem) (id : Nat) : Scal (scriptObj m id).1 = Scal m := by
  unfold scriptObj; dsimp only; repeat' split
  all_goals rfl

theorem scal_deriveCache (cfg : Cfg) (m : Mem) (sc : Nat) (p : Path) : Scal (deriveCache cfg m sc p).1 = Scal m := by
  unfold deriveCache; dsimp only; repeat' split
  all_goals rfl

theorem scal_derivePath (d : Disk) (m : Mem) (sc a b i : Nat) : Scal (derivePath d m sc a b i).1 = Scal m := by
  unfold derivePath; split
  · rfl
  · rename_i r hr; rw [scal_privKeyObj, scal_chainRow hr]

theorem scal_importKey (d : Disk) (m : Mem) (sc k : Nat) (p : Bool) : Scal (importKey d m sc k p).2.1 = Scal m := by
  unfold importKey; dsimp only; repeat' split
  all_goals rfl

theorem scal_importScript (d : Disk) (m : Mem) (sc kind sid : Nat) (p : Bool) :
    Scal (importScript d m sc kind sid p).2.1 = Scal m := by
  unfold importScript; dsimp only; repeat' split
  all_goals rfl

theorem scal_rename (d : Disk) (m : Mem) (sc a : Nat) (n : String) : Scal (renameAccount d m sc a n).2.1 = Scal m := by
  unfold renameAccount; dsimp only; repeat' split
  all_goals rfl

/-- ops that do not touch lock state, buffers or passphrase data -/
def Op.plain : Op → Bool
  | .unlock _ | .lock | .changePass .. | .convertWO | .create .. | .reopen _ | .begin | .commit | .rollback => false
  | _ => true

theorem scal_markUsed (d : Disk) (m : Mem) (sc : Nat) (k : AKey) : Scal (markUsed d m sc k).2 = Scal m := rfl
theorem scal_setSynced (d : Disk) (m : Mem) (h x : Nat) : Scal (setSyncedTo d m h x).2.1 = Scal m := by
  unfold setSyncedTo; split <;> rfl

theorem scal_exec (s : State) (m : Mem) (hs : s.mem = some m) (op : Op) (hp : op.plain = true) (m' : Mem)
    (h : (exec s m op).1.mem = some m') : Scal m' = Scal m := by
  cases op <;> simp only [Op.plain] at hp <;> simp only [exec] at h
  all_goals try contradiction
  case newAccount => split at h <;> (simp only [hs] at h; cases h; rfl)
  case rename => cases h; exact scal_rename ..
  case next =>
    split at h <;> (simp only [] at h; cases h; exact scal_nextAddresses ..)
  case extend => cases h; exact scal_extend ..
  case importKey => cases h; exact scal_importKey ..
  case importScript => cases h; exact scal_importScript ..
  case markUsed => cases h; exact scal_markUsed ..
  case setSynced => cases h; exact scal_setSynced ..
  case setBirthday => simp only [hs] at h; cases h; rfl
  case privKey =>
    split at h
    · simp only [hs] at h; cases h; rfl
    · rename_i r hr; simp only [] at h; cases h; rw [scal_privKeyObj, scal_addressOf hr]
  case lastPrivKey sc acct int =>
    have hq := scal_query s.disk m (.lastAddr sc acct int)
    split at h
    · rename_i m1 k a hm
      rw [hm] at hq
      split at h <;> (simp only [] at h; cases h)
      · rw [scal_privKeyObj]; exact hq
      · exact hq
    · rename_i m1 e hm; rw [hm] at hq; simp only [] at h; cases h; exact hq
    · rename_i m1 _ _ hm; rw [hm] at hq; simp only [] at h; cases h; exact hq
  case script =>
    split at h
    · simp only [hs] at h; cases h; rfl
    · rename_i r hr; simp only [] at h; cases h; rw [scal_scriptObj, scal_addressOf hr]
  case crypt => simp only [hs] at h; cases h; rfl
  case derive => cases h; exact scal_derivePath ..
  case deriveCache => cases h; exact scal_deriveCache ..
  case q => cases h; exact scal_query ..
end AddrLock
