import BtcwVerif.Lemmas.RefLease
/-!
# Refinement along histories of events

`storeAfter s L es`: the store calls of the events `es` one after the other (clock = the ledger's clock);
`ledgerAfter L es`: `Ledger.apply` folded.  `good_history`: from a good pair, along every chain-consistent history, the
store calls succeed and the pair stays good.
-/
namespace TxStore
open KMap Ledger

def storeAfter (s : Store) (L : Ledger) : List Event → M Store
  | [] => pure s
  | e :: es => do
    let s' ← stepEvent s L.now e
    storeAfter s' (Ledger.apply L e) es

def ledgerAfter (L : Ledger) (es : List Event) : Ledger := es.foldl Ledger.apply L

/-- every event of the history is chain-consistent at the moment it is delivered -/
def ConsistentHistory (L : Ledger) : List Event → Prop
  | [] => True
  | e :: es => Consistent L e ∧ ConsistentHistory (Ledger.apply L e) es

/-- the event is not a block disconnection -/
def Event.noReorg : Event → Prop
  | .disconnected _ => False
  | _ => True

theorem refines_empty : Refines Store.empty {} := by
  refine ⟨rfl, ?_, ?_, ?_, ?_, ?_, ?_, ?_, ?_, List.nodup_nil, List.nodup_nil, List.nodup_nil, List.nodup_nil⟩
  · intro k v; constructor <;> intro h <;> cases h
  · intro k v; constructor <;> intro h <;> cases h
  · intro k v; constructor <;> intro h <;> cases h
  · intro k v
    constructor
    · intro h; cases h
    · rintro ⟨cv, h, _⟩; cases h
  · intro k v; constructor <;> intro h <;> cases h
  · intro op h; constructor <;> intro h' <;> cases h'
  · intro op h; cases h
  · intro op; rfl

theorem good_empty : Good Store.empty {} := ⟨wf2_empty, lwf_empty, refines_empty⟩

theorem noConflict_empty : NoConflict {} := by intro t ht; cases ht

/-- one event (every kind except a block disconnection) -/
theorem good_step_noReorg {s : Store} {L : Ledger} (hg : Good s L) (e : Event) (hc : Consistent L e)
    (hn : Event.noReorg e) :
    ∃ s', stepEvent s L.now e = .ok s' ∧ Good s' (Ledger.apply L e) ∧ (NoConflict L → NoConflict (Ledger.apply L e)) := by
  cases e with
  | seen t cr => exact good_seen hg L.now hc
  | confirmed bm t cr => exact good_confirmed hg L.now hc
  | disconnected h => exact absurd hn (by simp [Event.noReorg])
  | abandoned t => exact good_abandoned hg L.now hc
  | lease id op d => exact good_lease hg id op d
  | release id op => exact good_release hg id op
  | sweep => exact good_sweep hg
  | clock t => exact good_clock hg t

theorem good_history_noReorg : ∀ (es : List Event) (s : Store) (L : Ledger), Good s L → NoConflict L →
    ConsistentHistory L es → (∀ e ∈ es, Event.noReorg e) →
    ∃ s', storeAfter s L es = .ok s' ∧ Good s' (ledgerAfter L es) ∧ NoConflict (ledgerAfter L es) := by
  intro es
  induction es with
  | nil => intro s L hg hn _ _; exact ⟨s, rfl, hg, hn⟩
  | cons e es ih =>
    intro s L hg hn hc hr
    obtain ⟨s1, h1, hg1, hn1⟩ := good_step_noReorg hg e hc.1 (hr e List.mem_cons_self)
    obtain ⟨s', h2, hg2, hn2⟩ := ih s1 (Ledger.apply L e) hg1 (hn1 hn) hc.2 (fun e' he' => hr e' (List.mem_cons_of_mem _ he'))
    refine ⟨s', ?_, hg2, hn2⟩
    show (stepEvent s L.now e >>= fun s' => storeAfter s' (Ledger.apply L e) es) = _
    rw [h1, bind_ok, h2]

end TxStore
