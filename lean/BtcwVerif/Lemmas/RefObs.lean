import BtcwVerif.Lemmas.RefHistory
/-!
# Observables of a good pair: the store's answers are the ledger's sentences
`balance_refines`: the C01 formula on the store's records (`storeTruth`) is `Ledger.balance`.
-/
namespace TxStore
open KMap Ledger

/-! ### sums -/

theorem sum_map_flatMap {α β : Type} (f : α → List β) (g : β → Int) (l : List α) :
    ((l.flatMap f).map g).sum = (l.map fun a => ((f a).map g).sum).sum := by
  induction l with
  | nil => rfl
  | cons a t ih => simp [List.flatMap_cons, ih]

theorem sum_map_filterMap {α β : Type} (f : α → Option β) (g : β → Int) (l : List α) :
    ((l.filterMap f).map g).sum = (l.map fun a => ((f a).map g).getD 0).sum := by
  induction l with
  | nil => rfl
  | cons a t ih =>
    rw [List.filterMap_cons]
    cases h : f a with
    | none => simp [h, ih]
    | some b => simp [h, ih]

theorem sum_map_congr {α : Type} (f g : α → Int) (l : List α) (h : ∀ a ∈ l, f a = g a) :
    (l.map f).sum = (l.map g).sum := by
  rw [List.map_congr_left h]

theorem sum_withIdx {α : Type} (g : Nat × α → Int) : ∀ (l : List α) (n : Nat),
    ((withIdx l n).map g).sum =
      ((List.range l.length).map fun i => ((l[i]?).map fun v => g (n + i, v)).getD 0).sum := by
  intro l
  induction l with
  | nil => intro n; rfl
  | cons a t ih =>
    intro n
    simp only [withIdx, List.map_cons, List.sum_cons, List.length_cons]
    rw [ih (n + 1), List.range_succ_eq_map, List.map_cons, List.sum_cons, List.map_map]
    simp only [List.getElem?_cons_zero, Nat.add_zero]
    congr 1
    apply sum_map_congr
    intro i _
    simp only [Function.comp, List.getElem?_cons_succ]
    have : n + 1 + i = n + (i + 1) := by omega
    rw [this]

/-! ### the atoms of the C01 sentence, store vs ledger -/

theorem spentByUnmined_iff {s : Store} {L : Ledger} (hr : Refines s L) (op : OutPoint) :
    spentByUnmined s op = true ↔ ∃ u ∈ L.pool, op ∈ u.ins := by
  unfold spentByUnmined
  rw [contains_eq]
  constructor
  · intro h
    cases hf : s.unminedInputs.find? op with
    | none => rw [hf] at h; cases h
    | some l =>
      cases l with
      | nil => exact absurd hf (hr.uinputsNE op)
      | cons x r =>
        have : x ∈ spendHashes s op := by unfold spendHashes; rw [hf]; simp
        obtain ⟨u, hu, h1, _⟩ := mem_poolSpenders.mp ((hr.uinputs op x).mp this)
        exact ⟨u, hu, h1⟩
  · rintro ⟨u, hu, h1⟩
    have : u.hash ∈ spendHashes s op := (hr.uinputs op u.hash).mpr (mem_poolSpenders.mpr ⟨u, hu, h1, rfl⟩)
    unfold spendHashes at this
    cases hf : s.unminedInputs.find? op with
    | none => rw [hf] at this; cases this
    | some l => rfl

theorem spent_eq {s : Store} {L : Ledger} (hr : Refines s L) (op : OutPoint) :
    Ledger.spent L op = (spentConfirmed L op || spentByUnmined s op) := by
  have hiff : Ledger.spent L op = true ↔ (spentConfirmed L op || spentByUnmined s op) = true := by
    rw [spent_iff, Bool.or_eq_true, spentConfirmed_iff, spentByUnmined_iff hr]
    constructor
    · rintro ⟨⟨t, ob⟩, hp, hin⟩
      rcases mem_known.mp hp with ⟨b, rfl, hm⟩ | ⟨rfl, hm⟩
      · exact Or.inl ⟨(t, b), hm, hin⟩
      · exact Or.inr ⟨t, hm, hin⟩
    · rintro (⟨p, hp, hin⟩ | ⟨u, hu, hin⟩)
      · exact ⟨(p.1, some p.2), known_of_mined hp, hin⟩
      · exact ⟨(u, none), known_of_pool hu, hin⟩
  cases h1 : Ledger.spent L op <;> cases h2 : (spentConfirmed L op || spentByUnmined s op) <;> simp_all

theorem leased_eq {s : Store} {L : Ledger} (hg : Good s L) (op : OutPoint) : isLocked s op L.now = leased L op :=
  C12.C12_leased_refines_partial s L (leaseRefines_of_good hg) op

/-! ### the mined part -/

/-- the ledger's term for one output of a known transaction -/
def ledgerTerm (L : Ledger) (m sy mat : Int) (t : Tx) (b : Option BlockMeta) (iv : Nat × Int) : Int :=
  if counts L m sy mat t b iv.1 then iv.2 else 0

def ledgerTx (L : Ledger) (m sy mat : Int) (t : Tx) (b : Option BlockMeta) : Int :=
  ((withIdx t.outs).map (ledgerTerm L m sy mat t b)).sum

theorem balance_eq_ledgerTx (L : Ledger) (mat m sy : Int) :
    Ledger.balance L mat m sy = ((known L).map fun p => ledgerTx L m sy mat p.1 p.2).sum := by
  unfold Ledger.balance ledgerTx ledgerTerm
  congr 1

/-- the store's term for one mined credit -/
def storeTerm (s : Store) (now : Nat) (m sy mat : Int) (c : CInfo) : Int :=
  if !c.val.spent then (if countsMined s now m sy mat c then c.val.amount else 0) else 0

theorem mined_term_eq {s : Store} {L : Ledger} (hg : Good s L) (m sy mat : Int) {t : Tx} {bm : BlockMeta}
    (ht : (t, bm) ∈ chainTxs L) (i : Nat) (v : Int) (hv : t.outs[i]? = some v) :
    ((creditInfo s ⟨t.hash, bm.block, i⟩).map (storeTerm s L.now m sy mat)).getD 0 =
      ledgerTerm L m sy mat t (some bm) (i, v) := by
  have hr := hg.ref
  have hrec : s.txrecs.find? ⟨t.hash, bm.block⟩ = some t := (hr.txrecs_iff _ _).mpr ⟨bm, ht, rfl⟩
  have hop : (⟨t.hash, bm.block, i⟩ : CredKey).outPoint = ⟨t.hash, i⟩ := rfl
  unfold ledgerTerm counts
  cases hlk : lookup L.credit ⟨t.hash, i⟩ with
  | none =>
    have hnone : s.credits.find? ⟨t.hash, bm.block, i⟩ = none := by
      cases hf : s.credits.find? ⟨t.hash, bm.block, i⟩ with
      | none => rfl
      | some cv =>
        obtain ⟨_, _, _, _, _, _, h4, _⟩ := (hr.credits_iff _ _).mp hf
        rw [hop, hlk] at h4; cases h4
    have : creditInfo s ⟨t.hash, bm.block, i⟩ = none := by unfold creditInfo; rw [hnone]
    rw [this]
    simp [credited, hlk]
  | some chg =>
    have hcred : s.credits.find? ⟨t.hash, bm.block, i⟩ =
        some ⟨v, chg, (spenderOf L ⟨t.hash, i⟩).isSome, spenderOf L ⟨t.hash, i⟩⟩ :=
      (hr.credits_iff _ _).mpr ⟨t, bm, ht, rfl, rfl, hv, by rw [hop]; exact hlk, by rw [hop], by rw [hop]⟩
    have hci : creditInfo s ⟨t.hash, bm.block, i⟩ =
        some ⟨⟨t.hash, bm.block, i⟩, ⟨v, chg, (spenderOf L ⟨t.hash, i⟩).isSome, spenderOf L ⟨t.hash, i⟩⟩, t.isCoinBase⟩ := by
      unfold creditInfo
      rw [hcred, show (⟨t.hash, bm.block, i⟩ : CredKey).txKey = ⟨t.hash, bm.block⟩ from rfl, hrec]
    rw [hci]
    unfold storeTerm countsMined tooYoung
    simp only [Option.map_some, Option.getD_some, hop, credited, hlk, Option.isSome_some, Bool.true_and,
      Option.isSome_some, Bool.or_true, Bool.and_true]
    rw [spent_eq hr, leased_eq hg, spenderOf_isSome, confs]
    cases spentConfirmed L ⟨t.hash, i⟩ <;> cases spentByUnmined s ⟨t.hash, i⟩ <;> cases leased L ⟨t.hash, i⟩ <;>
      cases t.isCoinBase <;> simp <;> (try (split <;> split <;> first | rfl | omega)) <;> (try omega)

theorem mined_tx_eq {s : Store} {L : Ledger} (hg : Good s L) (m sy mat : Int) {t : Tx} {bm : BlockMeta}
    (ht : (t, bm) ∈ chainTxs L) :
    ((txCredits s bm.block t.hash).map (storeTerm s L.now m sy mat)).sum = ledgerTx L m sy mat t (some bm) := by
  have hrec : s.txrecs.find? ⟨t.hash, bm.block⟩ = some t := (hg.ref.txrecs_iff _ _).mpr ⟨bm, ht, rfl⟩
  unfold txCredits ledgerTx
  rw [hrec]
  simp only
  rw [sum_map_filterMap, sum_withIdx]
  apply sum_map_congr
  intro i hi
  have hlt : i < t.outs.length := List.mem_range.mp hi
  rw [List.getElem?_eq_getElem hlt]
  simp only [Nat.zero_add]
  exact mined_term_eq hg m sy mat ht i _ (List.getElem?_eq_getElem hlt)

theorem mined_sum_eq {s : Store} {L : Ledger} (hg : Good s L) (m sy mat : Int) :
    ((minedUnspent s).map fun c => if countsMined s L.now m sy mat c then c.val.amount else 0).sum =
      ((chainTxs L).map fun p => ledgerTx L m sy mat p.1 (some p.2)).sum := by
  have h1 : ((minedUnspent s).map fun c => if countsMined s L.now m sy mat c then c.val.amount else 0).sum =
      ((minedCredits s).map (storeTerm s L.now m sy mat)).sum := by
    unfold minedUnspent
    rw [← sum_filter_zero (fun c : CInfo => !c.val.spent) (storeTerm s L.now m sy mat)
      (fun a ha => by unfold storeTerm; simp [ha])]
    apply sum_map_congr
    intro c hc
    have := (List.mem_filter.mp hc).2
    unfold storeTerm
    simp [this]
  rw [h1]
  unfold minedCredits blockCredits
  rw [sum_map_flatMap, hg.ref.blocks, List.map_map]
  unfold chainTxs
  rw [sum_map_flatMap]
  apply sum_map_congr
  intro lb hlb
  simp only [Function.comp, blockEntry]
  rw [sum_map_flatMap, List.map_map, List.map_map]
  apply sum_map_congr
  intro t ht
  simp only [Function.comp]
  have hm : (t, lb.bm) ∈ chainTxs L := mem_chainTxs.mpr ⟨lb, hlb, rfl, ht⟩
  have := mined_tx_eq hg m sy mat hm
  have hb : (⟨lb.bm.block.height, lb.bm.block.hash⟩ : Block) = lb.bm.block := rfl
  rw [hb]; exact this

/-! ### the unconfirmed part -/

theorem nodup_expUnminedCredits {L : Ledger} (hl : LWF L) : (expUnminedCredits L).Nodup := by
  unfold expUnminedCredits
  rw [List.Nodup, List.pairwise_flatMap]
  constructor
  · intro t _
    rw [List.pairwise_filterMap]
    have hnd := withIdx_fst_nodup t.outs 0
    rw [List.Nodup, List.pairwise_map] at hnd
    refine hnd.imp ?_
    intro a a' hne b hb b' hb' e
    split at hb
    · split at hb'
      · simp only [Option.some.injEq] at hb hb'
        rw [← hb, ← hb'] at e
        injection e with e1 _
        injection e1 with _ e2
        exact hne e2
      · cases hb'
    · cases hb
  · have hp := pool_hashes_nodup hl
    rw [List.Nodup, List.pairwise_map] at hp
    refine hp.imp ?_
    intro t1 t2 hne x hx y hy e
    simp only [List.mem_filterMap] at hx hy
    obtain ⟨a, _, ha⟩ := hx
    obtain ⟨b, _, hb⟩ := hy
    split at ha
    · split at hb
      · simp only [Option.some.injEq] at ha hb
        rw [← ha, ← hb] at e
        injection e with e1 _
        injection e1 with e2 _
        exact hne e2
      · cases hb
    · cases ha

theorem unminedCredits_perm {s : Store} {L : Ledger} (hg : Good s L) : s.unminedCredits.Perm (expUnminedCredits L) := by
  have h1 : s.unminedCredits.Nodup := by
    have := hg.wf2.wf.nodupUC
    unfold NodupKeys keys at this
    rw [List.Nodup, List.pairwise_map] at this
    exact this.imp (fun hne e => hne (by rw [e]))
  rw [List.perm_ext_iff_of_nodup h1 (nodup_expUnminedCredits hg.lwf)]
  rintro ⟨op, uc⟩
  rw [mem_iff_find? _ hg.wf2.wf.nodupUC]
  exact hg.ref.ucredits op uc

theorem unmined_term_eq {s : Store} {L : Ledger} (hg : Good s L) (sy mat : Int) {t : Tx} (ht : t ∈ L.pool)
    (iv : Nat × Int) :
    (((match lookup L.credit ⟨t.hash, iv.1⟩ with
        | some chg => some ((⟨t.hash, iv.1⟩ : OutPoint), (⟨iv.2, chg⟩ : UCredit))
        | none => none).map fun e => if countsUnmined s L.now e then e.2.amount else 0).getD 0) =
      ledgerTerm L 0 sy mat t none iv := by
  have hr := hg.ref
  have hsc : spentConfirmed L ⟨t.hash, iv.1⟩ = false := by
    rw [spentConfirmed_false_iff]
    intro p hp hin
    obtain ⟨b, hb, _⟩ := hg.lwf.parents p hp _ hin _ (known_of_pool ht) rfl
    cases hb
  have hcb := hg.lwf.poolNoCb t ht
  cases hlk : lookup L.credit ⟨t.hash, iv.1⟩ with
  | none => simp [ledgerTerm, counts, credited, hlk]
  | some chg =>
    simp only [ledgerTerm, counts, credited, hlk, Option.map_some, Option.getD_some, countsUnmined, spent_eq hr,
      ← leased_eq hg, hsc, hcb, confs]
    by_cases h1 : isLocked s ⟨t.hash, iv.1⟩ L.now = true <;>
      by_cases h2 : spentByUnmined s ⟨t.hash, iv.1⟩ = true <;> simp [h1, h2]

theorem unmined_sum_eq {s : Store} {L : Ledger} (hg : Good s L) (sy mat : Int) :
    (s.unminedCredits.map fun e => if countsUnmined s L.now e then e.2.amount else 0).sum =
      (L.pool.map fun t => ledgerTx L 0 sy mat t none).sum := by
  rw [perm_map_sum _ (unminedCredits_perm hg)]
  unfold expUnminedCredits ledgerTx
  rw [sum_map_flatMap]
  apply sum_map_congr
  intro t ht
  rw [sum_map_filterMap]
  apply sum_map_congr
  intro iv _
  exact unmined_term_eq hg sy mat ht iv

theorem unmined_zero {L : Ledger} (m sy mat : Int) (hm : (m == 0) = false) (t : Tx) :
    ledgerTx L m sy mat t none = 0 := by
  unfold ledgerTx
  apply sum_zero_of_forall
  intro iv _
  unfold ledgerTerm counts
  simp [hm]

/-- **the C01 sentence on the store's records is the ledger's balance** -/
theorem balance_refines {s : Store} {L : Ledger} (hg : Good s L) (mat m sy : Int) :
    storeTruth s L.now mat m sy = Ledger.balance L mat m sy := by
  rw [balance_eq_ledgerTx]
  unfold storeTruth known
  rw [List.map_append, List.sum_append, List.map_map, List.map_map, mined_sum_eq hg]
  congr 1
  cases hm : (m == 0) with
  | true =>
    have : m = 0 := by simpa using hm
    subst this
    simp only [if_true]
    exact unmined_sum_eq hg sy mat
  | false =>
    simp only [Bool.false_eq_true, if_false]
    symm
    apply sum_zero_of_forall
    intro t _
    exact unmined_zero m sy mat hm t

end TxStore
