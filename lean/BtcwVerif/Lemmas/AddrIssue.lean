import BtcwVerif.Model.AddrIssue

/-! Invariant of the `AddrIssue` transition system when every caller's site holds `w.newAddrMtx`
(helper lemmas for `Props/C09.lean`; core Lean only). -/
namespace AddrIssue

def HoldsAll (cs : List Caller) : Prop := ∀ c ∈ cs, c.holdsMutex = true

/-- data invariant: the committed (branch,index) pairs are, per branch, exactly `[base, disk next)` in order -/
def Q (base : Idx) (σ : State) : Prop :=
  ∀ b, base.get b ≤ σ.disk.get b ∧
    issuedOn b σ.issued = List.range' (base.get b) (σ.disk.get b - base.get b)

/-- what holds while caller `h` (program `c`) owns `w.newAddrMtx`, by program counter -/
def HolderOK (c : Caller) (σ : State) (h : Nat) : Prop :=
  match σ.pc h with
  | .idle => False
  | .done => False
  | .wantTx => σ.writer = none ∧ σ.smtx = none ∧ σ.mem = σ.disk
  | .inTx => σ.writer = some h ∧ σ.smtx = none ∧ σ.mem = σ.disk ∧ σ.work = σ.disk
  | .inTx2 => σ.writer = some h ∧ σ.smtx = none ∧ σ.mem = σ.disk ∧ σ.work = σ.disk
  | .locked => σ.writer = some h ∧ σ.smtx = some h ∧ σ.mem = σ.disk ∧ σ.work = σ.disk
  | .read r => σ.writer = some h ∧ σ.smtx = some h ∧ σ.mem = σ.disk ∧ σ.work = σ.disk ∧ r = σ.mem.get c.branch
  | .wrote r => σ.writer = some h ∧ σ.smtx = some h ∧ σ.mem = σ.disk ∧
      σ.work = σ.disk.set c.branch (r + 1) ∧ r = σ.mem.get c.branch
  | .toCommit none => σ.writer = some h ∧ σ.smtx = none ∧ σ.mem = σ.disk ∧ σ.work = σ.disk
  | .toCommit (some r) => σ.writer = some h ∧ σ.smtx = none ∧ σ.mem = σ.disk ∧
      σ.work = σ.disk.set c.branch (r + 1) ∧ r = σ.mem.get c.branch
  | .cbWait r => σ.writer = none ∧ σ.smtx = none ∧ σ.disk = σ.mem.set c.branch (r + 1) ∧ r = σ.mem.get c.branch
  | .cbLocked r => σ.writer = none ∧ σ.smtx = some h ∧ σ.disk = σ.mem.set c.branch (r + 1) ∧
      r = σ.mem.get c.branch
  | .cbSet _ => σ.writer = none ∧ σ.smtx = some h ∧ σ.mem = σ.disk
  | .toRelease => σ.writer = none ∧ σ.smtx = none ∧ σ.mem = σ.disk

structure Inv (cs : List Caller) (base : Idx) (σ : State) : Prop where
  q : Q base σ
  others : ∀ j, σ.mtx ≠ some j → σ.pc j = .idle ∨ σ.pc j = .done
  holder : ∀ h, σ.mtx = some h → ∃ c, cs[h]? = some c ∧ HolderOK c σ h
  free : σ.mtx = none → σ.writer = none ∧ σ.smtx = none ∧ σ.mem = σ.disk

theorem inv_init (cs : List Caller) (base : Idx) : Inv cs base (init base) := by
  refine ⟨?_, ?_, ?_, ?_⟩
  · intro b; simp [init, issuedOn]
  · intro j _; simp [init]
  · intro h hm; simp [init] at hm
  · intro _; simp [init]

/-- a move of the mutex holder that keeps the mutex -/
theorem inv_of_holder {cs : List Caller} {base : Idx} {σ σ' : State} {i : Nat} {c : Caller}
    (hinv : Inv cs base σ) (hm : σ.mtx = some i) (hc : cs[i]? = some c)
    (hmtx : σ'.mtx = some i) (hpc : ∀ j, j ≠ i → σ'.pc j = σ.pc j)
    (hq : Q base σ') (hok : HolderOK c σ' i) : Inv cs base σ' := by
  refine ⟨hq, ?_, ?_, ?_⟩
  · intro j hj
    have hji : j ≠ i := by intro e; subst e; exact hj hmtx
    rw [hpc j hji]
    exact hinv.others j (by rw [hm]; intro e; injection e with e; exact hji e.symm)
  · intro h hh
    rw [hmtx] at hh; injection hh with hh; subst hh
    exact ⟨c, hc, hok⟩
  · intro hn; rw [hmtx] at hn; cases hn

theorem issuedOn_append (b b' : Branch) (l : List (Branch × Nat)) (r : Nat) :
    issuedOn b' (l ++ [(b, r)]) = issuedOn b' l ++ (if b = b' then [r] else []) := by
  unfold issuedOn
  by_cases h : b = b' <;> simp [List.filter_append, h]

theorem Q_commit {base : Idx} {σ : State} (b : Branch) (hq : Q base σ) :
    Q base { σ with disk := σ.disk.set b (σ.disk.get b + 1), issued := σ.issued ++ [(b, σ.disk.get b)] } := by
  intro b'
  have h := hq b'
  by_cases e : b = b'
  · subst e
    simp only [Idx.get_set_same, issuedOn_append, if_true]
    refine ⟨by omega, ?_⟩
    rw [h.2]
    have : σ.disk.get b + 1 - base.get b = (σ.disk.get b - base.get b) + 1 := by omega
    rw [this, List.range'_1_concat]
    congr 2; omega
  · simp only [Idx.get_set, e, if_false, issuedOn_append, List.append_nil]
    exact h

theorem nodup_of_issuedOn (l : List (Branch × Nat)) (h : ∀ b, (issuedOn b l).Nodup) : l.Nodup := by
  induction l with
  | nil => exact List.nodup_nil
  | cons x t ih =>
    obtain ⟨b, n⟩ := x
    rw [List.nodup_cons]
    constructor
    · intro hmem
      have hb := h b
      have hcons : issuedOn b ((b, n) :: t) = n :: issuedOn b t := by simp [issuedOn]
      rw [hcons, List.nodup_cons] at hb
      apply hb.1
      unfold issuedOn
      rw [List.mem_map]
      exact ⟨(b, n), by simp [List.mem_filter, hmem], rfl⟩
    · apply ih
      intro b'
      have hb := h b'
      by_cases e : b = b'
      · subst e
        have hcons : issuedOn b ((b, n) :: t) = n :: issuedOn b t := by simp [issuedOn]
        rw [hcons, List.nodup_cons] at hb
        exact hb.2
      · have hcons : issuedOn b' ((b, n) :: t) = issuedOn b' t := by simp [issuedOn, e]
        rw [hcons] at hb
        exact hb

theorem Q_congr {base : Idx} {σ σ' : State} (hd : σ'.disk = σ.disk) (hi : σ'.issued = σ.issued)
    (hq : Q base σ) : Q base σ' := by
  intro b; rw [hd, hi]; exact hq b

/-- one step of caller `i` preserves the invariant (all sites hold the mutex) -/
theorem inv_stepC {cs : List Caller} {base : Idx} {σ : State} {i : Nat} {c : Caller}
    (hinv : Inv cs base σ) (hc : cs[i]? = some c) (hm : c.holdsMutex = true) :
    Inv cs base (stepC c σ i) := by
  by_cases hmi : σ.mtx = some i
  · -- `i` owns the mutex
    obtain ⟨c', hc', hok⟩ := hinv.holder i hmi
    rw [hc] at hc'; injection hc' with hc'; subst hc'
    have hq := hinv.q
    unfold HolderOK at hok
    unfold stepC
    cases hp : σ.pc i with
    | idle => simp [hp] at hok
    | done => simp [hp] at hok
    | wantTx =>
      simp only [hp] at hok ⊢
      obtain ⟨hw, hs, hmd⟩ := hok
      simp only [hw, Option.isNone_none, if_true]
      refine inv_of_holder hinv hmi hc hmi (fun j hj => upd_other _ _ _ _ hj) (Q_congr rfl rfl hq) ?_
      simp [HolderOK, hs, hmd]
    | inTx =>
      simp only [hp] at hok ⊢
      obtain ⟨hw, hs, hmd, hwk⟩ := hok
      by_cases hsk : c.skip = true
      · simp only [hsk, if_true]
        refine inv_of_holder hinv hmi hc hmi (fun j hj => upd_other _ _ _ _ hj) (Q_congr rfl rfl hq) ?_
        simp [HolderOK, hw, hs, hmd, hwk]
      · simp only [hsk, Bool.false_eq_true, if_false]
        by_cases hcd : c.cond = true
        · simp only [hcd, if_true, hs, Option.isNone_none]
          split
          · refine inv_of_holder hinv hmi hc hmi (fun j hj => upd_other _ _ _ _ hj) (Q_congr rfl rfl hq) ?_
            simp [HolderOK, hw, hmd, hwk]
          · refine inv_of_holder hinv hmi hc hmi (fun j hj => upd_other _ _ _ _ hj) (Q_congr rfl rfl hq) ?_
            simp [HolderOK, hw, hmd, hwk]
        · simp only [hcd, Bool.false_eq_true, if_false]
          refine inv_of_holder hinv hmi hc hmi (fun j hj => upd_other _ _ _ _ hj) (Q_congr rfl rfl hq) ?_
          simp [HolderOK, hw, hs, hmd, hwk]
    | inTx2 =>
      simp only [hp] at hok ⊢
      obtain ⟨hw, hs, hmd, hwk⟩ := hok
      simp only [hs, Option.isNone_none, if_true]
      refine inv_of_holder hinv hmi hc hmi (fun j hj => upd_other _ _ _ _ hj) (Q_congr rfl rfl hq) ?_
      simp [HolderOK, hw, hmd, hwk]
    | locked =>
      simp only [hp] at hok ⊢
      obtain ⟨hw, hs, hmd, hwk⟩ := hok
      refine inv_of_holder hinv hmi hc hmi (fun j hj => upd_other _ _ _ _ hj) (Q_congr rfl rfl hq) ?_
      simp [HolderOK, hw, hs, hmd, hwk]
    | read r =>
      simp only [hp] at hok ⊢
      obtain ⟨hw, hs, hmd, hwk, hr⟩ := hok
      refine inv_of_holder hinv hmi hc hmi (fun j hj => upd_other _ _ _ _ hj) (Q_congr rfl rfl hq) ?_
      simp [HolderOK, hw, hs, hmd, hwk, hr]
    | wrote r =>
      simp only [hp] at hok ⊢
      obtain ⟨hw, hs, hmd, hwk, hr⟩ := hok
      refine inv_of_holder hinv hmi hc hmi (fun j hj => upd_other _ _ _ _ hj) (Q_congr rfl rfl hq) ?_
      simp [HolderOK, hw, hmd, hwk, hr]
    | toCommit ro =>
      by_cases hdry : c.dry = true
      · simp only [hdry, if_true]
        refine inv_of_holder hinv hmi hc hmi (fun j hj => upd_other _ _ _ _ hj) (Q_congr rfl rfl hq) ?_
        cases ro with
        | none => simp only [hp] at hok; simp [HolderOK, hok.2.1, hok.2.2.1]
        | some r => simp only [hp] at hok; simp [HolderOK, hok.2.1, hok.2.2.1]
      · simp only [hdry, Bool.false_eq_true, if_false]
        cases ro with
        | none =>
          simp only [hp] at hok ⊢
          obtain ⟨hw, hs, hmd, hwk⟩ := hok
          refine inv_of_holder hinv hmi hc hmi (fun j hj => upd_other _ _ _ _ hj) (Q_congr (σ := σ) hwk rfl hq) ?_
          simp [HolderOK, hs, hmd, hwk]
        | some r =>
          simp only [hp] at hok ⊢
          obtain ⟨hw, hs, hmd, hwk, hr⟩ := hok
          have hrd : r = σ.disk.get c.branch := by rw [hr, hmd]
          refine inv_of_holder hinv hmi hc hmi (fun j hj => upd_other _ _ _ _ hj) ?_ ?_
          · have := Q_commit c.branch hq
            intro b
            have hb := this b
            simp only [hwk, hrd] at hb ⊢
            exact hb
          · simp [HolderOK, hs, hmd, hwk, hr]
    | cbWait r =>
      simp only [hp] at hok ⊢
      obtain ⟨hw, hs, hd, hr⟩ := hok
      simp only [hs, Option.isNone_none, if_true]
      refine inv_of_holder hinv hmi hc hmi (fun j hj => upd_other _ _ _ _ hj) (Q_congr rfl rfl hq) ?_
      simp [HolderOK, hw, hd, hr]
    | cbLocked r =>
      simp only [hp] at hok ⊢
      obtain ⟨hw, hs, hd, hr⟩ := hok
      refine inv_of_holder hinv hmi hc hmi (fun j hj => upd_other _ _ _ _ hj) (Q_congr rfl rfl hq) ?_
      simp [HolderOK, hw, hs, hd]
    | cbSet r =>
      simp only [hp] at hok ⊢
      obtain ⟨hw, hs, hmd⟩ := hok
      refine inv_of_holder hinv hmi hc hmi (fun j hj => upd_other _ _ _ _ hj) (Q_congr rfl rfl hq) ?_
      simp [HolderOK, hw, hmd]
    | toRelease =>
      simp only [hp] at hok ⊢
      obtain ⟨hw, hs, hmd⟩ := hok
      simp only [hm, if_true]
      refine ⟨Q_congr rfl rfl hq, ?_, ?_, ?_⟩
      · intro j _
        by_cases hji : j = i
        · subst hji; right; simp
        · simp only [upd_other _ _ _ _ hji]
          exact hinv.others j (by rw [hmi]; intro e; injection e with e; exact hji e.symm)
      · intro h hh; cases hh
      · intro _; exact ⟨hw, hs, hmd⟩
  · -- `i` does not own the mutex: it is idle or done
    unfold stepC
    rcases hinv.others i hmi with hp | hp
    · simp only [hp, hm, if_true]
      cases hmx : σ.mtx with
      | some h => simp only [Option.isNone_some, Bool.false_eq_true, if_false]; exact hinv
      | none =>
        simp only [Option.isNone_none, if_true]
        obtain ⟨hw, hs, hmd⟩ := hinv.free hmx
        refine ⟨Q_congr rfl rfl hinv.q, ?_, ?_, ?_⟩
        · intro j hj
          have hji : j ≠ i := by intro e; subst e; exact hj rfl
          simp only [upd_other _ _ _ _ hji]
          exact hinv.others j (by rw [hmx]; intro e; cases e)
        · intro h hh
          injection hh with hh; subst hh
          exact ⟨c, hc, by simp [HolderOK, hw, hs, hmd]⟩
        · intro hn; cases hn
    · simp only [hp]; exact hinv

theorem inv_step {cs : List Caller} {base : Idx} {σ : State} (hall : HoldsAll cs) (hinv : Inv cs base σ)
    (i : Nat) : Inv cs base (step cs σ i) := by
  unfold step
  cases hc : cs[i]? with
  | none => exact hinv
  | some c => exact inv_stepC hinv hc (hall c (List.mem_of_getElem? hc))

theorem inv_run {cs : List Caller} {base : Idx} (hall : HoldsAll cs) (sched : List Nat) :
    ∀ σ, Inv cs base σ → Inv cs base (run cs σ sched) := by
  induction sched with
  | nil => intro σ h; exact h
  | cons i t ih => intro σ h; exact ih _ (inv_step hall h i)

end AddrIssue
