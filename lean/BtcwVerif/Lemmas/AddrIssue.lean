import BtcwVerif.Model.AddrIssue

/-! Invariant of the `AddrIssue` transition system when every caller's site holds `w.newAddrMtx`
(helper lemmas for `Props/C09.lean`; core Lean only). -/
namespace AddrIssue

def HoldsAll (cs : List Caller) : Prop := ∀ c ∈ cs, c.holdsMutex = true

/-- data invariant: the committed (branch,index) pairs are, per branch, exactly `[base, disk next)` in order -/
def Q (base : Idx) (σ : State) : Prop :=
  ∀ b, base.get b ≤ σ.disk.get b ∧
    issuedOn b σ.issued = List.range' (base.get b) (σ.disk.get b - base.get b)

/-- what holds while caller `h` (program `c`) owns `w.newAddrMtx`, by program counter -/
def HolderOK (c : Caller) (σ : State) (h : Nat) : Prop :=
  match σ.pc h with
  | .idle => False
  | .done => False
  | .wantTx => σ.writer = none ∧ σ.smtx = none ∧ σ.mem = σ.disk
  | .inTx => σ.writer = some h ∧ σ.smtx = none ∧ σ.mem = σ.disk ∧ σ.work = σ.disk
  | .inTx2 => σ.writer = some h ∧ σ.smtx = none ∧ σ.mem = σ.disk ∧ σ.work = σ.disk
  | .locked => σ.writer = some h ∧ σ.smtx = some h ∧ σ.mem = σ.disk ∧ σ.work = σ.disk
  | .read r => σ.writer = some h ∧ σ.smtx = some h ∧ σ.mem = σ.disk ∧ σ.work = σ.disk ∧ r = σ.mem.get c.branch
  | .wrote r => σ.writer = some h ∧ σ.smtx = some h ∧ σ.mem = σ.disk ∧
      σ.work = σ.disk.set c.branch (r + 1) ∧ r = σ.mem.get c.branch
  | .toCommit none => σ.writer = some h ∧ σ.smtx = none ∧ σ.mem = σ.disk ∧ σ.work = σ.disk
  | .toCommit (some r) => σ.writer = some h ∧ σ.smtx = none ∧ σ.mem = σ.disk ∧
      σ.work = σ.disk.set c.branch (r + 1) ∧ r = σ.mem.get c.branch
  | .cbWait r => σ.writer = none ∧ σ.smtx = none ∧ σ.disk = σ.mem.set c.branch (r + 1) ∧ r = σ.mem.get c.branch
  | .cbLocked r => σ.writer = none ∧ σ.smtx = some h ∧ σ.disk = σ.mem.set c.branch (r + 1) ∧
      r = σ.mem.get c.branch
  | .cbSet _ => σ.writer = none ∧ σ.smtx = some h ∧ σ.mem = σ.disk
  | .toRelease => σ.writer = none ∧ σ.smtx = none ∧ σ.mem = σ.disk

structure Inv (cs : List Caller) (base : Idx) (σ : State) : Prop where
  q : Q base σ
  others : ∀ j, σ.mtx ≠ some j → σ.pc j = .idle ∨ σ.pc j = .done
  holder : ∀ h, σ.mtx = some h → ∃ c, cs[h]? = some c ∧ HolderOK c σ h
  free : σ.mtx = none → σ.writer = none ∧ σ.smtx = none ∧ σ.mem = σ.disk

theorem inv_init (cs : List Caller) (base : Idx) : Inv cs base (init base) := by
  refine ⟨?_, ?_, ?_, ?_⟩
  · intro b; simp [init, issuedOn]
  · intro j _; simp [init]
  · intro h hm; simp [init] at hm
  · intro _; simp [init]

/-- a move of the mutex holder that keeps the mutex -/
theorem inv_of_holder {cs : List Caller} {base : Idx} {σ σ' : State} {i : Nat} {c : Caller}
    (hinv : Inv cs base σ) (hm : σ.mtx = some i) (hc : cs[i]? = some c)
    (hmtx : σ'.mtx = some i) (hpc : ∀ j, j ≠ i → σ'.pc j = σ.pc j)
    (hq : Q base σ') (hok : HolderOK c σ' i) : Inv cs base σ' := by
  refine ⟨hq, ?_, ?_, ?_⟩
  · intro j hj
    have hji : j ≠ i := by intro e; subst e; exact hj hmtx
    rw [hpc j hji]
    exact hinv.others j (by rw [hm]; intro e; injection e with e; exact hji e.symm)
  · intro h hh
    rw [hmtx] at hh; injection hh with hh; subst hh
    exact ⟨c, hc, hok⟩
  · intro hn; rw [hmtx] at hn; cases hn

theorem issuedOn_append (b b' : Branch) (l : List (Branch × Nat)) (r : Nat) :
    issuedOn b' (l ++ [(b, r)]) = issuedOn b' l ++ (if b = b' then [r] else []) := by
  unfold issuedOn
  by_cases h : b = b' <;> simp [List.filter_append, h]

theorem Q_commit {base : Idx} {σ : State} (b : Branch) (hq : Q base σ) :
    Q base { σ with disk := σ.disk.set b (σ.disk.get b + 1), issued := σ.issued ++ [(b, σ.disk.get b)] } := by
  intro b'
  have h := hq b'
  by_cases e : b = b'
  · subst e
    simp only [Idx.get_set_same, issuedOn_append, if_true]
    refine ⟨by omega, ?_⟩
    rw [h.2]
    have : σ.disk.get b + 1 - base.get b = (σ.disk.get b - base.get b) + 1 := by omega
    rw [this, List.range'_1_concat]
    congr 2; omega
  · simp only [Idx.get_set, e, if_false, issuedOn_append, List.append_nil]
    exact h

theorem nodup_of_issuedOn (l : List (Branch × Nat)) (h : ∀ b, (issuedOn b l).Nodup) : l.Nodup := by
  induction l with
  | nil => exact List.nodup_nil
  | cons x t ih =>
    obtain ⟨b, n⟩ := x
    rw [List.nodup_cons]
    constructor
    · intro hmem
      have hb := h b
      have hcons : issuedOn b ((b, n) :: t) = n :: issuedOn b t := by simp [issuedOn]
      rw [hcons, List.nodup_cons] at hb
      apply hb.1
      unfold issuedOn
      rw [List.mem_map]
      exact ⟨(b, n), by simp [List.mem_filter, hmem], rfl⟩
    · apply ih
      intro b'
      have hb := h b'
      by_cases e : b = b'
      · subst e
        have hcons : issuedOn b ((b, n) :: t) = n :: issuedOn b t := by simp [issuedOn]
        rw [hcons, List.nodup_cons] at hb
        exact hb.2
      · have hcons : issuedOn b' ((b, n) :: t) = issuedOn b' t := by simp [issuedOn, e]
        rw [hcons] at hb
        exact hb

theorem Q_congr {base : Idx} {σ σ' : State} (hd : σ'.disk = σ.disk) (hi : σ'.issued = σ.issued)
    (hq : Q base σ) : Q base σ' := by
  intro b; rw [hd, hi]; exact hq b

/-- one step of caller `i` preserves the invariant (all sites hold the mutex) -/
theorem inv_stepC {cs : List Caller} {base : Idx} {σ : State} {i : Nat} {c : Caller}
    (hinv : Inv cs base σ) (hc : cs[i]? = some c) (hm : c.holdsMutex = true) :
    Inv cs base (stepC c σ i) := by
  by_cases hmi : σ.mtx = some i
  · -- `i` owns the mutex
    obtain ⟨c', hc', hok⟩ := hinv.holder i hmi
    rw [hc] at hc'; injection hc' with hc'; subst hc'
    have hq := hinv.q
    unfold HolderOK at hok
    unfold stepC
    cases hp : σ.pc i with
    | idle => simp [hp] at hok
    | done => simp [hp] at hok
    | wantTx =>
      simp only [hp] at hok ⊢
      obtain ⟨hw, hs, hmd⟩ := hok
      simp only [hw, Option.isNone_none, if_true]
      refine inv_of_holder hinv hmi hc hmi (fun j hj => upd_other _ _ _ _ hj) (Q_congr rfl rfl hq) ?_
      simp [HolderOK, hs, hmd]
    | inTx =>
      simp only [hp] at hok ⊢
      obtain ⟨hw, hs, hmd, hwk⟩ := hok
      by_cases hsk : c.skip = true
      · simp only [hsk, if_true]
        refine inv_of_holder hinv hmi hc hmi (fun j hj => upd_other _ _ _ _ hj) (Q_congr rfl rfl hq) ?_
        simp [HolderOK, hw, hs, hmd, hwk]
      · simp only [hsk, Bool.false_eq_true, if_false]
        by_cases hcd : c.cond = true
        · simp only [hcd, if_true, hs, Option.isNone_none]
          split
          · refine inv_of_holder hinv hmi hc hmi (fun j hj => upd_other _ _ _ _ hj) (Q_congr rfl rfl hq) ?_
            simp [HolderOK, hw, hmd, hwk]
          · refine inv_of_holder hinv hmi hc hmi (fun j hj => upd_other _ _ _ _ hj) (Q_congr rfl rfl hq) ?_
            simp [HolderOK, hw, hmd, hwk]
        · simp only [hcd, Bool.false_eq_true, if_false]
          refine inv_of_holder hinv hmi hc hmi (fun j hj => upd_other _ _ _ _ hj) (Q_congr rfl rfl hq) ?_
          simp [HolderOK, hw, hs, hmd, hwk]
    | inTx2 =>
      simp only [hp] at hok ⊢
      obtain ⟨hw, hs, hmd, hwk⟩ := hok
      simp only [hs, Option.isNone_none, if_true]
      refine inv_of_holder hinv hmi hc hmi (fun j hj => upd_other _ _ _ _ hj) (Q_congr rfl rfl hq) ?_
      simp [HolderOK, hw, hmd, hwk]
    | locked =>
      simp only [hp] at hok ⊢
      obtain ⟨hw, hs, hmd, hwk⟩ := hok
      refine inv_of_holder hinv hmi hc hmi (fun j hj => upd_other _ _ _ _ hj) (Q_congr rfl rfl hq) ?_
      simp [HolderOK, hw, hs, hmd, hwk]
    | read r =>
      simp only [hp] at hok ⊢
      obtain ⟨hw, hs, hmd, hwk, hr⟩ := hok
      refine inv_of_holder hinv hmi hc hmi (fun j hj => upd_other _ _ _ _ hj) (Q_congr rfl rfl hq) ?_
      simp [HolderOK, hw, hs, hmd, hwk, hr]
    | wrote r =>
      simp only [hp] at hok ⊢
      obtain ⟨hw, hs, hmd, hwk, hr⟩ := hok
      refine inv_of_holder hinv hmi hc hmi (fun j hj => upd_other _ _ _ _ hj) (Q_congr rfl rfl hq) ?_
      simp [HolderOK, hw, hmd, hwk, hr]
    | toCommit ro =>
      by_cases hdry : c.dry = true
      · simp only [hdry, if_true]
        refine inv_of_holder hinv hmi hc hmi (fun j hj => upd_other _ _ _ _ hj) (Q_congr rfl rfl hq) ?_
        cases ro with
        | none => simp only [hp] at hok; simp [HolderOK, hok.2.1, hok.2.2.1]
        | some r => simp only [hp] at hok; simp [HolderOK, hok.2.1, hok.2.2.1]
      · simp only [hdry, Bool.false_eq_true, if_false]
        cases ro with
        | none =>
          simp only [hp] at hok ⊢
          obtain ⟨hw, hs, hmd, hwk⟩ := hok
          refine inv_of_holder hinv hmi hc hmi (fun j hj => upd_other _ _ _ _ hj) (Q_congr (σ := σ) hwk rfl hq) ?_
          simp [HolderOK, hs, hmd, hwk]
        | some r =>
          simp only [hp] at hok ⊢
          obtain ⟨hw, hs, hmd, hwk, hr⟩ := hok
          have hrd : r = σ.disk.get c.branch := by rw [hr, hmd]
          refine inv_of_holder hinv hmi hc hmi (fun j hj => upd_other _ _ _ _ hj) ?_ ?_
          · have := Q_commit c.branch hq
            intro b
            have hb := this b
            simp only [hwk, hrd] at hb ⊢
            exact hb
          · simp [HolderOK, hs, hmd, hwk, hr]
    | cbWait r =>
      simp only [hp] at hok ⊢
      obtain ⟨hw, hs, hd, hr⟩ := hok
      simp only [hs, Option.isNone_none, if_true]
      refine inv_of_holder hinv hmi hc hmi (fun j hj => upd_other _ _ _ _ hj) (Q_congr rfl rfl hq) ?_
      simp [HolderOK, hw, hd, hr]
    | cbLocked r =>
      simp only [hp] at hok ⊢
      obtain ⟨hw, hs, hd, hr⟩ := hok
      refine inv_of_holder hinv hmi hc hmi (fun j hj => upd_other _ _ _ _ hj) (Q_congr rfl rfl hq) ?_
      simp [HolderOK, hw, hs, hd]
    | cbSet r =>
      simp only [hp] at hok ⊢
      obtain ⟨hw, hs, hmd⟩ := hok
      refine inv_of_holder hinv hmi hc hmi (fun j hj => upd_other _ _ _ _ hj) (Q_congr rfl rfl hq) ?_
      simp [HolderOK, hw, hmd]
    | toRelease =>
      simp only [hp] at hok ⊢
      obtain ⟨hw, hs, hmd⟩ := hok
      simp only [hm, if_true]
      refine ⟨Q_congr rfl rfl hq, ?_, ?_, ?_⟩
      · intro j _
        by_cases hji : j = i
        · subst hji; right; simp
        · simp only [upd_other _ _ _ _ hji]
          exact hinv.others j (by rw [hmi]; intro e; injection e with e; exact hji e.symm)
      · intro h hh; cases hh
      · intro _; exact ⟨hw, hs, hmd⟩
  · -- `i` does not own the mutex: it is idle or done
    unfold stepC
    rcases hinv.others i hmi with hp | hp
    · simp only [hp, hm, if_true]
      cases hmx : σ.mtx with
      | some h => simp only [Option.isNone_some, Bool.false_eq_true, if_false]; exact hinv
      | none =>
        simp only [Option.isNone_none, if_true]
        obtain ⟨hw, hs, hmd⟩ := hinv.free hmx
        refine ⟨Q_congr rfl rfl hinv.q, ?_, ?_, ?_⟩
        · intro j hj
          have hji : j ≠ i := by intro e; subst e; exact hj rfl
          simp only [upd_other _ _ _ _ hji]
          exact hinv.others j (by rw [hmx]; intro e; cases e)
        · intro h hh
          injection hh with hh; subst hh
          exact ⟨c, hc, by simp [HolderOK, hw, hs, hmd]⟩
        · intro hn; cases hn
    · simp only [hp]; exact hinv

theorem inv_step {cs : List Caller} {base : Idx} {σ : State} (hall : HoldsAll cs) (hinv : Inv cs base σ)
    (i : Nat) : Inv cs base (step cs σ i) := by
  unfold step
  cases hc : cs[i]? with
  | none => exact hinv
  | some c => exact inv_stepC hinv hc (hall c (List.mem_of_getElem? hc))

theorem inv_run {cs : List Caller} {base : Idx} (hall : HoldsAll cs) (sched : List Nat) :
    ∀ σ, Inv cs base σ → Inv cs base (run cs σ sched) := by
  induction sched with
  | nil => intro σ h; exact h
  | cons i t ih => intro σ h; exact ih _ (inv_step hall h i)


/-! ## Progress -/

/-- the mutex holder always has an enabled step (lock order newAddrMtx → bbolt writer → s.mtx, nobody else inside) -/
theorem holder_moves {c : Caller} {σ : State} {h : Nat} (hok : HolderOK c σ h) :
    (stepC c σ h).pc h ≠ σ.pc h := by
  unfold HolderOK at hok
  unfold stepC
  cases hp : σ.pc h with
  | idle => simp [hp] at hok
  | done => simp [hp] at hok
  | wantTx => simp only [hp] at hok ⊢; simp [hok.1]
  | inTx =>
    simp only [hp] at hok ⊢
    by_cases hsk : c.skip = true
    · simp [hsk]
    · by_cases hcd : c.cond = true
      · simp only [hsk, hcd, hok.2.1, Option.isNone_none, if_true, Bool.false_eq_true, if_false]
        split <;> simp
      · simp [hsk, hcd]
  | inTx2 => simp only [hp] at hok ⊢; simp [hok.2.1]
  | locked => simp
  | read r => simp
  | wrote r => simp
  | toCommit ro =>
    simp only
    by_cases hd : c.dry = true
    · simp [hd]
    · cases ro <;> simp [hd]
  | cbWait r => simp only [hp] at hok ⊢; simp [hok.2.1]
  | cbLocked r => simp
  | cbSet r => simp
  | toRelease => simp

theorem inv_no_deadlock {cs : List Caller} {base : Idx} {σ : State} (hall : HoldsAll cs) (hinv : Inv cs base σ)
    (hnot : ¬ allDone cs σ) : ∃ i, i < cs.length ∧ (step cs σ i).pc i ≠ σ.pc i := by
  cases hmx : σ.mtx with
  | some h =>
    obtain ⟨c, hc, hok⟩ := hinv.holder h hmx
    have hlt : h < cs.length := by
      rcases Nat.lt_or_ge h cs.length with hl | hl
      · exact hl
      · rw [List.getElem?_eq_none hl] at hc; cases hc
    refine ⟨h, hlt, ?_⟩
    unfold step; rw [hc]
    exact holder_moves hok
  | none =>
    unfold allDone at hnot
    have : ∃ i, i < cs.length ∧ σ.pc i ≠ .done := by
      apply Classical.byContradiction
      intro hcon
      apply hnot
      intro i hi
      apply Classical.byContradiction
      intro hne
      exact hcon ⟨i, hi, hne⟩
    obtain ⟨i, hi, hne⟩ := this
    have hidle : σ.pc i = .idle := by
      rcases hinv.others i (by rw [hmx]; intro e; cases e) with h | h
      · exact h
      · exact absurd h hne
    refine ⟨i, hi, ?_⟩
    have hc : cs[i]? = some cs[i] := List.getElem?_eq_getElem hi
    unfold step; rw [hc]
    have hm := hall cs[i] (List.getElem_mem hi)
    simp [stepC, hidle, hm, hmx]


def rank : PC → Nat
  | .idle => 0 | .wantTx => 1 | .inTx => 2 | .inTx2 => 3 | .locked => 4 | .read _ => 5 | .wrote _ => 6
  | .toCommit _ => 7 | .cbWait _ => 8 | .cbLocked _ => 9 | .cbSet _ => 10 | .toRelease => 11 | .done => 12

theorem rank_le (p : PC) : rank p ≤ 12 := by cases p <;> simp [rank]

theorem stepC_pc_other (c : Caller) (σ : State) (i j : Nat) (h : j ≠ i) : (stepC c σ i).pc j = σ.pc j := by
  unfold stepC
  cases hp : σ.pc i <;> simp only [] <;> (repeat' split) <;> simp [upd_other _ _ _ _ h]

theorem stepC_rank (c : Caller) (σ : State) (i : Nat) :
    (stepC c σ i).pc i = σ.pc i ∨ rank (σ.pc i) < rank ((stepC c σ i).pc i) := by
  unfold stepC
  cases hp : σ.pc i <;> simp only [] <;> (repeat' split) <;> simp [hp, rank]

theorem step_pc_other (cs : List Caller) (σ : State) (i j : Nat) (h : j ≠ i) : (step cs σ i).pc j = σ.pc j := by
  unfold step; cases cs[i]? with
  | none => rfl
  | some c => exact stepC_pc_other c σ i j h

theorem step_rank (cs : List Caller) (σ : State) (i : Nat) :
    (step cs σ i).pc i = σ.pc i ∨ rank (σ.pc i) < rank ((step cs σ i).pc i) := by
  unfold step; cases cs[i]? with
  | none => left; rfl
  | some c => exact stepC_rank c σ i

def msum (f : Nat → Nat) : Nat → Nat
  | 0 => 0
  | n + 1 => msum f n + f n

theorem msum_congr {f g : Nat → Nat} : ∀ n, (∀ j, j < n → f j = g j) → msum f n = msum g n
  | 0, _ => rfl
  | n + 1, h => by
    simp only [msum]
    rw [msum_congr n (fun j hj => h j (Nat.lt_succ_of_lt hj)), h n (Nat.lt_succ_self n)]

theorem msum_lt {f g : Nat → Nat} (i : Nat) : ∀ n, i < n → (∀ j, j < n → j ≠ i → g j = f j) → g i < f i →
    msum g n < msum f n
  | 0, h, _, _ => absurd h (Nat.not_lt_zero i)
  | n + 1, h, hoth, hi => by
    simp only [msum]
    by_cases e : i = n
    · subst e
      have := msum_congr (f := g) (g := f) i (fun j hj => hoth j (Nat.lt_succ_of_lt hj) (Nat.ne_of_lt hj))
      omega
    · have hlt : i < n := by omega
      have := msum_lt i n hlt (fun j hj hne => hoth j (Nat.lt_succ_of_lt hj) hne) hi
      have := hoth n (Nat.lt_succ_self n) (fun e' => e e'.symm)
      omega

/-- remaining work -/
def remaining (cs : List Caller) (σ : State) : Nat := msum (fun j => 12 - rank (σ.pc j)) cs.length

theorem remaining_step_lt {cs : List Caller} {σ : State} {i : Nat} (hi : i < cs.length)
    (hne : (step cs σ i).pc i ≠ σ.pc i) : remaining cs (step cs σ i) < remaining cs σ := by
  unfold remaining
  apply msum_lt i _ hi
  · intro j _ hj; simp only [step_pc_other cs σ i j hj]
  · rcases step_rank cs σ i with h | h
    · exact absurd h hne
    · have := rank_le ((step cs σ i).pc i); omega


/-- from every reachable state (all sites hold the mutex) the run can be completed -/
theorem inv_can_complete {cs : List Caller} {base : Idx} (hall : HoldsAll cs) :
    ∀ m σ, Inv cs base σ → remaining cs σ ≤ m → ∃ more, allDone cs (run cs σ more) := by
  intro m
  induction m with
  | zero =>
    intro σ hinv hm
    by_cases hd : allDone cs σ
    · exact ⟨[], hd⟩
    · obtain ⟨i, hi, hne⟩ := inv_no_deadlock hall hinv hd
      have := remaining_step_lt hi hne
      omega
  | succ m ih =>
    intro σ hinv hm
    by_cases hd : allDone cs σ
    · exact ⟨[], hd⟩
    · obtain ⟨i, hi, hne⟩ := inv_no_deadlock hall hinv hd
      have hlt := remaining_step_lt hi hne
      obtain ⟨more, hmore⟩ := ih (step cs σ i) (inv_step hall hinv i) (by omega)
      exact ⟨i :: more, hmore⟩

theorem run_append (cs : List Caller) (σ : State) (a b : List Nat) :
    run cs σ (a ++ b) = run cs (run cs σ a) b := by
  simp [run, List.foldl_append]


/-! ## The harness's coarse schedules are schedules of the model -/

/-- `σ'` is reached from `σ` by some fine schedule -/
def Reach (cs : List Caller) (σ σ' : State) : Prop := ∃ l, σ' = run cs σ l

theorem Reach.refl (cs : List Caller) (σ : State) : Reach cs σ σ := ⟨[], rfl⟩
theorem Reach.trans {cs : List Caller} {a b c : State} (h1 : Reach cs a b) (h2 : Reach cs b c) : Reach cs a c := by
  obtain ⟨l1, e1⟩ := h1; obtain ⟨l2, e2⟩ := h2
  exact ⟨l1 ++ l2, by rw [run_append, ← e1, e2]⟩
theorem Reach.step (cs : List Caller) (σ : State) (i : Nat) : Reach cs σ (step cs σ i) := ⟨[i], rfl⟩

theorem advance_reach (cs : List Caller) : ∀ fuel σ i, Reach cs σ (advance cs fuel σ i)
  | 0, σ, _ => Reach.refl cs σ
  | fuel + 1, σ, i => by
    unfold advance
    simp only
    split
    · exact Reach.step cs σ i
    · split
      · exact Reach.step cs σ i
      · exact (Reach.step cs σ i).trans (advance_reach cs fuel _ i)

theorem settle_reach (cs : List Caller) (k : Coarse) : Reach cs k.σ (settle cs k).σ := by
  unfold settle
  generalize List.range cs.length = l
  induction l generalizing k with
  | nil => exact Reach.refl cs _
  | cons j t ih =>
    simp only [List.foldl_cons]
    split
    · exact (advance_reach cs 16 k.σ j).trans (ih _)
    · exact ih _

theorem coarseStep_reach (cs : List Caller) (k : Coarse) (i : Nat) : Reach cs k.σ (coarseStep cs k i).σ := by
  unfold coarseStep
  simp only
  split
  · exact Reach.refl cs _
  · split
    all_goals (try split)
    all_goals (try split)
    all_goals first
      | exact settle_reach cs _
      | exact (advance_reach cs 16 k.σ i).trans (settle_reach cs _)

theorem coarseRun_reach (cs : List Caller) (base : Idx) (sched : List Nat) :
    ∃ fine, (coarseRun cs base sched).σ = exec cs base fine := by
  unfold coarseRun exec
  have : ∀ (k : Coarse), Reach cs k.σ (sched.foldl (coarseStep cs) k).σ := by
    induction sched with
    | nil => intro k; exact Reach.refl cs _
    | cons i t ih => intro k; exact (coarseStep_reach cs k i).trans (ih _)
  exact this (Coarse.init base)


end AddrIssue
