import BtcwVerif.Lemmas.AddrReach
/-!
# Issued indices over whole histories (C03)

`IdxInv hd s log`: the cached next indices equal the stored ones, and for every account row and branch the indices
of the objects issued so far (`log`, in issue order) are exactly the valid children below the row's next index, in
increasing order.  Established by `Create`, preserved by every operation; `nextAddresses` / `extendAddresses`
append exactly the objects they allocate.
-/
set_option linter.unusedSectionVars false
set_option linter.unusedVariables false
set_option linter.unusedSimpArgs false
namespace AddrDerive
open AddrSym

variable {K P : Type} [DecidableEq K] [DecidableEq P]

def branchOf (int : Bool) : Nat := if int then 1 else 0

/-- what the index bookkeeping reads of an account row -/
def rowIdx (r : AcctRow K P) : P × Nat × Nat := (rowPub r, rowNext r false, rowNext r true)

/-- indices issued so far on branch `b` of account `a` of scope `sc`, in issue order -/
def idxOf (log : List (KeyObj K P)) (sc : Scope) (a b : Nat) : List Nat :=
  (log.filter fun o => o.scope = sc ∧ o.acct = a ∧ o.branch = b).map (·.index)

def validAt (hd : HD K P) (p : P) (b : Nat) : Nat → Bool := fun i => (derive2pub hd p b i).isSome

structure IdxInv (hd : HD K P) (s : State K P) (log : List (KeyObj K P)) : Prop where
  next : ∀ sc a ai row, cacheAt s sc a = some ai → acctRow s sc a = some row →
    ai.nextExt = rowNext row false ∧ ai.nextInt = rowNext row true
  run : ∀ sc a row, acctRow s sc a = some row → ∀ int : Bool,
    IsValidRun (validAt hd (rowPub row) (branchOf int)) 0 (rowNext row int) (idxOf log sc a (branchOf int))
  known : ∀ o ∈ log, (acctRow s o.scope o.acct).isSome ∧ (o.branch = 0 ∨ o.branch = 1)

/-- an operation that neither issues nor touches counters -/
structure IdxFrame (s s' : State K P) : Prop where
  rows : ∀ sc a, (acctRow s' sc a).map rowIdx = (acctRow s sc a).map rowIdx
  cache : ∀ sc a ai', cacheAt s' sc a = some ai' →
    (∃ ai, cacheAt s sc a = some ai ∧ ai'.nextExt = ai.nextExt ∧ ai'.nextInt = ai.nextInt) ∨
    (∃ row, acctRow s sc a = some row ∧ ai'.nextExt = rowNext row false ∧ ai'.nextInt = rowNext row true)

theorem rowIdx_eq {r r' : AcctRow K P} (h : rowIdx r = rowIdx r') :
    rowPub r = rowPub r' ∧ rowNext r false = rowNext r' false ∧ rowNext r true = rowNext r' true := by
  simp only [rowIdx, Prod.mk.injEq] at h; exact h

theorem rowNext_eq {r r' : AcctRow K P} (h : rowIdx r = rowIdx r') (int : Bool) : rowNext r int = rowNext r' int := by
  cases int
  · exact (rowIdx_eq h).2.1
  · exact (rowIdx_eq h).2.2

theorem acctRow_of_idx {s s' : State K P} {sc : Scope} {a : Nat}
    (hrows : (acctRow s' sc a).map rowIdx = (acctRow s sc a).map rowIdx) {row : AcctRow K P} (h : acctRow s' sc a = some row) :
    ∃ row0, acctRow s sc a = some row0 ∧ rowIdx row0 = rowIdx row := by
  rw [h] at hrows
  cases h0 : acctRow s sc a with
  | none => simp [h0] at hrows
  | some r => simp [h0] at hrows; exact ⟨r, rfl, hrows.symm⟩

theorem IdxFrame.refl (s : State K P) : IdxFrame s s := ⟨fun _ _ => rfl, fun _ _ ai h => Or.inl ⟨ai, h, rfl, rfl⟩⟩

theorem IdxFrame.trans {s s' s'' : State K P} (f : IdxFrame s s') (g : IdxFrame s' s'') : IdxFrame s s'' := by
  refine ⟨fun sc a => (g.rows sc a).trans (f.rows sc a), fun sc a ai'' h => ?_⟩
  rcases g.cache sc a ai'' h with ⟨ai', h1, e1, e2⟩ | ⟨row', h1, e1, e2⟩
  · rcases f.cache sc a ai' h1 with ⟨ai, h2, e3, e4⟩ | ⟨row, h2, e3, e4⟩
    · exact Or.inl ⟨ai, h2, e1.trans e3, e2.trans e4⟩
    · exact Or.inr ⟨row, h2, e1.trans e3, e2.trans e4⟩
  · obtain ⟨row0, h2, hi⟩ := acctRow_of_idx (f.rows sc a) h1
    exact Or.inr ⟨row0, h2, by rw [e1, (rowIdx_eq hi).2.1], by rw [e2, (rowIdx_eq hi).2.2]⟩

theorem IdxInv.frame {hd : HD K P} {s s' : State K P} {log : List (KeyObj K P)} (h : IdxInv hd s log) (f : IdxFrame s s') :
    IdxInv hd s' log := by
  refine ⟨?_, ?_, ?_⟩
  · intro sc a ai' row' hc hr
    obtain ⟨row, hr0, hi⟩ := acctRow_of_idx (f.rows sc a) hr
    have hi' := rowIdx_eq hi
    rcases f.cache sc a ai' hc with ⟨ai, h1, e1, e2⟩ | ⟨row1, h1, e1, e2⟩
    · have := h.next sc a ai row h1 hr0
      exact ⟨by rw [e1, this.1, hi'.2.1], by rw [e2, this.2, hi'.2.2]⟩
    · rw [hr0] at h1; cases h1
      exact ⟨by rw [e1, hi'.2.1], by rw [e2, hi'.2.2]⟩
  · intro sc a row' hr int
    obtain ⟨row, hr0, hi⟩ := acctRow_of_idx (f.rows sc a) hr
    have := h.run sc a row hr0 int
    rw [(rowIdx_eq hi).1, rowNext_eq hi int] at this
    exact this
  · intro o ho
    obtain ⟨h1, h2⟩ := h.known o ho
    refine ⟨?_, h2⟩
    have := f.rows o.scope o.acct
    cases hx : acctRow s o.scope o.acct with
    | none => rw [hx] at h1; cases h1
    | some r =>
      rw [hx] at this
      cases hy : acctRow s' o.scope o.acct with
      | none => simp [hy] at this
      | some _ => rfl

-- ---------------------------------------------------------------------------------------------------------
-- frames of the basic moves

theorem IdxFrame.of_views {s s' : State K P} (hr : ∀ sc a, acctRow s' sc a = acctRow s sc a)
    (hc : ∀ sc a, cacheAt s' sc a = cacheAt s sc a) : IdxFrame s s' :=
  ⟨fun sc a => by rw [hr], fun sc a ai h => Or.inl ⟨ai, by rw [← hc]; exact h, rfl, rfl⟩⟩

theorem IdxFrame.bindH (s : State K P) (a b : Nat) : IdxFrame s (bindH s a b) := IdxFrame.of_views (fun _ _ => rfl) (fun _ _ => rfl)
theorem IdxFrame.alloc (s : State K P) (o : Obj K P) : IdxFrame s (alloc s o).1 := IdxFrame.of_views (fun _ _ => rfl) (fun _ _ => rfl)
theorem IdxFrame.poison (s : State K P) : IdxFrame s { s with poisoned := true } := IdxFrame.of_views (fun _ _ => rfl) (fun _ _ => rfl)

/-- rewriting a scope's memory part but not its account cache -/
theorem IdxFrame.putSM {s : State K P} {sc : Scope} {sm : ScopeMem K P} (hsm : getSM s sc = some sm) (sm' : ScopeMem K P)
    (hi : sm'.acctInfo = sm.acctInfo) : IdxFrame s (putSM s sc sm') := by
  refine IdxFrame.of_views (fun _ _ => rfl) (fun sc' a => ?_)
  rw [cacheAt_putSM]
  by_cases hsc : sc = sc'
  · subst hsc; simp [cacheAt_of_getSM hsm, hi]
  · simp [hsc]

/-- rewriting a scope's disk part keeping key and counters of every account row -/
theorem IdxFrame.putSD {s : State K P} {sc : Scope} {sd : ScopeDisk K P} (hsd : getSD s sc = some sd) (sd' : ScopeDisk K P)
    (hi : ∀ a, (alookup sd'.accts a).map rowIdx = (alookup sd.accts a).map rowIdx) : IdxFrame s (putSD s sc sd') := by
  refine ⟨fun sc' a => ?_, fun sc' a ai h => Or.inl ⟨ai, h, rfl, rfl⟩⟩
  rw [acctRow_putSD]
  by_cases hsc : sc = sc'
  · subst hsc; simp [acctRow_of_getSD hsd, hi]
  · simp [hsc]

theorem IdxFrame.putSM' {s : State K P} {sc : Scope} {sm : ScopeMem K P} (hsm : getSM s sc = some sm)
    (addrs' : List (AddrId P × Nat)) (dou' : List (Nat × Nat × Nat)) :
    IdxFrame s (AddrDerive.putSM s sc { sm with addrs := addrs', dou := dou' }) := IdxFrame.putSM hsm _ rfl

theorem loadAcct_idxFrame {hd : HD K P} {s s1 : State K P} {sc : Scope} {acct : Nat} {ai : AcctInfo K P}
    (hl : loadAcct hd s sc acct = .ok (s1, ai)) : IdxFrame s s1 := by
  unfold loadAcct at hl
  split at hl
  · rename_i sm sd hsm hsd
    split at hl
    · cases hl; exact IdxFrame.refl _
    · split at hl
      · cases hl
      · split at hl
        · cases hl
        · rename_i row hrow
          dsimp only at hl
          split at hl
          · cases hl
          · rename_i ai1 hmk
            split at hl
            · cases hl
            · cases hl
              refine ⟨fun _ _ => rfl, fun sc' a' ai' hc => ?_⟩
              rw [cacheAt_putSM] at hc
              by_cases hsc : sc = sc'
              · subst hsc
                simp only [if_true, alookup_cons] at hc
                by_cases ha : acct = a'
                · subst ha
                  simp at hc; subst hc
                  refine Or.inr ⟨row, by simp [acctRow, hsd, hrow], ?_⟩
                  cases row with
                  | dflt pub priv ne ni name =>
                    simp only at hmk
                    split at hmk
                    · cases hmk
                    · cases hmk; exact ⟨rfl, rfl⟩
                  | wo pub fp ne ni name schema ci =>
                    simp only at hmk
                    cases hmk; exact ⟨rfl, rfl⟩
                · simp [ha] at hc
                  exact Or.inl ⟨ai', by simp [cacheAt, hsm, hc], rfl, rfl⟩
              · simp [hsc] at hc
                exact Or.inl ⟨ai', hc, rfl, rfl⟩
  · cases hl

-- ---------------------------------------------------------------------------------------------------------
-- operations that do not issue: frames

theorem opDerive_idxFrame (hd : HD K P) (s : State K P) (sc : Scope) (acct ac b i hh : Nat) :
    IdxFrame s (opDerive hd s sc acct ac b i hh).1 := by
  unfold opDerive
  split
  · exact IdxFrame.refl _
  · rename_i s1 ai hl
    have f1 := loadAcct_idxFrame hl
    split
    · exact f1
    · dsimp only
      split
      · exact f1
      · split
        · exact f1
        · rename_i sm1 hsm1
          exact f1.trans ((IdxFrame.alloc _ _).trans ((IdxFrame.putSM' hsm1 _ _).trans (IdxFrame.bindH _ _ _)))

theorem opLookup_idxFrame (hd : HD K P) (s : State K P) (sc : Scope) (id : AddrId P) (hh : Nat) :
    IdxFrame s (opLookup hd s sc id hh).1 := by
  unfold opLookup
  split
  · split
    · split
      · exact IdxFrame.bindH _ _ _
      · exact IdxFrame.refl _
    · split
      · exact IdxFrame.refl _
      · split
        · exact IdxFrame.refl _
        · rename_i s1 ai hl
          have f1 := loadAcct_idxFrame hl
          dsimp only
          split
          · exact f1
          · split
            · exact f1
            · rename_i sm1 hsm1
              exact f1.trans ((IdxFrame.alloc _ _).trans ((IdxFrame.putSM' hsm1 _ _).trans (IdxFrame.bindH _ _ _)))
      · dsimp only
        split
        · exact IdxFrame.refl _
        · rename_i sm1 hsm1
          exact (IdxFrame.alloc _ _).trans ((IdxFrame.putSM' hsm1 _ _).trans (IdxFrame.bindH _ _ _))
      · dsimp only
        split
        · exact IdxFrame.refl _
        · rename_i sm1 hsm1
          exact (IdxFrame.alloc _ _).trans ((IdxFrame.putSM' hsm1 _ _).trans (IdxFrame.bindH _ _ _))
  · exact IdxFrame.refl _

theorem importKey_idxFrame (s : State K P) (sc : Scope) (k : Nat) (comp wp : Bool) (hh : Nat) :
    IdxFrame s (importKey s sc k comp wp hh).1 := by
  unfold importKey
  split
  · rename_i sm sd hsm hsd
    dsimp only
    split
    · exact IdxFrame.refl _
    · split
      · exact IdxFrame.refl _
      · rename_i sm1 hsm1
        refine IdxFrame.trans ?_ (IdxFrame.bindH _ _ _)
        refine IdxFrame.trans ?_ (IdxFrame.putSM' hsm1 _ _)
        refine IdxFrame.trans ?_ (IdxFrame.alloc _ _)
        exact IdxFrame.putSD hsd _ (fun _ => rfl)
  · exact IdxFrame.refl _

theorem opImportScript_idxFrame (cfg : Cfg) (s : State K P) (sc : Scope) (k kind : Nat) (sec : Bool) (hh : Nat) :
    IdxFrame s (opImportScript cfg s sc k kind sec hh).1 := by
  unfold opImportScript
  split
  · exact IdxFrame.refl _
  · split
    · exact IdxFrame.refl _
    · split
      · rename_i sm sd hsm hsd
        dsimp only
        split
        · exact IdxFrame.refl _
        · split
          · exact IdxFrame.refl _
          · rename_i sm1 hsm1
            refine IdxFrame.trans ?_ (IdxFrame.bindH _ _ _)
            refine IdxFrame.trans ?_ (IdxFrame.putSM' hsm1 _ _)
            refine IdxFrame.trans ?_ (IdxFrame.alloc _ _)
            exact IdxFrame.putSD hsd _ (fun _ => rfl)
      · exact IdxFrame.refl _

theorem opMarkUsed_idxFrame (s : State K P) (sc : Scope) (id : AddrId P) (d : String) :
    IdxFrame s (opMarkUsed s sc id d).1 := by
  unfold opMarkUsed
  split
  · rename_i sm sd hsm hsd
    dsimp only
    refine (IdxFrame.putSD hsd _ (fun a => ?_)).trans (IdxFrame.putSM' (sm := sm) (by simpa using hsm) _ sm.dou)
    split <;> rfl
  · exact IdxFrame.refl _

theorem doLock_idxFrame (s : State K P) : IdxFrame s (doLock s) := by
  refine ⟨fun _ _ => rfl, fun sc a ai' hc => ?_⟩
  rw [cacheAt_doLock] at hc
  cases h0 : cacheAt s sc a with
  | none => simp [h0] at hc
  | some ai => simp [h0] at hc; subst hc; exact Or.inl ⟨ai, rfl, rfl, rfl⟩

theorem unlockAcct_next (ai : AcctInfo K P) : (unlockAcct ai).nextExt = ai.nextExt ∧ (unlockAcct ai).nextInt = ai.nextInt := by
  unfold unlockAcct; split <;> exact ⟨rfl, rfl⟩

theorem opUnlock_idxFrame (hd : HD K P) (s : State K P) (pass : Nat) : IdxFrame s (opUnlock Cfg.fixed hd s pass).1 := by
  unfold opUnlock
  simp only [show Cfg.fixed.f2 = false from rfl, show Cfg.fixed.u2 = false from rfl, Bool.false_and, Bool.false_eq_true, if_false]
  split
  · exact IdxFrame.refl _
  · split
    · split
      · exact IdxFrame.refl _
      · exact doLock_idxFrame _
    · split
      · exact doLock_idxFrame _
      · split
        · exact doLock_idxFrame _
        · rename_i scs heap' hu
          have hk : ∀ (l : List (Scope × ScopeMem K P)) (heap : List (Obj K P)) l' heap', unlockScopes hd l heap = some (l', heap') →
              l' = l.map (fun p => (p.1, unlockScope p.2)) := by
            intro l
            induction l with
            | nil => intro heap l' heap' h; simp [unlockScopes] at h; simp [h.1]
            | cons p t ih =>
              intro heap l' heap' h
              obtain ⟨sc, sm⟩ := p
              unfold unlockScopes at h
              dsimp only at h
              split at h
              · cases h
              · split at h
                · cases h
                · rename_i t' h2 ht
                  cases h
                  simp [ih _ _ _ ht, unlockScope]
          have := hk _ _ _ _ hu
          subst this
          refine ⟨fun _ _ => rfl, fun sc a ai' hc => ?_⟩
          have hgsm : getSM ({ s with mem := { s.mem with locked := false, scopes := s.mem.scopes.map (fun p => (p.1, unlockScope p.2)), heap := heap' } } : State K P) sc
              = (getSM s sc).map unlockScope := by
            simp only [getSM]
            exact alookup_map s.mem.scopes (fun _ sm => unlockScope sm) sc
          unfold cacheAt at hc
          rw [hgsm] at hc
          cases hsm : getSM s sc with
          | none => simp [hsm] at hc
          | some sm =>
            simp only [hsm, Option.map_some, Option.bind_some] at hc
            have : alookup (unlockScope sm).acctInfo a = (alookup sm.acctInfo a).map unlockAcct :=
              alookup_map sm.acctInfo (fun _ ai => unlockAcct ai) a
            rw [this] at hc
            cases h0 : alookup sm.acctInfo a with
            | none => simp [h0] at hc
            | some ai =>
              simp [h0] at hc; subst hc
              exact Or.inl ⟨ai, by simp [cacheAt, hsm, h0], (unlockAcct_next ai).1, (unlockAcct_next ai).2⟩

theorem opLock_idxFrame (s : State K P) : IdxFrame s (opLock s).1 := by
  unfold opLock
  split
  · exact IdxFrame.refl _
  · split
    · exact IdxFrame.refl _
    · exact doLock_idxFrame _

theorem opChangePass_idxFrame (s : State K P) (priv : Bool) (o n : Nat) : IdxFrame s (opChangePass s priv o n).1 := by
  unfold opChangePass
  repeat' split
  all_goals first
    | exact IdxFrame.refl _
    | exact IdxFrame.of_views (fun _ _ => rfl) (fun _ _ => rfl)

theorem opProps_idxFrame (hd : HD K P) (s : State K P) (sc : Scope) (a : Nat) : IdxFrame s (opProps hd s sc a).1 := by
  unfold opProps
  split
  · exact IdxFrame.refl _
  · rename_i s1 ai hl
    exact loadAcct_idxFrame hl

theorem opRestart_idxFrame (s : State K P) : IdxFrame s (opRestart s).1 := by
  refine ⟨fun _ _ => rfl, fun sc a ai' hc => ?_⟩
  exfalso
  unfold cacheAt at hc
  rw [getSM_fresh s.disk _ rfl] at hc
  cases hx : alookup s.disk.scopes sc <;> simp [hx, alookup] at hc

theorem rowIdx_strip (r : AcctRow K P) : rowIdx (stripAcctRow r) = rowIdx r := by cases r <;> rfl

theorem opConvertWO_idxFrame (cfg : Cfg) (s : State K P) : IdxFrame s (opConvertWO cfg s).1 := by
  cases hw : s.mem.watchOnly with
  | true => simp only [opConvertWO, hw, if_true]; exact IdxFrame.refl _
  | false =>
    refine ⟨fun sc a => ?_, fun sc a ai' hc => ?_⟩
    · unfold acctRow
      rw [getSD_convertWO cfg s hw]
      cases hsd : getSD s sc with
      | none => rfl
      | some sd =>
        simp only [Option.map_some, Option.bind_some]
        have : alookup (stripScope cfg sc sd).1.accts a = (alookup sd.accts a).map stripAcctRow :=
          alookup_map sd.accts (fun _ r => stripAcctRow r) a
        rw [this]
        cases alookup sd.accts a with
        | none => rfl
        | some r => simp [rowIdx_strip]
    · unfold cacheAt at hc
      rw [getSM_convertWO cfg s hw] at hc
      cases hsm : getSM s sc with
      | none => simp [hsm] at hc
      | some sm =>
        simp only [hsm, Option.map_some, Option.bind_some, woScope, lockScope, List.map_map] at hc
        have : alookup (sm.acctInfo.map ((fun a => (a.1, woAcct a.2)) ∘ fun a => (a.1, lockAcct a.2))) a =
            (alookup sm.acctInfo a).map fun ai => woAcct (lockAcct ai) :=
          alookup_map sm.acctInfo (fun _ ai => woAcct (lockAcct ai)) a
        rw [this] at hc
        cases h0 : alookup sm.acctInfo a with
        | none => simp [h0] at hc
        | some ai =>
          simp [h0] at hc; subst hc
          exact Or.inl ⟨ai, by simp [cacheAt, hsm, h0], rfl, rfl⟩

theorem opRename_idxFrame (s : State K P) (sc : Scope) (acct name : Nat) : IdxFrame s (opRename s sc acct name).1 := by
  unfold opRename
  split
  · exact IdxFrame.refl _
  · split
    · exact IdxFrame.refl _
    · rename_i sd hsd
      split
      · exact IdxFrame.refl _
      · split
        · exact IdxFrame.refl _
        · split
          · exact IdxFrame.refl _
          · rename_i row hrow
            have hr := acctRow_renameState hsd hrow name
            obtain ⟨_, _, _, _, g5, _⟩ := renameState_frame hsd acct row name
            have hrow0 : acctRow s sc acct = some row := by rw [acctRow_of_getSD hsd]; exact hrow
            refine ⟨fun sc' a => ?_, fun sc' a ai' hc => ?_⟩
            · show (acctRow (renameState s sc sd acct row name) sc' a).map rowIdx = _
              rw [hr]
              by_cases hc : sc = sc' ∧ acct = a
              · obtain ⟨e1, e2⟩ := hc; subst e1; subst e2
                simp [hrow0, rowIdx]
              · simp [hc]
            · have hc' : cacheAt (renameState s sc sd acct row name) sc' a = some ai' := hc
              rw [g5] at hc'
              cases h0 : cacheAt s sc' a with
              | none => rw [h0] at hc'; cases hc'
              | some ai0 =>
                rw [h0] at hc'
                simp only [Option.map_some, Option.some.injEq] at hc'
                refine Or.inl ⟨ai0, rfl, ?_, ?_⟩ <;>
                  (rw [← hc']; unfold renamedInfo; split <;> rfl)

end AddrDerive
