/-
C15, the wallet's own notification stream (wallet/notifications.go): over any valid evolution the calls
`notifyAttachedBlock` / `notifyDetachedBlock` made by `connectBlock` / `disconnectBlock` reproduce the backend's
evolution, and the modelled `NotificationServer` (`NSrv`: `currentTxNtfn` + delivered notifications) carries exactly
these calls.

`blockEvents cfg w n` = the attach/detach calls made while notification `n` is handled in wallet state `w`
(ghost: the server coalesces them, `notify_detached` / `notify_attached_last` tie the server state to them).
-/
import BtcwVerif.Lemmas.SyncTipCompose
namespace SyncTip

/-! ### The N-versions project onto the plain model -/

theorem processN_fst (cfg : Cfg) (ns : List Ntfn) : ∀ (p : Wallet × NSrv), (processN cfg p ns).1 = process cfg p.1 ns := by
  induction ns with
  | nil => intro p; rfl
  | cons n ns ih => intro p; simp only [processN, process, List.foldl_cons] at ih ⊢; exact ih _

theorem evolveN_proj (cfg : Cfg) (steps : List Step) : ∀ (p : Wallet × NSrv) (tip : BlockId),
    ((evolveN cfg (p, tip) steps).1.1, (evolveN cfg (p, tip) steps).2) = evolve cfg (p.1, tip) steps := by
  induction steps with
  | nil => intro p tip; rfl
  | cons st rest ih =>
    intro p tip
    simp only [evolveN, evolve]
    rw [ih, processN_fst]

theorem txFoldN_fst (blk : Option Stamp) (ts : List Tx) : ∀ (p : Wallet × NSrv),
    (ts.foldl (txStepN blk) p).1 = ts.foldl (fun w t => addRelevantTx w t blk) p.1 := by
  induction ts with
  | nil => intro p; rfl
  | cons t ts ih => intro p; simp only [List.foldl_cons]; rw [ih]; rfl

theorem recTxsN_fst (cfg : Cfg) (blocks : List BlockId) : ∀ (p : Wallet × NSrv),
    (blocks.foldl (fun p b =>
      if p.1.birthday.1 ≤ b.length then (cfg.C.txs b).foldl (txStepN (some (stampOf cfg.C b))) p else p) p).1
      = recTxs cfg p.1 blocks := by
  induction blocks with
  | nil => intro p; rfl
  | cons b bs ih =>
    intro p
    simp only [List.foldl_cons, recTxs]
    rw [ih]
    by_cases h : p.1.birthday.1 ≤ b.length
    · simp only [if_pos h, txFoldN_fst]; rfl
    · simp only [if_neg h]; rfl

theorem recoveryBatchN_fst (cfg : Cfg) (p : Wallet × NSrv) (blocks : List BlockId) :
    (recoveryBatchN cfg p blocks).1 = recoveryBatch cfg p.1 blocks := by
  simp only [recoveryBatchN, recoveryBatch_eq, recTxsN_fst]

theorem recoveryRunN_proj (cfg : Cfg) (batch : Nat) (tip : BlockId) : ∀ (fuel : Nat) (p : Wallet × NSrv),
    ((recoveryRunN cfg batch tip fuel p).1.1, (recoveryRunN cfg batch tip fuel p).2)
      = recoveryRun cfg batch tip fuel p.1 := by
  intro fuel
  induction fuel with
  | zero => intro p; rfl
  | succ fuel ih =>
    intro p
    simp only [recoveryRunN, recoveryRun]
    by_cases h : p.1.syncedTo.height + 1 > tip.length
    · simp only [if_pos h]
    · simp only [if_neg h]
      have e := recoveryBatchN_fst cfg p (blocksFrom tip (p.1.syncedTo.height + 1)
        (min (max batch 1) (tip.length + 1 - (p.1.syncedTo.height + 1))))
      generalize recoveryBatchN cfg p (blocksFrom tip (p.1.syncedTo.height + 1)
        (min (max batch 1) (tip.length + 1 - (p.1.syncedTo.height + 1)))) = r at e
      obtain ⟨r1, r2⟩ := r
      simp only at e
      rw [← e]
      cases r1 with
      | error _ => rfl
      | ok w' => simp only []; exact ih (w', r2)

/-- The wallet computed alongside the server is the wallet of the plain model. -/
theorem startupDuringN_proj (cfg : Cfg) (recW batch : Nat) (w : Wallet) (tip : BlockId) (during : List Ntfn) :
    ((startupDuringN cfg recW batch w tip during).1.1, (startupDuringN cfg recW batch w tip during).2)
      = startupDuring cfg recW batch w tip during := by
  simp only [startupDuringN, startupDuring]
  cases startupRollback cfg { w with chainSynced := false } tip with
  | error _ => rfl
  | ok w1 =>
    simp only []
    by_cases hr : recW > 0
    · simp only [if_pos hr]
      have e := recoveryRunN_proj cfg batch tip (tip.length + 1) (w1, {})
      generalize recoveryRunN cfg batch tip (tip.length + 1) (w1, {}) = r at e
      obtain ⟨⟨r1, r2⟩, ok⟩ := r
      simp only at e
      rw [← e]
      cases ok with
      | false => rfl
      | true => simp [processN_fst]
    · simp [if_neg hr, processN_fst]

/-! ### The attach / detach calls -/

inductive BEvent where
  | attached (b : Stamp)     -- notifyAttachedBlock(b)
  | detached (h : Hash)      -- notifyDetachedBlock(h)
deriving DecidableEq, Repr

/-- The calls made while `n` is handled in wallet state `w`: `connectBlock` notifies after a successful
    `SetSyncedTo`; `disconnectBlock` on every nil-returning path of a chain-synced wallet. -/
def blockEvents (cfg : Cfg) (w : Wallet) : Ntfn → List BEvent
  | .connected b =>
    match connectBlock cfg.W w b with
    | .ok _ => [.attached b]
    | .error _ => []
  | .disconnected b =>
    if w.chainSynced = false then []
    else match disconnectBlock cfg w b with
      | .ok _ => [.detached b.hash]
      | .error _ => []
  | _ => []

def eventsOf (cfg : Cfg) : Wallet → List Ntfn → List BEvent
  | _, [] => []
  | w, n :: ns => blockEvents cfg w n ++ eventsOf cfg (handle cfg w n) ns

def runEvents (cfg : Cfg) : Wallet × BlockId → List Step → List BEvent
  | _, [] => []
  | (w, tip), st :: rest =>
    eventsOf cfg w (ntfnsOf cfg.C tip st) ++ runEvents cfg (process cfg w (ntfnsOf cfg.C tip st), stepTip tip st) rest

/-- What a client does with the calls: an attached block is the current tip again (nothing to do) or a child of it
    (push), anything else is an error; a detached block is the current tip (pop), or not on the client's chain at
    all (ignored), a block of the chain below the tip is an error. -/
def replayEv : BlockId → List BEvent → Option BlockId
  | tip, [] => some tip
  | tip, .attached s :: rest =>
    match s.hash with
    | some b =>
      if b = tip then replayEv tip rest
      else if b.tail = tip ∧ b ≠ [] then replayEv b rest
      else none
    | none => none
  | tip, .detached h :: rest =>
    match h with
    | some b =>
      if b = tip ∧ tip ≠ [] then replayEv tip.tail rest
      else if ancestorAt tip b.length = b then none
      else replayEv tip rest
    | none => none

/-! #### The server carries exactly these calls -/

def NSrv.allDetached (s : NSrv) : List Hash := s.sent.flatMap (·.detached) ++ s.curD.detached

def detachedOf : List BEvent → List Hash
  | [] => []
  | .detached h :: rest => h :: detachedOf rest
  | .attached _ :: rest => detachedOf rest

theorem attachEntry_detached (n : TxNtfn) (b : Stamp) : (attachEntry n b).detached = n.detached := by
  unfold attachEntry
  split
  · split <;> rfl
  · rfl

theorem notifyAttached_allDetached (synced : Bool) (s : NSrv) (b : Stamp) :
    (notifyAttached synced s b).allDetached = s.allDetached := by
  simp only [notifyAttached]
  split
  · simp only [NSrv.allDetached, NSrv.curD, Option.getD_some, attachEntry_detached]
  · simp only [NSrv.allDetached, NSrv.curD, Option.getD_none, List.flatMap_append, List.flatMap_cons,
      List.flatMap_nil, List.append_nil, attachEntry_detached]

theorem txNotify_allDetached (w : Wallet) (s : NSrv) (t : Tx) (blk : Option Stamp) :
    (txNotify w s t blk).allDetached = s.allDetached := by
  simp only [txNotify]
  split
  · rfl
  · cases blk with
    | some b =>
      simp only [notifyMined, NSrv.allDetached, NSrv.curD, Option.getD_some, attachEntry_detached]
    | none =>
      simp only [notifyUnmined, NSrv.allDetached, NSrv.curD, List.flatMap_append, List.flatMap_cons,
        List.flatMap_nil, List.append_nil]

theorem txFoldN_allDetached (blk : Option Stamp) (ts : List Tx) : ∀ (p : Wallet × NSrv),
    (ts.foldl (txStepN blk) p).2.allDetached = p.2.allDetached := by
  induction ts with
  | nil => intro p; rfl
  | cons t ts ih =>
    intro p
    simp only [List.foldl_cons]
    rw [ih]
    exact txNotify_allDetached _ _ _ _

/-- **Detached hashes are conserved**: the `DetachedBlocks` of everything delivered plus the pending notification
    grow by exactly the `notifyDetachedBlock` calls — nothing is dropped, duplicated or reordered by the coalescing. -/
theorem notify_detached (cfg : Cfg) (w : Wallet) (s : NSrv) (n : Ntfn) :
    (notify cfg w s n).allDetached = s.allDetached ++ detachedOf (blockEvents cfg w n) := by
  cases n with
  | connected b =>
    simp only [notify, blockEvents]
    cases connectBlock cfg.W w b with
    | ok _ => simp only [detachedOf, List.append_nil]; exact notifyAttached_allDetached _ _ _
    | error _ => simp only [detachedOf, List.append_nil]
  | disconnected b =>
    simp only [notify, blockEvents]
    by_cases hs : w.chainSynced = false
    · simp only [hs, if_true, detachedOf, List.append_nil]
    · simp only [if_neg hs]
      cases disconnectBlock cfg w b with
      | ok _ =>
        simp only [detachedOf, notifyDetached, NSrv.allDetached, NSrv.curD, Option.getD_some, List.append_assoc]
      | error _ => simp only [detachedOf, List.append_nil]
  | relevantTx t blk =>
    simp only [notify, blockEvents, detachedOf, List.append_nil]; exact txNotify_allDetached _ _ _ _
  | filtered b ts =>
    simp only [notify, blockEvents, detachedOf, List.append_nil]; exact txFoldN_allDetached _ _ _
  | rescanFinished _ _ => simp only [notify, blockEvents, detachedOf, List.append_nil]

theorem attachEntry_last (n : TxNtfn) (b : Stamp) : ∃ e, (attachEntry n b).attached.getLast? = some e ∧ e.hash = b.hash := by
  unfold attachEntry
  split
  · rename_i l hl
    split
    · rename_i he; exact ⟨l, hl, he⟩
    · exact ⟨⟨b.height, b.hash, []⟩, by simp, rfl⟩
  · exact ⟨⟨b.height, b.hash, []⟩, by simp, rfl⟩

/-- **Every `notifyAttachedBlock(b)` call leaves `b` as the last attached block** of the notification it delivers, or
    of the pending one when delivery is held back (chain-synced wallet, not more attached than detached blocks). -/
theorem notify_attached_last (synced : Bool) (s : NSrv) (b : Stamp) :
    (∃ n e, (notifyAttached synced s b).cur = some n ∧ (notifyAttached synced s b).sent = s.sent ∧
      n.attached.getLast? = some e ∧ e.hash = b.hash ∧ synced = true ∧ n.attached.length ≤ n.detached.length) ∨
    (∃ n e, (notifyAttached synced s b).cur = none ∧ (notifyAttached synced s b).sent = s.sent ++ [n] ∧
      n.attached.getLast? = some e ∧ e.hash = b.hash ∧ (synced = false ∨ n.detached.length < n.attached.length)) := by
  obtain ⟨e, he1, he2⟩ := attachEntry_last s.curD b
  simp only [notifyAttached]
  split
  · rename_i hc
    simp only [Bool.and_eq_true, decide_eq_true_eq] at hc
    exact Or.inl ⟨_, e, rfl, rfl, he1, he2, hc.1, hc.2⟩
  · rename_i hc
    simp only [Bool.and_eq_true, decide_eq_true_eq, not_and] at hc
    refine Or.inr ⟨_, e, rfl, rfl, he1, he2, ?_⟩
    cases synced with
    | false => exact Or.inl rfl
    | true => right; have := hc rfl; omega

/-! #### Replay -/

theorem eventsOf_append (cfg : Cfg) (xs ys : List Ntfn) : ∀ (w : Wallet),
    eventsOf cfg w (xs ++ ys) = eventsOf cfg w xs ++ eventsOf cfg (process cfg w xs) ys := by
  induction xs with
  | nil => intro w; rfl
  | cons x xs ih =>
    intro w
    simp only [List.cons_append, eventsOf, ih, List.append_assoc]
    rfl

theorem eventsOf_relevantTxs (cfg : Cfg) (s : Option Stamp) (ts : List Tx) : ∀ (w : Wallet),
    eventsOf cfg w (ts.map (fun t => .relevantTx t s)) = [] := by
  induction ts with
  | nil => intro w; rfl
  | cons t ts ih => intro w; simp only [List.map_cons, eventsOf, blockEvents, List.nil_append]; exact ih _

theorem events_connect_child {cfg : Cfg} {w : Wallet} {tip : BlockId} {lo : Nat} (hW : 1 ≤ cfg.W) (n : Nat)
    (hS : SyncInv cfg w tip lo) :
    blockEvents cfg w (.connected (stampOf cfg.C (n :: tip))) = [.attached (stampOf cfg.C (n :: tip))] := by
  have hC : CatchInv cfg w tip lo := ⟨hS.bday, hS.tipEq, hS.lo_le, hS.window, hS.remembered, hS.correct⟩
  simp only [blockEvents, connectBlock, (catch_connect_next hW n hC).1]

theorem replay_attached_child (C : Content) (n : Nat) (tip : BlockId) (rest : List BEvent) :
    replayEv tip (.attached (stampOf C (n :: tip)) :: rest) = replayEv (n :: tip) rest := by
  simp only [replayEv, stampOf]
  rw [if_neg (List.cons_ne_self n tip), if_pos ⟨rfl, by simp⟩]

theorem replay_detached_tip (n : Nat) (tl : BlockId) (rest : List BEvent) :
    replayEv (n :: tl) (.detached (some (n :: tl)) :: rest) = replayEv tl rest := by
  simp [replayEv]

/-- One new block on top of the tip, in any of the three notification orders: exactly one attach call. -/
theorem events_connectNtfns {cfg : Cfg} {w : Wallet} {tip : BlockId} {lo : Nat} (hW : 1 ≤ cfg.W) (m : TxMode) (n : Nat)
    (hI : Inv cfg w tip lo) :
    eventsOf cfg w (connectNtfns cfg.C m (n :: tip)) = [.attached (stampOf cfg.C (n :: tip))] := by
  cases m with
  | after =>
    simp only [connectNtfns, eventsOf, events_connect_child hW n hI.sync, eventsOf_relevantTxs]
    rfl
  | before =>
    simp only [connectNtfns, eventsOf_append, eventsOf_relevantTxs, List.nil_append, process_relevantTxs]
    obtain ⟨h1, _⟩ := foldTxs_onChain cfg.C (n :: tip) (onChain_self _) (cfg.C.txs (n :: tip)) w (hI.mined.cons n)
    simp only [eventsOf, events_connect_child hW n (hI.sync.congr h1), List.append_nil]
  | filtered =>
    simp only [connectNtfns, eventsOf, blockEvents, List.nil_append, filtered_eq, List.append_nil]
    obtain ⟨h1, _⟩ := foldTxs_onChain cfg.C (n :: tip) (onChain_self _) (cfg.C.txs (n :: tip)) w (hI.mined.cons n)
    exact events_connect_child hW n (hI.sync.congr h1)

theorem replay_disconnectNtfns {cfg : Cfg} (hW : 1 ≤ cfg.W) {lo : Nat} (d : Nat) :
    ∀ {w : Wallet} {tip : BlockId} (rest : List BEvent), Inv cfg w tip lo → d ≤ tip.length →
      (d = 0 ∨ lo + 1 + d ≤ tip.length ∨ (d = tip.length ∧ lo = 0)) →
      replayEv tip (eventsOf cfg w (disconnectNtfns cfg.C tip d) ++ rest) = replayEv (tip.drop d) rest := by
  induction d with
  | zero => intro w tip rest _ _ _; cases tip <;> rfl
  | succ d ih =>
    intro w tip rest hI hd hv
    cases tip with
    | nil => simp at hd
    | cons n tl =>
      simp only [List.length_cons] at hd hv
      have hdis := disconnectBlock_tip hI.sync (show lo + 1 ≤ tl.length ∨ (tl.length = 0 ∧ lo = 0) by omega)
      have hev : blockEvents cfg w (.disconnected (stampOf cfg.C (n :: tl))) = [.detached (some (n :: tl))] := by
        simp only [blockEvents, hI.synced, hdis]
        rfl
      have h1 : Inv cfg (handle cfg w (.disconnected (stampOf cfg.C (n :: tl)))) tl lo :=
        disconnect_tip hW hI (by omega)
      simp only [disconnectNtfns, eventsOf, hev, List.drop_succ_cons, List.cons_append, List.nil_append,
        replay_detached_tip]
      exact ih rest h1 (by omega) (by omega)

theorem replay_connectBranch {cfg : Cfg} (hW : 1 ≤ cfg.W) (m : TxMode) (br : List Nat) :
    ∀ {w : Wallet} {base : BlockId} {lo : Nat} (rest : List BEvent), Inv cfg w base lo →
      replayEv base (eventsOf cfg w (connectBranch cfg.C m base br) ++ rest) = replayEv (br.reverse ++ base) rest := by
  induction br with
  | nil => intro w base lo rest _; rfl
  | cons n br ih =>
    intro w base lo rest hI
    simp only [connectBranch, eventsOf_append, events_connectNtfns hW m n hI, List.cons_append, List.nil_append,
      replay_attached_child, List.reverse_cons, List.append_assoc]
    exact ih rest (connectNtfns_inv hW m n hI)

/-- A disconnect for a block that is not on the best chain: no call or a `detached` the client ignores. -/
theorem replay_stale {cfg : Cfg} {w : Wallet} (tip : BlockId) (b : BlockId) (hb : ancestorAt tip b.length ≠ b)
    (rest : List BEvent) :
    replayEv tip (blockEvents cfg w (.disconnected (stampOf cfg.C b)) ++ rest) = replayEv tip rest := by
  have hne : ¬ (b = tip ∧ tip ≠ []) := by
    rintro ⟨e, _⟩; subst e; exact hb (ancestorAt_self b)
  simp only [blockEvents]
  split
  · rfl
  · split
    · simp only [stampOf, List.cons_append, List.nil_append, replayEv]
      rw [if_neg hne, if_neg hb]
    · rfl

/-- A repeated connect of the tip: no call (predecessor not remembered) or an `attached(tip)` the client already has. -/
theorem replay_dupConnect {cfg : Cfg} {w : Wallet} (tip : BlockId) (rest : List BEvent) :
    replayEv tip (blockEvents cfg w (.connected (stampOf cfg.C tip)) ++ rest) = replayEv tip rest := by
  simp only [blockEvents]
  split
  · simp only [stampOf, List.cons_append, List.nil_append, replayEv, if_true]
  · rfl

theorem replay_step (cfg : Cfg) (hW : 1 ≤ cfg.W) {w : Wallet} {tip : BlockId} {lo : Nat} (st : Step)
    (hI : Inv cfg w tip lo) (hv : ValidStep tip lo st) (rest : List BEvent) :
    replayEv tip (eventsOf cfg w (ntfnsOf cfg.C tip st) ++ rest) = replayEv (stepTip tip st) rest := by
  cases st with
  | extend n m =>
    simp only [ntfnsOf, stepTip, events_connectNtfns hW m n hI, List.cons_append, List.nil_append,
      replay_attached_child]
  | reorg d br m =>
    simp only [ntfnsOf, stepTip, eventsOf_append, List.append_assoc]
    rw [replay_disconnectNtfns hW d _ hI hv.1 hv.2]
    exact replay_connectBranch hW m br rest (disconnectNtfns_inv hW d hI hv.1 hv.2)
  | staleDisconnect b =>
    simp only [ntfnsOf, stepTip, eventsOf, List.append_nil]
    exact replay_stale tip b hv rest
  | dupConnect =>
    simp only [ntfnsOf, stepTip, eventsOf, List.append_nil]
    exact replay_dupConnect tip rest
  | dupTxs h =>
    simp only [ntfnsOf, stepTip, eventsOf_relevantTxs, List.nil_append]
  | mempoolTx t =>
    simp only [ntfnsOf, stepTip, eventsOf, blockEvents, List.nil_append]

/-- **The attach/detach calls reproduce the backend's evolution.** -/
theorem replay_run (cfg : Cfg) (hW : 1 ≤ cfg.W) {w : Wallet} {tip : BlockId} {lo : Nat} {steps : List Step}
    {tip' : BlockId} {lo' : Nat} (hI : Inv cfg w tip lo) (hr : ValidRun cfg.W tip lo steps tip' lo')
    (rest : List BEvent) :
    replayEv tip (runEvents cfg (w, tip) steps ++ rest) = replayEv tip' rest := by
  induction hr generalizing w with
  | nil tip lo => rfl
  | cons hv _ ih =>
    simp only [runEvents, List.append_assoc]
    rw [replay_step cfg hW _ hI hv]
    exact ih (step_preserves_inv cfg hW _ hI hv)

/-- The server's detached hashes over a whole evolution. -/
theorem processN_detached (cfg : Cfg) (ns : List Ntfn) : ∀ (p : Wallet × NSrv),
    (processN cfg p ns).2.allDetached = p.2.allDetached ++ detachedOf (eventsOf cfg p.1 ns) := by
  induction ns with
  | nil => intro p; simp [processN, eventsOf, detachedOf]
  | cons n ns ih =>
    intro p
    have hd : ∀ a b, detachedOf (a ++ b) = detachedOf a ++ detachedOf b := by
      intro a b
      induction a with
      | nil => rfl
      | cons x a iha => cases x <;> simp [detachedOf, iha]
    simp only [processN, List.foldl_cons] at ih ⊢
    rw [ih]
    simp only [handleN, eventsOf, hd, notify_detached, List.append_assoc]

theorem detachedOf_append (a b : List BEvent) : detachedOf (a ++ b) = detachedOf a ++ detachedOf b := by
  induction a with
  | nil => rfl
  | cons x a iha => cases x <;> simp [detachedOf, iha]

theorem evolveN_detached (cfg : Cfg) (steps : List Step) : ∀ (p : Wallet × NSrv) (tip : BlockId),
    (evolveN cfg (p, tip) steps).1.2.allDetached = p.2.allDetached ++ detachedOf (runEvents cfg (p.1, tip) steps) := by
  induction steps with
  | nil => intro p tip; simp [evolveN, runEvents, detachedOf]
  | cons st rest ih =>
    intro p tip
    simp only [evolveN, runEvents, detachedOf_append]
    rw [ih, processN_detached, processN_fst, List.append_assoc]

end SyncTip
