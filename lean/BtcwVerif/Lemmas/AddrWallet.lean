import BtcwVerif.Model.AddrWallet
/-!
`Wallet.InitAccounts` (model `opInitAccounts`): creating the missing accounts neither touches the watching-only flag nor
any address row; a successful call with `watchOnly = true` ends with `ConvertToWatchingOnly` — whether or not an
account had to be created.
-/
set_option linter.unusedSectionVars false
set_option linter.unusedVariables false
set_option linter.unusedSimpArgs false
namespace AddrDerive
open AddrSym

variable {K P : Type} [DecidableEq K] [DecidableEq P]

/-- the address ids stored per scope (what "the wallet knows every address" is about) -/
def addrIds (s : State K P) : List (Scope × List (AddrId P)) := s.disk.scopes.map fun e => (e.1, e.2.addrs.map (·.1))

theorem aset_map_same {α β γ : Type} [DecidableEq α] (g : β → γ) (l : List (α × β)) (a : α) (b b0 : β)
    (h0 : alookup l a = some b0) (hg : g b = g b0) :
    (aset l a b).map (fun e => (e.1, g e.2)) = l.map (fun e => (e.1, g e.2)) := by
  induction l with
  | nil => simp [alookup] at h0
  | cons hd t ih =>
    obtain ⟨k, v⟩ := hd
    by_cases hk : k = a
    · subst hk
      simp only [alookup, if_true, Option.some.injEq] at h0
      subst h0
      simp [aset, hg]
    · simp only [alookup, hk, if_false] at h0
      simp [aset, hk, ih h0]

/-- `NewAccount` changes neither the watching-only flag nor the stored address ids -/
theorem opNewAccount_frame (hd : HD K P) (s : State K P) (sc : Scope) (name : Nat) :
    (opNewAccount hd s sc name).1.mem.watchOnly = s.mem.watchOnly ∧ addrIds (opNewAccount hd s sc name).1 = addrIds s := by
  unfold opNewAccount
  cases hsd : getSD s sc with
  | none => simp only; split <;> exact ⟨rfl, rfl⟩
  | some sd =>
    simp only
    repeat' (first | split | dsimp only)
    all_goals first
      | exact ⟨rfl, rfl⟩
      | (refine ⟨rfl, ?_⟩
         simp only [addrIds, putSD]
         refine aset_map_same (fun sd : ScopeDisk K P => sd.addrs.map (·.1)) s.disk.scopes sc _ sd hsd ?_
         rfl)

theorem step_newAccount_frame (cfg : Cfg) (hd : HD K P) (s : State K P) (sc : Scope) (name : Nat) :
    (step cfg hd s (.newAccount sc name)).1.mem.watchOnly = s.mem.watchOnly ∧
      addrIds (step cfg hd s (.newAccount sc name)).1 = addrIds s := by
  unfold step
  simp only
  split
  · exact ⟨rfl, rfl⟩
  · split
    · exact ⟨rfl, rfl⟩
    · exact opNewAccount_frame hd s sc name

theorem createMissing_frame (cfg : Cfg) (hd : HD K P) (sc : Scope) (l : List Nat) (s : State K P) (rows : List Row) :
    (createMissing cfg hd sc l s rows).1.mem.watchOnly = s.mem.watchOnly ∧
      addrIds (createMissing cfg hd sc l s rows).1 = addrIds s := by
  induction l generalizing s rows with
  | nil => exact ⟨rfl, rfl⟩
  | cons a t ih =>
    unfold createMissing
    have hf := step_newAccount_frame cfg hd s sc (rawName a)
    dsimp only
    split
    · obtain ⟨h1, h2⟩ := ih (step cfg hd s (.newAccount sc (rawName a))).1 (rows ++ (step cfg hd s (.newAccount sc (rawName a))).2.2)
      exact ⟨h1.trans hf.1, h2.trans hf.2⟩
    · exact hf

/-- **A successful `InitAccounts(watchOnly = true)` always converts**: its final state is `ConvertToWatchingOnly`
    applied to the state the account walk left (which has the same watching-only flag and the same address rows as the
    state before the call) — there is no way to return `nil` around the conversion, even when no account was missing. -/
theorem opInitAccounts_converts (cfg : Cfg) (hd : HD K P) (s : State K P) (sc : Scope) (num : Nat)
    (hok : (opInitAccounts cfg hd s sc true num).2.1 = .ok) :
    ∃ sMid : State K P, sMid.mem.watchOnly = s.mem.watchOnly ∧ addrIds sMid = addrIds s ∧
      (opInitAccounts cfg hd s sc true num).1 = (opConvertWO cfg sMid).1 := by
  unfold opInitAccounts at hok ⊢
  have hf := createMissing_frame cfg hd sc (missingAccts s sc num 1) s []
  generalize createMissing cfg hd sc (missingAccts s sc num 1) s [] = r at hok hf ⊢
  cases hr : r.2.1 with
  | ok =>
    simp only [hr, if_true] at hok ⊢
    refine ⟨r.1, hf.1, hf.2, ?_⟩
    unfold step at hok ⊢
    simp only at hok ⊢
    split at hok
    · cases hok
    · split at hok
      · cases hok
      · rename_i h1 h2
        simp only [h1, h2, if_false]
        simp
  | _ => simp only [hr] at hok; cases hok

/-- without the conversion request the call is the account walk alone -/
theorem opInitAccounts_plain (cfg : Cfg) (hd : HD K P) (s : State K P) (sc : Scope) (num : Nat) :
    (opInitAccounts cfg hd s sc false num).1.mem.watchOnly = s.mem.watchOnly := by
  unfold opInitAccounts
  have hf := createMissing_frame cfg hd sc (missingAccts s sc num 1) s []
  generalize createMissing cfg hd sc (missingAccts s sc num 1) s [] = r at hf ⊢
  cases hr : r.2.1 <;> simp only [hr] <;> exact hf.1

end AddrDerive
