import BtcwVerif.Lemmas.WFMined
/-!
# `WF2` = `WF` + the debit clauses `rollback` relies on

Every debit record points at an existing credit that is marked spent by exactly that debit, belongs to a recorded
transaction whose input at that position is the credit's outpoint, sits at or above the credit's block, and never
debits an output of its own transaction.  Recorded transactions have fewer than 2^32−1 outputs (so that no credit can
be mistaken for the null outpoint of a coinbase input).
-/
namespace TxStore
open KMap

def DebitBase (tr : TxKey → Option Tx) (dk : CredKey) (d : DebitVal) : Prop :=
  (∃ rec, tr dk.txKey = some rec ∧ rec.ins[dk.index]? = some d.credKey.outPoint) ∧
  d.credKey.block.height ≤ dk.block.height ∧ d.credKey.index < nullIndex ∧ d.credKey.hash ≠ dk.hash

def DebitLive (s : Store) (dk : CredKey) (d : DebitVal) : Prop :=
  ∃ cv, s.credits.find? d.credKey = some cv ∧ cv.spent = true ∧ cv.spender = some dk

def DebitsOK (s : Store) : Prop :=
  ∀ dk d, s.debits.find? dk = some d → DebitBase s.txrecs.find? dk d ∧ DebitLive s dk d

def OutsBound (s : Store) : Prop := ∀ k rec, s.txrecs.find? k = some rec → rec.outs.length ≤ nullIndex

structure WF2 (s : Store) : Prop where
  wf : WF s
  deb : DebitsOK s
  outs : OutsBound s

theorem wf2_empty : WF2 Store.empty := by
  refine ⟨?_, ?_, ?_⟩
  · refine ⟨List.nodup_nil, List.nodup_nil, List.nodup_nil, List.Pairwise.nil, ?_, ?_, ?_, ?_, ?_, ?_, rfl⟩
    · intro p hp; cases hp
    · intro p hp; cases hp
    · intro k rec h; cases h
    · intro k1 k2 h; cases h
    · intro k cv h; cases h
    · intro op blk
      constructor
      · intro h; cases h
      · rintro ⟨cv, h, _⟩; cases h
  · intro dk d h; cases h
  · intro k rec h; cases h

theorem wf2_of_sameMined {s s' : Store} (h : SameMined s s') (hn : NodupKeys s'.unminedCredits) (hw : WF2 s) :
    WF2 s' := by
  have hwf := wf_of_sameMined h hn hw.wf
  obtain ⟨_, ht, hc, _, _, hd⟩ := h
  refine ⟨hwf, ?_, ?_⟩
  · intro dk d hf
    rw [hd] at hf
    obtain ⟨hb, hl⟩ := hw.deb dk d hf
    refine ⟨by rw [ht]; exact hb, ?_⟩
    unfold DebitLive; rw [hc]; exact hl
  · intro k rec hf; rw [ht] at hf; exact hw.outs k rec hf

/-! ### mined `addCredit` -/

theorem wf2_addCredit_mined {s s' : Store} {rec : Tx} {bm : BlockMeta} {i : Nat} {chg : Bool} (hw : WF2 s)
    (h : addCredit s rec (some bm) i chg = .ok s')
    (hrec : s.txrecs.find? ⟨rec.hash, bm.block⟩ = some rec) : WF2 s' := by
  have hwf := wf_addCredit_mined hw.wf h hrec
  unfold addCredit at h
  cases hout : rec.outs[i]? with
  | none => simp [hout] at h
  | some amt =>
    simp only [hout] at h
    by_cases hex : s.credits.contains ⟨rec.hash, bm.block, i⟩ = true
    · simp only [hex, if_true, pure_eq, Except.ok.injEq] at h
      subst h; exact hw
    · have hnone : s.credits.find? ⟨rec.hash, bm.block, i⟩ = none := by
        cases hf : s.credits.find? ⟨rec.hash, bm.block, i⟩ with
        | none => rfl
        | some v => simp [contains_eq, hf] at hex
      simp only [hex, if_false, pure_eq, Except.ok.injEq, Bool.false_eq_true] at h
      subst h
      refine ⟨hwf, ?_, hw.outs⟩
      intro dk d hf
      obtain ⟨hb, cv, hcv, hl⟩ := hw.deb dk d hf
      refine ⟨hb, cv, ?_, hl⟩
      show KMap.find? (KMap.insert s.credits _ _) d.credKey = some cv
      rw [find?_insert_ne _ _ (by intro e; rw [← e, hnone] at hcv; cases hcv)]
      exact hcv

end TxStore

namespace TxStore
open KMap

theorem withIdx_mem {α : Type} : ∀ (l : List α) (n i : Nat) (a : α), (i, a) ∈ withIdx l n → n ≤ i ∧ l[i - n]? = some a := by
  intro l
  induction l with
  | nil => intro n i a h; cases h
  | cons x t ih =>
    intro n i a h
    simp only [withIdx, List.mem_cons, Prod.mk.injEq] at h
    rcases h with ⟨rfl, rfl⟩ | h
    · simp
    · obtain ⟨h1, h2⟩ := ih (n + 1) i a h
      refine ⟨by omega, ?_⟩
      have : i - n = (i - (n + 1)) + 1 := by omega
      rw [this, List.getElem?_cons_succ]; exact h2

structure ConfirmPre2 (s : Store) (rec : Tx) (bm : BlockMeta) : Prop where
  pre : ConfirmPre s rec bm
  /-- the credits it spends were confirmed at or below its height (parents first) -/
  parentsBelow : ∀ inp blk0, s.unspent.find? inp = some blk0 → inp ∈ rec.ins → blk0.height ≤ bm.block.height
  /-- a transaction has fewer than 2^32−1 outputs -/
  outsBound : rec.outs.length ≤ nullIndex

/-- the spend loop: debit clauses -/
theorem deb_spendInput (rec : Tx) (bm : BlockMeta) (s0 s : Store) (bal : Int) (i : Nat) (inp : OutPoint)
    (hw : WF { s with minedBalance := bal }) (hf : SpendFix s0 s) (hd : DebitsOK s) (ho : OutsBound s)
    (hrec : s0.txrecs.find? ⟨rec.hash, bm.block⟩ = some rec)
    (hnocred : ∀ k, (s0.credits.find? k).isSome → k.hash ≠ rec.hash)
    (hsub : ∀ op b, s.unspent.find? op = some b → s0.unspent.find? op = some b)
    (hpb : ∀ inp blk0, s0.unspent.find? inp = some blk0 → inp ∈ rec.ins → blk0.height ≤ bm.block.height)
    (hin : rec.ins[i]? = some inp) :
    DebitsOK (spendInput rec bm.block (s, bal) (i, inp)).1 ∧ OutsBound (spendInput rec bm.block (s, bal) (i, inp)).1 ∧
      (∀ op b, (spendInput rec bm.block (s, bal) (i, inp)).1.unspent.find? op = some b → s0.unspent.find? op = some b) := by
  unfold spendInput
  simp only
  cases hu : s.unspent.find? inp with
  | none => exact ⟨hd, ho, hsub⟩
  | some blk0 =>
    simp only
    obtain ⟨cv, hcv, hsp⟩ := (hw.index inp blk0).mp hu
    have hcv' : s.credits.find? ⟨inp.hash, blk0, inp.index⟩ = some cv := hcv
    simp only [spendCredit, hcv', Option.getD_some]
    refine ⟨?_, ho, ?_⟩
    · intro dk d hdf
      simp only [find?_insert] at hdf
      split at hdf
      · rename_i e
        cases hdf; subst e
        constructor
        · refine ⟨⟨rec, by show s.txrecs.find? _ = _; rw [hf.txrecs]; exact hrec, hin⟩, ?_, ?_, ?_⟩
          · exact hpb inp blk0 (hsub inp blk0 hu) (List.mem_of_getElem? hin)
          · obtain ⟨_, rec0, _, _, _, hr0, hout⟩ := hw.listed _ _ hcv
            have hb := ho _ _ hr0
            have := (List.getElem?_eq_some_iff.mp hout).1
            show inp.index < nullIndex
            simp only at this
            omega
          · exact hnocred _ (hf.creditKeys _ (by simp [hcv']))
        · refine ⟨{ cv with spent := true, spender := some ⟨rec.hash, bm.block, i⟩ }, ?_, rfl, rfl⟩
          show KMap.find? (KMap.insert s.credits _ _) _ = _
          simp
      · obtain ⟨hb, cv1, hcv1, hs1, hsp1⟩ := hd dk d hdf
        refine ⟨hb, cv1, ?_, hs1, hsp1⟩
        show KMap.find? (KMap.insert s.credits _ _) d.credKey = some cv1
        rw [find?_insert_ne _ _ (by
          intro e; rw [← e, hcv'] at hcv1; cases hcv1; rw [hsp] at hs1; cases hs1)]
        exact hcv1
    · intro op b hob
      simp only [find?_erase] at hob
      split at hob
      · cases hob
      · exact hsub op b hob

theorem wf2b_spendInputs (rec : Tx) (bm : BlockMeta) (s0 : Store)
    (hrec : s0.txrecs.find? ⟨rec.hash, bm.block⟩ = some rec)
    (hnocred : ∀ k, (s0.credits.find? k).isSome → k.hash ≠ rec.hash)
    (hpb : ∀ inp blk0, s0.unspent.find? inp = some blk0 → inp ∈ rec.ins → blk0.height ≤ bm.block.height) :
    ∀ (l : List (Nat × OutPoint)) (s : Store) (bal : Int),
      (∀ p ∈ l, rec.ins[p.1]? = some p.2) →
      WF { s with minedBalance := bal } → SpendFix s0 s → DebitsOK s → OutsBound s →
      (∀ op b, s.unspent.find? op = some b → s0.unspent.find? op = some b) →
      DebitsOK (l.foldl (spendInput rec bm.block) (s, bal)).1 ∧ OutsBound (l.foldl (spendInput rec bm.block) (s, bal)).1 := by
  intro l
  induction l with
  | nil => intro s bal _ _ _ hd ho _; exact ⟨hd, ho⟩
  | cons a t ih =>
    intro s bal hl hw hf hd ho hsub
    obtain ⟨i, inp⟩ := a
    rw [List.foldl_cons]
    obtain ⟨h1, h2⟩ := wfb_spendInput rec bm.block s0 s bal (i, inp) hw hf
    obtain ⟨h3, h4, h5⟩ := deb_spendInput rec bm s0 s bal i inp hw hf hd ho hrec hnocred hsub hpb
      (hl (i, inp) List.mem_cons_self)
    have : spendInput rec bm.block (s, bal) (i, inp) =
      ((spendInput rec bm.block (s, bal) (i, inp)).1, (spendInput rec bm.block (s, bal) (i, inp)).2) := rfl
    rw [this]
    exact ih _ _ (fun p hp => hl p (List.mem_cons_of_mem _ hp)) h1 h2 h3 h4 h5

theorem deb_moveCredits (rec : Tx) (bm : BlockMeta) :
    ∀ (L : List (OutPoint × UCredit)) (s : Store) (bal : Int),
      DebitsOK s → OutsBound s →
      (∀ p ∈ L, s.credits.find? ⟨rec.hash, bm.block, p.1.index⟩ = none) →
      (L.map (·.1.index)).Nodup →
      DebitsOK (L.foldl (moveCredit rec bm.block) (s, bal)).1 ∧ OutsBound (L.foldl (moveCredit rec bm.block) (s, bal)).1 := by
  intro L
  induction L with
  | nil => intro s bal hd ho _ _; exact ⟨hd, ho⟩
  | cons p t ih =>
    intro s bal hd ho hL hnd
    obtain ⟨op, uc⟩ := p
    rw [List.foldl_cons]
    have hnone := hL (op, uc) List.mem_cons_self
    simp only at hnone
    rw [List.map_cons, List.nodup_cons] at hnd
    have hstep : moveCredit rec bm.block (s, bal) (op, uc) =
        (({ s with
            credits := s.credits.insert ⟨rec.hash, bm.block, op.index⟩ ⟨uc.amount, uc.change, false, none⟩
            unspent := s.unspent.insert ⟨rec.hash, op.index⟩ bm.block } : Store), bal + uc.amount) := rfl
    rw [hstep]
    apply ih
    · intro dk d hdf
      obtain ⟨hb, cv1, hcv1, hs1, hsp1⟩ := hd dk d hdf
      refine ⟨hb, cv1, ?_, hs1, hsp1⟩
      show KMap.find? (KMap.insert s.credits _ _) d.credKey = some cv1
      rw [find?_insert_ne _ _ (by intro e; rw [← e, hnone] at hcv1; cases hcv1)]
      exact hcv1
    · exact ho
    · intro q hq
      have h2 := hL q (List.mem_cons_of_mem _ hq)
      have hne : op.index ≠ q.1.index := by
        intro e; apply hnd.1; rw [e]; exact List.mem_map.mpr ⟨q, hq, rfl⟩
      show KMap.find? (KMap.insert s.credits _ _) _ = none
      rw [find?_insert_ne _ _ (by intro e; injection e with _ _ e3; exact hne e3)]
      exact h2
    · exact hnd.2

/-- **`insertMinedTx` preserves `WF2`** -/
theorem wf2_insertMinedTx {s s' : Store} {rec : Tx} {bm : BlockMeta} (hw : WF2 s) (hp : ConfirmPre2 s rec bm)
    (h : insertMinedTx s rec bm = .ok s') : WF2 s' := by
  have hwf' := wf_insertMinedTx hw.wf hp.pre h
  rw [insertMinedTx_eq] at h
  have hnc : s.txrecs.contains ⟨rec.hash, bm.block⟩ = false := by
    cases hc : s.txrecs.contains ⟨rec.hash, bm.block⟩ with
    | false => rfl
    | true => exact absurd rfl (hp.pre.fresh ⟨rec.hash, bm.block⟩ (by simpa [contains_eq] using hc))
  simp only [hnc, Bool.false_eq_true, if_false] at h
  have hwR := wf_recordTx s rec bm hw.wf hp.pre
  have hrecR : (recordTx s rec bm).txrecs.find? ⟨rec.hash, bm.block⟩ = some rec := by
    rw [recordTx_fields]; simp
  have hnocred : ∀ k, ((recordTx s rec bm).credits.find? k).isSome → k.hash ≠ rec.hash := by
    intro k hk
    rw [recordTx_fields] at hk
    cases hc : s.credits.find? k with
    | none => rw [show ({ s with blocks := _, txrecs := _ } : Store).credits = s.credits from rfl, hc] at hk; cases hk
    | some cv =>
      obtain ⟨_, rec0, _, _, _, hr0, _⟩ := hw.wf.listed k cv hc
      exact hp.pre.fresh k.txKey (by simp [hr0])
  have hdR : DebitsOK (recordTx s rec bm) := by
    intro dk d hdf
    rw [recordTx_fields] at hdf
    obtain ⟨⟨⟨rec0, hr0, hin0⟩, hrest⟩, hl⟩ := hw.deb dk d hdf
    refine ⟨⟨⟨rec0, ?_, hin0⟩, hrest⟩, ?_⟩
    · rw [recordTx_fields]
      show KMap.find? (KMap.insert s.txrecs _ _) _ = _
      rw [find?_insert_ne _ _ (by intro e; exact hp.pre.fresh dk.txKey (by simp [hr0]) (by rw [← e]))]
      exact hr0
    · unfold DebitLive; rw [recordTx_fields]; exact hl
  have hoR : OutsBound (recordTx s rec bm) := by
    intro k rec0 hk
    rw [recordTx_fields] at hk
    simp only [find?_insert] at hk
    split at hk
    · cases hk; exact hp.outsBound
    · exact hw.outs k rec0 hk
  have hpbR : ∀ inp blk0, (recordTx s rec bm).unspent.find? inp = some blk0 → inp ∈ rec.ins →
      blk0.height ≤ bm.block.height := by
    intro inp blk0 hu; rw [recordTx_fields] at hu; exact hp.parentsBelow inp blk0 hu
  -- the two loops of updateMinedBalance
  rw [updateMinedBalance_eq] at h
  have hw0 : WF { (recordTx s rec bm) with minedBalance := (recordTx s rec bm).minedBalance } := hwR
  obtain ⟨hwA, hfA⟩ := wfb_spendInputs rec bm.block (recordTx s rec bm) (withIdx rec.ins) (recordTx s rec bm) _ hw0
    (SpendFix.refl _)
  obtain ⟨hdA, hoA⟩ := wf2b_spendInputs rec bm (recordTx s rec bm) hrecR hnocred hpbR (withIdx rec.ins)
    (recordTx s rec bm) _ (by
      intro p hp'
      obtain ⟨i, inp⟩ := p
      have := (withIdx_mem rec.ins 0 i inp hp').2
      simpa using this) hw0 (SpendFix.refl _) hdR hoR (fun _ _ h => h)
  generalize (withIdx rec.ins).foldl (spendInput rec bm.block) (recordTx s rec bm, (recordTx s rec bm).minedBalance) = a
    at h hwA hfA hdA hoA
  obtain ⟨sA, balA⟩ := a
  try simp only at h hwA hfA hdA hoA
  have hLnone : ∀ p ∈ unminedCreditsOf sA rec.hash, sA.credits.find? ⟨rec.hash, bm.block, p.1.index⟩ = none := by
    intro p _
    cases hc : sA.credits.find? ⟨rec.hash, bm.block, p.1.index⟩ with
    | none => rfl
    | some v =>
      have := hfA.creditKeys ⟨rec.hash, bm.block, p.1.index⟩ (by simp [hc])
      exact absurd rfl (hnocred _ this)
  have hnd : ((unminedCreditsOf sA rec.hash).map (·.1.index)).Nodup := by
    unfold unminedCreditsOf
    rw [hfA.uc, recordTx_fields]
    exact nodup_indices_of_same_hash _ hw.wf.nodupUC rec.hash
  obtain ⟨hdB, hoB⟩ := deb_moveCredits rec bm (unminedCreditsOf sA rec.hash) sA balA hdA hoA hLnone hnd
  generalize (unminedCreditsOf sA rec.hash).foldl (moveCredit rec bm.block) (sA, balA) = b at h hdB hoB
  obtain ⟨sB, balB⟩ := b
  try simp only at h hdB hoB
  -- the rest only touches the unconfirmed buckets and the leases
  have hd1 : DebitsOK (if balB ≠ (recordTx s rec bm).minedBalance then { sB with minedBalance := balB } else sB) ∧
      OutsBound (if balB ≠ (recordTx s rec bm).minedBalance then { sB with minedBalance := balB } else sB) := by
    split
    · exact ⟨hdB, hoB⟩
    · exact ⟨hdB, hoB⟩
  generalize (if balB ≠ (recordTx s rec bm).minedBalance then { sB with minedBalance := balB } else sB) = s1 at h hd1
  have hd2 : DebitsOK (if s1.unmined.contains rec.hash then deleteUnminedTx s1 rec else s1) ∧
      OutsBound (if s1.unmined.contains rec.hash then deleteUnminedTx s1 rec else s1) := by
    split
    · obtain ⟨_, ht, hc, _, _, hdb⟩ := sameMined_deleteUnminedTx s1 rec
      refine ⟨?_, ?_⟩
      · intro dk d hf; rw [hdb] at hf
        obtain ⟨hb, hl⟩ := hd1.1 dk d hf
        exact ⟨by rw [ht]; exact hb, by unfold DebitLive; rw [hc]; exact hl⟩
      · intro k r hf; rw [ht] at hf; exact hd1.2 k r hf
    · exact hd1
  generalize (if s1.unmined.contains rec.hash then deleteUnminedTx s1 rec else s1) = s2 at h hd2
  cases hds : removeDoubleSpends s2 rec with
  | error e => rw [hds] at h; cases h
  | ok s3 =>
    rw [hds, bind_ok] at h
    simp only [pure_eq, Except.ok.injEq] at h
    subst h
    have hsm := (sameMined_removeDoubleSpends hds).trans (foldl_preserves (SameMined s3) unlockOutputRaw
      (fun a p hp => hp.trans (sameMined_unlockOutputRaw a p)) rec.ins s3 (SameMined.refl s3))
    obtain ⟨_, ht, hc, _, _, hdb⟩ := hsm
    refine ⟨hwf', ?_, ?_⟩
    · intro dk d hf; rw [hdb] at hf
      obtain ⟨hb, hl⟩ := hd2.1 dk d hf
      exact ⟨by rw [ht]; exact hb, by unfold DebitLive; rw [hc]; exact hl⟩
    · intro k r hf; rw [ht] at hf; exact hd2.2 k r hf

end TxStore
