/-
C05 support: heap frame facts that hold for EVERY operation of the AddrLock model in every lock state — object ids
below `heapN` are never re-allocated and an object never changes its kind — and, from them, the invariant that
every address object a pending OnCommit closure of `nextAddresses` is going to cache is a live `*managedAddress`.
(Needed by the "stays wiped while locked" invariant: the F13 fix wipes exactly the `*managedAddress` objects of the
closure.)
-/
import BtcwVerif.Lemmas.AddrLock
namespace AddrLock

structure WExt (m m' : Mem) : Prop where
  heapN : m.heapN ≤ m'.heapN
  kind  : ∀ id, id < m.heapN → (m'.heap id).kind = (m.heap id).kind

theorem WExt.refl (m : Mem) : WExt m m := ⟨Nat.le_refl _, fun _ _ => rfl⟩

theorem WExt.trans {a b c : Mem} (h1 : WExt a b) (h2 : WExt b c) : WExt a c :=
  ⟨Nat.le_trans h1.heapN h2.heapN,
   fun id hid => by rw [h2.kind id (Nat.lt_of_lt_of_le hid h1.heapN), h1.kind id hid]⟩

theorem wExt_heap {m m' : Mem} (h1 : m'.heap = m.heap) (h2 : m'.heapN = m.heapN) : WExt m m' :=
  ⟨by rw [h2]; exact Nat.le_refl _, fun id _ => by rw [h1]⟩

theorem wExt_updScope (m : Mem) (sc : Nat) (f : ScopeMem → ScopeMem) : WExt m (m.updScope sc f) := wExt_heap rfl rfl

theorem wExt_alloc (m : Mem) (o : Obj) : WExt m (m.alloc o).1 :=
  ⟨Nat.le_succ _, fun id hid => by simp [Mem.alloc, Nat.ne_of_lt hid]⟩

theorem wExt_setObj (m : Mem) (i : Nat) (f : Obj → Obj) (hf : ∀ o, (f o).kind = o.kind) : WExt m (m.setObj i f) :=
  ⟨Nat.le_refl _, fun id _ => by
    simp only [Mem.setObj]; split
    · rename_i h; rw [hf, h]
    · rfl⟩

/-- a pointwise heap change that keeps kinds -/
theorem wExt_heapMap (m m' : Mem) (h1 : ∀ id, (m'.heap id).kind = (m.heap id).kind) (h2 : m'.heapN = m.heapN) :
    WExt m m' := ⟨by rw [h2]; exact Nat.le_refl _, fun id _ => h1 id⟩

theorem wExt_ktm (m : Mem) (sc a b i : Nat) (p : Bool) : WExt m (keyToManaged m sc a b i p).1 := by
  unfold keyToManaged
  split
  · exact wExt_alloc ..
  · dsimp only; exact (wExt_alloc _ _).trans (wExt_updScope ..)

theorem wExt_loadAcctRow (m : Mem) (sc acct : Nat) (row : AcctRow) : WExt m (loadAcctRow m sc acct row) := by
  unfold loadAcctRow
  exact ((wExt_ktm ..).trans (wExt_ktm ..)).trans (wExt_updScope ..)

theorem wExt_loadAcct {d : Disk} {m m1 : Mem} {sc a : Nat} (h : loadAcct d m sc a = .ok m1) : WExt m m1 := by
  unfold loadAcct at h
  split at h
  · cases h; exact WExt.refl _
  · split at h
    · cases h
    · split at h
      · cases h
      · split at h
        · cases h
        · cases h; exact wExt_loadAcctRow ..

theorem wExt_chainRow {d m sc a b i r} (h : chainRowToManaged d m sc a b i = .ok r) : WExt m r.1 := by
  unfold chainRowToManaged at h
  split at h
  · cases h
  · rename_i m1 hl
    split at h
    · cases h
    · cases h; exact (wExt_loadAcct hl).trans (wExt_ktm ..)

theorem wExt_loadAndCache {d m sc k r} (h : loadAndCache d m sc k = .ok r) : WExt m r.1 := by
  unfold loadAndCache at h
  split at h
  · cases h
  · dsimp only at h
    split at h
    · split at h
      · cases h
      · rename_i r' hc; cases h; dsimp only; exact (wExt_chainRow hc).trans (wExt_updScope ..)
    · cases h
    · cases h; dsimp only; exact (wExt_alloc _ _).trans (wExt_updScope ..)
    · cases h; dsimp only; exact (wExt_alloc _ _).trans (wExt_updScope ..)
    · cases h; dsimp only; exact (wExt_alloc _ _).trans (wExt_updScope ..)

theorem wExt_addressOf {d m sc k r} (h : addressOf d m sc k = .ok r) : WExt m r.1 := by
  unfold addressOf at h
  split at h
  · cases h; exact WExt.refl _
  · exact wExt_loadAndCache h

/-! ### nextAddresses / extendAddresses / the OnCommit closure -/

theorem wExt_mkAddrs (m : Mem) (a b : Nat) (p : Bool) (start n : Nat) : WExt m (mkAddrs m a b p start n).1 := by
  induction n generalizing m start with
  | zero => exact WExt.refl _
  | succ n ih => simp only [mkAddrs]; exact (wExt_alloc _ _).trans (ih _ _)

/-- every object of a pending closure is a live `*managedAddress` -/
def PendKind (m : Mem) (p : Pend) : Prop := ∀ e ∈ p.infos, e.obj < m.heapN ∧ (m.heap e.obj).kind = .managed

theorem PendKind.ext {m m' : Mem} {p : Pend} (h : PendKind m p) (he : WExt m m') : PendKind m' p :=
  fun e hi => ⟨Nat.lt_of_lt_of_le (h e hi).1 he.heapN, by rw [he.kind _ (h e hi).1]; exact (h e hi).2⟩

theorem mkAddrs_kind (m : Mem) (a b : Nat) (p : Bool) (start n : Nat) :
    ∀ e ∈ (mkAddrs m a b p start n).2,
      e.obj < (mkAddrs m a b p start n).1.heapN ∧ ((mkAddrs m a b p start n).1.heap e.obj).kind = .managed := by
  induction n generalizing m start with
  | zero => intro e he; simp [mkAddrs] at he
  | succ n ih =>
    intro e he
    simp only [mkAddrs, List.mem_cons] at he ⊢
    rcases he with he | he
    · subst he
      have hw := wExt_mkAddrs (m.alloc { key := .chain a b start, kind := .managed, hasEnc := p, ct := p, acct := a }).1
        a b p (start + 1) n
      have hlt : m.heapN < (m.alloc { key := .chain a b start, kind := .managed, hasEnc := p, ct := p, acct := a }).1.heapN :=
        Nat.lt_succ_self _
      refine ⟨Nat.lt_of_lt_of_le hlt hw.heapN, ?_⟩
      show ((mkAddrs _ a b p (start + 1) n).1.heap m.heapN).kind = .managed
      rw [hw.kind _ hlt]; simp [Mem.alloc]
    · exact ih _ _ e he

theorem wExt_putAndLoad (sc : Nat) (es : List Dou) (d : Disk) (m : Mem) : WExt m (putAndLoad sc es d m).2.1 := by
  induction es generalizing d m with
  | nil => exact WExt.refl _
  | cons e es ih =>
    simp only [putAndLoad]
    split
    · exact WExt.refl _
    · split
      · exact WExt.refl _
      · rename_i r hr; exact (wExt_loadAndCache hr).trans (ih _ _)

theorem wExt_nextAddresses (d : Disk) (m : Mem) (sc a n : Nat) (int : Bool) :
    WExt m (nextAddresses d m sc a n int).mem ∧
    ∀ p, (nextAddresses d m sc a n int).pend = some p → PendKind (nextAddresses d m sc a n int).mem p := by
  unfold nextAddresses
  split
  · exact ⟨WExt.refl _, fun p hp => by cases hp⟩
  · rename_i m1 hl
    have h1 := wExt_loadAcct hl
    split
    · exact ⟨h1, fun p hp => by cases hp⟩
    · rename_i info _
      dsimp only
      split
      · exact ⟨h1, fun p hp => by cases hp⟩
      · split
        · exact ⟨h1, fun p hp => by cases hp⟩
        · have key := wExt_putAndLoad sc
            (mkAddrs m1 a (brOf int) (!m1.locked && !(m1.watchOnly || !info.hasEnc)) (nextOf info int) n).2 d
            (mkAddrs m1 a (brOf int) (!m1.locked && !(m1.watchOnly || !info.hasEnc)) (nextOf info int) n).1
          have hm := wExt_mkAddrs m1 a (brOf int) (!m1.locked && !(m1.watchOnly || !info.hasEnc)) (nextOf info int) n
          have hk := mkAddrs_kind m1 a (brOf int) (!m1.locked && !(m1.watchOnly || !info.hasEnc)) (nextOf info int) n
          split
          · rename_i hp; rw [hp] at key; simp only at key
            exact ⟨h1.trans (hm.trans key), fun p hp => by cases hp⟩
          · rename_i hp; rw [hp] at key; simp only at key
            refine ⟨h1.trans (hm.trans key), fun p hp => ?_⟩
            simp only [Option.some.injEq] at hp
            subst hp
            exact PendKind.ext (p := ⟨sc, a, int, nextOf info int + n, _, m1.watchOnly || !info.hasEnc⟩) hk key

theorem wExt_cacheNew (sc : Nat) (w : Bool) (m : Mem) (e : Dou) : WExt m (cacheNew sc w m e) := wExt_updScope ..

theorem wExt_foldl {α} (l : List α) (m : Mem) (f : Mem → α → Mem) (hf : ∀ m a, WExt m (f m a)) :
    WExt m (l.foldl f m) := by
  induction l generalizing m with
  | nil => exact WExt.refl _
  | cons a t ih => simp only [List.foldl]; exact (hf m a).trans (ih _)

theorem wExt_runPend (cfg : Cfg) (m : Mem) (p : Pend) : WExt m (runPend cfg m p) := by
  unfold runPend
  dsimp only
  have hm0 : WExt m (if (cfg.f13 && m.locked) = true then
      { m with heap := fun id =>
          if (p.infos.any (fun e => e.obj == id) && (m.heap id).kind == .managed) = true then { m.heap id with ct := false }
          else m.heap id }
      else m) := by
    split
    · exact wExt_heapMap _ _ (fun id => by dsimp only; split <;> rfl) rfl
    · exact WExt.refl _
  have h1 := fun m0 => wExt_foldl p.infos m0 (cacheNew p.scope p.watchOnly) (wExt_cacheNew _ _)
  split
  · exact hm0.trans ((h1 _).trans (wExt_updScope ..))
  · exact hm0.trans (h1 _)

theorem wExt_extend (cfg : Cfg) (d : Disk) (m : Mem) (sc a li : Nat) (int : Bool) :
    WExt m (extendAddresses cfg d m sc a li int).2.1 := by
  unfold extendAddresses
  split
  · exact WExt.refl _
  · rename_i m1 hl
    have h1 := wExt_loadAcct hl
    split
    · exact h1
    · rename_i info _
      dsimp only
      have h2 := fun (l : List Dou) (m0 : Mem) (w : Bool) => wExt_foldl l m0 (cacheNew sc w) (wExt_cacheNew _ _)
      split
      · exact h1
      · split
        · exact h1
        · split
          · exact h1
          · split
            · exact h1.trans (wExt_mkAddrs ..)
            · split
              · exact h1.trans ((wExt_mkAddrs ..).trans (h2 _ _ _))
              · dsimp only; exact h1.trans ((wExt_mkAddrs ..).trans ((h2 _ _ _).trans (wExt_updScope ..)))

/-! ### the remaining operations -/

theorem wExt_query (d : Disk) (m : Mem) (q : Query) : WExt m (query d m q).1 := by
  cases q <;> simp only [query]
  · split
    · exact WExt.refl _
    · rename_i r hr; exact wExt_addressOf hr
  · split
    · exact WExt.refl _
    · split
      · exact WExt.refl _
      · rename_i m1 hl; split <;> exact wExt_loadAcct hl
  · split
    · exact WExt.refl _
    · rename_i m1 hl; split
      · exact wExt_loadAcct hl
      · split <;> exact wExt_loadAcct hl
  · split <;> exact WExt.refl _
  · split <;> exact WExt.refl _
  · split
    · exact WExt.refl _
    · rename_i r hr; exact wExt_addressOf hr
  · exact WExt.refl _
  · split <;> exact WExt.refl _

theorem wExt_privKeyObj (m : Mem) (id : Nat) : WExt m (privKeyObj m id).1 := by
  unfold privKeyObj; dsimp only; repeat' split
  all_goals first | exact WExt.refl _ | (dsimp only; exact wExt_setObj _ _ _ (fun _ => rfl))

theorem wExt_scriptObj (m : Mem) (id : Nat) : WExt m (scriptObj m id).1 := by
  unfold scriptObj; dsimp only; repeat' split
  all_goals first | exact WExt.refl _ | (dsimp only; exact wExt_setObj _ _ _ (fun _ => rfl))

theorem wExt_deriveCache (cfg : Cfg) (m : Mem) (sc : Nat) (p : Path) : WExt m (deriveCache cfg m sc p).1 := by
  unfold deriveCache; dsimp only; repeat' split
  all_goals first | exact WExt.refl _ | (dsimp only; exact wExt_updScope ..)

theorem wExt_derivePath (d : Disk) (m : Mem) (sc a b i : Nat) : WExt m (derivePath d m sc a b i).1 := by
  unfold derivePath; split
  · exact WExt.refl _
  · rename_i r hr; exact (wExt_chainRow hr).trans (wExt_privKeyObj ..)

theorem wExt_importKey (d : Disk) (m : Mem) (sc k : Nat) (p : Bool) : WExt m (importKey d m sc k p).2.1 := by
  unfold importKey; dsimp only; repeat' split
  all_goals first | exact WExt.refl _ | (dsimp only; exact (wExt_alloc _ _).trans (wExt_updScope ..))

theorem wExt_importScript (d : Disk) (m : Mem) (sc kind sid : Nat) (p : Bool) :
    WExt m (importScript d m sc kind sid p).2.1 := by
  unfold importScript; dsimp only; repeat' split
  all_goals first | exact WExt.refl _ | (dsimp only; exact (wExt_alloc _ _).trans (wExt_updScope ..))

theorem wExt_rename (d : Disk) (m : Mem) (sc a : Nat) (n : String) : WExt m (renameAccount d m sc a n).2.1 := by
  unfold renameAccount; dsimp only; repeat' split
  all_goals first | exact WExt.refl _ | (dsimp only; exact wExt_updScope ..)

theorem wExt_markUsed (d : Disk) (m : Mem) (sc : Nat) (k : AKey) : WExt m (markUsed d m sc k).2 := by
  unfold markUsed; dsimp only; exact wExt_updScope ..

theorem wExt_setSynced (d : Disk) (m : Mem) (h x : Nat) : WExt m (setSyncedTo d m h x).2.1 := by
  unfold setSyncedTo; split
  · exact WExt.refl _
  · exact wExt_heap rfl rfl

/-! ### lock / unlock / passphrase change / conversion -/

theorem wExt_lockMem (cfg : Cfg) (m : Mem) : WExt m (lockMem cfg m) :=
  wExt_heapMap _ _ (fun id => by simp only [lockMem]; split <;> rfl) rfl

theorem wExt_unlockDou (cfg : Cfg) (d : Disk) (sc : Nat) (es : List Dou) (m : Mem) :
    WExt m (unlockDou cfg d sc es m).1 := by
  induction es generalizing m with
  | nil => exact WExt.refl _
  | cons e es ih =>
    simp only [unlockDou]
    split
    · exact WExt.refl _
    · rename_i m1 hl
      have h1 := wExt_loadAcct hl
      split
      · split
        · exact h1.trans ((wExt_updScope ..).trans (ih _))
        · exact h1
      · exact h1.trans ((wExt_setObj _ _ _ (fun o => by split <;> rfl)).trans ((wExt_updScope ..).trans (ih _)))

theorem wExt_unlockScopes (cfg : Cfg) (d : Disk) (scs : List Nat) (m : Mem) :
    WExt m (unlockScopes cfg d scs m).1 := by
  induction scs generalizing m with
  | nil => exact WExt.refl _
  | cons sc rest ih =>
    simp only [unlockScopes]
    split
    · exact WExt.refl _
    · rename_i ai hai
      have h0 : WExt m (m.updScope sc fun s => { s with acctInfo := ai }) := wExt_updScope ..
      have h1 := wExt_unlockDou cfg d sc ((m.updScope sc fun s => { s with acctInfo := ai }).scopes sc).dou
        (m.updScope sc fun s => { s with acctInfo := ai })
      split
      · rename_i m2 e heq; rw [heq] at h1; exact h0.trans h1
      · rename_i m2 heq; rw [heq] at h1; exact h0.trans (h1.trans (ih _))

theorem wExt_unlock (cfg : Cfg) (d : Disk) (m : Mem) (p : Nat) : WExt m (unlock cfg d m p).1 := by
  unfold unlock
  split
  · exact WExt.refl _
  · split
    · dsimp only
      split
      · exact wExt_heap rfl rfl
      · exact WExt.trans (b := { m with saltZero := saltAfter cfg m p }) (wExt_heap rfl rfl) (wExt_lockMem cfg _)
    · split
      · exact wExt_lockMem _ _
      · dsimp only
        have h0 : WExt m (unlockStart cfg m) := wExt_heap rfl rfl
        have h1 := wExt_unlockScopes cfg d (List.range nScopes) (unlockStart cfg m)
        split
        · rename_i m2 heq; rw [heq] at h1; exact h0.trans h1
        · rename_i m2 e _ heq; rw [heq] at h1; exact h0.trans (h1.trans (wExt_lockMem _ _))
        · rename_i m2 heq; rw [heq] at h1; exact h0.trans (h1.trans (wExt_heap rfl rfl))

theorem wExt_lockOp (cfg : Cfg) (m : Mem) : WExt m (lockOp cfg m).1 := by
  unfold lockOp
  split
  · exact WExt.refl _
  · split
    · exact WExt.refl _
    · exact wExt_lockMem _ _

theorem wExt_changePass (cfg : Cfg) (d : Disk) (m : Mem) (o n : Nat) (pr : Bool) :
    WExt m (changePass cfg d m o n pr).2.1 := by
  unfold changePass
  repeat' split
  all_goals first | exact WExt.refl _ | exact wExt_heap rfl rfl

theorem wExt_convertWO (cfg : Cfg) (d : Disk) (m : Mem) : WExt m (convertWO cfg d m).2 := by
  unfold convertWO
  split
  · exact WExt.refl _
  · dsimp only
    have h1 : WExt m (if m.locked = true then m else lockMem cfg m) := by
      split
      · exact WExt.refl _
      · exact wExt_lockMem _ _
    generalize (if m.locked = true then m else lockMem cfg m) = m1 at h1 ⊢
    exact h1.trans (wExt_heapMap _ _ (fun id => by dsimp only; split <;> rfl) rfl)

/-! ### every operation -/

theorem exec_mem_wExt (s : State) (m : Mem) (hs : s.mem = some m) (op : Op) (m' : Mem)
    (h : (exec s m op).1.mem = some m') : WExt m m' := by
  cases op <;> simp only [exec] at h
  case create => rw [hs] at h; cases h; exact WExt.refl _
  case reopen => rw [hs] at h; cases h; exact WExt.refl _
  case begin => rw [hs] at h; cases h; exact WExt.refl _
  case commit => rw [hs] at h; cases h; exact WExt.refl _
  case rollback => rw [hs] at h; cases h; exact WExt.refl _
  case unlock => cases h; exact wExt_unlock ..
  case lock => cases h; exact wExt_lockOp ..
  case changePass => cases h; exact wExt_changePass ..
  case convertWO => cases h; exact wExt_convertWO ..
  case newAccount => split at h <;> (simp only [hs] at h; cases h; exact WExt.refl _)
  case rename => cases h; exact wExt_rename ..
  case next =>
    split at h <;> (simp only [] at h; cases h; exact (wExt_nextAddresses ..).1)
  case extend => cases h; exact wExt_extend ..
  case importKey => cases h; exact wExt_importKey ..
  case importScript => cases h; exact wExt_importScript ..
  case markUsed => cases h; exact wExt_markUsed ..
  case setSynced => cases h; exact wExt_setSynced ..
  case setBirthday => simp only [hs] at h; cases h; exact WExt.refl _
  case privKey =>
    split at h
    · simp only [hs] at h; cases h; exact WExt.refl _
    · rename_i r hr; simp only [] at h; cases h; exact (wExt_addressOf hr).trans (wExt_privKeyObj ..)
  case lastPrivKey sc acct int =>
    have hq := wExt_query s.disk m (.lastAddr sc acct int)
    split at h
    · rename_i m1 k a hm
      rw [hm] at hq
      split at h <;> (simp only [] at h; cases h)
      · exact hq.trans (wExt_privKeyObj ..)
      · exact hq
    · rename_i m1 e hm; rw [hm] at hq; simp only [] at h; cases h; exact hq
    · rename_i m1 _ _ hm; rw [hm] at hq; simp only [] at h; cases h; exact hq
  case script =>
    split at h
    · simp only [hs] at h; cases h; exact WExt.refl _
    · rename_i r hr; simp only [] at h; cases h; exact (wExt_addressOf hr).trans (wExt_scriptObj ..)
  case crypt => simp only [hs] at h; cases h; exact WExt.refl _
  case derive => cases h; exact wExt_derivePath ..
  case deriveCache => cases h; exact wExt_deriveCache ..
  case q => cases h; exact wExt_query ..

/-- the closure registered by `.next` satisfies `PendKind` in the memory the op leaves -/
theorem exec_next_pendKind (s : State) (m : Mem) (sc a n : Nat) (int : Bool) (m' : Mem)
    (h : (exec s m (.next sc a n int)).1.mem = some m') :
    ∀ p ∈ (exec s m (.next sc a n int)).1.pend, p ∈ s.pend ∨ PendKind m' p := by
  have key := (wExt_nextAddresses s.disk m sc a n int).2
  simp only [exec] at h ⊢
  have hm : m' = (nextAddresses s.disk m sc a n int).mem := by
    split at h <;> (simp only [] at h; cases h; rfl)
  have hp : ∀ p ∈ (match (nextAddresses s.disk m sc a n int).pend with
      | some p => s.pend ++ [p] | none => s.pend), p ∈ s.pend ∨ PendKind m' p := by
    intro p hp
    cases hq : (nextAddresses s.disk m sc a n int).pend with
    | none => rw [hq] at hp; exact Or.inl hp
    | some q =>
      rw [hq] at hp
      simp only [List.mem_append, List.mem_singleton] at hp
      rcases hp with hp | hp
      · exact Or.inl hp
      · right; rw [hp, hm]; exact key q hq
  split <;> exact hp

end AddrLock
