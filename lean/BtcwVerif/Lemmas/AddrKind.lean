/-
C05 support: heap frame facts that hold for EVERY operation of the AddrLock model in every lock state — object ids
below `heapN` are never re-allocated and an object never changes its kind — and, from them, the invariant that
every address object a pending OnCommit closure of `nextAddresses` is going to cache is a live `*managedAddress`.
(Needed by the "stays wiped while locked" invariant: the F13 fix wipes exactly the `*managedAddress` objects of the
closure.)
-/
import BtcwVerif.Lemmas.AddrLock
namespace AddrLock

/-- both last-address slots of a cached account hold live `*managedAddress` objects -/
def LastOK (m : Mem) (ai : AcctInfo) : Prop :=
  (ai.lastExt < m.heapN ∧ (m.heap ai.lastExt).kind = .managed) ∧ (ai.lastInt < m.heapN ∧ (m.heap ai.lastInt).kind = .managed)

def LastKind (m : Mem) : Prop := ∀ sc, ∀ p ∈ (m.scopes sc).acctInfo, LastOK m p.2

structure WExt (m m' : Mem) : Prop where
  heapN : m.heapN ≤ m'.heapN
  kind  : ∀ id, id < m.heapN → (m'.heap id).kind = (m.heap id).kind
  last  : LastKind m → LastKind m'

theorem lastOK_ext {m m' : Mem} (hN : m.heapN ≤ m'.heapN) (hk : ∀ id, id < m.heapN → (m'.heap id).kind = (m.heap id).kind)
    {ai : AcctInfo} (h : LastOK m ai) : LastOK m' ai :=
  ⟨⟨Nat.lt_of_lt_of_le h.1.1 hN, by rw [hk _ h.1.1]; exact h.1.2⟩,
   ⟨Nat.lt_of_lt_of_le h.2.1 hN, by rw [hk _ h.2.1]; exact h.2.2⟩⟩

theorem lastOK_congr {m : Mem} {ai ai' : AcctInfo} (h1 : ai'.lastExt = ai.lastExt) (h2 : ai'.lastInt = ai.lastInt)
    (h : LastOK m ai) : LastOK m ai' := by
  unfold LastOK at *; rw [h1, h2]; exact h

/-- the way every `WExt` is built: every account entry of `m'` has the last-address slots of an old entry, or is
shown to be `LastOK` directly -/
theorem wExt_mk {m m' : Mem} (hN : m.heapN ≤ m'.heapN) (hk : ∀ id, id < m.heapN → (m'.heap id).kind = (m.heap id).kind)
    (h3 : ∀ sc, ∀ p ∈ (m'.scopes sc).acctInfo,
      (∃ q ∈ (m.scopes sc).acctInfo, p.2.lastExt = q.2.lastExt ∧ p.2.lastInt = q.2.lastInt) ∨
      (LastKind m → LastOK m' p.2)) : WExt m m' :=
  ⟨hN, hk, fun hl sc p hp => by
    rcases h3 sc p hp with ⟨q, hq, e1, e2⟩ | h
    · exact lastOK_congr e1 e2 (lastOK_ext hN hk (hl sc q hq))
    · exact h hl⟩

theorem WExt.refl (m : Mem) : WExt m m := ⟨Nat.le_refl _, fun _ _ => rfl, id⟩

theorem WExt.trans {a b c : Mem} (h1 : WExt a b) (h2 : WExt b c) : WExt a c :=
  ⟨Nat.le_trans h1.heapN h2.heapN,
   fun id hid => by rw [h2.kind id (Nat.lt_of_lt_of_le hid h1.heapN), h1.kind id hid],
   fun h => h2.last (h1.last h)⟩

theorem wExt_heap {m m' : Mem} (h1 : m'.heap = m.heap) (h2 : m'.heapN = m.heapN) (h3 : m'.scopes = m.scopes) : WExt m m' :=
  wExt_mk (by rw [h2]; exact Nat.le_refl _) (fun id _ => by rw [h1])
    (fun sc p hp => Or.inl ⟨p, by rw [← h3]; exact hp, rfl, rfl⟩)

/-- a scope update that leaves the account cache alone -/
theorem wExt_updScope (m : Mem) (sc : Nat) (f : ScopeMem → ScopeMem)
    (hf : (f (m.scopes sc)).acctInfo = (m.scopes sc).acctInfo) : WExt m (m.updScope sc f) :=
  wExt_mk (Nat.le_refl _) (fun _ _ => rfl) (fun sc' p hp => by
    simp only [Mem.updScope] at hp
    by_cases hs : sc' = sc
    · subst hs; simp only [if_true] at hp; rw [hf] at hp; exact Or.inl ⟨p, hp, rfl, rfl⟩
    · simp only [hs, if_false] at hp; exact Or.inl ⟨p, hp, rfl, rfl⟩)

/-- caching / replacing an account entry whose last-address slots are fine -/
theorem wExt_setInfo (m : Mem) (sc a : Nat) (ai : AcctInfo) (h : LastKind m → LastOK m ai) :
    WExt m (m.updScope sc fun s => { s with acctInfo := aset s.acctInfo a ai }) :=
  wExt_mk (Nat.le_refl _) (fun _ _ => rfl) (fun sc' p hp => by
    simp only [Mem.updScope] at hp
    by_cases hs : sc' = sc
    · subst hs; simp only [if_true] at hp
      rcases mem_aset hp with h1 | h1
      · right; rw [h1]; exact h
      · exact Or.inl ⟨p, h1, rfl, rfl⟩
    · simp only [hs, if_false] at hp; exact Or.inl ⟨p, hp, rfl, rfl⟩)

theorem wExt_alloc (m : Mem) (o : Obj) : WExt m (m.alloc o).1 :=
  wExt_mk (Nat.le_succ _) (fun id hid => by simp [Mem.alloc, Nat.ne_of_lt hid]) (fun sc p hp => Or.inl ⟨p, hp, rfl, rfl⟩)

theorem wExt_setObj (m : Mem) (i : Nat) (f : Obj → Obj) (hf : ∀ o, (f o).kind = o.kind) : WExt m (m.setObj i f) :=
  wExt_mk (Nat.le_refl _) (fun id _ => by
    simp only [Mem.setObj]; split
    · rename_i h; rw [hf, h]
    · rfl) (fun sc p hp => Or.inl ⟨p, hp, rfl, rfl⟩)

/-- a pointwise heap change that keeps kinds, with account caches whose last-address slots are the old ones -/
theorem wExt_heapMap (m m' : Mem) (h1 : ∀ id, (m'.heap id).kind = (m.heap id).kind) (h2 : m'.heapN = m.heapN)
    (h3 : ∀ sc, ∀ p ∈ (m'.scopes sc).acctInfo,
      ∃ q ∈ (m.scopes sc).acctInfo, p.2.lastExt = q.2.lastExt ∧ p.2.lastInt = q.2.lastInt) :
    WExt m m' := wExt_mk (by rw [h2]; exact Nat.le_refl _) (fun id _ => h1 id) (fun sc p hp => Or.inl (h3 sc p hp))

/-- `m'` has the same scopes -/
theorem same_lasts {m m' : Mem} (h : m'.scopes = m.scopes) : ∀ sc, ∀ p ∈ (m'.scopes sc).acctInfo,
    ∃ q ∈ (m.scopes sc).acctInfo, p.2.lastExt = q.2.lastExt ∧ p.2.lastInt = q.2.lastInt :=
  fun sc p hp => ⟨p, by rw [← h]; exact hp, rfl, rfl⟩

/-- `m'`'s account caches are a field-wise image of `m`'s that keeps the last-address slots -/
theorem map_lasts {m m' : Mem} (g : Nat × AcctInfo → Nat × AcctInfo)
    (hg : ∀ q, (g q).2.lastExt = q.2.lastExt ∧ (g q).2.lastInt = q.2.lastInt)
    (h : ∀ sc, (m'.scopes sc).acctInfo = (m.scopes sc).acctInfo.map g) : ∀ sc, ∀ p ∈ (m'.scopes sc).acctInfo,
    ∃ q ∈ (m.scopes sc).acctInfo, p.2.lastExt = q.2.lastExt ∧ p.2.lastInt = q.2.lastInt := by
  intro sc p hp
  rw [h sc, List.mem_map] at hp
  obtain ⟨q, hq, rfl⟩ := hp
  exact ⟨q, hq, (hg q).1, (hg q).2⟩

theorem wExt_ktm (m : Mem) (sc a b i : Nat) (p : Bool) : WExt m (keyToManaged m sc a b i p).1 := by
  unfold keyToManaged
  split
  · exact wExt_alloc ..
  · dsimp only; exact (wExt_alloc _ _).trans (wExt_updScope _ _ _ rfl)

theorem wExt_loadAcctRow (m : Mem) (sc acct : Nat) (row : AcctRow) : WExt m (loadAcctRow m sc acct row) := by
  unfold loadAcctRow
  refine ((wExt_ktm ..).trans (wExt_ktm ..)).trans (wExt_setInfo _ _ _ _ fun _ => ?_)
  unfold LastOK keyToManaged
  cases (!m.locked && !m.watchOnly && !row.wo) <;> simp [Mem.alloc, Mem.updScope] <;> omega

theorem wExt_loadAcct {d : Disk} {m m1 : Mem} {sc a : Nat} (h : loadAcct d m sc a = .ok m1) : WExt m m1 := by
  unfold loadAcct at h
  split at h
  · cases h; exact WExt.refl _
  · split at h
    · cases h
    · split at h
      · cases h
      · split at h
        · cases h
        · cases h; exact wExt_loadAcctRow ..

theorem wExt_chainRow {d m sc a b i r} (h : chainRowToManaged d m sc a b i = .ok r) : WExt m r.1 := by
  unfold chainRowToManaged at h
  split at h
  · cases h
  · rename_i m1 hl
    split at h
    · cases h
    · cases h; exact (wExt_loadAcct hl).trans (wExt_ktm ..)

theorem wExt_loadAndCache {d m sc k r} (h : loadAndCache d m sc k = .ok r) : WExt m r.1 := by
  unfold loadAndCache at h
  split at h
  · cases h
  · dsimp only at h
    split at h
    · split at h
      · cases h
      · rename_i r' hc; cases h; dsimp only; exact (wExt_chainRow hc).trans (wExt_updScope _ _ _ rfl)
    · cases h
    · cases h; dsimp only; exact (wExt_alloc _ _).trans (wExt_updScope _ _ _ rfl)
    · cases h; dsimp only; exact (wExt_alloc _ _).trans (wExt_updScope _ _ _ rfl)
    · cases h; dsimp only; exact (wExt_alloc _ _).trans (wExt_updScope _ _ _ rfl)

theorem wExt_addressOf {d m sc k r} (h : addressOf d m sc k = .ok r) : WExt m r.1 := by
  unfold addressOf at h
  split at h
  · cases h; exact WExt.refl _
  · exact wExt_loadAndCache h

/-! ### nextAddresses / extendAddresses / the OnCommit closure -/

theorem wExt_mkAddrs (m : Mem) (a b : Nat) (p : Bool) (start n : Nat) : WExt m (mkAddrs m a b p start n).1 := by
  induction n generalizing m start with
  | zero => exact WExt.refl _
  | succ n ih => simp only [mkAddrs]; exact (wExt_alloc _ _).trans (ih _ _)

/-- every object of a pending closure is a live `*managedAddress` -/
def PendKind (m : Mem) (p : Pend) : Prop := ∀ e ∈ p.infos, e.obj < m.heapN ∧ (m.heap e.obj).kind = .managed

theorem PendKind.ext {m m' : Mem} {p : Pend} (h : PendKind m p) (he : WExt m m') : PendKind m' p :=
  fun e hi => ⟨Nat.lt_of_lt_of_le (h e hi).1 he.heapN, by rw [he.kind _ (h e hi).1]; exact (h e hi).2⟩

theorem mkAddrs_kind (m : Mem) (a b : Nat) (p : Bool) (start n : Nat) :
    ∀ e ∈ (mkAddrs m a b p start n).2,
      e.obj < (mkAddrs m a b p start n).1.heapN ∧ ((mkAddrs m a b p start n).1.heap e.obj).kind = .managed := by
  induction n generalizing m start with
  | zero => intro e he; simp [mkAddrs] at he
  | succ n ih =>
    intro e he
    simp only [mkAddrs, List.mem_cons] at he ⊢
    rcases he with he | he
    · subst he
      have hw := wExt_mkAddrs (m.alloc { key := .chain a b start, kind := .managed, hasEnc := p, ct := p, acct := a }).1
        a b p (start + 1) n
      have hlt : m.heapN < (m.alloc { key := .chain a b start, kind := .managed, hasEnc := p, ct := p, acct := a }).1.heapN :=
        Nat.lt_succ_self _
      refine ⟨Nat.lt_of_lt_of_le hlt hw.heapN, ?_⟩
      show ((mkAddrs _ a b p (start + 1) n).1.heap m.heapN).kind = .managed
      rw [hw.kind _ hlt]; simp [Mem.alloc]
    · exact ih _ _ e he

theorem wExt_putAndLoad (sc : Nat) (es : List Dou) (d : Disk) (m : Mem) : WExt m (putAndLoad sc es d m).2.1 := by
  induction es generalizing d m with
  | nil => exact WExt.refl _
  | cons e es ih =>
    simp only [putAndLoad]
    split
    · exact WExt.refl _
    · split
      · exact WExt.refl _
      · rename_i r hr; exact (wExt_loadAndCache hr).trans (ih _ _)

theorem wExt_nextAddresses (d : Disk) (m : Mem) (sc a n : Nat) (int : Bool) :
    WExt m (nextAddresses d m sc a n int).mem ∧
    ∀ p, (nextAddresses d m sc a n int).pend = some p → PendKind (nextAddresses d m sc a n int).mem p := by
  unfold nextAddresses
  split
  · exact ⟨WExt.refl _, fun p hp => by cases hp⟩
  · rename_i m1 hl
    have h1 := wExt_loadAcct hl
    split
    · exact ⟨h1, fun p hp => by cases hp⟩
    · rename_i info _
      dsimp only
      split
      · exact ⟨h1, fun p hp => by cases hp⟩
      · split
        · exact ⟨h1, fun p hp => by cases hp⟩
        · have key := wExt_putAndLoad sc
            (mkAddrs m1 a (brOf int) (!m1.locked && !(m1.watchOnly || !info.hasEnc)) (nextOf info int) n).2 d
            (mkAddrs m1 a (brOf int) (!m1.locked && !(m1.watchOnly || !info.hasEnc)) (nextOf info int) n).1
          have hm := wExt_mkAddrs m1 a (brOf int) (!m1.locked && !(m1.watchOnly || !info.hasEnc)) (nextOf info int) n
          have hk := mkAddrs_kind m1 a (brOf int) (!m1.locked && !(m1.watchOnly || !info.hasEnc)) (nextOf info int) n
          split
          · rename_i hp; rw [hp] at key; simp only at key
            exact ⟨h1.trans (hm.trans key), fun p hp => by cases hp⟩
          · rename_i hp; rw [hp] at key; simp only at key
            refine ⟨h1.trans (hm.trans key), fun p hp => ?_⟩
            simp only [Option.some.injEq] at hp
            subst hp
            exact PendKind.ext (p := ⟨sc, a, int, nextOf info int + n, _, m1.watchOnly || !info.hasEnc⟩) hk key

theorem wExt_cacheNew (sc : Nat) (w : Bool) (m : Mem) (e : Dou) : WExt m (cacheNew sc w m e) := wExt_updScope _ _ _ rfl

theorem wExt_foldl {α} (l : List α) (m : Mem) (f : Mem → α → Mem) (hf : ∀ m a, WExt m (f m a)) :
    WExt m (l.foldl f m) := by
  induction l generalizing m with
  | nil => exact WExt.refl _
  | cons a t ih => simp only [List.foldl]; exact (hf m a).trans (ih _)

theorem lastOK_setNext {m : Mem} {ai : AcctInfo} (h : LastOK m ai) (int : Bool) (idx obj : Nat)
    (ho : obj < m.heapN ∧ (m.heap obj).kind = .managed) : LastOK m (setNext ai int idx obj) := by
  unfold setNext
  split
  · exact ⟨h.1, ho⟩
  · exact ⟨ho, h.2⟩

theorem wExt_setNext (m : Mem) (sc a : Nat) (ai : AcctInfo) (hai : acctInfoOf m sc a = some ai) (int : Bool) (idx obj : Nat)
    (ho : obj < m.heapN ∧ (m.heap obj).kind = .managed) :
    WExt m (m.updScope sc fun s => { s with acctInfo := aset s.acctInfo a (setNext ai int idx obj) }) :=
  wExt_setInfo m sc a _ fun hl => lastOK_setNext (hl sc (a, ai) (aget_of_mem_some hai)) int idx obj ho

theorem wExt_runPend (cfg : Cfg) (m : Mem) (p : Pend) (hk : PendKind m p) : WExt m (runPend cfg m p) := by
  unfold runPend
  dsimp only
  have hm0 : WExt m (if (cfg.f13 && m.locked) = true then
      { m with heap := fun id =>
          if (p.infos.any (fun e => e.obj == id) && (m.heap id).kind == .managed) = true then { m.heap id with ct := false }
          else m.heap id }
      else m) := by
    split
    · exact wExt_heapMap _ _ (fun id => by dsimp only; split <;> rfl) rfl (same_lasts rfl)
    · exact WExt.refl _
  have h1 := fun m0 => wExt_foldl p.infos m0 (cacheNew p.scope p.watchOnly) (wExt_cacheNew _ _)
  split
  · rename_i last ai hlast hai
    have hk1 := hk.ext (hm0.trans (h1 _))
    exact hm0.trans ((h1 _).trans (wExt_setNext _ _ _ _ hai _ _ _ (hk1 last (List.mem_of_getLast? hlast))))
  · exact hm0.trans (h1 _)

theorem wExt_foldl_runPend (cfg : Cfg) (ps : List Pend) (m : Mem) (hk : ∀ p ∈ ps, PendKind m p) :
    WExt m (ps.foldl (runPend cfg) m) := by
  induction ps generalizing m with
  | nil => exact WExt.refl _
  | cons p ps ih =>
    simp only [List.foldl]
    have h1 := wExt_runPend cfg m p (hk p List.mem_cons_self)
    exact h1.trans (ih _ (fun q hq => (hk q (List.mem_cons_of_mem _ hq)).ext h1))

theorem mkAddrs_scopes' (m : Mem) (a b : Nat) (p : Bool) (start n : Nat) : (mkAddrs m a b p start n).1.scopes = m.scopes := by
  induction n generalizing m start with
  | zero => rfl
  | succ n ih => simp only [mkAddrs]; rw [ih]; rfl

theorem cacheNew_acctInfo (sc : Nat) (w : Bool) (m : Mem) (e : Dou) (sc' : Nat) :
    ((cacheNew sc w m e).scopes sc').acctInfo = (m.scopes sc').acctInfo := by
  unfold cacheNew
  simp only [Mem.updScope]
  split
  · rename_i h; rw [h]
  · rfl

theorem foldl_cacheNew_acctInfo (sc : Nat) (w : Bool) (m : Mem) (es : List Dou) (sc' : Nat) :
    ((es.foldl (cacheNew sc w) m).scopes sc').acctInfo = (m.scopes sc').acctInfo := by
  induction es generalizing m with
  | nil => rfl
  | cons e es ih => simp only [List.foldl]; rw [ih, cacheNew_acctInfo]

theorem wExt_extend (cfg : Cfg) (d : Disk) (m : Mem) (sc a li : Nat) (int : Bool) :
    WExt m (extendAddresses cfg d m sc a li int).2.1 := by
  unfold extendAddresses
  split
  · exact WExt.refl _
  · rename_i m1 hl
    have h1 := wExt_loadAcct hl
    split
    · exact h1
    · rename_i info hinfo
      dsimp only
      have h2 := fun (l : List Dou) (m0 : Mem) (w : Bool) => wExt_foldl l m0 (cacheNew sc w) (wExt_cacheNew _ _)
      split
      · exact h1
      · split
        · exact h1
        · split
          · exact h1
          · split
            · exact h1.trans (wExt_mkAddrs ..)
            · split
              · exact h1.trans ((wExt_mkAddrs ..).trans (h2 _ _ _))
              · rename_i last hlast
                dsimp only
                have hk := mkAddrs_kind m1 a (brOf int) (!m1.locked && !extWatch cfg m1 info) (nextOf info int)
                  (li + 1 - nextOf info int)
                have hf := h2 (mkAddrs m1 a (brOf int) (!m1.locked && !extWatch cfg m1 info) (nextOf info int)
                  (li + 1 - nextOf info int)).2 (mkAddrs m1 a (brOf int) (!m1.locked && !extWatch cfg m1 info)
                  (nextOf info int) (li + 1 - nextOf info int)).1 (extWatch cfg m1 info)
                have hk1 := PendKind.ext (p := ⟨sc, a, int, 0, _, false⟩) hk hf
                have hai : acctInfoOf (List.foldl (cacheNew sc (extWatch cfg m1 info))
                    (mkAddrs m1 a (brOf int) (!m1.locked && !extWatch cfg m1 info) (nextOf info int)
                      (li + 1 - nextOf info int)).1
                    (mkAddrs m1 a (brOf int) (!m1.locked && !extWatch cfg m1 info) (nextOf info int)
                      (li + 1 - nextOf info int)).2) sc a = some info := by
                  unfold acctInfoOf
                  rw [foldl_cacheNew_acctInfo, mkAddrs_scopes']; exact hinfo
                exact h1.trans ((wExt_mkAddrs ..).trans (hf.trans
                  (wExt_setNext _ _ _ _ hai _ _ _ (hk1 last (List.mem_of_getLast? hlast)))))

/-! ### the remaining operations -/

theorem wExt_query (d : Disk) (m : Mem) (q : Query) : WExt m (query d m q).1 := by
  cases q <;> simp only [query]
  · split
    · exact WExt.refl _
    · rename_i r hr; exact wExt_addressOf hr
  · split
    · exact WExt.refl _
    · split
      · exact WExt.refl _
      · rename_i m1 hl; split <;> exact wExt_loadAcct hl
  · split
    · exact WExt.refl _
    · rename_i m1 hl; split
      · exact wExt_loadAcct hl
      · split <;> exact wExt_loadAcct hl
  · split <;> exact WExt.refl _
  · split <;> exact WExt.refl _
  · split
    · exact WExt.refl _
    · rename_i r hr; exact wExt_addressOf hr
  · exact WExt.refl _
  · split <;> exact WExt.refl _

theorem wExt_privKeyObj (m : Mem) (id : Nat) : WExt m (privKeyObj m id).1 := by
  unfold privKeyObj; dsimp only; repeat' split
  all_goals first | exact WExt.refl _ | (dsimp only; exact wExt_setObj _ _ _ (fun _ => rfl))

theorem wExt_scriptObj (m : Mem) (id : Nat) : WExt m (scriptObj m id).1 := by
  unfold scriptObj; dsimp only; repeat' split
  all_goals first | exact WExt.refl _ | (dsimp only; exact wExt_setObj _ _ _ (fun _ => rfl))

theorem wExt_deriveCache (cfg : Cfg) (m : Mem) (sc : Nat) (p : Path) : WExt m (deriveCache cfg m sc p).1 := by
  unfold deriveCache; dsimp only; repeat' split
  all_goals first | exact WExt.refl _ | (dsimp only; exact wExt_updScope _ _ _ rfl)

theorem wExt_derivePath (d : Disk) (m : Mem) (sc a b i : Nat) : WExt m (derivePath d m sc a b i).1 := by
  unfold derivePath; split
  · exact WExt.refl _
  · rename_i r hr; exact (wExt_chainRow hr).trans (wExt_privKeyObj ..)

theorem wExt_importKey (d : Disk) (m : Mem) (sc k : Nat) (p : Bool) : WExt m (importKey d m sc k p).2.1 := by
  unfold importKey; dsimp only; repeat' split
  all_goals first | exact WExt.refl _ | (dsimp only; exact (wExt_alloc _ _).trans (wExt_updScope _ _ _ rfl))

theorem wExt_importScript (d : Disk) (m : Mem) (sc kind sid : Nat) (p : Bool) :
    WExt m (importScript d m sc kind sid p).2.1 := by
  unfold importScript; dsimp only; repeat' split
  all_goals first | exact WExt.refl _ | (dsimp only; exact (wExt_alloc _ _).trans (wExt_updScope _ _ _ rfl))

theorem wExt_rename (d : Disk) (m : Mem) (sc a : Nat) (n : String) : WExt m (renameAccount d m sc a n).2.1 := by
  unfold renameAccount; dsimp only; repeat' split
  all_goals first | exact WExt.refl _ | skip
  rename_i ai hai
  exact wExt_setInfo _ _ _ _ fun hl => lastOK_congr rfl rfl (hl sc (a, ai) (aget_of_mem_some hai))

theorem wExt_markUsed (d : Disk) (m : Mem) (sc : Nat) (k : AKey) : WExt m (markUsed d m sc k).2 := by
  unfold markUsed; dsimp only; exact wExt_updScope _ _ _ rfl

theorem wExt_setSynced (d : Disk) (m : Mem) (h x : Nat) : WExt m (setSyncedTo d m h x).2.1 := by
  unfold setSyncedTo; split
  · exact WExt.refl _
  · exact wExt_heap rfl rfl rfl

/-! ### lock / unlock / passphrase change / conversion -/

theorem wExt_lockMem (cfg : Cfg) (m : Mem) : WExt m (lockMem cfg m) :=
  wExt_heapMap _ _ (fun id => by simp only [lockMem]; split <;> rfl) rfl
    (map_lasts (fun p => (p.1, { p.2 with keyPriv := false })) (fun _ => ⟨rfl, rfl⟩) (fun _ => rfl))

theorem wExt_unlockDou (cfg : Cfg) (d : Disk) (sc : Nat) (es : List Dou) (m : Mem) :
    WExt m (unlockDou cfg d sc es m).1 := by
  induction es generalizing m with
  | nil => exact WExt.refl _
  | cons e es ih =>
    simp only [unlockDou]
    split
    · exact WExt.refl _
    · rename_i m1 hl
      have h1 := wExt_loadAcct hl
      split
      · split
        · exact h1.trans ((wExt_updScope _ _ _ rfl).trans (ih _))
        · exact h1
      · exact h1.trans ((wExt_setObj _ _ _ (fun o => by split <;> rfl)).trans ((wExt_updScope _ _ _ rfl).trans (ih _)))

theorem unlockAccts_lasts (cfg : Cfg) (l l' : List (Nat × AcctInfo)) (h : unlockAccts cfg l = some l') :
    ∀ p ∈ l', ∃ q ∈ l, p.2.lastExt = q.2.lastExt ∧ p.2.lastInt = q.2.lastInt := by
  induction l generalizing l' with
  | nil => simp [unlockAccts] at h; subst h; intro p hp; cases hp
  | cons x t ih =>
    obtain ⟨a, i⟩ := x
    simp only [unlockAccts] at h
    have step : ∀ (i' : AcctInfo), i'.lastExt = i.lastExt → i'.lastInt = i.lastInt →
        (unlockAccts cfg t).map ((a, i') :: ·) = some l' →
        ∀ p ∈ l', ∃ q ∈ (a, i) :: t, p.2.lastExt = q.2.lastExt ∧ p.2.lastInt = q.2.lastInt := by
      intro i' e1 e2 hm p hp
      cases ht : unlockAccts cfg t with
      | none => simp [ht] at hm
      | some t' =>
        simp [ht] at hm; subst hm
        simp only [List.mem_cons] at hp
        rcases hp with hp | hp
        · subst hp; exact ⟨(a, i), List.mem_cons_self, e1, e2⟩
        · obtain ⟨q, hq, e⟩ := ih t' ht p hp
          exact ⟨q, List.mem_cons_of_mem _ hq, e⟩
    (repeat' split at h) <;> first | exact step i rfl rfl h | exact step { i with keyPriv := true } rfl rfl h | cases h

theorem wExt_unlockScopes (cfg : Cfg) (d : Disk) (scs : List Nat) (m : Mem) :
    WExt m (unlockScopes cfg d scs m).1 := by
  induction scs generalizing m with
  | nil => exact WExt.refl _
  | cons sc rest ih =>
    simp only [unlockScopes]
    split
    · exact WExt.refl _
    · rename_i ai hai
      have h0 : WExt m (m.updScope sc fun s => { s with acctInfo := ai }) :=
        wExt_mk (Nat.le_refl _) (fun _ _ => rfl) (fun sc' p hp => by
          simp only [Mem.updScope] at hp
          by_cases hs : sc' = sc
          · subst hs; simp only [if_true] at hp; exact Or.inl (unlockAccts_lasts _ _ _ hai p hp)
          · simp only [hs, if_false] at hp; exact Or.inl ⟨p, hp, rfl, rfl⟩)
      have h1 := wExt_unlockDou cfg d sc ((m.updScope sc fun s => { s with acctInfo := ai }).scopes sc).dou
        (m.updScope sc fun s => { s with acctInfo := ai })
      split
      · rename_i m2 e heq; rw [heq] at h1; exact h0.trans h1
      · rename_i m2 heq; rw [heq] at h1; exact h0.trans (h1.trans (ih _))

theorem wExt_unlock (cfg : Cfg) (d : Disk) (m : Mem) (p : Nat) : WExt m (unlock cfg d m p).1 := by
  unfold unlock
  split
  · exact WExt.refl _
  · split
    · dsimp only
      split
      · exact wExt_heap rfl rfl rfl
      · exact WExt.trans (b := { m with saltZero := saltAfter cfg m p }) (wExt_heap rfl rfl rfl) (wExt_lockMem cfg _)
    · split
      · exact wExt_lockMem _ _
      · dsimp only
        have h0 : WExt m (unlockStart cfg m) := wExt_heap rfl rfl rfl
        have h1 := wExt_unlockScopes cfg d (List.range nScopes) (unlockStart cfg m)
        split
        · rename_i m2 heq; rw [heq] at h1; exact h0.trans h1
        · rename_i m2 e _ heq; rw [heq] at h1; exact h0.trans (h1.trans (wExt_lockMem _ _))
        · rename_i m2 heq; rw [heq] at h1; exact h0.trans (h1.trans (wExt_heap rfl rfl rfl))

theorem wExt_lockOp (cfg : Cfg) (m : Mem) : WExt m (lockOp cfg m).1 := by
  unfold lockOp
  split
  · exact WExt.refl _
  · split
    · exact WExt.refl _
    · exact wExt_lockMem _ _

theorem wExt_changePass (cfg : Cfg) (d : Disk) (m : Mem) (o n : Nat) (pr : Bool) :
    WExt m (changePass cfg d m o n pr).2.1 := by
  unfold changePass
  repeat' split
  all_goals first | exact WExt.refl _ | exact wExt_heap rfl rfl rfl

theorem wExt_convertWO (cfg : Cfg) (d : Disk) (m : Mem) : WExt m (convertWO cfg d m).2 := by
  unfold convertWO
  split
  · exact WExt.refl _
  · dsimp only
    have h1 : WExt m (if m.locked = true then m else lockMem cfg m) := by
      split
      · exact WExt.refl _
      · exact wExt_lockMem _ _
    generalize (if m.locked = true then m else lockMem cfg m) = m1 at h1 ⊢
    exact h1.trans (wExt_heapMap _ _ (fun id => by dsimp only; split <;> rfl) rfl
      (map_lasts (fun p => (p.1, { p.2 with hasEnc := false })) (fun _ => ⟨rfl, rfl⟩) (fun _ => rfl)))

/-! ### every operation -/

theorem exec_mem_wExt (s : State) (m : Mem) (hs : s.mem = some m) (op : Op) (m' : Mem)
    (h : (exec s m op).1.mem = some m') : WExt m m' := by
  cases op <;> simp only [exec] at h
  case create => rw [hs] at h; cases h; exact WExt.refl _
  case reopen => rw [hs] at h; cases h; exact WExt.refl _
  case begin => rw [hs] at h; cases h; exact WExt.refl _
  case commit => rw [hs] at h; cases h; exact WExt.refl _
  case rollback => rw [hs] at h; cases h; exact WExt.refl _
  case unlock => cases h; exact wExt_unlock ..
  case lock => cases h; exact wExt_lockOp ..
  case changePass => cases h; exact wExt_changePass ..
  case convertWO => cases h; exact wExt_convertWO ..
  case newAccount => split at h <;> (simp only [hs] at h; cases h; exact WExt.refl _)
  case rename => cases h; exact wExt_rename ..
  case next =>
    split at h <;> (simp only [] at h; cases h; exact (wExt_nextAddresses ..).1)
  case extend => cases h; exact wExt_extend ..
  case importKey => cases h; exact wExt_importKey ..
  case importScript => cases h; exact wExt_importScript ..
  case markUsed => cases h; exact wExt_markUsed ..
  case setSynced => cases h; exact wExt_setSynced ..
  case setBirthday => simp only [hs] at h; cases h; exact WExt.refl _
  case privKey =>
    split at h
    · simp only [hs] at h; cases h; exact WExt.refl _
    · rename_i r hr; simp only [] at h; cases h; exact (wExt_addressOf hr).trans (wExt_privKeyObj ..)
  case lastPrivKey sc acct int =>
    have hq := wExt_query s.disk m (.lastAddr sc acct int)
    split at h
    · rename_i m1 k a hm
      rw [hm] at hq
      split at h <;> (simp only [] at h; cases h)
      · exact hq.trans (wExt_privKeyObj ..)
      · exact hq
    · rename_i m1 e hm; rw [hm] at hq; simp only [] at h; cases h; exact hq
    · rename_i m1 _ _ hm; rw [hm] at hq; simp only [] at h; cases h; exact hq
  case script =>
    split at h
    · simp only [hs] at h; cases h; exact WExt.refl _
    · rename_i r hr; simp only [] at h; cases h; exact (wExt_addressOf hr).trans (wExt_scriptObj ..)
  case crypt => simp only [hs] at h; cases h; exact WExt.refl _
  case derive => cases h; exact wExt_derivePath ..
  case deriveCache => cases h; exact wExt_deriveCache ..
  case q => cases h; exact wExt_query ..

/-- the closure registered by `.next` satisfies `PendKind` in the memory the op leaves -/
theorem exec_next_pendKind (s : State) (m : Mem) (sc a n : Nat) (int : Bool) (m' : Mem)
    (h : (exec s m (.next sc a n int)).1.mem = some m') :
    ∀ p ∈ (exec s m (.next sc a n int)).1.pend, p ∈ s.pend ∨ PendKind m' p := by
  have key := (wExt_nextAddresses s.disk m sc a n int).2
  simp only [exec] at h ⊢
  have hm : m' = (nextAddresses s.disk m sc a n int).mem := by
    split at h <;> (simp only [] at h; cases h; rfl)
  have hp : ∀ p ∈ (match (nextAddresses s.disk m sc a n int).pend with
      | some p => s.pend ++ [p] | none => s.pend), p ∈ s.pend ∨ PendKind m' p := by
    intro p hp
    cases hq : (nextAddresses s.disk m sc a n int).pend with
    | none => rw [hq] at hp; exact Or.inl hp
    | some q =>
      rw [hq] at hp
      simp only [List.mem_append, List.mem_singleton] at hp
      rcases hp with hp | hp
      · exact Or.inl hp
      · right; rw [hp, hm]; exact key q hq
  split <;> exact hp

end AddrLock
