import BtcwVerif.Model.AddrTx
import BtcwVerif.Model.AddrWallet
-- engine: addrmgr-derive
import Driver.Proto
open Proto AddrDerive AddrSym

namespace EngAddrDerive

/-- the free HD instance: a key is the list of child numbers from its root (`[0]` = the seed's master key,
    `[1000000+x]` = foreign account key number `x`); every child is valid, hardened children only from private keys. -/
abbrev Key := List Nat

def freeHD : HD Key Key :=
  { child := fun k i => some (k ++ [i]), neuter := id, pubChild := fun p i => if i < H then some (p ++ [i]) else none }

structure DS where
  st : State Key Key

def parseScope (s : String) : Option Scope :=
  match s.splitOn ":" with
  | [a, b] => do pure ((← a.toNat?), (← b.toNat?))
  | _ => none

def parseSchema (s : String) : Option (Option Schema) :=
  if s == "-" then some none else
  match s.splitOn "/" with
  | [a, b] => do
    let e ← AddrType.ofCode (← a.toNat?)
    let i ← AddrType.ofCode (← b.toNat?)
    pure (some ⟨e, i⟩)
  | _ => none

def parseBool (s : String) : Option Bool := if s == "1" then some true else if s == "0" then some false else none

/-- resolve an address reference against the model state (what the Go harness does with its derivation oracle) -/
def resolveRef (s : State Key Key) (sc : Scope) (r : String) : Option (AddrId Key) :=
  match r.splitOn ":" with
  | ["c", a, b, i] => do
    let a ← a.toNat?; let b ← b.toNat?; let i ← i.toNat?
    let sd ← getSD s sc
    let row ← alookup sd.accts a
    let (pub, sch) := match row with
      | .dflt pub _ _ _ _ => (pub, sd.schema)
      | .wo pub _ _ _ _ schema _ => (pub, schema.getD sd.schema)
    let typ := if b == 1 then sch.int else sch.ext
    let p ← derive2pub freeHD pub b i
    pure (.key (.hd p) (idClass typ) true)
  | ["k", id, comp] => do
    let id ← id.toNat?; let comp ← parseBool comp
    let sd ← getSD s sc
    let typ := sd.schema.ext
    pure (.key (.imp id) (idClass typ) (comp || typ == .p2tr))
  | ["s", id, kind] => do pure (.scr (← id.toNat?) (← kind.toNat?))
  | _ => none

def refDesc (sc : Scope) (r : String) : Option String :=
  match r.splitOn ":" with
  | ["c", a, b, i] => some (scStr sc ++ ":" ++ a ++ ":" ++ b ++ ":" ++ i)
  | ["k", id, _] => some ("k" ++ id)
  | ["s", id, _] => some ("s" ++ id)
  | _ => none

def b01 (b : Bool) : String := if b then "1" else "0"

def showInfo (i : Info) : String :=
  s!"{i.scope.1}:{i.scope.2}/{i.acct}/{i.acctChild}/{i.branch}/{i.index}/fp{i.fp}/t{i.typ}/m{b01 i.imported}/i{b01 i.internal}/c{b01 i.compressed}/s{b01 i.isScript}"

def showRes : Res Key → String
  | .err e => "err " ++ e.str
  | .panic => "panic"
  | .ok => "ok"
  | .acct n => s!"ok acct={n}"
  | .addrs l => "ok " ++ joinWith "," (l.map showInfo)
  | .addr i => "ok " ++ showInfo i
  | .key (.hd _) => "ok key=hd"
  | .key (.imp id) => s!"ok key=imp:{id}"
  | .script id => s!"ok script={id}"
  | .props ne ni name wo => s!"ok props={ne}:{ni}:{name}:{b01 wo}"

def showRows (rows : List Row) : String :=
  joinWith " ;; " ((rows.map Row.str).mergeSort (fun a b => a ≤ b))

def parseOp (s : State Key Key) (t : List String) : Option (Op Key Key) :=
  let g := kv t
  let n := fun k => (g k).bind String.toNat?
  let sc := (g "s").bind parseScope
  match t.head? with
  | some "unlock" => do pure (.unlock (← n "p"))
  | some "lock" => some .lock
  | some "chpass" => do pure (.changePass (← (g "priv").bind parseBool) (← n "old") (← n "new"))
  | some "newscope" => do
    pure (.newScope (← sc) ⟨← (n "ext").bind AddrType.ofCode, ← (n "int").bind AddrType.ofCode⟩)
  | some "newacct" => do pure (.newAccount (← sc) (← n "name"))
  | some "newxpub" => do
    pure (.newAccountWO (← sc) (← n "name") [1000000 + (← n "x")] (← n "ci") (← n "fp") (← (g "schema").bind parseSchema))
  | some "next" => do pure (.next (← sc) (← n "a") (← n "n") (← (g "int").bind parseBool) (← n "h"))
  | some "extend" => do pure (.extend (← sc) (← n "a") (← n "last") (← (g "int").bind parseBool))
  | some "lookup" => do pure (.lookup (← sc) (← resolveRef s (← sc) (← g "ref")) (← n "h"))
  | some "markused" => do pure (.markUsed (← sc) (← resolveRef s (← sc) (← g "ref")) (← refDesc (← sc) (← g "ref")))
  | some "derive" => do pure (.derive (← sc) (← n "a") (← n "ac") (← n "b") (← n "i") (← n "h"))
  | some "importpriv" => do pure (.importPriv (← sc) (← n "k") (← (g "comp").bind parseBool) (← n "h"))
  | some "importpub" => do pure (.importPub (← sc) (← n "k") (← n "h"))
  | some "importscript" => do
    pure (.importScript (← sc) (← n "k") (← n "kind") (← (g "secret").bind parseBool) (← n "h"))
  | some "privkey" => do pure (.privKey (← n "h"))
  | some "script" => do pure (.script (← n "h"))
  | some "info" => do pure (.info (← n "h"))
  | some "props" => do pure (.props (← sc) (← n "a"))
  | some "restart" => some .restart
  | some "convertwo" => some .convertWO
  | some "dcache" => do pure (.deriveCache (← sc) (← n "a") (← n "ac") (← n "b") (← n "i"))
  | some "rename" => do pure (.rename (← sc) (← n "a") (← n "name"))
  | _ => none

-- ---------------------------------------------------------------------------------------------------------
-- the wallet-level scenario `wmigrate` (two starts of a real `wallet.Wallet` with `InitAccounts`, then a third open)

abbrev St := State Key Key

def st (s : St) (op : Op Key Key) : St × Res Key := let r := step Cfg.fixed freeHD s op; (r.1, r.2.1)

def resStr : Res Key → String
  | .err e => "err:" ++ e.str
  | .panic => "panic"
  | _ => "ok"

def isKeyRes : Res Key → Bool
  | .key _ => true
  | _ => false

/-- `NextExternalAddresses(a,1)` and `NextInternalAddresses(a,1)` for the accounts `0 … n`; the ids of what was issued -/
def wIssue (sc : Scope) : List Nat → St → List (AddrId Key) → St × List (AddrId Key)
  | [], s, ids => (s, ids)
  | a :: t, s, ids =>
    let one := fun (s : St) (ids : List (AddrId Key)) (int : Bool) =>
      let (s1, r) := st s (.next sc a 1 int 1)
      match r, objOfHandle s1 1 with
      | .addrs _, some (.key o) => (s1, ids ++ [chainId o])
      | _, _ => (s1, ids)
    let (s1, ids1) := one s ids false
    let (s2, ids2) := one s1 ids1 true
    wIssue sc t s2 ids2

/-- `Wallet.DeriveFromKeyPath(scope, path)`: the cache path, else `DeriveFromKeyPath` + `PrivKey()` -/
def wDerive (sc : Scope) (a ac b i : Nat) (s : St) : St × Bool :=
  let (s1, r) := st s (.deriveCache sc a ac b i)
  if isKeyRes r then (s1, true) else
  let (s2, r2) := st s1 (.derive sc a ac b i 2)
  match r2 with
  | .addr _ => let (s3, r3) := st s2 (.privKey 2); (s3, isKeyRes r3)
  | _ => (s2, false)

def wDeriveAll (sc : Scope) (ac : Nat) : List (Nat × Nat × Nat) → St → Nat → St × Nat
  | [], s, k => (s, k)
  | (a, b, i) :: t, s, k =>
    let (s1, ok) := wDerive sc a ac b i s
    wDeriveAll sc ac t s1 (if ok then k + 1 else k)

/-- the third open: every issued address is looked up (`known`), its private key asked for (`priv`) -/
def wProbe (sc : Scope) : List (AddrId Key) → St → Nat → Nat → St × Nat × Nat
  | [], s, kn, pr => (s, kn, pr)
  | id :: t, s, kn, pr =>
    let (s1, r) := st s (.lookup sc id 3)
    match r with
    | .addr _ =>
      let (s2, r2) := st s1 (.privKey 3)
      wProbe sc t s2 (kn + 1) (if isKeyRes r2 then pr + 1 else pr)
    | _ => wProbe sc t s1 kn pr

def wPaths (n : Nat) : List (Nat × Nat × Nat) :=
  ((List.range (n + 1)).map fun a => [(a, 0, 0), (a, 1, 0), (a, 0, 1)]).flatten

def wScenario (sc : Scope) (n1 : Nat) (w1 : Bool) (n2 : Nat) (w2 : Bool) (ac : Nat) : String :=
  -- first start
  let (s, _) := st emptyState (.create [0])
  let (s, _) := st s (.unlock 0)
  let r := opInitAccounts Cfg.fixed freeHD s sc w1 n1
  let (s, i1) := (r.1, r.2.1)
  let (s, ids) := wIssue sc (List.range (n1 + 1)) s []
  -- `Wallet.DeriveFromKeyPath` for every account, twice (second round: all from the manager's caches)
  let (s, dk1) := wDeriveAll sc ac (wPaths n1) s 0
  let (s, dk) := wDeriveAll sc ac (wPaths n1) s dk1
  -- second start
  let (s, _) := st s .restart
  let (s, u2) := st s (.unlock 0)
  let r := opInitAccounts Cfg.fixed freeHD s sc w2 n2
  let (s, i2) := (r.1, r.2.1)
  let (s, ids) := wIssue sc (List.range (n2 + 1)) s ids
  -- third start
  let (s, _) := st s .restart
  let wo := s.mem.watchOnly
  let (s, u3) := st s (.unlock 0)
  let (_, kn, pr) := wProbe sc ids s 0 0
  s!"ok init1={resStr i1} dk={dk} unlock2={resStr u2} init2={resStr i2} wo={b01 wo} unlock3={resStr u3} issued={ids.length} known={kn} priv={pr} || "

def stepLine (d : DS) (line : String) : DS × String :=
  let t := words line
  match t.head? with
  | some "create" =>
    -- (`q=` lists what the Go engine's probes saw on the working tree; the model is the fixed tree whatever it says,
    --  so a reverted fix shows up as a disagreement on top of the Go oracle's violation)
    let (s, r, rows) := step Cfg.fixed freeHD emptyState (.create [0])
    ({ st := s }, showRes r ++ " || " ++ showRows rows)
  | some "wmigrate" =>
    -- self-contained (its own wallet): `InitAccounts` on two consecutive starts, then what a third open shows
    match ((kv t "s").bind parseScope), ((kv t "n1").bind String.toNat?), ((kv t "w1").bind parseBool),
          ((kv t "n2").bind String.toNat?), ((kv t "w2").bind parseBool), ((kv t "ac").bind String.toNat?) with
    | some sc, some n1, some w1, some n2, some w2, some ac =>
      if n1 > 8 || n2 > 8 then (d, "bad-op") else (d, wScenario sc n1 w1 n2 w2 ac)
    | _, _, _, _, _, _ => (d, "bad-op")
  | some "recreate" =>
    -- a second wallet created from the same seed issues the same addresses (C03_recreate_same): the model's
    -- issuance is a function of the root key alone, so the answer is constant
    if !d.st.created then (d, "err notcreated || ") else
    if d.st.poisoned then (d, "err poisoned || ") else (d, "ok || ")
  | some "rectx" =>
    -- the transaction store records a transaction paying to an address: no address-manager row, the wtxmgr rows
    -- (after " ## ") show the address id in the clear
    if !d.st.created then (d, "err notcreated || ") else
    if d.st.poisoned then (d, "err poisoned || ") else
    match ((kv t "s").bind parseScope), (kv t "ref") with
    | some sc, some r =>
      match refDesc sc r with
      | none => (d, "bad-op")
      | some desc =>
        let (s, res, rows) := wstep Cfg.fixed freeHD d.st (.recordTx desc)
        ({ st := s }, showRes res ++ " || " ++ showRows ((rows.filter (·.1 == Ns.waddrmgr)).map (·.2)) ++ " ## " ++
          showRows ((rows.filter (·.1 == Ns.wtxmgr)).map (·.2)))
    | _, _ => (d, "bad-op")
  | _ =>
    if !d.st.created then (d, "err notcreated || ") else
    if d.st.poisoned then (d, "err poisoned || ") else
    match parseOp d.st t with
    | none => (d, "bad-op")
    | some op =>
      let (s, r, rows) := step Cfg.fixed freeHD d.st op
      ({ st := s }, showRes r ++ " || " ++ showRows rows)

def run (i o : IO.FS.Stream) : IO Unit := loop i o ({ st := emptyState } : DS) stepLine

end EngAddrDerive
