import BtcwVerif.Model.Kahn
-- engine: kahn
import Driver.Proto
open Proto Kahn

/-! Engine `kahn` (C14).  Go's map iteration order is not observable, so the tie is *output-set membership*:
the op line carries the order the REAL code returned (`got=`); the driver answers with the verdict of the
specification functions (`Kahn.isPerm`, `Kahn.parentsFirst`) on it and, for graphs of at most 5 transactions,
whether it is one of the outputs of the model `Kahn.dependencySort` over ALL pairs of iteration orders.

    sort|unmined [cr=none|all|odd|first] txs=<id:ph.idx/ph.idx;id:;...> got=<id,id,...>
    -> n=<n> perm=<0|1> pf=<0|1> member=<0|1|na> -/
namespace EngKahn

def parseIn (p : String) : Option (Nat × Nat) :=
  match p.splitOn "." with
  | [a, b] => do
    let a ← a.toNat?
    let b ← b.toNat?
    pure (a, b)
  | _ => none

def parseTx (s : String) : Option Tx :=
  match s.splitOn ":" with
  | [id, ins] => do
    let h ← id.toNat?
    let ins ← if ins.isEmpty then some [] else (ins.splitOn "/").mapM parseIn
    pure ⟨h, ins⟩
  | _ => none

def parseTxs (s : String) : Option (List Tx) :=
  if s.isEmpty then some [] else (s.splitOn ";").mapM parseTx

/-- All outputs (as hash lists) of the model over every `txOrder` and every `rootOrder`, without repeats. -/
def allOutputs (S : List Tx) : List (List Nat) :=
  let ros := perms (hashes S)
  (perms S).foldl (fun acc txOrder =>
    ros.foldl (fun acc ro =>
      let o := hashes (dependencySort txOrder ro)
      if acc.contains o then acc else o :: acc) acc) []

def b (x : Bool) : String := if x then "1" else "0"

abbrev Cache := String × List (List Nat)

def memberLimit : Nat := 5

def step (c : Cache) (line : String) : Cache × String :=
  let t := words line
  match t with
  | op :: rest =>
    if op != "sort" && op != "unmined" then (c, "bad-op") else
    -- `cr=` (which outputs are wallet credits) only exists for the store path and does not influence the order
    if (match kv rest "cr" with
        | some m => op != "unmined" || !(["none", "all", "odd", "first"].contains m)
        | none => false) then (c, "bad-op") else
    match kv rest "txs", kv rest "got" with
    | some txsS, some gotS =>
      match parseTxs txsS, natList? gotS with
      | some S, some got =>
        if !((hashes S).eraseDups.length == S.length) then (c, "bad-op") else
        let head := s!"n={S.length} perm={b (isPerm S got)} pf={b (parentsFirst S got)}"
        if S.length ≤ memberLimit then
          let c' : Cache := if c.1 == txsS then c else (txsS, allOutputs S)
          (c', s!"{head} member={b (c'.2.contains got)}")
        else
          -- larger graphs: one run of the model with the identity orders must itself satisfy the spec
          let o := hashes (dependencySort S (hashes S))
          if isPerm S o && parentsFirst S o then (c, s!"{head} member=na") else (c, s!"{head} member=model-broken")
      | _, _ => (c, "bad-op")
    | _, _ => (c, "bad-op")
  | _ => (c, "bad-op")

def run (i o : IO.FS.Stream) : IO Unit := loop i o ("#none", []) step

end EngKahn
