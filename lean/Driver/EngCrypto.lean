import BtcwVerif.Model.Crypto
-- engine: crypto
import Driver.Proto
import Std.Data.HashSet
open Proto Crypto

/-! Driver for the `Crypto` model (C17), instantiated with the toy AEAD/KDF. Real nonces, salts and keys are
random in Go, so ops carry key *ids*, lengths and positions; replies are canonical kinds. -/
namespace EngCrypto

def hexVal (c : Char) : Option Nat :=
  if '0' ≤ c && c ≤ '9' then some (c.toNat - '0'.toNat)
  else if 'a' ≤ c && c ≤ 'f' then some (c.toNat - 'a'.toNat + 10)
  else none

def unhexAux : List Char → Option Bytes
  | [] => some []
  | [_] => none
  | a :: b :: rest => do
    let x ← hexVal a
    let y ← hexVal b
    let r ← unhexAux rest
    pure (UInt8.ofNat (x * 16 + y) :: r)

def unhex (s : String) : Option Bytes := unhexAux s.toList

def hexDigit (n : Nat) : Char := if n < 10 then Char.ofNat (48 + n) else Char.ofNat (87 + n)

def hex (b : Bytes) : String :=
  String.ofList (b.flatMap fun x => [hexDigit (x.toNat / 16), hexDigit (x.toNat % 16)])

/-- plaintext pattern shared with the Go engine. -/
def plain (len pat : Nat) : Bytes := (List.range len).map fun i => UInt8.ofNat (pat + i * 7 + i / 5)

structure SkEnt where
  id : Nat
  cur : SecretKey
  orig : Bytes

structure St where
  cts : Array (Bytes × Bytes) := #[]
  nonce : Nat := 0
  sks : List SkEnt := []
  disk : Option MgrDisk := none
  mgr : Option Mgr := none

def A := Toy.aead
def K := Toy.kdfI

def showErr : Err → String
  | .malformed => "err=malformed"
  | .decryptFailed => "err=decrypt"
  | .invalidPassword => "err=invalidpass"
  | .kdfParams => "err=kdf"
  | .goPanic => "panic"

def showMgrErr : MgrErr → String
  | .locked => "err=locked"
  | .invalidKeyType => "err=invalidkeytype"
  | .wrongPassphrase => "err=wrongpass"
  | .watchingOnly => "err=watchonly"
  | .crypto .goPanic => "panic"
  | .crypto .malformed => "err=crypto:malformed"
  | .crypto .decryptFailed => "err=crypto:decrypt"
  | .crypto .invalidPassword => "err=crypto:invalidpass"
  | .crypto .kdfParams => "err=crypto:kdf"

def keyOf (s : String) : Option Bytes :=
  if s == "zero" then some zeroKey else s.toNat?.map Toy.keyOfId

def natKV (t : List String) (k : String) : Option Nat := (kv t k).bind String.toNat?
def intKV (t : List String) (k : String) : Option Int := (kv t k).bind String.toInt?
def hexKV (t : List String) (k : String) : Option Bytes := (kv t k).bind unhex

/-- apply the tampering named on the op line to ciphertext `c`. `none` = malformed op. -/
def tamper (st : St) (t : List String) (c : Bytes) : Option Bytes := do
  let c ← match kv t "flip" with
    | none => some c
    | some s => do let i ← s.toNat?; if i < 8 * c.length then some (flipBit c i) else none
  let c ← match kv t "trunc" with
    | none => some c
    | some s => do let j ← s.toNat?; if j ≤ c.length then some (c.take j) else none
  let c ← match kv t "ext" with
    | none => some c
    | some s => do let e ← unhex s; some (c ++ e)
  let c ← match kv t "nonceof" with
    | none => some c
    | some s => do
      let j ← s.toNat?
      let (c2, _) ← st.cts[j]?
      some (c2.take nonceSize ++ c.drop nonceSize)
  some c

def showDec (r : Except Err Bytes) (pt : Bytes) : String :=
  match r with
  | .ok m => s!"ok len={m.length} eq={if m = pt then 1 else 0}"
  | .error e => showErr e

def showMgrDec (r : Except MgrErr Bytes) (pt : Bytes) : String :=
  match r with
  | .ok m => s!"ok len={m.length} eq={if m = pt then 1 else 0}"
  | .error e => showMgrErr e

def expensive (N R P : Int) : Bool := scryptCheck N R P == .ok && N * R * P > 65536

def keyState (cur orig : Bytes) : String :=
  if cur = orig then "same" else if cur = zeroKey then "zero" else "other"

def findSk (st : St) (id : Nat) : Option SkEnt := st.sks.find? (·.id == id)
def putSk (st : St) (e : SkEnt) : St := { st with sks := e :: st.sks.filter (·.id != e.id) }

/-- number of distinct elements of `(List.range total).map f`, computed one element at a time (nothing but the
packed results is kept alive: 10⁶ ciphertexts as `List UInt8` would be gigabytes). -/
def countDistinctRange (total : Nat) (f : Nat → Bytes) : Nat :=
  (Nat.fold total (fun i _ (s : Std.HashSet ByteArray) => s.insert (f i).toByteArray) {}).size

def showParams (p : Params) : String :=
  s!"N={p.N} R={p.R} P={p.P}"

def step (st : St) (line : String) : St × String :=
  let t := words line
  match t with
  | ["reset"] => ({}, "ok")
  | "enc" :: r =>
    match (kv r "k").bind keyOf, natKV r "len", natKV r "pat" with
    | some k, some len, some pat =>
      let pt := plain len pat
      let c := encryptWith A (Toy.nonceOfId st.nonce) k pt
      ({ st with cts := st.cts.push (c, pt), nonce := st.nonce + 1 }, s!"ok ct={st.cts.size} len={c.length}")
    | _, _, _ => (st, "bad-op")
  | "encpar" :: r =>
    -- g goroutines × per concurrent encryptions of one plaintext under one key: the model's answer is
    -- `encryptMany` over the nonces drawn (toy nonces st.nonce … st.nonce+total-1, pairwise distinct), whose
    -- ciphertexts are computed and counted here, not assumed: `C17_fresh_many` says the count is `total` for every schedule.
    match (kv r "k").bind keyOf, natKV r "len", natKV r "pat", natKV r "g", natKV r "per" with
    | some k, some len, some pat, some g, some per =>
      if g < 1 || g > 64 || per < 1 || per > 100000 || g * per > 1000000 || len > 4096 then (st, "bad-op") else
      let total := g * per
      let pt := plain len pat
      -- element i of `encryptMany A k pt ((List.range total).map fun i => Toy.nonceOfId (st.nonce + i))`
      -- (`Crypto.encryptMany_eq_map`)
      let ct := fun i => encryptWith A (Toy.nonceOfId (st.nonce + i)) k pt
      ({ st with nonce := st.nonce + total }, s!"ok n={total} distinct={countDistinctRange total ct}")
    | _, _, _, _, _ => (st, "bad-op")
  | "dec" :: r =>
    match (kv r "k").bind keyOf, (natKV r "ct").bind (st.cts[·]?) with
    | some k, some (c, pt) =>
      match tamper st r c with
      | some c' => (st, showDec (decrypt A k c') pt)
      | none => (st, "bad-op")
    | _, _ => (st, "bad-op")
  | "decraw" :: r =>
    match (kv r "k").bind keyOf, hexKV r "hex" with
    | some k, some c => (st, showDec (decrypt A k c) [])
    | _, _ => (st, "bad-op")
  | "cmp" :: r =>
    match (natKV r "a").bind (st.cts[·]?), (natKV r "b").bind (st.cts[·]?) with
    | some (a, _), some (b, _) =>
      (st, s!"eq={if a = b then 1 else 0} nonceeq={if a.take nonceSize = b.take nonceSize then 1 else 0}")
    | _, _ => (st, "bad-op")
  | "sknew" :: r =>
    match natKV r "id", hexKV r "pass", intKV r "N", intKV r "R", intKV r "P" with
    | some id, some pass, some N, some R, some P =>
      if expensive N R P then (st, "skipped") else
      match newSecretKey K (leBytes 32 (id + 1000)) pass N R P with
      | .ok sk => (putSk st ⟨id, sk, sk.key⟩, "ok")
      | .error e => (st, showErr e)
    | _, _, _, _, _ => (st, "bad-op")
  | "skmarshal" :: r =>
    match (natKV r "id").bind (findSk st) with
    | some e =>
      let b := e.cur.marshal
      let dec := fun off => ofU64 (leNat ((b.drop off).take 8))
      let rt := match unmarshal b with | .ok p => if p = e.cur.params then 1 else 0 | .error _ => 0
      (st, s!"ok len={b.length} N={dec 64} R={dec 72} P={dec 80} rt={rt}")
    | none => (st, "bad-op")
  | "skparams" :: r =>
    match hexKV r "salt", hexKV r "digest", intKV r "N", intKV r "R", intKV r "P" with
    | some salt, some digest, some N, some R, some P =>
      if salt.length != 32 || digest.length != 32 then (st, "bad-op") else
      (st, s!"ok hex={hex (marshal ⟨salt, digest, N, R, P⟩)}")
    | _, _, _, _, _ => (st, "bad-op")
  | "skunmarshal" :: r =>
    match hexKV r "hex" with
    | some b =>
      match unmarshal b with
      | .ok p => (st, s!"ok {showParams p} salt={hex p.salt} digest={hex p.digest} re={if marshal p = b then 1 else 0}")
      | .error e => (st, showErr e)
    | none => (st, "bad-op")
  | "skderive" :: r =>
    match (natKV r "id").bind (findSk st), hexKV r "pass", kv r "via" with
    | some e, some pass, some via =>
      let tampered := (kv r "xorbyte").isSome || (kv r "xorval").isSome
      let obj : Option (Except Err SecretKey) :=
        if via == "direct" then (if tampered then none else some (.ok e.cur.zero))
        else if via == "marshal" then
          let b := e.cur.marshal
          let b' : Option Bytes := match natKV r "xorbyte", natKV r "xorval" with
            | some i, some v => if i < b.length && 0 < v && v < 256 then some (b.modify i (· ^^^ UInt8.ofNat v)) else none
            | none, none => some b
            | _, _ => none
          b'.map SecretKey.unmarshal
        else none
      match obj with
      | none => (st, "bad-op")
      | some (.error er) => (st, showErr er)
      | some (.ok sk0) =>
        if expensive sk0.params.N sk0.params.R sk0.params.P then (st, "skipped") else
        match sk0.deriveKey K pass with
        | (_, .error .goPanic) => (st, "panic")
        | (sk, .error er) => ((if tampered then st else putSk st { e with cur := sk }), s!"{showErr er} key={keyState sk.key e.orig}")
        | (sk, .ok ()) => ((if tampered then st else putSk st { e with cur := sk }), s!"ok key={keyState sk.key e.orig}")
    | _, _, _ => (st, "bad-op")
  | "skenc" :: r =>
    match (natKV r "id").bind (findSk st), natKV r "len", natKV r "pat" with
    | some e, some len, some pat =>
      let pt := plain len pat
      let c := e.cur.encryptWith A (Toy.nonceOfId st.nonce) pt
      ({ st with cts := st.cts.push (c, pt), nonce := st.nonce + 1 }, s!"ok ct={st.cts.size} len={c.length}")
    | _, _, _ => (st, "bad-op")
  | "skdec" :: r =>
    match (natKV r "id").bind (findSk st), (natKV r "ct").bind (st.cts[·]?) with
    | some e, some (c, pt) =>
      match tamper st r c with
      | some c' => (st, showDec (e.cur.decrypt A c') pt)
      | none => (st, "bad-op")
    | _, _ => (st, "bad-op")
  | "mgrnew" :: r =>
    match natKV r "wo", hexKV r "pub", hexKV r "priv" with
    | some wo, some pub, some priv =>
      let n := st.nonce
      let rnd : CreateRand := {
        saltPub := leBytes 32 (5000 + n), saltPriv := leBytes 32 (5001 + n),
        keyPub := Toy.keyOfId (7000 + n), keyPriv := Toy.keyOfId (7001 + n), keyScript := Toy.keyOfId (7002 + n),
        nPub := Toy.nonceOfId n, nPriv := Toy.nonceOfId (n + 1), nScript := Toy.nonceOfId (n + 2) }
      match Mgr.create A K rnd pub (if wo == 1 then none else some priv) 16 8 1 with
      | .error e => (st, showErr e)
      | .ok d =>
        match Mgr.open_ A K d pub with
        | .error e => ({ st with disk := some d, mgr := none, nonce := n + 3 }, showMgrErr e)
        | .ok m => ({ st with disk := some d, mgr := some m, nonce := n + 3 }, "ok")
    | _, _, _ => (st, "bad-op")
  | "mgropen" :: r =>
    match st.disk, hexKV r "pub" with
    | some d, some pub =>
      match Mgr.open_ A K d pub with
      | .error e => ({ st with mgr := none }, showMgrErr e)
      | .ok m => ({ st with mgr := some m }, "ok")
    | _, _ => (st, "bad-op")
  | "mgrunlock" :: r =>
    match st.mgr, hexKV r "pass" with
    | some m, some pass =>
      match m.unlock A K pass with
      | (m', .ok ()) => ({ st with mgr := some m' }, s!"ok locked={if m'.locked then 1 else 0}")
      | (m', .error e) => ({ st with mgr := some m' }, s!"{showMgrErr e} locked={if m'.locked then 1 else 0}")
    | _, _ => (st, "bad-op")
  | ["mgrlock"] =>
    match st.mgr with
    | some m =>
      -- Manager.Lock: ErrWatchingOnly for watch-only, ErrLocked if already locked
      if m.watchOnly then (st, "err=watchonly")
      else if m.locked then (st, "err=locked")
      else ({ st with mgr := some m.lock }, "ok")
    | none => (st, "bad-op")
  | "mgrchpass" :: r =>
    match st.mgr, st.disk, natKV r "priv", hexKV r "old", hexKV r "new" with
    | some m, some d, some pv, some old, some new =>
      if pv > 1 then (st, "bad-op") else
      let n := st.nonce
      let rnd : ChangeRand := { salt := leBytes 32 (5000 + n), n1 := Toy.nonceOfId n, n2 := Toy.nonceOfId (n + 1) }
      match m.changePassphrase A K d rnd old new (pv == 1) 16 8 1 with
      | (m', d', .ok ()) => ({ st with mgr := some m', disk := some d', nonce := n + 2 }, "ok")
      | (_, _, .error e) => (st, showMgrErr e)
    | _, _, _, _, _ => (st, "bad-op")
  | "mgrenc" :: r =>
    match st.mgr, natKV r "kt", natKV r "len", natKV r "pat" with
    | some m, some kt, some len, some pat =>
      let pt := plain len pat
      match m.encrypt A kt (Toy.nonceOfId st.nonce) pt with
      | .ok c => ({ st with cts := st.cts.push (c, pt), nonce := st.nonce + 1 }, s!"ok ct={st.cts.size} len={c.length}")
      | .error e => (st, showMgrErr e)
    | _, _, _, _ => (st, "bad-op")
  | "mgrdec" :: r =>
    match st.mgr, natKV r "kt", (natKV r "ct").bind (st.cts[·]?) with
    | some m, some kt, some (c, pt) =>
      match tamper st r c with
      | some c' => (st, showMgrDec (m.decrypt A kt c') pt)
      | none => (st, "bad-op")
    | _, _, _ => (st, "bad-op")
  | _ => (st, "bad-op")

def run (i o : IO.FS.Stream) : IO Unit := loop i o ({} : St) step

end EngCrypto
