import BtcwVerif.Model.AddrIssue
-- engine: addrissue
import BtcwVerif.Gen.AddrSitesGen
import Driver.Proto
open Proto AddrIssue

/-! Driver engine for C09: replays the harness's coarse schedules on the `AddrIssue` model.  Whether a site holds
`w.newAddrMtx` is looked up in the table regenerated from the Go source (`AddrSitesGen.sites`). -/
namespace EngAddrIssue

structure St where
  mem : Idx
  disk : Idx
  used : List Nat
  broken : Bool := false

def siteHolds (name : String) : Option Bool :=
  (AddrSitesGen.sites.find? (·.name == name)).map (·.holdsMutex)

/-- caller program per harness kind -/
def callerOf (st : St) (kind : String) : Option Caller :=
  let mk (site : String) (f : Bool → Caller) : Option Caller := (siteHolds site).map f
  match kind with
  | "new" => mk "NewAddress" fun h => { holdsMutex := h, branch := .ext }
  | "change" => mk "NewChangeAddress" fun h => { holdsMutex := h, branch := .int }
  | "cur" => mk "CurrentAddress" fun h => { holdsMutex := h, branch := .ext, cond := true, used := st.used }
  | "tx" => mk "txToOutputs" fun h => { holdsMutex := h, branch := .int }
  | "tximp" => mk "txToOutputs" fun h => { holdsMutex := h, branch := .int }
  | "txdry" => mk "txToOutputs" fun h => { holdsMutex := h, branch := .int, dry := true }
  | "psbt" => mk "FundPsbt" fun h => { holdsMutex := h, branch := .int }
  | "import" => mk "ImportAccountDryRun" fun h => { holdsMutex := h, branch := .ext, skip := true, dry := true }
  | _ => none

def knownKind (k : String) : Bool :=
  ["new", "change", "cur", "tx", "tximp", "txdry", "psbt", "import"].contains k

def showIdx (m : Idx) : String := s!"{m.ext}/{m.int}"

def showState (st : St) : String := s!"mem={showIdx st.mem} disk={showIdx st.disk}"

def showRet (n : Nat) (σ : State) : String :=
  joinWith "," ((List.range n).map fun i => match σ.ret i with | some r => toString r | none => "-")

/-- run from a state with `mem ≠ disk` possible (after a duplicate-producing schedule) -/
def initFrom (st : St) : State := { AddrIssue.init st.disk with mem := st.mem }

def coarseFrom (cs : List Caller) (st : St) (sched : List Nat) : Coarse :=
  sched.foldl (coarseStep cs) { σ := initFrom st, started := fun _ => false, events := [] }

def step (s : Option St) (line : String) : Option St × String :=
  let t := words line
  match t with
  | [] => (s, "bad-op")
  | op :: rest =>
    if op == "reset" then (none, "ok") else
    match s with
    | none =>
      if op == "setup" then
        -- setup issues one external address (the funding address) with a single caller
        let σ := exec [{ holdsMutex := true, branch := .ext }] ⟨0, 0⟩ (List.replicate 16 0)
        let st : St := { mem := σ.mem, disk := σ.disk, used := [] }
        (some st, s!"ok {showState st}")
      else (none, "err no-setup")
    | some st =>
      if st.broken then (s, "broken incomplete") else
      match op with
      | "setup" => (s, "err already")
      | "rename" => (s, s!"ok {showState st}")   -- RenameAccount rewrites the account row; next indices unchanged
      | "markused" =>
        if st.mem.ext == 0 then (s, "none")
        else (some { st with used := (st.mem.ext - 1) :: st.used }, s!"ok idx={st.mem.ext - 1}")
      | "sched" =>
        match kv rest "c", kv rest "s" with
        | some c, some sch =>
          let kinds := c.splitOn ";"
          match natList? sch with
          | none => (s, "bad-op")
          | some sched =>
            if !kinds.all knownKind then (s, "bad-op") else
            match kinds.mapM (callerOf st) with
            | none => (s, "unknown-site")
            | some cs =>
              let k := coarseFrom cs st sched
              let st' : St := { st with mem := k.σ.mem, disk := k.σ.disk }
              if allDoneB cs k.σ then
                (some st', s!"ev={joinWith "," k.events} ret={showRet cs.length k.σ} {showState st'}")
              else
                (some { st' with broken := true }, s!"incomplete ev={joinWith "," k.events}")
        | _, _ => (s, "bad-op")
      | "race" =>
        match (kv rest "g").bind String.toNat?, (kv rest "m").bind String.toNat?, kv rest "mix" with
        | some g, some m, some mix =>
          let mixl := csv mix
          if g == 0 || m == 0 || mixl.isEmpty || g > 256 || m > 1000 || !mixl.all knownKind then (s, "bad-op") else
          -- all sites serialise (C09_safe): any complete schedule gives these totals; run the callers one after
          -- the other.  CurrentAddress re-evaluates its condition on every call.
          let kinds := (List.range g).flatMap fun j => List.replicate m (mixl.getD (j % mixl.length) "new")
          let st' := kinds.foldl (fun (st : St) k =>
            match callerOf st k with
            | none => st
            | some c =>
              let σ := run [c] (initFrom st) (List.replicate 16 0)
              { st with mem := σ.mem, disk := σ.disk }) st
          (some st', s!"ok errs=0 {showState st'}")
        | _, _, _ => (s, "bad-op")
      | _ => (s, "bad-op")

def run (i o : IO.FS.Stream) : IO Unit := loop i o (none : Option St) step

end EngAddrIssue
