import BtcwVerif.Model.Queue
-- engine: queue
import BtcwVerif.Gen.QueueGen
import Driver.Proto
open Proto Queue

/-!
Driver engine `queue` (C18).  The model is run under the table REGENERATED from chain/queue.go (`QueueGen.table`).

Stepwise ops (the harness is the only producer and consumer and lets the worker become quiescent between ops):
  `new cap=<n>` · `send <v>` · `recv` · `xfer <v>` (a consumer already waiting when `<v>` is sent) · `stop` · `len`
Free-running op: `stress cap=<n> n=<k> seed=<s> stop=<i|-1> …` — the model is run under a pseudo-random schedule
(all label kinds), the prefix/no-dup invariant is evaluated after every step, then the queue is drained.
-/
namespace EngQueue

abbrev St := Option (State Nat)

def tbl : Table := QueueGen.table

def settled (s : State Nat) : State Nat := settle tbl (settleFuel s) s

/-- Producer offers `v` and the environment is otherwise quiet. -/
def doSend (s : State Nat) (v : Nat) : State Nat × Bool :=
  match wstep tbl s (.recvIn v) with
  | some s' => (settled s', true)
  | none => (s, false)

/-- Consumer tries to receive (gives up after a while if nothing arrives). -/
def doRecv (s : State Nat) : State Nat × Option Nat :=
  match estep s .consume with
  | some s' => (settled s', s'.delivered.getLast?)
  | none =>
    match estep s .wait with
    | none => (s, none)
    | some s1 =>
      let s2 := settled s1
      if s2.waiting then ((estep s2 .unwait).getD s2, none) else (s2, s2.delivered.getLast?)

def showOpt : Option Nat → String
  | some v => toString v
  | none => "empty"

/-! #### pseudo-random schedule for `stress` -/

def lcg (r : Nat) : Nat := (r * 6364136223846793005 + 1442695040888963407) % 18446744073709551616

def isPrefixB : List Nat → List Nat → Bool
  | [], _ => true
  | _ :: _, [] => false
  | a :: as, b :: bs => a == b && isPrefixB as bs

structure Sim where
  s : State Nat
  next : Nat        -- next value the producer offers
  rng : Nat
  bad : Option String := none

def simStep (n : Nat) (stopAt : Option Nat) (m : Sim) : Sim :=
  let r := lcg m.rng
  let pick := (r / 65536) % 10
  let cand : List (Label Nat) :=
    (if m.next < n then [.w (.recvIn m.next)] else []) ++
    [.w .sendItem, .w .sendFront, .w .dflt, .e .consume, .e .wait] ++
    (if pick == 0 then [.e .unwait] else []) ++
    (if stopAt == some m.next || (stopAt.isSome && m.next == n) then [.e .stop] else []) ++
    (if pick < 3 then [.w .quit] else [])
  let en := cand.filterMap (fun l => (step tbl m.s l).map (fun s' => (l, s')))
  match en[(r / 1048576) % (max en.length 1)]? with
  | none => { m with rng := r }
  | some (l, s') =>
    let next := match l with | .w (.recvIn _) => m.next + 1 | _ => m.next
    let bad := if m.bad.isSome then m.bad
      else if !isPrefixB (s'.delivered ++ s'.out ++ s'.overflow) s'.accepted then some "not-prefix"
      else if s'.out.length > s'.cap then some "cap-exceeded"
      else none
    { s := s', next := next, rng := r, bad := bad }

def simLoop (n : Nat) (stopAt : Option Nat) : Nat → Sim → Sim
  | 0, m => m
  | f + 1, m =>
    if m.bad.isSome then m
    else if stopAt.isNone && m.s.delivered.length == n then m
    else if stopAt.isSome && m.s.pc == .exited then m
    else simLoop n stopAt f (simStep n stopAt m)

/-- Deterministic drain: settle, consume, … -/
def drain : Nat → State Nat → State Nat
  | 0, s => s
  | f + 1, s =>
    let s := settled s
    match (doRecv s) with
    | (s', some _) => drain f s'
    | (s', none) => s'

/-- Producer offers `lo … hi-1` one after the other while the consumer is idle. -/
def feed (s : State Nat) (lo hi : Nat) : State Nat :=
  (List.range (hi - lo)).foldl (fun s i => (doSend s (lo + i)).1) s

def stress (cap n seed : Nat) (stopAt : Option Nat) : String :=
  -- long runs: no random schedule (its per-step prefix check is quadratic), only "idle consumer, then drain"
  let m : Sim := if n ≤ 1000 then simLoop n stopAt (40 * n + 200) { s := init Nat cap, next := 0, rng := seed + 1 }
                 else { s := init Nat cap, next := 0, rng := 0 }
  match m.bad with
  | some b => s!"bad {b}"
  | none =>
    match stopAt with
    | none =>
      -- feed what the schedule has not sent yet, then drain
      let s := drain (2 * n + 4) (feed m.s m.next n)
      if s.delivered == List.range n && s.accepted == List.range n then s!"ok n={n}"
      else s!"bad delivered={s.delivered.length} accepted={s.accepted.length}"
    | some k =>
      let s := if m.s.quitClosed then m.s else (estep (feed m.s m.next (min k n)) .stop).getD m.s
      let s := settled s
      if s.pc == .exited && isPrefixB s.delivered s.accepted then "ok stopped" else "bad stop"

def step (st : St) (line : String) : St × String :=
  let t := words line
  match t, st with
  | "new" :: rest, _ =>
    match (kv rest "cap").bind String.toNat? with
    | some c => (some (init Nat c), s!"ok cap={c}")
    | none => (st, "bad-op")
  | ["send", v], some s =>
    match v.toNat? with
    | some v =>
      let (s', ok) := doSend s v
      (some s', (if ok then "ok" else "blocked") ++ s!" len={s'.out.length}")
    | none => (st, "bad-op")
  | ["recv"], some s =>
    let (s', r) := doRecv s
    (some s', (match r with | some v => s!"got {v}" | none => "empty") ++ s!" len={s'.out.length}")
  | ["xfer", v], some s =>
    match v.toNat? with
    | some v =>
      -- consumer first: takes a buffered value, or blocks; then the producer offers v
      match estep s .consume with
      | some s1 =>
        let got := s1.delivered.getLast?
        let (s2, ok) := doSend (settled s1) v
        (some s2, s!"xfer recv={showOpt got} send={if ok then "ok" else "blocked"} len={s2.out.length}")
      | none =>
        match estep s .wait with
        | none => (st, "bad-op")
        | some s1 =>
          let s1 := settled s1
          let (s2, ok) := doSend s1 v
          if s2.waiting then
            (some ((estep s2 .unwait).getD s2), s!"xfer recv=empty send={if ok then "ok" else "blocked"} len={s2.out.length}")
          else
            (some s2, s!"xfer recv={showOpt s2.delivered.getLast?} send={if ok then "ok" else "blocked"} len={s2.out.length}")
    | none => (st, "bad-op")
  | ["stop"], some s =>
    match estep s .stop with
    | none => (st, "panic")
    | some s' =>
      let s' := settled s'
      (some s', s!"stopped exited={if s'.pc == .exited then 1 else 0}")
  | ["len"], some s => (st, s!"len n={s.out.length} cap={s.cap}")
  | "stress" :: rest, _ =>
    match (kv rest "cap").bind String.toNat?, (kv rest "n").bind String.toNat?, (kv rest "seed").bind String.toNat?,
          (kv rest "stop").bind String.toInt? with
    | some c, some n, some seed, some sa =>
      (st, stress c n seed (if sa < 0 then none else some sa.toNat))
    | _, _, _, _ => (st, "bad-op")
  | _, _ => (st, "bad-op")

def run (i o : IO.FS.Stream) : IO Unit := loop i o none step

end EngQueue
