import BtcwVerif.Model.Recovery
import BtcwVerif.Lemmas.RecoveryComplete
-- engine: walletchain-recovery
import Driver.Proto
open Proto Recovery

namespace EngRecovery

structure St where
  br      : Branch := Branch.new 0                 -- (a) single BranchRecoveryState under test
  scopes  : List Nat := []
  blocks  : List (Nat × Block) := []               -- (b) best chain above genesis: (height, block)
  done    : Nat := 0                                -- number of blocks already scanned by the wallet
  rs      : Option State := none                    -- wallet-side recovery/persistent state
  batch   : Nat := 2000
  mem     : List Tx := []                           -- unmined transactions handed to the wallet (rmempool), for `m<id>`
  hyp     : Bool := true    -- the hypotheses of C16_complete / C16_complete_resumed held for every scan so far
  tainted : Bool := false   -- an injected FilterBlocks failure fired: in-process retry is outside the model (finding)
  stopped : Bool := false   -- the wallet was stopped mid-recovery (`how=stop`, `halt=1`) and is not loaded
  mainnet : Bool := false   -- `rinit net=main`: production-network parameters (syncWithChain waits for the backend first)
  inited  : Bool := false

def noInvalid : BranchId → List Nat := fun _ => []

def natOf (toks : List String) (k : String) : Option Nat := (kv toks k).bind String.toNat?

def sortNat (l : List Nat) : List Nat := l.mergeSort (· ≤ ·)

def showBranch (b : Branch) : String :=
  s!"nu={b.nextUnfound} ninv={b.numInvalidInHorizon} addrs={joinWith "," ((sortNat b.addrs).map toString)}"

def splitOn1 (s : String) (sep : String) : List String := if s.isEmpty then [] else s.splitOn sep

/-- in = `e` (external) | `<txid>.<idx>` -/
def parseIn (s : String) : Option (Option OutPoint) :=
  if s == "e" then some none else
  match s.splitOn "." with
  | [a, b] => do let a ← a.toNat?; let b ← b.toNat?; pure (some (a, b))
  | _ => none

/-- out = `x.<amt>` | `<scope>.<0|1>.<idx>.<amt>` -/
def parseOut (s : String) : Option TxOut :=
  match s.splitOn "." with
  | ["x", a] => a.toNat?.map (⟨none, ·⟩)
  | [sc, b, i, a] => do
    let sc ← sc.toNat?; let b ← b.toNat?; let i ← i.toNat?; let a ← a.toNat?
    pure ⟨some ⟨sc, b == 1, i⟩, a⟩
  | _ => none

/-- tx = `<id>:<in>+<in>:<out>+<out>` -/
def parseTx (s : String) : Option Tx :=
  match s.splitOn ":" with
  | [id, ins, outs] => do
    let id ← id.toNat?
    let ins ← (splitOn1 ins "+").mapM parseIn
    let outs ← (splitOn1 outs "+").mapM parseOut
    pure ⟨id, ins.filterMap (fun x => x), outs⟩
  | _ => none

def lexKey (a b : Key) : Bool :=
  a.scope < b.scope || (a.scope == b.scope && ((!a.internal && b.internal) || (a.internal == b.internal && a.index ≤ b.index)))

def showState (s : St) (st : State) : String :=
  let nexts := s.scopes.map fun sc => s!"{sc}:{st.nextOf (sc, false)}/{st.nextOf (sc, true)}"
  let used := (st.used.mergeSort lexKey).map fun k => s!"{k.scope}.{if k.internal then 1 else 0}.{k.index}"
  let utxo := ((spendable st).mergeSort (fun a b => a.op.1 < b.op.1 || (a.op.1 == b.op.1 && a.op.2 ≤ b.op.2))).map
    fun c => s!"{c.op.1}.{c.op.2}:{c.amount}"
  let txs := (st.txs.mergeSort (fun a b => a.1 ≤ b.1)).map fun p => s!"{p.1}@{p.2}"
  s!"next={joinWith "," nexts} used={joinWith "," used} bal={balance st} utxo={joinWith "," utxo} txs={joinWith "," txs}"

/-- persistent part, for the "result does not depend on where the run was interrupted" self-check -/
def persistEq (s : St) (a b : State) : Bool := showState s a == showState s b

/-- `rrecover` / `rrestart`: one start-up sync of the wallet whose database holds `b0` (window already set) over the
    blocks above `s.done`.  `fresh` = the wallet was just created (birthday block not verified: an in-process retry of
    `syncWithChain` locates the birthday block again, resets the sync point to it and re-scans from there; a
    restarted wallet retries from its sync point).  Interruption options (same validation as the Go runner):
    `lockat=<height> how=lock|timeout|stop`, `failat=<n> halt=1`. -/
def syncOp (s : St) (fresh : Bool) (b0 : State) (w : Nat) (rest : List String) : St × String :=
  let failat := (natOf rest "failat").getD 0
  let lockat := (natOf rest "lockat").getD 0
  let how := kv rest "how"
  let halt := kv rest "halt"
  let tip := s.blocks.length
  let okHalt := match halt with
    | none => true
    | some h => h == "1" && failat != 0
  let okLock :=
    if lockat == 0 then how.isNone
    else failat == 0 && (how == some "lock" || how == some "timeout" || (how == some "stop" && s.done < lockat && lockat < tip))
  if !(okHalt && okLock) then (s, "bad-op") else
  let new := s.blocks.drop s.done
  let run := fun (start : State) (blks : List (Nat × Block)) (cuts : Nat → Bool) =>
    recoverChain noInvalid s.batch (blks.length + 1) (resurrect noInvalid start) blks cuts 0
  -- the theorems' hypotheses for the blocks `s.done+1 .. upTo` scanned with window `w`
  let hypUpTo := fun (upTo : Nat) =>
    if upTo == s.done then s.hyp else
    let c := s.blocks.take upTo
    if fresh then checkWF s.scopes noInvalid c && checkLA w s.scopes c
    else s.hyp && checkWF s.scopes noInvalid c && checkLAFrom w s.scopes s.done c
  -- `strict`: the persistent result must not depend on where the run was cut (self check of the model).  Not demanded
  -- of a re-scan of committed blocks outside the theorems' hypotheses (a payment beyond the window missed by the first
  -- pass is found by the second, but `addRelevantTx` skips the already recorded transaction: the output is watched in
  -- memory only, so a Resurrect in between makes a difference — the real wallet agrees with the uncut model run)
  let finish := fun (strict : Bool) (st st' : State) =>
    if !strict || persistEq s st st' then
      let hyp := hypUpTo tip
      ({ s with rs := some st, done := tip, hyp := hyp, stopped := false }, showState s st ++ s!" hyp={if hyp then 1 else 0}")
    else (s, "model-cuts-differ")
  if s.done < lockat && lockat < tip then
    -- the quit flag is seen before block lockat+1 is fetched: the batches completed by then are on disk
    let n := committedAt s.batch (lockat - s.done)
    let st1 := recoverInterrupted noInvalid s.batch (resurrect noInvalid b0) new (fun _ => false) (lockat - s.done)
    let st1' := recoverInterrupted noInvalid s.batch (resurrect noInvalid b0) new (fun _ => true) (lockat - s.done)
    if how == some "stop" then
      ({ s with rs := some st1, done := s.done + n, hyp := hypUpTo (s.done + n), stopped := true }, "interrupted-and-stopped")
    else
      -- lock / unlock timeout: syncWithChain fails, waitForSync retries it in-process (Resurrect from the database)
      let again := if fresh then s.blocks else new.drop n
      finish (!(fresh && n > 0) || hypUpTo tip) (run st1 again (fun _ => false)) (run st1' again (fun _ => true))
  else
  match (if halt.isSome then recoverChainFail noInvalid s.batch (b0.calls + failat) (new.length + 1) (resurrect noInvalid b0) new 0 else none) with
  | some (st1, n) =>
    -- the failing batch is rolled back, the wallet is stopped before any in-process retry
    ({ s with rs := some st1, done := s.done + n, hyp := hypUpTo (s.done + n), stopped := true }, "failed-and-stopped")
  | none =>
    let st := run b0 new (fun _ => false)
    if failat != 0 && failat ≤ st.calls - b0.calls then ({ s with tainted := true }, "retried-after-failure")
    else finish true st (run b0 new (fun _ => true))

def step (s : St) (line : String) : St × String :=
  let t := words line
  if s.tainted && t.head? != some "rinit" && (t.head?.map (·.startsWith "r")).getD false then (s, "tainted") else
  match t with
  | "bnew" :: rest =>
    match natOf rest "w" with
    | some w => ({ s with br := Branch.new w }, "ok")
    | none => (s, "bad-op")
  | ["bext"] =>
    let ((h, d), b) := s.br.extendHorizon
    ({ s with br := b }, s!"h={h} d={d}")
  | "badd" :: rest =>
    match natOf rest "i" with
    | some i => ({ s with br := s.br.addAddr i }, "ok")
    | none => (s, "bad-op")
  | "binv" :: rest =>
    match natOf rest "i" with
    | some i => ({ s with br := s.br.markInvalid i }, "ok")
    | none => (s, "bad-op")
  | "bfound" :: rest =>
    match natOf rest "i" with
    | some i => ({ s with br := s.br.reportFound i }, "ok")
    | none => (s, "bad-op")
  | "bexpand" :: rest =>
    match (kv rest "inv").bind natList? with
    | some inv =>
      let b := expand inv s.br
      ({ s with br := b }, showBranch b)
    | none => (s, "bad-op")
  | ["bst"] => (s, showBranch s.br)
  | "rinit" :: rest =>
    match (kv rest "scopes").bind natList?, natOf rest "batch" with
    | some scopes, some batch =>
      match kv rest "net" with
      | some n =>
        if n != "main" && n != "sim" then (s, "bad-op") else
        ({ s with scopes := scopes, blocks := [], done := 0, rs := none, batch := batch, tainted := false, hyp := true, mem := [], stopped := false, mainnet := n == "main", inited := true }, "ok")
      | none => ({ s with scopes := scopes, blocks := [], done := 0, rs := none, batch := batch, tainted := false, hyp := true, mem := [], stopped := false, mainnet := false, inited := true }, "ok")
    | _, _ => (s, "bad-op")
  | "rnotcurrent" :: rest =>
    -- the backend is still in initial block download when the wallet next connects (serves heights ≤ until, IsCurrent
    -- false, then catches up).  On a production network `syncWithChain` waits until the backend is current BEFORE the
    -- birthday search, the rollback check and `recovery()`: the start-up sync then runs against the whole chain, i.e.
    -- the op changes nothing in the model
    match natOf rest "until" with
    | some h => if s.inited && s.mainnet && h ≤ s.blocks.length then (s, "ok") else (s, "bad-op")
    | none => (s, "bad-op")
  | "rblk" :: rest =>
    -- `m<id>` = the unmined transaction <id> handed to the wallet earlier (rmempool) is mined in this block
    let parse1 := fun (x : String) =>
      if x.startsWith "m" then (x.drop 1).toNat?.bind (fun id => s.mem.find? (fun t => t.id == id)) else parseTx x
    match (kv rest "txs").map (fun x => (splitOn1 x ";").mapM parse1) with
    | some (some txs) => ({ s with blocks := s.blocks ++ [(s.blocks.length + 1, txs)] }, "ok")
    | _ => (s, "bad-op")
  | "rlease" :: rest | "rrelease" :: rest =>
    let knownTx := fun (id : Nat) => (s.blocks.any (fun hb => hb.2.any (fun t => t.id == id))) || s.mem.any (fun t => t.id == id)
    match (if s.stopped then none else s.rs), (kv rest "op").map (fun x => x.splitOn ".") with
    | some st, some [a, b] =>
      match a.toNat?, b.toNat? with
      | some a, some b =>
        if !knownTx a then (s, "bad-op") else
        if t.head? == some "rlease" then
          match leaseOutput st (a, b) with
          | some st' => ({ s with rs := some st' }, "ok")
          | none => (s, "err lease")
        else
          match releaseOutput st (a, b) with
          | some st' => ({ s with rs := some st' }, showState s st')
          | none => (s, "err release")
      | _, _ => (s, "bad-op")
    | _, _ => (s, "bad-op")
  | "rmempool" :: rest =>
    match (if s.stopped then none else s.rs), (kv rest "tx").bind parseTx with
    | some st, some tx =>
      if tx.outs.any (fun o => o.key.isSome) then (s, "bad-op") else
      let st' := addUnmined st tx
      ({ s with rs := some st', mem := s.mem ++ [tx] }, showState s st')
    | _, _ => (s, "bad-op")
  | "rrecover" :: rest =>
    match natOf rest "w" with
    | some w =>
      if s.rs.isSome then (s, "bad-op") else
      syncOp s true (State.init w s.scopes) w rest
    | none => (s, "bad-op")
  | "rrestart" :: rest =>
    match natOf rest "w", s.rs with
    | some w, some st0 => syncOp s false { st0 with window := w } w rest
    | _, _ => (s, "bad-op")
  | ["rstate"] =>
    match (if s.stopped then none else s.rs) with
    | some st => (s, showState s st)
    | none => (s, "bad-op")
  | "bday" :: rest =>
    match natOf rest "best", (kv rest "ts").bind (fun x => (csv x).mapM String.toInt?), (kv rest "b").bind String.toInt?, (kv rest "delta").bind String.toInt?, (kv rest "g").bind String.toInt? with
    | some best, some ts, some b, some delta, some g =>
      if ts.length != best then (s, "bad-op") else
      let f : Nat → Int := fun h => if h = 0 then g else ts.getD (h - 1) 0
      match locateBirthdayBlock f b delta best with
      | some r => (s, s!"r={r}")
      | none => (s, "r=none")
    | _, _, _, _, _ => (s, "bad-op")
  | _ => (s, "bad-op")

def run (i o : IO.FS.Stream) : IO Unit := loop i o ({} : St) step

end EngRecovery
