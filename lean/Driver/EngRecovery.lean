import BtcwVerif.Model.Recovery
import BtcwVerif.Lemmas.RecoveryComplete
-- engine: walletchain-recovery
import Driver.Proto
open Proto Recovery

namespace EngRecovery

structure St where
  br      : Branch := Branch.new 0                 -- (a) single BranchRecoveryState under test
  scopes  : List Nat := []
  blocks  : List (Nat × Block) := []               -- (b) best chain above genesis: (height, block)
  done    : Nat := 0                                -- number of blocks already scanned by the wallet
  rs      : Option State := none                    -- wallet-side recovery/persistent state
  batch   : Nat := 2000
  mem     : List Tx := []                           -- unmined transactions handed to the wallet (rmempool), for `m<id>`
  hyp     : Bool := true    -- the hypotheses of C16_complete / C16_complete_resumed held for every scan so far
  tainted : Bool := false   -- an injected FilterBlocks failure fired: in-process retry is outside the model (finding)

def noInvalid : BranchId → List Nat := fun _ => []

def natOf (toks : List String) (k : String) : Option Nat := (kv toks k).bind String.toNat?

def sortNat (l : List Nat) : List Nat := l.mergeSort (· ≤ ·)

def showBranch (b : Branch) : String :=
  s!"nu={b.nextUnfound} ninv={b.numInvalidInHorizon} addrs={joinWith "," ((sortNat b.addrs).map toString)}"

def splitOn1 (s : String) (sep : String) : List String := if s.isEmpty then [] else s.splitOn sep

/-- in = `e` (external) | `<txid>.<idx>` -/
def parseIn (s : String) : Option (Option OutPoint) :=
  if s == "e" then some none else
  match s.splitOn "." with
  | [a, b] => do let a ← a.toNat?; let b ← b.toNat?; pure (some (a, b))
  | _ => none

/-- out = `x.<amt>` | `<scope>.<0|1>.<idx>.<amt>` -/
def parseOut (s : String) : Option TxOut :=
  match s.splitOn "." with
  | ["x", a] => a.toNat?.map (⟨none, ·⟩)
  | [sc, b, i, a] => do
    let sc ← sc.toNat?; let b ← b.toNat?; let i ← i.toNat?; let a ← a.toNat?
    pure ⟨some ⟨sc, b == 1, i⟩, a⟩
  | _ => none

/-- tx = `<id>:<in>+<in>:<out>+<out>` -/
def parseTx (s : String) : Option Tx :=
  match s.splitOn ":" with
  | [id, ins, outs] => do
    let id ← id.toNat?
    let ins ← (splitOn1 ins "+").mapM parseIn
    let outs ← (splitOn1 outs "+").mapM parseOut
    pure ⟨id, ins.filterMap (fun x => x), outs⟩
  | _ => none

def lexKey (a b : Key) : Bool :=
  a.scope < b.scope || (a.scope == b.scope && ((!a.internal && b.internal) || (a.internal == b.internal && a.index ≤ b.index)))

def showState (s : St) (st : State) : String :=
  let nexts := s.scopes.map fun sc => s!"{sc}:{st.nextOf (sc, false)}/{st.nextOf (sc, true)}"
  let used := (st.used.mergeSort lexKey).map fun k => s!"{k.scope}.{if k.internal then 1 else 0}.{k.index}"
  let utxo := ((spendable st).mergeSort (fun a b => a.op.1 < b.op.1 || (a.op.1 == b.op.1 && a.op.2 ≤ b.op.2))).map
    fun c => s!"{c.op.1}.{c.op.2}:{c.amount}"
  let txs := (st.txs.mergeSort (fun a b => a.1 ≤ b.1)).map fun p => s!"{p.1}@{p.2}"
  s!"next={joinWith "," nexts} used={joinWith "," used} bal={balance st} utxo={joinWith "," utxo} txs={joinWith "," txs}"

/-- persistent part, for the "result does not depend on where the run was interrupted" self-check -/
def persistEq (s : St) (a b : State) : Bool := showState s a == showState s b

def step (s : St) (line : String) : St × String :=
  let t := words line
  if s.tainted && t.head? != some "rinit" && (t.head?.map (·.startsWith "r")).getD false then (s, "tainted") else
  match t with
  | "bnew" :: rest =>
    match natOf rest "w" with
    | some w => ({ s with br := Branch.new w }, "ok")
    | none => (s, "bad-op")
  | ["bext"] =>
    let ((h, d), b) := s.br.extendHorizon
    ({ s with br := b }, s!"h={h} d={d}")
  | "badd" :: rest =>
    match natOf rest "i" with
    | some i => ({ s with br := s.br.addAddr i }, "ok")
    | none => (s, "bad-op")
  | "binv" :: rest =>
    match natOf rest "i" with
    | some i => ({ s with br := s.br.markInvalid i }, "ok")
    | none => (s, "bad-op")
  | "bfound" :: rest =>
    match natOf rest "i" with
    | some i => ({ s with br := s.br.reportFound i }, "ok")
    | none => (s, "bad-op")
  | "bexpand" :: rest =>
    match (kv rest "inv").bind natList? with
    | some inv =>
      let b := expand inv s.br
      ({ s with br := b }, showBranch b)
    | none => (s, "bad-op")
  | ["bst"] => (s, showBranch s.br)
  | "rinit" :: rest =>
    match (kv rest "scopes").bind natList?, natOf rest "batch" with
    | some scopes, some batch => ({ s with scopes := scopes, blocks := [], done := 0, rs := none, batch := batch, tainted := false, hyp := true, mem := [] }, "ok")
    | _, _ => (s, "bad-op")
  | "rblk" :: rest =>
    -- `m<id>` = the unmined transaction <id> handed to the wallet earlier (rmempool) is mined in this block
    let parse1 := fun (x : String) =>
      if x.startsWith "m" then (x.drop 1).toNat?.bind (fun id => s.mem.find? (fun t => t.id == id)) else parseTx x
    match (kv rest "txs").map (fun x => (splitOn1 x ";").mapM parse1) with
    | some (some txs) => ({ s with blocks := s.blocks ++ [(s.blocks.length + 1, txs)] }, "ok")
    | _ => (s, "bad-op")
  | "rlease" :: rest | "rrelease" :: rest =>
    let knownTx := fun (id : Nat) => (s.blocks.any (fun hb => hb.2.any (fun t => t.id == id))) || s.mem.any (fun t => t.id == id)
    match s.rs, (kv rest "op").map (fun x => x.splitOn ".") with
    | some st, some [a, b] =>
      match a.toNat?, b.toNat? with
      | some a, some b =>
        if !knownTx a then (s, "bad-op") else
        if t.head? == some "rlease" then
          match leaseOutput st (a, b) with
          | some st' => ({ s with rs := some st' }, "ok")
          | none => (s, "err lease")
        else
          match releaseOutput st (a, b) with
          | some st' => ({ s with rs := some st' }, showState s st')
          | none => (s, "err release")
      | _, _ => (s, "bad-op")
    | _, _ => (s, "bad-op")
  | "rmempool" :: rest =>
    match s.rs, (kv rest "tx").bind parseTx with
    | some st, some tx =>
      if tx.outs.any (fun o => o.key.isSome) then (s, "bad-op") else
      let st' := addUnmined st tx
      ({ s with rs := some st', mem := s.mem ++ [tx] }, showState s st')
    | _, _ => (s, "bad-op")
  | "rrecover" :: rest =>
    match natOf rest "w" with
    | some w =>
      if s.rs.isSome then (s, "bad-op") else
      let st := recover noInvalid w s.batch s.scopes s.blocks (fun _ => false)
      let st' := recover noInvalid w s.batch s.scopes s.blocks (fun _ => true)
      let failat := (natOf rest "failat").getD 0
      if failat != 0 && failat ≤ st.calls then ({ s with tainted := true }, "retried-after-failure")
      else if persistEq s st st' then
        -- the theorem's hypotheses, evaluated on this chain (the Go oracle evaluates its own version: `hyp=` must agree)
        let hyp := checkWF s.scopes noInvalid s.blocks && checkLA w s.scopes s.blocks
        ({ s with rs := some st, done := s.blocks.length, hyp := hyp }, showState s st ++ s!" hyp={if hyp then 1 else 0}")
      else (s, "model-cuts-differ")
    | none => (s, "bad-op")
  | "rrestart" :: rest =>
    match natOf rest "w", s.rs with
    | some w, some st0 =>
      let st0 := { st0 with window := w }
      let new := s.blocks.drop s.done
      let run := fun (cuts : Nat → Bool) => recoverChain noInvalid s.batch (new.length + 1) (resurrect noInvalid st0) new cuts 0
      let st := run (fun _ => false)
      let failat := (natOf rest "failat").getD 0
      if failat != 0 && failat ≤ st.calls - st0.calls then ({ s with tainted := true }, "retried-after-failure")
      else if persistEq s st (run (fun _ => true)) then
        let hyp := s.hyp && checkWF s.scopes noInvalid s.blocks && checkLAFrom w s.scopes s.done s.blocks
        ({ s with rs := some st, done := s.blocks.length, hyp := hyp }, showState s st ++ s!" hyp={if hyp then 1 else 0}")
      else (s, "model-cuts-differ")
    | _, _ => (s, "bad-op")
  | ["rstate"] =>
    match s.rs with
    | some st => (s, showState s st)
    | none => (s, "bad-op")
  | "bday" :: rest =>
    match natOf rest "best", (kv rest "ts").bind (fun x => (csv x).mapM String.toInt?), (kv rest "b").bind String.toInt?, (kv rest "delta").bind String.toInt?, (kv rest "g").bind String.toInt? with
    | some best, some ts, some b, some delta, some g =>
      if ts.length != best then (s, "bad-op") else
      let f : Nat → Int := fun h => if h = 0 then g else ts.getD (h - 1) 0
      match locateBirthdayBlock f b delta best with
      | some r => (s, s!"r={r}")
      | none => (s, "r=none")
    | _, _, _, _, _ => (s, "bad-op")
  | _ => (s, "bad-op")

def run (i o : IO.FS.Stream) : IO Unit := loop i o ({} : St) step

end EngRecovery
