import BtcwVerif.Model.WalletRestart
-- engine: wallet-restart
import Driver.Proto
open Proto WalletRestart

/-! Driver engine for C08 at the wallet level: replays the harness's wallet requests on the `WalletRestart` model and
prints, like the Go runner, the request's result, the answers of a wallet restarted on the database (`D[...]`,
after every request) and the answers of the running wallet (`R[...]`, on `cmp`). -/
namespace EngWalletRestart

structure St where
  s : State
  names : List Nat
  us : List (Scope × Addr)
  /-- `reset pf=1`: the tree has the ChangePassphrases public-half fix (harness probe) -/
  pubFix : Bool := false

def scopeNames : List String := ["np", "wpkh", "tr"]
def allScopes : List Scope := [0, 1, 2]

def scopeOf (s : String) : Option Scope :=
  match s with
  | "np" => some 0
  | "wpkh" => some 1
  | "tr" => some 2
  | _ => none

def showAddr (ad : Addr) : String := s!"{ad.key}.{if ad.internal then 1 else 0}.{ad.idx}"

def showErr : Err → String
  | .acctNotFound => "acct-not-found"
  | .dupName => "dup-name"
  | .badName => "bad-name"
  | .tooMany => "too-many"
  | .locked => "locked"
  | .insufficient => "insufficient"
  | .notifyFail => "notify-fail"
  | .badKey => "bad-key"
  | .dbError => "db-error"
  | .noCoin => "no-coin"
  | .commitFail => "commit-failed"
  | .wrongPass => "wrong-pass"

def showRow (r : Row) : String := s!"{r.name}:{r.key}:{r.ext}:{r.int}"

def showAns : Ans → String
  | .none => "-"
  | .row r => showRow r
  | .num n => toString n
  | .addr ad => s!"{ad.key}.{ad.idx}"

/-- answers of a wallet with memory `m` on database `d` (`nx`: also the address each branch issues next) -/
def digest (d : Disk) (m : Mem) (names : List Nat) (us : List (Scope × Addr)) (nx : Bool) : String :=
  let one (sc : Scope) (nm : String) : String :=
    let last := d.last sc
    let accts := (List.range (last + 2)).map fun a =>
      s!"{a}:{showAns (ask d m (.props sc a))}:{showAns (ask d m (.acctName sc a))}"
    let nums := names.map fun n => s!"{n}>{showAns (ask d m (.acctNumber sc n))}"
    let xs := (us.filter (·.1 == sc)).map fun p => s!"{showAddr p.2}>{showAns (ask d m (.addrInfo sc p.2))}"
    let nxs := (List.range (last + 1)).map fun a =>
      s!"{showAns (ask d m (.next sc a false))}/{showAns (ask d m (.next sc a true))}"
    let base := s!"{nm}\{L={last};A={joinWith "|" accts};N={joinWith "," nums};X={joinWith "," xs}"
    (if nx then base ++ s!";NX={joinWith "," nxs}" else base) ++ "}"
  joinWith " " ((allScopes.zip scopeNames).map fun p => one p.1 p.2)

def diskDigest (st : St) : String :=
  "D[" ++ digest st.s.disk emptyMem st.names st.us true ++ s!" P={st.s.disk.priv}/{st.s.disk.pub}]"

def addU (us : List (Scope × Addr)) (sc : Scope) (ads : List Addr) : List (Scope × Addr) :=
  ads.foldl (fun l ad => if l.contains (sc, ad) then l else l ++ [(sc, ad)]) us

def addName (ns : List Nat) (n : Nat) : List Nat := if ns.contains n then ns else ns ++ [n]

/-- optional `cf=<0|1>` flag -/
def cf? (s : Option String) : Option Bool :=
  match s with
  | none => some false
  | some "0" => some false
  | some "1" => some true
  | _ => none

def bool? (s : Option String) : Option Bool :=
  match s with
  | some "0" => some false
  | some "1" => some true
  | _ => none

/-- run one model op; `sc` = scope whose address universe the result's addresses join; returns new state + text -/
def exec (st : St) (sc : Scope) (op : Op) (names : List Nat) : St × String :=
  let (s', r) := step st.s op
  -- the address an issuing request whose commit failed had issued inside its transaction (the harness adds it to
  -- the address universe although the caller only saw the error)
  let lost : List Addr :=
    match r, op with
    | .err .commitFail, .newAddr sc a internal _ =>
      match ask st.s.disk st.s.mem (.next sc a internal) with | .addr ad => [ad] | _ => []
    | .err .commitFail, .createTx sc a .. =>
      match ask st.s.disk st.s.mem (.next sc a true) with | .addr ad => [ad] | _ => []
    | _, _ => []
  let (txt, ads) : String × List Addr :=
    match r, op with
    | .ok, _ => ("ok", [])
    | .err e, _ => (showErr e, [])
    | .addr ad, .createTx .. => (s!"ok chg={showAddr ad}", [ad])
    | .addr ad, .fundPsbt .. => (s!"ok chg={showAddr ad}", [ad])
    | .addr ad, _ => (s!"ok {showAddr ad}", [ad])
    | .acct a, _ => (s!"ok acct={a}", [])
    | .imported a row ext int, .importAcct true .. =>
      (s!"ok acct={a} props={showRow row} ext={joinWith "," (ext.map showAddr)} int={joinWith "," (int.map showAddr)}",
       ext ++ int)
    | .imported a row _ _, _ => (s!"ok acct={a} props={showRow row}", [])
  let st' : St := { st with s := s', names := names, us := addU st.us sc (ads ++ lost) }
  (st', txt ++ " " ++ diskDigest st')

/-- passphrase id below `n` -/
def pass? (s : Option String) (n : Nat) : Option Nat :=
  match s.bind String.toNat? with
  | some v => if v < n then some v else none
  | none => none

def nPriv : Nat := 4
def nPub : Nat := 3

/-- `passprobe`: Unlock with every other known private passphrase (ascending), then with the one a restarted wallet
accepts; the lock state is restored -/
def probe (s : State) : State × String :=
  let cur := s.disk.priv
  let ids := ((List.range nPriv).filter (· != cur)) ++ [cur]
  let r := ids.foldl (fun (acc : State × List String) id =>
    let x := step acc.1 (.unlockPass id)
    let t := match x.2 with | .err e => showErr e | _ => "ok"
    (x.1, acc.2 ++ [s!"{id}:{t}"])) (s, [])
  let s' := if s.mem.locked then (step r.1 .lock).1 else r.1
  (s', "probe " ++ joinWith "," r.2)

/-- address designator `<key>.<branch>.<index>` inside the harness's tables (keys 1..4 and 100..111, index < 24) -/
def des? (v : String) : Option Addr :=
  match (v.splitOn ".").map String.toNat? with
  | [some k, some b, some i] =>
    if ((1 ≤ k ∧ k ≤ 4) ∨ (100 ≤ k ∧ k ≤ 111)) ∧ b ≤ 1 ∧ i < 24 then some ⟨k, b == 1, i⟩ else none
  | _ => none

def fresh : St := { s := init, names := [1], us := [] }

def step' (st : Option St) (line : String) : Option St × String :=
  let t := words line
  match t with
  | [] => (st, "bad-op")
  | op :: rest =>
    if op == "reset" then
      match cf? (kv rest "pf") with
      | none => (none, "bad-op")
      | some pf =>
        let f : St := { fresh with pubFix := pf }
        (some f, "ok " ++ diskDigest f)
    else
    match st with
    | none => (none, "bad-op")
    | some st =>
      let sc? := (kv rest "sc").bind scopeOf
      let a? := (kv rest "a").bind String.toNat?
      let nm? := (kv rest "name").bind String.toNat?
      let wrap (r : St × String) : Option St × String := (some r.1, r.2)
      match cf? (kv rest "cf") with
      | none => (some st, "bad-op")
      | some cf =>
      match op with
      | "newaddr" | "newchange" | "curaddr" | "fund" =>
        match sc?, a? with
        | some sc, some a =>
          let mop : Op := if op == "newaddr" then .newAddr sc a false cf else if op == "newchange" then .newAddr sc a true cf
            else if op == "curaddr" then .curAddr sc a else .fund sc a
          wrap (exec st sc mop st.names)
        | _, _ => (some st, "bad-op")
      | "createtx" =>
        match sc?, a?, bool? (kv rest "dry"), kv rest "amt", bool? (kv rest "nf") with
        | some sc, some a, some dry, some amt, some nf =>
          if amt == "small" || amt == "huge" then wrap (exec st sc (.createTx sc a dry (amt == "huge") nf cf) st.names)
          else (some st, "bad-op")
        | _, _, _, _, _ => (some st, "bad-op")
      | "fundpsbt" =>
        match sc?, a?, kv rest "coin" with
        | some sc, some a, some c =>
          if c == "-" then wrap (exec st sc (.fundPsbt sc a none) st.names)
          else match c.toNat? with
            | some i => wrap (exec st sc (.fundPsbt sc a (some i)) st.names)
            | none => (some st, "bad-op")
        | _, _, _ => (some st, "bad-op")
      | "importdry" | "import" =>
        match sc?, nm?, kv rest "key" with
        | some sc, some nm, some k =>
          let key? : Option Nat := if k == "bad" then some 0 else
            match k.toNat? with | some n => if 1 ≤ n ∧ n ≤ 4 then some n else none | none => none
          let n? : Option Nat := if op == "import" then some 0 else
            match kv rest "n" with
            | some "big" => some 2147483648
            | some v => match v.toNat? with | some n => if n ≤ 8 then some n else none | none => none
            | none => none
          -- `race=1 ra=<key.br.idx>` (importdry only): an AddressInfo lookup of that address of the scope by another
          -- goroutine while the dry run's transaction is open; whatever the interleaving, the result is the dry run
          -- followed by the lookup's cache fill
          let race? : Option (Option Addr) :=
            match kv rest "race" with
            | none => some none
            | some "0" => some none
            | some "1" => if op == "importdry" then (kv rest "ra").bind fun v => (des? v).map some else none
            | _ => none
          match key?, n?, race? with
          | some key, some n, some race =>
            let r := exec st sc (.importAcct (op == "importdry") sc nm key n (op == "import" && cf)) (addName st.names nm)
            match race with
            | none => wrap r
            | some ad => (some { r.1 with s := (step r.1.s (.cmp [] [(sc, ad)])).1 }, r.2)
          | _, _, _ => (some st, "bad-op")
        | _, _, _ => (some st, "bad-op")
      | "rename" =>
        match sc?, a?, nm? with
        | some sc, some a, some nm => wrap (exec st sc (.rename sc a nm cf) (addName st.names nm))
        | _, _, _ => (some st, "bad-op")
      | "newacct" =>
        match sc?, nm? with
        | some sc, some nm => wrap (exec st sc (.newAcct sc nm) (addName st.names nm))
        | _, _ => (some st, "bad-op")
      | "restart" => wrap (exec st 0 .restart st.names)
      | "lock" => wrap (exec st 0 .lock st.names)
      | "unlock" =>
        match kv rest "pass" with
        | none => wrap (exec st 0 (.unlockPass st.s.disk.priv) st.names)
        | some v =>
          match pass? (some v) nPriv with
          | some p => wrap (exec st 0 (.unlockPass p) st.names)
          | none => (some st, "bad-op")
      | "passprobe" =>
        let r := probe st.s
        let st' : St := { st with s := r.1 }
        (some st', r.2 ++ " " ++ diskDigest st')
      | "chpriv" | "chpub" =>
        let n := if op == "chpriv" then nPriv else nPub
        match pass? (kv rest "old") n, pass? (kv rest "new") n with
        | some o, some nw => wrap (exec st 0 (.chPass (op == "chpriv") o nw) st.names)
        | _, _ => (some st, "bad-op")
      | "chboth" =>
        match pass? (kv rest "pubold") nPub, pass? (kv rest "pubnew") nPub, pass? (kv rest "privold") nPriv,
            pass? (kv rest "privnew") nPriv with
        | some po, some pn, some vo, some vn =>
          if st.pubFix then
            let r := stepChBothFixed st.s po pn vo vn
            let st' : St := { st with s := r.1 }
            (some st', (match r.2 with | .err e => showErr e | _ => "ok") ++ " " ++ diskDigest st')
          else wrap (exec st 0 (.chBoth po pn vo vn) st.names)
        | _, _, _, _ => (some st, "bad-op")
      | "cmp" =>
        let r := "R[" ++ digest st.s.disk st.s.mem st.names st.us false ++ "]"
        let st' : St := { st with s := (step st.s (.cmp allScopes st.us)).1 }
        (some st', r ++ " " ++ diskDigest st')
      | _ => (some st, "bad-op")

def run (i o : IO.FS.Stream) : IO Unit := loop i o (none : Option St) step'

end EngWalletRestart
