import BtcwVerif.Model.Queue
-- engine: bitcoindnotif
import BtcwVerif.Gen.QueueGen
import Driver.Proto
import Driver.EngQueue
open Proto Queue

/-!
Driver engine `bitcoindnotif` (C18): `chain.BitcoindClient.notificationQueue` = `NewConcurrentQueue(20)`, i.e. the
`Queue` model with capacity 20 under the table REGENERATED from chain/queue.go, ONE worker (`Start()` of the queue
is behind the client's `started` test-and-set: a retried `BitcoindClient.Start()` is a no-op returning nil — that is
what `C18_generated_queue_started_once` establishes for the current source, and what the reply to `new` says).

Ops: `new fail=<f> nb=<0|1>` · `rescan <k>` · `crescan <k>` · `recv` · `stop` · `storm fail= nb= rounds= m= k=`
(free-running: with one worker everything enqueued is received, the reply is the count).
Notifications are numbered: FilteredBlockConnected(h) = 3h, BlockConnected(h) = 3h+1, RescanFinished(h) = 3h+2.
-/
namespace EngBitcoindNotif

structure St where
  q : State Nat
  tip : Nat := 0
  nb : Bool := true       -- NotifyBlocks() was called
  stopped : Bool := false

def queueCap : Nat := 20

def showN (v : Nat) : String :=
  let h := v / 3
  match v % 3 with
  | 0 => s!"fbc {h}"
  | 1 => s!"bc {h}"
  | _ => s!"fin {h}"

/-- What a rescan from `tip` over `k` new blocks enqueues. -/
def rescanSeq (nb : Bool) (tip k : Nat) : List Nat :=
  (if nb then ((List.range k).map (fun i => [3 * (tip + 1 + i), 3 * (tip + 1 + i) + 1])).flatten else [])
    ++ [3 * (tip + k) + 2]

def natKV (toks : List String) (k : String) : Option Nat := (kv toks k).bind String.toNat?

def feedL (s : State Nat) (l : List Nat) : State Nat := l.foldl (fun s v => (EngQueue.doSend s v).1) s

/-- Receive until nothing arrives any more; returns the number of values received. -/
def drainCount : Nat → State Nat → Nat → State Nat × Nat
  | 0, s, n => (s, n)
  | f + 1, s, n =>
    match EngQueue.doRecv (EngQueue.settled s) with
    | (s', some _) => drainCount f s' (n + 1)
    | (s', none) => (s', n)

def step (st : Option St) (line : String) : Option St × String :=
  match words line, st with
  | ["storm", a, b, c, d, e], _ =>
    let t := [a, b, c, d, e]
    match natKV t "fail", natKV t "nb", natKV t "rounds", natKV t "m", natKV t "k" with
    | some f, some nb, some r, some m, some k =>
      if f > 8 || nb > 1 || r == 0 || m == 0 || k == 0 || r * m * k > 5000 || (nb == 1 && m != 1) then (st, "bad-op")
      else (none, s!"ok n={r * m * (if nb == 1 then 2 * k + 1 else 1)}")
    | _, _, _, _, _ => (st, "bad-op")
  | ["new", a, b], _ =>
    match natKV [a, b] "fail", natKV [a, b] "nb" with
    | some f, some nb =>
      if f > 8 || nb > 1 then (st, "bad-op")
      else
        -- the first Start() fails after the queue was started and ClientConnected was enqueued; every later Start()
        -- is stopped by the `started` guard and returns nil.  `new` consumes the single ClientConnected.
        let failed := min f 1
        (some { q := init Nat queueCap, nb := nb == 1 }, s!"ok starts={failed + 1} failed={failed} cc=1")
    | _, _ => (st, "bad-op")
  | [op, k], some s =>
    if op != "rescan" && op != "crescan" then (st, "bad-op")
    else match k.toNat? with
    | some k =>
      if k == 0 || k > 5000 || s.stopped then (st, "bad-op")
      -- one producer at a time: with NotifyBlocks the harness cannot see whether the previous RescanFinished has been
      -- enqueued while more than 20 notifications are pending, and refuses to start the next rescan
      else if s.nb && s.q.out.length + s.q.overflow.length > queueCap then (st, "busy")
      else
        let q := feedL s.q (rescanSeq s.nb s.tip k)
        if op == "rescan" then
          (some { s with q := q, tip := s.tip + k }, s!"ok len={q.out.length}")
        else
          let pending := q.out.length + q.overflow.length
          let (q', n) := drainCount (pending + 2) q 0
          (some { s with q := q', tip := s.tip + k }, s!"ok got={n} len={q'.out.length}")
    | none => (st, "bad-op")
  | ["recv"], some s =>
    let (q, r) := EngQueue.doRecv s.q
    (some { s with q := q }, (match r with | some v => s!"got {showN v}" | none => "empty") ++ s!" len={q.out.length}")
  | ["stop"], some s =>
    if s.stopped then (st, "stopped")
    else
      let q := (estep s.q .stop).getD s.q
      (some { s with q := EngQueue.settled q, stopped := true }, "stopped")
  | _, _ => (st, "bad-op")

def run (i o : IO.FS.Stream) : IO Unit := loop i o none step

end EngBitcoindNotif
