import Driver.EngMigration

def engines : List (String × (IO.FS.Stream → IO.FS.Stream → IO Unit)) :=
  [("migration", EngMigration.run)]

def main (args : List String) : IO UInt32 := do
  let i ← IO.getStdin
  let o ← IO.getStdout
  match args with
  | [e] =>
    match engines.lookup e with
    | some f => f i o; return 0
    | none => IO.eprintln s!"unknown engine {e}"; return 2
  | _ => IO.eprintln "usage: driver <engine>"; return 2
