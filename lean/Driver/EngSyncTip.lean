import BtcwVerif.Model.SyncTip
-- engine: walletchain-sync
import Driver.Proto
import Std.Data.HashMap
open Proto SyncTip

namespace EngSyncTip

structure BlockInfo where
  bid  : BlockId
  time : Nat
  txs  : List Tx

structure St where
  inited  : Bool := false
  blocks  : Std.HashMap Nat BlockInfo := {}
  W       : Nat := 0
  batch   : Nat := 0
  w       : Wallet := genesisWallet ⟨fun _ => 0, fun _ => []⟩
  tip     : BlockId := []
  running : Bool := false
  top     : Nat := 0
  n       : NSrv := {}      -- the wallet's NotificationServer (one TransactionNotifications client registered)
  broken  : Bool := false   -- sticky: mined records of two different blocks at one height (wtxmgr iteration fails)
  recw      : Nat := 0          -- the running wallet's recovery window (Loader option; `reconnect` runs recovery again)
  connected : Bool := true      -- false between `disc` and `reconnect`: the backend moves, the wallet is not told
  inflight  : Option Nat := none -- a rescan in flight: the height its `RescanFinished` will report

def St.content (s : St) : Content :=
  { time := fun b => match s.blocks.get? (b.headD 0) with | some i => i.time | none => 0
    txs := fun b => match s.blocks.get? (b.headD 0) with | some i => i.txs | none => [] }

def St.cfg (s : St) : Cfg := ⟨s.W, s.content⟩

def showHash : Hash → String
  | none => "z"
  | some b => toString (b.headD 0)

def hashNum : Hash → Int
  | none => -1
  | some b => (b.headD 0 : Nat)

def showHashes (w : Wallet) (from_ to : Nat) : String :=
  joinWith "," ((List.range (to + 1 - from_)).filterMap fun i =>
    let h := from_ + i
    match w.hashes h with
    | none => none
    | some x => some s!"{h}:{showHash x}")

def lexLe (a b : Nat × Nat × Int) : Bool :=
  a.1 < b.1 || (a.1 == b.1 && (a.2.1 < b.2.1 || (a.2.1 == b.2.1 && a.2.2 ≤ b.2.2)))

def inconsistent (w : Wallet) : Bool :=
  w.mined.any fun r => w.mined.any fun q => r.height == q.height && r.hash != q.hash

def showState (s : St) : String :=
  if !s.running then s!"stopped btip={s.tip.length}:{s.tip.headD 0}"
  else if s.broken then "store-inconsistent"
  else
    let w := s.w
    let from_ := if s.top > 64 then s.top - 64 else 0
    let mined := (w.mined.map fun r => (r.tx.id, r.height, hashNum r.hash)).mergeSort lexLe
    let ms := mined.map fun (t, h, i) => s!"{t}@{h}:{if i == -1 then "z" else toString i}"
    let us := (w.unmined.map (·.id)).mergeSort (· ≤ ·)
    s!"run sync={if w.chainSynced then 1 else 0} tip={w.syncedTo.height}:{showHash w.syncedTo.hash}:{w.syncedTo.time} bday={w.birthday.1}:{showHash w.birthday.2} hashes={showHashes w from_ s.top} mined={joinWith "," ms} unmined={joinWith "," (us.map toString)}"

def parseMode : Option String → Option TxMode
  | some "a" => some .after
  | some "b" => some .before
  | some "f" => some .filtered
  | _ => none

def parseTxs (s : String) : Option (List Tx) :=
  (csv s).mapM fun t =>
    if t.endsWith "c" then (t.dropEnd 1).toString.toNat?.map (⟨·, true⟩) else t.toNat?.map (⟨·, false⟩)

def natOf (toks : List String) (k : String) : Option Nat := (kv toks k).bind String.toNat?

/-- The notifications of `connectBranch`, one group per block. -/
def branchGroups (C : Content) (m : TxMode) : BlockId → List Nat → List (List Ntfn)
  | _, [] => []
  | base, n :: br => connectNtfns C m (n :: base) :: branchGroups C m (n :: base) br

/-- Apply an evolution step: notifications only when the wallet is running. -/
def applyStep (s : St) (st : Step) : St :=
  let tip' := stepTip s.tip st
  if s.running && s.connected then
    let p := processN s.cfg (s.w, s.n) (ntfnsOf s.content s.tip st)
    { s with w := p.1, n := p.2, tip := tip' }
  else { s with tip := tip' }

def step (s : St) (line : String) : St × String :=
  let t := words line
  match t with
  | "init" :: rest =>
    match natOf rest "W", natOf rest "batch", natOf rest "gt" with
    | some W, some batch, some gt =>
      let s0 : St := { inited := true, W := W, batch := batch, running := true, recw := (natOf rest "recw").getD 0,
                       blocks := ({} : Std.HashMap Nat BlockInfo).insert 0 ⟨[], gt, []⟩ }
      let s1 := { s0 with w := genesisWallet s0.content }
      (s1, showState s1)
    | _, _, _ => (s, "bad-op")
  | op :: rest =>
    if !s.inited then (s, "bad-op") else
    match op with
    | "blk" =>
      match natOf rest "id", natOf rest "parent", natOf rest "t", (kv rest "txs").bind parseTxs with
      | some id, some p, some tm, some txs =>
        match s.blocks.get? p, s.blocks.get? id with
        | some pi, none =>
          let bid := id :: pi.bid
          ({ s with blocks := s.blocks.insert id ⟨bid, tm, txs⟩, top := max s.top bid.length }, "ok")
        | _, _ => (s, "bad-op")
      | _, _, _, _ => (s, "bad-op")
    | "ext" =>
      match natOf rest "id", parseMode (kv rest "mode") with
      | some id, some m =>
        match s.blocks.get? id with
        | some bi =>
          if bi.bid.tail == s.tip && bi.bid != [] then
            let s' := applyStep s (.extend id m)
            (s', showState s')
          else (s, "bad-op")
        | none => (s, "bad-op")
      | _, _ => (s, "bad-op")
    | "reorg" =>
      match natOf rest "d", (kv rest "br").bind natList?, parseMode (kv rest "mode") with
      | some d, some br, some m =>
        -- every branch block must be declared with the right parent
        let base := s.tip.drop d
        let okBr := (br.foldl (fun (acc : Option BlockId) n =>
            acc.bind fun b => match s.blocks.get? n with
              | some bi => if bi.bid == n :: b then some bi.bid else none
              | none => none) (some base)).isSome
        if d ≤ s.tip.length && okBr then
          match kv rest "rfin" with
          | none =>
            let s' := applyStep s (.reorg d br m)
            (s', showState s')
          | some ks =>
            -- RescanFinished of the rescan in flight arrives after the first k block events of this reorg; the
            -- backend is already on the new branch (`rescanInFlight` with pre/post = the two parts)
            match ks.toNat?, s.inflight with
            | some k, some n =>
              if !s.running || !s.connected || k > d + br.length then (s, "bad-op") else
              let tip' := stepTip s.tip (.reorg d br m)
              let groups := (disconnectNtfns s.content s.tip d).map (fun x => [x]) ++ branchGroups s.content m base br
              let ns := (groups.take k).flatten ++ [Ntfn.rescanFinished tip' n] ++ (groups.drop k).flatten
              let p := processN s.cfg (s.w, s.n) ns
              let s' := { s with w := p.1, n := p.2, tip := tip', inflight := none }
              (s', showState s')
            | _, _ => (s, "bad-op")
        else (s, "bad-op")
      | _, _, _ => (s, "bad-op")
    | "stale" =>
      match natOf rest "id" with
      | some id =>
        match s.blocks.get? id with
        | some bi =>
          if !s.running || !s.connected || ancestorAt s.tip bi.bid.length == bi.bid then (s, "bad-op")
          else
            let s' := applyStep s (.staleDisconnect bi.bid)
            (s', showState s')
        | none => (s, "bad-op")
      | none => (s, "bad-op")
    | "dupc" =>
      if !s.running || !s.connected then (s, "bad-op") else
      let s' := applyStep s .dupConnect
      (s', showState s')
    | "duptx" =>
      match natOf rest "h" with
      | some h =>
        if !s.running || !s.connected || h > s.tip.length then (s, "bad-op") else
        let s' := applyStep s (.dupTxs h)
        (s', showState s')
      | none => (s, "bad-op")
    | "mtx" =>
      match natOf rest "tx" with
      | some id =>
        if !s.running || !s.connected then (s, "bad-op") else
        let s' := applyStep s (.mempoolTx ⟨id, false⟩)
        (s', showState s')
      | none => (s, "bad-op")
    | "raw" =>
      match kv rest "k", natOf rest "id" with
      | some k, some id =>
        match s.blocks.get? id with
        | some bi =>
          if !s.running || !s.connected then (s, "bad-op") else
          let st := stampOf s.content bi.bid
          let n : Option Ntfn := if k == "c" then some (.connected st) else if k == "d" then some (.disconnected st) else none
          match n with
          | some n =>
            let p := handleN s.cfg (s.w, s.n) n
            let s' := { s with w := p.1, n := p.2 }
            (s', showState s')
          | none => (s, "bad-op")
        | none => (s, "bad-op")
      | _, _ => (s, "bad-op")
    | "stop" =>
      let s' := { s with running := false, connected := true, inflight := none }
      (s', showState s')
    | "disc" =>
      if !s.running || !s.connected || s.inflight.isSome then (s, "bad-op") else
      let s' := { s with connected := false }
      (s', showState s')
    | "reconnect" =>
      match natOf rest "recw" with
      | some recw =>
        if !s.running || s.inflight.isSome || recw != s.recw then (s, "bad-op") else
        let (p', ok) := resyncN s.cfg recw s.batch (s.w, s.n) s.tip
        if ok then
          let s' := { s with w := p'.1, n := p'.2, connected := true, inflight := some s.tip.length }
          (s', showState s')
        else ({ s with w := p'.1, n := {}, running := false, connected := true, inflight := none }, "sync-stuck")
      | none => (s, "bad-op")
    | "importkey" =>
      match natOf rest "k", natOf rest "from" with
      | some _, some h =>
        if !s.running || !s.connected || s.inflight.isSome || h > s.tip.length then (s, "bad-op") else
        -- the imported key has no transactions: the rescan reports nothing, the wallet's chain state is untouched
        let s' := { s with inflight := some s.tip.length }
        (s', showState s')
      | _, _ => (s, "bad-op")
    | "rfin" =>
      match s.inflight with
      | some n =>
        if !s.running then (s, "bad-op") else
        let p := handleN s.cfg (s.w, s.n) (.rescanFinished s.tip n)
        let s' := { s with w := p.1, n := p.2, inflight := none }
        (s', showState s')
      | none => (s, "bad-op")
    | "start" =>
      match natOf rest "recw" with
      | some recw =>
        if s.running then (s, "bad-op") else
        let (p', ok) := startupDuringN s.cfg recw s.batch s.w s.tip []
        if ok then
          let s' := { s with w := p'.1, n := p'.2, running := true, recw := recw, connected := true, inflight := none }
          (s', showState s')
        else ({ s with w := p'.1, n := {}, running := false }, "sync-stuck")
      | none => (s, "bad-op")
    | "startx" =>
      match natOf rest "id", parseMode (kv rest "mode") with
      | some id, some m =>
        match s.blocks.get? id with
        | some bi =>
          if s.running || bi.bid.tail != s.tip || bi.bid == [] then (s, "bad-op") else
          let (p', ok) := startupDuringN s.cfg 0 s.batch s.w s.tip (connectNtfns s.content m bi.bid)
          if ok then
            let s' := { s with w := p'.1, n := p'.2, running := true, tip := bi.bid, recw := 0, connected := true, inflight := none }
            (s', showState s')
          else ({ s with w := p'.1, n := {}, running := false, tip := bi.bid }, "sync-stuck")
        | none => (s, "bad-op")
      | _, _ => (s, "bad-op")
    | "state" => (s, showState s)
    | "gettxs" =>
      -- Wallet.GetTransactions(from, to) on the running wallet: blocks in the order reported, transactions of a block
      -- ascending by id, -1 = mempool height
      match (kv rest "from").bind String.toInt?, (kv rest "to").bind String.toInt? with
      | some a, some b =>
        if !s.running || a < -1 || b < -1 then (s, "bad-op") else
        let r := getTransactions s.w a b
        let ms := r.mined.map fun (h, ids) => s!"{h}:{joinWith "+" (ids.map toString)}"
        (s, s!"gettxs mined={joinWith "/" ms} unmined={joinWith "+" (r.unmined.map toString)}")
      | _, _ => (s, "bad-op")
    | "hashes" =>
      match natOf rest "from", natOf rest "to" with
      | some a, some b => if !s.running then (s, "bad-op") else (s, s!"hashes={showHashes s.w a b}")
      | _, _ => (s, "bad-op")
    | _ => (s, "bad-op")
  | [] => (s, "bad-op")

/-- Once the store holds records of two blocks at one height (only reachable through the zero-hash quirk or a
    malformed stream) wtxmgr's per-height block records are out of the model's scope: the case is over, both sides
    answer `store-inconsistent` from the op that created the situation on. -/
def step1 (s : St) (line : String) : St × String :=
  if s.broken && (words line).head? != some "init" then (s, "store-inconsistent") else
  let (s1, r) := step s line
  if s1.inited && s1.running && !s1.broken && inconsistent s1.w then
    ({ s1 with broken := true }, "store-inconsistent")
  else (s1, r)

def showNBlock (b : NBlock) : String := s!"{b.height}:{showHash b.hash}[{joinWith "+" (b.txs.map toString)}]"

def showTxNtfn (n : TxNtfn) : String :=
  s!"A={joinWith "/" (n.attached.map showNBlock)},D={joinWith "/" (n.detached.map showHash)},U={joinWith "/" (n.unmined.map toString)}"

/-- Every reply that shows the running wallet also shows the `TransactionNotifications` delivered to the registered
    client since the previous such reply. -/
def step' (s : St) (line : String) : St × String :=
  let (s1, r) := step1 s line
  if r.startsWith "run " then
    ({ s1 with n := { s1.n with sent := [] } }, r ++ " ntf=" ++ joinWith "|" (s1.n.sent.map showTxNtfn))
  else (s1, r)

def run (i o : IO.FS.Stream) : IO Unit := loop i o ({} : St) step'

end EngSyncTip
