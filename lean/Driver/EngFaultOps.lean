import BtcwVerif.Model.FaultOps
-- engine: faultops
import BtcwVerif.Gen.ErrSitesGen
import Driver.Proto
open Proto FaultOps

/-!
Driver engine `faultops` (C10).  Replays the write program recorded by the Go engine on the real code
(`prog=`: writes with their dynamic call chains, eager memory changes, OnCommit registrations, logical error)
through the generic model `FaultOps.bracket` with the same fault position `k`; every frame of every chain is
resolved in the extracted table `ErrSitesGen.table` (a frame that is not an extracted site is an error:
the extractor missed a path to a write).
-/
namespace EngFaultOps

def parseStep (t : String) : Option (Shape String) :=
  if t == "e" then some .e
  else if t == "c" then some .c
  else if t == "x" then some .x
  else if t.startsWith "w@" && t.length > 2 then
    some (.w (((t.drop 2).toString.splitOn ">").filter (· ≠ "")))
  else none

def parseProg (p : String) : Option (List (Shape String)) :=
  if p == "-" then some [] else (p.splitOn ",").mapM parseStep

def framesOf : List (Shape String) → List String
  | [] => []
  | .w ch :: r => ch ++ framesOf r
  | _ :: r => framesOf r

def nWrites : List (Shape String) → Nat
  | [] => 0
  | .w _ :: r => nWrites r + 1
  | _ :: r => nWrites r

def tbl : List String → Handling := chainHandling ErrSitesGen.table

def reply (shapes : List (Shape String)) (k : Nat) : String :=
  let prog := progOfShapes shapes 0
  let s0 : St (List Nat) (List Nat) := ⟨[], []⟩
  let raw := FaultOps.run tbl prog ⟨[], [], []⟩ (some k)
  let fired := raw.2.1.isNone
  let r := bracket tbl prog s0 (some k)
  let r0 := bracket tbl prog s0 none
  match r.2 with
  | .err =>
    let disk := if r.1.disk == s0.disk then "same" else "changed"
    let memSame := r.1.mem == s0.mem
    let rr := bracket tbl prog r.1 none
    let retry :=
      if !memSame then "*"
      else if rr.2 == r0.2 && rr.1.disk == r0.1.disk && rr.1.mem == r0.1.mem then "same" else "differs"
    s!"res=err disk={disk} mem={if memSame then "same" else "changed"} retry={retry}"
  | .ok =>
    if !fired then "res=ok-nofault disk=- mem=- retry=-"
    else if r.1.disk == r0.1.disk && r.1.mem == r0.1.mem && r0.2 == .ok then "res=ok-full disk=- mem=- retry=-"
    else "res=ok-partial disk=- mem=- retry=-"

/-- state: the kind of the state built by the last `hist` line (Go: a runner without state answers `no-state`). -/
def step (st : Option String) (line : String) : Option String × String :=
  let t := words line
  match t with
  | "hist" :: rest =>
    match kv rest "kind", (kv rest "seed").bind String.toInt?, (kv rest "len").bind String.toNat? with
    | some kind, some _, some _ =>
      if kind == "tx" || kind == "addr" then (some kind, "ok") else (st, "bad-op")
    | _, _, _ => (st, "bad-op")
  | "fault" :: rest =>
    match kv rest "kind", kv rest "op", (kv rest "k").bind String.toNat?, (kv rest "n").bind String.toNat?,
          (kv rest "prog").bind parseProg with
    | some kind, some op, some k, some n, some shapes =>
      -- `tail=1`: the operation succeeds and a later write of the same transaction fails (k = n+1); that
      -- write is outside the operation, its (empty) chain propagates
      let tail := kv rest "tail"
      if op.isEmpty || k < 1 || !(kind == "tx" || kind == "addr") then (st, "bad-op")
      else if tail.isSome && (tail != some "1" || k != n + 1) then (st, "bad-op")
      else if st != some kind then (st, "no-state")
      else if nWrites shapes != n then (st, "bad-n")
      else
        match (framesOf shapes).find? (fun f => (ErrSitesGen.table.lookup f).isNone) with
        | some f => (st, s!"unknown-site {f}")
        | none => (st, reply (if tail.isSome then shapes ++ [.w []] else shapes) k)
    | _, _, _, _, _ => (st, "bad-op")
  | _ => (st, "bad-op")

def run (i o : IO.FS.Stream) : IO Unit := loop i o (none : Option String) step

end EngFaultOps
