import BtcwVerif.Model.Ledger
import BtcwVerif.Model.TxInv
-- engine: txstore
import Driver.Proto
import Driver.RefFuzz
open Proto TxStore

/-! Driver engine `txstore` (C01 C02 C12 C13): runs the `TxStore` model op by op (ops mirror the Go API of
`wtxmgr.Store`) and, next to it, the `Ledger` specification on the same events (`spec …` ops). -/
namespace EngTxStore

/-! ### formatting -/

def hexDigit (n : Nat) : Char := "0123456789abcdef".toList.getD n '0'

def toHexN : Nat → Nat → List Char → List Char
  | 0, _, acc => acc
  | w + 1, n, acc => toHexN w (n / 16) (hexDigit (n % 16) :: acc)

def hex64 (n : Nat) : String := String.ofList (toHexN 64 n [])
/-- short printed form of a hash: first 12 hex digits of the 32 bytes -/
def h12 (n : Nat) : String := String.ofList ((toHexN 64 n []).take 12)

def hexVal (c : Char) : Option Nat :=
  if '0' ≤ c ∧ c ≤ '9' then some (c.toNat - '0'.toNat)
  else if 'a' ≤ c ∧ c ≤ 'f' then some (c.toNat - 'a'.toNat + 10)
  else none

def parseHex (s : String) : Option Nat :=
  if s.isEmpty then none else
  s.toList.foldlM (fun acc c => do let d ← hexVal c; pure (acc * 16 + d)) 0

def b01 (b : Bool) : String := if b then "1" else "0"
def showOp (o : OutPoint) : String := s!"{h12 o.hash}:{o.index}"

def parseOp (s : String) : Option OutPoint :=
  match s.splitOn ":" with
  | [h, i] => do let h ← parseHex h; let i ← i.toNat?; pure ⟨h, i⟩
  | _ => none

def showErr : Err → String
  | .data => "data" | .input => "input" | .database => "database" | .duplicate => "duplicate"
  | .unknownOutput => "unknown-output" | .alreadyLocked => "already-locked"
  | .unlockNotAllowed => "unlock-not-allowed" | .fuel => "fuel" | .panic => "panic"

def showBlockOpt : Option BlockMeta → String
  | none => "-1/-/0"
  | some bm => s!"{bm.block.height}/{h12 bm.block.hash}/{bm.time}"

def showDetails (d : Details) : String :=
  let cr := d.credits.map fun c => s!"{c.index}:{c.amount}:{b01 c.spent}:{b01 c.change}"
  let db := d.debits.map fun x => s!"{x.index}:{x.amount}"
  s!"{h12 d.tx.hash}@{showBlockOpt d.block}" ++ "{c" ++ joinWith "," cr ++ "}{d" ++ joinWith "," db ++ "}"

def showCredit (c : Credit) : String :=
  s!"{showOp c.op}={c.amount}@{showBlockOpt c.block}/{b01 c.fromCoinBase}"

def opLe (a b : OutPoint) : Bool := a.hash < b.hash || (a.hash == b.hash && a.index ≤ b.index)

def sortCredits (l : List Credit) : List Credit := l.mergeSort fun a b => opLe a.op b.op
def sortDetails (l : List Details) : List Details := l.mergeSort fun a b => a.tx.hash ≤ b.tx.hash
def sortNats (l : List Nat) : List Nat := l.mergeSort (· ≤ ·)

def showBatches (bs : List (List Details)) : String :=
  joinWith " | " (bs.map fun b => joinWith ";" (b.map showDetails))

def showM {α : Type} (r : M α) (f : α → String) : String :=
  match r with
  | .ok a => let t := f a; if t.isEmpty then "ok" else "ok " ++ t
  | .error e => "err " ++ showErr e

/-! ### state -/

structure St where
  txs : List (String × Tx) := []
  s : Store := {}
  L : Ledger.Ledger := {}
  now : Nat := 0
  maturity : Int := 100
  cons : Bool := true
  strict : Bool := true     -- `cons` and the extra hypotheses of the refinement theorems (`Ledger.extra`)
  snaps : List (String × String × String) := []

def St.tx? (st : St) (tid : String) : Option Tx := st.txs.lookup tid

def minConfs (mat : Int) : List Int := [0, 1, 2, 6, mat - 1, mat, mat + 1]
def syncs (top mat : Int) : List Int := [top, top + 1, top + mat]

def grid (mat top : Int) : List (Int × Int) := (minConfs mat).flatMap fun m => (syncs top mat).map fun s => (m, s)

/-- `probe`: balances over the grid, spendable outputs, unconfirmed hashes, leases — implementation model. -/
def probeImpl (st : St) (top : Int) : String :=
  let bals := (grid st.maturity top).map fun (m, sy) =>
    match balance st.s st.now st.maturity m sy with
    | .ok v => s!"{m}/{sy}:{v}"
    | .error e => s!"{m}/{sy}:err-{showErr e}"
  let ut := match unspentOutputs st.s st.now with
    | .ok l => joinWith "," (l.map showCredit)
    | .error e => "err-" ++ showErr e
  let un := joinWith "," ((unminedTxHashes st.s).map h12)
  let lk := joinWith "," ((listLockedOutputs st.s st.now).map fun (o, l) => s!"{showOp o}={l.id}/{l.expiry}")
  s!"bal={joinWith "," bals} utxos={ut} unmined={un} locked={lk}"

/-- `spec probe`: the same observables from the specification (sorted). -/
def probeSpec (st : St) (top : Int) : String :=
  let L := { st.L with now := st.now }
  let bals := (grid st.maturity top).map fun (m, sy) => s!"{m}/{sy}:{Ledger.balance L st.maturity m sy}"
  let ut := joinWith "," ((sortCredits (Ledger.utxos L)).map showCredit)
  let un := joinWith "," ((sortNats (Ledger.poolHashes L)).map h12)
  let lk := (Ledger.locked L).mergeSort (fun a b => opLe a.1 b.1)
  let lk := joinWith "," (lk.map fun (o, l) => s!"{showOp o}={l.id}/{l.expiry}")
  s!"bal={joinWith "," bals} utxos={ut} unmined={un} locked={lk}"

def showFacts (L : Ledger.Ledger) : String :=
  let bl := L.chain.map fun b =>
    s!"{b.bm.block.height}/{h12 b.bm.block.hash}/{b.bm.time}[" ++ joinWith "," ((sortNats (b.txs.map (·.hash))).map h12) ++ "]"
  let cr := L.credit.mergeSort (fun a b => opLe a.1 b.1)
  s!"chain={joinWith "," bl} pool={joinWith "," ((sortNats (L.pool.map (·.hash))).map h12)} " ++
    s!"credit={joinWith "," (cr.map fun (o, c) => showOp o ++ "/" ++ b01 c)}"

/-- everything C02 compares between two histories (canonical order) -/
def observables (st : St) (top : Int) : String :=
  let bals := (grid st.maturity top).map fun (m, sy) =>
    match balance st.s st.now st.maturity m sy with
    | .ok v => s!"{m}/{sy}:{v}"
    | .error e => s!"{m}/{sy}:err-{showErr e}"
  let ut := match unspentOutputs st.s st.now with
    | .ok l => joinWith "," ((sortCredits l).map showCredit)
    | .error e => "err-" ++ showErr e
  let un := joinWith "," ((sortNats (unminedTxHashes st.s)).map h12)
  let hs := sortNats (st.txs.map (·.2.hash))
  let ds := hs.map fun h => showM (txDetails st.s h) fun
    | none => h12 h ++ "=none"
    | some d => showDetails d
  let rg := showM (rangeTransactions st.s 0 (-1)) fun bs => showBatches (bs.map sortDetails)
  s!"bal={joinWith "," bals} utxos={ut} unmined={un} details={joinWith ";" ds} range={rg}"

def dump (s : Store) : String :=
  let blocks := s.blocks.map fun (h, b) => s!"{h}/{h12 b.hash}/{b.time}[" ++ joinWith "," (b.txs.map h12) ++ "]"
  let ck (k : CredKey) := s!"{h12 k.hash}/{k.block.height}/{h12 k.block.hash}/{k.index}"
  let txrecs := s.txrecs.map fun (k, t) => s!"{h12 k.hash}/{k.block.height}/{h12 k.block.hash}={h12 t.hash}"
  let credits := s.credits.map fun (k, v) =>
    s!"{ck k}={v.amount}/{b01 v.spent}/{b01 v.change}/" ++ (match v.spender with | none => "-" | some sp => ck sp)
  let unspent := s.unspent.map fun (o, b) => s!"{showOp o}={b.height}/{h12 b.hash}"
  let debits := s.debits.map fun (k, v) => s!"{ck k}={v.amount}/{ck v.credKey}"
  let unmined := s.unmined.map fun (h, t) => s!"{h12 h}={h12 t.hash}"
  let ucred := s.unminedCredits.map fun (o, u) => s!"{showOp o}={u.amount}/{b01 u.change}"
  let uin := s.unminedInputs.map fun (o, l) => s!"{showOp o}=" ++ joinWith "+" (l.map h12)
  let locked := s.locked.map fun (o, l) => s!"{showOp o}={l.id}/{l.expiry}"
  s!"bal={s.minedBalance} b={joinWith "," blocks} t={joinWith "," txrecs} c={joinWith "," credits} " ++
  s!"u={joinWith "," unspent} d={joinWith "," debits} m={joinWith "," unmined} mc={joinWith "," ucred} " ++
  s!"mi={joinWith "," uin} lo={joinWith "," locked}"

/-! ### parsing -/

def parseBlockMeta : List String → Option (Option BlockMeta)
  | [] => some none
  | [h, bh, t] => do
    let h ← h.toNat?; let bh ← parseHex bh; let t ← t.toNat?
    pure (some ⟨⟨h, bh⟩, t⟩)
  | _ => none

def parseBlock : List String → Option (Option Block)
  | [] => some none
  | [h, bh] => do let h ← h.toNat?; let bh ← parseHex bh; pure (some ⟨h, bh⟩)
  | _ => none

def parseCredits (s : String) : Option (List (Nat × Bool)) :=
  (csv s).mapM fun t =>
    match t.splitOn ":" with
    | [i, c] => do let i ← i.toNat?; if c == "1" then pure (i, true) else if c == "0" then pure (i, false) else none
    | _ => none

def positional (toks : List String) : List String := toks.filter fun t => !(t.contains '=')

/-! ### events on the model: the API call sequence of `wallet.addRelevantTx` in one DB transaction -/

/-- `TxStore.addRelevantTx` (Model/Refine.lean) -/
def evInsert (force : Bool) (s : Store) (t : Tx) (bm : Option BlockMeta) (cr : List (Nat × Bool)) : M (Bool × Store) :=
  addRelevantTx force s t bm cr

def applyEv (st : St) (e : Ledger.Event) : St :=
  let L := { st.L with now := st.now }
  let c := st.cons && Ledger.consistent L e
  { st with L := Ledger.apply L e, cons := c, strict := st.strict && c && Ledger.extra L e }

def specNA (st : St) (f : Unit → String) : String := if st.cons then f () else "ok n/a"

def step (st : St) (line : String) : St × String :=
  let toks := words line
  let pos := positional toks
  match pos with
  | ["reset"] =>
    let mat := ((kv toks "mat").bind String.toInt?).getD 100
    ({ st with s := {}, L := {}, now := 0, cons := true, strict := true, maturity := mat }, "ok")
  | ["deftx", tid, h] =>
    match parseHex h, (kv toks "ins").bind (fun s => (csv s).mapM parseOp), (kv toks "outs").bind (fun s => (csv s).mapM String.toInt?) with
    | some h, some ins, some outs =>
      ({ st with txs := (tid, ⟨h, ins, outs⟩) :: st.txs.filter (·.1 != tid) }, "ok")
    | _, _, _ => (st, "bad-op")
  | "ev" :: kind :: tid :: rest =>
    match st.tx? tid, parseBlockMeta rest, parseCredits ((kv toks "cr").getD "") with
    | some t, some bm, some cr =>
      if ((kind == "seen" || kind == "seen!") && bm.isNone) || ((kind == "conf" || kind == "conf!") && bm.isSome) then
        match evInsert (kind.endsWith "!") st.s t bm cr with
        | .ok (ex, s') =>
          let e := match bm with
            | none => Ledger.Event.seen t cr
            | some b => Ledger.Event.confirmed b t cr
          let st' := applyEv { st with s := s' } e
          (st', s!"ok exists={b01 ex} cons={b01 st'.cons} strict={b01 (st'.cons && st'.strict)}")
        | .error e => ({ st with cons := false }, "err " ++ showErr e)
      else (st, "bad-op")
    | _, _, _ => (st, "bad-op")
  | "inserttx" :: tid :: rest =>
    match st.tx? tid, parseBlockMeta rest with
    | some t, some bm =>
      match insertTx st.s t bm with
      | .ok (ex, s') => ({ st with s := s', cons := false }, s!"ok exists={b01 ex}")
      | .error e => ({ st with cons := false }, "err " ++ showErr e)
    | _, _ => (st, "bad-op")
  | "addcredit" :: tid :: i :: c :: rest =>
    match st.tx? tid, i.toNat?, parseBlockMeta rest with
    | some t, some i, some bm =>
      if c != "0" && c != "1" then (st, "bad-op") else
      match addCredit st.s t bm i (c == "1") with
      | .ok s' => ({ st with s := s', cons := false }, "ok")
      | .error e => ({ st with cons := false }, "err " ++ showErr e)
    | _, _, _ => (st, "bad-op")
  | ["rollback", h] =>
    match h.toInt? with
    | some h =>
      match rollback st.s h with
      | .ok s' => let st' := applyEv { st with s := s' } (.disconnected h); (st', s!"ok cons={b01 st'.cons} strict={b01 (st'.cons && st'.strict)}")
      | .error e => ({ st with cons := false }, "err " ++ showErr e)
    | none => (st, "bad-op")
  | ["removeunmined", tid] =>
    match st.tx? tid with
    | some t =>
      match removeUnminedTx st.s t with
      | .ok s' => let st' := applyEv { st with s := s' } (.abandoned t); (st', s!"ok cons={b01 st'.cons} strict={b01 (st'.cons && st'.strict)}")
      | .error e => ({ st with cons := false }, "err " ++ showErr e)
    | none => (st, "bad-op")
  | ["clock", t] =>
    match t.toNat? with
    | some t => (applyEv { st with now := t } (.clock t), "ok")
    | none => (st, "bad-op")
  | ["lock", id, op, d] =>
    match id.toNat?, parseOp op, d.toInt? with
    | some id, some op, some d =>
      match lockOutput st.s st.now id op d with
      | .ok (exp, s') => (applyEv { st with s := s' } (.lease id op d), s!"ok {exp}")
      | .error e => (applyEv st (.lease id op d), "err " ++ showErr e)
    | _, _, _ => (st, "bad-op")
  | ["unlock", id, op] =>
    match id.toNat?, parseOp op with
    | some id, some op =>
      match unlockOutput st.s st.now id op with
      | .ok s' => (applyEv { st with s := s' } (.release id op), "ok")
      | .error e => (applyEv st (.release id op), "err " ++ showErr e)
    | _, _ => (st, "bad-op")
  | ["sweep"] => (applyEv { st with s := deleteExpiredLockedOutputs st.s st.now } .sweep, "ok")
  | ["reopen"] => (st, "ok")
  | ["listlocked"] =>
    (st, showM (pure (listLockedOutputs st.s st.now) : M _) fun l =>
      joinWith "," (l.map fun (o, l) => s!"{showOp o}={l.id}/{l.expiry}"))
  | ["balance", m, sy] =>
    match m.toInt?, sy.toInt? with
    | some m, some sy => (st, showM (balance st.s st.now st.maturity m sy) toString)
    | _, _ => (st, "bad-op")
  | ["utxos"] => (st, showM (unspentOutputs st.s st.now) fun l => joinWith "," (l.map showCredit))
  | ["watch"] => (st, showM (outputsToWatch st.s st.now) fun l => joinWith "," (l.map fun c => showOp c.op))
  | ["unminedhashes"] => (st, "ok " ++ joinWith "," ((unminedTxHashes st.s).map h12))  -- (Go prints the same, incl. the blank)
  | ["probe", top] =>
    match top.toInt? with
    | some top => (st, "ok " ++ probeImpl st top)
    | none => (st, "bad-op")
  | ["details", h] =>
    match parseHex h with
    | some h => (st, showM (txDetails st.s h) fun | none => "none" | some d => showDetails d)
    | none => (st, "bad-op")
  | "udetails" :: h :: rest =>
    match parseHex h, parseBlock rest with
    | some h, some b => (st, showM (uniqueTxDetails st.s h b) fun | none => "none" | some d => showDetails d)
    | _, _ => (st, "bad-op")
  | ["range", b, e] =>
    match b.toInt?, e.toInt? with
    | some b, some e => (st, showM (rangeTransactions st.s b e) showBatches)
    | _, _ => (st, "bad-op")
  | "prevscripts" :: tid :: rest =>
    match st.tx? tid, parseBlock rest with
    | some t, some b => (st, showM (previousPkScripts st.s t b) fun l => joinWith "," (l.map showOp))
    | _, _ => (st, "bad-op")
  | ["dump"] => (st, "ok " ++ dump st.s)
  | ["snap", name, top] =>
    match top.toInt? with
    | some top =>
      let o := observables st top
      let f := if st.cons then showFacts st.L else "n/a"
      ({ st with snaps := (name, o, f) :: st.snaps.filter (·.1 != name) }, "ok")
    | none => (st, "bad-op")
  | ["cmpsnap", name, top] =>
    match top.toInt?, st.snaps.lookup name with
    | some top, some (o, f) =>
      let f' := if st.cons then showFacts st.L else "n/a"
      (st, if f != f' then "ok facts-differ" else if observables st top == o then "ok same" else "ok differ")
    | _, _ => (st, "bad-op")
  | ["spec", "probe", top] =>
    match top.toInt? with
    | some top => (st, specNA st fun _ => "ok " ++ probeSpec st top)
    | none => (st, "bad-op")
  | ["spec", "details", h] =>
    match parseHex h with
    | some h => (st, specNA st fun _ =>
        match Ledger.details { st.L with now := st.now } h with
        | none => "ok none"
        | some d => "ok " ++ showDetails d)
    | none => (st, "bad-op")
  | ["spec", "range", b, e] =>
    match b.toInt?, e.toInt? with
    | some b, some e => (st, specNA st fun _ =>
        let t := showBatches ((Ledger.range { st.L with now := st.now } b e).map sortDetails)
        if t.isEmpty then "ok" else "ok " ++ t)
    | _, _ => (st, "bad-op")
  | ["spec", "watch"] =>
    (st, specNA st fun _ =>
      let l := (Ledger.watchSet st.L).mergeSort opLe
      if l.isEmpty then "ok" else "ok " ++ joinWith "," (l.map showOp))
  | ["inv", top] =>
    match top.toInt? with
    | some top => (st, specNA st fun _ =>
        let t := (grid st.maturity top).all fun (m, sy) =>
          balance st.s st.now st.maturity m sy == .ok (storeTruth st.s st.now st.maturity m sy)
        s!"ok inv={b01 (invB st.s && wfB st.s && debitsB st.s && spentHaveDebitsB st.s && unminedB st.s)} truth={b01 t}")
    | none => (st, "bad-op")
  | ["refcheck"] =>
    -- the refinement relation store ~ ledger and the ledger's well-formedness, after a consistent history
    (st, specNA st fun _ =>
      let L := { st.L with now := st.now }
      let bad := ((Ledger.refinesList st.s L).filter (!·.2)).map (·.1) ++ ((Ledger.lwfList L).filter (!·.2)).map (·.1)
      if bad.isEmpty || !st.strict then "ok ref=1" else "ok ref=0 " ++ joinWith "," bad)
  | ["reffuzz", seed, n, len, strict] =>
    match seed.toNat?, n.toNat?, len.toNat? with
    | some seed, some n, some len =>
      match RefFuzz.fuzz seed n len (strict == "1") with
      | (none, _) => (st, "ok ref=1")
      | (some f, _) => (st, "ok ref=0 " ++ f)
    | _, _, _ => (st, "bad-op")
  | ["reffuzzn", seed, n, len, strict] =>
    match seed.toNat?, n.toNat?, len.toNat? with
    | some seed, some n, some len =>
      match RefFuzz.fuzz seed n len (strict == "1") (strict == "2") with
      | (none, a) => (st, s!"ok ref=1 applied={a}")
      | (some f, a) => (st, s!"ok ref=0 applied={a} " ++ f)
    | _, _, _ => (st, "bad-op")
  | ["spec", "facts"] => (st, specNA st fun _ => "ok " ++ showFacts st.L)
  | _ => (st, "bad-op")

def run (i o : IO.FS.Stream) : IO Unit := loop i o ({} : St) step

end EngTxStore
