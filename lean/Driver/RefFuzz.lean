import BtcwVerif.Model.Refine
/-! Random consistent histories generated inside Lean: after every event the refinement relation, the ledger's
well-formedness, the store invariants and the equality of all observables are evaluated (op `reffuzz`).  Core only. -/
namespace RefFuzz
open TxStore Ledger

structure Rng where
  s : Nat

def Rng.next (r : Rng) : Rng := ⟨(r.s * 6364136223846793005 + 1442695040888963407) % 18446744073709551616⟩
/-- a number below `n` -/
def Rng.pick (r : Rng) (n : Nat) : Nat × Rng := let r' := r.next; ((r'.s / 4294967296) % (if n = 0 then 1 else n), r')

def pickList {α : Type} [Inhabited α] (r : Rng) (l : List α) : α × Rng :=
  let (i, r) := r.pick l.length
  (l.getD i default, r)

def iter {σ : Type} : Nat → σ → (σ → σ) → σ
  | 0, s, _ => s
  | n + 1, s, f => iter n (f s) f

def genTx (r : Rng) (i : Nat) : Tx × Rng :=
  let (c, r) := r.pick 6
  let (nOut, r) := r.pick 3
  let (outs, r) := iter (nOut + 1) (([] : List Int), r) fun (l, r) =>
    let (v, r) := pickList r [0, 1000, 2500, 40000, 700]
    (l ++ [v], r)
  if c = 0 then (⟨i, [⟨0, nullIndex⟩], outs⟩, r)
  else
    let (nIn, r) := r.pick 3
    let (ins, r) := iter (nIn + 1) (([] : List OutPoint), r) fun (l, r) =>
      let (k, r) := r.pick 5
      if k = 0 || i = 1 then
        let (f, r) := r.pick 3
        (l ++ [⟨100 + f, 0⟩], r)
      else if k = 1 && !l.isEmpty then (l ++ [l.getD 0 default], r)       -- duplicated input
      else
        let (p, r) := r.pick (i - 1)
        let (o, r) := r.pick 3
        (l ++ [⟨p + 1, o⟩], r)
    (⟨i, ins, outs⟩, r)

def genUniverse (r : Rng) : List Tx × Rng :=
  let (n, r) := r.pick 6
  let n := n + 3
  let (l, r, _) := iter n (([] : List Tx), r, 1) fun (l, r, i) => let (t, r) := genTx r i; (l ++ [t], r, i + 1)
  (l, r)

def genCredits (r : Rng) (t : Tx) : List (Nat × Bool) × Rng :=
  let (l, r, _) := iter t.outs.length (([] : List (Nat × Bool)), r, 0) fun (l, r, i) =>
    let (k, r) := r.pick 3
    if k = 0 then (l, r, i + 1) else (l ++ [(i, decide (k = 1))], r, i + 1)
  let (k, r) := r.pick 12
  if k = 0 then (l ++ [(t.outs.length, false)], r) else (l, r)

def genEvent (r : Rng) (u : List Tx) (now : Nat) : Event × Rng :=
  let (k, r) := r.pick 16
  let (t, r) := pickList r u
  if k < 4 then
    let (cr, r) := genCredits r t
    (.seen t cr, r)
  else if k < 10 then
    let (cr, r) := genCredits r t
    let (h, r) := r.pick 5
    let (b, r) := r.pick 2
    (.confirmed ⟨⟨h + 1, (h + 1) * 10 + b⟩, 1000 + h⟩ t cr, r)
  else if k < 12 then
    let (h, r) := r.pick 7
    (.disconnected h, r)
  else if k = 12 then (.abandoned t, r)
  else if k = 13 then
    let (id, r) := r.pick 2
    let (o, r) := r.pick 3
    let (d, r) := pickList r [1000000000, 1500000000, 0, 10000000000]
    (.lease id ⟨t.hash, o⟩ d, r)
  else if k = 14 then
    let (id, r) := r.pick 2
    let (o, r) := r.pick 3
    let (j, r) := r.pick 3
    if j = 0 then (.sweep, r) else (.release id ⟨t.hash, o⟩, r)
  else
    let (d, r) := pickList r [500000000, 1000000000, 2000000000, 20000000000]
    (.clock (now + d), r)

def opLe (a b : OutPoint) : Bool := a.hash < b.hash || (a.hash == b.hash && a.index ≤ b.index)
def sortCredits (l : List Credit) : List Credit := l.mergeSort fun a b => opLe a.op b.op
def sortDetails (l : List Details) : List Details := l.mergeSort fun a b => a.tx.hash ≤ b.tx.hash

def showEvent : Event → String
  | .seen t cr => s!"seen {t.hash} {cr}"
  | .confirmed bm t cr => s!"conf {t.hash}@{bm.block.height}/{bm.block.hash} {cr}"
  | .disconnected h => s!"disc {h}"
  | .abandoned t => s!"aband {t.hash}"
  | .lease id op d => s!"lease {id} {op.hash}:{op.index} {d}"
  | .release id op => s!"release {id} {op.hash}:{op.index}"
  | .sweep => "sweep"
  | .clock t => s!"clock {t}"

def showTx (t : Tx) : String :=
  s!"{t.hash}<-{t.ins.map fun i => (i.hash, i.index)}->{t.outs}"

/-- names of the failing checks after a step -/
def checks (strict : Bool) (s : Store) (L : Ledger) (u : List Tx) (mat : Int) : List String :=
  let top : Int := topHeight L
  let bad := ((refinesList s L).filter (!·.2)).map (fun p => "ref." ++ p.1) ++
    (((lwfList L).filter (!·.2)).map (fun p => "lwf." ++ p.1)).filter fun n => strict || (n != "lwf.poolNoChainConflict" && n != "lwf.validRefs")
  let bad := if invB s && wfB s && debitsB s && spentHaveDebitsB s && unminedB s then bad else bad ++ ["storeinv"]
  let grid : List (Int × Int) := [0, 1, 2, mat - 1, mat, mat + 1, -1].flatMap fun m => [top, top + 1, top + mat, 0].map fun sy => (m, sy)
  let bad := if grid.all (fun (m, sy) => TxStore.balance s L.now mat m sy == .ok (Ledger.balance L mat m sy)) then bad
    else bad ++ ["balance"]
  let bad := if (unspentOutputs s L.now).map sortCredits == .ok (sortCredits (utxos L)) then bad else bad ++ ["utxos"]
  let bad := if (outputsToWatch s L.now).map (fun l => (l.map (·.op)).mergeSort opLe) == .ok ((watchSet L).mergeSort opLe) then bad
    else bad ++ ["watch"]
  let bad := if u.all (fun t => txDetails s t.hash == .ok (details L t.hash)) then bad else bad ++ ["details"]
  let pairs : List (Int × Int) := [(0, -1), (-1, 0), (2, 4), (4, 2), (3, 3), (-1, -1), (0, 0)]
  let bad := if pairs.all (fun (b, e) => (rangeTransactions s b e).map (·.map sortDetails) == .ok ((range L b e).map sortDetails)) then bad
    else bad ++ ["range"]
  let bad := if (listLockedOutputs s L.now).map (fun p => (p.1, p.2.id, p.2.expiry * 1000000000)) ==
      ((locked L).mergeSort (fun a b => opLe a.1 b.1)).map (fun p => (p.1, p.2.id, p.2.expiry)) then bad else bad ++ ["locked"]
  bad

structure Run where
  s : Store := {}
  L : Ledger := {}
  r : Rng
  hist : List String := []
  fail : Option String := none
  applied : Nat := 0

def oneHistory (seed : Nat) (len : Nat) (strict : Bool) (mat : Int) (refsOnly : Bool := false) : Option String × Nat :=
  let (u, r) := genUniverse ⟨seed⟩
  let fin := iter len ({ r := r } : Run) fun st =>
    if st.fail.isSome then st else
    let (e, r) := genEvent st.r u st.L.now
    let st := { st with r := r }
    if !(consistent st.L e && (!strict || extra st.L e) && (!refsOnly || extra st.L e false)) then st else
    let hist := st.hist ++ [showEvent e]
    match stepEvent st.s st.L.now e with
    | .error _ => { st with fail := some ("step-error after " ++ toString hist), hist := hist }
    | .ok s' =>
      let L' := apply st.L e
      let bad := checks strict s' L' u mat
      if bad.isEmpty then { st with s := s', L := L', hist := hist, applied := st.applied + 1 }
      else { st with fail := some (s!"{bad} universe={u.map showTx} history={hist}"), hist := hist }
  (fin.fail, fin.applied)

/-- `n` histories of up to `len` candidate events each; first failure (if any) and the number of applied events -/
def fuzz (seed n len : Nat) (strict : Bool) (refsOnly : Bool := false) : Option String × Nat :=
  let (f, a, _) := iter n ((none : Option String), 0, seed) fun (f, a, sd) =>
    if f.isSome then (f, a, sd) else
    let (f', k) := oneHistory (sd * 7919 + 13) len strict (if sd % 2 = 0 then 2 else 3) refsOnly
    (f', a + k, sd + 1)
  (f, a)

end RefFuzz
