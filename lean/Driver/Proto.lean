/-! Line-protocol helpers shared by all engines of the model driver (core only). -/
namespace Proto

def words (s : String) : List String :=
  (s.splitOn " ").filter (· ≠ "")

/-- `key=value` lookup among tokens. -/
def kv (toks : List String) (k : String) : Option String :=
  toks.findSome? fun t =>
    match t.splitOn "=" with
    | a :: rest => if a == k && !rest.isEmpty then some ("=".intercalate rest) else none
    | _ => none

def csv (s : String) : List String := if s.isEmpty then [] else s.splitOn ","

def natList? (s : String) : Option (List Nat) := (csv s).mapM String.toNat?

def intOf? (s : String) : Option Int := s.toInt?

def joinWith (sep : String) (l : List String) : String := sep.intercalate l

partial def loop {σ : Type} (h : IO.FS.Stream) (out : IO.FS.Stream) (s : σ) (step : σ → String → σ × String) : IO Unit := do
  let line ← h.getLine
  if line.isEmpty then return ()
  let l := line.trimAsciiEnd.toString
  if l.isEmpty || l.startsWith "#" then
    loop h out s step
  else
    let (s', r) := step s l
    out.putStrLn r
    loop h out s' step

end Proto
