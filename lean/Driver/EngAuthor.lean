import BtcwVerif.Model.Author
-- engine: author
import Driver.Proto
open Proto SizesExt Author

namespace EngAuthor

def b01 (b : Bool) : String := if b then "1" else "0"

/-- `v:tok` or `v:tok*N` -/
def parseOuts (s : String) : Option (List TxOut) := do
  let parts ← (csv s).mapM fun t =>
    match t.splitOn "*" with
    | [a] => some (a, 1)
    | [a, n] => n.toNat?.map fun n => (a, n)
    | _ => none
  let l ← parts.mapM fun (a, n) =>
    match a.splitOn ":" with
    | [v, tok] => do
      let v ← v.toInt?
      let sc ← Script.ofToken tok
      pure (List.replicate n (⟨v, sc⟩ : TxOut))
    | _ => none
  pure l.flatten

def parseCoins (s : String) : Option (List Coin) :=
  (csv s).mapM fun t =>
    match t.splitOn ":" with
    | [v, tok] => do
      let v ← v.toInt?
      let sc ← Script.ofToken tok
      pure (⟨v, sc⟩ : Coin)
    | _ => none

def parseCS (s : String) : Option ChangeSource :=
  match s.splitOn ":" with
  | [n, tok] => do
    let n ← n.toInt?
    if tok == "err" then pure ⟨n, none⟩ else do
      let sc ← Script.ofToken tok
      pure ⟨n, some sc⟩
  | _ => none

def intList? (s : String) : Option (List Int) := (csv s).mapM String.toInt?

def showTargets (l : List Int) : String := joinWith ";" (l.map toString)

def showErr : Err → String
  | .source => "source" | .insufficient => "insufficient" | .changeScript => "change"

def showOutcome (o : Outcome × List Int) (sigs : Option (List Int)) : String :=
  match o.1 with
  | .fuel => "fuel"
  | .err e => s!"err={showErr e} targets={showTargets o.2}"
  | .ok r =>
    let chg := match r.changeIdx with
      | none => "none"
      | some i => s!"{i}:{(r.outs.getD i default).Value}"
    let base := s!"ok n={r.inputs.length} total={r.total} nout={r.outs.length} chg={chg} fee={r.fee} targets={showTargets o.2} st=1"
    match sigs with
    | none => base
    | some sg =>
      if sg.length ≠ r.inputs.length then "bad-sigs"
      else
        let ins := signedInputs r sg
        s!"{base} w={realWeight ins r.outs} vs={realVSize ins r.outs}"

def runAuthor (rest : List String) : String :=
  match kv rest "rate", kv rest "outs", kv rest "cs", kv rest "coins", kv rest "src", kv rest "failat" with
  | some rate, some outs, some cs, some coins, some src, some failat =>
    match rate.toInt?, parseOuts outs, parseCS cs, parseCoins coins, failat.toNat? with
    | some rate, some outs, some cs, some coins, some k =>
      let sigs := (kv rest "sigs").map intList?
      match sigs with
      | some none => "bad-op"
      | _ =>
        let sigs := sigs.bind id
        let fuel := coins.length + 3
        if src == "prefix" then
          showOutcome (newUnsignedWith genCfg (failingAt prefixSource k) (0, prefixInit coins) outs rate cs fuel) sigs
        else if src == "const" then
          showOutcome (newUnsignedWith genCfg (failingAt constSource k) (0, coins) outs rate cs fuel) sigs
        else "bad-op"
    | _, _, _, _, _ => "bad-op"
  | _, _, _, _, _, _ => "bad-op"

def step (_ : Unit) (line : String) : Unit × String :=
  let t := words line
  match t with
  | "author" :: rest => ((), runAuthor rest)
  | "wchange" :: rest =>
    match (kv rest "acct").bind AcctKind.ofString, (kv rest "rate").bind String.toInt?, (kv rest "coin").bind String.toInt?,
          (kv rest "pay").bind String.toInt?, Script.ofToken "wpkh" with
    | some k, some rate, some _, some pay, some sc =>
      let cs := k.changeSize
      ((), s!"wchange nin=1 chg={if cs == 23 then "nested" else "p2wpkh"} chglen={cs} fee={walletChangeFee k rate [⟨pay, sc⟩]}")
    | _, _, _, _, _ => ((), "bad-op")
  | "script" :: rest =>
    match (kv rest "tok").bind Script.ofToken with
    | some s => ((), s!"script len={s.len} sh={b01 s.isP2SH} wpkh={b01 s.isP2WPKH} tr={b01 s.isP2TR} wit={b01 s.isWitness} unsp={b01 s.isUnspendable} nd={b01 s.isNullData}")
    | none => ((), "bad-op")
  | "dust" :: rest =>
    match (kv rest "val").bind String.toInt?, (kv rest "tok").bind Script.ofToken, (kv rest "relay").bind String.toInt? with
    | some v, some s, some r =>
      let o : TxOut := ⟨v, s⟩
      ((), s!"dust dust={b01 (SizesGen.IsDustOutput o r)} mdust={b01 (mempool_IsDust o r)} thr={mempool_GetDustThreshold o} ser={o.SerializeSize}")
    | _, _, _ => ((), "bad-op")
  | "est" :: rest =>
    match (kv rest "p").bind String.toInt?, (kv rest "t").bind String.toInt?, (kv rest "w").bind String.toInt?,
          (kv rest "n").bind String.toInt?, (kv rest "outs").bind parseOuts, (kv rest "cs").bind String.toInt? with
    | some p, some t, some w, some n, some outs, some cs =>
      ((), s!"est vsize={SizesGen.EstimateVirtualSize p t w n outs cs} sum={SizesGen.SumOutputSerializeSizes outs} vals={SizesGen.SumOutputValues outs}")
    | _, _, _, _, _, _ => ((), "bad-op")
  | "ser" :: rest =>
    match (kv rest "in").bind String.toInt?, (kv rest "outs").bind parseOuts, kv rest "chg" with
    | some n, some outs, some c =>
      if c == "0" || c == "1" then ((), s!"ser size={SizesGen.EstimateSerializeSize n outs (c == "1")}") else ((), "bad-op")
    | _, _, _ => ((), "bad-op")
  | "fee" :: rest =>
    match (kv rest "rate").bind String.toInt?, (kv rest "size").bind String.toInt? with
    | some r, some s => ((), s!"fee fee={SizesGen.FeeForSerializeSize r s}")
    | _, _ => ((), "bad-op")
  | "minin" :: rest =>
    match (kv rest "tok").bind Script.ofToken with
    | some s => ((), s!"minin vsize={SizesGen.GetMinInputVirtualSize s}")
    | none => ((), "bad-op")
  | _ => ((), "bad-op")

def run (i o : IO.FS.Stream) : IO Unit := loop i o () step

end EngAuthor
